import Simaple.Model.ComponentWind
import Simaple.Proofs.Component
import Simaple.Proofs.EntityTimers
import Simaple.Proofs.EntityPeriodic
/-! helper lemmas for the `Wind` group of L2 component models (core Lean only) -/
namespace Simaple.Comp.Wind
open Simaple.Entity Simaple.Comp

theorem keydown_use_reject_alone (p : KeydownSkill.P) (s : KeydownSkill.S) (h : rejectedIn (KeydownSkill.use p s).2 = true) :
    KeydownSkill.use p s = (s, [.rejected]) := by
  unfold KeydownSkill.use at h ⊢
  split
  · rfl
  · rename_i hc; simp [hc, rejectedIn, REv.isReject] at h

/-! ### `damages` / `elapsedTimes` of the event shapes the reducers build -/
@[simp] theorem damages_nil : damages [] = [] := rfl
@[simp] theorem damages_append (a b : List REv) : damages (a ++ b) = damages a ++ damages b := by
  simp [damages]
@[simp] theorem damages_elapsed (t : Int) (r : List REv) : damages (.elapsed t :: r) = damages r := by
  simp [damages, isDamage]
@[simp] theorem damages_delayed (t : Int) (r : List REv) : damages (.delayed t :: r) = damages r := by
  simp [damages, isDamage]
@[simp] theorem damages_keydownEnd (r : List REv) : damages (.keydownEnd :: r) = damages r := by
  simp [damages, isDamage]
@[simp] theorem damages_dealt (d h : Rat) (r : List REv) : damages (.dealt d h :: r) = .dealt d h :: damages r := by
  simp [damages, List.filter_cons, isDamage]
theorem damages_replicate_dealt (n : Nat) (d h : Rat) :
    damages (List.replicate n (.dealt d h)) = List.replicate n (.dealt d h) := by
  simp [damages, List.filter_replicate, isDamage]

@[simp] theorem elapsedTimes_nil : elapsedTimes [] = [] := rfl
@[simp] theorem elapsedTimes_elapsed (t : Int) (r : List REv) : elapsedTimes (.elapsed t :: r) = t :: elapsedTimes r := rfl
@[simp] theorem elapsedTimes_dealt (d h : Rat) (r : List REv) : elapsedTimes (.dealt d h :: r) = elapsedTimes r := rfl
@[simp] theorem elapsedTimes_delayed (t : Int) (r : List REv) : elapsedTimes (.delayed t :: r) = elapsedTimes r := rfl
@[simp] theorem elapsedTimes_keydownEnd (r : List REv) : elapsedTimes (.keydownEnd :: r) = elapsedTimes r := rfl
theorem elapsedTimes_append (a b : List REv) : elapsedTimes (a ++ b) = elapsedTimes a ++ elapsedTimes b := by
  induction a with
  | nil => rfl
  | cons e r ih => cases e <;> simp [elapsedTimes, ih]
theorem elapsedTimes_replicate_dealt (n : Nat) (d h : Rat) : elapsedTimes (List.replicate n (.dealt d h)) = [] := by
  induction n with
  | zero => rfl
  | succ n ih => simp [List.replicate_succ, ih]

theorem elapsedTimes_row (ds hs : List Rat) : elapsedTimes (HowlingGale.row ds hs) = [] := by
  unfold HowlingGale.row
  induction ds.zip hs with
  | nil => rfl
  | cons x r ih => simp [ih]
theorem elapsedTimes_rows (n : Nat) (ds hs : List Rat) :
    elapsedTimes (List.replicate n (HowlingGale.row ds hs)).flatten = [] := by
  induction n with
  | zero => rfl
  | succ n ih => simp [List.replicate_succ, elapsedTimes_append, elapsedTimes_row, ih]

/-! ### tick counts of a periodic add up as naturals -/
theorem periodic_ticks_add (s : Periodic) (a b : Int) (hw : s.WF) (ha : 0 ≤ a) (hb : 0 ≤ b) :
    (s.elapseCount (a + b)).toNat = (s.elapseCount a).toNat + ((s.elapse a).elapseCount b).toNat := by
  have h := Periodic.elapseCount_add s a b hw ha hb
  have h1 := Periodic.elapseCount_nonneg s a
  have h2 := Periodic.elapseCount_nonneg (s.elapse a) b
  omega

/-- an expired periodic ticks no more -/
theorem periodic_expired_count (s : Periodic) (t : Int) (h : s.timeLeft ≤ 0) : s.elapseCount t = 0 := by
  unfold Periodic.elapseCount; rw [Periodic.elapse_expired s t h]; omega

/-- `time_left` of a periodic is positive after an elapse only if it was before -/
theorem periodic_enabled_after (s : Periodic) (t : Int) (h : 0 < (s.elapse t).timeLeft) : 0 < s.timeLeft := by
  by_cases h0 : s.timeLeft ≤ 0
  · rw [Periodic.elapse_expired s t h0] at h; exact h
  · omega

/-! ### key-down: `resolving` only shifts the timer; shape of the answer of `elapse_keydown_trait` -/
theorem resolveLoop_timeLeft (n : Nat) : ∀ (rtl : Int) (s : Keydown) (k : Nat),
    (Keydown.resolveLoop n rtl s k).1.timeLeft = s.timeLeft := by
  induction n with
  | zero => intro rtl s k; rfl
  | succ n ih =>
    intro rtl s k
    simp only [Keydown.resolveLoop]
    split
    · rw [ih]
    · rfl

theorem resolving_timeLeft (s : Keydown) (t : Int) : (s.resolving t).1.timeLeft = s.timeLeft - t := by
  unfold Keydown.resolving
  simp only []
  rw [resolveLoop_timeLeft]

theorem keydown_elapse_fst (p : KeydownSkill.P) (t : Int) (s : KeydownSkill.S) :
    (KeydownSkill.elapse p t s).1 = { cooldown := s.cooldown.elapse t, keydown := (s.keydown.resolving t).1 } := by
  unfold KeydownSkill.elapse
  simp only []
  split <;> rfl

theorem keydown_elapse_damages (p : KeydownSkill.P) (t : Int) (s : KeydownSkill.S) :
    damages (KeydownSkill.elapse p t s).2 =
      List.replicate (s.keydown.resolving t).2 (.dealt p.damage p.hit) ++
        (if (s.keydown.running && !(s.keydown.resolving t).1.running) = true then [REv.dealt p.finishDamage p.finishHit] else []) := by
  unfold KeydownSkill.elapse
  simp only []
  split
  · rename_i h; simp [damages_replicate_dealt]
  · rename_i h; simp [damages_replicate_dealt]

/-! ### HowlingGale: the tick row in force -/
end Simaple.Comp.Wind

namespace Simaple.Comp
open Simaple.Entity

namespace CosmicShower
/-- equivalent states: equal up to the dead tick counter of an expired scheduler (`Periodic.Equiv`) -/
def Equiv (x y : S) : Prop := x.cooldown = y.cooldown ∧ Periodic.Equiv x.periodic y.periodic ∧ x.orb = y.orb
end CosmicShower

namespace Cosmos
def Equiv (x y : S) : Prop := x.cooldown = y.cooldown ∧ Periodic.Equiv x.periodic y.periodic ∧ x.orb = y.orb
end Cosmos

namespace HowlingGale
def Equiv (x y : S) : Prop :=
  x.consumable = y.consumable ∧ x.consumed = y.consumed ∧ Periodic.Equiv x.periodic y.periodic

/-- the row of damage events one tick deals in state `s` (`[]` where the Python lookup would raise) -/
def rowOf (p : P) (s : S) : List REv :=
  match Wind.pyIndex p.periodicDamage (s.consumed.getValue - 1), Wind.pyIndex p.periodicHit (s.consumed.getValue - 1) with
  | some ds, some hs => row ds hs
  | _, _ => []

/-- the state after `elapse`, whatever the events -/
def after (t : Int) (s : S) : S := { s with consumable := s.consumable.elapse t, periodic := s.periodic.elapse t }

theorem elapse_ok_form (p : P) (t : Int) (s : S) (r : S × List REv) (hr : elapse p t s = .ok r) :
    r = (after t s, .elapsed t :: (List.replicate (s.periodic.elapseCount t).toNat (rowOf p s)).flatten) := by
  unfold elapse at hr
  simp only [] at hr
  have e1 : (s.periodic.elapse' t).1 = s.periodic.elapse t := rfl
  have e2 : (s.periodic.elapse' t).2 = s.periodic.elapseCount t := rfl
  by_cases h0 : (s.periodic.elapse' t).2.toNat = 0
  · rw [if_pos h0] at hr
    simp at hr; rw [← hr, ← e2, h0]; rfl
  · rw [if_neg h0] at hr
    unfold rowOf
    cases hd : Wind.pyIndex p.periodicDamage (s.consumed.getValue - 1) with
    | none => simp [hd] at hr
    | some ds =>
      cases hh : Wind.pyIndex p.periodicHit (s.consumed.getValue - 1) with
      | none => simp [hd, hh] at hr
      | some hs => simp [hd, hh] at hr; rw [← hr]; rfl

theorem rowOf_damage (p : P) (s : S) : ∀ e ∈ rowOf p s, Wind.isDamage e = true := by
  intro e he
  unfold rowOf at he
  split at he
  · simp only [row, List.mem_map] at he
    obtain ⟨x, _, hx⟩ := he
    rw [← hx]; rfl
  · simp at he

theorem damages_rows (p : P) (s : S) (n : Nat) :
    Wind.damages (List.replicate n (rowOf p s)).flatten = (List.replicate n (rowOf p s)).flatten := by
  unfold Wind.damages
  rw [List.filter_eq_self]
  intro e he
  simp only [List.mem_flatten, List.mem_replicate] at he
  obtain ⟨l, ⟨_, hl⟩, hel⟩ := he
  subst hl
  exact rowOf_damage p s e hel

theorem rows_add (R : List REv) (m n : Nat) :
    (List.replicate (m + n) R).flatten = (List.replicate m R).flatten ++ (List.replicate n R).flatten := by
  rw [← List.replicate_append_replicate, List.flatten_append]
end HowlingGale


/-! ### C09: chunk independence, equivalence and invariant preservation per class -/
namespace Wind
theorem setTimeLeft_wf (per per' : Periodic) (T : Int) (hw : per.WF)
    (hc : ∀ c, per.initialCounter = some c → 0 < c) (h : per.setTimeLeft T = .ok per') : per'.WF := by
  unfold Periodic.setTimeLeft at h
  split at h
  · cases h
  · cases hi : per.initialCounter with
    | none => simp only [hi] at h; cases h; exact ⟨hw.1, hw.1⟩
    | some c0 =>
      simp only [hi] at h
      split at h
      · cases h
      · cases h; exact ⟨hw.1, hc c0 hi⟩
end Wind

namespace KarmaBlade
/-- closed form of `elapse` -/
theorem elapse_form (p : P) (t : Int) (c k m d T : Int) :
    elapse p t ⟨⟨c⟩, ⟨k, m, d, T⟩⟩ =
      if 0 < T ∧ T - t ≤ 0 then (⟨⟨c - t⟩, ⟨0, m, d, 0⟩⟩, [.dealt p.finishDamage p.finishHit])
      else if T - t < 0 then (⟨⟨c - t⟩, ⟨0, m, d, 0⟩⟩, [])
      else (⟨⟨c - t⟩, ⟨k, m, d, T - t⟩⟩, []) := by
  by_cases h1 : 0 < T
  · by_cases h2 : T - t < 0
    · have h3 : T - t ≤ 0 := by omega
      simp only [elapse, LastingStack.enabled, LastingStack.elapse, LastingStack.reset, Cooldown.elapse, h1, h2, h3,
        decide_true, if_true, Int.lt_irrefl, decide_false, Bool.not_false, Bool.and_self, and_self]
    · by_cases h3 : T - t ≤ 0
      · have h4 : ¬ 0 < T - t := by omega
        simp only [elapse, LastingStack.enabled, LastingStack.elapse, LastingStack.reset, Cooldown.elapse, h1, h2, h3, h4,
          decide_true, if_true, if_false, decide_false, Bool.not_false, Bool.and_self, and_self]
      · have h4 : 0 < T - t := by omega
        simp only [elapse, LastingStack.enabled, LastingStack.elapse, LastingStack.reset, Cooldown.elapse, h1, h2, h3, h4,
          decide_true, if_true, if_false, decide_false, Bool.not_true, Bool.and_false, and_false, Bool.false_eq_true]
  · by_cases h2 : T - t < 0
    · simp only [elapse, LastingStack.enabled, LastingStack.elapse, LastingStack.reset, Cooldown.elapse, h1, h2,
        decide_true, if_true, if_false, decide_false, Bool.false_and, false_and, Bool.false_eq_true]
    · simp only [elapse, LastingStack.enabled, LastingStack.elapse, LastingStack.reset, Cooldown.elapse, h1, h2,
        decide_true, if_true, if_false, decide_false, Bool.false_and, false_and, Bool.false_eq_true]

theorem chunk (p : P) (s : S) (a b : Int) (ha : 0 ≤ a) (hb : 0 ≤ b) :
    Wind.damages (elapse p (a + b) s).2 = Wind.damages (elapse p a s).2 ++ Wind.damages (elapse p b (elapse p a s).1).2 ∧
    (elapse p b (elapse p a s).1).1 = (elapse p (a + b) s).1 := by
  obtain ⟨⟨c⟩, ⟨k, m, d, T⟩⟩ := s
  have e : c - a - b = c - (a + b) := by omega
  have e2 : T - a - b = T - (a + b) := by omega
  rw [elapse_form p a, elapse_form p (a + b)]
  by_cases h1 : 0 < T ∧ T - a ≤ 0
  · have h2 : 0 < T ∧ T - (a + b) ≤ 0 := ⟨h1.1, by omega⟩
    rw [if_pos h1, if_pos h2]
    simp only []
    rw [elapse_form p b]
    rw [if_neg (by omega), e]
    by_cases h3 : (0:Int) - b < 0
    · rw [if_pos h3]; exact ⟨rfl, rfl⟩
    · rw [if_neg h3]
      have : b = 0 := by omega
      subst this
      exact ⟨rfl, rfl⟩
  · rw [if_neg h1]
    by_cases h2 : T - a < 0
    · rw [if_pos h2]
      have h3 : ¬ (0 < T ∧ T - (a + b) ≤ 0) := by omega
      rw [if_neg h3, if_pos (by omega)]
      simp only []
      rw [elapse_form p b, if_neg (by omega), e]
      by_cases h4 : (0:Int) - b < 0
      · rw [if_pos h4]; exact ⟨rfl, rfl⟩
      · rw [if_neg h4]
        have : b = 0 := by omega
        subst this
        exact ⟨rfl, rfl⟩
    · rw [if_neg h2]
      simp only []
      rw [elapse_form p b, e, e2]
      by_cases h3 : 0 < T ∧ T - (a + b) ≤ 0
      · have h4 : 0 < T - a ∧ T - (a + b) ≤ 0 := by omega
        rw [if_pos h3, if_pos h4]; exact ⟨rfl, rfl⟩
      · have h4 : ¬ (0 < T - a ∧ T - (a + b) ≤ 0) := by omega
        rw [if_neg h3, if_neg h4]
        by_cases h5 : T - (a + b) < 0
        · rw [if_pos h5]; exact ⟨rfl, rfl⟩
        · rw [if_neg h5]; exact ⟨rfl, rfl⟩
end KarmaBlade

namespace BladeStorm

theorem inv_iff (s : S) : Inv s ↔ s.keydown.Inv := Iff.rfl

theorem chunk (p : P) (s : S) (a b : Int) (ha : 0 ≤ a) (hb : 0 ≤ b) (hi : Inv s) :
    (Wind.damages (elapse p (a + b) s).2).Perm
      (Wind.damages (elapse p a s).2 ++ Wind.damages (elapse p b (elapse p a s).1).2) ∧
    (elapse p b (elapse p a s).1).1 = (elapse p (a + b) s).1 := by
  have hadd := Keydown.resolving_add s.keydown a b hi ha hb
  unfold elapse
  constructor
  · rw [Wind.keydown_elapse_damages, Wind.keydown_elapse_damages, Wind.keydown_elapse_damages, Wind.keydown_elapse_fst]
    simp only []
    rw [hadd.2, ← List.replicate_append_replicate]
    have t1 := Wind.resolving_timeLeft s.keydown a
    have t2 := Wind.resolving_timeLeft (s.keydown.resolving a).1 b
    have t3 := Wind.resolving_timeLeft s.keydown (a + b)
    generalize List.replicate (s.keydown.resolving a).2 (REv.dealt (kd p).damage (kd p).hit) = R1
    generalize List.replicate ((s.keydown.resolving a).1.resolving b).2 (REv.dealt (kd p).damage (kd p).hit) = R2
    simp only [Keydown.running, t1, t2, t3]
    by_cases h0 : 0 < s.keydown.timeLeft
    · by_cases h1 : 0 < s.keydown.timeLeft - a
      · by_cases h2 : 0 < s.keydown.timeLeft - (a + b)
        · have h2' : 0 < s.keydown.timeLeft - a - b := by omega
          simp only [h0, h1, h2, h2', decide_true, decide_false, Bool.not_false, Bool.not_true, Bool.and_self, Bool.and_false,
            if_true, Bool.false_and, Bool.false_eq_true, if_false, List.append_nil, List.append_assoc]
          exact List.Perm.refl _
        · have h2' : ¬ 0 < s.keydown.timeLeft - a - b := by omega
          simp only [h0, h1, h2, h2', decide_true, decide_false, Bool.not_false, Bool.not_true, Bool.and_self, Bool.and_false,
            if_true, Bool.false_and, Bool.false_eq_true, if_false, List.append_nil, List.append_assoc]
          exact List.Perm.refl _
      · have h2 : ¬ 0 < s.keydown.timeLeft - (a + b) := by omega
        have h2' : ¬ 0 < s.keydown.timeLeft - a - b := by omega
        simp only [h0, h1, h2, h2', decide_true, decide_false, Bool.not_false, Bool.and_self, if_true, Bool.false_and,
          Bool.false_eq_true, if_false, List.append_nil, List.append_assoc]
        exact List.Perm.append_left R1 List.perm_append_comm
    · have h1 : ¬ 0 < s.keydown.timeLeft - a := by omega
      have h2 : ¬ 0 < s.keydown.timeLeft - (a + b) := by omega
      simp only [h0, h1, decide_false, Bool.false_and, Bool.false_eq_true, if_false, List.append_nil, List.append_assoc]
      exact List.Perm.refl _
  · rw [Wind.keydown_elapse_fst, Wind.keydown_elapse_fst, Wind.keydown_elapse_fst]
    simp only [Cooldown.elapse_add, hadd.1]

theorem inv_preserved (p : P) (s : S) (t : Int) (hp : 0 ≤ p.prepareDelay) (hi : Inv s) :
    Inv (elapse p t s).1 ∧ Inv (use p s).1 ∧ Inv (stop p s).1 := by
  refine ⟨?_, ?_, ?_⟩
  · unfold elapse; rw [Wind.keydown_elapse_fst]
    exact Keydown.resolving_inv s.keydown t hi
  · unfold use KeydownSkill.use
    by_cases hc : (!s.cooldown.available || s.keydown.running) = true
    · simp only [hc, if_true, rejectedIn, List.any_cons, List.any_nil, REv.isReject, Bool.or_false, Bool.not_true,
        Bool.false_eq_true, if_false]
      exact hi
    · simp only [hc, if_false, rejectedIn, List.any_cons, List.any_nil, REv.isReject, Bool.or_false, Bool.not_false, if_true]
      exact ⟨hi.1, Or.inl hp⟩
  · unfold stop KeydownSkill.stop
    split
    · exact hi
    · rename_i hr
      simp only [Bool.not_eq_true', Bool.not_eq_false, Keydown.running, decide_eq_true_eq] at hr
      refine ⟨hi.1, ?_⟩
      have := hi.2
      simp only [Keydown.stop]
      omega
end BladeStorm

namespace CosmicShower

theorem chunk (p : P) (s : S) (a b : Int) (ha : 0 ≤ a) (hb : 0 ≤ b) (hi : Inv s) :
    Wind.damages (elapse p (a + b) s).2 =
      Wind.damages (elapse p a s).2 ++ Wind.damages (elapse p b (elapse p a s).1).2 ∧
    Equiv (elapse p b (elapse p a s).1).1 (elapse p (a + b) s).1 := by
  constructor
  · simp only [elapse, Periodic.elapse', Wind.damages_elapsed, Wind.damages_replicate_dealt]
    rw [Wind.periodic_ticks_add s.periodic a b hi ha hb, List.replicate_append_replicate]
  · simp only [elapse, Periodic.elapse']
    exact ⟨Cooldown.elapse_add _ _ _, Periodic.elapse_add' s.periodic a b hi ha hb, rfl⟩

theorem equiv_views_use (p : P) (x y : S) (h : Equiv x y) :
    validity p x = validity p y ∧ running p x = running p y ∧
    (∀ rx, use p x = .ok rx → ∃ ry, use p y = .ok ry ∧ rx.2 = ry.2 ∧ Equiv rx.1 ry.1) ∧
    (∀ e, use p x = .error e → use p y = .error e) := by
  obtain ⟨⟨c⟩, px, o⟩ := x
  obtain ⟨⟨c'⟩, py, o'⟩ := y
  obtain ⟨hc, hp, ho⟩ := h
  simp only at hc ho hp
  subst ho
  cases hc
  have hs := hp.setTimeLeft (p.lastingDuration + o.stack * p.durationIncreasePerOrb)
  refine ⟨rfl, ?_, ?_, ?_⟩
  · simp only [running, hp.timeLeft]
  · intro rx hrx
    unfold use at hrx ⊢
    by_cases hcnd : (!(Cooldown.mk c).available || o.stack == 0) = true
    · simp only [hcnd, if_true] at hrx ⊢
      cases hrx
      exact ⟨_, rfl, rfl, rfl, hp, rfl⟩
    · simp only [hcnd, if_false] at hrx ⊢
      simp only [Bool.false_eq_true, if_false] at hrx ⊢
      rw [← hs]
      cases hq : px.setTimeLeft (p.lastingDuration + o.stack * p.durationIncreasePerOrb) with
      | error e => simp [hq] at hrx
      | ok per =>
        simp only [hq] at hrx ⊢
        cases hrx
        exact ⟨_, rfl, rfl, rfl, Periodic.Equiv.refl _, rfl⟩
  · intro e he
    unfold use at he ⊢
    by_cases hcnd : (!(Cooldown.mk c).available || o.stack == 0) = true
    · simp only [hcnd, if_true] at he; cases he
    · simp only [hcnd, if_false, Bool.false_eq_true] at he ⊢
      rw [← hs]; exact he

theorem equiv_elapse (p : P) (x y : S) (t : Int) (h : Equiv x y) :
    (elapse p t x).2 = (elapse p t y).2 ∧ Equiv (elapse p t x).1 (elapse p t y).1 := by
  obtain ⟨hc, hp, ho⟩ := h
  constructor
  · simp only [elapse, Periodic.elapse', hp.elapseCount t]
  · exact ⟨by simp only [elapse, hc], Periodic.elapse_equiv _ _ t hp, ho⟩

theorem inv_preserved (p : P) (s : S) (t : Int) (hi : Inv s)
    (hc : ∀ c, s.periodic.initialCounter = some c → 0 < c) :
    Inv (elapse p t s).1 ∧ ∀ r, use p s = .ok r → Inv r.1 := by
  constructor
  · exact Periodic.elapse_wf _ _ hi
  · intro r hr
    unfold use at hr
    split at hr
    · cases hr; exact hi
    · simp only at hr
      split at hr
      · cases hr
      · rename_i per hper
        cases hr
        exact Wind.setTimeLeft_wf _ _ _ hi hc hper
end CosmicShower


namespace Cosmos
theorem chunk (p : P) (s : S) (a b : Int) (ha : 0 ≤ a) (hb : 0 ≤ b) (hi : Inv s) :
    Wind.damages (elapse p (a + b) s).2 =
      Wind.damages (elapse p a s).2 ++ Wind.damages (elapse p b (elapse p a s).1).2 ∧
    Equiv (elapse p b (elapse p a s).1).1 (elapse p (a + b) s).1 := by
  constructor
  · simp only [elapse, Periodic.elapse', Wind.damages_elapsed, Wind.damages_replicate_dealt]
    rw [Wind.periodic_ticks_add s.periodic a b hi ha hb, List.replicate_append_replicate]
  · simp only [elapse, Periodic.elapse']
    exact ⟨Cooldown.elapse_add _ _ _, Periodic.elapse_add' s.periodic a b hi ha hb, rfl⟩

theorem equiv_views_use (p : P) (x y : S) (h : Equiv x y) :
    validity p x = validity p y ∧ running p x = running p y ∧
    (∀ rx, use p x = .ok rx → ∃ ry, use p y = .ok ry ∧ rx.2 = ry.2 ∧ Equiv rx.1 ry.1) ∧
    (∀ e, use p x = .error e → use p y = .error e) := by
  obtain ⟨⟨c⟩, px, o⟩ := x
  obtain ⟨⟨c'⟩, py, o'⟩ := y
  obtain ⟨hc, hp, ho⟩ := h
  simp only at hc ho hp
  subst ho
  cases hc
  have hp0 : Periodic.Equiv { px with interval := p.periodicInterval - o.stack * p.periodicIntervalDecrementPerOrb }
      { py with interval := p.periodicInterval - o.stack * p.periodicIntervalDecrementPerOrb } :=
    ⟨rfl, hp.2.1, hp.2.2.1, hp.2.2.2.1, hp.2.2.2.2⟩
  have hs := hp0.setTimeLeft p.lastingDuration
  refine ⟨rfl, ?_, ?_, ?_⟩
  · simp only [running, hp.timeLeft]
  · intro rx hrx
    unfold use at hrx ⊢
    by_cases hcnd : (!(Cooldown.mk c).available || o.stack == 0) = true
    · simp only [hcnd, if_true] at hrx ⊢
      cases hrx
      exact ⟨_, rfl, rfl, rfl, hp, rfl⟩
    · simp only [hcnd, if_false] at hrx ⊢
      simp only [Bool.false_eq_true, if_false] at hrx ⊢
      rw [← hs]
      cases hq : Periodic.setTimeLeft { px with interval := p.periodicInterval - o.stack * p.periodicIntervalDecrementPerOrb }
          p.lastingDuration with
      | error e => simp [hq] at hrx
      | ok per =>
        simp only [hq] at hrx ⊢
        cases hrx
        exact ⟨_, rfl, rfl, rfl, Periodic.Equiv.refl _, rfl⟩
  · intro e he
    unfold use at he ⊢
    by_cases hcnd : (!(Cooldown.mk c).available || o.stack == 0) = true
    · simp only [hcnd, if_true] at he; cases he
    · simp only [hcnd, if_false, Bool.false_eq_true] at he ⊢
      rw [← hs]; exact he

theorem equiv_elapse (p : P) (x y : S) (t : Int) (h : Equiv x y) :
    (elapse p t x).2 = (elapse p t y).2 ∧ Equiv (elapse p t x).1 (elapse p t y).1 := by
  obtain ⟨hc, hp, ho⟩ := h
  constructor
  · simp only [elapse, Periodic.elapse', hp.elapseCount t]
  · exact ⟨by simp only [elapse, hc], Periodic.elapse_equiv _ _ t hp, ho⟩

theorem inv_preserved (p : P) (s : S) (t : Int) (hi : Inv s)
    (hc : ∀ c, s.periodic.initialCounter = some c → 0 < c)
    (hpos : 0 < p.periodicInterval - s.orb.stack * p.periodicIntervalDecrementPerOrb) :
    Inv (elapse p t s).1 ∧ ∀ r, use p s = .ok r → Inv r.1 := by
  constructor
  · exact Periodic.elapse_wf _ _ hi
  · intro r hr
    unfold use at hr
    split at hr
    · cases hr; exact hi
    · simp only at hr
      split at hr
      · cases hr
      · rename_i per hper
        cases hr
        exact Wind.setTimeLeft_wf { s.periodic with interval := p.periodicInterval - s.orb.stack * p.periodicIntervalDecrementPerOrb } per _ ⟨hpos, hi.2⟩ hc hper
end Cosmos

namespace HowlingGale
theorem rowOf_congr (p : P) (x y : S) (h : x.consumed = y.consumed) : rowOf p x = rowOf p y := by
  unfold rowOf; rw [h]

theorem pyIndex_some {α : Type} (xs : List α) (i : Int) (h0 : 0 ≤ i) (h1 : i < xs.length) : ∃ v, Wind.pyIndex xs i = some v := by
  unfold Wind.pyIndex
  rw [if_pos h0]
  have : i.toNat < xs.length := by omega
  exact ⟨xs[i.toNat], by simp [this]⟩

theorem elapse_defined (p : P) (s : S) (t : Int) (hi : Inv p s) : ∃ r, elapse p t s = .ok r := by
  obtain ⟨hw, _, hlen, hpos, hidx⟩ := hi
  unfold elapse
  simp only []
  by_cases h0 : (s.periodic.elapse' t).2.toNat = 0
  · rw [if_pos h0]; exact ⟨_, rfl⟩
  · rw [if_neg h0]
    have hen : 0 < s.periodic.timeLeft := by
      by_cases he : s.periodic.timeLeft ≤ 0
      · have := Wind.periodic_expired_count s.periodic t he
        have e2 : (s.periodic.elapse' t).2 = s.periodic.elapseCount t := rfl
        rw [e2, this] at h0; simp at h0
      · omega
    have hc := hidx hen
    obtain ⟨ds, hds⟩ := pyIndex_some p.periodicDamage (s.consumed.getValue - 1) (by simp [Integer.getValue]; omega)
      (by simp [Integer.getValue]; omega)
    obtain ⟨hs, hhs⟩ := pyIndex_some p.periodicHit (s.consumed.getValue - 1) (by simp [Integer.getValue]; omega)
      (by simp [Integer.getValue]; omega)
    rw [hds, hhs]; exact ⟨_, rfl⟩

theorem chunk (p : P) (s : S) (a b : Int) (ha : 0 ≤ a) (hb : 0 ≤ b)
    (hi : Inv p s) (r1 r2 r : S × List REv)
    (h1 : elapse p a s = .ok r1) (h2 : elapse p b r1.1 = .ok r2) (h : elapse p (a + b) s = .ok r) :
    Wind.damages r.2 = Wind.damages r1.2 ++ Wind.damages r2.2 ∧ Equiv r2.1 r.1 ∧
    validity p r2.1 = validity p r.1 ∧ running p r2.1 = running p r.1 := by
  have f1 := elapse_ok_form p a s r1 h1
  subst f1
  have f2 := elapse_ok_form p b _ r2 h2
  subst f2
  have f := elapse_ok_form p (a + b) s r h
  subst f
  have hrow : rowOf p (after a s) = rowOf p s := rowOf_congr p _ _ rfl
  have hcons := Consumable.elapse_add s.consumable a b hi.2.1 ha hb
  have hper := Periodic.elapse_add' s.periodic a b hi.1 ha hb
  refine ⟨?_, ⟨?_, rfl, ?_⟩, ?_, ?_⟩
  · simp only [Wind.damages_elapsed, hrow, damages_rows]
    have : (after a s).periodic = s.periodic.elapse a := rfl
    rw [this, Wind.periodic_ticks_add s.periodic a b hi.1 ha hb, rows_add]
  · exact hcons
  · exact hper
  · simp only [validity, after, hcons]
  · simp only [running, after, hper.timeLeft]

theorem equiv_indistinguishable (p : P) (x y : S) (t : Int) (h : Equiv x y) :
    validity p x = validity p y ∧ running p x = running p y ∧
    (∀ rx, use p x = .ok rx → ∃ ry, use p y = .ok ry ∧ rx.2 = ry.2 ∧ Equiv rx.1 ry.1) ∧
    (∀ e, use p x = .error e → use p y = .error e) ∧
    (∀ rx ry, elapse p t x = .ok rx → elapse p t y = .ok ry → rx.2 = ry.2 ∧ Equiv rx.1 ry.1) := by
  obtain ⟨cx, nx, px⟩ := x
  obtain ⟨cy, ny, py⟩ := y
  obtain ⟨hc, hn, hp⟩ := h
  simp only at hc hn hp
  subst hc; subst hn
  have hs := hp.setTimeLeft (lasting p)
  refine ⟨rfl, ?_, ?_, ?_, ?_⟩
  · simp only [running, hp.timeLeft]
  · intro rx hrx
    unfold use at hrx ⊢
    by_cases hcnd : (!cx.available) = true
    · simp only [hcnd, if_true] at hrx ⊢
      cases hrx
      exact ⟨_, rfl, rfl, rfl, rfl, hp⟩
    · simp only [hcnd, if_false] at hrx ⊢
      simp only [Bool.false_eq_true, if_false] at hrx ⊢
      rw [← hs]
      cases hq : px.setTimeLeft (lasting p) with
      | error e => simp [hq] at hrx
      | ok per =>
        simp only [hq] at hrx ⊢
        cases hrx
        exact ⟨_, rfl, rfl, rfl, rfl, Periodic.Equiv.refl _⟩
  · intro e he
    unfold use at he ⊢
    by_cases hcnd : (!cx.available) = true
    · simp only [hcnd, if_true] at he; cases he
    · simp only [hcnd, if_false, Bool.false_eq_true] at he ⊢
      rw [← hs]; exact he
  · intro rx ry hx hy
    have fx := elapse_ok_form p t _ rx hx
    have fy := elapse_ok_form p t _ ry hy
    subst fx; subst fy
    have hrow : rowOf p ⟨cx, nx, px⟩ = rowOf p ⟨cx, nx, py⟩ := rowOf_congr p _ _ rfl
    refine ⟨?_, rfl, rfl, Periodic.elapse_equiv _ _ t hp⟩
    simp only [hrow, hp.elapseCount t]

theorem inv_preserved (p : P) (s : S) (t : Int) (hi : Inv p s)
    (hc : ∀ c, s.periodic.initialCounter = some c → 0 < c) :
    (∀ r, elapse p t s = .ok r → Inv p r.1) ∧ (∀ r, use p s = .ok r → Inv p r.1) := by
  obtain ⟨hw, hcw, hlen, hpos, hidx⟩ := hi
  constructor
  · intro r hr
    have f := elapse_ok_form p t s r hr
    subst f
    refine ⟨Periodic.elapse_wf _ _ hw, Consumable.elapse_wf _ _ hcw, hlen, hpos, ?_⟩
    intro hen
    exact hidx (Wind.periodic_enabled_after s.periodic t hen)
  · intro r hr
    unfold use at hr
    by_cases hcnd : (!s.consumable.available) = true
    · simp only [hcnd, if_true] at hr
      cases hr
      exact ⟨hw, hcw, hlen, hpos, hidx⟩
    · simp only [hcnd, if_false, Bool.false_eq_true] at hr
      cases hq : s.periodic.setTimeLeft (lasting p) with
      | error e => simp [hq] at hr
      | ok per =>
        simp only [hq] at hr
        cases hr
        refine ⟨Wind.setTimeLeft_wf _ _ _ hw hc hq, hcw, hlen, hpos, ?_⟩
        intro _
        simp only [Bool.not_eq_true, Bool.not_eq_false', Consumable.available, decide_eq_true_eq] at hcnd
        simp only [Integer.setValue, Consumable.getStack]
        omega
end HowlingGale


namespace Wind
theorem orb_stack_bounded (po : CosmicOrb.P) (pb : CosmicBurst.P) (ps : CosmicShower.P) (pc : Cosmos.P)
    (so : CosmicOrb.S) (sb : CosmicBurst.S) (ss : CosmicShower.S) (sc : Cosmos.S) :
    (so.orb.stack ≤ so.orb.maximumStack ∧ 0 ≤ so.orb.maximumStack →
      (CosmicOrb.increase po so).1.orb.stack ≤ (CosmicOrb.increase po so).1.orb.maximumStack ∧
      (CosmicOrb.maximize po so).1.orb.stack ≤ (CosmicOrb.maximize po so).1.orb.maximumStack ∧
      (CosmicOrb.increase po so).1.orb.maximumStack = so.orb.maximumStack ∧
      (CosmicOrb.maximize po so).1.orb.maximumStack = so.orb.maximumStack) ∧
    (sb.orb.stack ≤ sb.orb.maximumStack ∧ 0 ≤ sb.orb.maximumStack →
      (CosmicBurst.trigger pb sb).1.orb.stack ≤ sb.orb.maximumStack ∧
      (CosmicBurst.trigger pb sb).1.orb.maximumStack = sb.orb.maximumStack) ∧
    (ss.orb.stack ≤ ss.orb.maximumStack ∧ 0 ≤ ss.orb.maximumStack → ∀ r, CosmicShower.use ps ss = .ok r →
      r.1.orb.stack ≤ ss.orb.maximumStack ∧ r.1.orb.maximumStack = ss.orb.maximumStack) ∧
    (sc.orb.stack ≤ sc.orb.maximumStack ∧ 0 ≤ sc.orb.maximumStack → ∀ r, Cosmos.use pc sc = .ok r →
      r.1.orb.stack ≤ sc.orb.maximumStack ∧ r.1.orb.maximumStack = sc.orb.maximumStack) := by
  refine ⟨?_, ?_, ?_, ?_⟩
  · intro h
    simp only [CosmicOrb.increase, CosmicOrb.maximize, CosmicOrb.regulateIfNoCosmicForge, LastingStack.increase,
      LastingStack.regulate]
    refine ⟨?_, ?_, ?_, ?_⟩
    · split <;> split <;> simp only [] <;> omega
    · split <;> simp only [] <;> omega
    · split <;> split <;> rfl
    · split <;> rfl
  · intro h
    unfold CosmicBurst.trigger
    split
    · exact ⟨h.1, rfl⟩
    · exact ⟨h.2, rfl⟩
  · intro h r hr
    unfold CosmicShower.use at hr
    split at hr
    · cases hr; exact ⟨h.1, rfl⟩
    · simp only at hr
      split at hr
      · cases hr
      · cases hr; exact ⟨h.2, rfl⟩
  · intro h r hr
    unfold Cosmos.use at hr
    split at hr
    · cases hr; exact ⟨h.1, rfl⟩
    · simp only at hr
      split at hr
      · cases hr
      · cases hr; exact ⟨h.2, rfl⟩
end Wind

end Simaple.Comp
