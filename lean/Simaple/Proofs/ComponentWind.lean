import Simaple.Model.ComponentWind
import Simaple.Proofs.Component
import Simaple.Proofs.EntityTimers
import Simaple.Proofs.EntityPeriodic
/-! helper lemmas for the `Wind` group of L2 component models (core Lean only) -/
namespace Simaple.Comp.Wind
open Simaple.Entity Simaple.Comp

theorem keydown_use_reject_alone (p : KeydownSkill.P) (s : KeydownSkill.S) (h : rejectedIn (KeydownSkill.use p s).2 = true) :
    KeydownSkill.use p s = (s, [.rejected]) := by
  unfold KeydownSkill.use at h ⊢
  split
  · rfl
  · rename_i hc; simp [hc, rejectedIn, REv.isReject] at h

/-! ### `damages` / `elapsedTimes` of the event shapes the reducers build -/
@[simp] theorem damages_nil : damages [] = [] := rfl
@[simp] theorem damages_append (a b : List REv) : damages (a ++ b) = damages a ++ damages b := by
  simp [damages]
@[simp] theorem damages_elapsed (t : Int) (r : List REv) : damages (.elapsed t :: r) = damages r := by
  simp [damages, isDamage]
@[simp] theorem damages_delayed (t : Int) (r : List REv) : damages (.delayed t :: r) = damages r := by
  simp [damages, isDamage]
@[simp] theorem damages_keydownEnd (r : List REv) : damages (.keydownEnd :: r) = damages r := by
  simp [damages, isDamage]
@[simp] theorem damages_dealt (d h : Rat) (r : List REv) : damages (.dealt d h :: r) = .dealt d h :: damages r := by
  simp [damages, List.filter_cons, isDamage]
theorem damages_replicate_dealt (n : Nat) (d h : Rat) :
    damages (List.replicate n (.dealt d h)) = List.replicate n (.dealt d h) := by
  simp [damages, List.filter_replicate, isDamage]

@[simp] theorem elapsedTimes_nil : elapsedTimes [] = [] := rfl
@[simp] theorem elapsedTimes_elapsed (t : Int) (r : List REv) : elapsedTimes (.elapsed t :: r) = t :: elapsedTimes r := rfl
@[simp] theorem elapsedTimes_dealt (d h : Rat) (r : List REv) : elapsedTimes (.dealt d h :: r) = elapsedTimes r := rfl
@[simp] theorem elapsedTimes_delayed (t : Int) (r : List REv) : elapsedTimes (.delayed t :: r) = elapsedTimes r := rfl
@[simp] theorem elapsedTimes_keydownEnd (r : List REv) : elapsedTimes (.keydownEnd :: r) = elapsedTimes r := rfl
theorem elapsedTimes_append (a b : List REv) : elapsedTimes (a ++ b) = elapsedTimes a ++ elapsedTimes b := by
  induction a with
  | nil => rfl
  | cons e r ih => cases e <;> simp [elapsedTimes, ih]
theorem elapsedTimes_replicate_dealt (n : Nat) (d h : Rat) : elapsedTimes (List.replicate n (.dealt d h)) = [] := by
  induction n with
  | zero => rfl
  | succ n ih => simp [List.replicate_succ, ih]

end Simaple.Comp.Wind
