import Simaple.Model.Report
import Mathlib.Tactic.Linarith
import Mathlib.Tactic.Ring
import Mathlib.Algebra.Order.Field.Rat
/-! Helper lemmas for C13 (report layer): the two-pointer window scan and its loop invariant. -/
namespace Simaple.Proofs.Report
open Simaple.Report Simaple.Py

variable {L : Rat} {xs : Seq}

/-! ### indexing -/

theorem idx_of_lt {i : Nat} (h : i < xs.length) : idx xs i = .ok xs[i] := by
  simp [idx, List.getElem?_eq_getElem h]

theorem idx_of_ge {i : Nat} (h : xs.length ≤ i) : idx xs i = .error .indexError := by
  simp [idx, List.getElem?_eq_none h]

theorem clockAt_of_lt {i : Nat} (h : i < xs.length) : clockAt xs i = xs[i].1 := by
  simp [clockAt, List.getElem?_eq_getElem h]

theorem sorted_clockAt (hs : ClocksSorted xs) {i j : Nat} (hij : i ≤ j) (hj : j < xs.length) :
    clockAt xs i ≤ clockAt xs j := by
  rcases Nat.eq_or_lt_of_le hij with h | h
  · subst h; exact le_refl _
  · have hi : i < xs.length := by omega
    rw [clockAt_of_lt hi, clockAt_of_lt hj]
    have := (List.pairwise_iff_getElem.mp hs) i j (by simpa using hi) (by simpa using hj) h
    simpa using this

theorem sliceDamage_self (s : Nat) : sliceDamage xs s s = 0 := by
  simp [sliceDamage]

/-! ### one pass of the loop, for valid pointers -/

theorem computeDealing_eq {s e : Nat} (hs : s < xs.length) (he : e < xs.length) :
    computeDealing xs s e =
      .ok (if clockAt xs e - clockAt xs s = 0 then (0, 0) else (clockAt xs e - clockAt xs s, sliceDamage xs s e)) := by
  simp only [computeDealing, idx_of_lt hs, idx_of_lt he, clockAt_of_lt hs, clockAt_of_lt he]
  split <;> rfl

theorem scanStep_eq (hs : ClocksSorted xs) (hL : 0 < L) {s e : Nat} (hse : s ≤ e) (he : e < xs.length)
    (b : Best) :
    scanStep L xs s e b =
      .ok (if clockAt xs e - clockAt xs s < L then .next s (e + 1) b
           else .next (s + 1) e (if sliceDamage xs s e > b.dealing then ⟨sliceDamage xs s e, s, e⟩ else b)) := by
  have hsn : s < xs.length := by omega
  have hnot : ¬ (e ≥ xs.length) := by omega
  have hmono := sorted_clockAt hs hse he
  unfold scanStep
  rw [if_neg hnot]
  by_cases h1 : e + 1 < xs.length
  · have hmono1 := sorted_clockAt hs (Nat.le_succ e) h1
    by_cases heq : xs[e + 1].1 = xs[s].1
    · have hsame : sameClockAhead xs s e = .ok true := by
        simp [sameClockAhead, h1, idx_of_lt h1, idx_of_lt hsn, heq]
      rw [hsame]
      have : clockAt xs e - clockAt xs s < L := by
        rw [clockAt_of_lt h1, heq, ← clockAt_of_lt hsn] at hmono1
        linarith
      simp only [this, if_true]
    · have hsame : sameClockAhead xs s e = .ok false := by
        simp [sameClockAhead, h1, idx_of_lt h1, idx_of_lt hsn, heq]
      rw [hsame]
      simp only [computeDealing_eq hsn he]
      by_cases h0 : clockAt xs e - clockAt xs s = 0
      · simp only [h0, if_true, hL]
      · simp only [h0, if_false]
        split <;> rfl
  · have hsame : sameClockAhead xs s e = .ok false := by
      simp [sameClockAhead, h1]
    rw [hsame]
    simp only [computeDealing_eq hsn he]
    by_cases h0 : clockAt xs e - clockAt xs s = 0
    · simp only [h0, if_true, hL]
    · simp only [h0, if_false]
      split <;> rfl

/-! ### the exhaustive specification -/

theorem firstEnd_eq_some_iff {i e : Nat} :
    firstEnd L xs i = some e ↔
      i ≤ e ∧ e < xs.length ∧ L ≤ clockAt xs e - clockAt xs i ∧
        ∀ j, i ≤ j → j < e → clockAt xs j - clockAt xs i < L := by
  unfold firstEnd
  rw [List.find?_range_eq_some]
  simp only [Bool.and_eq_true, decide_eq_true_eq, List.mem_range, Bool.not_eq_true',
    Bool.and_eq_false_iff, decide_eq_false_iff_not, not_le]
  constructor
  · rintro ⟨⟨h1, h2⟩, h3, h4⟩
    refine ⟨h1, h3, h2, fun j hij hje => ?_⟩
    rcases h4 j hje with h | h
    · omega
    · exact h
  · rintro ⟨h1, h2, h3, h4⟩
    refine ⟨⟨h1, h3⟩, h2, fun j hje => ?_⟩
    by_cases hij : i ≤ j
    · exact Or.inr (h4 j hij hje)
    · exact Or.inl (by omega)

theorem firstEnd_eq_none_iff {i : Nat} :
    firstEnd L xs i = none ↔ ∀ j, i ≤ j → j < xs.length → clockAt xs j - clockAt xs i < L := by
  unfold firstEnd
  rw [List.find?_eq_none]
  simp only [List.mem_range, Bool.and_eq_true, decide_eq_true_eq, not_and, not_le]
  constructor
  · intro h j hij hj; exact h j hj hij
  · intro h j hj hij; exact h j hij hj

/-- the exhaustive best over the starts `< k` -/
def bestUpTo (L : Rat) (xs : Seq) : Nat → Rat
  | 0 => 0
  | k + 1 =>
    match firstEnd L xs k with
    | some e => pyMax (bestUpTo L xs k) (sliceDamage xs k e)
    | none => bestUpTo L xs k

theorem foldl_windows_eq_bestUpTo (k : Nat) :
    ((List.range k).filterMap (fun i => (firstEnd L xs i).map (fun e => sliceDamage xs i e))).foldl pyMax 0
      = bestUpTo L xs k := by
  induction k with
  | zero => rfl
  | succ k ih =>
    rw [List.range_succ, List.filterMap_append, List.foldl_append, ih]
    cases h : firstEnd L xs k <;> simp [bestUpTo, h]

theorem exhaustiveBest_eq_bestUpTo : exhaustiveBest L xs = bestUpTo L xs xs.length :=
  foldl_windows_eq_bestUpTo xs.length

theorem bestUpTo_stable {s : Nat} (h : ∀ i, s ≤ i → i < xs.length → firstEnd L xs i = none) :
    ∀ k, s ≤ k → k ≤ xs.length → bestUpTo L xs k = bestUpTo L xs s := by
  intro k hk
  induction k, hk using Nat.le_induction with
  | base => intro _; rfl
  | succ k hsk ih =>
    intro hkn
    rw [bestUpTo, h k hsk (by omega)]
    exact ih (by omega)

theorem pyMax_ge_left (a b : Rat) : a ≤ pyMax a b := by
  unfold pyMax; split
  · exact le_of_lt ‹_›
  · exact le_refl _

theorem pyMax_ge_right (a b : Rat) : b ≤ pyMax a b := by
  unfold pyMax; split
  · exact le_refl _
  · exact not_lt.mp ‹_›

theorem pyMax_cases (a b : Rat) : pyMax a b = a ∨ pyMax a b = b := by
  unfold pyMax; split
  · exact Or.inr rfl
  · exact Or.inl rfl

theorem bestUpTo_nonneg (k : Nat) : 0 ≤ bestUpTo L xs k := by
  induction k with
  | zero => exact le_refl _
  | succ k ih =>
    rw [bestUpTo]; split
    · exact le_trans ih (pyMax_ge_left _ _)
    · exact ih

theorem bestUpTo_ge {k i e : Nat} (hik : i < k) (h : firstEnd L xs i = some e) :
    sliceDamage xs i e ≤ bestUpTo L xs k := by
  induction k with
  | zero => omega
  | succ k ih =>
    rcases Nat.eq_or_lt_of_le (Nat.le_of_lt_succ hik) with heq | hlt
    · subst heq
      rw [bestUpTo, h]; exact pyMax_ge_right _ _
    · have := ih hlt
      rw [bestUpTo]; split
      · exact le_trans this (pyMax_ge_left _ _)
      · exact this

theorem bestUpTo_attained (k : Nat) :
    bestUpTo L xs k = 0 ∨ ∃ i e, i < k ∧ firstEnd L xs i = some e ∧ bestUpTo L xs k = sliceDamage xs i e := by
  induction k with
  | zero => exact Or.inl rfl
  | succ k ih =>
    rw [bestUpTo]
    cases h : firstEnd L xs k with
    | none =>
      rcases ih with h0 | ⟨i, e, hi, hf, hv⟩
      · exact Or.inl h0
      · exact Or.inr ⟨i, e, by omega, hf, hv⟩
    | some e0 =>
      show pyMax _ _ = 0 ∨ ∃ i e, i < k + 1 ∧ firstEnd L xs i = some e ∧ pyMax _ _ = sliceDamage xs i e
      rcases pyMax_cases (bestUpTo L xs k) (sliceDamage xs k e0) with hm | hm
      · rw [hm]
        rcases ih with h0 | ⟨i, e, hi, hf, hv⟩
        · exact Or.inl h0
        · exact Or.inr ⟨i, e, by omega, hf, hv⟩
      · rw [hm]; exact Or.inr ⟨k, e0, by omega, h, rfl⟩

/-! ### the loop invariant -/

/-- what a reported triple must satisfy: it is the initial `(0,0,0)` or a real shortest qualifying window -/
def RealWindow (L : Rat) (xs : Seq) (b : Best) : Prop :=
  (b.dealing = 0 ∧ b.start = 0 ∧ b.stop = 0) ∨ firstEnd L xs b.start = some b.stop

structure Inv (L : Rat) (xs : Seq) (s e : Nat) (b : Best) : Prop where
  se : s ≤ e
  en : e ≤ xs.length
  /-- no end before `e` qualifies for the start `s` -/
  short : ∀ j, s ≤ j → j < e → clockAt xs j - clockAt xs s < L
  /-- `best` is the exhaustive best over all starts before `s` -/
  best : b.dealing = bestUpTo L xs s
  repro : b.dealing = sliceDamage xs b.start b.stop
  real : RealWindow L xs b

theorem inv_init : Inv L xs 0 0 ⟨0, 0, 0⟩ where
  se := le_refl _
  en := Nat.zero_le _
  short := fun j _ hj => absurd hj (Nat.not_lt_zero j)
  best := rfl
  repro := (sliceDamage_self 0).symm
  real := Or.inl ⟨rfl, rfl, rfl⟩

theorem scanLoop_correct (hs : ClocksSorted xs) (hL : 0 < L) :
    ∀ (fuel s e : Nat) (b : Best), Inv L xs s e b → 2 * xs.length + 1 ≤ s + e + fuel →
      ∃ r, scanLoop L xs fuel s e b = .ok r ∧ r.dealing = bestUpTo L xs xs.length ∧
        r.dealing = sliceDamage xs r.start r.stop ∧ RealWindow L xs r := by
  intro fuel
  induction fuel with
  | zero =>
    intro s e b inv hf
    have := inv.se; have := inv.en; omega
  | succ fuel ih =>
    intro s e b inv hf
    have hse := inv.se
    have hen := inv.en
    by_cases he : e < xs.length
    · -- a pass that stays in the loop
      have hsn : s < xs.length := by omega
      unfold scanLoop
      rw [scanStep_eq hs hL hse he b]
      by_cases hlt : clockAt xs e - clockAt xs s < L
      · simp only [hlt, if_true]
        apply ih
        · exact { se := by omega, en := by omega, best := inv.best, repro := inv.repro, real := inv.real,
                  short := fun j hsj hje => by
                    rcases Nat.eq_or_lt_of_le (Nat.le_of_lt_succ hje) with h | h
                    · subst h; exact hlt
                    · exact inv.short j hsj h }
        · omega
      · simp only [hlt, if_false]
        have hge : L ≤ clockAt xs e - clockAt xs s := not_lt.mp hlt
        have hne : s ≠ e := by
          intro h; subst h
          have : clockAt xs s - clockAt xs s = 0 := sub_self _
          linarith
        have hse' : s + 1 ≤ e := by omega
        have hfirst : firstEnd L xs s = some e :=
          firstEnd_eq_some_iff.mpr ⟨hse, he, hge, inv.short⟩
        have hbest : bestUpTo L xs (s + 1) = pyMax (bestUpTo L xs s) (sliceDamage xs s e) := by
          rw [bestUpTo, hfirst]
        have hstep : clockAt xs s ≤ clockAt xs (s + 1) := sorted_clockAt hs (Nat.le_succ s) (by omega)
        apply ih
        · refine { se := hse', en := hen, short := ?_, best := ?_, repro := ?_, real := ?_ }
          · intro j hsj hje
            have := inv.short j (by omega) hje
            linarith
          · rw [hbest, ← inv.best]; unfold pyMax
            by_cases hgt : sliceDamage xs s e > b.dealing <;> simp only [hgt, if_true, if_false]
          · by_cases hgt : sliceDamage xs s e > b.dealing <;> simp only [hgt, if_true, if_false]
            exact inv.repro
          · by_cases hgt : sliceDamage xs s e > b.dealing <;> simp only [hgt, if_true, if_false]
            · exact Or.inr hfirst
            · exact inv.real
        · omega
    · -- `end >= len`: break
      have hen' : e = xs.length := by omega
      have hstep : scanStep L xs s e b = .ok (.done b) := by
        unfold scanStep; rw [if_pos (by omega)]
      unfold scanLoop
      rw [hstep]
      refine ⟨b, rfl, ?_, inv.repro, inv.real⟩
      rw [inv.best]
      symm
      apply bestUpTo_stable _ xs.length (by omega) (le_refl _)
      intro i hsi hin
      rw [firstEnd_eq_none_iff]
      intro j hij hjn
      have h1 := inv.short j (by omega) (by omega)
      have h2 := sorted_clockAt hs hsi hin
      linarith

/-! ### fuel is always sufficient (any window length, any sequence) -/

theorem sameClockAhead_ok {s : Nat} (hs : s < xs.length) (e : Nat) :
    ∃ r, sameClockAhead xs s e = .ok r := by
  unfold sameClockAhead
  by_cases he : e + 1 < xs.length
  · rw [if_pos he, idx_of_lt he, idx_of_lt hs]; exact ⟨_, rfl⟩
  · rw [if_neg he]; exact ⟨_, rfl⟩

theorem sameClockAhead_bad {s : Nat} (hs : xs.length ≤ s) (e : Nat) :
    sameClockAhead xs s e = .error .indexError ∨ sameClockAhead xs s e = .ok false := by
  unfold sameClockAhead
  by_cases he : e + 1 < xs.length
  · rw [if_pos he, idx_of_lt he, idx_of_ge hs]; exact Or.inl rfl
  · rw [if_neg he]; exact Or.inr rfl

theorem computeDealing_bad {s : Nat} (hs : xs.length ≤ s) (e : Nat) :
    computeDealing xs s e = .error .indexError := by
  unfold computeDealing; rw [idx_of_ge hs]

theorem scanStep_error {s e : Nat} {b : Best} {m : Err} (h : scanStep L xs s e b = .error m) :
    m = .indexError := by
  unfold scanStep at h
  by_cases hge : e ≥ xs.length
  · rw [if_pos hge] at h; cases h
  · rw [if_neg hge] at h
    have he : e < xs.length := by omega
    by_cases hs : s < xs.length
    · obtain ⟨r, hr⟩ := sameClockAhead_ok hs e
      rw [hr, computeDealing_eq hs he] at h
      cases r
      · simp only at h
        split at h <;> split at h <;> cases h
      · cases h
    · have hs' : xs.length ≤ s := by omega
      rcases sameClockAhead_bad hs' e with hr | hr
      · rw [hr] at h; cases h; rfl
      · rw [hr, computeDealing_bad hs'] at h; cases h; rfl

theorem scanStep_next {s e s' e' : Nat} {b b' : Best} (h : scanStep L xs s e b = .ok (.next s' e' b')) :
    s < xs.length ∧ e < xs.length ∧ s' + e' = s + e + 1 ∧ s' ≤ s + 1 ∧ e' ≤ e + 1 := by
  unfold scanStep at h
  by_cases hge : e ≥ xs.length
  · rw [if_pos hge] at h; cases h
  · rw [if_neg hge] at h
    have he : e < xs.length := by omega
    by_cases hs : s < xs.length
    · refine ⟨hs, he, ?_⟩
      obtain ⟨r, hr⟩ := sameClockAhead_ok hs e
      rw [hr, computeDealing_eq hs he] at h
      cases r
      · simp only at h
        split at h <;> split at h <;> cases h <;> omega
      · cases h; omega
    · have hs' : xs.length ≤ s := by omega
      rcases sameClockAhead_bad hs' e with hr | hr
      · rw [hr] at h; cases h
      · rw [hr, computeDealing_bad hs'] at h; cases h

theorem scanLoop_fuel :
    ∀ (fuel s e : Nat) (b : Best), s ≤ xs.length → e ≤ xs.length → 2 * xs.length + 1 ≤ s + e + fuel →
      scanLoop L xs fuel s e b ≠ .error .outOfFuel := by
  intro fuel
  induction fuel with
  | zero => intro s e b hs he hf; omega
  | succ fuel ih =>
    intro s e b hs he hf
    unfold scanLoop
    cases hstep : scanStep L xs s e b with
    | error m => rw [scanStep_error hstep]; simp
    | ok st =>
      cases st with
      | done r => simp
      | next s' e' b' =>
        obtain ⟨h1, h2, h3, h4, h5⟩ := scanStep_next hstep
        exact ih s' e' b' (by omega) (by omega) (by omega)

/-- the fuel given to the loop is never exhausted -/
theorem scan_fuel_sufficient (L : Rat) (xs : Seq) :
    findMaximumDealingInterval L xs ≠ .error .outOfFuel :=
  scanLoop_fuel _ 0 0 _ (Nat.zero_le _) (Nat.zero_le _) (by unfold scanFuel; omega)

/-! ### window length ≤ 0 (known finding F12): the scan never reaches `end >= len`, it runs `start` past the end -/

theorem sameClockAhead_eq {s : Nat} (hs : s < xs.length) (e : Nat) :
    sameClockAhead xs s e = .ok (decide (e + 1 < xs.length ∧ clockAt xs (e + 1) = clockAt xs s)) := by
  unfold sameClockAhead
  by_cases he : e + 1 < xs.length
  · rw [if_pos he, idx_of_lt he, idx_of_lt hs, clockAt_of_lt he, clockAt_of_lt hs]
    simp [he]
  · rw [if_neg he]; simp [he]

theorem scanStep_nonpos (hs : ClocksSorted xs) (hL : L ≤ 0) {s e : Nat} (he : e < xs.length)
    (hse : s ≤ e + 1) {b : Best} {st : Step} (h : scanStep L xs s e b = .ok st) :
    ∃ s' e' b', st = .next s' e' b' ∧ e' < xs.length ∧ s' ≤ e' + 1 := by
  unfold scanStep at h
  rw [if_neg (by omega)] at h
  by_cases hsn : s < xs.length
  · rw [sameClockAhead_eq hsn e] at h
    by_cases hc : e + 1 < xs.length ∧ clockAt xs (e + 1) = clockAt xs s
    · simp only [hc, and_self, decide_true] at h
      cases h
      exact ⟨s, e + 1, b, rfl, hc.1, by omega⟩
    · simp only [hc, decide_false] at h
      have hse' : s ≤ e := by
        rcases Nat.eq_or_lt_of_le hse with heq | hlt
        · exact absurd ⟨by omega, by rw [heq]⟩ hc
        · omega
      have hmono := sorted_clockAt hs hse' he
      rw [computeDealing_eq hsn he] at h
      by_cases h0 : clockAt xs e - clockAt xs s = 0
      · simp only [h0, if_true] at h
        rw [if_neg (by linarith)] at h
        cases h
        exact ⟨s + 1, e, _, rfl, he, by omega⟩
      · simp only [h0, if_false] at h
        rw [if_neg (by linarith)] at h
        cases h
        exact ⟨s + 1, e, _, rfl, he, by omega⟩
  · have hs' : xs.length ≤ s := by omega
    rcases sameClockAhead_bad hs' e with hr | hr
    · rw [hr] at h; cases h
    · rw [hr, computeDealing_bad hs'] at h; cases h

theorem scanLoop_nonpos (hs : ClocksSorted xs) (hL : L ≤ 0) :
    ∀ (fuel s e : Nat) (b : Best), e < xs.length → s ≤ e + 1 →
      scanLoop L xs fuel s e b = .error .indexError ∨ scanLoop L xs fuel s e b = .error .outOfFuel := by
  intro fuel
  induction fuel with
  | zero => intro s e b _ _; exact Or.inr rfl
  | succ fuel ih =>
    intro s e b he hse
    unfold scanLoop
    cases hstep : scanStep L xs s e b with
    | error m => rw [scanStep_error hstep]; exact Or.inl rfl
    | ok st =>
      obtain ⟨s', e', b', rfl, he', hse'⟩ := scanStep_nonpos hs hL he hse hstep
      exact ih s' e' b' he' hse'

/-- F12 as a theorem about the model: a non-empty clock-sorted sequence and a window length ≤ 0 always end
    in the IndexError -/
theorem nonpositive_window_indexError (hs : ClocksSorted xs) (hL : L ≤ 0) (hne : xs ≠ []) :
    findMaximumDealingInterval L xs = .error .indexError := by
  have hlen : 0 < xs.length := List.length_pos_iff.mpr hne
  rcases scanLoop_nonpos hs hL (scanFuel xs) 0 0 ⟨0, 0, 0⟩ hlen (by omega) with h | h
  · exact h
  · exact absurd h (scan_fuel_sufficient L xs)

end Simaple.Proofs.Report
