import Simaple.Model.SpecMath
/-! Token level: the precedence parser inverts the token printer (`parseToks (toks e) = ok e`). -/
namespace Simaple.Spec

def toksAt (n : Nat) (e : Expr) : List Tok := paren n e.prec (toks e)

def noTermOp : List Tok → Prop
  | [] => True
  | t :: _ => termOp t = none
def noExprOp : List Tok → Prop
  | [] => True
  | t :: _ => exprOp t = none

theorem pTermLoop_done (g : Nat) (e : Expr) (r : List Tok) (h : noTermOp r) :
    pTermLoop (g + 1) e r = some (e, r) := by
  cases r with
  | nil => simp [pTermLoop]
  | cons t ts => simp only [noTermOp] at h; simp [pTermLoop, h]

theorem pExprLoop_done (g : Nat) (e : Expr) (r : List Tok) (h : noExprOp r) :
    pExprLoop (g + 1) e r = some (e, r) := by
  cases r with
  | nil => simp [pExprLoop]
  | cons t ts => simp only [noExprOp] at h; simp [pExprLoop, h]

/-- number of loop rounds (+1) the expression level spends on `e` -/
def kE : Expr → Nat
  | .bin op a _ => if op.prec = 0 then kE a + 1 else 1
  | _ => 1
def kT : Expr → Nat
  | .bin op a _ => if op.prec = 1 then kT a + 1 else 1
  | _ => 1

def cost : Expr → Nat
  | .number _ | .sepNumber _ | .var _ => 4
  | .neg a => cost a + 3
  | .bin _ a b => cost a + cost b + 3
  | .fn1 _ a => cost a + 3
  | .fn2 _ a b => cost a + cost b + 3

theorem kE_lt_cost (e : Expr) : kE e + 3 ≤ cost e := by
  induction e with
  | bin op a b iha ihb => simp only [kE, cost]; split <;> omega
  | _ => simp only [kE, cost] <;> omega

theorem kT_lt_cost (e : Expr) : kT e + 3 ≤ cost e := by
  induction e with
  | bin op a b iha ihb => simp only [kT, cost]; split <;> omega
  | _ => simp only [kT, cost] <;> omega

theorem B_of_A {X : List Tok} {e : Expr} {c : Nat}
    (hA : ∀ f r, c ≤ f → pFactor f (X ++ r) = some (e, r)) :
    ∀ f r, c + 1 ≤ f → pTerm f (X ++ r) = pTermLoop (f - 1) e r := by
  intro f r hf
  obtain ⟨g, rfl⟩ : ∃ g, f = g + 1 := ⟨f - 1, by omega⟩
  simp only [pTerm, hA g r (by omega), Nat.add_sub_cancel]

theorem C_of_B {X : List Tok} {e : Expr} {c k : Nat} (hk : k + 1 ≤ c)
    (hB : ∀ f r, c ≤ f → pTerm f (X ++ r) = pTermLoop (f - k) e r) :
    ∀ f r, c + 1 ≤ f → noTermOp r → pExpr f (X ++ r) = pExprLoop (f - 1) e r := by
  intro f r hf hr
  obtain ⟨g, rfl⟩ : ∃ g, f = g + 1 := ⟨f - 1, by omega⟩
  obtain ⟨m, hm⟩ : ∃ m, g - k = m + 1 := ⟨g - k - 1, by omega⟩
  simp only [pExpr, hB g r (by omega), hm, pTermLoop_done m e r hr, Nat.add_sub_cancel]

theorem A_of_C {X : List Tok} {e : Expr} {c k : Nat} (hk : k + 1 ≤ c)
    (hC : ∀ f r, c ≤ f → noTermOp r → pExpr f (X ++ r) = pExprLoop (f - k) e r) :
    ∀ f r, c + 1 ≤ f → pFactor f (.lparen :: X ++ .rparen :: r) = some (e, r) := by
  intro f r hf
  obtain ⟨g, rfl⟩ : ∃ g, f = g + 1 := ⟨f - 1, by omega⟩
  obtain ⟨m, hm⟩ : ∃ m, g - k = m + 1 := ⟨g - k - 1, by omega⟩
  have h1 := hC g (.rparen :: r) (by omega) (by simp [noTermOp, termOp])
  simp only [List.cons_append, pFactor, h1, hm,
    pExprLoop_done m e (.rparen :: r) (by simp [noExprOp, exprOp]), expectTok, if_true]

/-- what the three grammar levels do on the printed tokens of `e` -/
def P (e : Expr) : Prop := ∀ f r, cost e ≤ f →
  pFactor f (toksAt 2 e ++ r) = some (e, r) ∧
  pTerm f (toksAt 1 e ++ r) = pTermLoop (f - kT e) e r ∧
  (noTermOp r → pExpr f (toksAt 0 e ++ r) = pExprLoop (f - kE e) e r)

/-- factor-level nodes: everything follows from the factor-level statement -/
theorem P_of_A2 {e : Expr} (hp : e.prec = 2) (hT : kT e = 1) (hE : kE e = 1)
    (hA : ∀ f r, cost e - 2 ≤ f → pFactor f (toks e ++ r) = some (e, r)) : P e := by
  have hc := kE_lt_cost e
  have h2 : ∀ n, toksAt n e = toks e ∨ n > 2 := by
    intro n; by_cases h : n > 2
    · exact .inr h
    · left; simp only [toksAt, paren, hp]; rw [if_neg (by omega)]
  have t2 : toksAt 2 e = toks e := (h2 2).resolve_right (by omega)
  have t1 : toksAt 1 e = toks e := (h2 1).resolve_right (by omega)
  have t0 : toksAt 0 e = toks e := (h2 0).resolve_right (by omega)
  have hB := B_of_A hA
  have hC := C_of_B (k := 1) (by omega) hB
  intro f r hf
  rw [t2, t1, t0, hT, hE]
  exact ⟨hA f r (by omega), hB f r (by omega), fun hr => hC f r (by omega) hr⟩

theorem exprOp_tok {op : BinOp} (h : op.prec = 0) : exprOp op.tok = some op := by
  cases op <;> simp_all [BinOp.prec, BinOp.tok, exprOp]
theorem termOp_tok {op : BinOp} (h : op.prec = 1) : termOp op.tok = some op := by
  cases op <;> simp_all [BinOp.prec, BinOp.tok, termOp]
theorem termOp_exprTok {op : BinOp} (h : op.prec = 0) : termOp op.tok = none := by
  cases op <;> simp_all [BinOp.prec, BinOp.tok, termOp]
theorem prec_cases (op : BinOp) : op.prec = 0 ∨ op.prec = 1 := by
  cases op <;> simp [BinOp.prec]

theorem toksAt_zero (e : Expr) : toksAt 0 e = toks e := by simp [toksAt, paren]

theorem P_all (e : Expr) : P e := by
  induction e with
  | number w =>
    apply P_of_A2 rfl rfl rfl
    intro f r hf
    obtain ⟨g, rfl⟩ : ∃ g, f = g + 1 := ⟨f - 1, by simp only [cost] at hf; omega⟩
    simp [toks, pFactor]
  | sepNumber w =>
    apply P_of_A2 rfl rfl rfl
    intro f r hf
    obtain ⟨g, rfl⟩ : ∃ g, f = g + 1 := ⟨f - 1, by simp only [cost] at hf; omega⟩
    simp [toks, pFactor]
  | var w =>
    apply P_of_A2 rfl rfl rfl
    intro f r hf
    obtain ⟨g, rfl⟩ : ∃ g, f = g + 1 := ⟨f - 1, by simp only [cost] at hf; omega⟩
    simp [toks, pFactor]
  | neg a iha =>
    apply P_of_A2 rfl rfl rfl
    intro f r hf
    simp only [cost] at hf
    obtain ⟨g, rfl⟩ : ∃ g, f = g + 1 := ⟨f - 1, by omega⟩
    have := (iha g r (by omega)).1
    simp only [toksAt] at this
    simp only [toks, List.cons_append, pFactor, this]
  | fn1 fn a iha =>
    apply P_of_A2 rfl rfl rfl
    intro f r hf
    simp only [cost] at hf
    have hk := kE_lt_cost a
    obtain ⟨g, rfl⟩ : ∃ g, f = g + 1 := ⟨f - 1, by omega⟩
    obtain ⟨m, hm⟩ : ∃ m, g - kE a = m + 1 := ⟨g - kE a - 1, by omega⟩
    have := (iha g (.rparen :: r) (by omega)).2.2 (by simp [noTermOp, termOp])
    rw [toksAt_zero] at this
    simp only [toks, List.cons_append, List.append_assoc, List.nil_append, pFactor, this, hm,
      pExprLoop_done m a (.rparen :: r) (by simp [noExprOp, exprOp]), expectTok, if_true]
  | fn2 fn a b iha ihb =>
    apply P_of_A2 rfl rfl rfl
    intro f r hf
    simp only [cost] at hf
    have hka := kE_lt_cost a
    have hkb := kE_lt_cost b
    obtain ⟨g, rfl⟩ : ∃ g, f = g + 1 := ⟨f - 1, by omega⟩
    obtain ⟨m, hm⟩ : ∃ m, g - kE a = m + 1 := ⟨g - kE a - 1, by omega⟩
    obtain ⟨n, hn⟩ : ∃ n, g - kE b = n + 1 := ⟨g - kE b - 1, by omega⟩
    have h1 := (iha g (.comma :: (toks b ++ .rparen :: r)) (by omega)).2.2 (by simp [noTermOp, termOp])
    have h2 := (ihb g (.rparen :: r) (by omega)).2.2 (by simp [noTermOp, termOp])
    rw [toksAt_zero] at h1 h2
    simp only [toks, List.cons_append, List.append_assoc, List.nil_append, pFactor, h1, hm, h2, hn,
      pExprLoop_done m a _ (by simp [noExprOp, exprOp] : noExprOp (.comma :: (toks b ++ .rparen :: r))),
      pExprLoop_done n b (.rparen :: r) (by simp [noExprOp, exprOp]), expectTok, if_true]
  | bin op a b iha ihb =>
    have hka := kE_lt_cost a
    have hkta := kT_lt_cost a
    have hktb := kT_lt_cost b
    rcases prec_cases op with hp | hp
    · -- expression level operator
      have hkE : kE (.bin op a b) = kE a + 1 := by simp [kE, hp]
      have hkT : kT (.bin op a b) = 1 := by simp [kT, hp]
      have t0 : toks (.bin op a b) = toksAt 0 a ++ op.tok :: toksAt 1 b := by
        simp [toks, toksAt, hp]
      have hC : ∀ f r, cost a + cost b ≤ f → noTermOp r →
          pExpr f (toks (.bin op a b) ++ r) = pExprLoop (f - (kE a + 1)) (.bin op a b) r := by
        intro f r hf hr
        have h1 := (iha f (op.tok :: (toksAt 1 b ++ r)) (by omega)).2.2
          (by simp [noTermOp, termOp_exprTok hp])
        obtain ⟨g, hg⟩ : ∃ g, f - kE a = g + 1 := ⟨f - kE a - 1, by omega⟩
        have h2 := (ihb g r (by omega)).2.1
        obtain ⟨m, hm⟩ : ∃ m, g - kT b = m + 1 := ⟨g - kT b - 1, by omega⟩
        have hg' : f - (kE a + 1) = g := by omega
        rw [t0, List.append_assoc, List.cons_append, h1, hg]
        simp only [pExprLoop, exprOp_tok hp, h2, hm, pTermLoop_done m b r hr, hg']
      have hA := A_of_C (k := kE a + 1) (by omega) hC
      have hA' : ∀ f r, cost a + cost b + 1 ≤ f →
          pFactor f ((.lparen :: toks (.bin op a b) ++ [.rparen]) ++ r) = some (.bin op a b, r) := by
        intro f r h; simpa using hA f r h
      have hB := B_of_A hA'
      intro f r hf
      simp only [cost] at hf
      have e2 : toksAt 2 (.bin op a b) = .lparen :: toks (.bin op a b) ++ [.rparen] := by
        simp [toksAt, paren, Expr.prec, hp]
      have e1 : toksAt 1 (.bin op a b) = .lparen :: toks (.bin op a b) ++ [.rparen] := by
        simp [toksAt, paren, Expr.prec, hp]
      rw [e2, e1, toksAt_zero, hkE, hkT]
      refine ⟨?_, ?_, fun hr => hC f r (by omega) hr⟩
      · have := hA f r (by omega)
        simpa using this
      · have := hB f r (by omega)
        simpa using this
    · -- term level operator
      have hkE : kE (.bin op a b) = 1 := by simp [kE, hp]
      have hkT : kT (.bin op a b) = kT a + 1 := by simp [kT, hp]
      have t0 : toks (.bin op a b) = toksAt 1 a ++ op.tok :: toksAt 2 b := by
        simp [toks, toksAt, hp]
      have hB : ∀ f r, cost a + cost b ≤ f →
          pTerm f (toks (.bin op a b) ++ r) = pTermLoop (f - (kT a + 1)) (.bin op a b) r := by
        intro f r hf
        have h1 := (iha f (op.tok :: (toksAt 2 b ++ r)) (by omega)).2.1
        obtain ⟨g, hg⟩ : ∃ g, f - kT a = g + 1 := ⟨f - kT a - 1, by omega⟩
        have h2 := (ihb g r (by omega)).1
        have hg' : f - (kT a + 1) = g := by omega
        rw [t0, List.append_assoc, List.cons_append, h1, hg]
        simp only [pTermLoop, termOp_tok hp, h2, hg']
      have hC := C_of_B (k := kT a + 1) (by omega) hB
      have hA := A_of_C (k := 1) (by omega) hC
      intro f r hf
      simp only [cost] at hf
      have e2 : toksAt 2 (.bin op a b) = .lparen :: toks (.bin op a b) ++ [.rparen] := by
        simp [toksAt, paren, Expr.prec, hp]
      have e1 : toksAt 1 (.bin op a b) = toks (.bin op a b) := by
        simp [toksAt, paren, Expr.prec, hp]
      rw [e2, e1, toksAt_zero, hkE, hkT]
      refine ⟨?_, hB f r (by omega), fun hr => hC f r (by omega) hr⟩
      have := hA f r (by omega)
      simpa using this

theorem length_paren_ge (n p : Nat) (ts : List Tok) : ts.length ≤ (paren n p ts).length := by
  simp only [paren]; split <;> simp <;> omega

theorem cost_le_toks (e : Expr) : cost e ≤ 4 * (toks e).length := by
  induction e with
  | number w => simp [cost, toks]
  | sepNumber w => simp [cost, toks]
  | var w => simp [cost, toks]
  | neg a iha =>
    have := length_paren_ge 2 a.prec (toks a)
    simp only [cost, toks, List.length_cons]; omega
  | bin op a b iha ihb =>
    have h1 := length_paren_ge op.prec a.prec (toks a)
    have h2 := length_paren_ge (op.prec + 1) b.prec (toks b)
    simp only [cost, toks, List.length_cons, List.length_append]; omega
  | fn1 fn a iha => simp only [cost, toks, List.length_cons, List.length_append, List.length_nil]; omega
  | fn2 fn a b iha ihb =>
    simp only [cost, toks, List.length_cons, List.length_append, List.length_nil]; omega

/-- the parser reads back exactly the tree whose tokens were printed -/
theorem parseToks_toks (e : Expr) : parseToks (toks e) = .ok e := by
  have hk := kE_lt_cost e
  have hc := cost_le_toks e
  have h := (P_all e (parseFuel (toks e)) [] (by simp only [parseFuel]; omega)).2.2 trivial
  rw [toksAt_zero, List.append_nil] at h
  obtain ⟨m, hm⟩ : ∃ m, parseFuel (toks e) - kE e = m + 1 :=
    ⟨parseFuel (toks e) - kE e - 1, by simp only [parseFuel]; omega⟩
  simp only [parseToks, h, hm, pExprLoop_done m e [] trivial]

end Simaple.Spec
