/-
Helper lemmas for C17 (star force): order on `SF`, table look-ups are defined and non-negative inside the cap,
every provider's increment is non-negative, the fold is defined / non-negative / monotone up to the cap.
Core Lean only (omega, simp, decide).
-/
import Simaple.Model.Starforce

namespace Simaple.Proofs.Starforce
open Simaple.Gen.Starforce Simaple.Model.Starforce

/-! ### the order on `SF` -/

theorem le_refl (a : SF) : a.le a := by simp [SF.le]

theorem le_trans {a b c : SF} (h₁ : a.le b) (h₂ : b.le c) : a.le c := by
  unfold SF.le at *; omega

theorem nonneg_zero : SF.zero.nonneg := by simp [SF.nonneg, SF.le, SF.zero]

theorem nonneg_add {a b : SF} (ha : a.nonneg) (hb : b.nonneg) : (a.add b).nonneg := by
  simp only [SF.nonneg, SF.le, SF.zero, SF.add] at *; omega

theorem le_add_right {a b : SF} (hb : b.nonneg) : a.le (a.add b) := by
  simp only [SF.nonneg, SF.le, SF.zero, SF.add] at *; omega

theorem add_zero (a : SF) : a.add SF.zero = a := by
  cases a; simp [SF.add, SF.zero]

theorem zero_add (a : SF) : SF.zero.add a = a := by
  cases a; simp [SF.add, SF.zero]

theorem add_comm (a b : SF) : a.add b = b.add a := by
  simp only [SF.add, SF.mk.injEq]; omega

theorem add_assoc (a b c : SF) : (a.add b).add c = a.add (b.add c) := by
  simp only [SF.add, SF.mk.injEq]; omega

theorem nonneg_only (p : BaseStat) {v : Int} (hv : 0 ≤ v) : (SF.only p v).nonneg := by
  cases p <;> simp only [SF.only, SF.nonneg, SF.le, SF.zero] <;> omega

/-! ### look-ups -/

/-- a table is usable up to column `w - 1`: every row has at least `w` entries, all entries are
    non-negative and some row's level threshold is `≤ 0` (so every level `≥ 0` finds a band) -/
def rowsGood (T : List (List Int)) (w : Nat) : Bool :=
  T.all (fun r => decide (w ≤ r.length) && r.all (fun x => decide (0 ≤ x))) &&
  T.any (fun r => match r[0]? with | some t => decide (t ≤ 0) | none => false)

def listGood (l : List Int) (w : Nat) : Bool := decide (w ≤ l.length) && l.all (fun x => decide (0 ≤ x))

/-- least row length -/
def minLen (T : List (List Int)) : Nat :=
  match T.map List.length with
  | [] => 0
  | x :: xs => xs.foldl min x

/-- number of usable columns (index 0 = level threshold) of the tables ordinary gear uses -/
def widthGen : Nat :=
  min (min (minLen starforce_weapon_att_increments) (minLen starforce_att_increments))
    (min (minLen starforce_stat_increments) (min glove_starforce_bonus.length mhp_starforce_bonus.length))

/-- … and of the tables superior gear uses -/
def widthSup : Nat := min (minLen superior_att_increments) (minLen superior_stat_increments)

theorem findRow_ok (rows : List (List Int)) (lvl : Int) (hne : ∀ r ∈ rows, r ≠ [])
    (hex : ∃ r ∈ rows, ∃ t, r[0]? = some t ∧ t ≤ lvl) :
    ∃ r, findRow rows lvl = .ok r ∧ r ∈ rows := by
  induction rows with
  | nil => obtain ⟨r, hr, _⟩ := hex; cases hr
  | cons item rest ih =>
    cases item with
    | nil => exact absurd rfl (hne [] (by simp))
    | cons t0 tl =>
      by_cases h : lvl ≥ t0
      · exact ⟨t0 :: tl, by simp [findRow, h], by simp⟩
      · have hex' : ∃ r ∈ rest, ∃ t, r[0]? = some t ∧ t ≤ lvl := by
          obtain ⟨r, hr, t, ht, hle⟩ := hex
          rcases List.mem_cons.1 hr with rfl | hr
          · simp at ht; omega
          · exact ⟨r, hr, t, ht, hle⟩
        obtain ⟨r, h1, h2⟩ := ih (fun r hr => hne r (List.mem_cons_of_mem _ hr)) hex'
        exact ⟨r, by simp [findRow, h, h1], List.mem_cons_of_mem _ h2⟩

theorem pyIndex_ok {l : List Int} {t : Nat} (ht : t < l.length) (hpos : ∀ x ∈ l, 0 ≤ x) :
    ∃ v, pyIndex l t = .ok v ∧ 0 ≤ v := by
  refine ⟨l[t], ?_, hpos _ (List.getElem_mem ht)⟩
  simp [pyIndex, List.getElem?_eq_getElem ht]

theorem lookup_ok {T : List (List Int)} {w : Nat} (hT : rowsGood T w = true) {lvl : Int} (hl : 0 ≤ lvl)
    {t : Nat} (ht : t < w) :
    ∃ r v, findRow T.reverse lvl = .ok r ∧ pyIndex r t = .ok v ∧ 0 ≤ v := by
  simp only [rowsGood, Bool.and_eq_true, List.all_eq_true, List.any_eq_true, decide_eq_true_eq] at hT
  obtain ⟨hall, r0, hr0, hthr⟩ := hT
  have hne : ∀ r ∈ T.reverse, r ≠ [] := by
    intro r hr h
    have := (hall r (List.mem_reverse.1 hr)).1
    subst h; simp at this; omega
  have hex : ∃ r ∈ T.reverse, ∃ t, r[0]? = some t ∧ t ≤ lvl := by
    refine ⟨r0, List.mem_reverse.2 hr0, ?_⟩
    cases h : r0[0]? with
    | none => simp [h] at hthr
    | some t0 => simp [h] at hthr; exact ⟨t0, rfl, by omega⟩
  obtain ⟨r, h1, h2⟩ := findRow_ok T.reverse lvl hne hex
  obtain ⟨hlen, hpos⟩ := hall r (List.mem_reverse.1 h2)
  obtain ⟨v, hv, hv0⟩ := pyIndex_ok (l := r) (t := t) (by omega) hpos
  exact ⟨r, v, h1, hv, hv0⟩

theorem list_lookup_ok {l : List Int} {w : Nat} (hl : listGood l w = true) {t : Nat} (ht : t < w) :
    ∃ v, pyIndex l t = .ok v ∧ 0 ≤ v := by
  simp only [listGood, Bool.and_eq_true, List.all_eq_true, decide_eq_true_eq] at hl
  exact pyIndex_ok (by omega) hl.2

theorem increment_ok {m : Meta} {amazing att : Bool} {w : Nat}
    (hT : rowsGood (incrementTable m amazing att) w = true) (hl : 0 ≤ m.req_level) {t : Nat} (ht : t < w) :
    ∃ v, get_starforce_increment m t amazing att = .ok v ∧ 0 ≤ v := by
  obtain ⟨r, v, h1, h2, h3⟩ := lookup_ok hT hl ht
  exact ⟨v, by simp [get_starforce_increment, h1, h2], h3⟩

/-! ### the shipped tables (kernel-evaluated on the generated literals) -/

theorem general_tables_good :
    rowsGood starforce_weapon_att_increments widthGen = true ∧
    rowsGood starforce_att_increments widthGen = true ∧
    rowsGood starforce_stat_increments widthGen = true ∧
    listGood glove_starforce_bonus widthGen = true ∧
    listGood mhp_starforce_bonus widthGen = true := by decide +kernel

theorem superior_tables_good :
    rowsGood superior_att_increments widthSup = true ∧
    rowsGood superior_stat_increments widthSup = true := by decide +kernel

/-- every row of `star_data` has its three entries; both caps are non-negative and inside the tables -/
def starDataGood : Bool :=
  star_data.all fun r =>
    decide (r.length = 3) && decide (0 ≤ r.getD 1 0) && decide (r.getD 1 0 < widthGen) &&
    decide (0 ≤ r.getD 2 0) && decide (r.getD 2 0 < widthSup)

theorem star_data_good : starDataGood = true := by decide +kernel

theorem table_good_gen {m : Meta} (hs : m.superior_eqp = false) (att : Bool) :
    rowsGood (incrementTable m false att) widthGen = true := by
  obtain ⟨g1, g2, g3, _, _⟩ := general_tables_good
  cases att <;> simp only [incrementTable, hs]
  · simpa using g3
  · simp only [Bool.false_eq_true, if_false, Bool.not_false, if_true]
    split <;> assumption

theorem table_good_sup {m : Meta} (hs : m.superior_eqp = true) (amazing att : Bool) :
    rowsGood (incrementTable m amazing att) widthSup = true := by
  obtain ⟨s1, s2⟩ := superior_tables_good
  cases att <;> simp only [incrementTable, hs, if_true]
  · simpa using s2
  · exact s1

attribute [irreducible] widthGen widthSup

/-! ### the cap -/

theorem starRow_mem {rows : List (List Int)} {lvl : Int} {acc : Option (List Int)} {r : List Int}
    (h : starRow rows lvl acc = some r) : r ∈ rows ∨ acc = some r := by
  induction rows generalizing acc with
  | nil => right; simpa [starRow] using h
  | cons item rest ih =>
    simp only [starRow] at h
    split at h
    · rcases ih h with h' | h'
      · left; exact List.mem_cons_of_mem _ h'
      · left; simp at h'; simp [h']
    · right; exact h

theorem maxStar_cases (m : Meta) :
    maxStar m = 0 ∨ ∃ r ∈ star_data, maxStar m = r.getD (if m.superior_eqp then 2 else 1) 0 := by
  unfold maxStar
  split
  · left; rfl
  · split
    · left; rfl
    · split
      · left; rfl
      · next data hd =>
        right
        rcases starRow_mem hd with h | h
        · exact ⟨data, h, rfl⟩
        · cases h

theorem maxStar_nonneg (m : Meta) : 0 ≤ maxStar m := by
  rcases maxStar_cases m with h | ⟨r, hr, h⟩
  · omega
  · have := star_data_good
    simp only [starDataGood, List.all_eq_true, Bool.and_eq_true, decide_eq_true_eq] at this
    have := this r hr
    rw [h]; split <;> omega

theorem maxStar_lt_width (m : Meta) :
    maxStar m < ((if m.superior_eqp then widthSup else widthGen : Nat) : Int) := by
  have hw : (0 : Int) < (widthGen : Int) ∧ (0 : Int) < (widthSup : Int) := by decide +kernel
  rcases maxStar_cases m with h | ⟨r, hr, h⟩
  · rw [h]; split <;> omega
  · have := star_data_good
    simp only [starDataGood, List.all_eq_true, Bool.and_eq_true, decide_eq_true_eq] at this
    have := this r hr
    rw [h]; split <;> omega

/-! ### increments are defined and non-negative inside the cap -/

/-- well-formedness of the input of star force: the level requirement and the referenced stats are
    non-negative (true of every shipped gear; the job mask, gear type and scroll count are unrestricted) -/
def WF (m : Meta) (ref : SF) : Prop := 0 ≤ m.req_level ∧ ref.nonneg
instance (m : Meta) (ref : SF) : Decidable (WF m ref) := by unfold WF; infer_instance

theorem foldl_only_nonneg (c : BaseStat → Bool) {inc : Int} (hi : 0 ≤ inc) (ps : List BaseStat) {acc : SF}
    (ha : acc.nonneg) :
    (ps.foldl (fun acc p => if c p then acc.add (SF.only p inc) else acc) acc).nonneg := by
  induction ps generalizing acc with
  | nil => simpa using ha
  | cons p ps ih =>
    simp only [List.foldl]
    apply ih
    split
    · exact nonneg_add ha (nonneg_only p hi)
    · exact ha

theorem statInc_ok {m : Meta} (hs : m.superior_eqp = false) (hl : 0 ≤ m.req_level) {t : Nat}
    (ht : t < widthGen) (g : SF) : ∃ a, statInc m t g = .ok a ∧ a.nonneg := by
  obtain ⟨v, hv, hv0⟩ := increment_ok (table_good_gen hs false) hl ht
  simp only [statInc, hv]
  exact ⟨_, rfl, foldl_only_nonneg _ hv0 _ nonneg_zero⟩

theorem attackInc_ok {m : Meta} (hs : m.superior_eqp = false) (hl : 0 ≤ m.req_level) {t : Nat}
    (ht : t < widthGen) {g : SF} (hg : g.nonneg) : ∃ a, attackInc m t g = .ok a ∧ a.nonneg := by
  obtain ⟨v, hv, hv0⟩ := increment_ok (table_good_gen hs true) hl ht
  simp only [SF.nonneg, SF.le, SF.zero] at hg
  unfold attackInc
  split
  · simp only [weaponAttackInc, hv]
    split
    · refine ⟨_, rfl, ?_⟩
      split <;> simp only [SF.nonneg, SF.le, SF.zero, SF.add] <;> omega
    · refine ⟨_, rfl, ?_⟩
      split <;> simp only [SF.nonneg, SF.le, SF.zero, SF.add] <;> omega
  · simp only [hv]
    refine ⟨_, rfl, ?_⟩
    simp only [SF.nonneg, SF.le, SF.zero]; omega

theorem hpmpInc_ok (m : Meta) {t : Nat} (ht : t < widthGen) : ∃ a, hpmpInc m t = .ok a ∧ a.nonneg := by
  obtain ⟨v, hv, hv0⟩ := list_lookup_ok general_tables_good.2.2.2.2 ht
  simp only [hpmpInc, hv]
  split
  · exact ⟨_, rfl, by simp only [SF.nonneg, SF.le, SF.zero]; omega⟩
  · split
    · exact ⟨_, rfl, by simp only [SF.nonneg, SF.le, SF.zero]; omega⟩
    · exact ⟨_, rfl, nonneg_zero⟩

theorem gloveInc_ok (m : Meta) {t : Nat} (ht : t < widthGen) : ∃ a, gloveInc m t = .ok a ∧ a.nonneg := by
  obtain ⟨v, hv, hv0⟩ := list_lookup_ok general_tables_good.2.2.2.1 ht
  unfold gloveInc
  split
  · exact ⟨_, rfl, nonneg_zero⟩
  · simp only [hv]
    split
    · exact ⟨_, rfl, by simp only [SF.nonneg, SF.le, SF.zero]; omega⟩
    · split
      · exact ⟨_, rfl, by simp only [SF.nonneg, SF.le, SF.zero]; omega⟩
      · exact ⟨_, rfl, by simp only [SF.nonneg, SF.le, SF.zero]; omega⟩

theorem superiorInc_ok {m : Meta} (hs : m.superior_eqp = true) (hl : 0 ≤ m.req_level) {t : Nat}
    (ht : t < widthSup) : ∃ a, superiorInc m t = .ok a ∧ a.nonneg := by
  obtain ⟨s, hsv, hs0⟩ := increment_ok (table_good_sup hs true false) hl ht
  obtain ⟨a, hav, ha0⟩ := increment_ok (table_good_sup hs true true) hl ht
  simp only [superiorInc, hsv, hav]
  exact ⟨_, rfl, by simp only [SF.nonneg, SF.le, SF.zero]; omega⟩

/-- one more star inside the cap: the increment is defined and non-negative -/
theorem single_ok {m : Meta} {ref : SF} (hwf : WF m ref) {t : Nat} (ht : (t : Int) ≤ maxStar m) {cur : SF}
    (hc : cur.nonneg) : ∃ d, single m ref t cur = .ok d ∧ d.nonneg := by
  obtain ⟨hl, hr⟩ := hwf
  have hw := maxStar_lt_width m
  have hnot : ¬ ((t : Int) > maxStar m) := by omega
  simp only [single, hnot, if_false]
  cases hs : m.superior_eqp with
  | true =>
    rw [hs] at hw
    simp only [if_true] at hw ⊢
    exact superiorInc_ok hs hl (by omega)
  | false =>
    rw [hs] at hw
    have htw : t < widthGen := by simp at hw; omega
    have hg := nonneg_add hc hr
    obtain ⟨a, ha, ha0⟩ := statInc_ok hs hl htw (cur.add ref)
    obtain ⟨b, hb, hb0⟩ := attackInc_ok hs hl htw hg
    obtain ⟨c, hc', hc0⟩ := hpmpInc_ok m htw
    obtain ⟨d, hd, hd0⟩ := gloveInc_ok m htw
    simp only [ha, hb, hc', hd]
    exact ⟨_, by simp, nonneg_add (nonneg_add (nonneg_add (nonneg_add nonneg_zero ha0) hb0) hc0) hd0⟩

theorem single_refused (m : Meta) (ref : SF) {t : Nat} (ht : (t : Int) > maxStar m) (cur : SF) :
    single m ref t cur = .error .typeError := by
  simp [single, ht]

/-! ### the fold -/

theorem improvement_succ (m : Meta) (ref : SF) (n : Nat) :
    improvement m ref (n + 1) = improvementStep m ref n (improvement m ref n) := rfl

/-- inside the cap the fold is defined and non-negative -/
theorem improvement_ok {m : Meta} {ref : SF} (hwf : WF m ref) {n : Nat} (hn : (n : Int) ≤ maxStar m) :
    ∃ s, improvement m ref n = .ok s ∧ s.nonneg := by
  induction n with
  | zero => exact ⟨SF.zero, rfl, nonneg_zero⟩
  | succ k ih =>
    obtain ⟨s, hs, hs0⟩ := ih (by omega)
    obtain ⟨d, hd, hd0⟩ := single_ok hwf hn hs0
    exact ⟨s.add d, by simp only [improvement, improvementStep, hs, hd], nonneg_add hs0 hd0⟩

/-- one step inside the cap adds a non-negative increment -/
theorem improvement_step {m : Meta} {ref : SF} (hwf : WF m ref) {n : Nat} (hn : ((n + 1 : Nat) : Int) ≤ maxStar m) :
    ∃ s d, improvement m ref n = .ok s ∧ single m ref (n + 1) s = .ok d ∧ d.nonneg ∧ s.nonneg ∧
      improvement m ref (n + 1) = .ok (s.add d) := by
  obtain ⟨s, hs, hs0⟩ := improvement_ok hwf (n := n) (by omega)
  obtain ⟨d, hd, hd0⟩ := single_ok hwf hn hs0
  exact ⟨s, d, hs, hd, hd0, hs0, by simp only [improvement, improvementStep, hs, hd]⟩

theorem improvement_mono {m : Meta} {ref : SF} (hwf : WF m ref) {a b : Nat} (hab : a ≤ b)
    (hb : (b : Int) ≤ maxStar m) :
    ∃ sa sb, improvement m ref a = .ok sa ∧ improvement m ref b = .ok sb ∧ sa.nonneg ∧ sa.le sb := by
  induction b with
  | zero =>
    have : a = 0 := by omega
    subst this
    exact ⟨SF.zero, SF.zero, rfl, rfl, nonneg_zero, le_refl _⟩
  | succ k ih =>
    by_cases h : a = k + 1
    · subst h
      obtain ⟨s, hs, hs0⟩ := improvement_ok hwf hb
      exact ⟨s, s, hs, hs, hs0, le_refl _⟩
    · obtain ⟨sa, sk, h1, h2, h3, h4⟩ := ih (by omega) (by omega)
      obtain ⟨s, d, hs, _, hd0, _, hstep⟩ := improvement_step hwf hb
      rw [h2] at hs
      cases hs
      exact ⟨sa, sk.add d, h1, hstep, h3, le_trans h4 (le_add_right hd0)⟩

/-- beyond the cap the fold is refused with the TypeError of the first star beyond the cap -/
theorem improvement_refused {m : Meta} {ref : SF} (hwf : WF m ref) {n : Nat} (hn : (n : Int) > maxStar m) :
    improvement m ref n = .error .typeError := by
  induction n with
  | zero => have := maxStar_nonneg m; omega
  | succ k ih =>
    by_cases hk : (k : Int) > maxStar m
    · simp only [improvement, improvementStep, ih hk]
    · obtain ⟨s, hs, _⟩ := improvement_ok hwf (n := k) (by omega)
      simp only [improvement, improvementStep, hs, single_refused m ref hn s]

/-! ### the one-pass trace used by the driver -/

theorem traceFrom_eq (m : Meta) (ref : SF) (k i : Nat) :
    traceFrom m ref k i (improvement m ref i) = (List.range' i (k + 1)).map (improvement m ref) := by
  induction k generalizing i with
  | zero => simp [traceFrom, List.range']
  | succ k ih =>
    rw [traceFrom, ← improvement_succ, ih (i + 1)]
    simp [List.range']

theorem trace_eq (m : Meta) (ref : SF) (n : Nat) :
    trace m ref n = (List.range (n + 1)).map (improvement m ref) := by
  rw [List.range_eq_range', ← traceFrom_eq]; rfl

end Simaple.Proofs.Starforce
