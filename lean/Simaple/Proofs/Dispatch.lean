import Simaple.Model.Dispatch
/-! lemmas about the L3 dispatch model (core Lean only) -/
namespace Simaple.Dispatch

section
variable {ε : Type}

theorem get_set_same (s : Store ε) (a : String) (e : ε) : (s.set a e).get a = some e := by
  simp [Store.set, Store.get]

theorem get_set_other (s : Store ε) (a b : String) (e : ε) (hab : a ≠ b) : (s.set a e).get b = s.get b := by
  simp [Store.set, Store.get, Ne.symm hab]

/-- writing a state back changes no address outside the component's bound addresses -/
theorem setState_frame (c : Comp ε) (state : List (String × ε)) : ∀ (s : Store ε) (a : String),
    a ∉ c.boundAddrs → (setState c s state).get a = s.get a := by
  induction state with
  | nil => intro s a _; rfl
  | cons f fs ih =>
    intro s a ha
    simp only [setState, List.foldl_cons]
    cases hfind : c.boundNames.find? (fun p => p.1 == f.1) with
    | none => exact ih s a ha
    | some p =>
      have hmem : resolve c.name p.2 ∈ c.boundAddrs := by
        unfold Comp.boundAddrs
        exact List.mem_map.mpr ⟨p, List.mem_of_find?_eq_some hfind, rfl⟩
      have hne : resolve c.name p.2 ≠ a := by intro h; rw [h] at hmem; exact ha hmem
      have := ih (s.set (resolve c.name p.2) f.2) a ha
      simp only [setState] at this
      rw [this, get_set_other _ _ _ _ hne]

theorem initDefaults_frame (c : Comp ε) (s : Store ε) (a : String) (ha : a ∉ c.boundAddrs) :
    (initDefaults c s).get a = s.get a := by
  unfold initDefaults
  have : ∀ (l : List (String × String)), (∀ p ∈ l, resolve c.name p.2 ∈ c.boundAddrs) → ∀ s : Store ε,
      (l.foldl (fun acc p =>
        match acc.get (resolve c.name p.2) with
        | some _ => acc
        | none =>
          match (c.defaults.find? (fun d => d.1 == p.1)).map (·.2) with
          | some d => acc.set (resolve c.name p.2) d
          | none => acc) s).get a = s.get a := by
    intro l
    induction l with
    | nil => intro _ s; rfl
    | cons p ps ih =>
      intro hl s
      simp only [List.foldl_cons]
      have hp := hl p (List.mem_cons_self ..)
      have hne : resolve c.name p.2 ≠ a := by intro h; rw [h] at hp; exact ha hp
      have hrest := fun s' => ih (fun q hq => hl q (List.mem_cons_of_mem _ hq)) s'
      split
      · exact hrest s
      · split
        · rw [hrest, get_set_other _ _ _ _ hne]
        · exact hrest s
  exact this c.boundNames (fun p hp => List.mem_map.mpr ⟨p, hp, rfl⟩) s

/-! tagging -/

theorem tagEvents_length_of_reject (compName m : String) (evs : List Ev) (h : ∃ e ∈ evs, e.tag = tagREJECT) :
    (tagEvents compName m evs).length = evs.length := by
  unfold tagEvents
  have : evs.all (fun e => e.tag ≠ tagREJECT && e.tag ≠ tagACCEPT) = false := by
    rw [List.all_eq_false]
    obtain ⟨e, he, ht⟩ := h
    exact ⟨e, he, by simp [ht]⟩
  rw [this]; simp

theorem tagEvents_reject_iff (compName m : String) (hm : m ≠ tagREJECT) (evs : List Ev) :
    (∃ e ∈ tagEvents compName m evs, e.tag = tagREJECT) ↔ (∃ e ∈ evs, e.tag = tagREJECT) := by
  unfold tagEvents
  constructor
  · intro ⟨e, he, ht⟩
    have hmem : e ∈ evs.map (retag m) := by
      simp only at he
      split at he
      · rcases List.mem_append.mp he with h1 | h1
        · exact h1
        · simp at h1; rw [h1] at ht; simp [tagACCEPT, tagREJECT] at ht
      · exact he
    obtain ⟨x, hx, rfl⟩ := List.mem_map.mp hmem
    refine ⟨x, hx, ?_⟩
    simp only [retag] at ht
    by_cases hx0 : x.tag = ""
    · simp [hx0] at ht; exact absurd ht hm
    · simpa [hx0] using ht
  · intro ⟨e, he, ht⟩
    refine ⟨retag m e, ?_, ?_⟩
    · have : retag m e ∈ evs.map (retag m) := List.mem_map.mpr ⟨e, he, rfl⟩
      simp only
      split
      · exact List.mem_append_left _ this
      · exact this
    · have h0 : ¬ (tagREJECT = "") := by decide
      simp only [retag, ht, h0, if_false]

/-- a rejection returned alone stays alone: exactly one event, still a rejection, no ACCEPT added -/
theorem tagEvents_single_reject (compName m : String) (r : Ev) (hr : r.tag = tagREJECT) :
    tagEvents compName m [r] = [{ r with method := m }] := by
  simp [tagEvents, retag, hr, tagREJECT]

end
end Simaple.Dispatch

namespace Simaple.Dispatch
section
variable {ε : Type}

/-- reading depends only on the bound addresses -/
theorem readAll_congr (c : Comp ε) (s s' : Store ε) (h : ∀ a ∈ c.boundAddrs, s.get a = s'.get a) :
    readAll c s = readAll c s' := by
  unfold readAll
  have : ∀ (l : List (String × String)), (∀ p ∈ l, resolve c.name p.2 ∈ c.boundAddrs) →
      readList c s l = readList c s' l := by
    intro l hl
    induction l with
    | nil => rfl
    | cons p ps ih =>
      simp only [readList]
      rw [h _ (hl p (List.mem_cons_self ..)), ih (fun q hq => hl q (List.mem_cons_of_mem _ hq))]
  exact this c.boundNames (fun p hp => List.mem_map.mpr ⟨p, hp, rfl⟩)

theorem readList_spec (c : Comp ε) (s : Store ε) : ∀ (l : List (String × String)) (st : List (String × ε)),
    readList c s l = some st →
    st.map (·.1) = l.map (·.1) ∧ ∀ f ∈ st, ∃ p ∈ l, p.1 = f.1 ∧ s.get (resolve c.name p.2) = some f.2 := by
  intro l
  induction l with
  | nil => intro st h; simp [readList] at h; subst h; simp
  | cons p ps ih =>
    intro st h
    simp only [readList] at h
    cases hg : s.get (resolve c.name p.2) with
    | none => simp [hg] at h
    | some e =>
      cases hr : readList c s ps with
      | none => simp [hg, hr] at h
      | some rest =>
        simp [hg, hr] at h
        subst h
        obtain ⟨h1, h2⟩ := ih rest hr
        refine ⟨by simp [h1], ?_⟩
        intro f hf
        rcases List.mem_cons.mp hf with rfl | hf
        · exact ⟨p, List.mem_cons_self .., rfl, hg⟩
        · obtain ⟨q, hq, hq1, hq2⟩ := h2 f hf
          exact ⟨q, List.mem_cons_of_mem _ hq, hq1, hq2⟩

/-- every field that `readAll` returns is the content of the store at the field's bound address -/
theorem readAll_spec (c : Comp ε) (s : Store ε) (st : List (String × ε)) (h : readAll c s = some st) :
    st.map (·.1) = c.boundNames.map (·.1) ∧
    ∀ f ∈ st, ∃ p ∈ c.boundNames, p.1 = f.1 ∧ s.get (resolve c.name p.2) = some f.2 :=
  readList_spec c s c.boundNames st h

theorem inj_of_nodup_map {α β : Type} (f : α → β) : ∀ (l : List α), (l.map f).Nodup →
    ∀ x ∈ l, ∀ y ∈ l, f x = f y → x = y := by
  intro l
  induction l with
  | nil => intro _ x hx; cases hx
  | cons a as ih =>
    intro hnd x hx y hy hxy
    simp only [List.map_cons, List.nodup_cons, List.mem_map, not_exists, not_and] at hnd
    rcases List.mem_cons.mp hx with rfl | hx'
    · rcases List.mem_cons.mp hy with rfl | hy'
      · rfl
      · exact absurd hxy.symm (hnd.1 y hy')
    · rcases List.mem_cons.mp hy with rfl | hy'
      · exact absurd hxy (hnd.1 x hx')
      · exact ih hnd.2 x hx' y hy' hxy

/-- writing back exactly what was read leaves every lookup as it was (bound names are distinct) -/
theorem setState_readback (c : Comp ε) (hnd : (c.boundNames.map (·.1)).Nodup) (s : Store ε)
    (st : List (String × ε)) (h : readAll c s = some st) : ∀ a, (setState c s st).get a = s.get a := by
  obtain ⟨_, hspec⟩ := readAll_spec c s st h
  -- generalise: any list of fields each of which holds the store's content at its bound address
  have : ∀ (fs : List (String × ε)) (s' : Store ε), (∀ a, s'.get a = s.get a) →
      (∀ f ∈ fs, ∃ p ∈ c.boundNames, p.1 = f.1 ∧ s.get (resolve c.name p.2) = some f.2) →
      ∀ a, (fs.foldl (fun acc f =>
        match c.boundNames.find? (fun p => p.1 == f.1) with
        | some p => acc.set (resolve c.name p.2) f.2
        | none => acc) s').get a = s.get a := by
    intro fs
    induction fs with
    | nil => intro s' hs _ a; exact hs a
    | cons f fs ih =>
      intro s' hs hf a
      simp only [List.foldl_cons]
      apply ih _ _ (fun g hg => hf g (List.mem_cons_of_mem _ hg))
      intro b
      obtain ⟨p, hp, hp1, hp2⟩ := hf f (List.mem_cons_self ..)
      cases hfind : c.boundNames.find? (fun q => q.1 == f.1) with
      | none => exact hs b
      | some q =>
        simp only
        -- q is p, because names are distinct
        have hq := List.mem_of_find?_eq_some hfind
        have hq1 : q.1 = f.1 := by simpa using List.find?_some hfind
        have hqp : q = p := by
          have hinj : ∀ x ∈ c.boundNames, ∀ y ∈ c.boundNames, x.1 = y.1 → x = y := by
            intro x hx y hy hxy
            exact inj_of_nodup_map (·.1) c.boundNames hnd x hx y hy hxy
          exact hinj q hq p hp (hq1.trans hp1.symm)
        subst hqp
        by_cases hb : resolve c.name q.2 = b
        · subst hb; rw [get_set_same, ← hp2]
        · rw [get_set_other _ _ _ _ hb]; exact hs b
  exact this st s (fun _ => rfl) hspec

end
end Simaple.Dispatch
