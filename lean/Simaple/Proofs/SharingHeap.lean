import Simaple.Model.Sharing
/-! Lemmas for C02, heap half: `Spec.interpret` over a heap overwrites no cell that existed before (frame), and what
it returns stands for the pure interpretation of the stored document. -/
namespace Simaple.Sharing

/-! ## frame -/

theorem Frame.refl (h : Heap) : Frame h h := ⟨Nat.le_refl _, fun _ _ => rfl⟩

theorem Frame.trans {h1 h2 h3 : Heap} (a : Frame h1 h2) (b : Frame h2 h3) : Frame h1 h3 :=
  ⟨Nat.le_trans a.1 b.1, fun x hx => by rw [b.2 x (Nat.lt_of_lt_of_le hx a.1), a.2 x hx]⟩

theorem Frame.append (h ext : Heap) : Frame h (h ++ ext) :=
  ⟨by simp, fun a ha => by rw [List.getElem?_append_left ha]⟩

theorem Frame.push {h h1 : Heap} (a : Frame h h1) (n : Node) : Frame h (h1 ++ [n]) :=
  a.trans (Frame.append h1 [n])

theorem lt_of_getElem?_some {β : Type} {l : List β} {a : Nat} {x : β} (h : l[a]? = some x) : a < l.length := by
  rcases Nat.lt_or_ge a l.length with h' | h'
  · exact h'
  · rw [List.getElem?_eq_none h'] at h; cases h

theorem mapMH_frame {f : Heap → Val → Option (Heap × Val)}
    (hf : ∀ h v x, f h v = some x → Frame h x.1) :
    ∀ (vs : List Val) (h : Heap) (x : Heap × List Val), mapMH f h vs = some x → Frame h x.1 := by
  intro vs
  induction vs with
  | nil =>
    intro h x hx
    simp only [mapMH, Option.some.injEq] at hx
    subst hx
    exact Frame.refl h
  | cons v vs ih =>
    intro h x hx
    simp only [mapMH] at hx
    cases h1 : f h v with
    | none => rw [h1] at hx; cases hx
    | some y =>
      rw [h1] at hx
      simp only [] at hx
      cases h2 : mapMH f y.1 vs with
      | none => rw [h2] at hx; cases hx
      | some z =>
        rw [h2] at hx
        simp only [Option.some.injEq] at hx
        subst hx
        exact (hf h v y h1).trans (ih y.1 z h2)

theorem dictMH_frame {hk : Hooks} {f : Heap → Val → Option (Heap × Val)}
    (hf : ∀ h v x, f h v = some x → Frame h x.1) :
    ∀ (kvs : List (String × Val)) (h : Heap) (acc : List (String × Val)) (x : Heap × List (String × Val)),
      dictMH hk f h kvs acc = some x → Frame h x.1 := by
  intro kvs
  induction kvs with
  | nil =>
    intro h acc x hx
    simp only [dictMH, Option.some.injEq] at hx
    subst hx
    exact Frame.refl h
  | cons kv rest ih =>
    intro h acc x hx
    obtain ⟨k, v⟩ := kv
    cases v with
    | scal s =>
      simp only [dictMH] at hx
      exact ih h _ x hx
    | ref a =>
      simp only [dictMH] at hx
      cases h1 : f h (.ref a) with
      | none => rw [h1] at hx; cases hx
      | some y =>
        rw [h1] at hx
        simp only [] at hx
        exact (hf h _ y h1).trans (ih y.1 _ x hx)

theorem dfsH_frame (hk : Hooks) :
    ∀ (fuel : Nat) (h : Heap) (v : Val) (x : Heap × Val), dfsH hk fuel h v = some x → Frame h x.1 := by
  intro fuel
  induction fuel with
  | zero =>
    intro h v x hx
    cases v with
    | scal s =>
      simp only [dfsH, Option.some.injEq] at hx
      subst hx
      exact Frame.refl h
    | ref a => simp [dfsH] at hx
  | succ n ih =>
    intro h v x hx
    cases v with
    | scal s =>
      simp only [dfsH, Option.some.injEq] at hx
      subst hx
      exact Frame.refl h
    | ref a =>
      simp only [dfsH] at hx
      cases h1 : h[a]? with
      | none => rw [h1] at hx; cases hx
      | some node =>
        rw [h1] at hx
        cases node with
        | list vs =>
          simp only [] at hx
          cases h2 : mapMH (dfsH hk n) h vs with
          | none => rw [h2] at hx; cases hx
          | some y =>
            rw [h2] at hx
            simp only [Option.some.injEq] at hx
            subst hx
            exact (mapMH_frame ih vs h y h2).push _
        | dict kvs =>
          simp only [] at hx
          cases h2 : dictMH hk (dfsH hk n) h kvs [] with
          | none => rw [h2] at hx; cases hx
          | some y =>
            rw [h2] at hx
            simp only [Option.some.injEq] at hx
            subst hx
            exact (dictMH_frame ih kvs h [] y h2).push _

/-- a traversal of a container hands back a cell that did not exist before -/
theorem dfsH_fresh (hk : Hooks) (fuel : Nat) (h : Heap) (a : Nat) (x : Heap × Val)
    (hx : dfsH hk fuel h (.ref a) = some x) : ∃ b, x.2 = .ref b ∧ h.length ≤ b ∧ b < x.1.length := by
  cases fuel with
  | zero => simp [dfsH] at hx
  | succ n =>
    simp only [dfsH] at hx
    cases h1 : h[a]? with
    | none => rw [h1] at hx; cases hx
    | some node =>
      rw [h1] at hx
      cases node with
      | list vs =>
        simp only [] at hx
        cases h2 : mapMH (dfsH hk n) h vs with
        | none => rw [h2] at hx; cases hx
        | some y =>
          rw [h2] at hx
          simp only [Option.some.injEq] at hx
          subst hx
          exact ⟨y.1.length, rfl, (mapMH_frame (dfsH_frame hk n) vs h y h2).1, by simp⟩
      | dict kvs =>
        simp only [] at hx
        cases h2 : dictMH hk (dfsH hk n) h kvs [] with
        | none => rw [h2] at hx; cases hx
        | some y =>
          rw [h2] at hx
          simp only [Option.some.injEq] at hx
          subst hx
          exact ⟨y.1.length, rfl, (dictMH_frame (dfsH_frame hk n) kvs h [] y h2).1, by simp⟩

mutual
theorem allocT_frame : ∀ (h : Heap) (t : Tree), Frame h (allocT h t).1
  | h, .leaf s => by simp only [allocT]; exact Frame.refl h
  | h, .list ts => by simp only [allocT]; exact (allocTList_frame h ts).push _
  | h, .dict kts => by simp only [allocT]; exact (allocTDict_frame h kts).push _
theorem allocTList_frame : ∀ (h : Heap) (ts : List Tree), Frame h (allocTList h ts).1
  | h, [] => by simp only [allocTList]; exact Frame.refl h
  | h, t :: ts => by
    simp only [allocTList]
    exact (allocT_frame h t).trans (allocTList_frame _ ts)
theorem allocTDict_frame : ∀ (h : Heap) (kts : List (String × Tree)), Frame h (allocTDict h kts).1
  | h, [] => by simp only [allocTDict]; exact Frame.refl h
  | h, (k, t) :: rest => by
    simp only [allocTDict]
    exact (allocT_frame h t).trans (allocTDict_frame _ rest)
end

/-- an assignment into a cell that is newer than `h0` leaves `h0` framed -/
theorem setKeyH_frame {h h' h0 : Heap} {a : Nat} {k : String} {v : Val} (hs : setKeyH h a k v = some h')
    (hf : Frame h0 h) (ha : h0.length ≤ a) : Frame h0 h' := by
  unfold setKeyH at hs
  split at hs
  · simp only [Option.some.injEq] at hs
    subst hs
    refine ⟨by simpa using hf.1, ?_⟩
    intro b hb
    rw [List.getElem?_set_ne (by omega)]
    exact hf.2 b hb
  · cases hs

theorem applyPatchH_frame (fuel : Nat) (h : Heap) (v : Val) (t : Tree) (p : Patch) (x : Heap × Val)
    (hx : applyPatchH fuel h v t p = some x) : Frame h x.1 := by
  cases p with
  | dfs hk => exact dfsH_frame hk fuel h v x hx
  | same =>
    simp only [applyPatchH, Option.some.injEq] at hx
    subst hx
    exact Frame.refl h
  | copySet k f =>
    simp only [applyPatchH] at hx
    split at hx
    · rename_i h1 a hd
      split at hx
      · rename_i h2 hs
        simp only [Option.some.injEq] at hx
        subst hx
        have f1 : Frame h h1 := dfsH_frame copyHooks fuel h v (h1, .ref a) hd
        have f2 : Frame h (allocT h1 (f t)).1 := f1.trans (allocT_frame h1 (f t))
        have ha : h.length ≤ a := by
          cases v with
          | scal s =>
            cases fuel <;> simp [dfsH] at hd
          | ref a0 =>
            obtain ⟨b, hb, hle, _⟩ := dfsH_fresh copyHooks fuel h a0 _ hd
            simp only [Val.ref.injEq] at hb
            omega
        exact setKeyH_frame hs f2 ha
      · cases hx
    · cases hx

theorem runPatchesH_frame (fuel : Nat) :
    ∀ (ps : List Patch) (h : Heap) (v : Val) (t : Tree) (x : Heap × Val),
      runPatchesH fuel h v t ps = some x → Frame h x.1 := by
  intro ps
  induction ps with
  | nil =>
    intro h v t x hx
    simp only [runPatchesH, Option.some.injEq] at hx
    subst hx
    exact Frame.refl h
  | cons p ps ih =>
    intro h v t x hx
    simp only [runPatchesH] at hx
    cases h1 : applyPatchH fuel h v t p with
    | none => rw [h1] at hx; cases hx
    | some y =>
      rw [h1] at hx
      exact (applyPatchH_frame fuel h v t p y h1).trans (ih y.1 y.2 _ x hx)

theorem interpretH_frame' (fuel : Nat) (h : Heap) (root : Nat) (t : Tree) (ps : List Patch) (x : Heap × Val)
    (hx : interpretH fuel h root t ps = some x) : Frame h x.1 := by
  unfold interpretH at hx
  split at hx
  · rename_i y hy
    exact (dfsH_frame copyHooks fuel h _ y hy).trans (runPatchesH_frame fuel ps _ _ t x hx)
  · cases hx

theorem interpretShallowH_frame' (fuel : Nat) (h : Heap) (root : Nat) (t : Tree) (ps : List Patch) (x : Heap × Val)
    (hx : interpretShallowH fuel h root t ps = some x) : Frame h x.1 := by
  unfold interpretShallowH at hx
  split at hx
  · exact (Frame.append h _).trans (runPatchesH_frame fuel ps _ _ t x hx)
  · cases hx

/-! ## what the result stands for -/

mutual
/-- a representation survives in any heap that agrees on the cells that existed -/
theorem Rep_mono {h h' : Heap} (hag : ∀ a, a < h.length → h'[a]? = h[a]?) :
    ∀ (v : Val) (t : Tree), Rep h v t → Rep h' v t
  | .scal s, .leaf s', hr => by simpa [Rep] using hr
  | .ref a, .list ts, hr => by
    simp only [Rep] at hr ⊢
    obtain ⟨vs, h1, h2⟩ := hr
    exact ⟨vs, by rw [hag a (lt_of_getElem?_some h1)]; exact h1, RepList_mono hag vs ts h2⟩
  | .ref a, .dict kts, hr => by
    simp only [Rep] at hr ⊢
    obtain ⟨kvs, h1, h2⟩ := hr
    exact ⟨kvs, by rw [hag a (lt_of_getElem?_some h1)]; exact h1, RepDict_mono hag kvs kts h2⟩
  | .scal _, .list _, hr => by simp [Rep] at hr
  | .scal _, .dict _, hr => by simp [Rep] at hr
  | .ref _, .leaf _, hr => by simp [Rep] at hr
theorem RepList_mono {h h' : Heap} (hag : ∀ a, a < h.length → h'[a]? = h[a]?) :
    ∀ (vs : List Val) (ts : List Tree), RepList h vs ts → RepList h' vs ts
  | [], [], _ => by simp [RepList]
  | v :: vs, t :: ts, hr => by
    simp only [RepList] at hr ⊢
    exact ⟨Rep_mono hag v t hr.1, RepList_mono hag vs ts hr.2⟩
  | [], _ :: _, hr => by simp [RepList] at hr
  | _ :: _, [], hr => by simp [RepList] at hr
theorem RepDict_mono {h h' : Heap} (hag : ∀ a, a < h.length → h'[a]? = h[a]?) :
    ∀ (kvs : List (String × Val)) (kts : List (String × Tree)), RepDict h kvs kts → RepDict h' kvs kts
  | [], [], _ => by simp [RepDict]
  | (k, v) :: kvs, (k', t) :: kts, hr => by
    simp only [RepDict] at hr ⊢
    exact ⟨hr.1, Rep_mono hag v t hr.2.1, RepDict_mono hag kvs kts hr.2.2⟩
  | [], _ :: _, hr => by simp [RepDict] at hr
  | _ :: _, [], hr => by simp [RepDict] at hr
end

theorem Rep.frame {h h' : Heap} (f : Frame h h') {v : Val} {t : Tree} (hr : Rep h v t) : Rep h' v t :=
  Rep_mono f.2 v t hr
theorem RepList.frame {h h' : Heap} (f : Frame h h') {vs ts} (hr : RepList h vs ts) : RepList h' vs ts :=
  RepList_mono f.2 vs ts hr
theorem RepDict.frame {h h' : Heap} (f : Frame h h') {kvs kts} (hr : RepDict h kvs kts) : RepDict h' kvs kts :=
  RepDict_mono f.2 kvs kts hr

theorem RepDict_dictSet {h : Heap} : ∀ (kvs : List (String × Val)) (kts : List (String × Tree)) (k : String) (v : Val)
    (t : Tree), RepDict h kvs kts → Rep h v t → RepDict h (dictSet kvs k v) (dictSet kts k t)
  | [], [], k, v, t, _, hv => by simp [dictSet, RepDict, hv]
  | (k1, v1) :: kvs, (k2, t2) :: kts, k, v, t, hr, hv => by
    simp only [RepDict] at hr
    obtain ⟨hk, h1, h2⟩ := hr
    subst hk
    simp only [dictSet]
    by_cases hkk : k1 = k
    · simp only [hkk, if_true, RepDict]
      exact ⟨trivial, hv, h2⟩
    · simp only [hkk, if_false, RepDict]
      exact ⟨trivial, h1, RepDict_dictSet kvs kts k v t h2 hv⟩
  | [], _ :: _, _, _, _, hr, _ => by simp [RepDict] at hr
  | _ :: _, [], _, _, _, hr, _ => by simp [RepDict] at hr

theorem RepDict_append {h : Heap} : ∀ (kvs : List (String × Val)) (kts : List (String × Tree)) (k : String) (v : Val)
    (t : Tree), RepDict h kvs kts → Rep h v t → RepDict h (kvs ++ [(k, v)]) (kts ++ [(k, t)])
  | [], [], k, v, t, _, hv => by simp [RepDict, hv]
  | (k1, v1) :: kvs, (k2, t2) :: kts, k, v, t, hr, hv => by
    simp only [RepDict] at hr
    obtain ⟨hk, h1, h2⟩ := hr
    simp only [List.cons_append, RepDict]
    exact ⟨hk, h1, RepDict_append kvs kts k v t h2 hv⟩
  | [], _ :: _, _, _, _, hr, _ => by simp [RepDict] at hr
  | _ :: _, [], _, _, _, hr, _ => by simp [RepDict] at hr

theorem RepDict_ins {h : Heap} (hk : Hooks) {kvs kts} (k : String) {v : Val} {t : Tree}
    (hr : RepDict h kvs kts) (hv : Rep h v t) : RepDict h (ins hk kvs k v) (ins hk kts k t) := by
  unfold ins
  by_cases hd : hk.dedupe = true
  · simp only [hd, if_true]; exact RepDict_dictSet _ _ k v t hr hv
  · simp only [hd]; exact RepDict_append _ _ k v t hr hv

theorem RepDict_insScalars {h : Heap} (hk : Hooks) (k : String) (s : Scal) {kvs kts}
    (hr : RepDict h kvs kts) : RepDict h (insScalars hk Val.scal kvs k s) (insScalars hk Tree.leaf kts k s) := by
  unfold insScalars
  generalize hk.pd k s = l
  induction l generalizing kvs kts with
  | nil => simpa using hr
  | cons kv rest ih =>
    simp only [List.foldl_cons]
    exact ih (RepDict_ins hk kv.1 hr (by simp [Rep]))

/-- a cell's content stands for a container document, in the heap *before* the cell was pushed -/
def RepNode (h : Heap) : Node → Tree → Prop
  | .list vs, .list ts => RepList h vs ts
  | .dict kvs, .dict kts => RepDict h kvs kts
  | _, _ => False

theorem Rep_of_RepNode {h : Heap} {n : Node} {t : Tree} (hr : RepNode h n t) :
    Rep (h ++ [n]) (.ref h.length) t := by
  cases n with
  | list vs =>
    cases t with
    | list ts =>
      simp only [RepNode] at hr
      simp only [Rep]
      exact ⟨vs, by simp, hr.frame (Frame.append h _)⟩
    | leaf s => simp [RepNode] at hr
    | dict kts => simp [RepNode] at hr
  | dict kvs =>
    cases t with
    | dict kts =>
      simp only [RepNode] at hr
      simp only [Rep]
      exact ⟨kvs, by simp, hr.frame (Frame.append h _)⟩
    | leaf s => simp [RepNode] at hr
    | list ts => simp [RepNode] at hr

/-- what a traversal function must deliver for documents of depth ≤ `d` -/
def DfsOk (hk : Hooks) (f : Heap → Val → Option (Heap × Val)) (d : Nat) : Prop :=
  ∀ (h : Heap) (v : Val) (t : Tree), Rep h v t → t.depth ≤ d →
    ∃ x, f h v = some x ∧ Frame h x.1 ∧ Rep x.1 x.2 (dfsT hk t)

theorem mapMH_rep {hk : Hooks} {f} {d : Nat} (hf : DfsOk hk f d) :
    ∀ (vs : List Val) (ts : List Tree) (h : Heap), RepList h vs ts → Tree.depthList ts ≤ d →
      ∃ x, mapMH f h vs = some x ∧ Frame h x.1 ∧ RepList x.1 x.2 (dfsTList hk ts)
  | [], [], h, _, _ => ⟨(h, []), by simp [mapMH], Frame.refl h, by simp [dfsTList, RepList]⟩
  | v :: vs, t :: ts, h, hr, hd => by
    simp only [RepList] at hr
    simp only [Tree.depthList] at hd
    obtain ⟨x, hx, fx, rx⟩ := hf h v t hr.1 (by omega)
    obtain ⟨y, hy, fy, ry⟩ := mapMH_rep hf vs ts x.1 (hr.2.frame fx) (by omega)
    refine ⟨(y.1, x.2 :: y.2), by simp [mapMH, hx, hy], fx.trans fy, ?_⟩
    simp only [dfsTList, RepList]
    exact ⟨rx.frame fy, ry⟩
  | [], _ :: _, _, hr, _ => by simp [RepList] at hr
  | _ :: _, [], _, hr, _ => by simp [RepList] at hr

theorem dictMH_rep {hk : Hooks} {f} {d : Nat} (hf : DfsOk hk f d) :
    ∀ (kvs : List (String × Val)) (kts : List (String × Tree)) (h : Heap) (acc : List (String × Val))
      (accT : List (String × Tree)), RepDict h kvs kts → RepDict h acc accT → Tree.depthDict kts ≤ d →
      ∃ x, dictMH hk f h kvs acc = some x ∧ Frame h x.1 ∧ RepDict x.1 x.2 (dfsTDict hk kts accT)
  | [], [], h, acc, accT, _, ha, _ => ⟨(h, acc), by simp [dictMH], Frame.refl h, by simpa [dfsTDict] using ha⟩
  | (k, v) :: kvs, (k', t) :: kts, h, acc, accT, hr, ha, hd => by
    simp only [RepDict] at hr
    obtain ⟨hkk, hv, hrest⟩ := hr
    subst hkk
    simp only [Tree.depthDict] at hd
    cases v with
    | scal s =>
      cases t with
      | leaf s' =>
        simp only [Rep] at hv
        subst hv
        simp only [dictMH, dfsTDict]
        exact dictMH_rep hf kvs kts h _ _ hrest (RepDict_insScalars hk k s ha) (by omega)
      | list ts => simp [Rep] at hv
      | dict kts' => simp [Rep] at hv
    | ref a =>
      obtain ⟨x, hx, fx, rx⟩ := hf h (.ref a) t hv (by omega)
      have hacc : RepDict x.1 (ins hk acc k x.2) (ins hk accT k (dfsT hk t)) :=
        RepDict_ins hk k (ha.frame fx) rx
      obtain ⟨y, hy, fy, ry⟩ := dictMH_rep hf kvs kts x.1 _ _ (hrest.frame fx) hacc (by omega)
      refine ⟨y, ?_, fx.trans fy, ?_⟩
      · simp only [dictMH, hx]; exact hy
      · cases t with
        | leaf s' => simp [Rep] at hv
        | list ts => simpa [dfsTDict, dfsT] using ry
        | dict kts' => simpa [dfsTDict, dfsT] using ry
  | [], _ :: _, _, _, _, hr, _, _ => by simp [RepDict] at hr
  | _ :: _, [], _, _, _, hr, _, _ => by simp [RepDict] at hr

/-- the traversal of a container: the new heap is an older heap plus ONE cell, whose content stands for the
    traversed document already in that older heap -/
theorem dfsH_rep_ref (hk : Hooks) (fuel : Nat) (ih : DfsOk hk (dfsH hk fuel) fuel) (h : Heap) (a : Nat) (t : Tree)
    (hr : Rep h (.ref a) t) (hd : t.depth ≤ fuel + 1) :
    ∃ h1 n, dfsH hk (fuel + 1) h (.ref a) = some (h1 ++ [n], .ref h1.length) ∧ Frame h h1 ∧
      RepNode h1 n (dfsT hk t) := by
  cases t with
  | leaf s => simp [Rep] at hr
  | list ts =>
    simp only [Rep] at hr
    obtain ⟨vs, h1, h2⟩ := hr
    simp only [Tree.depth] at hd
    obtain ⟨x, hx, fx, rx⟩ := mapMH_rep ih vs ts h h2 (by omega)
    exact ⟨x.1, .list x.2, by simp [dfsH, h1, hx], fx, by simpa [RepNode, dfsT] using rx⟩
  | dict kts =>
    simp only [Rep] at hr
    obtain ⟨kvs, h1, h2⟩ := hr
    simp only [Tree.depth] at hd
    obtain ⟨x, hx, fx, rx⟩ := dictMH_rep ih kvs kts h [] [] h2 (by simp [RepDict]) (by omega)
    exact ⟨x.1, .dict x.2, by simp [dfsH, h1, hx], fx, by simpa [RepNode, dfsT] using rx⟩

theorem dfsH_ok (hk : Hooks) : ∀ fuel, DfsOk hk (dfsH hk fuel) fuel := by
  intro fuel
  induction fuel with
  | zero =>
    intro h v t hr hd
    cases v with
    | scal s =>
      cases t with
      | leaf s' =>
        simp only [Rep] at hr
        subst hr
        exact ⟨(h, .scal (hk.pv s)), by simp [dfsH], Frame.refl h, by simp [dfsT, Rep]⟩
      | list ts => simp [Rep] at hr
      | dict kts => simp [Rep] at hr
    | ref a =>
      cases t with
      | leaf s => simp [Rep] at hr
      | list ts => simp [Tree.depth] at hd
      | dict kts => simp [Tree.depth] at hd
  | succ n ih =>
    intro h v t hr hd
    cases v with
    | scal s =>
      cases t with
      | leaf s' =>
        simp only [Rep] at hr
        subst hr
        exact ⟨(h, .scal (hk.pv s)), by simp [dfsH], Frame.refl h, by simp [dfsT, Rep]⟩
      | list ts => simp [Rep] at hr
      | dict kts => simp [Rep] at hr
    | ref a =>
      obtain ⟨h1, nd, hx, fx, rx⟩ := dfsH_rep_ref hk n ih h a t hr hd
      exact ⟨_, hx, fx.push nd, Rep_of_RepNode rx⟩

/-- more fuel than needed changes nothing that matters -/
theorem dfsH_ok' (hk : Hooks) (fuel : Nat) : ∀ d, d ≤ fuel → DfsOk hk (dfsH hk fuel) d :=
  fun _ hd h v t hr ht => dfsH_ok hk fuel h v t hr (Nat.le_trans ht hd)

mutual
/-- a freshly allocated structure stands for its document in every heap that agrees on the cells it allocated -/
theorem allocT_rep : ∀ (h : Heap) (t : Tree) (h' : Heap),
    (∀ a, h.length ≤ a → a < (allocT h t).1.length → h'[a]? = (allocT h t).1[a]?) → Rep h' (allocT h t).2 t
  | h, .leaf s, h', _ => by simp [allocT, Rep]
  | h, .list ts, h', hag => by
    have fr := allocTList_frame h ts
    simp only [allocT] at hag ⊢
    simp only [Rep]
    refine ⟨(allocTList h ts).2, ?_, ?_⟩
    · rw [hag _ fr.1 (by simp)]; simp
    · apply allocTList_rep h ts h'
      intro a h1 h2
      rw [hag a h1 (by simp; omega), List.getElem?_append_left h2]
  | h, .dict kts, h', hag => by
    have fr := allocTDict_frame h kts
    simp only [allocT] at hag ⊢
    simp only [Rep]
    refine ⟨(allocTDict h kts).2, ?_, ?_⟩
    · rw [hag _ fr.1 (by simp)]; simp
    · apply allocTDict_rep h kts h'
      intro a h1 h2
      rw [hag a h1 (by simp; omega), List.getElem?_append_left h2]
theorem allocTList_rep : ∀ (h : Heap) (ts : List Tree) (h' : Heap),
    (∀ a, h.length ≤ a → a < (allocTList h ts).1.length → h'[a]? = (allocTList h ts).1[a]?) →
      RepList h' (allocTList h ts).2 ts
  | h, [], h', _ => by simp [allocTList, RepList]
  | h, t :: ts, h', hag => by
    have f1 := allocT_frame h t
    have f2 := allocTList_frame (allocT h t).1 ts
    simp only [allocTList] at hag ⊢
    simp only [RepList]
    refine ⟨?_, ?_⟩
    · apply allocT_rep h t h'
      intro a h1 h2
      rw [hag a h1 (Nat.lt_of_lt_of_le h2 f2.1), f2.2 a h2]
    · apply allocTList_rep _ ts h'
      intro a h1 h2
      exact hag a (Nat.le_trans f1.1 h1) h2
theorem allocTDict_rep : ∀ (h : Heap) (kts : List (String × Tree)) (h' : Heap),
    (∀ a, h.length ≤ a → a < (allocTDict h kts).1.length → h'[a]? = (allocTDict h kts).1[a]?) →
      RepDict h' (allocTDict h kts).2 kts
  | h, [], h', _ => by simp [allocTDict, RepDict]
  | h, (k, t) :: rest, h', hag => by
    have f1 := allocT_frame h t
    have f2 := allocTDict_frame (allocT h t).1 rest
    simp only [allocTDict] at hag ⊢
    simp only [RepDict]
    refine ⟨trivial, ?_, ?_⟩
    · apply allocT_rep h t h'
      intro a h1 h2
      rw [hag a h1 (Nat.lt_of_lt_of_le h2 f2.1), f2.2 a h2]
    · apply allocTDict_rep _ rest h'
      intro a h1 h2
      exact hag a (Nat.le_trans f1.1 h1) h2
end

def Tree.isDict : Tree → Bool
  | .dict _ => true
  | _ => false

theorem dfsT_isDict (hk : Hooks) {t : Tree} (h : t.isDict = true) : (dfsT hk t).isDict = true := by
  cases t <;> simp_all [Tree.isDict, dfsT]

theorem applyPatchT_isDict (p : Patch) {t : Tree} (h : t.isDict = true) : (applyPatchT p t).isDict = true := by
  cases p with
  | dfs hk => exact dfsT_isDict hk h
  | same => exact h
  | copySet k f =>
    cases t with
    | dict kts => simp [applyPatchT, dfsT, setKeyT, Tree.isDict]
    | leaf s => simp [Tree.isDict] at h
    | list ts => simp [Tree.isDict] at h

/-- one patch: it succeeds, frames the heap it started from, and its result stands for the patched document -/
theorem applyPatchH_rep (fuel : Nat) (h : Heap) (v : Val) (t : Tree) (p : Patch) (hr : Rep h v t)
    (hdict : t.isDict = true) (hfuel : t.depth ≤ fuel) :
    ∃ x, applyPatchH fuel h v t p = some x ∧ Frame h x.1 ∧ Rep x.1 x.2 (applyPatchT p t) := by
  cases p with
  | dfs hk => exact dfsH_ok hk fuel h v t hr hfuel
  | same => exact ⟨(h, v), rfl, Frame.refl h, hr⟩
  | copySet k f =>
    cases t with
    | leaf s => simp [Tree.isDict] at hdict
    | list ts => simp [Tree.isDict] at hdict
    | dict kts =>
      cases v with
      | scal s => simp [Rep] at hr
      | ref a =>
        cases fuel with
        | zero => simp [Tree.depth] at hfuel
        | succ n =>
          obtain ⟨h1, nd, hx, fx, rx⟩ := dfsH_rep_ref copyHooks n (dfsH_ok copyHooks n) h a _ hr hfuel
          simp only [dfsT] at rx
          cases nd with
          | list vs => simp [RepNode] at rx
          | dict kvs' =>
            simp only [RepNode] at rx
            have fa := allocT_frame (h1 ++ [Node.dict kvs']) (f (.dict kts))
            have hlen : h1.length < (allocT (h1 ++ [Node.dict kvs']) (f (.dict kts))).1.length :=
              Nat.lt_of_lt_of_le (by simp) fa.1
            have hcell : (allocT (h1 ++ [Node.dict kvs']) (f (.dict kts))).1[h1.length]? = some (.dict kvs') := by
              rw [fa.2 _ (by simp)]; simp
            refine ⟨((allocT (h1 ++ [Node.dict kvs']) (f (.dict kts))).1.set h1.length
                (.dict (dictSet kvs' k (allocT (h1 ++ [Node.dict kvs']) (f (.dict kts))).2)), .ref h1.length), ?_, ?_, ?_⟩
            · simp only [applyPatchH, hx, setKeyH, hcell]
            · refine ⟨by simpa using Nat.le_trans fx.1 (Nat.le_of_lt hlen), ?_⟩
              intro b hb
              have hb1 : b < h1.length := Nat.lt_of_lt_of_le hb fx.1
              rw [List.getElem?_set_ne (by omega), fa.2 b (by simp; omega),
                List.getElem?_append_left hb1, fx.2 b hb]
            · simp only [applyPatchT, dfsT, setKeyT, Rep]
              refine ⟨dictSet kvs' k (allocT (h1 ++ [Node.dict kvs']) (f (.dict kts))).2, by simp [hlen], ?_⟩
              apply RepDict_dictSet
              · apply RepDict_mono _ _ _ rx
                intro b hb
                rw [List.getElem?_set_ne (by omega), fa.2 b (by simp; omega), List.getElem?_append_left hb]
              · apply allocT_rep
                intro b hb1 hb2
                simp only [List.length_append, List.length_cons, List.length_nil] at hb1
                rw [List.getElem?_set_ne (by omega)]

/-- enough fuel for the stored document and for every intermediate result of the chain -/
def FuelOk (fuel : Nat) : Tree → List Patch → Prop
  | t, [] => t.depth ≤ fuel
  | t, p :: ps => t.depth ≤ fuel ∧ FuelOk fuel (applyPatchT p t) ps

theorem interpretT_cons (t : Tree) (p : Patch) (ps : List Patch) :
    interpretT t (p :: ps) = interpretT (applyPatchT p t) ps := by
  simp [interpretT]

theorem runPatchesH_rep (fuel : Nat) :
    ∀ (ps : List Patch) (h : Heap) (v : Val) (t : Tree), Rep h v t → t.isDict = true → FuelOk fuel t ps →
      ∃ x, runPatchesH fuel h v t ps = some x ∧ Frame h x.1 ∧ Rep x.1 x.2 (interpretT t ps)
  | [], h, v, t, hr, _, _ => ⟨(h, v), rfl, Frame.refl h, by simpa [interpretT] using hr⟩
  | p :: ps, h, v, t, hr, hd, hf => by
    simp only [FuelOk] at hf
    obtain ⟨x, hx, fx, rx⟩ := applyPatchH_rep fuel h v t p hr hd hf.1
    obtain ⟨y, hy, fy, ry⟩ := runPatchesH_rep fuel ps x.1 x.2 _ rx (applyPatchT_isDict p hd) hf.2
    refine ⟨y, ?_, fx.trans fy, ?_⟩
    · simp only [runPatchesH, hx]; exact hy
    · rw [interpretT_cons]; exact ry

mutual
/-- `copy.deepcopy` means the same document -/
theorem dfsT_copy : ∀ t : Tree, dfsT copyHooks t = t
  | .leaf s => by simp [dfsT, copyHooks]
  | .list ts => by simp [dfsT, dfsTList_copy ts]
  | .dict kts => by simp [dfsT, dfsTDict_copy kts []]
theorem dfsTList_copy : ∀ ts : List Tree, dfsTList copyHooks ts = ts
  | [] => by simp [dfsTList]
  | t :: ts => by simp [dfsTList, dfsT_copy t, dfsTList_copy ts]
theorem dfsTDict_copy : ∀ (kts acc : List (String × Tree)), dfsTDict copyHooks kts acc = acc ++ kts
  | [], acc => by simp [dfsTDict]
  | (k, .leaf s) :: rest, acc => by
    have h2 := fun acc => dfsTDict_copy rest acc
    simp only [copyHooks] at h2
    simp [dfsTDict, insScalars, ins, copyHooks, h2]
  | (k, .list ts) :: rest, acc => by
    have h1 := dfsTList_copy ts
    have h2 := fun acc => dfsTDict_copy rest acc
    simp only [copyHooks] at h1 h2
    simp [dfsTDict, ins, copyHooks, h1, h2]
  | (k, .dict kts) :: rest, acc => by
    have h1 := dfsTDict_copy kts []
    have h2 := fun acc => dfsTDict_copy rest acc
    simp only [copyHooks] at h1 h2
    simp [dfsTDict, ins, copyHooks, h1, h2]
end

theorem interpretH_rep' (fuel : Nat) (h : Heap) (root : Nat) (kts : List (String × Tree)) (ps : List Patch)
    (hr : Rep h (.ref root) (.dict kts)) (hf : FuelOk fuel (.dict kts) ps) :
    ∃ x, interpretH fuel h root (.dict kts) ps = some x ∧ Frame h x.1 ∧ Rep x.1 x.2 (interpretT (.dict kts) ps) := by
  have hd : (Tree.dict kts).depth ≤ fuel := by
    cases ps with
    | nil => exact hf
    | cons p ps => exact hf.1
  obtain ⟨y, hy, fy, ry⟩ := dfsH_ok copyHooks fuel h (.ref root) (.dict kts) hr hd
  rw [dfsT_copy] at ry
  obtain ⟨x, hx, fx, rx⟩ := runPatchesH_rep fuel ps _ _ _ ry (by simp [Tree.isDict]) hf
  exact ⟨x, by simp only [interpretH, hy]; exact hx, fy.trans fx, rx⟩

theorem interpretShallowH_rep' (fuel : Nat) (h : Heap) (root : Nat) (kts : List (String × Tree)) (ps : List Patch)
    (hr : Rep h (.ref root) (.dict kts)) (hf : FuelOk fuel (.dict kts) ps) :
    ∃ x, interpretShallowH fuel h root (.dict kts) ps = some x ∧ Frame h x.1 ∧
      Rep x.1 x.2 (interpretT (.dict kts) ps) := by
  simp only [Rep] at hr
  obtain ⟨kvs, h1, h2⟩ := hr
  have hcopy : Rep (h ++ [Node.dict kvs]) (.ref h.length) (.dict kts) :=
    Rep_of_RepNode (n := .dict kvs) (t := .dict kts) (by simpa [RepNode] using h2)
  obtain ⟨x, hx, fx, rx⟩ := runPatchesH_rep fuel ps _ _ _ hcopy (by simp [Tree.isDict]) hf
  exact ⟨x, by simp only [interpretShallowH, h1]; exact hx, (Frame.append h _).trans fx, rx⟩

end Simaple.Sharing
