import Simaple.Model.Sharing
/-! Lemmas for C02: the router memo (agreement of the router with and without `_route_cache`) and the invariant
of the sharing protocol. -/
namespace Simaple.Sharing

/-! ## router -/
section Router
variable {α σ ε : Type}

/-- the result of a call with memo and of the same call without: both exceed the nesting bound, or both return the
    same store and events and the memo is still exact -/
def Agree (ds : List (Disp α σ ε)) (x : Option (Cache α σ ε × σ × List ε)) (y : Option (σ × List ε)) : Prop :=
  match x, y with
  | none, none => True
  | some x, some y => CacheOk ds x.1 ∧ x.2.1 = y.1 ∧ x.2.2 = y.2
  | _, _ => False

def RAgree (ds : List (Disp α σ ε)) (r : α → σ → Option (σ × List ε))
    (rc : α → Cache α σ ε → σ → Option (Cache α σ ε × σ × List ε)) : Prop :=
  ∀ a c s, CacheOk ds c → Agree ds (rc a c s) (r a s)

theorem Cache.lookup_insert (c : Cache α σ ε) (k k' : String) (v : List (Disp α σ ε)) :
    (c.insert k v).lookup k' = if k = k' then some v else c.lookup k' := by
  induction c with
  | nil =>
    simp only [Cache.insert, Cache.lookup]
  | cons hd tl ih =>
    obtain ⟨k0, v0⟩ := hd
    simp only [Cache.insert]
    by_cases h0 : k0 = k
    · subst h0
      simp only [if_true, Cache.lookup]
      by_cases h1 : k0 = k' <;> simp [h1]
    · simp only [h0, if_false, Cache.lookup, ih]
      by_cases h1 : k0 = k'
      · subst h1
        have : ¬ k = k0 := fun h => h0 h.symm
        simp [this]
      · simp [h1]

theorem CacheOk.insert {ds : List (Disp α σ ε)} {c : Cache α σ ε} (h : CacheOk ds c) (k : String) :
    CacheOk ds (c.insert k (ds.filter fun d => d.includes k)) := by
  intro k' v hv
  rw [Cache.lookup_insert] at hv
  by_cases hk : k = k'
  · subst hk
    simp only [if_true, Option.some.injEq] at hv
    exact hv.symm
  · simp only [hk, if_false] at hv
    exact h k' v hv

theorem CacheOk.nil (ds : List (Disp α σ ε)) : CacheOk ds ([] : Cache α σ ε) := by
  intro k v h
  simp [Cache.lookup] at h

theorem evalProg_agree {ds : List (Disp α σ ε)} {r rc} (hr : RAgree ds r rc) :
    ∀ (p : Prog α σ ε) (c : Cache α σ ε), CacheOk ds c → Agree ds (evalProgC rc p c) (evalProg r p) := by
  intro p
  induction p with
  | done s evs =>
    intro c hc
    simp only [evalProgC, evalProg, Agree]
    exact ⟨hc, trivial, trivial⟩
  | call a s k ih =>
    intro c hc
    have h := hr a c s hc
    simp only [evalProgC, evalProg]
    cases hx : rc a c s with
    | none =>
      cases hy : r a s with
      | none => simp [Agree]
      | some y => rw [hx, hy] at h; simp [Agree] at h
    | some x =>
      cases hy : r a s with
      | none => rw [hx, hy] at h; simp [Agree] at h
      | some y =>
        rw [hx, hy] at h
        simp only [Agree] at h
        obtain ⟨h1, h2, h3⟩ := h
        simp only []
        rw [h2, h3]
        exact ih y.1 y.2 x.1 h1

theorem runList_agree {ds : List (Disp α σ ε)} {r rc} (hr : RAgree ds r rc) :
    ∀ (l : List (Disp α σ ε)) (a : α) (c : Cache α σ ε) (s : σ), CacheOk ds c →
      Agree ds (runListC rc l a c s) (runList r l a s) := by
  intro l
  induction l with
  | nil =>
    intro a c s hc
    simp only [runListC, runList, Agree]
    exact ⟨hc, trivial, trivial⟩
  | cons d rest ih =>
    intro a c s hc
    have h := evalProg_agree hr (d.run a s) c hc
    simp only [runListC, runList]
    cases hx : evalProgC rc (d.run a s) c with
    | none =>
      cases hy : evalProg r (d.run a s) with
      | none => simp [Agree]
      | some y => rw [hx, hy] at h; simp [Agree] at h
    | some x =>
      cases hy : evalProg r (d.run a s) with
      | none => rw [hx, hy] at h; simp [Agree] at h
      | some y =>
        rw [hx, hy] at h
        simp only [Agree] at h
        obtain ⟨h1, h2, h3⟩ := h
        simp only []
        have h' := ih a x.1 x.2.1 h1
        rw [h2] at h' ⊢
        cases hx2 : runListC rc rest a x.1 y.1 with
        | none =>
          cases hy2 : runList r rest a y.1 with
          | none => simp [Agree]
          | some y2 => rw [hx2, hy2] at h'; simp [Agree] at h'
        | some x2 =>
          cases hy2 : runList r rest a y.1 with
          | none => rw [hx2, hy2] at h'; simp [Agree] at h'
          | some y2 =>
            rw [hx2, hy2] at h'
            simp only [Agree] at h' ⊢
            obtain ⟨g1, g2, g3⟩ := h'
            exact ⟨g1, g2, by rw [h3, g3]⟩

/-- the loop that fills the memo: it computes what the filtered list computes, and the local list it collects
    IS the filtered list -/
def LoopAgree (ds : List (Disp α σ ε)) (want : List (Disp α σ ε))
    (x : Option (Cache α σ ε × σ × List ε × List (Disp α σ ε))) (y : Option (σ × List ε)) : Prop :=
  match x, y with
  | none, none => True
  | some x, some y => CacheOk ds x.1 ∧ x.2.1 = y.1 ∧ x.2.2.1 = y.2 ∧ x.2.2.2 = want
  | _, _ => False

theorem loopAll_agree {ds : List (Disp α σ ε)} {r rc} (hr : RAgree ds r rc) (sg : String) :
    ∀ (l : List (Disp α σ ε)) (a : α) (c : Cache α σ ε) (s : σ), CacheOk ds c →
      LoopAgree ds (l.filter fun d => d.includes sg) (loopAll rc sg l a c s)
        (runList r (l.filter fun d => d.includes sg) a s) := by
  intro l
  induction l with
  | nil =>
    intro a c s hc
    simp only [loopAll, List.filter_nil, runList, LoopAgree]
    exact ⟨hc, trivial, trivial, trivial⟩
  | cons d rest ih =>
    intro a c s hc
    by_cases hd : d.includes sg = true
    · have h := evalProg_agree hr (d.run a s) c hc
      simp only [loopAll, hd, if_true, List.filter_cons_of_pos, runList]
      cases hx : evalProgC rc (d.run a s) c with
      | none =>
        cases hy : evalProg r (d.run a s) with
        | none => simp [LoopAgree]
        | some y => rw [hx, hy] at h; simp [Agree] at h
      | some x =>
        cases hy : evalProg r (d.run a s) with
        | none => rw [hx, hy] at h; simp [Agree] at h
        | some y =>
          rw [hx, hy] at h
          simp only [Agree] at h
          obtain ⟨h1, h2, h3⟩ := h
          simp only []
          have h' := ih a x.1 x.2.1 h1
          rw [h2] at h' ⊢
          cases hx2 : loopAll rc sg rest a x.1 y.1 with
          | none =>
            cases hy2 : runList r (rest.filter fun d => d.includes sg) a y.1 with
            | none => simp [LoopAgree]
            | some y2 => rw [hx2, hy2] at h'; simp [LoopAgree] at h'
          | some x2 =>
            cases hy2 : runList r (rest.filter fun d => d.includes sg) a y.1 with
            | none => rw [hx2, hy2] at h'; simp [LoopAgree] at h'
            | some y2 =>
              rw [hx2, hy2] at h'
              simp only [LoopAgree] at h' ⊢
              obtain ⟨g1, g2, g3, g4⟩ := h'
              exact ⟨g1, g2, by rw [h3, g3], by rw [g4]⟩
    · have hd' : d.includes sg = false := by simpa using hd
      simp only [loopAll, hd', Bool.false_eq_true, if_false]
      rw [List.filter_cons_of_neg (by simp [hd'])]
      exact ih a c s hc

/-- one call: the router with an exact memo agrees with the router without memo, and leaves an exact memo -/
theorem routeCached_agree (sig : α → String) (ds : List (Disp α σ ε)) :
    ∀ depth, RAgree ds (routePlain sig ds depth) (routeCached sig ds depth) := by
  intro depth
  induction depth with
  | zero =>
    intro a c s _
    simp [routePlain, routeCached, Agree]
  | succ n ih =>
    intro a c s hc
    simp only [routePlain, routeCached]
    cases hl : c.lookup (sig a) with
    | some cached =>
      simp only []
      have hcached := hc (sig a) cached hl
      rw [hcached]
      exact runList_agree ih _ a c s hc
    | none =>
      simp only []
      have h := loopAll_agree ih (sig a) ds a c s hc
      cases hx : loopAll (routeCached sig ds n) (sig a) ds a c s with
      | none =>
        cases hy : runList (routePlain sig ds n) (ds.filter fun d => d.includes (sig a)) a s with
        | none => simp [Agree]
        | some y => rw [hx, hy] at h; simp [LoopAgree] at h
      | some x =>
        cases hy : runList (routePlain sig ds n) (ds.filter fun d => d.includes (sig a)) a s with
        | none => rw [hx, hy] at h; simp [LoopAgree] at h
        | some y =>
          rw [hx, hy] at h
          simp only [LoopAgree] at h
          obtain ⟨g1, g2, g3, g4⟩ := h
          simp only [Agree]
          refine ⟨?_, g2, g3⟩
          rw [g4]
          exact g1.insert (sig a)

theorem seqCached_agree (sig : α → String) (ds : List (Disp α σ ε)) (depth : Nat) :
    ∀ (as : List α) (c : Cache α σ ε) (s : σ), CacheOk ds c →
      (seqCached sig ds depth as c s).map (fun x => x.2) = seqPlain sig ds depth as s ∧
      ∀ x, seqCached sig ds depth as c s = some x → CacheOk ds x.1 := by
  intro as
  induction as with
  | nil =>
    intro c s hc
    simp only [seqCached, seqPlain, Option.map_some, true_and]
    intro x hx
    cases hx
    exact hc
  | cons a rest ih =>
    intro c s hc
    have h := routeCached_agree sig ds depth a c s hc
    simp only [seqCached, seqPlain]
    cases hx : routeCached sig ds depth a c s with
    | none =>
      cases hy : routePlain sig ds depth a s with
      | none => simp
      | some y => rw [hx, hy] at h; simp [Agree] at h
    | some x =>
      cases hy : routePlain sig ds depth a s with
      | none => rw [hx, hy] at h; simp [Agree] at h
      | some y =>
        rw [hx, hy] at h
        simp only [Agree] at h
        obtain ⟨h1, h2, h3⟩ := h
        simp only []
        have h' := ih x.1 x.2.1 h1
        rw [h2] at h' ⊢
        cases hx2 : seqCached sig ds depth rest x.1 y.1 with
        | none =>
          rw [hx2] at h'
          simp only [Option.map_none] at h'
          rw [← h'.1]
          simp
        | some x2 =>
          rw [hx2] at h'
          simp only [Option.map_some] at h'
          rw [← h'.1]
          simp only [Option.map_some, h3, true_and]
          intro z hz
          cases hz
          exact h'.2 x2 rfl

end Router

end Simaple.Sharing

namespace Simaple.Sharing
/-! ## protocol -/
section Protocol
variable {ρ κ χ σ ω : Type}

theorem pureRun_append (W : World ρ κ χ σ ω) (R : ρ) :
    ∀ (done : List (Op κ χ)) (e : σ) (rest : List (Op κ χ)),
      pureRun W R e (done ++ rest) =
        ((pureRun W R (pureRun W R e done).1 rest).1, (pureRun W R e done).2 ++ (pureRun W R (pureRun W R e done).1 rest).2) := by
  intro done
  induction done with
  | nil => intro e rest; simp [pureRun]
  | cons op tl ih =>
    intro e rest
    cases op with
    | load q => simp [pureRun, ih]
    | exec c => simp [pureRun, ih]

/-- what is known of a session at any moment of any schedule: it has completed a prefix `done` of its program,
    and its outputs and engine are what that prefix computes from the one repository value `R` -/
def SessOk (W : World ρ κ χ σ ω) (R : ρ) (p0 : List (Op κ χ)) (e0 : σ) (n : Nat) (G : Option Nat)
    (s : Sess κ χ σ ω) : Prop :=
  ∃ done, p0 = done ++ s.prog ∧ s.out = (pureRun W R e0 done).2 ∧ s.eng = (pureRun W R e0 done).1 ∧
    (∀ k, s.phase = .have k → k < n) ∧ (∀ k, s.phase = .built k → k < n) ∧ (s.phase = .ret → G ≠ none) ∧
    (∀ k, s.ref = some k → k < n)

def Inv (W : World ρ κ χ σ ω) (progs : List (List (Op κ χ) × σ)) (st : St ρ κ χ σ ω) : Prop :=
  (∀ r ∈ st.objs, r = W.build 0) ∧ (∀ k, st.G = some k → k < st.objs.length) ∧
  st.sess.length = progs.length ∧
  ∀ (j : Nat) (s : Sess κ χ σ ω), st.sess[j]? = some s → ∃ p : List (Op κ χ) × σ, progs[j]? = some p ∧ SessOk W (W.build 0) p.1 p.2 st.objs.length st.G s

theorem SessOk.mono {W : World ρ κ χ σ ω} {R p0 e0 n n' G G'} {s : Sess κ χ σ ω} (h : SessOk W R p0 e0 n G s)
    (hn : n ≤ n') (hG : G ≠ none → G' ≠ none) : SessOk W R p0 e0 n' G' s := by
  obtain ⟨done, h1, h2, h3, h4, h5, h6, h7⟩ := h
  exact ⟨done, h1, h2, h3, fun k hk => Nat.lt_of_lt_of_le (h4 k hk) hn, fun k hk => Nat.lt_of_lt_of_le (h5 k hk) hn,
    fun hr => hG (h6 hr), fun k hk => Nat.lt_of_lt_of_le (h7 k hk) hn⟩

theorem inv_init (W : World ρ κ χ σ ω) (progs : List (List (Op κ χ) × σ)) : Inv W progs (init progs) := by
  refine ⟨by simp [init], by simp [init], by simp [init], ?_⟩
  intro j s hs
  simp only [init, List.getElem?_map, Option.map_eq_some_iff] at hs
  obtain ⟨p, hp, rfl⟩ := hs
  exact ⟨p, hp, [], by simp [pureRun]⟩

/-- session `i` moves to `s'` while the global state moves to `(G', objs')`: the invariant survives when the new
    objects are still all `R`, nothing shrinks, the global stays set once set, and `s'` is accounted for -/
theorem inv_update {W : World ρ κ χ σ ω} {progs : List (List (Op κ χ) × σ)} {st : St ρ κ χ σ ω}
    (h : Inv W progs st) (i : Nat) (s' : Sess κ χ σ ω) (G' : Option Nat) (objs' : List ρ)
    (hobjs : ∀ r ∈ objs', r = W.build 0) (hG : ∀ k, G' = some k → k < objs'.length)
    (hlen : st.objs.length ≤ objs'.length) (hmono : st.G ≠ none → G' ≠ none)
    (hs' : ∀ p, progs[i]? = some p → SessOk W (W.build 0) p.1 p.2 objs'.length G' s') :
    Inv W progs { G := G', objs := objs', sess := st.sess.set i s' } := by
  obtain ⟨_, _, h3, h4⟩ := h
  refine ⟨hobjs, hG, by simp [h3], ?_⟩
  intro j s hs
  simp only [List.getElem?_set] at hs
  by_cases hij : i = j
  · subst hij
    simp only [if_true] at hs
    by_cases hlt : i < st.sess.length
    · simp only [hlt, if_true, Option.some.injEq] at hs
      subst hs
      have : i < progs.length := h3 ▸ hlt
      exact ⟨progs[i], by simp [this], hs' _ (by simp [this])⟩
    · simp [hlt] at hs
  · simp only [hij, if_false] at hs
    obtain ⟨p, hp, hok⟩ := h4 j s hs
    exact ⟨p, hp, hok.mono hlen hmono⟩

theorem mem_set_all {R : ρ} {l : List ρ} (h : ∀ r ∈ l, r = R) (k : Nat) : ∀ r ∈ l.set k R, r = R := by
  intro r hr
  rcases List.mem_or_eq_of_mem_set hr with h1 | h1
  · exact h r h1
  · exact h1

/-- every atomic step of every session keeps the invariant (under the frame hypothesis) -/
theorem inv_step {W : World ρ κ χ σ ω} (hF : W.Frame) {progs : List (List (Op κ χ) × σ)} (i : Nat)
    {st : St ρ κ χ σ ω} (h : Inv W progs st) : Inv W progs (step W i st) := by
  have hall := h.1
  have hGok := h.2.1
  unfold step
  split
  · exact h
  · rename_i s hs
    obtain ⟨p, hp, done, h1, h2, h3, h4, h5, h6, h7⟩ := h.2.2.2 i s hs
    split
    · exact h
    · -- an engine command
      rename_i c rest hprog
      have hobjs : ∀ r ∈ touchAt st.objs s.ref (W.touchE c s.eng), r = W.build 0 := by
        unfold touchAt
        split
        next k _ =>
          split
          next o ho =>
            rw [hF.execFrame, hall o (List.mem_of_getElem? ho)]
            exact mem_set_all hall k
          next => exact hall
        next => exact hall
      have hlen : (touchAt st.objs s.ref (W.touchE c s.eng)).length = st.objs.length := by
        unfold touchAt
        split
        · split <;> simp
        · rfl
      refine inv_update h i _ st.G _ hobjs (by rw [hlen]; exact hGok) (by rw [hlen]; exact Nat.le_refl _) id ?_
      intro p' hp'
      rw [hp] at hp'
      cases hp'
      refine ⟨done ++ [.exec c], by simp [h1, hprog], ?_, ?_, by simp, by simp, by simp, ?_⟩
      · simp [pureRun_append, pureRun, h2, h3]
      · simp [pureRun_append, pureRun, h3]
      · intro k hk
        rw [hlen]
        exact h7 k hk
    · -- a load
      rename_i q rest hprog
      split
      · -- check
        split
        · refine inv_update h i _ st.G st.objs hall hGok (Nat.le_refl _) id ?_
          intro p' hp'
          rw [hp] at hp'
          cases hp'
          exact ⟨done, h1, h2, h3, by simp, by simp, by simp, h7⟩
        · rename_i k hk
          refine inv_update h i _ st.G st.objs hall hGok (Nat.le_refl _) id ?_
          intro p' hp'
          rw [hp] at hp'
          cases hp'
          exact ⟨done, h1, h2, h3, by simp, by simp, by simp [hk], h7⟩
      · -- construct
        refine inv_update h i _ st.G (st.objs ++ [W.build st.objs.length]) ?_ ?_ (by simp) id ?_
        · intro r hr
          rcases List.mem_append.mp hr with h' | h'
          · exact hall r h'
          · simp only [List.mem_singleton] at h'
            rw [h']
            exact hF.det _ _
        · intro k hk
          have := hGok k hk
          simp
          omega
        · intro p' hp'
          rw [hp] at hp'
          cases hp'
          refine ⟨done, h1, h2, h3, by simp, by simp, by simp, ?_⟩
          intro k hk
          have := h7 k hk
          simp
          omega
      · -- write
        rename_i k hphase
        have hk : k < st.objs.length := h5 k hphase
        refine inv_update h i _ (some k) st.objs hall ?_ (Nat.le_refl _) (by simp) ?_
        · intro k' hk'
          cases hk'
          exact hk
        · intro p' hp'
          rw [hp] at hp'
          cases hp'
          exact ⟨done, h1, h2, h3, by simp, by simp, by simp, h7⟩
      · -- re-read
        split
        · rename_i k hk
          refine inv_update h i _ st.G st.objs hall hGok (Nat.le_refl _) id ?_
          intro p' hp'
          rw [hp] at hp'
          cases hp'
          refine ⟨done, h1, h2, h3, ?_, by simp, by simp, ?_⟩
          · intro k' hk'
            simp only [Phase.have.injEq] at hk'
            subst hk'
            exact hGok k hk
          · intro k' hk'
            simp only [Option.some.injEq] at hk'
            subst hk'
            exact hGok k hk
        · exact h
      · -- interpret
        rename_i k hphase
        split
        · rename_i o ho
          have ho' : o = W.build 0 := hall o (List.mem_of_getElem? ho)
          refine inv_update h i _ st.G (st.objs.set k (W.touchI q o)) ?_ (by simpa using hGok) (by simp) id ?_
          · rw [hF.interpFrame, ho']
            exact mem_set_all hall k
          · intro p' hp'
            rw [hp] at hp'
            cases hp'
            refine ⟨done ++ [.load q], by simp [h1, hprog], ?_, ?_, by simp, by simp, by simp, ?_⟩
            · simp [pureRun_append, pureRun, h2, ho']
            · simp [pureRun_append, pureRun, h3]
            · intro k' hk'
              have := h7 k' hk'
              simpa using this
        · exact h

theorem inv_run {W : World ρ κ χ σ ω} (hF : W.Frame) {progs : List (List (Op κ χ) × σ)} :
    ∀ (sched : List Nat) {st : St ρ κ χ σ ω}, Inv W progs st → Inv W progs (run W sched st) := by
  intro sched
  induction sched with
  | nil => intro st h; exact h
  | cons i rest ih =>
    intro st h
    exact ih (inv_step hF i h)

/-- at every moment of every schedule: a session that has finished has produced exactly what its program computes
    from the one repository value, whatever the others did -/
theorem finished_result {W : World ρ κ χ σ ω} (hF : W.Frame) (progs : List (List (Op κ χ) × σ)) (sched : List Nat)
    (i : Nat) (s : Sess κ χ σ ω) (p : List (Op κ χ) × σ) (hp : progs[i]? = some p)
    (hs : (run W sched (init progs)).sess[i]? = some s) (hfin : s.prog = []) :
    s.out = (pureRun W (W.build 0) p.2 p.1).2 ∧ s.eng = (pureRun W (W.build 0) p.2 p.1).1 := by
  have hinv := inv_run hF sched (inv_init W progs)
  obtain ⟨p', hp', done, h1, h2, h3, _⟩ := hinv.2.2.2 i s hs
  rw [hp] at hp'
  cases hp'
  rw [hfin, List.append_nil] at h1
  rw [h1]
  exact ⟨h2, h3⟩

/-! ### progress: a session that is scheduled often enough finishes -/

def Phase.off : Phase → Nat
  | .idle => 0
  | .sawNone => 1
  | .built _ => 2
  | .ret => 3
  | .have _ => 4

/-- atomic steps a session still needs at most -/
def work (s : Sess κ χ σ ω) : Nat :=
  match s.prog with
  | [] => 0
  | _ :: rest => 5 * (rest.length + 1) - s.phase.off

theorem Phase.off_le (p : Phase) : p.off ≤ 4 := by cases p <;> simp [Phase.off]

theorem step_finished {W : World ρ κ χ σ ω} {i : Nat} {st : St ρ κ χ σ ω} {s : Sess κ χ σ ω}
    (hs : st.sess[i]? = some s) (hfin : s.prog = []) : step W i st = st := by
  unfold step
  rw [hs]
  simp only [hfin]

theorem getElem?_set_self' {β : Type} {l : List β} {i : Nat} {a b : β} (h : l[i]? = some a) : (l.set i b)[i]? = some b := by
  have hlt : i < l.length := by
    rcases Nat.lt_or_ge i l.length with h' | h'
    · exact h'
    · rw [List.getElem?_eq_none h'] at h; cases h
  simp [hlt]

theorem progress {W : World ρ κ χ σ ω} {progs : List (List (Op κ χ) × σ)} {i : Nat}
    {st : St ρ κ χ σ ω} (h : Inv W progs st) {s : Sess κ χ σ ω} (hs : st.sess[i]? = some s) (hne : s.prog ≠ []) :
    ∃ s', (step W i st).sess[i]? = some s' ∧ work s' < work s := by
  obtain ⟨p, _, done, _, _, _, h4, _, h6, _⟩ := h.2.2.2 i s hs
  unfold step
  rw [hs]
  simp only []
  cases hprog : s.prog with
  | nil => exact absurd hprog hne
  | cons op rest =>
    have hoff := Phase.off_le s.phase
    cases op with
    | exec c =>
      simp only []
      refine ⟨_, getElem?_set_self' hs, ?_⟩
      have h0 : Phase.idle.off = 0 := rfl
      simp only [work, hprog]
      cases rest <;> simp [h0] <;> omega
    | load q =>
      simp only []
      cases hph : s.phase with
      | idle =>
        simp only []
        cases hG : st.G with
        | none =>
          simp only [St.upd]
          refine ⟨_, getElem?_set_self' hs, ?_⟩
          simp [work, hprog, hph, Phase.off]
          omega
        | some k =>
          simp only [St.upd]
          refine ⟨_, getElem?_set_self' hs, ?_⟩
          simp [work, hprog, hph, Phase.off]
          omega
      | sawNone =>
        simp only []
        refine ⟨_, getElem?_set_self' hs, ?_⟩
        simp [work, hprog, hph, Phase.off]
        omega
      | built k =>
        simp only []
        refine ⟨_, getElem?_set_self' hs, ?_⟩
        simp [work, hprog, hph, Phase.off]
        omega
      | ret =>
        simp only []
        cases hG : st.G with
        | none => exact absurd hG (h6 hph)
        | some k =>
          simp only [St.upd]
          refine ⟨_, getElem?_set_self' hs, ?_⟩
          simp [work, hprog, hph, Phase.off]
          omega
      | «have» k =>
        simp only []
        have hk := h4 k hph
        cases ho : st.objs[k]? with
        | none =>
          rw [List.getElem?_eq_none_iff] at ho
          omega
        | some o =>
          simp only []
          refine ⟨_, getElem?_set_self' hs, ?_⟩
          cases rest with
          | nil => simp [work, hprog, hph, Phase.off]
          | cons op2 rest2 => simp [work, hprog, hph, Phase.off]; omega

theorem finishes {W : World ρ κ χ σ ω} (hF : W.Frame) {progs : List (List (Op κ χ) × σ)} (i : Nat) :
    ∀ (n : Nat) (st : St ρ κ χ σ ω) (s : Sess κ χ σ ω), Inv W progs st → st.sess[i]? = some s → work s ≤ n →
      ∃ s', (run W (List.replicate n i) st).sess[i]? = some s' ∧ s'.prog = [] := by
  intro n
  induction n with
  | zero =>
    intro st s _ hs hw
    refine ⟨s, by simpa [run] using hs, ?_⟩
    cases hprog : s.prog with
    | nil => rfl
    | cons op rest =>
      have := Phase.off_le s.phase
      simp [work, hprog] at hw
      omega
  | succ n ih =>
    intro st s hinv hs hw
    by_cases hfin : s.prog = []
    · have hstep : step W i st = st := step_finished hs hfin
      have : run W (List.replicate (n + 1) i) st = run W (List.replicate n i) st := by
        simp [run, List.replicate_succ, hstep]
      rw [this]
      exact ih st s hinv hs (by simp [work, hfin])
    · obtain ⟨s', hs', hlt⟩ := progress hinv hs hfin
      have : run W (List.replicate (n + 1) i) st = run W (List.replicate n i) (step W i st) := by
        simp [run, List.replicate_succ]
      rw [this]
      exact ih _ s' (inv_step hF i hinv) hs' (by omega)

theorem work_init_le (p : List (Op κ χ)) (e : σ) :
    work ({ prog := p, phase := .idle, ref := none, eng := e, out := [] } : Sess κ χ σ ω) ≤ 5 * p.length := by
  cases p <;> simp [work, Phase.off]

end Protocol
end Simaple.Sharing
