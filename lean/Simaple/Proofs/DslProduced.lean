import Simaple.Proofs.DslRange
/-! Everything the parser produces is in the parser's range (`rawOk`): tokens the lexer cuts are
well-formed tokens, and every command of every derivation is built from them. -/
namespace Simaple.Dsl

/-! ### the scanners return complete tokens -/

theorem scanStr_inner {esc : Bool} {cs i r : Text} (h : scanStr esc cs = some (i, r)) :
    scanStr esc (i ++ ['"']) = some (i, []) := by
  induction cs generalizing esc i r with
  | nil => simp [scanStr] at h
  | cons c cs ih =>
    simp only [scanStr] at h
    split at h
    · cases h
    · rename_i hnl
      split at h
      · rename_i hq
        cases h
        simp only [Bool.and_eq_true, Bool.not_eq_true'] at hq
        simp [scanStr, hq.2]
      · rename_i hq
        split at h
        · rename_i inner rest heq
          cases h
          simp only [List.cons_append, scanStr, hnl, hq, ih heq]
          simp
        · cases h

theorem digit_props {c : Char} (h : c.isDigit = true) :
    isSign c = false ∧ isExpChar c = false ∧ (c == '.') = false := by
  refine ⟨?_, ?_, ?_⟩
  · cases hs : isSign c with
    | false => rfl
    | true =>
      simp only [isSign, Bool.or_eq_true, beq_iff_eq] at hs
      rcases hs with hs | hs <;> subst hs <;> exact absurd h (by decide)
  · cases hs : isExpChar c with
    | false => rfl
    | true =>
      simp only [isExpChar, Bool.or_eq_true, beq_iff_eq] at hs
      rcases hs with hs | hs <;> subst hs <;> exact absurd h (by decide)
  · cases hs : (c == '.') with
    | false => rfl
    | true => simp only [beq_iff_eq] at hs; subst hs; exact absurd h (by decide)

theorem expChar_props {e : Char} (h : isExpChar e = true) : e.isDigit = false ∧ (e == '.') = false := by
  simp only [isExpChar, Bool.or_eq_true, beq_iff_eq] at h
  rcases h with h | h <;> subst h <;> exact ⟨by decide, by decide⟩

/-- the exponent part is empty or starts with `e`/`E` -/
theorem scanExp_head (x : Text) :
    (scanExp x).1 = [] ∨ ∃ e t, (scanExp x).1 = e :: t ∧ isExpChar e = true := by
  unfold scanExp
  split
  · exact Or.inl rfl
  · rename_i e rest
    split
    · rename_i he
      split
      · exact Or.inl rfl
      · rename_i s r
        split
        · split
          · exact Or.inl rfl
          · exact Or.inr ⟨e, _, rfl, he⟩
        · split
          · exact Or.inl rfl
          · exact Or.inr ⟨e, _, rfl, he⟩
    · exact Or.inl rfl

theorem scanExp_idem (x : Text) : scanExp (scanExp x).1 = ((scanExp x).1, []) := by
  cases x with
  | nil => rfl
  | cons e rest =>
    by_cases he : isExpChar e = true
    · cases rest with
      | nil => simp [scanExp, he]
      | cons s r =>
        by_cases hs : isSign s = true
        · by_cases hemp : (spanP Char.isDigit r).1.isEmpty = true
          · simp [scanExp, he, hs, hemp]
          · have hall := spanP_all (spanP_fst_all Char.isDigit r)
            have h1 : scanExp (e :: s :: r) = (e :: s :: (spanP Char.isDigit r).1, (spanP Char.isDigit r).2) := by
              simp only [scanExp, he, hs, if_true, hemp, Bool.false_eq_true, if_false]
            rw [h1]
            simp only [scanExp, he, hs, if_true, hall, hemp, Bool.false_eq_true, if_false]
        · by_cases hemp : (spanP Char.isDigit (s :: r)).1.isEmpty = true
          · simp [scanExp, he, hs, hemp]
          · -- the digits start with `s`
            have hsd : s.isDigit = true := by
              by_cases hd : s.isDigit = true
              · exact hd
              · simp [spanP, hd] at hemp
            have hall := spanP_all (spanP_fst_all Char.isDigit (s :: r))
            have hfst : (spanP Char.isDigit (s :: r)).1 = s :: (spanP Char.isDigit r).1 := by
              simp [spanP, hsd]
            have h1 : scanExp (e :: s :: r) =
                (e :: (spanP Char.isDigit (s :: r)).1, (spanP Char.isDigit (s :: r)).2) := by
              simp only [scanExp, he, hs, if_true, hemp, Bool.false_eq_true, if_false]
            rw [h1]
            simp only
            rw [hfst] at hall hemp ⊢
            simp only [scanExp, he, hs, if_true, hall, hemp, Bool.false_eq_true, if_false]
    · simp [scanExp, he]

theorem spanP_digits_then {fp ex : Text} (hfp : fp.all Char.isDigit = true)
    (hex : ex = [] ∨ ∃ e t, ex = e :: t ∧ isExpChar e = true) :
    spanP Char.isDigit (fp ++ ex) = (fp, ex) := by
  rcases hex with rfl | ⟨e, t, rfl, he⟩
  · simpa using spanP_all hfp
  · exact spanP_all_term hfp (expChar_props he).1 t

theorem scanAfterInt_exp {ip ex : Text} (hex : ex = [] ∨ ∃ e t, ex = e :: t ∧ isExpChar e = true)
    (hid : scanExp ex = (ex, [])) : scanAfterInt ip ex = (ip ++ ex, []) := by
  rcases hex with rfl | ⟨e, t, rfl, he⟩
  · simp [scanAfterInt]
  · simp only [scanAfterInt, (expChar_props he).2, Bool.false_eq_true, if_false, hid]

/-- `. digits+ exp?` is a complete unsigned number -/
theorem scanUnsigned_dot (fp ex : Text) (hfp : fp.all Char.isDigit = true) (hne : fp.isEmpty = false)
    (hex : ex = [] ∨ ∃ e t, ex = e :: t ∧ isExpChar e = true) (hid : scanExp ex = (ex, [])) :
    scanUnsigned ('.' :: fp ++ ex) = some ('.' :: fp ++ ex, []) := by
  have hsp := spanP_digits_then hfp hex
  have h0 : (spanP Char.isDigit ('.' :: (fp ++ ex))).1.isEmpty = true := by
    simp [spanP, show ('.' : Char).isDigit = false by decide]
  unfold scanUnsigned
  simp only [List.cons_append] at h0 ⊢
  rw [if_pos h0]
  simp only [scanDotFirst, show (('.' : Char) == '.') = true by decide, if_true, hsp, hne,
    Bool.false_eq_true, if_false, hid]
  simp

/-- `digits+ (. digits* exp? | exp?)` is a complete unsigned number -/
theorem scanUnsigned_int_dot (ip fp ex : Text) (hip : ip.all Char.isDigit = true) (hne : ip ≠ [])
    (hfp : fp.all Char.isDigit = true)
    (hex : ex = [] ∨ ∃ e t, ex = e :: t ∧ isExpChar e = true) (hid : scanExp ex = (ex, [])) :
    scanUnsigned (ip ++ '.' :: fp ++ ex) = some (ip ++ '.' :: fp ++ ex, []) := by
  have hsp := spanP_digits_then hfp hex
  have hspan : spanP Char.isDigit (ip ++ '.' :: fp ++ ex) = (ip, '.' :: fp ++ ex) := by
    have := spanP_all_term hip (show ('.' : Char).isDigit = false by decide) (fp ++ ex)
    simpa using this
  have hemp : ip.isEmpty = false := by simpa using hne
  unfold scanUnsigned
  rw [hspan]
  simp only [hemp, Bool.false_eq_true, if_false, scanAfterInt, List.cons_append,
    show (('.' : Char) == '.') = true by decide, if_true, hsp, hid]

theorem scanUnsigned_int_exp (ip ex : Text) (hip : ip.all Char.isDigit = true) (hne : ip ≠ [])
    (hex : ex = [] ∨ ∃ e t, ex = e :: t ∧ isExpChar e = true) (hid : scanExp ex = (ex, [])) :
    scanUnsigned (ip ++ ex) = some (ip ++ ex, []) := by
  have hspan := spanP_digits_then hip hex
  have hemp : ip.isEmpty = false := by simpa using hne
  unfold scanUnsigned
  rw [hspan]
  simp only [hemp, Bool.false_eq_true, if_false, scanAfterInt_exp hex hid]

theorem scanUnsigned_idem {r0 t r : Text} (h : scanUnsigned r0 = some (t, r)) :
    scanUnsigned t = some (t, []) := by
  unfold scanUnsigned at h
  by_cases hemp : (spanP Char.isDigit r0).1.isEmpty = true
  · rw [if_pos hemp] at h
    cases r0 with
    | nil => simp [scanDotFirst] at h
    | cons c r2 =>
      simp only [scanDotFirst] at h
      by_cases hc : (c == '.') = true
      · simp only [hc, if_true] at h
        by_cases hne : (spanP Char.isDigit r2).1.isEmpty = true
        · simp [hne] at h
        · simp only [hne, Bool.false_eq_true, if_false, Option.some.injEq, Prod.mk.injEq] at h
          obtain ⟨rfl, _⟩ := h
          exact scanUnsigned_dot _ _ (spanP_fst_all _ _) (by simpa using hne) (scanExp_head _)
            (scanExp_idem _)
      · simp [hc] at h
  · rw [if_neg hemp] at h
    simp only [Option.some.injEq] at h
    have hip := spanP_fst_all Char.isDigit r0
    have hipne : (spanP Char.isDigit r0).1 ≠ [] := by
      intro hh; simp [hh] at hemp
    generalize (spanP Char.isDigit r0).1 = ip at *
    generalize (spanP Char.isDigit r0).2 = rest at *
    cases rest with
    | nil =>
      simp only [scanAfterInt, Prod.mk.injEq] at h
      obtain ⟨rfl, _⟩ := h
      have := scanUnsigned_int_exp ip [] hip hipne (Or.inl rfl) rfl
      simpa using this
    | cons c r2 =>
      simp only [scanAfterInt] at h
      by_cases hc : (c == '.') = true
      · simp only [hc, if_true, Prod.mk.injEq] at h
        obtain ⟨rfl, _⟩ := h
        exact scanUnsigned_int_dot ip _ _ hip hipne (spanP_fst_all _ _) (scanExp_head _) (scanExp_idem _)
      · simp only [hc, Bool.false_eq_true, if_false, Prod.mk.injEq] at h
        obtain ⟨rfl, _⟩ := h
        exact scanUnsigned_int_exp ip _ hip hipne (scanExp_head _) (scanExp_idem _)

theorem scanNumber_idem {a t r : Text} (h : scanNumber a = some (t, r)) : numTokOk t = true := by
  simp only [numTokOk, beq_iff_eq]
  unfold scanNumber at h
  split at h
  · cases h
  · rename_i c cs
    split at h
    · rename_i hs
      split at h
      · rename_i t' r' heq
        cases h
        simp [scanNumber, hs, scanUnsigned_idem heq]
      · cases h
    · rename_i hs
      have hid := scanUnsigned_idem h
      obtain ⟨happ, hne⟩ := scanUnsigned_append h
      cases t with
      | nil => exact absurd rfl hne
      | cons d t' =>
        have hd : d = c := by
          have := congrArg List.head? happ
          simpa using this
        subst hd
        simp [scanNumber, hs, hid]

/-! ### tokens cut by the lexer are well formed -/

def tokGood : Tok → Bool
  | .word w => wordOk w
  | .str n => nameOk n
  | .num t => numTokOk t
  | _ => true

theorem lexStep_some {k : Text → Option (List Tok)} {c : Char} {cs : Text} {ts : List Tok}
    (h : lexStep k c cs = some ts) :
    ∃ tok rest ts', ts = tok :: ts' ∧ k rest = some ts' ∧ tokGood tok = true := by
  unfold lexStep at h
  split at h
  · obtain ⟨ts', h1, h2⟩ := Option.map_eq_some_iff.mp h
    exact ⟨_, _, ts', h2.symm, h1, rfl⟩
  · split at h
    · obtain ⟨ts', h1, h2⟩ := Option.map_eq_some_iff.mp h
      exact ⟨_, _, ts', h2.symm, h1, rfl⟩
    · split at h
      · rename_i ha
        obtain ⟨ts', h1, h2⟩ := Option.map_eq_some_iff.mp h
        refine ⟨_, _, ts', h2.symm, h1, ?_⟩
        simp [tokGood, wordOk, ha, spanP_fst_all]
      · split at h
        · split at h
          · rename_i inner r heq
            obtain ⟨ts', h1, h2⟩ := Option.map_eq_some_iff.mp h
            refine ⟨_, _, ts', h2.symm, h1, ?_⟩
            simp [tokGood, nameOk, scanStr_inner heq]
          · cases h
        · split at h
          · split at h
            · rename_i t r heq
              obtain ⟨ts', h1, h2⟩ := Option.map_eq_some_iff.mp h
              exact ⟨_, _, ts', h2.symm, h1, scanNumber_idem heq⟩
            · cases h
          · split at h
            · split at h
              · obtain ⟨ts', h1, h2⟩ := Option.map_eq_some_iff.mp h
                exact ⟨_, _, ts', h2.symm, h1, rfl⟩
              · cases h
            · cases h

theorem lexF_good : ∀ (f : Nat) (s : Text) (ts : List Tok), lexF f s = some ts →
    ∀ t ∈ ts, tokGood t = true := by
  intro f
  induction f with
  | zero =>
    intro s ts h
    cases s with
    | nil => simp [lexF] at h; subst h; intro t ht; cases ht
    | cons c cs => simp [lexF] at h
  | succ f ih =>
    intro s ts h
    cases s with
    | nil => simp [lexF] at h; subst h; intro t ht; cases ht
    | cons c cs =>
      rw [lexF] at h
      obtain ⟨tok, rest, ts', rfl, hk, hg⟩ := lexStep_some h
      intro t ht
      rcases List.mem_cons.mp ht with rfl | ht'
      · exact hg
      · exact ih rest ts' hk t ht'

theorem lex_good {s : Text} {ts : List Tok} (h : lex s = some ts) : ∀ t ∈ ts, tokGood t = true :=
  lexF_good _ s ts h

/-! ### commands are built from the tokens -/

def atomGood (a : Atom) : Bool := tokGood a.toTok

theorem group_good : ∀ (ts : List Tok), (∀ t ∈ ts, tokGood t = true) →
    ∀ x ∈ (group ts).2, atomGood x.1 = true := by
  intro ts
  induction ts with
  | nil => intro _ x hx; simp [group] at hx
  | cons t ts ih =>
    intro h x hx
    have ih' := ih (fun y hy => h y (List.mem_cons_of_mem _ hy))
    have ht := h t (List.mem_cons_self ..)
    cases t with
    | white w => simp only [group] at hx; exact ih' x hx
    | comment c => simp only [group] at hx; exact ih' x hx
    | word s =>
      simp only [group, List.mem_cons] at hx
      rcases hx with rfl | hx
      · exact ht
      · exact ih' x hx
    | str s =>
      simp only [group, List.mem_cons] at hx
      rcases hx with rfl | hx
      · exact ht
      · exact ih' x hx
    | num s =>
      simp only [group, List.mem_cons] at hx
      rcases hx with rfl | hx
      · exact ht
      · exact ih' x hx
    | debug =>
      simp only [group, List.mem_cons] at hx
      rcases hx with rfl | hx
      · rfl
      · exact ih' x hx

theorem chunk_good (items : List (Atom × List GTok)) :
    ∀ ps, (∀ x ∈ items, atomGood x.1 = true) → chunk items = some ps → ∀ p ∈ ps, rawOk p.cmd = true := by
  fun_induction chunk items with
  | case1 => intro ps _ h p hp; simp at h; subst h; cases hp
  | case2 c g1 n g2 t g3 rest ih =>
    intro ps hg h p hp
    obtain ⟨ps', h1, rfl⟩ := Option.map_eq_some_iff.mp h
    rcases List.mem_cons.mp hp with rfl | hp'
    · have hc := hg (.word c, g1) (by simp)
      have hn := hg (.str n, g2) (by simp)
      have ht := hg (.num t, g3) (by simp)
      simp only [atomGood, Atom.toTok, tokGood] at hc hn ht
      simp [rawOk, hc, hn, ht]
    · exact ih ps' (fun x hx => hg x (by simp [hx])) h1 p hp'
  | case3 c g1 n g2 rest _ ih =>
    intro ps hg h p hp
    obtain ⟨ps', h1, rfl⟩ := Option.map_eq_some_iff.mp h
    rcases List.mem_cons.mp hp with rfl | hp'
    · have hc := hg (.word c, g1) (by simp)
      have hn := hg (.str n, g2) (by simp)
      simp only [atomGood, Atom.toTok, tokGood] at hc hn
      simp [rawOk, hc, hn]
    · exact ih ps' (fun x hx => hg x (by simp [hx])) h1 p hp'
  | case4 c g1 t g2 rest ih =>
    intro ps hg h p hp
    obtain ⟨ps', h1, rfl⟩ := Option.map_eq_some_iff.mp h
    rcases List.mem_cons.mp hp with rfl | hp'
    · have hc := hg (.word c, g1) (by simp)
      have ht := hg (.num t, g2) (by simp)
      simp only [atomGood, Atom.toTok, tokGood] at hc ht
      simp [rawOk, hc, ht]
    · exact ih ps' (fun x hx => hg x (by simp [hx])) h1 p hp'
  | case5 g1 s g2 rest ih =>
    intro ps hg h p hp
    obtain ⟨ps', h1, rfl⟩ := Option.map_eq_some_iff.mp h
    rcases List.mem_cons.mp hp with rfl | hp'
    · have hn := hg (.str s, g2) (by simp)
      simp only [atomGood, Atom.toTok, tokGood] at hn
      simp [rawOk, hn]
    · exact ih ps' (fun x hx => hg x (by simp [hx])) h1 p hp'
  | case6 => intro ps _ h; simp at h

/-! ### every command of every derivation is the command of a phrase -/

theorem plainReading_mem {base : Pat} {before : List GTok} {p : Phrase} {k : List Deriv} {d : Deriv}
    (h : d ∈ plainReading base before p k) : ∃ d' ∈ k, d = consD p.cmd d' := by
  unfold plainReading at h
  split at h
  · obtain ⟨d', hd', rfl⟩ := List.mem_map.mp h
    exact ⟨d', hd', rfl⟩
  · cases h

theorem multReading_mem {base : Pat} {before : List GTok} {p q : Phrase} {k : List Deriv} {d : Deriv}
    (h : d ∈ multReading base before p q k) : ∃ n, ∃ d' ∈ k, d = replD n q.cmd d' := by
  unfold multReading at h
  split at h
  · split at h
    · obtain ⟨d', hd', rfl⟩ := List.mem_map.mp h
      exact ⟨_, d', hd', rfl⟩
    · cases h
  · cases h

/-- all commands of the derivation are among `cs` -/
def derivIn (cs : List RawCmd) (d : Deriv) : Prop := ∀ rs, d = some rs → ∀ r ∈ rs, r ∈ cs

theorem derivIn_consD {cs : List RawCmd} {c : RawCmd} {d : Deriv} (hc : c ∈ cs) (h : derivIn cs d) :
    derivIn cs (consD c d) := by
  intro rs hrs r hr
  cases d with
  | none => simp [consD] at hrs
  | some rs' =>
    simp only [consD, Option.map_some, Option.some.injEq] at hrs
    subst hrs
    rcases List.mem_cons.mp hr with rfl | hr'
    · exact hc
    · exact h rs' rfl r hr'

theorem derivIn_replD {cs : List RawCmd} {c : RawCmd} {n : Option Int} {d : Deriv} (hc : c ∈ cs)
    (h : derivIn cs d) : derivIn cs (replD n c d) := by
  intro rs hrs r hr
  cases n with
  | none => simp [replD] at hrs
  | some k =>
    cases d with
    | none => simp [replD] at hrs
    | some rs' =>
      simp only [replD, Option.some.injEq] at hrs
      subst hrs
      rcases List.mem_append.mp hr with hr' | hr'
      · rw [List.eq_of_mem_replicate hr']; exact hc
      · exact h rs' rfl r hr'

theorem derivIn_mono {cs cs' : List RawCmd} {d : Deriv} (hsub : ∀ r ∈ cs, r ∈ cs') (h : derivIn cs d) :
    derivIn cs' d := fun rs hrs r hr => hsub r (h rs hrs r hr)

theorem endD_in (after : List GTok) (cs : List RawCmd) : ∀ d ∈ endD after, derivIn cs d := by
  intro d hd
  unfold endD at hd
  split at hd
  · simp only [List.mem_singleton] at hd
    subst hd
    intro rs hrs r hr
    simp only [Option.some.injEq] at hrs
    subst hrs; cases hr
  · cases hd

theorem tailD_in : ∀ (n : Nat) (ps : List Phrase), ps.length ≤ n → ∀ after,
    ∀ d ∈ tailD ps after, derivIn (ps.map (·.cmd)) d := by
  intro n
  induction n with
  | zero =>
    intro ps hlen after d hd
    have : ps = [] := List.eq_nil_of_length_eq_zero (by omega)
    subst this
    exact endD_in after _ d hd
  | succ n ih =>
    intro ps hlen after d hd
    match ps, hlen with
    | [], _ => exact endD_in after _ d hd
    | [p], _ =>
      simp only [tailD] at hd
      obtain ⟨d', hd', rfl⟩ := plainReading_mem hd
      exact derivIn_consD (by simp) (derivIn_mono (by simp) (endD_in p.after [] d' hd'))
    | p :: q :: qs, hlen =>
      simp only [tailD, List.mem_append] at hd
      rcases hd with hd | hd
      · obtain ⟨d', hd', rfl⟩ := plainReading_mem hd
        have := ih (q :: qs) (by simp only [List.length_cons] at hlen ⊢; omega) p.after d' hd'
        exact derivIn_consD (by simp) (derivIn_mono (by intro r hr; simp only [List.map_cons, List.mem_cons] at hr ⊢; exact Or.inr hr) this)
      · obtain ⟨k, d', hd', rfl⟩ := multReading_mem hd
        have := ih qs (by simp only [List.length_cons] at hlen ⊢; omega) q.after d' hd'
        exact derivIn_replD (by simp) (derivIn_mono (by intro r hr; simp only [List.map_cons, List.mem_cons]; exact Or.inr (Or.inr hr)) this)

theorem derivsP_in (base : Pat) (before : List GTok) (ps : List Phrase) :
    ∀ d ∈ derivsP base before ps, derivIn (ps.map (·.cmd)) d := by
  intro d hd
  match ps with
  | [] => simp [derivsP] at hd
  | [p] =>
    simp only [derivsP] at hd
    obtain ⟨d', hd', rfl⟩ := plainReading_mem hd
    exact derivIn_consD (by simp) (derivIn_mono (by simp) (endD_in p.after [] d' hd'))
  | p :: q :: qs =>
    simp only [derivsP, List.mem_append] at hd
    rcases hd with hd | hd
    · obtain ⟨d', hd', rfl⟩ := plainReading_mem hd
      have := tailD_in _ (q :: qs) (Nat.le_refl _) p.after d' hd'
      exact derivIn_consD (by simp) (derivIn_mono (by intro r hr; simp only [List.map_cons, List.mem_cons] at hr ⊢; exact Or.inr hr) this)
    · obtain ⟨k, d', hd', rfl⟩ := multReading_mem hd
      have := tailD_in _ qs (Nat.le_refl _) q.after d' hd'
      exact derivIn_replD (by simp) (derivIn_mono (by intro r hr; simp only [List.map_cons, List.mem_cons]; exact Or.inr (Or.inr hr)) this)

theorem pick_ok {ds : List Deriv} {rs : List RawCmd} (h : pick ds = .ok rs) : some rs ∈ ds := by
  cases ds with
  | nil => simp [pick] at h
  | cons d ds =>
    simp only [pick] at h
    split at h
    · cases d with
      | none => simp at h
      | some r => simp only [Except.ok.injEq] at h; subst h; simp
    · cases h

/-- **the parser's range**: every command the parser returns is built from a `WORD`, the inside of an
`ESCAPED_STRING` and a `SIGNED_NUMBER` token -/
theorem parseRawWith_range {base : Pat} {s : Text} {rs : List RawCmd} (h : parseRawWith base s = .ok rs) :
    ∀ r ∈ rs, rawOk r = true := by
  unfold parseRawWith at h
  cases hl : lex s with
  | none => simp [hl] at h
  | some toks =>
    simp only [hl] at h
    cases hc : chunk (group toks).2 with
    | none => simp [hc] at h
    | some ps =>
      simp only [hc] at h
      have hgood := chunk_good _ ps (group_good toks (lex_good hl)) hc
      have hin := derivsP_in base (group toks).1 ps _ (pick_ok h) rs rfl
      intro r hr
      obtain ⟨p, hp, rfl⟩ := List.mem_map.mp (hin r hr)
      exact hgood p hp

end Simaple.Dsl
