import Simaple.Model.Engine
/-! helper lemmas about the engine layer (core Lean only) -/
namespace Simaple.Engine

section
variable {σ τ : Type}
variable (P : Action → σ → σ × List Event)
variable (save : σ → τ)
variable (load : τ → σ)
variable (clock : σ → Rat)
variable (view : σ → String → String)
variable (hash : OpLog τ → String)
variable (t0 : τ)

/-- What the proofs need from the store: everything that influences the future is in the saved form.
    Two live stores with equal saved forms answer every action with equal events and end in stores with
    equal saved forms, and show equal clocks and views; restoring a checkpoint gives a store whose saved
    form is that checkpoint.  (This is what the correspondence check validates on the real code: the
    round trip `restore(create(s))` and the next answers of the restored store.) -/
structure StoreLaws : Prop where
  load_save : ∀ s, save (load (save s)) = save s
  P_events : ∀ a s s', save s = save s' → (P a s).2 = (P a s').2
  P_store : ∀ a s s', save s = save s' → save (P a s).1 = save (P a s').1
  clock_congr : ∀ s s', save s = save s' → clock s = clock s'
  view_congr : ∀ s s' t, save s = save s' → view s t = view s' t

/-- the engine invariant: the cached store, when present, has the checkpoint of the last playlog as its
    saved form, that checkpoint is the saved form of some store, and the buffered events are the events of
    the last playlog -/
def EInv (e : Engine σ τ) : Prop :=
  (e.cached = none ∨ ∃ s, e.cached = some s ∧ save s = lastCkpt t0 e.logs) ∧
  (∃ s, save s = lastCkpt t0 e.logs) ∧
  e.buffered = lastEvents e.logs

variable {P save load clock view}

theorem curStore_save (L : StoreLaws P save load clock view) (e : Engine σ τ) (h : EInv save t0 e) :
    save (curStore load t0 e) = lastCkpt t0 e.logs := by
  unfold curStore
  rcases h.1 with h1 | ⟨s, h1, h2⟩
  · simp only [h1]
    obtain ⟨s, hs⟩ := h.2.1
    rw [← hs, L.load_save]
  · simp only [h1, h2]

theorem mkPL_congr (L : StoreLaws P save load clock view) (a : Action) (s s' : σ) (h : save s = save s') :
    (mkPL save clock a (P a s) : PlayLog τ) = mkPL save clock a (P a s') := by
  simp [mkPL, L.P_events a s s' h, L.P_store a s s' h, L.clock_congr _ _ (L.P_store a s s' h)]

/-- `execOp` on two stores with the same saved form: same playlogs, final stores with the same saved form -/
theorem execOp_congr (L : StoreLaws P save load clock view) (s s' : σ) (b : List Event) (c : Command)
    (h : save s = save s') :
    (execOp P save clock s b c).1 = (execOp P save clock s' b c).1 ∧
    save (execOp P save clock s b c).2 = save (execOp P save clock s' b c).2 := by
  unfold execOp
  cases c.kind with
  | cast =>
    have e1 := L.P_events ⟨c.name, "use", .none⟩ s s' h
    have e2 := L.P_store ⟨c.name, "use", .none⟩ s s' h
    simp only [e1]
    split
    · exact ⟨by rw [mkPL_congr L _ s s' h], e2⟩
    · refine ⟨?_, L.P_store _ _ _ e2⟩
      rw [mkPL_congr L _ s s' h, mkPL_congr L _ _ _ e2]
  | use => exact ⟨by simp only []; rw [mkPL_congr L _ s s' h], L.P_store _ s s' h⟩
  | elapse => exact ⟨by simp only []; rw [mkPL_congr L _ s s' h], L.P_store _ s s' h⟩
  | keydownstop => exact ⟨by simp only []; rw [mkPL_congr L _ s s' h], L.P_store _ s s' h⟩
  | resolve => exact ⟨by simp only []; rw [mkPL_congr L _ s s' h], L.P_store _ s s' h⟩
  | console => exact ⟨rfl, h⟩

/-- the last playlog produced by an operation holds the saved form of the final store -/
theorem execOp_last (s : σ) (b : List Event) (c : Command) :
    match (execOp P save clock s b c).1.getLast? with
    | some pl => pl.ckpt = save (execOp P save clock s b c).2
    | none => c.kind = .console := by
  unfold execOp
  cases c.kind with
  | cast =>
    by_cases hd : firstDelay (P ⟨c.name, "use", .none⟩ s).2 = 0 <;> simp [hd, mkPL]
  | use => simp [mkPL]
  | elapse => simp [mkPL]
  | keydownstop => simp [mkPL]
  | resolve => simp [mkPL]
  | console => simp

theorem allPL_append_nil (logs : List (OpLog τ)) (l : OpLog τ) (h : l.playlogs = []) :
    allPL (logs ++ [l]) = allPL logs := by simp [allPL, h]

theorem allPL_append_last (logs : List (OpLog τ)) (l : OpLog τ) (pl : PlayLog τ)
    (h : l.playlogs.getLast? = some pl) : (allPL (logs ++ [l])).getLast? = some pl := by
  simp only [allPL, List.flatMap_append, List.flatMap_cons, List.flatMap_nil, List.append_nil]
  rw [List.getLast?_append, h]; rfl

theorem exec_logs (L : StoreLaws P save load clock view) (e : Engine σ τ) (c : Command)
    (h : EInv save t0 e) :
    (exec P save load clock view hash t0 e c).logs = stepL P save load clock view hash t0 e.logs c := by
  have hs := curStore_save t0 L e h
  have hl : save (curStore load t0 e) = save (load (lastCkpt t0 e.logs)) := by
    obtain ⟨s, hs'⟩ := h.2.1
    rw [hs, ← hs', L.load_save]
  unfold exec stepL
  by_cases hc : c.kind = .console
  · simp only [hc, if_true]
    rw [L.view_congr _ _ _ hl]
  · simp only [hc, if_false]
    rw [(execOp_congr L _ _ _ c hl).1, h.2.2]

theorem exec_inv (L : StoreLaws P save load clock view) (e : Engine σ τ) (c : Command)
    (h : EInv save t0 e) : EInv save t0 (exec P save load clock view hash t0 e c) := by
  have hs := curStore_save t0 L e h
  unfold exec
  by_cases hc : c.kind = .console
  · simp only [hc, if_true]
    have e1 : lastCkpt t0 (e.logs ++ [⟨c, [], some (view (curStore load t0 e) c.name), lastHash hash e.logs⟩])
        = lastCkpt t0 e.logs := by simp [lastCkpt, allPL_append_nil]
    refine ⟨Or.inr ⟨_, rfl, ?_⟩, ?_, ?_⟩
    · rw [e1]; exact hs
    · rw [e1]; exact h.2.1
    · simp [h.2.2, lastEvents, allPL_append_nil]
  · simp only [hc, if_false]
    have hlast := execOp_last (P := P) (save := save) (clock := clock) (curStore load t0 e) e.buffered c
    cases hg : (execOp P save clock (curStore load t0 e) e.buffered c).1.getLast? with
    | none => rw [hg] at hlast; exact absurd hlast hc
    | some pl =>
      rw [hg] at hlast
      have hl := allPL_append_last e.logs
        ⟨c, (execOp P save clock (curStore load t0 e) e.buffered c).1, none, lastHash hash e.logs⟩ pl hg
      refine ⟨Or.inr ⟨_, rfl, ?_⟩, ⟨(execOp P save clock (curStore load t0 e) e.buffered c).2, ?_⟩, ?_⟩
      · simp only [lastCkpt, hl]; exact hlast.symm
      · simp only [lastCkpt, hl]; exact hlast.symm
      · simp only [lastEvents, hl]

/-- reloading recorded logs establishes the invariant, provided the last checkpoint is a real one -/
theorem reload_inv (logs : List (OpLog τ)) (h : ∃ s, save s = lastCkpt t0 logs) :
    EInv save t0 (reload logs : Engine σ τ) := ⟨Or.inl rfl, h, rfl⟩

theorem initEngine_inv (st : σ) : EInv save t0 (initEngine save st) := by
  refine ⟨Or.inr ⟨st, rfl, ?_⟩, ⟨st, ?_⟩, ?_⟩ <;> simp [initEngine, initLog, lastCkpt, lastEvents, allPL]

theorem execAll_logs (L : StoreLaws P save load clock view) (cs : List Command) :
    ∀ (e : Engine σ τ), EInv save t0 e →
    (execAll P save load clock view hash t0 e cs).logs
        = cs.foldl (stepL P save load clock view hash t0) e.logs ∧
    EInv save t0 (execAll P save load clock view hash t0 e cs) := by
  induction cs with
  | nil => intro e h; exact ⟨rfl, h⟩
  | cons c cs ih =>
    intro e h
    have := ih (exec P save load clock view hash t0 e c) (exec_inv hash t0 L e c h)
    simp only [execAll, List.foldl] at *
    rw [← exec_logs hash t0 L e c h]
    exact this

variable (P save load clock view)

theorem stepL_length (Lg : List (OpLog τ)) (c : Command) :
    (stepL P save load clock view hash t0 Lg c).length = Lg.length + 1 := by
  unfold stepL; split <;> simp

theorem stepL_prefix (Lg : List (OpLog τ)) (c : Command) :
    (stepL P save load clock view hash t0 Lg c).take Lg.length = Lg := by
  unfold stepL; split <;> simp

theorem stepL_append (Lg : List (OpLog τ)) (c : Command) :
    ∃ l, stepL P save load clock view hash t0 Lg c = Lg ++ [l] ∧ l.command = c ∧ l.prev = lastHash hash Lg := by
  unfold stepL; split <;> exact ⟨_, rfl, rfl, rfl⟩

theorem fold_length (cs : List Command) : ∀ (Lg : List (OpLog τ)),
    (cs.foldl (stepL P save load clock view hash t0) Lg).length = Lg.length + cs.length := by
  induction cs with
  | nil => intro Lg; simp
  | cons c cs ih => intro Lg; simp [List.foldl, ih, stepL_length]; omega

/-- truncating a replayed history is replaying the truncated command list -/
theorem fold_take (cs : List Command) : ∀ (Lg : List (OpLog τ)) (j : Nat),
    (cs.foldl (stepL P save load clock view hash t0) Lg).take (Lg.length + j)
      = (cs.take j).foldl (stepL P save load clock view hash t0) Lg := by
  induction cs with
  | nil => intro Lg j; simp [List.take_of_length_le]
  | cons c cs ih =>
    intro Lg j
    cases j with
    | zero =>
      simp only [List.take_zero, List.foldl, Nat.add_zero]
      have h1 := ih (stepL P save load clock view hash t0 Lg c) 0
      simp only [List.take_zero, List.foldl, Nat.add_zero] at h1
      have hm : min Lg.length (stepL P save load clock view hash t0 Lg c).length = Lg.length := by
        rw [stepL_length]; omega
      rw [← hm, ← List.take_take, h1, stepL_prefix]
    | succ j =>
      simp only [List.take_succ_cons, List.foldl]
      have := ih (stepL P save load clock view hash t0 Lg c) j
      rw [stepL_length] at this
      rw [← this]; congr 1; omega

/-- a replayed history extends the starting history -/
theorem fold_prefix (cs : List Command) (Lg : List (OpLog τ)) :
    (cs.foldl (stepL P save load clock view hash t0) Lg).take Lg.length = Lg := by
  have := fold_take P save load clock view hash t0 cs Lg 0
  simpa using this

end
end Simaple.Engine
