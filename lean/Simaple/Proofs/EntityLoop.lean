import Simaple.Model.Entity
/-!
# Generic lemmas about "subtract, then normalise while the guard holds" loops

`iter g f n s` is `while g(s): s = f(s)` with fuel `n`.  The entity loops of `Model/Entity.lean`
(`Consumable.refill`, `Keydown.resolveLoop`, `ProgrammedPeriodic.loop`, `DynamicIntervalPeriodic.loop`,
`OrderSword.swordLoop`) are instances.  Facts:

* `iter_eq_of_done`  — any two fuels under which the loop has stopped give the same result;
* `iter_done_of_measure` — a decreasing measure bounds the fuel that is needed;
* `iter_commute` — if a "shift" `σ` (letting more time pass) keeps the guard true and commutes with the
  body while the guard holds, then normalising, shifting and normalising again is the same as shifting
  first and normalising once.  This is chunk independence of every loop of that shape.
* `foldl_sum` / `ticks_sum` — from a two-way split to any multi-way split.
-/
namespace Simaple.Entity.Loop

def iter {α : Type} (g : α → Bool) (f : α → α) : Nat → α → α
  | 0, s => s
  | n + 1, s => if g s then iter g f n (f s) else s

variable {α : Type} {g : α → Bool} {f : α → α}

theorem iter_of_not (n : Nat) (s : α) (h : g s = false) : iter g f n s = s := by
  cases n <;> simp [iter, h]

theorem iter_succ_of (n : Nat) (s : α) (h : g s = true) : iter g f (n + 1) s = iter g f n (f s) := by
  simp [iter, h]

/-- two fuels under which the loop has stopped give the same result -/
theorem iter_eq_of_done (n : Nat) : ∀ (m : Nat) (s : α),
    g (iter g f n s) = false → g (iter g f m s) = false → iter g f n s = iter g f m s := by
  induction n with
  | zero =>
    intro m s h _
    simp only [iter] at h
    simp [iter, iter_of_not m s h]
  | succ n ih =>
    intro m s h1 h2
    by_cases hg : g s = true
    · cases m with
      | zero => simp [iter, hg] at h2
      | succ m =>
        rw [iter_succ_of n s hg] at h1 ⊢
        rw [iter_succ_of m s hg] at h2 ⊢
        exact ih m (f s) h1 h2
    · have hg' : g s = false := by simpa using hg
      rw [iter_of_not _ s hg', iter_of_not _ s hg']

/-- a measure that strictly decreases along the body (on states satisfying the invariant `P`) bounds
    the number of iterations -/
theorem iter_done_of_measure (P : α → Prop) (μ : α → Nat)
    (hstep : ∀ s, P s → g s = true → P (f s) ∧ μ (f s) < μ s) (n : Nat) :
    ∀ s, P s → μ s ≤ n → g (iter g f n s) = false := by
  induction n with
  | zero =>
    intro s hp hμ
    by_cases hg : g s = true
    · have := (hstep s hp hg).2; omega
    · simpa [iter] using hg
  | succ n ih =>
    intro s hp hμ
    by_cases hg : g s = true
    · rw [iter_succ_of n s hg]
      have := hstep s hp hg
      exact ih (f s) this.1 (by omega)
    · have hg' : g s = false := by simpa using hg
      rw [iter_of_not _ s hg']; exact hg'

/-- an invariant of the body is an invariant of the loop -/
theorem iter_inv (P : α → Prop) (hstep : ∀ s, P s → g s = true → P (f s)) (n : Nat) :
    ∀ s, P s → P (iter g f n s) := by
  induction n with
  | zero => intro s hp; simpa [iter]
  | succ n ih =>
    intro s hp
    by_cases hg : g s = true
    · rw [iter_succ_of n s hg]; exact ih _ (hstep s hp hg)
    · have hg' : g s = false := by simpa using hg
      rw [iter_of_not _ s hg']; exact hp

/-- chunk independence of a normalising loop: normalise, shift, normalise = shift, normalise -/
theorem iter_commute (σ : α → α)
    (hguard : ∀ s, g s = true → g (σ s) = true)
    (hcomm : ∀ s, g s = true → σ (f s) = f (σ s))
    (n1 : Nat) : ∀ (n2 n3 : Nat) (s : α),
    g (iter g f n1 s) = false →
    g (iter g f n2 (σ (iter g f n1 s))) = false →
    g (iter g f n3 (σ s)) = false →
    iter g f n2 (σ (iter g f n1 s)) = iter g f n3 (σ s) := by
  induction n1 with
  | zero =>
    intro n2 n3 s _ h2 h3
    simp only [iter] at h2 ⊢
    exact iter_eq_of_done n2 n3 (σ s) h2 h3
  | succ n1 ih =>
    intro n2 n3 s h1 h2 h3
    by_cases hg : g s = true
    · rw [iter_succ_of n1 s hg] at h1 h2 ⊢
      have hgs := hguard s hg
      cases n3 with
      | zero => simp [iter, hgs] at h3
      | succ n3 =>
        rw [iter_succ_of n3 _ hgs, ← hcomm s hg] at h3 ⊢
        exact ih n2 n3 (f s) h1 h2 h3
    · have hg' : g s = false := by simpa using hg
      rw [iter_of_not _ s hg'] at h2 ⊢
      exact iter_eq_of_done n2 n3 (σ s) h2 h3

/-- a map that does not touch the guard and commutes with the body commutes with the loop -/
theorem iter_map (σ : α → α) (hguard : ∀ s, g (σ s) = g s) (hcomm : ∀ s, σ (f s) = f (σ s)) (n : Nat) :
    ∀ s, iter g f n (σ s) = σ (iter g f n s) := by
  induction n with
  | zero => intro s; rfl
  | succ n ih =>
    intro s
    simp only [iter, hguard]
    split
    · rw [← hcomm, ih]
    · rfl

/-! ### from two-way to multi-way splits -/

theorem sum_nonneg : ∀ (r : List Int), (∀ u ∈ r, 0 ≤ u) → 0 ≤ r.sum := by
  intro r
  induction r with
  | nil => intro _; simp
  | cons u r ih =>
    intro hr
    have := hr u (by simp)
    have := ih (fun v hv => hr v (by simp [hv]))
    simp only [List.sum_cons]; omega

/-- `E` = elapse, `R` = equivalence of entity states, `I` = invariant.  If a two-way split is invisible
    then so is every multi-way split `t :: ts`. -/
theorem foldl_sum {S : Type} (E : S → Int → S) (R : S → S → Prop) (I : S → Prop)
    (hrefl : ∀ x, R x x) (htrans : ∀ x y z, R x y → R y z → R x z)
    (hinv : ∀ x t, I x → 0 ≤ t → I (E x t))
    (hadd : ∀ x a b, I x → 0 ≤ a → 0 ≤ b → R (E (E x a) b) (E x (a + b))) :
    ∀ (ts : List Int) (t : Int) (x : S), I x → 0 ≤ t → (∀ u ∈ ts, 0 ≤ u) →
      R (ts.foldl E (E x t)) (E x (t + ts.sum)) := by
  intro ts
  induction ts with
  | nil => intro t x _ _ _; simpa using hrefl (E x t)
  | cons u r ih =>
    intro t x hx ht hts
    have hu : 0 ≤ u := hts u (by simp)
    have hr : ∀ v ∈ r, 0 ≤ v := fun v hv => hts v (by simp [hv])
    have hsum : 0 ≤ r.sum := sum_nonneg r hr
    simp only [List.foldl_cons, List.sum_cons]
    exact htrans _ _ _ (ih u (E x t) (hinv x t hx ht) hu hr) (hadd x t (u + r.sum) hx ht (by omega))

/-- ticks along a path of elapses -/
def ticksAlong {S : Type} (E : S → Int → S) (τ : S → Int → Int) : S → List Int → Int
  | _, [] => 0
  | x, t :: r => τ x t + ticksAlong E τ (E x t) r

/-- if ticks add up over a two-way split they add up over every multi-way split `t :: ts` -/
theorem ticks_sum {S : Type} (E : S → Int → S) (τ : S → Int → Int) (I : S → Prop)
    (hinv : ∀ x t, I x → 0 ≤ t → I (E x t))
    (hadd : ∀ x a b, I x → 0 ≤ a → 0 ≤ b → τ x (a + b) = τ x a + τ (E x a) b) :
    ∀ (ts : List Int) (t : Int) (x : S), I x → 0 ≤ t → (∀ u ∈ ts, 0 ≤ u) →
      ticksAlong E τ x (t :: ts) = τ x (t + ts.sum) := by
  intro ts
  induction ts with
  | nil => intro t x _ _ _; simp [ticksAlong]
  | cons u r ih =>
    intro t x hx ht hts
    have hu : 0 ≤ u := hts u (by simp)
    have hr : ∀ v ∈ r, 0 ≤ v := fun v hv => hts v (by simp [hv])
    have hsum : 0 ≤ r.sum := sum_nonneg r hr
    have := ih u (E x t) (hinv x t hx ht) hu hr
    simp only [ticksAlong, List.sum_cons] at this ⊢
    rw [this, hadd x t (u + r.sum) hx ht (by omega)]

end Simaple.Entity.Loop
