import Simaple.Model.SpecPatch
/-! `ArithmeticPatch.apply` computes the specification `specDoc` on well-formed documents. -/
namespace Simaple.Spec

theorem evaluate_eq_subst (env : Env) (s : Scalar) : evaluate env s = subst env s := by
  cases s with
  | str t =>
    simp only [evaluate, subst, evaluateChars]
    cases templateBody t with
    | none => rfl
    | some body =>
      simp only
      cases parseChars body with
      | error e => rfl
      | ok e => cases eval env e <;> rfl
  | _ => rfl

theorem subst_of_not_template (env : Env) (k : Scalar) (h : isTemplate k = false) : subst env k = .ok k := by
  cases k with
  | str t =>
    simp only [isTemplate, Option.isSome_eq_false_iff, Option.isNone_iff_eq_none] at h
    simp [subst, h]
  | _ => rfl

theorem excludedKeys_of_ok (kvs : List (Scalar × Doc)) (h : excludeOk kvs = true) :
    excludedKeys kvs = .ok (excludeList kvs) := by
  simp only [excludeOk] at h
  simp only [excludedKeys, excludeList]
  split at h <;> simp_all

def insertAll (acc : List (Scalar × Doc)) (es : List (Scalar × Doc)) : List (Scalar × Doc) :=
  es.foldl (fun d kv => dictSet d kv.1 kv.2) acc

theorem arith_patchDict (env : Env) (k sv : Scalar) (origin : Doc) :
    (arithmetic env).patchDict k sv origin =
      match subst env k with
      | .ok k' =>
        match subst env sv with
        | .ok v' => .ok (some [(k', v')])
        | .error e => .error e
      | .error e => .error e := by
  simp only [arithmetic, evaluate_eq_subst]
  cases subst env k with
  | error e => rfl
  | ok k' => cases subst env sv <;> rfl

theorem arith_patchValue (env : Env) (s : Scalar) (origin : Doc) :
    (arithmetic env).patchValue s origin =
      match subst env s with
      | .ok r => .ok (some r)
      | .error e => .error e := by
  simp only [arithmetic, evaluate_eq_subst]
  cases subst env s <;> rfl

mutual
theorem applyT_eq_spec (env : Env) (origin : Doc) :
    ∀ d : Doc, d.wf = true → applyT (arithmetic env) origin d = specDoc env d
  | .leaf s, h => by
    cases s with
    | null => simp [Doc.wf] at h
    | bool b => simp only [applyT, arith_patchValue, specDoc]; cases subst env (.bool b) <;> rfl
    | num q => simp only [applyT, arith_patchValue, specDoc]; cases subst env (.num q) <;> rfl
    | str t => simp only [applyT, arith_patchValue, specDoc]; cases subst env (.str t) <;> rfl
  | .list xs, h => by
    simp only [Doc.wf] at h
    simp only [applyT, specDoc, applyList_eq_spec env origin xs h]
  | .dict kvs, h => by
    simp only [Doc.wf, Bool.and_eq_true] at h
    simp only [applyT, applyDict_eq_spec env origin kvs h.1 h.2]
theorem applyList_eq_spec (env : Env) (origin : Doc) :
    ∀ xs : List Doc, Doc.wfList xs = true → applyList (arithmetic env) origin xs = specList env xs
  | [], _ => by simp only [applyList, specList]
  | x :: xs, h => by
    simp only [Doc.wfList, Bool.and_eq_true] at h
    simp only [applyList, specList, applyT_eq_spec env origin x h.1, applyList_eq_spec env origin xs h.2]
theorem applyDict_eq_spec (env : Env) (origin : Doc) :
    ∀ kvs : List (Scalar × Doc), excludeOk kvs = true → Doc.wfEntries kvs = true →
      applyDict (arithmetic env) origin kvs = specDoc env (.dict kvs)
  | kvs, h1, h2 => by
    simp only [applyDict, specDoc, excludedKeys_of_ok kvs h1,
      applyEntries_eq_spec env origin (excludeList kvs) kvs h2 []]
    cases specEntries env (excludeList kvs) kvs <;> rfl
theorem applyEntries_eq_spec (env : Env) (origin : Doc) (ex : List Doc) :
    ∀ kvs : List (Scalar × Doc), Doc.wfEntries kvs = true → ∀ acc,
      applyEntries (arithmetic env) origin ex kvs acc =
        match specEntries env ex kvs with
        | .ok es => .ok (insertAll acc es)
        | .error e => .error e
  | [], _, acc => by simp only [applyEntries, specEntries, insertAll, List.foldl_nil]
  | (k, v) :: rest, h, acc => by
    simp only [Doc.wfEntries, Bool.and_eq_true] at h
    have ih := applyEntries_eq_spec env origin ex rest h.2
    by_cases hx : isExcluded ex k = true
    · simp only [applyEntries, specEntries, hx, if_true, ih]
    · simp only [applyEntries, specEntries, hx]
      rw [applyValue_eq_spec env origin k v h.1 acc]
      cases subst env k with
      | error e => rfl
      | ok k' =>
        cases specDoc env v with
        | error e => rfl
        | ok v' =>
          simp only [ih]
          cases specEntries env ex rest <;> simp [insertAll]
theorem applyValue_eq_spec (env : Env) (origin : Doc) (k : Scalar) :
    ∀ v : Doc, Doc.wfValue k v = true → ∀ acc,
      applyValue (arithmetic env) origin k v acc =
        match subst env k with
        | .ok k' =>
          match specDoc env v with
          | .ok v' => .ok (dictSet acc k' v')
          | .error e => .error e
        | .error e => .error e
  | .leaf sv, _, acc => by
    simp only [applyValue, arith_patchDict, specDoc]
    cases subst env k with
    | error e => rfl
    | ok k' =>
      cases subst env sv with
      | error e => rfl
      | ok v' => simp [dictUpdate]
  | .list xs, h, acc => by
    simp only [Doc.wfValue, Bool.and_eq_true, Bool.not_eq_true'] at h
    simp only [applyValue, subst_of_not_template env k h.1, specDoc, applyList_eq_spec env origin xs h.2]
    cases specList env xs <;> rfl
  | .dict kvs, h, acc => by
    simp only [Doc.wfValue, Bool.and_eq_true, Bool.not_eq_true'] at h
    simp only [applyValue, subst_of_not_template env k h.1.1, applyDict_eq_spec env origin kvs h.1.2 h.2]
    cases specDoc env (.dict kvs) <;> rfl
end

theorem applyArith_eq_spec (env : Env) (d : Doc) (h : d.wf = true) : applyArith env d = specDoc env d :=
  applyT_eq_spec env d d h

end Simaple.Spec
