import Simaple.Model.ComponentMage
import Simaple.Proofs.Component
import Simaple.Proofs.EntityPeriodic
import Simaple.Proofs.EntityTimers
import Simaple.Proofs.EntityJob
/-! helper lemmas for the L2 component models of group `Mage` (core Lean only) -/
namespace Simaple.Comp.Mage
open Simaple.Entity Simaple.Comp

/-! ### event lists -/

theorem mkDealt_isDamage (dm : String) (d h : Rat) (m : String) : isDamage (mkDealt dm d h m) = true := by
  unfold mkDealt; split <;> rfl

theorem isDamage_not_reject (e : REv) (h : isDamage e = true) : e.isReject = false := by
  cases e <;> simp_all [isDamage, REv.isReject]

theorem isDamage_elapsedTime (e : REv) (h : isDamage e = true) : elapsedOf e = none := by
  cases e <;> simp_all [isDamage, elapsedOf]

theorem rejectedIn_of_allDamage (evs : List REv) (h : ∀ e ∈ evs, isDamage e = true) : rejectedIn evs = false := by
  unfold rejectedIn
  rw [List.any_eq_false]
  intro e he
  simp [isDamage_not_reject e (h e he)]

theorem elapsedTimes_of_allDamage (evs : List REv) (h : ∀ e ∈ evs, isDamage e = true) : elapsedTimes evs = [] := by
  unfold elapsedTimes
  rw [List.filterMap_eq_nil_iff]
  intro e he
  exact isDamage_elapsedTime e (h e he)

theorem rejectedIn_cons (e : REv) (evs : List REv) : rejectedIn (e :: evs) = (e.isReject || rejectedIn evs) := by
  simp [rejectedIn]

theorem rejectedIn_append (a b : List REv) : rejectedIn (a ++ b) = (rejectedIn a || rejectedIn b) := by
  simp [rejectedIn]

theorem elapsedTimes_cons_elapsed (t : Int) (evs : List REv) : elapsedTimes (.elapsed t :: evs) = t :: elapsedTimes evs := by
  simp [elapsedTimes, elapsedOf]

theorem elapsedTimes_cons_of_none (e : REv) (evs : List REv) (h : elapsedOf e = none) :
    elapsedTimes (e :: evs) = elapsedTimes evs := by simp [elapsedTimes, List.filterMap_cons, h]

theorem elapsedTimes_append (a b : List REv) : elapsedTimes (a ++ b) = elapsedTimes a ++ elapsedTimes b := by
  simp [elapsedTimes, List.filterMap_append]

theorem allDamage_replicate (n : Nat) (d h : Rat) : ∀ e ∈ List.replicate n (REv.dealt d h), isDamage e = true := by
  intro e he
  rw [List.eq_of_mem_replicate he]; rfl

/-- an answer `elapsed t :: <damage events>` carries exactly the time `t` -/
theorem elapsedTimes_elapsed_damage (t : Int) (evs : List REv) (h : ∀ e ∈ evs, isDamage e = true) :
    elapsedTimes (.elapsed t :: evs) = [t] := by
  rw [elapsedTimes_cons_elapsed, elapsedTimes_of_allDamage evs h]

theorem rejectedIn_elapsed_damage (t : Int) (evs : List REv) (h : ∀ e ∈ evs, isDamage e = true) :
    rejectedIn (.elapsed t :: evs) = false := by
  rw [rejectedIn_cons, rejectedIn_of_allDamage evs h]; rfl

/-! ### the tick loop -/

theorem tickLoop_allDamage (stop : Int → Bool) (emit : Int → Stack → Stack × REv)
    (hem : ∀ c fs, isDamage (emit c fs).2 = true) (n : Nat) :
    ∀ (per : Periodic) (t prev : Int) (fs : Stack), ∀ e ∈ (tickLoop stop emit n per t prev fs).2.2, isDamage e = true := by
  induction n with
  | zero => intro per t prev fs e he; simp [tickLoop] at he
  | succ n ih =>
    intro per t prev fs e he
    unfold tickLoop at he
    split at he
    · simp at he
    · simp only [] at he
      split at he
      · simp at he
      · split at he
        · exact ih _ _ _ _ e he
        · simp only [List.mem_cons] at he
          rcases he with rfl | he
          · exact hem _ _
          · exact ih _ _ _ _ e he

theorem poisonChain_ticks_allDamage (p : PoisonChain.P) (n : Nat) :
    ∀ (st : Stack), ∀ e ∈ (PoisonChain.ticks p n st).2, isDamage e = true := by
  induction n with
  | zero => intro st e he; simp [PoisonChain.ticks] at he
  | succ n ih =>
    intro st e he
    simp only [PoisonChain.ticks, List.mem_cons] at he
    rcases he with rfl | he
    · rfl
    · exact ih _ e he

theorem jupyter_emit_isDamage (p : JupyterThunder.P) (c : Int) (fs : Stack) :
    isDamage (JupyterThunder.emit p c fs).2 = true := by
  unfold JupyterThunder.emit; split <;> exact mkDealt_isDamage _ _ _ _

theorem thunderBreak_emit_isDamage (p : ThunderBreak.P) (b : Bool) (c : Int) (fs : Stack) :
    isDamage (ThunderBreak.emit p b c fs).2 = true := by
  unfold ThunderBreak.emit; exact mkDealt_isDamage _ _ _ _

end Simaple.Comp.Mage

/-! ## C09: chunk independence of the `elapse` reducers -/
namespace Simaple.Comp.Mage
open Simaple.Entity Simaple.Comp

theorem damages_of_allDamage (evs : List REv) (h : ∀ e ∈ evs, isDamage e = true) : damages evs = evs := by
  unfold damages; rw [List.filter_eq_self]; exact h

theorem damages_elapsed_cons (t : Int) (evs : List REv) (h : ∀ e ∈ evs, isDamage e = true) :
    damages (.elapsed t :: evs) = evs := by
  have : damages (.elapsed t :: evs) = damages evs := by simp [damages, List.filter_cons, isDamage]
  rw [this, damages_of_allDamage evs h]

theorem replicate_toNat_add {α : Type} (x : α) (k1 k2 : Int) (h1 : 0 ≤ k1) (h2 : 0 ≤ k2) :
    List.replicate (k1 + k2).toNat x = List.replicate k1.toNat x ++ List.replicate k2.toNat x := by
  rw [Int.toNat_add h1 h2, List.replicate_append_replicate]

/-! ### PoisonChain: the stack runs along the ticks -/
theorem poisonChain_ticks_add (p : PoisonChain.P) (m n : Nat) : ∀ st : Stack,
    PoisonChain.ticks p (m + n) st =
      ((PoisonChain.ticks p n (PoisonChain.ticks p m st).1).1,
       (PoisonChain.ticks p m st).2 ++ (PoisonChain.ticks p n (PoisonChain.ticks p m st).1).2) := by
  induction m with
  | zero => intro st; simp [PoisonChain.ticks]
  | succ m ih =>
    intro st
    have : m + 1 + n = (m + n) + 1 := by omega
    rw [this]
    simp only [PoisonChain.ticks, ih, List.cons_append]

/-! ### DivineMinion: marking along the ticks -/
theorem markTimes_add (adv : String) (m n : Nat) : ∀ k : DivineMark String,
    DivineMinion.markTimes adv (m + n) k = DivineMinion.markTimes adv n (DivineMinion.markTimes adv m k) := by
  induction m with
  | zero => intro k; simp [DivineMinion.markTimes]
  | succ m ih =>
    intro k
    have : m + 1 + n = (m + n) + 1 := by omega
    rw [this]
    simp only [DivineMinion.markTimes, ih]

/-- answers of a reducer that can raise, compared up to an equivalence of states -/
def ExceptEquiv {σ : Type} (R : σ → σ → Prop) (x y : Except String (σ × List REv)) : Prop :=
  match x, y with
  | .ok rx, .ok ry => rx.2 = ry.2 ∧ R rx.1 ry.1
  | .error ex, .error ey => ex = ey
  | _, _ => False

/-! ### CurrentField: tick counts are not negative -/
theorem listTicks_nonneg (L : List Periodic) (t : Int) : 0 ≤ CurrentField.listTicks L t := by
  induction L with
  | nil => simp [CurrentField.listTicks]
  | cons q r ih =>
    rw [CurrentField.listTicks_cons]
    have := Periodic.elapseCount_nonneg q t
    omega

theorem currentField_ticks_nonneg (s : CurrentField) (t : Int) : 0 ≤ (s.elapse t).2 := by
  rw [CurrentField.elapse_eq]; exact listTicks_nonneg _ _

end Simaple.Comp.Mage

/-! ### InfernalVenom: the state after `elapse`, in closed form -/
namespace Simaple.Comp.Mage
open Simaple.Entity Simaple.Comp
theorem infernalVenom_elapse_fst (p : InfernalVenom.P) (t : Int) (s : InfernalVenom.S) :
    (InfernalVenom.elapse p t s).1 =
      { drainStack := if 0 < s.lasting.timeLeft ∧ s.lasting.timeLeft ≤ t then (s.drainStack.setMaxCount 5).setCount 5
                      else s.drainStack,
        cooldown := s.cooldown.elapse t, lasting := s.lasting.elapse t } := by
  unfold InfernalVenom.elapse
  simp only [Lasting.enabled, Lasting.elapse]
  by_cases h1 : 0 < s.lasting.timeLeft <;> by_cases h2 : s.lasting.timeLeft ≤ t
  · have : ¬ 0 < s.lasting.timeLeft - t := by omega
    simp [h1, h2, this]
  · have : 0 < s.lasting.timeLeft - t := by omega
    simp [h1, h2, this]
  · simp [h1]
  · simp [h1]
end Simaple.Comp.Mage

/-! ### equivalences of states (equal up to the dead tick counter of an expired `Periodic`) -/
namespace Simaple.Comp
open Simaple.Entity

/-- Ifritt (state = cooldown + periodic) -/
def Ifritt.Equiv (x y : Ifritt.S) : Prop := x.cooldown = y.cooldown ∧ Periodic.Equiv x.periodic y.periodic
def PoisonChain.Equiv (x y : PoisonChain.S) : Prop :=
  x.cooldown = y.cooldown ∧ x.stack = y.stack ∧ Periodic.Equiv x.periodic y.periodic
def DivineMinion.Equiv (x y : DivineMinion.S) : Prop :=
  x.cooldown = y.cooldown ∧ x.divineMark = y.divineMark ∧ Periodic.Equiv x.periodic y.periodic

end Simaple.Comp

/-! ## the tick loop of JupyterThunder / ThunderBreak, in closed form

`tickLoop` walks `Periodic.resolve_step`; every step raises `count` by at most one, every new count `c ≤ T`
emits `emit c`, the first count above `T` breaks the loop.  Hence: when the whole elapse stays at or below
`T`, the loop returns `Periodic.elapse` and the events of the counts passed (`emitSeq`); otherwise it returns
the events of the counts up to `T` and some periodic whose count is above `T`. -/
namespace Simaple.Comp.Mage
open Simaple.Entity Simaple.Comp

/-- the events of `k` consecutive ticks with counts `c+1 … c+k`, the frost stack running along -/
def emitSeq (emit : Int → Stack → Stack × REv) : Nat → Int → Stack → Stack × List REv
  | 0, _, fs => (fs, [])
  | k + 1, c, fs =>
    let e := emit (c + 1) fs
    let r := emitSeq emit k (c + 1) e.1
    (r.1, e.2 :: r.2)

theorem emitSeq_add (emit : Int → Stack → Stack × REv) (m n : Nat) : ∀ (c : Int) (fs : Stack),
    emitSeq emit (m + n) c fs =
      ((emitSeq emit n (c + m) (emitSeq emit m c fs).1).1,
       (emitSeq emit m c fs).2 ++ (emitSeq emit n (c + m) (emitSeq emit m c fs).1).2) := by
  induction m with
  | zero => intro c fs; simp [emitSeq]
  | succ m ih =>
    intro c fs
    have h1 : m + 1 + n = (m + n) + 1 := by omega
    have h2 : c + ((m + 1 : Nat) : Int) = c + 1 + (m : Int) := by omega
    rw [h1, h2]
    simp only [emitSeq, ih, List.cons_append]

theorem step_count_cases (s : Periodic) (t : Int) :
    (s.step t).1.count = s.count ∨ (s.step t).1.count = s.count + 1 := by
  unfold Periodic.step
  simp only []
  split
  · exact Or.inl rfl
  · split
    · exact Or.inl rfl
    · split
      · exact Or.inr rfl
      · exact Or.inl rfl

theorem step_consts (s : Periodic) (t : Int) :
    (s.step t).1.interval = s.interval ∧ (s.step t).1.initialCounter = s.initialCounter := by
  unfold Periodic.step
  simp only []
  split
  · exact ⟨rfl, rfl⟩
  · split
    · exact ⟨rfl, rfl⟩
    · split <;> exact ⟨rfl, rfl⟩

theorem run_consts (n : Nat) : ∀ (s : Periodic) (t : Int),
    (Periodic.run n s t).interval = s.interval ∧ (Periodic.run n s t).initialCounter = s.initialCounter := by
  induction n with
  | zero => intro s t; exact ⟨rfl, rfl⟩
  | succ n ih =>
    intro s t
    simp only [Periodic.run]
    split
    · exact ⟨rfl, rfl⟩
    · have h1 := ih (s.step t).1 (s.step t).2
      have h2 := step_consts s t
      exact ⟨h1.1.trans h2.1, h1.2.trans h2.2⟩

theorem elapse_consts (s : Periodic) (t : Int) :
    (s.elapse t).interval = s.interval ∧ (s.elapse t).initialCounter = s.initialCounter := run_consts _ s t

theorem elapseCount_unfold (s : Periodic) (t : Int) (hw : s.WF) (ht : 0 < t) :
    s.elapseCount t = ((s.step t).1.count - s.count) + (s.step t).1.elapseCount (s.step t).2 := by
  unfold Periodic.elapseCount
  rw [Periodic.elapse_unfold s t hw ht]
  omega

theorem elapseCount_nonpos (s : Periodic) (t : Int) (ht : t ≤ 0) : s.elapseCount t = 0 := by
  unfold Periodic.elapseCount; rw [Periodic.elapse_nonpos s t ht]; omega

/-- the loop stays at or below the threshold: it is `Periodic.elapse`, with the events of the counts passed -/
theorem tickLoop_below (stop : Int → Bool) (emit : Int → Stack → Stack × REv) (T : Int)
    (hstop : ∀ c, stop c = decide (T < c)) (n : Nat) :
    ∀ (per : Periodic) (t : Int) (fs : Stack), per.WF → t.toNat ≤ n → per.count + per.elapseCount t ≤ T →
      tickLoop stop emit n per t per.count fs =
        (per.elapse t, (emitSeq emit (per.elapseCount t).toNat per.count fs).1,
         (emitSeq emit (per.elapseCount t).toNat per.count fs).2) := by
  induction n with
  | zero =>
    intro per t fs _ hn _
    have ht : t ≤ 0 := by omega
    simp [tickLoop, Periodic.elapse_nonpos per t ht, elapseCount_nonpos per t ht, emitSeq]
  | succ n ih =>
    intro per t fs hw hn hT
    by_cases ht : t ≤ 0
    · simp [tickLoop, ht, Periodic.elapse_nonpos per t ht, elapseCount_nonpos per t ht, emitSeq]
    · have hpos : 0 < t := by omega
      have hd := Periodic.step_dec per t hw hpos
      have hw' := Periodic.step_wf per t hw
      have hu := elapseCount_unfold per t hw hpos
      have hnn := Periodic.elapseCount_nonneg (per.step t).1 (per.step t).2
      have hcases := step_count_cases per t
      have hns : stop (per.step t).1.count = false := by
        rw [hstop]; simp only [decide_eq_false_iff_not]; omega
      rw [Periodic.elapse_unfold per t hw hpos]
      unfold tickLoop
      simp only [ht, if_false, hns, Bool.false_eq_true]
      rcases hcases with hc | hc
      · -- no tick in this step
        simp only [hc, if_true]
        have := ih (per.step t).1 (per.step t).2 fs hw' (by omega) (by omega)
        rw [hc] at this
        rw [this, hu, hc]
        simp
      · -- one tick
        have hne : ¬ (per.step t).1.count = per.count := by omega
        simp only [hne, if_false]
        have := ih (per.step t).1 (per.step t).2 (emit (per.step t).1.count fs).1 hw' (by omega) (by omega)
        rw [this, hu, hc]
        have e1 : (per.count + 1 - per.count + (per.step t).1.elapseCount (per.step t).2).toNat
            = ((per.step t).1.elapseCount (per.step t).2).toNat + 1 := by omega
        rw [e1]
        simp only [emitSeq]

/-- the loop crosses the threshold: the events of the counts up to `T`, and a periodic whose count is above `T` -/
theorem tickLoop_above (stop : Int → Bool) (emit : Int → Stack → Stack × REv) (T : Int)
    (hstop : ∀ c, stop c = decide (T < c)) (n : Nat) :
    ∀ (per : Periodic) (t : Int) (fs : Stack), per.WF → t.toNat ≤ n → per.count ≤ T → T < per.count + per.elapseCount t →
      ∃ per', tickLoop stop emit n per t per.count fs =
          (per', (emitSeq emit (T - per.count).toNat per.count fs).1, (emitSeq emit (T - per.count).toNat per.count fs).2) ∧
        per'.interval = per.interval ∧ per'.initialCounter = per.initialCounter ∧ T < per'.count ∧ per'.WF := by
  induction n with
  | zero =>
    intro per t fs _ hn _ hT
    have ht : t ≤ 0 := by omega
    rw [elapseCount_nonpos per t ht] at hT
    omega
  | succ n ih =>
    intro per t fs hw hn hle hT
    by_cases ht : t ≤ 0
    · rw [elapseCount_nonpos per t ht] at hT
      omega
    · have hpos : 0 < t := by omega
      have hd := Periodic.step_dec per t hw hpos
      have hw' := Periodic.step_wf per t hw
      have hu := elapseCount_unfold per t hw hpos
      have hcs := step_consts per t
      have hcases := step_count_cases per t
      unfold tickLoop
      simp only [ht, if_false]
      rcases hcases with hc | hc
      · -- no tick in this step
        have hns : stop (per.step t).1.count = false := by
          rw [hstop]; simp only [decide_eq_false_iff_not]; omega
        simp only [hns, Bool.false_eq_true, if_false]
        simp only [hc, if_true]
        obtain ⟨per', h1, h2, h3, h4, h5⟩ := ih (per.step t).1 (per.step t).2 fs hw' (by omega) (by omega) (by omega)
        rw [hc] at h1
        exact ⟨per', h1, h2.trans hcs.1, h3.trans hcs.2, h4, h5⟩
      · by_cases hb : T < (per.step t).1.count
        · -- the tick that crosses the threshold: break
          have hs : stop (per.step t).1.count = true := by rw [hstop]; simpa using hb
          have e0 : (T - per.count).toNat = 0 := by omega
          simp only [hs, if_true, e0, emitSeq]
          exact ⟨_, rfl, hcs.1, hcs.2, hb, hw'⟩
        · have hns : stop (per.step t).1.count = false := by
            rw [hstop]; simpa using hb
          have hne : ¬ (per.step t).1.count = per.count := by omega
          simp only [hns, Bool.false_eq_true, if_false, hne]
          obtain ⟨per', h1, h2, h3, h4, h5⟩ :=
            ih (per.step t).1 (per.step t).2 (emit (per.step t).1.count fs).1 hw' (by omega) (by omega) (by omega)
          refine ⟨per', ?_, h2.trans hcs.1, h3.trans hcs.2, h4, h5⟩
          rw [h1, hc]
          have e1 : (T - per.count).toNat = (T - (per.count + 1)).toNat + 1 := by omega
          rw [e1]
          simp only [emitSeq]

/-- a dead periodic: the loop does nothing -/
theorem tickLoop_dead (stop : Int → Bool) (emit : Int → Stack → Stack × REv) (n : Nat) (per : Periodic) (t : Int)
    (fs : Stack) (hdead : per.timeLeft ≤ 0) : tickLoop stop emit n per t per.count fs = (per, fs, []) := by
  have hs : per.step t = (per, 0) := by simp [Periodic.step, hdead]
  cases n with
  | zero => rfl
  | succ n =>
    unfold tickLoop
    split
    · rfl
    · simp only [hs]
      split
      · rfl
      · simp only [if_true]
        cases n <;> simp [tickLoop]

end Simaple.Comp.Mage

/-! ## the loop followed by the switch-off, and its chunk independence -/
namespace Simaple.Comp.Mage
open Simaple.Entity Simaple.Comp

/-- what `JupyterThunder.elapse` / `ThunderBreak.elapse` do with the periodic and the frost stack: the tick loop,
    then `disable()` once `count >= D` -/
def loopCore (stop : Int → Bool) (emit : Int → Stack → Stack × REv) (D : Int) (t : Int) (per : Periodic) (fs : Stack) :
    Periodic × Stack × List REv :=
  let k := tickLoop stop emit t.toNat per t per.count fs
  (if D ≤ k.1.count then k.1.disable else k.1, k.2.1, k.2.2)

/-- equivalence of schedulers for these two classes: same constants, and both switched off or equal -/
def PEq (a b : Periodic) : Prop :=
  a.interval = b.interval ∧ a.initialCounter = b.initialCounter ∧ ((a.timeLeft ≤ 0 ∧ b.timeLeft ≤ 0) ∨ a = b)

theorem PEq.refl (a : Periodic) : PEq a a := ⟨rfl, rfl, Or.inr rfl⟩

theorem PEq.of_equiv {a b : Periodic} (h : Periodic.Equiv a b) : PEq a b := by
  refine ⟨h.1, h.2.1, ?_⟩
  by_cases hp : 0 < a.timeLeft
  · exact Or.inr (h.eq_of_enabled hp)
  · have := h.timeLeft
    exact Or.inl ⟨by omega, by omega⟩

theorem PEq.enabled {a b : Periodic} (h : PEq a b) : a.enabled = b.enabled := by
  rcases h.2.2 with ⟨h1, h2⟩ | h
  · simp only [Periodic.enabled, decide_eq_decide]; omega
  · rw [h]

theorem PEq.setTimeLeft {a b : Periodic} (h : PEq a b) (t : Int) : a.setTimeLeft t = b.setTimeLeft t := by
  rcases h.2.2 with _ | h'
  · obtain ⟨ai, aic, acnt, atl, ac⟩ := a
    obtain ⟨bi, bic, bcnt, btl, bc⟩ := b
    obtain ⟨h1, h2, _⟩ := h
    simp only at h1 h2
    subst h1; subst h2
    unfold Periodic.setTimeLeft
    by_cases ht : t ≤ 0
    · simp only [ht, if_true]
    · simp only [ht, if_false]
  · rw [h']

theorem disable_wf (per : Periodic) (h : per.WF) : per.disable.WF := h

/-- the closed form of `loopCore` (`T` = last count that emits, `D` = count at which the skill switches off) -/
theorem loopCore_char (stop : Int → Bool) (emit : Int → Stack → Stack × REv) (T D : Int)
    (hstop : ∀ c, stop c = decide (T < c)) (hTD : D - 1 ≤ T ∧ T ≤ D) (t : Int) (per : Periodic) (fs : Stack)
    (hi : LoopInv D per) :
    let r := loopCore stop emit D t per fs
    let k := per.elapseCount t
    let n := if per.count + k ≤ T then k.toNat else (T - per.count).toNat
    (r.2.1, r.2.2) = emitSeq emit n per.count fs ∧
    (per.count + k < D → r.1 = per.elapse t) ∧
    (¬ per.count + k < D → r.1.timeLeft ≤ 0 ∧ r.1.interval = per.interval ∧ r.1.initialCounter = per.initialCounter) ∧
    r.1.WF := by
  obtain ⟨hw, hrun⟩ := hi
  have hk := Periodic.elapseCount_nonneg per t
  simp only []
  by_cases h1 : per.count + per.elapseCount t ≤ T
  · -- the whole elapse stays at or below T
    have hb := tickLoop_below stop emit T hstop t.toNat per t fs hw (Nat.le_refl _) h1
    have hcount : (per.elapse t).count = per.count + per.elapseCount t := by unfold Periodic.elapseCount; omega
    simp only [loopCore, hb, h1, if_true]
    refine ⟨trivial, ?_, ?_, ?_⟩
    · intro hlt
      have : ¬ D ≤ (per.elapse t).count := by omega
      simp only [this, if_false]
    · intro hge
      have : D ≤ (per.elapse t).count := by omega
      simp only [this, if_true, Periodic.disable]
      exact ⟨Int.le_refl 0, (elapse_consts per t).1, (elapse_consts per t).2⟩
    · split
      · exact disable_wf _ (Periodic.elapse_wf per t hw)
      · exact Periodic.elapse_wf per t hw
  · by_cases h2 : per.count ≤ T
    · -- the loop crosses T
      obtain ⟨per', e, c1, c2, c3, c4⟩ :=
        tickLoop_above stop emit T hstop t.toNat per t fs hw (Nat.le_refl _) h2 (by omega)
      have hD : D ≤ per'.count := by omega
      simp only [loopCore, e, h1, if_false, hD, if_true]
      refine ⟨trivial, ?_, ?_, disable_wf _ c4⟩
      · intro hlt; omega
      · intro _; exact ⟨Int.le_refl 0, c1, c2⟩
    · -- above T already: such a scheduler is switched off
      have hdead : per.timeLeft ≤ 0 := by
        by_cases hp : 0 < per.timeLeft
        · have := hrun hp; omega
        · omega
      have e := tickLoop_dead stop emit t.toNat per t fs hdead
      have hD : D ≤ per.count := by omega
      have e0 : (T - per.count).toNat = 0 := by omega
      simp only [loopCore, e, h1, if_false, hD, if_true, e0, emitSeq]
      refine ⟨trivial, ?_, ?_, disable_wf _ hw⟩
      · intro hlt; omega
      · intro _; exact ⟨Int.le_refl 0, rfl, rfl⟩

theorem loopCore_inv (stop : Int → Bool) (emit : Int → Stack → Stack × REv) (T D : Int)
    (hstop : ∀ c, stop c = decide (T < c)) (hTD : D - 1 ≤ T ∧ T ≤ D) (t : Int) (per : Periodic) (fs : Stack)
    (hi : LoopInv D per) : LoopInv D (loopCore stop emit D t per fs).1 := by
  have h := loopCore_char stop emit T D hstop hTD t per fs hi
  simp only [] at h
  obtain ⟨_, hlow, hhigh, hwf⟩ := h
  refine ⟨hwf, ?_⟩
  intro hp
  by_cases hlt : per.count + per.elapseCount t < D
  · rw [hlow hlt]
    unfold Periodic.elapseCount at hlt
    omega
  · have := (hhigh hlt).1
    omega

/-- chunk independence of `loopCore`: the events of the two chunks concatenate to the events of the whole,
    the frost stack ends the same, the schedulers are equivalent -/
theorem loopCore_add (stop : Int → Bool) (emit : Int → Stack → Stack × REv) (T D : Int)
    (hstop : ∀ c, stop c = decide (T < c)) (hTD : D - 1 ≤ T ∧ T ≤ D) (a b : Int) (ha : 0 ≤ a) (hb : 0 ≤ b)
    (per : Periodic) (fs : Stack) (hi : LoopInv D per) :
    let r1 := loopCore stop emit D a per fs
    let r2 := loopCore stop emit D b r1.1 r1.2.1
    let r := loopCore stop emit D (a + b) per fs
    r.2.2 = r1.2.2 ++ r2.2.2 ∧ r.2.1 = r2.2.1 ∧ PEq r2.1 r.1 := by
  have hi1 := loopCore_inv stop emit T D hstop hTD a per fs hi
  have c1 := loopCore_char stop emit T D hstop hTD a per fs hi
  have c2 := loopCore_char stop emit T D hstop hTD b (loopCore stop emit D a per fs).1 (loopCore stop emit D a per fs).2.1 hi1
  have c := loopCore_char stop emit T D hstop hTD (a + b) per fs hi
  simp only [] at c1 c2 c ⊢
  obtain ⟨e1, low1, high1, _⟩ := c1
  obtain ⟨e2, low2, high2, _⟩ := c2
  obtain ⟨e, low, high, _⟩ := c
  have hk1 := Periodic.elapseCount_nonneg per a
  have hkadd := Periodic.elapseCount_add per a b hi.1 ha hb
  have hk2 := Periodic.elapseCount_nonneg (per.elapse a) b
  -- name the three event counts
  generalize hn1 : (if per.count + per.elapseCount a ≤ T then (per.elapseCount a).toNat else (T - per.count).toNat) = n1 at e1
  generalize hn : (if per.count + per.elapseCount (a + b) ≤ T then (per.elapseCount (a + b)).toNat
    else (T - per.count).toNat) = n at e
  generalize hr1 : loopCore stop emit D a per fs = r1 at *
  generalize hn2 : (if r1.1.count + r1.1.elapseCount b ≤ T then (r1.1.elapseCount b).toNat
    else (T - r1.1.count).toNat) = n2 at e2
  -- it suffices to relate the counts and the start of the second chunk
  have key : n = n1 + n2 ∧ (n2 = 0 ∨ r1.1.count = per.count + n1) ∧ PEq (loopCore stop emit D b r1.1 r1.2.1).1
      (loopCore stop emit D (a + b) per fs).1 := by
    by_cases hA : per.count + per.elapseCount a < D
    · -- the first chunk leaves the scheduler as `Periodic.elapse` does
      have hp1 : r1.1 = per.elapse a := low1 hA
      have hcnt1 : r1.1.count = per.count + per.elapseCount a := by
        rw [hp1]; unfold Periodic.elapseCount; omega
      have hk2' : r1.1.elapseCount b = (per.elapse a).elapseCount b := by rw [hp1]
      by_cases hAB : per.count + per.elapseCount (a + b) < D
      · -- nothing switches off
        have hB : r1.1.count + r1.1.elapseCount b < D := by omega
        refine ⟨?_, Or.inr ?_, ?_⟩
        · rw [← hn, ← hn1, ← hn2]
          have i1 : per.count + per.elapseCount a ≤ T := by omega
          have i2 : per.count + per.elapseCount (a + b) ≤ T := by omega
          have i3 : r1.1.count + r1.1.elapseCount b ≤ T := by omega
          simp only [i1, i2, i3, if_true]; omega
        · rw [← hn1]
          have i1 : per.count + per.elapseCount a ≤ T := by omega
          simp only [i1, if_true]; omega
        · rw [low2 hB, low hAB, hp1]
          exact PEq.of_equiv (Periodic.elapse_add' per a b hi.1 ha hb)
      · -- the second chunk switches off
        have hB : ¬ r1.1.count + r1.1.elapseCount b < D := by omega
        have hd2 := high2 hB
        have hd := high hAB
        have hc1 := elapse_consts per a
        refine ⟨?_, Or.inr ?_, ?_⟩
        · rw [← hn, ← hn1, ← hn2]
          have i1 : per.count + per.elapseCount a ≤ T := by omega
          simp only [i1, if_true]
          by_cases i2 : per.count + per.elapseCount (a + b) ≤ T
          · have i3 : r1.1.count + r1.1.elapseCount b ≤ T := by omega
            simp only [i2, i3, if_true]; omega
          · have i3 : ¬ r1.1.count + r1.1.elapseCount b ≤ T := by omega
            simp only [i2, i3, if_false]; omega
        · rw [← hn1]
          have i1 : per.count + per.elapseCount a ≤ T := by omega
          simp only [i1, if_true]; omega
        · refine ⟨?_, ?_, Or.inl ⟨hd2.1, hd.1⟩⟩
          · rw [hd2.2.1, hd.2.1, hp1, hc1.1]
          · rw [hd2.2.2, hd.2.2, hp1, hc1.2]
    · -- the first chunk switches off: the second does nothing
      have hd1 := high1 hA
      have hexp := Periodic.elapse_expired r1.1 b hd1.1
      have hk0 : r1.1.elapseCount b = 0 := by unfold Periodic.elapseCount; rw [hexp]; omega
      have hAB : ¬ per.count + per.elapseCount (a + b) < D := by omega
      have hd := high hAB
      have hn20 : n2 = 0 := by
        rw [← hn2, hk0]
        split <;> omega
      refine ⟨?_, Or.inl hn20, ?_⟩
      · rw [hn20, ← hn, ← hn1]
        by_cases i1 : per.count + per.elapseCount a ≤ T
        · by_cases i2 : per.count + per.elapseCount (a + b) ≤ T
          · simp only [i1, i2, if_true]; omega
          · simp only [i1, i2, if_true, if_false]; omega
        · have i2 : ¬ per.count + per.elapseCount (a + b) ≤ T := by omega
          simp only [i1, i2, if_false]; omega
      · by_cases hB : r1.1.count + r1.1.elapseCount b < D
        · rw [low2 hB, hexp]
          exact ⟨hd1.2.1.trans hd.2.1.symm, hd1.2.2.trans hd.2.2.symm, Or.inl ⟨hd1.1, hd.1⟩⟩
        · have hd2 := high2 hB
          exact ⟨(hd2.2.1.trans hd1.2.1).trans hd.2.1.symm, (hd2.2.2.trans hd1.2.2).trans hd.2.2.symm,
            Or.inl ⟨hd2.1, hd.1⟩⟩
  obtain ⟨kn, kc, kp⟩ := key
  have hsplit := emitSeq_add emit n1 n2 per.count fs
  rw [← kn, ← e, ← e1] at hsplit
  have e2' : ((loopCore stop emit D b r1.1 r1.2.1).2.1, (loopCore stop emit D b r1.1 r1.2.1).2.2)
      = emitSeq emit n2 (per.count + n1) r1.2.1 := by
    rcases kc with h0 | hc
    · rw [e2, h0]; simp [emitSeq]
    · rw [e2, hc]
  rw [← e2'] at hsplit
  simp only [Prod.mk.injEq] at hsplit
  exact ⟨hsplit.2, hsplit.1, kp⟩

end Simaple.Comp.Mage

namespace Simaple.Comp.Mage
open Simaple.Entity Simaple.Comp

theorem loopCore_dead (stop : Int → Bool) (emit : Int → Stack → Stack × REv) (D t : Int) (per : Periodic) (fs : Stack)
    (hdead : per.timeLeft ≤ 0) :
    loopCore stop emit D t per fs = (if D ≤ per.count then per.disable else per, fs, []) := by
  simp only [loopCore, tickLoop_dead stop emit t.toNat per t fs hdead]

/-- `loopCore` answers the same on equivalent schedulers -/
theorem loopCore_peq (stop : Int → Bool) (emit : Int → Stack → Stack × REv) (D t : Int) (x y : Periodic) (fs : Stack)
    (h : PEq x y) :
    (loopCore stop emit D t x fs).2 = (loopCore stop emit D t y fs).2 ∧
    PEq (loopCore stop emit D t x fs).1 (loopCore stop emit D t y fs).1 := by
  rcases h.2.2 with ⟨hx, hy⟩ | he
  · rw [loopCore_dead _ _ _ _ _ _ hx, loopCore_dead _ _ _ _ _ _ hy]
    refine ⟨rfl, ?_, ?_, Or.inl ⟨?_, ?_⟩⟩
    · split <;> split <;> exact h.1
    · split <;> split <;> exact h.2.1
    · split
      · exact Int.le_refl 0
      · exact hx
    · split
      · exact Int.le_refl 0
      · exact hy
  · rw [he]; exact ⟨rfl, PEq.refl _⟩

theorem loopCore_allDamage (stop : Int → Bool) (emit : Int → Stack → Stack × REv)
    (hem : ∀ c fs, isDamage (emit c fs).2 = true) (D t : Int) (per : Periodic) (fs : Stack) :
    ∀ e ∈ (loopCore stop emit D t per fs).2.2, isDamage e = true :=
  tickLoop_allDamage stop emit hem _ _ _ _ _

theorem setTimeLeft_loopInv (per q : Periodic) (d D : Int) (hw : per.WF) (hD : 0 < D)
    (h : per.setTimeLeft d = .ok q) : LoopInv D q := by
  unfold Periodic.setTimeLeft at h
  unfold Periodic.WF at hw
  split at h
  · simp at h
  · cases hc : per.initialCounter with
    | none =>
      simp only [hc, Except.ok.injEq] at h
      subst h
      exact ⟨⟨hw.1, hw.1⟩, fun _ => hD⟩
    | some c =>
      simp only [hc] at h
      split at h
      · simp at h
      · simp only [Except.ok.injEq] at h
        subst h
        exact ⟨⟨hw.1, by simp only; omega⟩, fun _ => hD⟩

end Simaple.Comp.Mage

namespace Simaple.Comp
open Simaple.Entity Simaple.Comp.Mage

/-! ### JupyterThunder -/
def JupyterThunder.Equiv (x y : JupyterThunder.S) : Prop :=
  x.frostStack = y.frostStack ∧ x.cooldown = y.cooldown ∧ PEq x.periodic y.periodic

theorem JupyterThunder.elapse_eq (p : JupyterThunder.P) (t : Int) (s : JupyterThunder.S) :
    JupyterThunder.elapse p t s =
      let r := loopCore (fun c => decide (p.maxCount ≤ c)) (JupyterThunder.emit p) p.maxCount t s.periodic s.frostStack
      ({ frostStack := r.2.1, cooldown := s.cooldown.elapse t, periodic := r.1 }, .elapsed t :: r.2.2) := rfl

theorem JupyterThunder.stop_eq (p : JupyterThunder.P) :
    ∀ c, (fun c => decide (p.maxCount ≤ c)) c = decide (p.maxCount - 1 < c) := by
  intro c; simp only [decide_eq_decide]; omega

/-! ### ThunderBreak -/
def ThunderBreak.Equiv (x y : ThunderBreak.S) : Prop :=
  x.frostStack = y.frostStack ∧ x.shock = y.shock ∧ x.cooldown = y.cooldown ∧ PEq x.periodic y.periodic

theorem ThunderBreak.elapse_eq (p : ThunderBreak.P) (t : Int) (s : ThunderBreak.S) :
    ThunderBreak.elapse p t s =
      let r := loopCore (fun c => decide (p.maxCount < c)) (ThunderBreak.emit p s.shock.enabled) p.maxCount t
        s.periodic s.frostStack
      ({ frostStack := r.2.1, shock := s.shock, cooldown := s.cooldown.elapse t, periodic := r.1 }, .elapsed t :: r.2.2) := rfl

end Simaple.Comp
