import Simaple.Proofs.DslCanon
/-! Header split and `strip` on the text the plan writer produces. -/
namespace Simaple.Dsl

/-! ### characters of tokens -/

theorem numTok_no_term {t : Text} (h : numTokOk t = true) : ∀ z ∈ t, isTerm z = false := by
  intro z hz
  cases hzt : isTerm z with
  | false => rfl
  | true =>
    exfalso
    obtain ⟨a, b, rfl⟩ := List.append_of_mem hz
    simp only [numTokOk, beq_iff_eq] at h
    rw [scanNumber_term hzt] at h
    cases hs : scanNumber a with
    | none => simp [hs] at h
    | some p =>
      simp only [hs, Option.map_some, Option.some.injEq, Prod.mk.injEq] at h
      have := congrArg List.length h.2
      simp at this

theorem scanStr_no_nl {esc : Bool} {cs i r : Text} (h : scanStr esc cs = some (i, r)) : '\n' ∉ i := by
  induction cs generalizing esc i r with
  | nil => simp [scanStr] at h
  | cons c cs ih =>
    simp only [scanStr] at h
    split at h
    · cases h
    · rename_i hnl
      split at h
      · cases h; simp
      · split at h
        · rename_i inner rest heq
          cases h
          have := ih heq
          simp only [List.mem_cons, not_or]
          exact ⟨fun hc => hnl (by simp [← hc]), this⟩
        · cases h

theorem nameOk_no_nl {n : Text} (h : nameOk n = true) : '\n' ∉ n := by
  simp only [nameOk, beq_iff_eq] at h
  exact scanStr_no_nl h

theorem wordOk_no_nl {c : Text} (h : wordOk c = true) : '\n' ∉ c := by
  simp only [wordOk, Bool.and_eq_true, List.all_eq_true] at h
  intro hm
  exact absurd (h.2 _ hm) (by decide)

theorem numTok_no_nl {t : Text} (h : numTokOk t = true) : '\n' ∉ t := by
  intro hm
  exact absurd (numTok_no_term h _ hm) (by decide)

theorem renderRaw_no_nl {r : RawCmd} (h : rawOk r = true) : '\n' ∉ renderRaw r := by
  cases r with
  | full c n t =>
    simp only [rawOk, Bool.and_eq_true] at h
    have h1 := wordOk_no_nl h.1.1; have h2 := nameOk_no_nl h.1.2; have h3 := numTok_no_nl h.2
    simp [renderRaw, h1, h2, h3]
  | skill c n =>
    simp only [rawOk, Bool.and_eq_true] at h
    have h1 := wordOk_no_nl h.1; have h2 := nameOk_no_nl h.2
    simp [renderRaw, h1, h2]
  | time c t =>
    simp only [rawOk, Bool.and_eq_true] at h
    have h1 := wordOk_no_nl h.1; have h3 := numTok_no_nl h.2
    simp [renderRaw, h1, h3]
  | console s =>
    simp only [rawOk] at h
    have h2 := nameOk_no_nl h
    simp [renderRaw, h2]

/-- first character of a printed command: a letter or `!` -/
theorem renderRaw_head {r : RawCmd} (h : rawOk r = true) :
    ∃ d rest, renderRaw r = d :: rest ∧ (d.isAlpha = true ∨ d = '!') := by
  cases r with
  | full c n t =>
    simp only [rawOk, Bool.and_eq_true] at h
    obtain ⟨a, cs, rfl, ha⟩ := wordOk_head h.1.1
    exact ⟨a, _, rfl, Or.inl ha⟩
  | skill c n =>
    simp only [rawOk, Bool.and_eq_true] at h
    obtain ⟨a, cs, rfl, ha⟩ := wordOk_head h.1
    exact ⟨a, _, rfl, Or.inl ha⟩
  | time c t =>
    simp only [rawOk, Bool.and_eq_true] at h
    obtain ⟨a, cs, rfl, ha⟩ := wordOk_head h.1
    exact ⟨a, _, rfl, Or.inl ha⟩
  | console s => exact ⟨'!', _, rfl, Or.inr rfl⟩

/-! ### the header split -/

theorem splitHeader_cons_none {a : Char} {s : Text} (h : splitHeader s = none) (ha : (a == '\n') = false) :
    splitHeader (a :: s) = none := by
  simp [splitHeader, h, ha]

theorem splitHeader_append_none {l s : Text} (hl : '\n' ∉ l) (h : splitHeader s = none) :
    splitHeader (l ++ s) = none := by
  induction l with
  | nil => exact h
  | cons a l ih =>
    simp only [List.mem_cons, not_or] at hl
    exact splitHeader_cons_none (ih hl.2) (by simpa using fun hh => hl.1 hh.symm)

theorem splitHeader_nl_none {s : Text} (h : splitHeader s = none) (hd : startsDashes s = none) :
    splitHeader ('\n' :: s) = none := by
  simp [splitHeader, h, hd]

theorem startsDashes_none_of_head {d : Char} {s : Text} (hd : d ≠ '-') : startsDashes (d :: s) = none := by
  simp only [startsDashes, stripPrefix]
  have : ('-' == d) = false := by simpa using fun h => hd h.symm
  simp [this]

theorem head_not_dash {d : Char} (h : d.isAlpha = true ∨ d = '!') : d ≠ '-' := by
  rcases h with h | h
  · intro hd; subst hd; exact absurd h (by decide)
  · subst h; decide

/-- the body the writer prints contains no `\n---` -/
theorem splitHeader_body_none : ∀ rs : List RawCmd, (∀ r ∈ rs, rawOk r = true) →
    splitHeader (joinLines (rs.map renderRaw)) = none
  | [], _ => rfl
  | [r], h => by
    have := splitHeader_append_none (renderRaw_no_nl (h r (by simp))) (s := []) rfl
    simpa [joinLines] using this
  | r :: r' :: rs', h => by
    have ih := splitHeader_body_none (r' :: rs') (fun x hx => h x (List.mem_cons_of_mem _ hx))
    obtain ⟨d, rest, hd, hda⟩ := renderRaw_head (h r' (by simp))
    simp only [List.map_cons, joinLines_cons_cons] at ih ⊢
    apply splitHeader_append_none (renderRaw_no_nl (h r (by simp)))
    apply splitHeader_nl_none ih
    cases rs' with
    | nil => simp only [List.map_nil, joinLines, hd]; exact startsDashes_none_of_head (head_not_dash hda)
    | cons r'' rs'' =>
      simp only [List.map_cons, joinLines_cons_cons, hd, List.cons_append]
      exact startsDashes_none_of_head (head_not_dash hda)

theorem splitHeader_last {body : Text} (h : splitHeader body = none) (pre : Text) :
    splitHeader (pre ++ '\n' :: '-' :: '-' :: '-' :: body) = some (pre ++ ['\n'], body) := by
  induction pre with
  | nil =>
    have h1 : splitHeader ('-' :: body) = none := splitHeader_cons_none h (by decide)
    have h2 : splitHeader ('-' :: '-' :: body) = none := splitHeader_cons_none h1 (by decide)
    have h3 : splitHeader ('-' :: '-' :: '-' :: body) = none := splitHeader_cons_none h2 (by decide)
    rw [List.nil_append, splitHeader, h3]
    simp [startsDashes, stripPrefix]
  | cons a pre ih => simp [splitHeader, ih]

/-! ### strip -/

theorem isTerm_of_pySpace {z : Char} (h : isPySpace z = true) : isTerm z = true := by
  cases ht : isTerm z with
  | true => rfl
  | false =>
    exfalso
    simp only [isTerm, Bool.and_eq_false_iff, Bool.not_eq_false', bne_eq_false_iff_eq, isExpChar,
      isSign, Bool.or_eq_true, beq_iff_eq] at ht
    rcases ht with ((hd | hd) | hd) | hd
    · have hv : 48 ≤ z.toNat ∧ z.toNat ≤ 57 := by
        simp only [Char.isDigit, Bool.and_eq_true, decide_eq_true_eq, UInt32.le_iff_toNat_le] at hd
        exact hd
      simp only [isPySpace, Bool.or_eq_true, Bool.and_eq_true, decide_eq_true_eq, beq_iff_eq] at h
      omega
    · subst hd; exact absurd h (by decide)
    · rcases hd with hd | hd <;> subst hd <;> exact absurd h (by decide)
    · rcases hd with hd | hd <;> subst hd <;> exact absurd h (by decide)

theorem pyStrip_id (a z : Char) (mid : Text) (ha : isPySpace a = false) (hz : isPySpace z = false) :
    pyStrip (a :: (mid ++ [z])) = a :: (mid ++ [z]) := by
  simp [pyStrip, List.dropWhile, ha, hz]

/-- last character of a printed command: `"` or a character of a number token -/
theorem renderRaw_last {r : RawCmd} (h : rawOk r = true) :
    ∃ mid z, renderRaw r = mid ++ [z] ∧ isPySpace z = false := by
  have numLast : ∀ t : Text, numTokOk t = true → ∃ mid z, t = mid ++ [z] ∧ isPySpace z = false := by
    intro t ht
    obtain ⟨c, cs, rfl, _⟩ := numTokOk_start ht
    obtain ⟨mid, z, hmz⟩ : ∃ mid z, c :: cs = mid ++ [z] :=
      ⟨(c :: cs).dropLast, (c :: cs).getLast (by simp), (List.dropLast_concat_getLast (by simp)).symm⟩
    refine ⟨mid, z, hmz, ?_⟩
    cases hp : isPySpace z with
    | false => rfl
    | true =>
      have := numTok_no_term ht z (by rw [hmz]; simp)
      rw [isTerm_of_pySpace hp] at this; cases this
  cases r with
  | full c n t =>
    simp only [rawOk, Bool.and_eq_true] at h
    obtain ⟨mid, z, hmz, hz⟩ := numLast t h.2
    exact ⟨c ++ ' ' :: '"' :: n ++ '"' :: ' ' :: mid, z, by simp [renderRaw, hmz], hz⟩
  | skill c n => exact ⟨c ++ ' ' :: '"' :: n, '"', by simp [renderRaw], by decide⟩
  | time c t =>
    simp only [rawOk, Bool.and_eq_true] at h
    obtain ⟨mid, z, hmz, hz⟩ := numLast t h.2
    exact ⟨c ++ ' ' :: mid, z, by simp [renderRaw, hmz], hz⟩
  | console s =>
    exact ⟨'!' :: 'd' :: 'e' :: 'b' :: 'u' :: 'g' :: ' ' :: '"' :: s, '"', by simp [renderRaw], by decide⟩

theorem joinLines_last : ∀ rs : List RawCmd, rs ≠ [] → (∀ r ∈ rs, rawOk r = true) →
    ∃ mid z, joinLines (rs.map renderRaw) = mid ++ [z] ∧ isPySpace z = false
  | [], h, _ => absurd rfl h
  | [r], _, h => by simpa [joinLines] using renderRaw_last (h r (by simp))
  | r :: r' :: rs', _, h => by
    obtain ⟨mid, z, hm, hz⟩ := joinLines_last (r' :: rs') (by simp)
      (fun x hx => h x (List.mem_cons_of_mem _ hx))
    refine ⟨renderRaw r ++ '\n' :: mid, z, ?_, hz⟩
    simp only [List.map_cons, joinLines_cons_cons] at hm ⊢
    rw [hm]; simp

end Simaple.Dsl
