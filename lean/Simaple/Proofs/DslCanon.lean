import Simaple.Proofs.DslLayout
/-! The canonical layout (what `expr` / the plan writer print): its tokens are well separated, it is in
the explicit layout class, and its text is the printed text. -/
namespace Simaple.Dsl

theorem unlex_append (a b : List Tok) : unlex (a ++ b) = unlex a ++ unlex b := by
  induction a with
  | nil => rfl
  | cons t a ih => simp [unlex, ih]

theorem itemToks_append (a b : List (Atom × List GTok)) : itemToks (a ++ b) = itemToks a ++ itemToks b := by
  induction a with
  | nil => rfl
  | cons x a ih => obtain ⟨t, g⟩ := x; simp [itemToks, ih]

/-- tokens of one command in the canonical layout -/
def rawToks : RawCmd → List Tok
  | .full c n t => [.word c, .white [' '], .str n, .white [' '], .num t]
  | .skill c n => [.word c, .white [' '], .str n]
  | .time c t => [.word c, .white [' '], .num t]
  | .console s => [.debug, .white [' '], .str s]

theorem unlex_rawToks (r : RawCmd) : unlex (rawToks r) = renderRaw r := by
  cases r <;> simp [rawToks, unlex, unlexTok, renderRaw]

theorem itemToks_canonLine (r : RawCmd) (after : List GTok) :
    itemToks (lineAtoms (canonLine r after)) = rawToks r ++ after.map GTok.toTok := by
  cases r <;> simp [lineAtoms, canonLine, cmdAtoms, itemToks, rawToks, Atom.toTok, GTok.toTok]

theorem wordOk_head {c : Text} (h : wordOk c = true) :
    ∃ a cs, c = a :: cs ∧ a.isAlpha = true := by
  simp only [wordOk, Bool.and_eq_true, Bool.not_eq_true', List.isEmpty_eq_false_iff] at h
  cases c with
  | nil => exact absurd rfl h.1
  | cons a cs =>
    simp only [List.all_cons, Bool.and_eq_true] at h
    exact ⟨a, cs, rfl, h.2.1⟩

/-- first character of a canonical command: a letter or `!` -/
theorem rawToks_head {r : RawCmd} (h : rawOk r = true) (R : List Tok) :
    ∃ d, (unlex (rawToks r ++ R)).head? = some d ∧ isWsChar d = false := by
  cases r with
  | full c n t =>
    simp only [rawOk, Bool.and_eq_true] at h
    obtain ⟨a, cs, rfl, ha⟩ := wordOk_head h.1.1
    exact ⟨a, by simp [rawToks, unlex, unlexTok], isWsChar_not_alpha ha⟩
  | skill c n =>
    simp only [rawOk, Bool.and_eq_true] at h
    obtain ⟨a, cs, rfl, ha⟩ := wordOk_head h.1
    exact ⟨a, by simp [rawToks, unlex, unlexTok], isWsChar_not_alpha ha⟩
  | time c t =>
    simp only [rawOk, Bool.and_eq_true] at h
    obtain ⟨a, cs, rfl, ha⟩ := wordOk_head h.1
    exact ⟨a, by simp [rawToks, unlex, unlexTok], isWsChar_not_alpha ha⟩
  | console s => exact ⟨'!', by simp [rawToks, unlex, unlexTok], by decide⟩

theorem okTok_word_blank {c : Text} (h : wordOk c = true) : okTok (.word c) (some ' ') = true := by
  simp [okTok, h, nextOk]

theorem okTok_num_of_head {t : Text} (h : numTokOk t = true) {nx : Option Char}
    (hn : nx = none ∨ nx = some '\n' ∨ nx = some ' ') : okTok (.num t) nx = true := by
  rcases hn with rfl | rfl | rfl <;> simp [okTok, h, nextOk] <;> decide

theorem okTok_blank_before_num {t : Text} (h : numTokOk t = true) (rest : Text) :
    okTok (.white [' ']) (t ++ rest).head? = true := by
  obtain ⟨c, cs, rfl, hc⟩ := numTokOk_start h
  have := (numStart_props hc).1
  simp [okTok, nextOk, this, show isWsChar ' ' = true by decide]

/-- a canonical command followed by well separated tokens that start with a line break (or nothing) -/
theorem separated_rawToks {r : RawCmd} (h : rawOk r = true) {R : List Tok}
    (hR : separated R = true) (hnx : (unlex R).head? = none ∨ (unlex R).head? = some '\n') :
    separated (rawToks r ++ R) = true := by
  have hnx' : (unlex R).head? = none ∨ (unlex R).head? = some '\n' ∨ (unlex R).head? = some ' ' := by
    rcases hnx with h | h
    · exact Or.inl h
    · exact Or.inr (Or.inl h)
  cases r with
  | full c n t =>
    simp only [rawOk, Bool.and_eq_true] at h
    obtain ⟨⟨hc, hn⟩, ht⟩ := h
    simp only [rawToks, List.cons_append, List.nil_append, separated, unlex, Bool.and_eq_true]
    refine ⟨?_, ?_, ?_, ?_, ?_, hR⟩
    · simpa [unlexTok] using okTok_word_blank hc
    · simp [unlexTok, okTok, nextOk, isWsChar]
    · simpa [okTok] using hn
    · simpa [unlexTok] using okTok_blank_before_num ht (unlex R)
    · exact okTok_num_of_head ht hnx'
  | skill c n =>
    simp only [rawOk, Bool.and_eq_true] at h
    obtain ⟨hc, hn⟩ := h
    simp only [rawToks, List.cons_append, List.nil_append, separated, unlex, Bool.and_eq_true]
    refine ⟨?_, ?_, ?_, hR⟩
    · simpa [unlexTok] using okTok_word_blank hc
    · simp [unlexTok, okTok, nextOk, isWsChar]
    · simpa [okTok] using hn
  | time c t =>
    simp only [rawOk, Bool.and_eq_true] at h
    obtain ⟨hc, ht⟩ := h
    simp only [rawToks, List.cons_append, List.nil_append, separated, unlex, Bool.and_eq_true]
    refine ⟨?_, ?_, ?_, hR⟩
    · simpa [unlexTok] using okTok_word_blank hc
    · simpa [unlexTok] using okTok_blank_before_num ht (unlex R)
    · exact okTok_num_of_head ht hnx'
  | console s =>
    simp only [rawOk] at h
    simp only [rawToks, List.cons_append, List.nil_append, separated, unlex, Bool.and_eq_true]
    refine ⟨?_, ?_, ?_, hR⟩
    · simp [okTok]
    · simp [unlexTok, okTok, nextOk, isWsChar]
    · simpa [okTok] using h

theorem itemToks_canonLines : ∀ rs : List RawCmd,
    itemToks (itemsOf (canonLines rs)) =
      match rs with
      | [] => []
      | [r] => rawToks r
      | r :: r' :: rs' => rawToks r ++ Tok.white ['\n'] :: itemToks (itemsOf (canonLines (r' :: rs')))
  | [] => rfl
  | [r] => by simp [canonLines, itemsOf, itemToks_canonLine]
  | r :: r' :: rs' => by
    simp [canonLines, itemsOf, itemToks_append, itemToks_canonLine, GTok.toTok]

theorem separated_canonLines : ∀ rs : List RawCmd, (∀ r ∈ rs, rawOk r = true) →
    separated (itemToks (itemsOf (canonLines rs))) = true
  | [], _ => rfl
  | [r], h => by
    rw [itemToks_canonLines]
    have := separated_rawToks (h r (by simp)) (R := []) rfl (Or.inl rfl)
    simpa using this
  | r :: r' :: rs', h => by
    rw [itemToks_canonLines]
    have ih := separated_canonLines (r' :: rs') (fun x hx => h x (List.mem_cons_of_mem _ hx))
    apply separated_rawToks (h r (by simp))
    · simp only [separated, Bool.and_eq_true]
      refine ⟨?_, ih⟩
      -- the line break is followed by the first character of the next command
      have hr' : rawOk r' = true := h r' (by simp)
      cases rs' with
      | nil =>
        rw [itemToks_canonLines]
        obtain ⟨d, hd, hw⟩ := rawToks_head hr' []
        simp only [List.append_nil] at hd
        simp [okTok, hd, nextOk, hw, show isWsChar '\n' = true by decide]
      | cons r'' rs'' =>
        rw [itemToks_canonLines]
        obtain ⟨d, hd, hw⟩ := rawToks_head hr' (Tok.white ['\n'] :: itemToks (itemsOf (canonLines (r'' :: rs''))))
        simp [okTok, hd, nextOk, hw, show isWsChar '\n' = true by decide]
    · exact Or.inr (by simp [unlex, unlexTok])

theorem joinLines_cons_cons (a b : Text) (r : List Text) :
    joinLines (a :: b :: r) = a ++ '\n' :: joinLines (b :: r) := rfl

theorem unlex_canonLines : ∀ rs : List RawCmd,
    unlex (itemToks (itemsOf (canonLines rs))) = joinLines (rs.map renderRaw)
  | [] => rfl
  | [r] => by rw [itemToks_canonLines]; simp [unlex_rawToks, joinLines]
  | r :: r' :: rs' => by
    rw [itemToks_canonLines]
    have ih := unlex_canonLines (r' :: rs')
    simp only [unlex_append, unlex, unlexTok, unlex_rawToks, List.map_cons, joinLines_cons_cons] at ih ⊢
    rw [ih]; simp

/-! ### the canonical layout is in the explicit class -/

theorem goodLine_canonLine (r : RawCmd) (after : List GTok) : goodLine (canonLine r after) = true := by
  cases r <;> rfl

theorem canon_lead (first : Bool) (l : DLine) :
    (if first then
        (if isStrictLine l then leadGapStrict (if first then [] else [GTok.white ['\n']])
         else leadGapOp (if first then [] else [GTok.white ['\n']]))
     else
        (if isStrictLine l then sepGapStrict (if first then [] else [GTok.white ['\n']])
         else sepGapOp (if first then [] else [GTok.white ['\n']]))) = true := by
  cases first <;> cases isStrictLine l <;> rfl

theorem canon_good : ∀ (rs : List RawCmd), rs ≠ [] → ∀ (first : Bool),
    goodLayoutFrom first (if first then [] else [.white ['\n']]) (canonLines rs) = true
  | [], h, _ => absurd rfl h
  | [r], _, first => by
    simp only [canonLines, goodLayoutFrom, Bool.and_eq_true]
    exact ⟨⟨canon_lead first _, goodLine_canonLine r []⟩, rfl⟩
  | r :: r' :: rs', _, first => by
    have ih := canon_good (r' :: rs') (by simp) false
    have e : canonLines (r :: r' :: rs') = canonLine r [.white ['\n']] :: canonLines (r' :: rs') := rfl
    obtain ⟨l', ls', hl⟩ : ∃ l' ls', canonLines (r' :: rs') = l' :: ls' := by
      cases rs' with
      | nil => exact ⟨_, _, rfl⟩
      | cons r'' rs'' => exact ⟨_, _, rfl⟩
    have ih' : goodLayoutFrom false [GTok.white ['\n']] (l' :: ls') = true := by
      rw [← hl]; exact ih
    rw [e, hl]
    simp only [goodLayoutFrom, Bool.and_eq_true]
    exact ⟨⟨canon_lead first _, goodLine_canonLine r _⟩, ih'⟩

/-- not `x <num>` -/
def rawXfree : RawCmd → Bool
  | .time c _ => c != ['x']
  | _ => true

theorem xfree_canonLines : ∀ (rs : List RawCmd), (∀ r ∈ rs, rawXfree r = true) →
    ∀ l ∈ canonLines rs, xfree l = true
  | [], _ => by intro l hl; cases hl
  | [r], h => by
    intro l hl
    simp only [canonLines, List.mem_singleton] at hl
    subst hl
    have := h r (by simp)
    cases r <;> simp_all [xfree, canonLine, rawXfree]
  | r :: r' :: rs', h => by
    intro l hl
    simp only [canonLines, List.mem_cons] at hl
    rcases hl with rfl | hl
    · have := h r (by simp)
      cases r <;> simp_all [xfree, canonLine, rawXfree]
    · exact xfree_canonLines (r' :: rs') (fun x hx => h x (List.mem_cons_of_mem _ hx)) l
        (by simpa [canonLines] using hl)

theorem expand_canonLines : ∀ rs : List RawCmd, expand (canonLines rs) = some rs
  | [] => rfl
  | [r] => by simp [canonLines, expand, expandLine, canonLine, consD]
  | r :: r' :: rs' => by
    have ih := expand_canonLines (r' :: rs')
    simp [canonLines, expand, expandLine, canonLine, consD] at ih ⊢
    simp [ih]

theorem layoutOk_head_swap {base base' : Pat} {before before' : List GTok} {l : DLine}
    {ls : List DLine} (h : layoutOk base before (l :: ls) = true)
    (h' : gapFits (leadPat base' l) before' = true) : layoutOk base' before' (l :: ls) = true := by
  cases ls with
  | nil =>
    simp only [layoutOk, Bool.and_eq_true] at h ⊢
    exact ⟨⟨h', h.1.2⟩, h.2⟩
  | cons l' ls' =>
    simp only [layoutOk, Bool.and_eq_true] at h ⊢
    exact ⟨⟨h', h.1.2⟩, h.2⟩

/-- the canonical body parses to its commands, whatever stands in front of it, as long as that gap is
accepted in front of its first line -/
theorem parse_canonical (base : Pat) (lead : List GTok) (rs : List RawCmd) (hne : rs ≠ [])
    (hok : ∀ r ∈ rs, rawOk r = true) (hx : ∀ r ∈ rs, rawXfree r = true)
    (hsep : separated (toksOf lead (canonLines rs)) = true)
    (hlead : ∀ l ls, canonLines rs = l :: ls → gapFits (leadPat base l) lead = true) :
    parseRawWith base (unlex (toksOf lead (canonLines rs))) = .ok rs := by
  have hgood := canon_good rs hne true
  have hgl := good_goodLine _ _ _ hgood
  have hxf := xfree_canonLines rs hx
  rw [parseRawWith_decorated base lead _ hsep (fun l hl => goodLine_unamb (hgl l hl) (hxf l hl))]
  have hlay := good_layoutOk _ _ _ hgood
  have hlay' : layoutOk base lead (canonLines rs) = true := by
    cases hc : canonLines rs with
    | nil =>
      exfalso
      match rs, hne with
      | [r], _ => simp [canonLines] at hc
      | r :: r' :: rs', _ => simp [canonLines] at hc
    | cons l ls =>
      rw [hc] at hlay
      exact layoutOk_head_swap hlay (hlead l ls hc)
  simp [hlay', expand_canonLines, pick]

/-! ### integer tokens -/

theorem scanNumber_digits {ds : Text} (hne : ds ≠ []) (hall : ds.all Char.isDigit = true) :
    scanUnsigned ds = some (ds, []) := by
  unfold scanUnsigned
  rw [spanP_all hall]
  simp [hne, scanAfterInt]

theorem pyInt_shape {m : Text} {k : Int} (h : pyInt m = some k) :
    ∃ c cs, m = c :: cs ∧ c.isAlpha = false ∧ numTokOk m = true := by
  cases m with
  | nil => simp [pyInt] at h
  | cons c cs =>
    refine ⟨c, cs, rfl, ?_⟩
    simp only [pyInt] at h
    by_cases h1 : (c == '-') = true
    · have hc : c = '-' := by simpa using h1
      subst hc
      simp only [beq_self_eq_true, ↓reduceIte] at h
      split at h
      · rename_i hd
        simp only [Bool.and_eq_true, Bool.not_eq_true', List.isEmpty_eq_false_iff] at hd
        refine ⟨by decide, ?_⟩
        simp [numTokOk, scanNumber, isSign, scanNumber_digits hd.1 hd.2]
      · cases h
    · simp only [h1, Bool.false_eq_true, ↓reduceIte] at h
      by_cases h2 : (c == '+') = true
      · have hc : c = '+' := by simpa using h2
        subst hc
        simp only [beq_self_eq_true, ↓reduceIte] at h
        split at h
        · rename_i hd
          simp only [Bool.and_eq_true, Bool.not_eq_true', List.isEmpty_eq_false_iff] at hd
          refine ⟨by decide, ?_⟩
          simp [numTokOk, scanNumber, isSign, scanNumber_digits hd.1 hd.2]
        · cases h
      · simp only [h2, Bool.false_eq_true, ↓reduceIte] at h
        split at h
        · rename_i hd
          have hcd : c.isDigit = true := by
            simp only [List.all_cons, Bool.and_eq_true] at hd; exact hd.1
          have hns : isNumStart c = true := by simp [isNumStart, hcd]
          refine ⟨(numStart_props hns).2.2.1, ?_⟩
          have hs : isSign c = false := by
            simp only [isSign, Bool.or_eq_false_iff]
            exact ⟨by simpa using h2, by simpa using h1⟩
          simp [numTokOk, scanNumber, hs, scanNumber_digits (by simp) hd]
        · cases h

end Simaple.Dsl
