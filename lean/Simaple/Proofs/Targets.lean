/-
C19 helper lemmas for the concrete optimizer targets (Model/Targets.lean): order and sign predicates on stat
blocks, monotonicity of `Stat.__add__`, of the table lookups and of the masked accumulation, the C12 damage
factor theorems for all five logics at once.
-/
import Simaple.Model.Targets
import Simaple.Props.C12
import Simaple.Proofs.Optimizer
import Mathlib.Tactic.Linarith
import Mathlib.Tactic.Ring
import Mathlib.Tactic.NormNum

namespace Simaple.Proofs.Targets
open Simaple.Gen Simaple.Py Simaple.Optimizer Simaple.Targets Simaple.Proofs.C12

def plain : List (Stat → Rat) :=
  [fun s => s.STR, fun s => s.LUK, fun s => s.INT, fun s => s.DEX,
   fun s => s.STR_multiplier, fun s => s.LUK_multiplier, fun s => s.INT_multiplier, fun s => s.DEX_multiplier,
   fun s => s.STR_static, fun s => s.LUK_static, fun s => s.INT_static, fun s => s.DEX_static,
   fun s => s.attack_power, fun s => s.magic_attack, fun s => s.attack_power_multiplier,
   fun s => s.magic_attack_multiplier, fun s => s.critical_rate, fun s => s.critical_damage,
   fun s => s.boss_damage_multiplier, fun s => s.damage_multiplier, fun s => s.elemental_resistance]

theorem add_plain : ∀ f ∈ plain, ∀ a b : Stat, f (a.add b) = f a + f b := by
  intro f hf a b
  simp only [plain, List.mem_cons, List.not_mem_nil, or_false] at hf
  rcases hf with h | h | h | h | h | h | h | h | h | h | h | h | h | h | h | h | h | h | h | h | h <;> subst h <;> rfl

theorem add_final (a b : Stat) : (a.add b).final_damage_multiplier =
    a.final_damage_multiplier + b.final_damage_multiplier + (1 / 100) * a.final_damage_multiplier * b.final_damage_multiplier := rfl

theorem add_ied (a b : Stat) : (a.add b).ignored_defence =
    100 - (1 / 100) * ((100 - a.ignored_defence) * (100 - b.ignored_defence)) := rfl

theorem iadd_eq_add (a b : Stat) : a.iadd b = a.add b := by
  cases a; cases b
  simp only [Stat.iadd, Stat.add, Stat.mk.injEq, true_and, and_true]
  ring

/-- every field a damage logic reads is `≥ 0` (final damage% `≥ 0`) and `ignored_defence ≤ 100`:
    what every cell of the generated tables satisfies -/
structure Good (x : Stat) : Prop where
  plain : ∀ f ∈ plain, 0 ≤ f x
  final : 0 ≤ x.final_damage_multiplier
  ied0 : 0 ≤ x.ignored_defence
  ied100 : x.ignored_defence ≤ 100

instance (x : Stat) : Decidable (Good x) :=
  decidable_of_iff ((∀ f ∈ plain, 0 ≤ f x) ∧ 0 ≤ x.final_damage_multiplier ∧ 0 ≤ x.ignored_defence ∧
      x.ignored_defence ≤ 100)
    ⟨fun h => ⟨h.1, h.2.1, h.2.2.1, h.2.2.2⟩, fun h => ⟨h.plain, h.final, h.ied0, h.ied100⟩⟩

/-- the reference stat block of a target: read fields `≥ 0`, final damage% `≥ -100`,
    `ignored_defence ≤ 100` -/
structure DefaultOk (x : Stat) : Prop where
  plain : ∀ f ∈ plain, 0 ≤ f x
  final : -100 ≤ x.final_damage_multiplier
  ied100 : x.ignored_defence ≤ 100

instance (x : Stat) : Decidable (DefaultOk x) :=
  decidable_of_iff ((∀ f ∈ plain, 0 ≤ f x) ∧ -100 ≤ x.final_damage_multiplier ∧ x.ignored_defence ≤ 100)
    ⟨fun h => ⟨h.1, h.2.1, h.2.2⟩, fun h => ⟨h.plain, h.final, h.ied100⟩⟩

theorem Good.defaultOk {x : Stat} (h : Good x) : DefaultOk x :=
  ⟨h.plain, by have := h.final; linarith, h.ied100⟩

/-- `a ≤ b` on every field a damage logic reads -/
structure SLe (a b : Stat) : Prop where
  plain : ∀ f ∈ plain, f a ≤ f b
  final : a.final_damage_multiplier ≤ b.final_damage_multiplier
  ied : a.ignored_defence ≤ b.ignored_defence

instance (a b : Stat) : Decidable (SLe a b) :=
  decidable_of_iff ((∀ f ∈ plain, f a ≤ f b) ∧ a.final_damage_multiplier ≤ b.final_damage_multiplier ∧
      a.ignored_defence ≤ b.ignored_defence)
    ⟨fun h => ⟨h.1, h.2.1, h.2.2⟩, fun h => ⟨h.plain, h.final, h.ied⟩⟩

theorem SLe.refl (a : Stat) : SLe a a := ⟨fun _ _ => le_refl _, le_refl _, le_refl _⟩
theorem SLe.trans {a b c : Stat} (h₁ : SLe a b) (h₂ : SLe b c) : SLe a c :=
  ⟨fun f hf => le_trans (h₁.plain f hf) (h₂.plain f hf), le_trans h₁.final h₂.final, le_trans h₁.ied h₂.ied⟩

theorem good_zero : Good Stat.zero := by decide

theorem good_add {a b : Stat} (ha : Good a) (hb : Good b) : Good (a.add b) := by
  refine ⟨fun f hf => ?_, ?_, ?_, ?_⟩
  · rw [add_plain f hf]; exact add_nonneg (ha.plain f hf) (hb.plain f hf)
  · rw [add_final]; have := ha.final; have := hb.final; positivity
  · rw [add_ied]; have := ha.ied0; have := hb.ied0; have := ha.ied100; have := hb.ied100; nlinarith
  · rw [add_ied]; have := ha.ied100; have := hb.ied100; nlinarith

/-- `Stat.__add__` is monotone in both arguments (final damage% stacks multiplicatively and ignore-defence
    multiplies the remainders, so the side conditions are needed) -/
theorem add_mono {a a' b b' : Stat} (ha : SLe a a') (hb : SLe b b')
    (hbf : -100 ≤ b.final_damage_multiplier) (haf : -100 ≤ a'.final_damage_multiplier)
    (hbi : b.ignored_defence ≤ 100) (hai : a'.ignored_defence ≤ 100) : SLe (a.add b) (a'.add b') := by
  refine ⟨fun f hf => ?_, ?_, ?_⟩
  · rw [add_plain f hf, add_plain f hf]; exact add_le_add (ha.plain f hf) (hb.plain f hf)
  · rw [add_final, add_final]; have := ha.final; have := hb.final; nlinarith
  · rw [add_ied, add_ied]; have := ha.ied; have := hb.ied; nlinarith

theorem le_add_right {a b : Stat} (ha : DefaultOk a) (hb : Good b) : SLe a (a.add b) := by
  refine ⟨fun f hf => ?_, ?_, ?_⟩
  · rw [add_plain f hf]; have := hb.plain f hf; linarith
  · rw [add_final]; have := ha.final; have := hb.final; nlinarith
  · rw [add_ied]; have := ha.ied100; have := hb.ied0; nlinarith

theorem defaultOk_add {d x : Stat} (hd : DefaultOk d) (hx : Good x) : DefaultOk (d.add x) := by
  refine ⟨fun f hf => ?_, ?_, ?_⟩
  · rw [add_plain f hf]; exact add_nonneg (hd.plain f hf) (hx.plain f hf)
  · rw [add_final]; have := hd.final; have := hx.final; nlinarith
  · rw [add_ied]; have := hd.ied100; have := hx.ied100; nlinarith

/-- the hypotheses of the C12 monotonicity theorems, for every damage logic at once -/
theorem statHyp_of {s s' : Stat} (hs : DefaultOk s) (hle : SLe s s') (rd : Reads) : StatHyp rd s s' := by
  have p := hs.plain
  have q := hle.plain
  refine ⟨⟨?_, ?_, hs.final, ?_, ?_, ?_⟩, ⟨?_, ?_, hle.final, ?_, ?_, ?_, hle.ied⟩, ?_, ?_, ?_, ?_⟩
  · exact p (fun s => s.boss_damage_multiplier) (by simp [plain])
  · exact p (fun s => s.damage_multiplier) (by simp [plain])
  · exact p (fun s => s.critical_rate) (by simp [plain])
  · exact p (fun s => s.critical_damage) (by simp [plain])
  · exact p (fun s => s.elemental_resistance) (by simp [plain])
  · exact q (fun s => s.boss_damage_multiplier) (by simp [plain])
  · exact q (fun s => s.damage_multiplier) (by simp [plain])
  · exact q (fun s => s.critical_rate) (by simp [plain])
  · exact q (fun s => s.critical_damage) (by simp [plain])
  · exact q (fun s => s.elemental_resistance) (by simp [plain])
  · intro t _
    cases t
    · exact ⟨p (fun s => s.STR) (by simp [plain]), p (fun s => s.STR_multiplier) (by simp [plain]),
        p (fun s => s.STR_static) (by simp [plain])⟩
    · exact ⟨p (fun s => s.LUK) (by simp [plain]), p (fun s => s.LUK_multiplier) (by simp [plain]),
        p (fun s => s.LUK_static) (by simp [plain])⟩
    · exact ⟨p (fun s => s.INT) (by simp [plain]), p (fun s => s.INT_multiplier) (by simp [plain]),
        p (fun s => s.INT_static) (by simp [plain])⟩
    · exact ⟨p (fun s => s.DEX) (by simp [plain]), p (fun s => s.DEX_multiplier) (by simp [plain]),
        p (fun s => s.DEX_static) (by simp [plain])⟩
  · intro t _
    cases t
    · exact ⟨q (fun s => s.STR) (by simp [plain]), q (fun s => s.STR_multiplier) (by simp [plain]),
        q (fun s => s.STR_static) (by simp [plain])⟩
    · exact ⟨q (fun s => s.LUK) (by simp [plain]), q (fun s => s.LUK_multiplier) (by simp [plain]),
        q (fun s => s.LUK_static) (by simp [plain])⟩
    · exact ⟨q (fun s => s.INT) (by simp [plain]), q (fun s => s.INT_multiplier) (by simp [plain]),
        q (fun s => s.INT_static) (by simp [plain])⟩
    · exact ⟨q (fun s => s.DEX) (by simp [plain]), q (fun s => s.DEX_multiplier) (by simp [plain]),
        q (fun s => s.DEX_static) (by simp [plain])⟩
  · cases rd.att
    · exact ⟨p (fun s => s.attack_power) (by simp [plain]), p (fun s => s.attack_power_multiplier) (by simp [plain])⟩
    · exact ⟨p (fun s => s.magic_attack) (by simp [plain]), p (fun s => s.magic_attack_multiplier) (by simp [plain])⟩
  · cases rd.att
    · exact ⟨q (fun s => s.attack_power) (by simp [plain]), q (fun s => s.attack_power_multiplier) (by simp [plain])⟩
    · exact ⟨q (fun s => s.magic_attack) (by simp [plain]), q (fun s => s.magic_attack_multiplier) (by simp [plain])⟩

/-- `attack_range_constant` / `mastery` of a logic -/
def Logic.arc : Logic → Rat
  | .str l => l.attack_range_constant | .int l => l.attack_range_constant | .dex l => l.attack_range_constant
  | .luk l => l.attack_range_constant | .lukDual l => l.attack_range_constant
def Logic.mastery : Logic → Rat
  | .str l => l.mastery | .int l => l.mastery | .dex l => l.mastery
  | .luk l => l.mastery | .lukDual l => l.mastery

/-- all five damage factors are monotone (C12), wherever the armour term of the smaller block is `≥ 0` -/
theorem logic_mono (l : Logic) (harc : 0 ≤ Logic.arc l) (hm : -1 ≤ Logic.mastery l) {s s' : Stat}
    (hs : DefaultOk s) (hle : SLe s s') (armor : Rat) (harmor : 0 ≤ armor)
    (hpos : armor * (100 - s.ignored_defence) ≤ 10000) :
    l.get_damage_factor s armor ≤ l.get_damage_factor s' armor := by
  cases l with
  | str l =>
    exact Simaple.Props.C12.str_damage_factor_mono l s s' armor (statHyp_of hs hle _) harmor harc hm
      (by unfold STRBasedDamageLogic.get_armor_factor; linarith)
  | int l =>
    exact Simaple.Props.C12.int_damage_factor_mono l s s' armor (statHyp_of hs hle _) harmor harc hm
      (by unfold INTBasedDamageLogic.get_armor_factor; linarith)
  | dex l =>
    exact Simaple.Props.C12.dex_damage_factor_mono l s s' armor (statHyp_of hs hle _) harmor harc hm
      (by unfold DEXBasedDamageLogic.get_armor_factor; linarith)
  | luk l =>
    exact Simaple.Props.C12.luk_damage_factor_mono l s s' armor (statHyp_of hs hle _) harmor harc hm
      (by unfold LUKBasedDamageLogic.get_armor_factor; linarith)
  | lukDual l =>
    exact Simaple.Props.C12.lukdual_damage_factor_mono l s s' armor (statHyp_of hs hle _) harmor harc hm
      (by unfold LUKBasedDualSubDamageLogic.get_armor_factor; linarith)

/-! ### the tail of every `get_value` -/

/-- what the value-monotonicity theorems ask of a target's configuration: the reference block is in the
    positive-damage domain (read fields `≥ 0`, final damage% `≥ -100`, ignore-defence `≤ 100`, armour term
    `1 - armor·(100 - ignored_defence)/10000 ≥ 0`), `armor ≥ 0`, `attack_range_constant ≥ 0`, `mastery ≥ -1` -/
structure ConfigOk (c : Config) : Prop where
  stat : DefaultOk c.default_stat
  armor : 0 ≤ c.armor
  arc : 0 ≤ Logic.arc c.damage_logic
  mastery : -1 ≤ Logic.mastery c.damage_logic
  positive : c.armor * (100 - c.default_stat.ignored_defence) ≤ 10000

theorem config_value_mono {c : Config} (hc : ConfigOk c) {x y : Stat} (hx : Good x) (hle : SLe x y) :
    c.value x ≤ c.value y := by
  unfold Config.value
  refine logic_mono _ hc.arc hc.mastery (defaultOk_add hc.stat hx) ?_ _ hc.armor ?_
  · exact add_mono (SLe.refl _) hle (by have := hx.final; linarith) hc.stat.final hx.ied100 hc.stat.ied100
  · have h1 := (le_add_right hc.stat hx).ied
    have h2 := hc.armor
    have h3 := hc.positive
    nlinarith

/-! ### lists -/

theorem forall₂_of_le {a b : State} (h : Simaple.Proofs.Optimizer.Le a b) : List.Forall₂ (· ≤ ·) a b := by
  obtain ⟨hl, hj⟩ := h
  induction a generalizing b with
  | nil => cases b with
    | nil => exact .nil
    | cons _ _ => simp at hl
  | cons x xs ih =>
    cases b with
    | nil => simp at hl
    | cons y ys =>
      refine .cons (by simpa using hj 0) (ih (by simpa using hl) fun j => ?_)
      simpa using hj (j + 1)

theorem foldl_add_mono {xs ys : List Stat} (h : List.Forall₂ SLe xs ys) :
    ∀ {a a' : Stat}, (∀ x ∈ xs, Good x) → (∀ y ∈ ys, Good y) → Good a → Good a' → SLe a a' →
      SLe (xs.foldl Stat.add a) (ys.foldl Stat.add a') ∧ Good (xs.foldl Stat.add a) ∧
        Good (ys.foldl Stat.add a') := by
  induction h with
  | nil => intro a a' _ _ ha ha' hle; exact ⟨hle, ha, ha'⟩
  | cons hxy _ ih =>
    intro a a' hx hy ha ha' hle
    have gx := hx _ (List.mem_cons_self ..)
    have gy := hy _ (List.mem_cons_self ..)
    simp only [List.foldl_cons]
    exact ih (fun x h => hx x (List.mem_cons_of_mem _ h)) (fun y h => hy y (List.mem_cons_of_mem _ h))
      (good_add ha gx) (good_add ha' gy)
      (add_mono hle hxy (by have := gx.final; linarith) (by have := ha'.final; linarith) gx.ied100 ha'.ied100)

theorem pySumStat_mono {xs ys : List Stat} (h : List.Forall₂ SLe xs ys) (hx : ∀ x ∈ xs, Good x)
    (hy : ∀ y ∈ ys, Good y) : SLe (pySumStat xs) (pySumStat ys) ∧ Good (pySumStat xs) :=
  let r := foldl_add_mono h hx hy good_zero good_zero (SLe.refl _)
  ⟨r.1, r.2.1⟩

/-! ### `lookupAll` (hyper stat, union occupation) -/

theorem lookupAll_nil_right {α : Type} (ts : List (List α)) : lookupAll ts [] = some [] := by
  cases ts <;> rfl
theorem lookupAll_nil_left {α : Type} (is : List Nat) : lookupAll ([] : List (List α)) is = some [] := rfl
theorem lookupAll_cons {α : Type} (t : List α) (ts : List (List α)) (i : Nat) (is : List Nat) :
    lookupAll (t :: ts) (i :: is) = match t[i]? with
      | none => none
      | some x => (lookupAll ts is).map (x :: ·) := rfl

/-- a per-level table: every cell is `Good` and the cells do not decrease with the level -/
def Rising : List Stat → Prop
  | a :: b :: r => SLe a b ∧ Rising (b :: r)
  | _ => True

instance : ∀ t, Decidable (Rising t)
  | [] => isTrue trivial
  | [_] => isTrue trivial
  | a :: b :: r =>
    have : Decidable (Rising (b :: r)) := instDecidableRising (b :: r)
    inferInstanceAs (Decidable (SLe a b ∧ Rising (b :: r)))

theorem Rising.head_le : ∀ {a : Stat} {t : List Stat}, Rising (a :: t) → ∀ x ∈ t, SLe a x := by
  intro a t
  induction t generalizing a with
  | nil => intro _ x hx; cases hx
  | cons b r ih =>
    intro h x hx
    rcases List.mem_cons.mp hx with rfl | hx
    · exact h.1
    · exact SLe.trans h.1 (ih h.2 x hx)

theorem Rising.pairwise : ∀ {t : List Stat}, Rising t → t.Pairwise SLe := by
  intro t
  induction t with
  | nil => intro _; exact .nil
  | cons a t ih =>
    intro h
    refine List.Pairwise.cons (Rising.head_le h) (ih ?_)
    cases t with
    | nil => trivial
    | cons b r => exact h.2

def TableOk (t : List Stat) : Prop := (∀ x ∈ t, Good x) ∧ Rising t

instance (t : List Stat) : Decidable (TableOk t) := by unfold TableOk; infer_instance

theorem table_lookup_mono {t : List Stat} (ht : TableOk t) {i j : Nat} (hij : i ≤ j) {y : Stat}
    (hy : t[j]? = some y) : ∃ x, t[i]? = some x ∧ SLe x y ∧ Good x ∧ Good y := by
  obtain ⟨hj, rfl⟩ := List.getElem?_eq_some_iff.mp hy
  have hi : i < t.length := by omega
  refine ⟨t[i], List.getElem?_eq_getElem hi, ?_, ht.1 _ (List.getElem_mem hi), ht.1 _ (List.getElem_mem hj)⟩
  rcases Nat.lt_or_eq_of_le hij with h | h
  · exact (List.pairwise_iff_getElem.mp ht.2.pairwise) i j hi hj h
  · subst h; exact SLe.refl _

theorem lookupAll_mono : ∀ (tables : List (List Stat)), (∀ t ∈ tables, TableOk t) →
    ∀ {a b : List Nat}, List.Forall₂ (· ≤ ·) a b → ∀ {ys : List Stat}, lookupAll tables b = some ys →
      ∃ xs, lookupAll tables a = some xs ∧ List.Forall₂ SLe xs ys ∧ (∀ x ∈ xs, Good x) ∧ (∀ y ∈ ys, Good y) := by
  intro tables
  induction tables with
  | nil =>
    intro _ a b _ ys h
    rw [lookupAll_nil_left] at h
    cases h
    exact ⟨[], lookupAll_nil_left _, .nil, by simp, by simp⟩
  | cons t ts ih =>
    intro hT a b hab ys h
    cases hab with
    | nil =>
      rw [lookupAll_nil_right] at h
      cases h
      exact ⟨[], lookupAll_nil_right _, .nil, by simp, by simp⟩
    | @cons i j is js hij hrest =>
      rw [lookupAll_cons] at h
      cases hy : t[j]? with
      | none => rw [hy] at h; simp at h
      | some y =>
        rw [hy] at h
        cases hr : lookupAll ts js with
        | none => rw [hr] at h; simp at h
        | some ys' =>
          rw [hr] at h
          simp only [Option.map_some, Option.some.injEq] at h
          subst h
          obtain ⟨x, hx, hle, gx, gy⟩ := table_lookup_mono (hT t (List.mem_cons_self ..)) hij hy
          obtain ⟨xs', hxs, hf, gxs, gys⟩ := ih (fun t' h' => hT t' (List.mem_cons_of_mem _ h')) hrest hr
          refine ⟨x :: xs', ?_, .cons hle hf, ?_, ?_⟩
          · rw [lookupAll_cons, hx, hxs]; rfl
          · intro z hz; rcases List.mem_cons.mp hz with rfl | hz; exacts [gx, gxs z hz]
          · intro z hz; rcases List.mem_cons.mp hz with rfl | hz; exacts [gy, gys z hz]

/-- where the lookups are defined: same number of slots is not needed (zip truncates), every index inside its table -/
theorem lookupAll_isSome {α : Type} : ∀ (tables : List (List α)) (s : List Nat) (m : Nat),
    (∀ t ∈ tables, m < t.length) → (∀ i ∈ s, i ≤ m) → (lookupAll tables s).isSome := by
  intro tables
  induction tables with
  | nil => intro s m _ _; rfl
  | cons t ts ih =>
    intro s m hT hs
    cases s with
    | nil => rfl
    | cons i is =>
      rw [lookupAll_cons]
      have hi : i < t.length := by
        have := hT t (List.mem_cons_self ..); have := hs i (List.mem_cons_self ..); omega
      rw [List.getElem?_eq_getElem hi]
      have := ih is m (fun t' h' => hT t' (List.mem_cons_of_mem _ h')) (fun i' h' => hs i' (List.mem_cons_of_mem _ h'))
      cases h : lookupAll ts is with
      | none => rw [h] at this; simp at this
      | some _ => rfl

/-- undefined lookups stay undefined when the indices grow -/
theorem lookupAll_none_mono {α : Type} : ∀ (tables : List (List α)) {a b : List Nat},
    List.Forall₂ (· ≤ ·) a b → lookupAll tables a = none → lookupAll tables b = none := by
  intro tables
  induction tables with
  | nil => intro a b _ h; rw [lookupAll_nil_left] at h; cases h
  | cons t ts ih =>
    intro a b hab h
    cases hab with
    | nil => rw [lookupAll_nil_right] at h; cases h
    | @cons i j is js hij hrest =>
      rw [lookupAll_cons] at h ⊢
      cases hx : t[i]? with
      | none =>
        have : t[j]? = none := by
          rw [List.getElem?_eq_none_iff] at hx ⊢; omega
        rw [this]
      | some x =>
        rw [hx] at h
        cases hr : lookupAll ts is with
        | some _ => rw [hr] at h; simp at h
        | none =>
          rw [ih hrest hr]
          cases t[j]? <;> rfl

theorem lookupAll_map {α β : Type} (f : α → β) : ∀ (tables : List (List α)) (s : List Nat),
    lookupAll (tables.map (·.map f)) s = (lookupAll tables s).map (·.map f) := by
  intro tables
  induction tables with
  | nil => intro s; rfl
  | cons t ts ih =>
    intro s
    cases s with
    | nil => rfl
    | cons i is =>
      simp only [List.map_cons, lookupAll_cons, List.getElem?_map, ih]
      cases t[i]? with
      | none => rfl
      | some x => cases lookupAll ts is <;> rfl

/-! ### `masked` / `accumulate` (union squad, link skills) -/

theorem masked_nil_left {α : Type} (xs : List α) : masked [] xs = [] := by cases xs <;> rfl
theorem masked_nil_right {α : Type} (m : List Nat) : masked m ([] : List α) = [] := by cases m <;> rfl
theorem masked_cons {α : Type} (m : Nat) (ms : List Nat) (x : α) (xs : List α) :
    masked (m :: ms) (x :: xs) = if m ≠ 0 then x :: masked ms xs else masked ms xs := rfl

theorem masked_map {α β : Type} (f : α → β) : ∀ (m : List Nat) (xs : List α),
    masked m (xs.map f) = (masked m xs).map f := by
  intro m
  induction m with
  | nil => intro xs; simp [masked_nil_left]
  | cons m ms ih =>
    intro xs
    cases xs with
    | nil => rfl
    | cons x xs =>
      simp only [List.map_cons, masked_cons, ih]
      split <;> simp

theorem masked_zip {α β : Type} : ∀ (m : List Nat) (xs : List α) (ys : List β),
    (masked m xs).zip (masked m ys) = masked m (xs.zip ys) := by
  intro m
  induction m with
  | nil => intro xs ys; simp [masked_nil_left]
  | cons m ms ih =>
    intro xs ys
    cases xs with
    | nil => simp [masked_nil_right]
    | cons x xs =>
      cases ys with
      | nil => simp [masked_nil_right]
      | cons y ys =>
        simp only [List.zip_cons_cons, masked_cons]
        split
        · simp [ih]
        · exact ih xs ys

theorem masked_sublist {α : Type} : ∀ (m : List Nat) (xs : List α), (masked m xs).Sublist xs := by
  intro m
  induction m with
  | nil => intro xs; simp [masked_nil_left]
  | cons m ms ih =>
    intro xs
    cases xs with
    | nil => exact .slnil
    | cons x xs =>
      rw [masked_cons]
      split
      · exact (ih xs).cons_cons x
      · exact (ih xs).cons x

/-- a slot's stat is defined and `Good` -/
def OptGood : Option Stat → Prop
  | some x => Good x
  | none => False

instance : ∀ o, Decidable (OptGood o)
  | some x => inferInstanceAs (Decidable (Good x))
  | none => inferInstanceAs (Decidable False)

/-- selecting more slots never lowers the accumulated stat -/
theorem accumulate_masked_mono : ∀ (os : List (Option Stat)), (∀ o ∈ os, OptGood o) →
    ∀ {a b : List Nat}, List.Forall₂ (· ≤ ·) a b → ∀ {acc acc' : Stat}, Good acc → Good acc' → SLe acc acc' →
      ∃ r r', accumulate acc (masked a os) = some r ∧ accumulate acc' (masked b os) = some r' ∧
        SLe r r' ∧ Good r ∧ Good r' := by
  intro os
  induction os with
  | nil =>
    intro _ a b _ acc acc' g g' hle
    refine ⟨acc, acc', ?_, ?_, hle, g, g'⟩ <;> rw [masked_nil_right] <;> rfl
  | cons o os ih =>
    intro hos a b hab acc acc' g g' hle
    cases hab with
    | nil => exact ⟨acc, acc', rfl, rfl, hle, g, g'⟩
    | @cons i j is js hij hrest =>
      have ho := hos o (List.mem_cons_self ..)
      have hos' : ∀ o' ∈ os, OptGood o' := fun o' h' => hos o' (List.mem_cons_of_mem _ h')
      cases o with
      | none => exact absurd ho (by simp [OptGood])
      | some x =>
        have gx : Good x := ho
        rw [masked_cons, masked_cons]
        by_cases hi : i = 0
        · by_cases hj : j = 0
          · simp only [hi, hj, ne_eq, not_true_eq_false, if_false]
            exact ih hos' hrest g g' hle
          · simp only [hi, hj, ne_eq, not_true_eq_false, not_false_eq_true, if_false, if_true, accumulate,
              iadd_eq_add]
            exact ih hos' hrest g (good_add g' gx) (SLe.trans hle (le_add_right g'.defaultOk gx))
        · have hj : j ≠ 0 := by omega
          simp only [hi, hj, ne_eq, not_false_eq_true, if_true, accumulate, iadd_eq_add]
          exact ih hos' hrest (good_add g gx) (good_add g' gx)
            (add_mono hle (SLe.refl x) (by have := gx.final; linarith) (by have := g'.final; linarith)
              gx.ied100 g'.ied100)

/-! ### `UnionSquad.get_stat`: without repeated jobs the first loop keeps every block -/

theorem uniqueStep_fresh (u : List (String × UnionBlock × Nat)) (p : UnionBlock × Nat)
    (h : p.1.job ∉ u.map (·.1)) : UnionSquad.uniqueStep u p = u ++ [(p.1.job, p.1, p.2)] := by
  have hany : (u.any fun e => e.1 == p.1.job) = false := by
    rw [List.any_eq_false]
    intro e he
    simp only [beq_iff_eq]
    intro heq
    exact h (List.mem_map.mpr ⟨e, he, heq⟩)
  unfold UnionSquad.uniqueStep
  simp only [hany, Bool.false_eq_true, if_false, List.map_append, List.map_cons, List.map_nil,
    Nat.lt_irrefl, decide_false, Bool.and_false, gt_iff_lt]
  congr 1
  conv => rhs; rw [← List.map_id u]
  apply List.map_congr_left
  intro e he
  have : (e.1 == p.1.job) = false := by
    rw [beq_eq_false_iff_ne]
    intro heq
    exact h (List.mem_map.mpr ⟨e, he, heq⟩)
  simp [this]

theorem uniqueFold_nodup : ∀ (ps : List (UnionBlock × Nat)) (u : List (String × UnionBlock × Nat)),
    (u.map (·.1) ++ ps.map (·.1.job)).Nodup →
      ps.foldl UnionSquad.uniqueStep u = u ++ ps.map fun p => (p.1.job, p.1, p.2) := by
  intro ps
  induction ps with
  | nil => intro u _; simp
  | cons p ps ih =>
    intro u hnd
    have hfresh : p.1.job ∉ u.map (·.1) := by
      intro hmem
      rw [List.nodup_append] at hnd
      exact hnd.2.2 _ hmem _ (by simp) rfl
    rw [List.foldl_cons, uniqueStep_fresh u p hfresh, ih]
    · simp
    · simpa [List.append_assoc] using hnd

/-! ### integer sums (costs) -/

theorem foldl_add_int (l : List Int) (a : Int) : l.foldl (· + ·) a = a + l.sum := by
  induction l generalizing a with
  | nil => simp
  | cons x xs ih => simp only [List.foldl_cons, List.sum_cons, ih]; omega

theorem pySumInt_eq_sum (l : List Int) : pySumInt l = l.sum := by
  unfold pySumInt; rw [foldl_add_int]; omega

theorem sum_nonneg_int {l : List Int} (h : ∀ c ∈ l, 0 ≤ c) : 0 ≤ l.sum := by
  induction l with
  | nil => simp
  | cons x xs ih =>
    have := h x (List.mem_cons_self ..)
    have := ih fun c hc => h c (List.mem_cons_of_mem _ hc)
    simp only [List.sum_cons]; omega

theorem sum_take_mono {l : List Int} (h : ∀ c ∈ l, 0 ≤ c) : ∀ {i j : Nat}, i ≤ j →
    (l.take i).sum ≤ (l.take j).sum := by
  induction l with
  | nil => intro i j _; simp
  | cons x xs ih =>
    intro i j hij
    have hx := h x (List.mem_cons_self ..)
    have hxs : ∀ c ∈ xs, 0 ≤ c := fun c hc => h c (List.mem_cons_of_mem _ hc)
    cases i with
    | zero =>
      simp only [List.take_zero, List.sum_nil]
      exact sum_nonneg_int fun c hc => h c (List.mem_of_mem_take hc)
    | succ i =>
      cases j with
      | zero => omega
      | succ j =>
        have := ih hxs (i := i) (j := j) (by omega)
        simp only [List.take_succ_cons, List.sum_cons]; omega

theorem sum_map_mono {f : Nat → Int} (hf : ∀ i j, i ≤ j → f i ≤ f j) {a b : List Nat}
    (h : List.Forall₂ (· ≤ ·) a b) : (a.map f).sum ≤ (b.map f).sum := by
  induction h with
  | nil => simp
  | cons hij _ ih => have := hf _ _ hij; simp only [List.map_cons, List.sum_cons]; omega

theorem le_sum_map {f : Nat → Int} {l : List Nat} (h : ∀ y ∈ l, 0 ≤ f y) {x : Nat} (hx : x ∈ l) :
    f x ≤ (l.map f).sum := by
  induction l with
  | nil => cases hx
  | cons y ys ih =>
    have hy := h y (List.mem_cons_self ..)
    have hys : ∀ z ∈ ys, 0 ≤ f z := fun z hz => h z (List.mem_cons_of_mem _ hz)
    have hs := sum_nonneg_int (l := ys.map f) (by intro c hc; obtain ⟨z, hz, rfl⟩ := List.mem_map.mp hc; exact hys z hz)
    simp only [List.map_cons, List.sum_cons]
    rcases List.mem_cons.mp hx with rfl | hx
    · omega
    · have := ih hys hx; omega

theorem sum_le_of_forall₂ {a b : List Nat} (h : List.Forall₂ (· ≤ ·) a b) : a.sum ≤ b.sum := by
  induction h with
  | nil => simp
  | cons hij _ ih => simp only [List.sum_cons]; omega

/-! ### the hyper stat target -/

/-- the highest level of a hyper stat that has a stat value: the cost list has one more entry, the price
    (999999) of the level after it -/
def topLevel : Nat := Systems.hyperstat_cost.length - 1

/-- what `get_cost()` answers for a single slot at the first level without a stat value -/
def overflowCost : Int := kmsHyperstat.get_cost_for_level (topLevel + 1)

theorem hyperstat_get_cost_eq (h : Hyperstat) (s : State) :
    HyperstatTarget.get_cost h s =
      if s.length = h.length then some ((s.map h.get_cost_for_level).sum) else none := by
  unfold HyperstatTarget.get_cost Hyperstat.get_level_rearranged
  by_cases hl : s.length = h.length
  · simp only [hl, if_true, Option.map_some, Hyperstat.get_current_cost, pySumInt_eq_sum]
    rfl
  · simp only [hl, if_false, Option.map_none]

theorem cost_for_level_mono {h : Hyperstat} (hc : ∀ c ∈ h.cost, 0 ≤ c) (i j : Nat) (hij : i ≤ j) :
    h.get_cost_for_level i ≤ h.get_cost_for_level j := by
  unfold Hyperstat.get_cost_for_level
  rw [pySumInt_eq_sum, pySumInt_eq_sum]
  exact sum_take_mono hc hij

theorem cost_for_level_nonneg {h : Hyperstat} (hc : ∀ c ∈ h.cost, 0 ≤ c) (i : Nat) :
    0 ≤ h.get_cost_for_level i := by
  have := cost_for_level_mono hc 0 i (Nat.zero_le _)
  simpa [Hyperstat.get_cost_for_level, pySumInt] using this

theorem hyperstat_get_value_eq (c : Config) (h : Hyperstat) (s : State) :
    HyperstatTarget.get_value c h s =
      if s.length = h.length then (lookupAll (h.options.map (·.2)) s).map fun xs => c.value (pySumStat xs)
      else none := by
  unfold HyperstatTarget.get_value Hyperstat.get_level_rearranged
  by_cases hl : s.length = h.length
  · simp only [hl, if_true, Hyperstat.get_stat, Option.map_map]
    rfl
  · simp only [hl, if_false]

/-- value-monotonicity of a target whose system stat is `sum([table[i] …], Stat())` -/
theorem lookup_value_mono {c : Config} (hc : ConfigOk c) (tables : List (List Stat))
    (hT : ∀ t ∈ tables, TableOk t) {a b : List Nat} (hab : List.Forall₂ (· ≤ ·) a b) {ys : List Stat}
    (hb : lookupAll tables b = some ys) :
    ∃ xs, lookupAll tables a = some xs ∧ c.value (pySumStat xs) ≤ c.value (pySumStat ys) := by
  obtain ⟨xs, hxs, hf, gx, gy⟩ := lookupAll_mono tables hT hab hb
  obtain ⟨hle, hg⟩ := pySumStat_mono hf gx gy
  exact ⟨xs, hxs, config_value_mono hc hg hle⟩

/-- value-monotonicity of a target whose system stat is accumulated over the selected slots -/
theorem masked_value_mono {c : Config} (hc : ConfigOk c) (os : List (Option Stat)) (hos : ∀ o ∈ os, OptGood o)
    {a b : List Nat} (hab : List.Forall₂ (· ≤ ·) a b) :
    ∃ r r', accumulate Stat.zero (masked a os) = some r ∧ accumulate Stat.zero (masked b os) = some r' ∧
      c.value r ≤ c.value r' := by
  obtain ⟨r, r', h1, h2, hle, g, _⟩ := accumulate_masked_mono os hos hab good_zero good_zero (SLe.refl _)
  exact ⟨r, r', h1, h2, config_value_mono hc g hle⟩

/-! ### union squad / link skills: the system stat of a mask -/

theorem zip_map_self {α β : Type} (f : α → β) (l : List α) : l.zip (l.map f) = l.map fun x => (x, f x) := by
  induction l with
  | nil => rfl
  | cons x xs ih => simp [ih]

/-- the slot stats of a squad: `block.get_stat(size)` per block -/
def squadSlots (u : UnionSquad) : List (Option Stat) := (u.blocks.zip u.block_size).map fun p => p.1.get_stat p.2

theorem squad_get_stat_masked (u : UnionSquad) (hnd : ((u.blocks.zip u.block_size).map (·.1.job)).Nodup)
    (mask : List Nat) : (u.get_masked mask).get_stat = accumulate Stat.zero (masked mask (squadSlots u)) := by
  unfold UnionSquad.get_stat UnionSquad.get_masked squadSlots
  simp only
  rw [masked_zip, uniqueFold_nodup]
  · simp only [List.nil_append, List.map_map, masked_map]
    rfl
  · simp only [List.map_nil, List.nil_append]
    exact List.Nodup.sublist ((masked_sublist mask _).map _) hnd

/-- the slot stats of a link skill set -/
def linkSlots (l : LinkSkillset) : List (Option Stat) := (l.links.zip l.link_levels).map fun p => p.1.get_stat p.2

theorem link_get_stat_masked (l : LinkSkillset) (mask : List Nat) :
    (l.get_masked mask).get_stat = accumulate Stat.zero (masked mask (linkSlots l)) := by
  unfold LinkSkillset.get_stat LinkSkillset.get_masked linkSlots
  simp only
  rw [masked_zip, masked_map]

/-! ### facts about the generated tables of this run (kernel-checked), and what the property theorems of
`Props/C19_Targets.lean` need from them -/

/-- general: monotone in the character level everywhere -/
theorem hyperstat_budget_step (L : Int) :
    Hyperstat.get_maximum_cost_from_level L ≤ Hyperstat.get_maximum_cost_from_level (L + 1) := by
  unfold Hyperstat.get_maximum_cost_from_level Systems.Hyperstat.get_maximum_cost_from_level
    Systems.Hyperstat.get_maximum_cost_from_level.get_sumation_with_ten_step_unit
    Systems.Hyperstat.get_maximum_cost_from_level.get_character_level_point
  by_cases h1 : L < 140
  · by_cases h2 : L + 1 < 140
    · simp [h1, h2]
    · have : L = 139 := by omega
      subst this; decide
  · have h2 : ¬ (L + 1 < 140) := by omega
    simp only [h1, h2, if_false]
    obtain ⟨q, r, hL, hr0, hr9⟩ : ∃ q r : Int, L = 10 * q + r ∧ 0 ≤ r ∧ r ≤ 9 := ⟨L / 10, L % 10, by omega, by omega, by omega⟩
    have hq : 14 ≤ q := by omega
    have e1 : L / 10 = q := by omega
    have e2 : L % 10 = r := by omega
    have e0 : (140 : Int) / 10 = 14 := by decide
    by_cases hr : r = 9
    · have e3 : (L + 1) / 10 = q + 1 := by omega
      have e4 : (L + 1) % 10 = 0 := by omega
      rw [e1, e2, e3, e4, e0, hr]
      nlinarith
    · have e3 : (L + 1) / 10 = q := by omega
      have e4 : (L + 1) % 10 = r + 1 := by omega
      rw [e1, e2, e3, e4, e0]
      nlinarith

theorem tbl_hyperstat_tables_ok : ∀ o ∈ Systems.hyperstat_options,
    o.2.length = Systems.hyperstat_cost.length ∧ TableOk o.2 := by decide +kernel

theorem tbl_hyperstat_cost_cells_nonneg : ∀ c ∈ Systems.hyperstat_cost, 0 ≤ c := by decide +kernel

theorem kms_cost_nonneg : ∀ c ∈ kmsHyperstat.cost, 0 ≤ c := tbl_hyperstat_cost_cells_nonneg

theorem kms_tables_ok : ∀ t ∈ kmsHyperstat.options.map (·.2), TableOk t := by
  intro t ht
  obtain ⟨o, ho, rfl⟩ := List.mem_map.mp ht
  exact (tbl_hyperstat_tables_ok o ho).2

theorem hyperstat_problem_value {c : Config} {budget : Rat} {ss mi : Nat} {s : State} {v : Rat}
    (h : HyperstatTarget.get_value c kmsHyperstat s = some v) : (hyperstatProblem c budget ss mi).value s = v := by
  simp [hyperstatProblem, optOr0, h]

theorem hyperstat_problem_cost {c : Config} {budget : Rat} {ss mi : Nat} {s : State} {k : Int}
    (h : HyperstatTarget.get_cost kmsHyperstat s = some k) : (hyperstatProblem c budget ss mi).cost s = (k : Rat) := by
  simp [hyperstatProblem, optOr0, h]

/-- a state that costs less than `overflowCost` has every slot at level ≤ `topLevel` -/
theorem affordable_levels (s : State) (c : Int)
    (h : HyperstatTarget.get_cost kmsHyperstat s = some c) (hc : c < overflowCost) : ∀ lv ∈ s, lv ≤ topLevel := by
  rw [hyperstat_get_cost_eq] at h
  split at h
  · cases h
    intro lv hlv
    by_contra hcon
    have h1 := le_sum_map (f := kmsHyperstat.get_cost_for_level)
      (fun y _ => cost_for_level_nonneg kms_cost_nonneg y) hlv
    have h2 := cost_for_level_mono kms_cost_nonneg (topLevel + 1) lv (by omega)
    unfold overflowCost at hc
    omega
  · cases h

/-- an affordable state (budget below `overflowCost`) of the right length has levels ≤ 15 -/
theorem hyperstat_problem_affordable {c : Config} {budget : Rat} {ss mi : Nat} (hbud : budget < (overflowCost : Rat))
    {s : State} (hlen : s.length = kmsHyperstat.length)
    (hb : (hyperstatProblem c budget ss mi).cost s ≤ budget) : ∀ lv ∈ s, lv ≤ topLevel := by
  have hk : HyperstatTarget.get_cost kmsHyperstat s = some ((s.map kmsHyperstat.get_cost_for_level).sum) := by
    rw [hyperstat_get_cost_eq, if_pos hlen]
  rw [hyperstat_problem_cost hk] at hb
  have : (((s.map kmsHyperstat.get_cost_for_level).sum : Int) : Rat) < (overflowCost : Rat) := lt_of_le_of_lt hb hbud
  exact affordable_levels s _ hk (by exact_mod_cast this)

theorem tbl_unionSquad_blocks_ok : ∀ b ∈ allBlocks, OptGood (b.get_stat Systems.union_default_size) ∧
    OptGood (b.get_stat Systems.union_large_size) ∧ TableOk b.options := by decide +kernel

theorem tbl_unionSquad_jobs_nodup : (allBlocks.map (·.job)).Nodup := by decide +kernel

theorem squadSlots_ok (large : List String) : ∀ o ∈ squadSlots (createWithSomeLargeBlocks large), OptGood o := by
  intro o ho
  unfold squadSlots createWithSomeLargeBlocks at ho
  simp only [zip_map_self, List.map_map] at ho
  obtain ⟨b, hb, rfl⟩ := List.mem_map.mp ho
  have := tbl_unionSquad_blocks_ok b hb
  simp only [Function.comp_apply]
  split
  · exact this.2.1
  · exact this.1

theorem squad_nodup (large : List String) :
    (((createWithSomeLargeBlocks large).blocks.zip (createWithSomeLargeBlocks large).block_size).map
      (·.1.job)).Nodup := by
  unfold createWithSomeLargeBlocks
  simp only [zip_map_self, List.map_map]
  exact tbl_unionSquad_jobs_nodup

theorem unionSquad_get_value_eq (c : Config) (large : List String) (s : State) :
    UnionSquadTarget.get_value c (createWithSomeLargeBlocks large) s =
      (accumulate Stat.zero (masked s (squadSlots (createWithSomeLargeBlocks large)))).map c.value := by
  unfold UnionSquadTarget.get_value
  rw [squad_get_stat_masked _ (squad_nodup large)]

theorem tbl_linkSkill_slots_ok : ∀ o ∈ linkSlots kmsLinkSkillset, OptGood o := by decide +kernel

theorem tbl_linkSkill_tables_ok : ∀ l ∈ allLinkSkills, TableOk l.options := by decide +kernel

theorem linkSkill_get_value_eq (c : Config) (s : State) :
    LinkSkillTarget.get_value c kmsLinkSkillset s =
      (accumulate Stat.zero (masked s (linkSlots kmsLinkSkillset))).map c.value := by
  unfold LinkSkillTarget.get_value
  rw [link_get_stat_masked]

theorem tbl_unionOccupation_tables_ok : ∀ t ∈ Systems.union_occupation_values,
    t.length = maximumStep .unionOccupation + 1 ∧ TableOk (t.map (·.1)) := by decide +kernel

theorem unionOccupation_get_value_eq (c : Config) (s : State) :
    UnionOccupationTarget.get_value c defaultUnionOccupation s =
      if s.length = defaultUnionOccupation.length then
        (lookupAll (defaultUnionOccupation.occupation_value.map (·.map (·.1))) s).map fun xs => c.value (pySumStat xs)
      else none := by
  unfold UnionOccupationTarget.get_value UnionOccupation.get_occupation_rearranged
  by_cases hl : s.length = defaultUnionOccupation.length
  · simp only [hl, if_true, UnionOccupation.get_stat, Option.map_map, lookupAll_map]
    rfl
  · simp only [hl, if_false]

theorem occupation_tables_ok' : ∀ t ∈ defaultUnionOccupation.occupation_value.map (·.map (·.1)), TableOk t := by
  intro t ht
  obtain ⟨o, ho, rfl⟩ := List.mem_map.mp ht
  exact (tbl_unionOccupation_tables_ok o ho).2

theorem lookupAll_none_of_big {α : Type} : ∀ (tables : List (List α)) (s : List Nat) (m : Nat),
    (∀ t ∈ tables, t.length ≤ m + 1) → s.length ≤ tables.length → (∃ x ∈ s, m < x) →
      lookupAll tables s = none := by
  intro tables
  induction tables with
  | nil =>
    intro s m _ hl ⟨x, hx, _⟩
    cases s with
    | nil => cases hx
    | cons _ _ => simp at hl
  | cons t ts ih =>
    intro s m hT hl ⟨x, hx, hbig⟩
    cases s with
    | nil => cases hx
    | cons i is =>
      rw [lookupAll_cons]
      rcases List.mem_cons.mp hx with rfl | hx
      · have : t[x]? = none := by
          rw [List.getElem?_eq_none_iff]; have := hT t (List.mem_cons_self ..); omega
        rw [this]
      · rw [ih is m (fun t' h' => hT t' (List.mem_cons_of_mem _ h')) (by simpa using hl) ⟨x, hx, hbig⟩]
        cases t[i]? <;> rfl

/-- a configuration in the positive-damage domain: a STR logic, armour 300 with 85% ignore-defence -/
def exampleConfig : Config :=
  { default_stat := { STR := 12000, DEX := 2500, attack_power := 1500, critical_rate := 60, critical_damage := 40,
                      damage_multiplier := 120, boss_damage_multiplier := 150, ignored_defence := 85,
                      final_damage_multiplier := 10 },
    damage_logic := .str ⟨6 / 5, 9 / 10⟩ }

end Simaple.Proofs.Targets
