import Simaple.Model.Report
import Mathlib.Tactic.Linarith
import Mathlib.Tactic.Ring
import Mathlib.Algebra.Order.Field.Rat
/-! Helper lemmas for C13 (report layer): totals, per-skill sums, shares, event filtering. -/
namespace Simaple.Proofs.Report
open Simaple.Report Simaple.Py

variable {β : Type}

/-! ### left folds are sums -/

theorem foldl_add_map {α : Type} (f : α → Rat) (l : List α) (a : Rat) :
    l.foldl (fun t x => t + f x) a = a + (l.map f).sum := by
  induction l generalizing a with
  | nil => simp
  | cons x t ih => simp only [List.foldl_cons, List.map_cons, List.sum_cons, ih]; ring

theorem pySum_eq_sum (l : List Rat) : pySum l = l.sum := by
  have := foldl_add_map (fun x : Rat => x) l 0
  simpa [pySum] using this

theorem calculateDamage_eq_sum (dmg : DamageLog β → Rat) (en : SimulationEntry β) :
    calculateDamage dmg en = (en.damageLogs.map dmg).sum := by
  simp [calculateDamage, foldl_add_map]

/-- all damage logs of a run, in order -/
def allLogs (entries : List (SimulationEntry β)) : List (DamageLog β) :=
  entries.flatMap (·.damageLogs)

theorem total_eq_sum_allLogs (dmg : DamageLog β → Rat) (entries : List (SimulationEntry β)) :
    calculateTotalDamage dmg entries = ((allLogs entries).map dmg).sum := by
  unfold calculateTotalDamage allLogs
  rw [pySum_eq_sum]
  induction entries with
  | nil => simp
  | cons en t ih =>
    simp only [List.map_cons, List.sum_cons, List.flatMap_cons, List.map_append, List.sum_append, ih,
      calculateDamage_eq_sum]

/-! ### the per-skill dict -/

def dictTotal (d : List (String × Rat)) : Rat := (d.map (·.2)).sum

/-- `d.get(k, 0.0)` -/
def dictGet (d : List (String × Rat)) (k : String) : Rat :=
  match d.find? (fun kv => kv.1 = k) with
  | some kv => kv.2
  | none => 0

theorem dictTotal_dictAdd (d : List (String × Rat)) (k : String) (v : Rat) :
    dictTotal (dictAdd d k v) = dictTotal d + v := by
  induction d with
  | nil => simp [dictAdd, dictTotal]
  | cons kv t ih =>
    obtain ⟨k', v'⟩ := kv
    unfold dictAdd
    by_cases h : k' = k
    · simp only [h, if_true, dictTotal, List.map_cons, List.sum_cons]; ring
    · simp only [h, if_false]
      simp only [dictTotal, List.map_cons, List.sum_cons] at ih ⊢
      rw [ih]; ring

theorem dictGet_dictAdd (d : List (String × Rat)) (k : String) (v : Rat) (k0 : String) :
    dictGet (dictAdd d k v) k0 = if k0 = k then dictGet d k0 + v else dictGet d k0 := by
  induction d with
  | nil =>
    by_cases h : k0 = k
    · subst h; simp [dictAdd, dictGet]
    · have h' : ¬ k = k0 := fun e => h e.symm
      simp [dictAdd, dictGet, h, h']
  | cons kv t ih =>
    obtain ⟨k', v'⟩ := kv
    unfold dictAdd
    by_cases h : k' = k
    · subst h
      by_cases h0 : k0 = k'
      · subst h0; simp [dictGet]
      · have h' : ¬ k' = k0 := fun e => h0 e.symm
        simp [dictGet, h0, h']
    · simp only [h, if_false]
      by_cases h0 : k' = k0
      · subst h0
        have : ¬ k' = k := h
        simp [dictGet, this]
      · have e1 : dictGet ((k', v') :: dictAdd t k v) k0 = dictGet (dictAdd t k v) k0 := by
          simp [dictGet, h0]
        have e2 : dictGet ((k', v') :: t) k0 = dictGet t k0 := by
          simp [dictGet, h0]
        rw [e1, e2, ih]

theorem keys_dictAdd (d : List (String × Rat)) (k : String) (v : Rat) :
    (dictAdd d k v).map (·.1) = if k ∈ d.map (·.1) then d.map (·.1) else d.map (·.1) ++ [k] := by
  induction d with
  | nil => simp [dictAdd]
  | cons kv t ih =>
    obtain ⟨k', v'⟩ := kv
    unfold dictAdd
    by_cases h : k' = k
    · subst h; simp
    · have h' : ¬ k = k' := fun e => h e.symm
      simp only [h, if_false, List.map_cons, ih, List.mem_cons, h', false_or]
      split <;> simp

theorem nodup_keys_dictAdd {d : List (String × Rat)} (h : (d.map (·.1)).Nodup) (k : String) (v : Rat) :
    ((dictAdd d k v).map (·.1)).Nodup := by
  rw [keys_dictAdd]
  split
  · exact h
  · rename_i hk
    rw [List.nodup_append]
    refine ⟨h, by simp, ?_⟩
    intro a ha b hb
    simp only [List.mem_singleton] at hb
    subst hb
    intro e; subst e; exact hk ha

theorem mem_keys_dictAdd (d : List (String × Rat)) (k : String) (v : Rat) (k0 : String) :
    k0 ∈ (dictAdd d k v).map (·.1) ↔ k0 ∈ d.map (·.1) ∨ k0 = k := by
  rw [keys_dictAdd]
  split
  · rename_i hk
    constructor
    · exact Or.inl
    · rintro (h | h)
      · exact h
      · subst h; exact hk
  · simp

theorem nonneg_dictAdd {d : List (String × Rat)} (h : ∀ kv ∈ d, 0 ≤ kv.2) (k : String) {v : Rat} (hv : 0 ≤ v) :
    ∀ kv ∈ dictAdd d k v, 0 ≤ kv.2 := by
  induction d with
  | nil =>
    intro kv hkv
    simp only [dictAdd, List.mem_singleton] at hkv
    subst hkv; simpa using hv
  | cons kv0 t ih =>
    obtain ⟨k', v'⟩ := kv0
    have h0 : 0 ≤ v' := h (k', v') (List.mem_cons_self ..)
    have ht : ∀ kv ∈ t, 0 ≤ kv.2 := fun kv hkv => h kv (List.mem_cons_of_mem _ hkv)
    unfold dictAdd
    by_cases hk : k' = k
    · simp only [hk, if_true]
      intro kv hkv
      rcases List.mem_cons.mp hkv with e | e
      · subst e; exact add_nonneg h0 hv
      · exact ht kv e
    · simp only [hk, if_false]
      intro kv hkv
      rcases List.mem_cons.mp hkv with e | e
      · subst e; exact h0
      · exact ih ht kv e

/-- folding a list of logs into the dict -/
def addLogs (dmg : DamageLog β → Rat) (d : List (String × Rat)) (logs : List (DamageLog β)) :
    List (String × Rat) :=
  logs.foldl (fun d log => dictAdd d log.name (dmg log)) d

theorem shareSums_eq_addLogs (dmg : DamageLog β → Rat) (entries : List (SimulationEntry β)) :
    shareSums dmg entries = addLogs dmg [] (allLogs entries) := by
  unfold shareSums
  suffices h : ∀ d, entries.foldl (shareUpdate dmg) d = addLogs dmg d (allLogs entries) from h []
  induction entries with
  | nil => intro d; rfl
  | cons en t ih =>
    intro d
    rw [List.foldl_cons, ih]
    simp only [allLogs, List.flatMap_cons, addLogs, List.foldl_append, shareUpdate]

theorem dictTotal_addLogs (dmg : DamageLog β → Rat) (logs : List (DamageLog β)) (d : List (String × Rat)) :
    dictTotal (addLogs dmg d logs) = dictTotal d + (logs.map dmg).sum := by
  induction logs generalizing d with
  | nil => simp [addLogs]
  | cons l t ih =>
    have := ih (dictAdd d l.name (dmg l))
    simp only [addLogs, List.foldl_cons, List.map_cons, List.sum_cons] at this ⊢
    rw [this, dictTotal_dictAdd]; ring

theorem dictGet_addLogs (dmg : DamageLog β → Rat) (logs : List (DamageLog β)) (d : List (String × Rat))
    (k : String) :
    dictGet (addLogs dmg d logs) k = dictGet d k + ((logs.filter (fun l => l.name = k)).map dmg).sum := by
  induction logs generalizing d with
  | nil => simp [addLogs]
  | cons l t ih =>
    have := ih (dictAdd d l.name (dmg l))
    simp only [addLogs, List.foldl_cons] at this ⊢
    rw [this, dictGet_dictAdd]
    by_cases h : k = l.name
    · have h' : l.name = k := h.symm
      simp only [h, if_true, List.filter_cons, decide_true, List.map_cons, List.sum_cons]
      ring
    · have h' : ¬ l.name = k := fun e => h e.symm
      simp only [h, if_false, List.filter_cons, h', decide_false, Bool.false_eq_true]

theorem nodup_keys_addLogs (dmg : DamageLog β → Rat) (logs : List (DamageLog β)) {d : List (String × Rat)}
    (h : (d.map (·.1)).Nodup) : ((addLogs dmg d logs).map (·.1)).Nodup := by
  induction logs generalizing d with
  | nil => exact h
  | cons l t ih => exact ih (nodup_keys_dictAdd h _ _)

theorem mem_keys_addLogs (dmg : DamageLog β → Rat) (logs : List (DamageLog β)) (d : List (String × Rat))
    (k : String) :
    k ∈ (addLogs dmg d logs).map (·.1) ↔ k ∈ d.map (·.1) ∨ ∃ l ∈ logs, l.name = k := by
  induction logs generalizing d with
  | nil => simp [addLogs]
  | cons l t ih =>
    have := ih (dictAdd d l.name (dmg l))
    simp only [addLogs, List.foldl_cons] at this ⊢
    rw [this, mem_keys_dictAdd]
    simp only [List.mem_cons, exists_eq_or_imp]
    constructor
    · rintro ((h | h) | h)
      · exact Or.inl h
      · exact Or.inr (Or.inl h.symm)
      · exact Or.inr (Or.inr h)
    · rintro (h | h | h)
      · exact Or.inl (Or.inl h)
      · exact Or.inl (Or.inr h.symm)
      · exact Or.inr h

theorem nonneg_addLogs (dmg : DamageLog β → Rat) (logs : List (DamageLog β)) {d : List (String × Rat)}
    (h : ∀ kv ∈ d, 0 ≤ kv.2) (hd : ∀ l ∈ logs, 0 ≤ dmg l) : ∀ kv ∈ addLogs dmg d logs, 0 ≤ kv.2 := by
  induction logs generalizing d with
  | nil => exact h
  | cons l t ih =>
    exact ih (nonneg_dictAdd h _ (hd l (List.mem_cons_self ..))) (fun l' hl' => hd l' (List.mem_cons_of_mem _ hl'))

/-! ### shares -/

theorem sum_map_div (d : List (String × Rat)) (t : Rat) :
    ((d.map (fun kv => (kv.1, kv.2 / t))).map (·.2)).sum = dictTotal d / t := by
  induction d with
  | nil => simp [dictTotal]
  | cons kv r ih =>
    simp only [dictTotal, List.map_cons, List.sum_cons] at ih ⊢
    rw [ih]; ring

theorem shareCompute_ok {d : List (String × Rat)} (h : dictTotal d ≠ 0) :
    shareCompute d = .ok (d.map (fun kv => (kv.1, kv.2 / dictTotal d))) := by
  unfold shareCompute
  have : pySum (d.map (·.2)) = dictTotal d := pySum_eq_sum _
  cases d with
  | nil => simp [dictTotal] at h
  | cons kv t => simp only [this, h, if_false]

/-! ### event filtering -/

/-- the events that become damage logs -/
def Qualifies (ev : Event β) : Prop :=
  (ev.tag = Tag.DAMAGE ∨ ev.tag = Tag.DOT) ∧ ev.damage ≠ 0 ∧ ev.hit ≠ 0

instance (ev : Event β) : Decidable (Qualifies ev) := by unfold Qualifies; infer_instance

/-- the buff in force for an event: the entry's buff plus the event's own modifier -/
def buffInForce (add : β → β → β) (buff : β) (ev : Event β) : β :=
  match ev.modifier with
  | some m => add buff m
  | none => buff

/-- the log of a qualifying event -/
def logOf (add : β → β → β) (buff : β) (ev : Event β) : DamageLog β :=
  { name := ev.name, damage := ev.damage, hit := ev.hit, buff := buffInForce add buff ev, tag := ev.tag }

/-- what one event adds to the total -/
def contribution (add : β → β → β) (dmg : DamageLog β → Rat) (buff : β) (ev : Event β) : Rat :=
  if Qualifies ev then dmg (logOf add buff ev) else 0

theorem createDamageLog_eq (add : β → β → β) (ev : Event β) (buff : β) :
    createDamageLog add ev buff = if Qualifies ev then some (logOf add buff ev) else none := by
  unfold createDamageLog Qualifies
  by_cases h1 : ev.tag = Tag.DAMAGE ∨ ev.tag = Tag.DOT
  · by_cases h2 : ev.damage = 0 ∨ ev.hit = 0
    · have : ¬ (ev.damage ≠ 0 ∧ ev.hit ≠ 0) := by
        rintro ⟨a, b⟩; rcases h2 with h | h
        · exact a h
        · exact b h
      simp [h1, h2, this]
    · have hd : ev.damage ≠ 0 := fun h => h2 (Or.inl h)
      have hh : ev.hit ≠ 0 := fun h => h2 (Or.inr h)
      simp [h1, hd, hh, logOf, buffInForce]
      cases ev.modifier <;> rfl
  · simp [h1]

theorem build_logs_eq (add : β → β → β) (pl : PlayLog β) (buff : β) :
    (SimulationEntry.build add pl buff).damageLogs
      = (pl.events.filter (fun ev => decide (Qualifies ev))).map (logOf add buff) := by
  unfold SimulationEntry.build
  simp only
  induction pl.events with
  | nil => rfl
  | cons ev t ih =>
    rw [List.filterMap_cons, createDamageLog_eq, List.filter_cons]
    by_cases h : Qualifies ev
    · simp only [h, if_true, decide_true, List.map_cons, ih]
    · simp only [h, if_false, decide_false, Bool.false_eq_true, ih]

theorem sum_filter_map_eq_sum_contribution (add : β → β → β) (dmg : DamageLog β → Rat) (buff : β)
    (evs : List (Event β)) :
    (((evs.filter (fun ev => decide (Qualifies ev))).map (logOf add buff)).map dmg).sum
      = (evs.map (contribution add dmg buff)).sum := by
  induction evs with
  | nil => rfl
  | cons ev t ih =>
    rw [List.filter_cons]
    by_cases h : Qualifies ev
    · simp only [h, decide_true, if_true, List.map_cons, List.sum_cons, ih, contribution]
    · simp only [h, decide_false, Bool.false_eq_true, if_false, List.map_cons, List.sum_cons, ih, contribution,
        zero_add]

end Simaple.Proofs.Report
