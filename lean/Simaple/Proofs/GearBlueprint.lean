/-
Helper lemmas for the blueprint half of C17: `build` written as one sum, non-negativity of the scrolled gear.
Uses the commutative-monoid theorems of the generated `Stat` (Props/C11).
-/
import Simaple.Model.GearBlueprint
import Simaple.Proofs.Starforce
import Simaple.Props.C11

namespace Simaple.Proofs.GearBlueprint
open Simaple.Gen Simaple.Model.Starforce Simaple.Model.GearBlueprint Simaple.Props.C11

theorem pySum_eq_sum (xs : List Stat) : pySum xs = Stat.sum xs := by
  rw [pySum, stat_sum_eq_foldl]

theorem scrolled_eq (bp : Blueprint) :
    scrolled bp = bp.base.add ((Stat.sum bp.spell_traces).add (Stat.sum bp.scrolls)) := by
  rw [scrolled, stat_iadd_eq_add, pySum_eq_sum, pySum_eq_sum]

/-- the composed stat, given the star-force part -/
def composed (bp : Blueprint) (sf : SF) : Stat :=
  ((((bp.base.add ((Stat.sum bp.spell_traces).add (Stat.sum bp.scrolls))).add (SF.toStat sf)).add
    (Stat.sum bp.bonuses)).add (bp.exceptional.getD Stat.zero))

theorem build_eq (bp : Blueprint) :
    build bp =
      match calculate_improvement bp.meta (SF.ofStat (scrolled bp)) bp.star with
      | .error e => .error e
      | .ok sf => .ok (composed bp sf) := by
  unfold build
  simp only [← scrolled.eq_1]
  cases h : calculate_improvement bp.meta (SF.ofStat (scrolled bp)) bp.star with
  | error e => rfl
  | ok sf =>
    simp only [composed]
    cases he : bp.exceptional with
    | none =>
      simp only [Option.getD_none, stat_add_zero, stat_iadd_eq_add, pySum_eq_sum, scrolled_eq]
    | some e =>
      simp only [Option.getD_some, stat_iadd_eq_add, pySum_eq_sum, scrolled_eq]

/-- the eight fields star force reads are non-negative -/
def StatNonneg (s : Stat) : Prop :=
  0 ≤ s.STR ∧ 0 ≤ s.DEX ∧ 0 ≤ s.INT ∧ 0 ≤ s.LUK ∧ 0 ≤ s.attack_power ∧ 0 ≤ s.magic_attack ∧
  0 ≤ s.MHP ∧ 0 ≤ s.MMP
instance (s : Stat) : Decidable (StatNonneg s) := by unfold StatNonneg; infer_instance

theorem statNonneg_zero : StatNonneg Stat.zero := by
  simp only [StatNonneg, Stat.zero]; decide

theorem statNonneg_add {a b : Stat} (ha : StatNonneg a) (hb : StatNonneg b) : StatNonneg (a.add b) := by
  obtain ⟨a1, a2, a3, a4, a5, a6, a7, a8⟩ := ha
  obtain ⟨b1, b2, b3, b4, b5, b6, b7, b8⟩ := hb
  simp only [StatNonneg, Stat.add]
  exact ⟨Rat.add_nonneg a1 b1, Rat.add_nonneg a2 b2, Rat.add_nonneg a3 b3, Rat.add_nonneg a4 b4,
    Rat.add_nonneg a5 b5, Rat.add_nonneg a6 b6, Rat.add_nonneg a7 b7, Rat.add_nonneg a8 b8⟩

theorem statNonneg_foldl {xs : List Stat} (h : ∀ x ∈ xs, StatNonneg x) {acc : Stat} (ha : StatNonneg acc) :
    StatNonneg (xs.foldl Stat.add acc) := by
  induction xs generalizing acc with
  | nil => simpa using ha
  | cons x xs ih =>
    simp only [List.foldl]
    exact ih (fun y hy => h y (List.mem_cons_of_mem _ hy)) (statNonneg_add ha (h x (by simp)))

theorem statNonneg_pySum {xs : List Stat} (h : ∀ x ∈ xs, StatNonneg x) : StatNonneg (pySum xs) :=
  statNonneg_foldl h statNonneg_zero

theorem ofStat_nonneg {s : Stat} (h : StatNonneg s) : (SF.ofStat s).nonneg := by
  obtain ⟨h1, h2, h3, h4, h5, h6, h7, h8⟩ := h
  simp only [SF.nonneg, SF.le, SF.zero, SF.ofStat]
  refine ⟨?_, ?_, ?_, ?_, ?_, ?_, ?_, ?_⟩ <;> (rw [Rat.le_floor_iff]; simpa)

/-- well-formed blueprint: non-negative level requirement; base stat, spell traces and scrolls have
    non-negative STR/DEX/INT/LUK/attack/magic attack/MHP/MMP -/
def WFB (bp : Blueprint) : Prop :=
  0 ≤ bp.meta.req_level ∧ StatNonneg bp.base ∧ (∀ x ∈ bp.spell_traces, StatNonneg x) ∧
  (∀ x ∈ bp.scrolls, StatNonneg x)
instance (bp : Blueprint) : Decidable (WFB bp) := by unfold WFB; infer_instance

theorem scrolled_nonneg {bp : Blueprint} (h : WFB bp) : StatNonneg (scrolled bp) := by
  obtain ⟨_, hb, ht, hs⟩ := h
  rw [scrolled, stat_iadd_eq_add]
  exact statNonneg_add hb (statNonneg_add (statNonneg_pySum ht) (statNonneg_pySum hs))

theorem wf_of_wfb {bp : Blueprint} (h : WFB bp) :
    Simaple.Proofs.Starforce.WF bp.meta (SF.ofStat (scrolled bp)) :=
  ⟨h.1, ofStat_nonneg (scrolled_nonneg h)⟩

theorem starCutoff_le (m : Meta) (star : Int) : starCutoff m star ≤ maxStar m := by
  unfold starCutoff; split <;> omega

theorem toGeneralized_wfb {p : Practical} (hl : 0 ≤ p.meta.req_level) (hb : StatNonneg p.base)
    (ht : ∀ x, p.spell_trace = some x → StatNonneg x) (hs : ∀ x, p.scroll = some x → StatNonneg x) :
    WFB p.toGeneralized := by
  refine ⟨hl, hb, ?_, ?_⟩
  · intro x hx
    simp only [Practical.toGeneralized] at hx
    cases h : p.spell_trace with
    | none => simp [h] at hx
    | some s => simp [h] at hx; rw [hx.2]; exact ht s h
  · intro x hx
    simp only [Practical.toGeneralized] at hx
    cases h : p.spell_trace with
    | some s => simp [h] at hx
    | none =>
      cases h2 : p.scroll with
      | none => simp [h, h2] at hx
      | some s => simp [h, h2] at hx; rw [hx.2]; exact hs s h2

end Simaple.Proofs.GearBlueprint
