import Simaple.Proofs.Engine
/-! helper lemmas about the response extraction and the incremental runner (core Lean only) -/
namespace Simaple.Engine

section
variable {σ τ ρ : Type}
variable (P : Action → σ → σ × List Event)
variable (save : σ → τ)
variable (load : τ → σ)
variable (clock : σ → Rat)
variable (view : σ → String → String)
variable (hash : OpLog τ → String)
variable (t0 : τ)
variable (render : PlayLog τ → ρ)
variable (dummy : τ)

/-- responses of consecutive logs, numbered from `base` -/
def respFrom : Nat → List (OpLog τ) → List (OpResp τ ρ)
  | _, [] => []
  | base, l :: ls => respOf hash render base l :: respFrom (base + 1) ls

theorem respFrom_length (logs : List (OpLog τ)) : ∀ base, (respFrom hash render base logs).length = logs.length := by
  induction logs with
  | nil => intro _; rfl
  | cons l ls ih => intro b; simp [respFrom, ih]

theorem respFrom_append (A B : List (OpLog τ)) : ∀ base,
    respFrom hash render base (A ++ B) = respFrom hash render base A ++ respFrom hash render (base + A.length) B := by
  induction A with
  | nil => intro b; simp [respFrom]
  | cons a as ih =>
    intro b
    simp only [List.cons_append, respFrom, ih, List.length_cons]
    have : b + 1 + as.length = b + (as.length + 1) := by omega
    rw [this]

theorem respFrom_take (logs : List (OpLog τ)) : ∀ base j,
    (respFrom hash render base logs).take j = respFrom hash render base (logs.take j) := by
  induction logs with
  | nil => intro b j; simp [respFrom]
  | cons l ls ih =>
    intro b j
    cases j with
    | zero => simp [respFrom]
    | succ j => simp [respFrom, ih]

theorem respFrom_getElem? (logs : List (OpLog τ)) : ∀ base i l, logs[i]? = some l →
    (respFrom hash render base logs)[i]? = some (respOf hash render (base + i) l) := by
  induction logs with
  | nil => intro b i l h; simp at h
  | cons a as ih =>
    intro b i l h
    cases i with
    | zero => simp at h; subst h; simp [respFrom]
    | succ i =>
      simp at h
      simp only [respFrom, List.getElem?_cons_succ]
      rw [ih (b + 1) i l h]; congr 2; omega

theorem extract_eq_aux (start : Nat) (logs : List (OpLog τ)) : ∀ base,
    ((logs.zipIdx base).filter (fun p => decide (start ≤ p.2))).map (fun p => respOf hash render p.2 p.1)
      = (respFrom hash render base logs).drop (start - base) := by
  induction logs with
  | nil => intro b; simp [respFrom]
  | cons l ls ih =>
    intro b
    simp only [List.zipIdx_cons, List.filter_cons, respFrom]
    by_cases h : start ≤ b
    · have h0 : start - b = 0 := by omega
      have h1 : start - (b + 1) = 0 := by omega
      have := ih (b + 1)
      rw [h1] at this
      simp only [List.drop_zero] at this
      simp [h, h0, this]
    · have : start - b = (start - (b + 1)) + 1 := by omega
      simp [h, this, ih (b + 1)]

/-- `_extract_engine_history_as_response(engine, start)` drops the first `start` responses -/
theorem extractFrom_eq (start : Nat) (logs : List (OpLog τ)) :
    extractFrom hash render start logs = (respFrom hash render 0 logs).drop start := by
  have := extract_eq_aux hash render start logs 0
  simpa [extractFrom] using this

/-- restoring a response that kept its checkpoints gives the log back -/
theorem restore_respOf (i : Nat) (l : OpLog τ) (hi : i % 10 = 0) :
    restoreLog dummy (respOf hash render i l) = l := by
  cases l with
  | mk c pls d p =>
    simp only [restoreLog, respOf, hi, if_true, List.map_map]
    congr 1
    induction pls with
    | nil => rfl
    | cons x xs ih => simp [ih]

theorem containsCkpt_respOf (i : Nat) (l : OpLog τ) (h : containsCkpt (respOf hash render i l) = true) :
    i % 10 = 0 ∧ l.playlogs ≠ [] := by
  simp only [containsCkpt, respOf, Bool.and_eq_true, decide_eq_true_eq, List.length_map] at h
  obtain ⟨h1, h2⟩ := h
  have hne : l.playlogs ≠ [] := by intro e; rw [e] at h2; simp at h2
  refine ⟨?_, hne⟩
  cases hp : l.playlogs with
  | nil => exact absurd hp hne
  | cons x xs =>
    rw [hp] at h1
    by_cases hi : i % 10 = 0
    · exact hi
    · simp [hi] at h1

theorem cacheCount_spec : ∀ (cs ps : List Command) (hs : List (OpResp τ ρ)),
    cs.take (cacheCount cs ps hs) = ps.take (cacheCount cs ps hs) ∧
    cacheCount cs ps hs ≤ ps.length ∧ cacheCount cs ps hs ≤ cs.length ∧ cacheCount cs ps hs ≤ hs.length := by
  intro cs
  induction cs with
  | nil => intro ps hs; simp [cacheCount]
  | cons c cs ih =>
    intro ps hs
    cases ps with
    | nil => simp [cacheCount]
    | cons p ps =>
      cases hs with
      | nil => simp [cacheCount]
      | cons h hs =>
        simp only [cacheCount]
        by_cases h1 : p ≠ h.command
        · simp [h1]
        · by_cases h2 : c = p
          · have := ih ps hs
            simp only [h1, if_false, h2, if_true, List.take_succ_cons, List.length_cons]
            exact ⟨by rw [this.1], by omega, by omega, by omega⟩
          · simp [h1, h2]

theorem walkBack_le (hist : List (OpResp τ ρ)) : ∀ n, walkBack hist n ≤ n := by
  intro n
  induction n with
  | zero => simp [walkBack]
  | succ n ih =>
    simp only [walkBack]
    split
    · split
      · omega
      · omega
    · omega

theorem walkBack_spec (hist : List (OpResp τ ρ)) : ∀ n,
    walkBack hist n = 0 ∨ ∃ r, hist[walkBack hist n]? = some r ∧ containsCkpt r = true := by
  intro n
  induction n with
  | zero => left; simp [walkBack]
  | succ n ih =>
    simp only [walkBack]
    split
    · rename_i r hr
      split
      · rename_i hc; right; exact ⟨r, hr, hc⟩
      · exact ih
    · exact ih

/-! two histories that end in the same log (with at least one playlog) evolve identically -/

def Rel (A B : List (OpLog τ)) : Prop :=
  lastCkpt t0 A = lastCkpt t0 B ∧ lastEvents A = lastEvents B ∧ lastHash hash A = lastHash hash B

theorem lastPL_snoc (A : List (OpLog τ)) (l : OpLog τ) :
    (allPL (A ++ [l])).getLast? = if l.playlogs = [] then (allPL A).getLast? else l.playlogs.getLast? := by
  by_cases h : l.playlogs = []
  · simp [h, allPL_append_nil]
  · simp only [h, if_false]
    cases hg : l.playlogs.getLast? with
    | none => simp [List.getLast?_eq_none_iff] at hg; exact absurd hg h
    | some pl => exact allPL_append_last A l pl hg

theorem rel_snoc (A B : List (OpLog τ)) (l : OpLog τ) (h : Rel hash t0 A B) :
    Rel hash t0 (A ++ [l]) (B ++ [l]) := by
  obtain ⟨h1, h2, _⟩ := h
  refine ⟨?_, ?_, ?_⟩
  · simp only [lastCkpt, lastPL_snoc]
    by_cases hp : l.playlogs = []
    · simp only [hp, if_true]; exact h1
    · simp only [hp, if_false]
  · simp only [lastEvents, lastPL_snoc]
    by_cases hp : l.playlogs = []
    · simp only [hp, if_true]; exact h2
    · simp only [hp, if_false]
  · simp [lastHash]

theorem rel_same_last (A B : List (OpLog τ)) (l : OpLog τ) (hl : l.playlogs ≠ []) :
    Rel hash t0 (A ++ [l]) (B ++ [l]) := by
  refine ⟨?_, ?_, ?_⟩
  · simp only [lastCkpt, lastPL_snoc, hl, if_false]
  · simp only [lastEvents, lastPL_snoc, hl, if_false]
  · simp [lastHash]

theorem stepL_rel (A B : List (OpLog τ)) (c : Command) (h : Rel hash t0 A B) :
    ∃ l, stepL P save load clock view hash t0 A c = A ++ [l] ∧ stepL P save load clock view hash t0 B c = B ++ [l] := by
  obtain ⟨h1, h2, h3⟩ := h
  unfold stepL
  by_cases hc : c.kind = .console
  · simp only [hc, if_true, h1, h3]; exact ⟨_, rfl, rfl⟩
  · simp only [hc, if_false, h1, h2, h3]; exact ⟨_, rfl, rfl⟩

theorem fold_rel (cs : List Command) : ∀ (A B : List (OpLog τ)), Rel hash t0 A B →
    ∃ S, cs.foldl (stepL P save load clock view hash t0) A = A ++ S ∧
         cs.foldl (stepL P save load clock view hash t0) B = B ++ S := by
  induction cs with
  | nil => intro A B _; exact ⟨[], by simp, by simp⟩
  | cons c cs ih =>
    intro A B h
    obtain ⟨l, ha, hb⟩ := stepL_rel P save load clock view hash t0 A B c h
    obtain ⟨S, sa, sb⟩ := ih (A ++ [l]) (B ++ [l]) (rel_snoc hash t0 A B l h)
    refine ⟨l :: S, ?_, ?_⟩
    · simp only [List.foldl, ha, sa]; simp
    · simp only [List.foldl, hb, sb]; simp

end
end Simaple.Engine
