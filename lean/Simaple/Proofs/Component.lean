import Simaple.Model.Component
/-! per-class lemmas about the L2 component models (core Lean only) -/
namespace Simaple.Comp
open Simaple.Entity

theorem cooldown_min_nonneg (c : Cooldown) : 0 ≤ c.minimumTimeToAvailable := by
  unfold Cooldown.minimumTimeToAvailable; omega

theorem invalidate_valid (d : Bool) (v : Validity) (h : (invalidateIfDisabled d v).valid = true) : v.valid = true := by
  unfold invalidateIfDisabled at h
  cases d <;> simp at h ⊢; exact h

theorem invalidate_timeLeft (d : Bool) (v : Validity) : (invalidateIfDisabled d v).timeLeft = v.timeLeft := by
  unfold invalidateIfDisabled; cases d <;> rfl

end Simaple.Comp
