/-
C12 helper lemmas, part 2: `ActionStat.calculate_cooldown` (generated) split into its two stages
(percent reduction with the 1 s floor, then flat reduction with the 10 s taper and the 5 s floor)
and the order facts about each stage.
-/
import Simaple.Gen.Core
import Simaple.Proofs.C12Basic

namespace Simaple.Proofs.C12
open Simaple.Gen Simaple.Py

/-- stage 1 of `calculate_cooldown`: the value the Python code calls `cd`
    ("쿨감%부터 적용, 최소 1초까지": percent first, down to one second at most) -/
def cdPercent (original rate : Rat) : Rat :=
  if original * (1 - (1 / 100) * rate) ≤ 1000 then pyMin original 1000
  else original * (1 - (1 / 100) * rate)

/-- stage 2 of `calculate_cooldown`, as a function of `cd` and the flat reduction -/
def cdFlat (cd reduce : Rat) : Rat :=
  if cd - reduce ≤ 10000 then
    pyMax (pyMin 10000 cd * (1 - ((reduce - (cd - pyMin 10000 cd)) / 1000) * (1 / 20))) (pyMin cd 5000)
  else pyMax (cd - reduce) (pyMin cd 5000)

/-- the generated definition is literally stage 2 after stage 1 -/
theorem calculate_cooldown_eq (a : ActionStat) (o : Rat) :
    a.calculate_cooldown o = cdFlat (cdPercent o a.cooltime_reduce_rate) a.cooltime_reduce := by
  unfold ActionStat.calculate_cooldown cdFlat cdPercent
  split <;> rfl

/-! ### stage 1 -/

theorem cdPercent_ge_floor (o r : Rat) : min o 1000 ≤ cdPercent o r := by
  unfold cdPercent
  split
  · rw [pyMin_eq]
  · next h => exact le_trans (min_le_right _ _) (le_of_lt (not_le.mp h))

theorem cdPercent_le (o r : Rat) (ho : 0 ≤ o) (hr : 0 ≤ r) : cdPercent o r ≤ o := by
  unfold cdPercent
  split
  · rw [pyMin_eq]; exact min_le_left _ _
  · nlinarith [mul_nonneg ho hr]

theorem cdPercent_nonneg (o r : Rat) (ho : 0 ≤ o) : 0 ≤ cdPercent o r :=
  le_trans (le_min ho (by norm_num)) (cdPercent_ge_floor o r)

/-- closed form of stage 1 -/
theorem cdPercent_eq_max (o r : Rat) (ho : 0 ≤ o) (hr : 0 ≤ r) :
    cdPercent o r = max (o * (1 - (1 / 100) * r)) (min o 1000) := by
  have hp : o * (1 - (1 / 100) * r) ≤ o := by nlinarith [mul_nonneg ho hr]
  unfold cdPercent
  split
  · next h => rw [pyMin_eq, max_eq_right (le_min hp h)]
  · next h =>
    rw [max_eq_left]
    exact le_trans (min_le_right _ _) (le_of_lt (not_le.mp h))

/-- more percent reduction never gives a larger `cd` -/
theorem cdPercent_antitone (o r r' : Rat) (ho : 0 ≤ o) (hr : 0 ≤ r) (hrr : r ≤ r') :
    cdPercent o r' ≤ cdPercent o r := by
  rw [cdPercent_eq_max o r ho hr, cdPercent_eq_max o r' ho (le_trans hr hrr)]
  apply max_le_max _ le_rfl
  nlinarith [mul_le_mul_of_nonneg_left hrr ho]

/-! ### stage 2 -/

theorem cdFlat_ge_floor (c f : Rat) : min c 5000 ≤ cdFlat c f := by
  unfold cdFlat
  split
  · rw [pyMax_eq, pyMin_eq c 5000]; exact le_max_right _ _
  · rw [pyMax_eq, pyMin_eq c 5000]; exact le_max_right _ _

/-- closed form of stage 2 below the 10 s threshold: 5 % less per second of flat reduction -/
theorem cdFlat_low (c f : Rat) (hc : c ≤ 10000) (hf : 0 ≤ f) :
    cdFlat c f = max (c * (1 - f / 20000)) (min c 5000) := by
  unfold cdFlat
  rw [if_pos (by linarith)]
  simp only [pyMax_eq, pyMin_eq, min_eq_right hc]
  congr 1
  ring

/-- closed form of stage 2 above the 10 s threshold -/
theorem cdFlat_high (c f : Rat) (hc : 10000 < c) :
    cdFlat c f = max (max (c - f) (5000 + (c - f) / 2)) 5000 := by
  unfold cdFlat
  simp only [pyMax_eq, pyMin_eq, min_eq_left (le_of_lt hc),
    min_eq_right (show (5000 : Rat) ≤ c by linarith)]
  split
  · next h =>
    have e : (10000 : Rat) * (1 - ((f - (c - 10000)) / 1000) * (1 / 20)) = 5000 + (c - f) / 2 := by ring
    rw [e, max_eq_right (show c - f ≤ 5000 + (c - f) / 2 by linarith)]
  · next h =>
    have h' : 10000 < c - f := not_le.mp h
    rw [max_eq_left (show 5000 + (c - f) / 2 ≤ c - f by linarith)]

theorem cdFlat_le (c f : Rat) (hc : 0 ≤ c) (hf : 0 ≤ f) : cdFlat c f ≤ c := by
  rcases le_or_gt c 10000 with h | h
  · rw [cdFlat_low c f h hf]
    apply max_le _ (min_le_left _ _)
    nlinarith [mul_nonneg hc hf]
  · rw [cdFlat_high c f h]
    refine max_le (max_le ?_ ?_) ?_ <;> linarith

/-- more flat reduction never gives a longer cooldown (any `cd ≥ 0`) -/
theorem cdFlat_antitone_flat (c f f' : Rat) (hc : 0 ≤ c) (hf : 0 ≤ f) (hff : f ≤ f') :
    cdFlat c f' ≤ cdFlat c f := by
  rcases le_or_gt c 10000 with h | h
  · rw [cdFlat_low c f h hf, cdFlat_low c f' h (le_trans hf hff)]
    apply max_le_max _ le_rfl
    nlinarith [mul_le_mul_of_nonneg_left hff hc]
  · rw [cdFlat_high c f h, cdFlat_high c f' h]
    apply max_le_max _ le_rfl
    apply max_le_max <;> linarith

/-- a larger `cd` never gives a shorter cooldown (fixed flat reduction) -/
theorem cdFlat_mono_cd (c c' f : Rat) (hc : 0 ≤ c) (hcc : c ≤ c') (hf : 0 ≤ f) :
    cdFlat c f ≤ cdFlat c' f := by
  rcases le_or_gt c' 10000 with h' | h'
  · -- both below the threshold
    have h : c ≤ 10000 := le_trans hcc h'
    rw [cdFlat_low c f h hf, cdFlat_low c' f h' hf]
    apply max_le
    · rcases le_or_gt f 20000 with hf2 | hf2
      · apply le_max_of_le_left
        have : 0 ≤ 1 - f / 20000 := by linarith
        exact mul_le_mul_of_nonneg_right hcc this
      · apply le_max_of_le_right
        have h1 : c * (1 - f / 20000) ≤ 0 := by
          apply mul_nonpos_of_nonneg_of_nonpos hc; linarith
        exact le_trans h1 (le_min (le_trans hc hcc) (by norm_num))
    · exact le_max_of_le_right (min_le_min hcc le_rfl)
  · rcases le_or_gt c 10000 with h | h
    · -- across the threshold
      rw [cdFlat_low c f h hf, cdFlat_high c' f h']
      apply max_le
      · rcases le_or_gt f 10000 with hf2 | hf2
        · apply le_max_of_le_left; apply le_max_of_le_right
          nlinarith [mul_nonneg (show (0:Rat) ≤ 10000 - c by linarith) (show (0:Rat) ≤ 20000 - f by linarith)]
        · apply le_max_of_le_right
          nlinarith [mul_nonneg hc (show (0:Rat) ≤ f - 10000 by linarith)]
      · exact le_max_of_le_right (min_le_right _ _)
    · rw [cdFlat_high c f h, cdFlat_high c' f h']
      apply max_le_max _ le_rfl
      apply max_le_max <;> linarith

/-- a cooldown that is already at most 5 s after the percent stage is used as it is
    ("단 이미 스킬쿨이 5초 아래였을 경우 그대로 사용") -/
theorem cdFlat_short (c f : Rat) (hc : 0 ≤ c) (hc5 : c ≤ 5000) (hf : 0 ≤ f) : cdFlat c f = c := by
  rw [cdFlat_low c f (by linarith) hf, min_eq_left hc5]
  apply max_eq_right
  nlinarith [mul_nonneg hc hf]

theorem cdFlat_zero (c : Rat) : cdFlat c 0 = c := by
  rcases le_or_gt c 10000 with h | h
  · rw [cdFlat_low c 0 h le_rfl]
    simp
  · rw [cdFlat_high c 0 h]
    simp only [sub_zero]
    rw [max_eq_left (by linarith : 5000 + c / 2 ≤ c), max_eq_left (by linarith : (5000 : Rat) ≤ c)]

end Simaple.Proofs.C12
