import Simaple.Model.Entity
/-!
# `Periodic.elapse` is chunk independent

Copied from DESIGN.md Appendix A (checked at design time); only the field `counter` is renamed to
`intervalCounter`, `count` is an `Int`, and the structure has the extra constant field `initialCounter`.
The definitions `step`, `run`, `elapse`, `WF` live in `Model/Entity.lean`.
-/
namespace Simaple.Entity
namespace Periodic
theorem step_wf (s : Periodic) (t : Int) (h : s.WF) : (s.step t).1.WF := by
  unfold WF step at *
  simp only []
  split
  · exact h
  · split
    · exact h
    · split <;> simp <;> omega

theorem step_dec (s : Periodic) (t : Int) (h : s.WF) (ht : 0 < t) :
    (s.step t).2 < t ∧ 0 ≤ (s.step t).2 := by
  unfold WF step at *
  simp only []
  split
  · simp; omega
  · split
    · simp; omega
    · split <;> simp <;> omega

/-- counter is dead once the timer has expired -/
def Equiv (a b : Periodic) : Prop :=
  a.interval = b.interval ∧ a.initialCounter = b.initialCounter ∧ a.timeLeft = b.timeLeft ∧ a.count = b.count ∧
    (0 < a.timeLeft → a.intervalCounter = b.intervalCounter)

theorem Equiv.refl (a : Periodic) : Equiv a a := ⟨rfl, rfl, rfl, rfl, fun _ => rfl⟩

theorem run_nonpos (n : Nat) (s : Periodic) (t : Int) (ht : t ≤ 0) : run n s t = s := by
  cases n <;> simp [run, ht]

/-- any two sufficient fuels agree -/
theorem run_fuel2 (n : Nat) : ∀ (m : Nat) (s : Periodic) (t : Int), s.WF → t.toNat ≤ n → t.toNat ≤ m →
    run n s t = run m s t := by
  induction n with
  | zero =>
    intro m s t _ h _
    have : t ≤ 0 := by omega
    simp [run_nonpos _ _ _ this]
  | succ n ih =>
    intro m s t hw h hm
    by_cases ht : t ≤ 0
    · simp [run_nonpos _ _ _ ht]
    · have hpos : 0 < t := by omega
      have hd := step_dec s t hw hpos
      have hw' := step_wf s t hw
      cases m with
      | zero => omega
      | succ m =>
        simp only [run, ht, if_false]
        exact ih _ _ _ hw' (by omega) (by omega)

theorem run_fuel (n : Nat) (s : Periodic) (t : Int) (hw : s.WF) (h : t.toNat ≤ n) :
    run n s t = run t.toNat s t := run_fuel2 n _ s t hw h (Nat.le_refl _)

theorem elapse_unfold (s : Periodic) (t : Int) (hw : s.WF) (ht : 0 < t) :
    elapse s t = elapse (s.step t).1 (s.step t).2 := by
  unfold elapse
  obtain ⟨k, hk⟩ : ∃ k, t.toNat = k + 1 := ⟨t.toNat - 1, by omega⟩
  have hd := step_dec s t hw ht
  rw [hk]
  simp only [run, show ¬ t ≤ 0 by omega, if_false]
  exact run_fuel _ _ _ (step_wf s t hw) (by omega)

theorem elapse_nonpos (s : Periodic) (t : Int) (ht : t ≤ 0) : elapse s t = s := by
  unfold elapse; exact run_nonpos _ _ _ ht

theorem elapse_wf (s : Periodic) (t : Int) (hw : s.WF) : (elapse s t).WF := by
  unfold elapse
  generalize t.toNat = n
  induction n generalizing s t with
  | zero => simpa [run]
  | succ n ih =>
    simp only [run]
    split
    · exact hw
    · exact ih _ _ (step_wf s t hw)

/-- elapse respects the equivalence -/
theorem step_equiv (a b : Periodic) (t : Int) (h : Equiv a b) :
    Equiv (a.step t).1 (b.step t).1 ∧ (a.step t).2 = (b.step t).2 := by
  obtain ⟨h1, h0, h2, h3, h4⟩ := h
  by_cases hl : a.timeLeft ≤ 0
  · have hl' : b.timeLeft ≤ 0 := by omega
    simp [step, hl, hl', Equiv, h1, h0, h2, h3]
    intro hh; omega
  · have hc := h4 (by omega)
    have : a = b := by
      cases a; cases b; simp_all
    subst this
    exact ⟨Equiv.refl _, rfl⟩

theorem run_equiv (n : Nat) : ∀ (a b : Periodic) (t : Int), Equiv a b →
    Equiv (run n a t) (run n b t) := by
  induction n with
  | zero => intro a b t h; simpa [run]
  | succ n ih =>
    intro a b t h
    simp only [run]
    split
    · exact h
    · have := step_equiv a b t h
      rw [← this.2]
      exact ih _ _ _ this.1

theorem elapse_equiv (a b : Periodic) (t : Int) (h : Equiv a b) :
    Equiv (elapse a t) (elapse b t) := run_equiv _ _ _ _ h

theorem Equiv.trans {a b c : Periodic} (h1 : Equiv a b) (h2 : Equiv b c) : Equiv a c := by
  obtain ⟨a1, a0, a2, a3, a4⟩ := h1
  obtain ⟨b1, b0, b2, b3, b4⟩ := h2
  refine ⟨by omega, a0.trans b0, by omega, by omega, ?_⟩
  intro h
  rw [a4 h, b4 (by omega)]


/-- Case A: the first chunk is not exhausted by the first step: the step does not see the extra time. -/
theorem step_more (s : Periodic) (a b : Int) (hw : s.WF) (ha : 0 < a) (hb : 0 ≤ b)
    (h : 0 < (s.step a).2) : s.step (a + b) = ((s.step a).1, (s.step a).2 + b) := by
  unfold WF at hw
  unfold step at *
  simp only [] at *
  split at h
  · simp at h
  · rename_i hl
    split at h
    · simp at h
    · rename_i hne
      have hm : min s.intervalCounter (min s.timeLeft a) < a := by
        split at h <;> simp at h <;> omega
      have hmm : min s.intervalCounter (min s.timeLeft (a + b)) = min s.intervalCounter (min s.timeLeft a) := by omega
      simp only [hl, if_false, hmm, hne]
      split <;> simp <;> omega

/-- Case B: the first chunk ends exactly at (or before) the first step boundary. -/
theorem step_exact (s : Periodic) (a b : Int) (hw : s.WF) (ha : 0 < a) (hb : 0 < b)
    (h : (s.step a).2 = 0) :
    Equiv (elapse (s.step a).1 b) (elapse (s.step (a + b)).1 (s.step (a + b)).2) := by
  by_cases hl : s.timeLeft ≤ 0
  · -- dead timer: everything is the identity
    have e1 : s.step a = (s, 0) := by simp [step, hl]
    have e2 : s.step (a + b) = (s, 0) := by simp [step, hl]
    have e3 : s.step b = (s, 0) := by simp [step, hl]
    rw [e1, e2]; simp only []
    rw [elapse_unfold s b hw hb, e3, elapse_nonpos _ _ (Int.le_refl 0)]
    exact Equiv.refl _
  · by_cases hx : s.timeLeft - min s.intervalCounter (min s.timeLeft a) = 0
    · -- expires inside the first chunk
      have e1 : s.step a = ({ s with timeLeft := 0 }, 0) := by simp [step, hl, hx]
      have hx' : s.timeLeft - min s.intervalCounter (min s.timeLeft (a + b)) = 0 := by omega
      have e2 : s.step (a + b) = ({ s with timeLeft := 0 }, 0) := by simp [step, hl, hx']
      rw [e1, e2]; simp only []
      have hw' : ({ s with timeLeft := 0 } : Periodic).WF := hw
      have e3 : ({ s with timeLeft := 0 } : Periodic).step b = ({ s with timeLeft := 0 }, 0) := by
        simp [step]
      rw [elapse_unfold _ b hw' hb, e3, elapse_nonpos _ _ (Int.le_refl 0)]
      exact Equiv.refl _
    · -- not expired, so the step consumed exactly `a`
      have hm : min s.intervalCounter (min s.timeLeft a) = a := by
        unfold step at h; simp only [hl, if_false, hx] at h
        split at h <;> simp at h <;> omega
      unfold WF at hw
      have hLa : ¬ s.timeLeft - a = 0 := by rw [hm] at hx; exact hx
      by_cases hc : s.intervalCounter - a = 0
      · -- tick exactly at the chunk boundary
        have e1 : s.step a = ({ s with intervalCounter := s.interval, timeLeft := s.timeLeft - a, count := s.count + 1 }, 0) := by
          simp [step, hl, hm, hc]; omega
        have hm' : min s.intervalCounter (min s.timeLeft (a + b)) = a := by omega
        have e2 : s.step (a + b) = ({ s with intervalCounter := s.interval, timeLeft := s.timeLeft - a, count := s.count + 1 }, b) := by
          simp [step, hl, hm', hc, hLa]; omega
        rw [e1, e2]
        exact Equiv.refl _
      · -- chunk boundary strictly inside an interval: re-split the next step
        have e1 : s.step a = ({ s with intervalCounter := s.intervalCounter - a, timeLeft := s.timeLeft - a }, 0) := by
          simp [step, hl, hm, hc]; omega
        rw [e1]; simp only []
        have hw' : ({ s with intervalCounter := s.intervalCounter - a, timeLeft := s.timeLeft - a } : Periodic).WF := by
          unfold WF; simp; omega
        rw [elapse_unfold _ b hw' hb]
        have key : Equiv (({ s with intervalCounter := s.intervalCounter - a, timeLeft := s.timeLeft - a } : Periodic).step b).1 (s.step (a + b)).1 ∧
            (({ s with intervalCounter := s.intervalCounter - a, timeLeft := s.timeLeft - a } : Periodic).step b).2 = (s.step (a + b)).2 := by
          have hL : ¬ (s.timeLeft - a ≤ 0) := by omega
          have hmm : min s.intervalCounter (min s.timeLeft (a + b)) = a + min (s.intervalCounter - a) (min (s.timeLeft - a) b) := by omega
          unfold step
          simp only [hl, hL, if_false, hmm]
          by_cases q1 : s.timeLeft - a - min (s.intervalCounter - a) (min (s.timeLeft - a) b) = 0
          · have q1' : s.timeLeft - (a + min (s.intervalCounter - a) (min (s.timeLeft - a) b)) = 0 := by omega
            simp [q1, q1', Equiv]
          · have q1' : ¬ s.timeLeft - (a + min (s.intervalCounter - a) (min (s.timeLeft - a) b)) = 0 := by omega
            by_cases q2 : s.intervalCounter - a - min (s.intervalCounter - a) (min (s.timeLeft - a) b) = 0
            · have q2' : s.intervalCounter - (a + min (s.intervalCounter - a) (min (s.timeLeft - a) b)) = 0 := by omega
              simp [q1, q1', q2, q2', Equiv]; omega
            · have q2' : ¬ s.intervalCounter - (a + min (s.intervalCounter - a) (min (s.timeLeft - a) b)) = 0 := by omega
              simp [q1, q1', q2, q2', Equiv]; omega
        rw [key.2]
        exact elapse_equiv _ _ _ key.1

/-- chunk independence of `Periodic.elapse` (state part) -/
theorem elapse_add (n : Nat) : ∀ (s : Periodic) (a b : Int), s.WF → a.toNat ≤ n → 0 ≤ a → 0 ≤ b →
    Equiv (elapse (elapse s a) b) (elapse s (a + b)) := by
  induction n with
  | zero =>
    intro s a b _ hn ha _
    have : a = 0 := by omega
    subst this
    simp [elapse_nonpos s 0 (Int.le_refl 0)]
    exact Equiv.refl _
  | succ n ih =>
    intro s a b hw hn ha hb
    by_cases ha0 : a = 0
    · subst ha0
      simp [elapse_nonpos s 0 (Int.le_refl 0)]
      exact Equiv.refl _
    by_cases hb0 : b = 0
    · subst hb0
      simp [elapse_nonpos _ 0 (Int.le_refl 0)]
      exact Equiv.refl _
    have hap : 0 < a := by omega
    have hbp : 0 < b := by omega
    have hd := step_dec s a hw hap
    rw [elapse_unfold s a hw hap, elapse_unfold s (a + b) hw (by omega)]
    by_cases hr : 0 < (s.step a).2
    · rw [step_more s a b hw hap hb hr]
      exact ih _ _ _ (step_wf s a hw) (by omega) (by omega) hb
    · have hz : (s.step a).2 = 0 := by omega
      rw [hz, elapse_nonpos _ 0 (Int.le_refl 0)]
      exact step_exact s a b hw hap hbp hz

/-! ### additions to Appendix A: symmetry, the other methods respect `Equiv`, tick counts -/

theorem Equiv.symm {a b : Periodic} (h : Equiv a b) : Equiv b a := by
  obtain ⟨h1, h0, h2, h3, h4⟩ := h
  exact ⟨h1.symm, h0.symm, h2.symm, h3.symm, fun hp => (h4 (by omega)).symm⟩

/-- equivalent running periodics are equal -/
theorem Equiv.eq_of_enabled {a b : Periodic} (h : Equiv a b) (hp : 0 < a.timeLeft) : a = b := by
  obtain ⟨h1, h0, h2, h3, h4⟩ := h
  have := h4 hp
  cases a; cases b; simp_all

/-- an expired periodic does not move -/
theorem elapse_expired (s : Periodic) (t : Int) (h : s.timeLeft ≤ 0) : elapse s t = s := by
  unfold elapse
  generalize t.toNat = n
  induction n generalizing t with
  | zero => rfl
  | succ n ih =>
    simp only [run]
    split
    · rfl
    · have e : s.step t = (s, 0) := by simp [step, h]
      rw [e]; exact ih 0

theorem elapse_zero (s : Periodic) : elapse s 0 = s := elapse_nonpos s 0 (Int.le_refl 0)

/-- the views of a periodic (`enabled`, `time_left`, `count`) do not see the dead counter -/
theorem Equiv.enabled {a b : Periodic} (h : Equiv a b) : a.enabled = b.enabled := by
  simp [Periodic.enabled, h.2.2.1]
theorem Equiv.timeLeft {a b : Periodic} (h : Equiv a b) : a.timeLeft = b.timeLeft := h.2.2.1
theorem Equiv.count {a b : Periodic} (h : Equiv a b) : a.count = b.count := h.2.2.2.1

theorem Equiv.setTimeLeft {a b : Periodic} (h : Equiv a b) (t : Int) : a.setTimeLeft t = b.setTimeLeft t := by
  obtain ⟨h1, h0, h2, h3, h4⟩ := h
  unfold Periodic.setTimeLeft
  rw [h0]
  split
  · rfl
  · split
    · split
      · rfl
      · cases a; cases b; simp_all
    · cases a; cases b; simp_all

theorem Equiv.setTimeLeftWithoutDelay {a b : Periodic} (h : Equiv a b) (t : Int) :
    a.setTimeLeftWithoutDelay t = b.setTimeLeftWithoutDelay t := by
  obtain ⟨h1, h0, h2, h3, h4⟩ := h
  unfold Periodic.setTimeLeftWithoutDelay
  cases a; cases b; simp_all

theorem Equiv.setIntervalCounter {a b : Periodic} (h : Equiv a b) (c : Int) :
    Equiv (a.setIntervalCounter c) (b.setIntervalCounter c) := by
  obtain ⟨h1, h0, h2, h3, h4⟩ := h
  exact ⟨h1, h0, h2, h3, fun _ => rfl⟩

theorem Equiv.disable {a b : Periodic} (h : Equiv a b) : Equiv a.disable b.disable := by
  obtain ⟨h1, h0, h2, h3, h4⟩ := h
  refine ⟨h1, h0, rfl, h3, ?_⟩
  intro hp; simp [Periodic.disable] at hp

theorem Equiv.elapseCount {a b : Periodic} (h : Equiv a b) (t : Int) : a.elapseCount t = b.elapseCount t := by
  unfold Periodic.elapseCount
  rw [(elapse_equiv a b t h).count, h.count]

/-- chunk independence, without the fuel parameter -/
theorem elapse_add' (s : Periodic) (a b : Int) (hw : s.WF) (ha : 0 ≤ a) (hb : 0 ≤ b) :
    Equiv (elapse (elapse s a) b) (elapse s (a + b)) :=
  elapse_add a.toNat s a b hw (Nat.le_refl _) ha hb

/-- tick counts add up -/
theorem elapseCount_add (s : Periodic) (a b : Int) (hw : s.WF) (ha : 0 ≤ a) (hb : 0 ≤ b) :
    s.elapseCount (a + b) = s.elapseCount a + (s.elapse a).elapseCount b := by
  have h := (elapse_add' s a b hw ha hb).count
  unfold Periodic.elapseCount
  omega

/-- `count` never decreases -/
theorem step_count_le (s : Periodic) (t : Int) : s.count ≤ (s.step t).1.count := by
  unfold step
  simp only []
  split
  · exact Int.le_refl _
  · split
    · exact Int.le_refl _
    · split <;> simp
      omega

theorem run_count_le (n : Nat) : ∀ (s : Periodic) (t : Int), s.count ≤ (run n s t).count := by
  induction n with
  | zero => intro s t; exact Int.le_refl _
  | succ n ih =>
    intro s t
    simp only [run]
    split
    · exact Int.le_refl _
    · exact Int.le_trans (step_count_le s t) (ih _ _)

theorem elapseCount_nonneg (s : Periodic) (t : Int) : 0 ≤ s.elapseCount t := by
  have := run_count_le t.toNat s t
  unfold Periodic.elapseCount elapse
  omega

end Periodic
end Simaple.Entity
