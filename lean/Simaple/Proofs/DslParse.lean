import Simaple.Proofs.DslLex
/-! Lemmas about the token-level parser of the plan DSL (C14): grouping, chunking, the exact
characterisation of the derivations of a decorated plan (`layout_exact`). -/
namespace Simaple.Dsl

/-! ### group -/

theorem group_gap_append (g : List GTok) (ts : List Tok) :
    group (g.map GTok.toTok ++ ts) = (g ++ (group ts).1, (group ts).2) := by
  induction g with
  | nil => rfl
  | cons a g ih =>
    cases a <;> simp [group, GTok.toTok, ih]

theorem group_itemToks (items : List (Atom × List GTok)) : group (itemToks items) = ([], items) := by
  induction items with
  | nil => rfl
  | cons x r ih =>
    obtain ⟨a, g⟩ := x
    cases a <;> simp [itemToks, group, Atom.toTok, group_gap_append, ih]

theorem group_toksOf (lead : List GTok) (ls : List DLine) :
    group (toksOf lead ls) = (lead, itemsOf ls) := by
  simp [toksOf, group_gap_append, group_itemToks]

/-! ### chunk -/

/-- the phrase of a command with its gaps -/
def cmdPhrase (cmd : RawCmd) (g1 g2 after : List GTok) : Phrase :=
  ⟨cmd, innerFits cmd g1 g2,
   (match cmd with | .time c t => if c == ['x'] then some (t, g1) else none | _ => none), after⟩

def linePhrases (l : DLine) : List Phrase :=
  (match l.mult with
   | some m => [⟨.time ['x'] m.tok, gapFits patWS m.gapA, some (m.tok, m.gapA), m.gapB⟩]
   | none => []) ++ [cmdPhrase l.cmd l.g1 l.g2 l.after]

def phrasesOf : List DLine → List Phrase
  | [] => []
  | l :: ls => linePhrases l ++ phrasesOf ls

/-- an item list that does not start with a number -/
def noNumHead : List (Atom × List GTok) → Prop
  | (.num _, _) :: _ => False
  | _ => True

theorem noNumHead_cmdAtoms (cmd : RawCmd) (g1 g2 after : List GTok) (r : List (Atom × List GTok)) :
    noNumHead (cmdAtoms cmd g1 g2 after ++ r) := by
  cases cmd <;> simp [cmdAtoms, noNumHead]

theorem noNumHead_itemsOf (ls : List DLine) : noNumHead (itemsOf ls) := by
  cases ls with
  | nil => simp [itemsOf, noNumHead]
  | cons l ls =>
    simp only [itemsOf, lineAtoms]
    cases l.mult with
    | none => simpa using noNumHead_cmdAtoms l.cmd l.g1 l.g2 l.after (itemsOf ls)
    | some m => simp [noNumHead]

theorem chunk_skill (c n : Text) (g1 g2 : List GTok) (r : List (Atom × List GTok)) (h : noNumHead r) :
    chunk ((.word c, g1) :: (.str n, g2) :: r) =
      (chunk r).map (⟨.skill c n, gapFits patWS g1, none, g2⟩ :: ·) := by
  match r, h with
  | [], _ => simp [chunk]
  | (.word _, _) :: _, _ => simp [chunk]
  | (.str _, _) :: _, _ => simp [chunk]
  | (.debug, _) :: _, _ => simp [chunk]

theorem chunk_cmdAtoms (cmd : RawCmd) (g1 g2 after : List GTok) (r : List (Atom × List GTok))
    (h : noNumHead r) :
    chunk (cmdAtoms cmd g1 g2 after ++ r) = (chunk r).map (cmdPhrase cmd g1 g2 after :: ·) := by
  cases cmd with
  | full c n t => simp [cmdAtoms, chunk, cmdPhrase, innerFits]
  | skill c n => simp [cmdAtoms, chunk_skill _ _ _ _ _ h, cmdPhrase, innerFits]
  | time c t => simp [cmdAtoms, chunk, cmdPhrase, innerFits]
  | console s => simp [cmdAtoms, chunk, cmdPhrase, innerFits]

theorem chunk_itemsOf (ls : List DLine) : chunk (itemsOf ls) = some (phrasesOf ls) := by
  induction ls with
  | nil => rfl
  | cons l ls ih =>
    simp only [itemsOf, lineAtoms, phrasesOf, linePhrases]
    cases l.mult with
    | none =>
      simp only [List.nil_append]
      rw [chunk_cmdAtoms _ _ _ _ _ (noNumHead_itemsOf ls), ih]; rfl
    | some m =>
      simp only [List.cons_append, List.nil_append]
      rw [chunk]
      rw [chunk_cmdAtoms _ _ _ _ _ (noNumHead_itemsOf ls), ih]; simp

/-! ### derivations -/

theorem tailD_cons (p : Phrase) (ps : List Phrase) (after : List GTok) :
    tailD (p :: ps) after = derivsP patNL after (p :: ps) := by
  cases ps <;> rfl

theorem plainReading_nil (base : Pat) (before : List GTok) (p : Phrase) :
    plainReading base before p [] = [] := by
  simp [plainReading]

theorem derivsP_dead {g : List GTok} (h1 : gapFits patNL g = false)
    (h2 : gapFits (patNL ++ patOWS) g = false) (ps : List Phrase) : derivsP patNL g ps = [] := by
  have hl : ∀ p : Phrase, gapFits (patNL ++ leadExtra p.cmd) g = false := by
    intro p; unfold leadExtra; split
    · exact h2
    · simpa using h1
  have hm : ∀ (p q : Phrase) (k : List Deriv), multReading patNL g p q k = [] := by
    intro p q k; unfold multReading; split
    · simp [h1]
    · rfl
  match ps with
  | [] => rfl
  | [p] => simp [derivsP, plainReading, hl p]
  | p :: q :: qs => simp [derivsP, plainReading, hl p, hm]

theorem phrasesOf_cons (l : DLine) (ls : List DLine) :
    ∃ p ps, phrasesOf (l :: ls) = p :: ps := by
  simp only [phrasesOf, linePhrases]
  cases l.mult <;> simp

theorem tailD_phrasesOf_cons (after : List GTok) (l : DLine) (ls : List DLine) :
    tailD (phrasesOf (l :: ls)) after = derivsP patNL after (phrasesOf (l :: ls)) := by
  obtain ⟨p, ps, h⟩ := phrasesOf_cons l ls
  rw [h, tailD_cons]

theorem cmdPhrase_xnum_none {cmd : RawCmd} (g1 g2 after : List GTok)
    (h : (match cmd with | .time c _ => c != ['x'] | _ => true) = true) :
    (cmdPhrase cmd g1 g2 after).xnum = none := by
  cases cmd with
  | time c t =>
    simp only [bne_iff_ne, ne_eq] at h
    simp [cmdPhrase, h]
  | _ => rfl

theorem multReading_none {p : Phrase} (h : p.xnum = none) (base : Pat) (before : List GTok)
    (q : Phrase) (k : List Deriv) : multReading base before p q k = [] := by
  simp [multReading, h]

/-- the derivations of a phrase list that starts with the phrase of a line without multiplier -/
theorem derivsP_plain_line (base : Pat) (before : List GTok) (cp : Phrase) (rest : List Phrase)
    (hx : cp.xnum = none) :
    derivsP base before (cp :: rest) = plainReading base before cp (tailD rest cp.after) := by
  cases rest with
  | nil => rfl
  | cons q qs => simp [derivsP, multReading_none hx]

theorem layout_exact (ls : List DLine) (hun : ∀ l ∈ ls, unamb l = true) :
    ∀ (base : Pat) (before : List GTok),
      derivsP base before (phrasesOf ls) = if layoutOk base before ls then [expand ls] else [] := by
  induction ls with
  | nil => intro base before; rfl
  | cons l ls ih =>
    intro base before
    have hl := hun l (List.mem_cons_self ..)
    have ih' := ih (fun x hx => hun x (List.mem_cons_of_mem _ hx))
    -- the continuation after this line
    have hcont : tailD (phrasesOf ls) l.after =
        match ls with
        | [] => endD l.after
        | _ :: _ => if layoutOk patNL l.after ls then [expand ls] else [] := by
      cases ls with
      | nil => rfl
      | cons l' ls' => rw [tailD_phrasesOf_cons, ih']
    have e1 : (cmdPhrase l.cmd l.g1 l.g2 l.after).innerOk = innerFits l.cmd l.g1 l.g2 := rfl
    have e2 : (cmdPhrase l.cmd l.g1 l.g2 l.after).cmd = l.cmd := rfl
    have e3 : (cmdPhrase l.cmd l.g1 l.g2 l.after).after = l.after := rfl
    simp only [phrasesOf, linePhrases]
    cases hm : l.mult with
    | none =>
      simp only [unamb, hm] at hl
      simp only [List.nil_append, List.cons_append]
      rw [derivsP_plain_line _ _ _ _ (cmdPhrase_xnum_none _ _ _ hl), e3, hcont]
      simp only [plainReading, e1, e2]
      cases ls with
      | nil =>
        simp only [layoutOk, leadPat, hm, lineFits, expand, expandLine, Bool.and_true, endD]
        by_cases h1 : innerFits l.cmd l.g1 l.g2 = true <;>
        by_cases h2 : gapFits (base ++ leadExtra l.cmd) before = true <;>
        by_cases h3 : gapFits patNone l.after = true <;> simp [h1, h2, h3, consD]
      | cons l' ls' =>
        simp only [layoutOk, leadPat, hm, lineFits, expand, expandLine, Bool.and_true]
        by_cases h1 : innerFits l.cmd l.g1 l.g2 = true <;>
        by_cases h2 : gapFits (base ++ leadExtra l.cmd) before = true <;>
        by_cases h3 : layoutOk patNL l.after (l' :: ls') = true <;> simp [h1, h2, h3, expand]
    | some m =>
      simp only [unamb, hm, Bool.and_eq_true, Bool.not_eq_true'] at hl
      simp only [List.cons_append, List.nil_append]
      rw [derivsP, tailD_cons, derivsP_dead hl.1 hl.2, plainReading_nil, List.nil_append, e3, hcont]
      simp only [multReading, e1, e2]
      cases ls with
      | nil =>
        simp only [layoutOk, leadPat, hm, lineFits, expand, expandLine, endD]
        by_cases h1 : innerFits l.cmd l.g1 l.g2 = true <;>
        by_cases h2 : gapFits base before = true <;>
        by_cases h3 : gapFits patNone l.after = true <;>
        by_cases h4 : gapFits patNone m.gapA = true <;>
        by_cases h5 : gapFits patOWS m.gapB = true <;>
        by_cases h6 : l.cmd.isOp = true <;> simp [h1, h2, h3, h4, h5, h6]
      | cons l' ls' =>
        simp only [layoutOk, leadPat, hm, lineFits, expand, expandLine]
        by_cases h1 : innerFits l.cmd l.g1 l.g2 = true <;>
        by_cases h2 : gapFits base before = true <;>
        by_cases h3 : layoutOk patNL l.after (l' :: ls') = true <;>
        by_cases h4 : gapFits patNone m.gapA = true <;>
        by_cases h5 : gapFits patOWS m.gapB = true <;>
        by_cases h6 : l.cmd.isOp = true <;> simp [h1, h2, h3, h4, h5, h6, expand]

end Simaple.Dsl
