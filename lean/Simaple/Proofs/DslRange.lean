import Simaple.Proofs.DslRuntime
/-! Helper lemmas for the C14 theorems: operations in range as token-level commands, the canonical
single line, the multiplier line. -/
namespace Simaple.Dsl

/-- the raw (token-level) command of an operation in range -/
theorem InRange.raw {ν : NumModel} {o : Operation ν} (h : InRange ν o) :
    ∃ r : RawCmd, rawOk r = true ∧ r.isOp = true ∧ renderRaw r = o.expr ∧ interp ν r = .op o := by
  cases h with
  | @full c n t hc hn ht =>
    refine ⟨.full c n (ν.repr t), by simp [rawOk, hc, hn, ht.tok], rfl, rfl, ?_⟩
    simp [interp, ht.roundtrip]
  | @time c t hc ht =>
    refine ⟨.time c (ν.repr t), by simp [rawOk, hc, ht.tok], rfl, rfl, ?_⟩
    simp [interp, ht.roundtrip]
  | @skill c n hc hn =>
    exact ⟨.skill c n, by simp [rawOk, hc, hn], rfl, rfl, rfl⟩

/-- … and its time, if it has one, is finite -/
theorem InRange.raw' {ν : NumModel} {o : Operation ν} (h : InRange ν o) :
    ∃ r : RawCmd, rawOk r = true ∧ r.isOp = true ∧ renderRaw r = o.expr ∧ interp ν r = .op o ∧
      timeFinite ν r = true := by
  cases h with
  | @full c n t hc hn ht =>
    refine ⟨.full c n (ν.repr t), by simp [rawOk, hc, hn, ht.tok], rfl, rfl, ?_, ?_⟩
    · simp [interp, ht.roundtrip]
    · simp [timeFinite, ht.roundtrip, ht.fin]
  | @time c t hc ht =>
    refine ⟨.time c (ν.repr t), by simp [rawOk, hc, ht.tok], rfl, rfl, ?_, ?_⟩
    · simp [interp, ht.roundtrip]
    · simp [timeFinite, ht.roundtrip, ht.fin]
  | @skill c n hc hn =>
    exact ⟨.skill c n, by simp [rawOk, hc, hn], rfl, rfl, rfl, rfl⟩

/-- a single command in the canonical layout parses to itself (also for the command word `x`) -/
theorem parse_single (r : RawCmd) (h : rawOk r = true) : parseRaw (renderRaw r) = .ok [r] := by
  have hsep : separated (rawToks r) = true := by
    have := separated_rawToks h (R := []) rfl (Or.inl rfl)
    simpa using this
  unfold parseRaw parseRawWith
  rw [← unlex_rawToks, lex_unlex _ hsep]
  cases r <;> rfl

theorem separated_multLine {m : Text} {k : Int} (hm : pyInt m = some k) {r : RawCmd}
    (hr : rawOk r = true) : separated (toksOf [] [multLine m r]) = true := by
  obtain ⟨c, cs, rfl, hc, hnum⟩ := pyInt_shape hm
  obtain ⟨d, hd, hw⟩ := rawToks_head hr []
  have hsepr : separated (rawToks r) = true := by
    have := separated_rawToks hr (R := []) rfl (Or.inl rfl)
    simpa using this
  have htoks : toksOf [] [multLine (c :: cs) r] =
      Tok.word ['x'] :: Tok.num (c :: cs) :: Tok.white [' '] :: rawToks r := by
    cases r <;> rfl
  rw [htoks]
  simp only [separated, unlex, Bool.and_eq_true]
  refine ⟨?_, ?_, ?_, hsepr⟩
  · simp [okTok, wordOk, unlexTok, nextOk, hc]
  · simp [okTok, hnum, unlexTok, nextOk]; decide
  · simp only [List.append_nil] at hd
    simp [okTok, hd, nextOk, hw, show isWsChar ' ' = true by decide]

theorem CmdInRange.raw {ν : NumModel} {c : Command ν} (h : CmdInRange ν c) :
    ∃ r : RawCmd, rawOk r = true ∧ rawXfree r = true ∧ renderRaw r = renderCmd c ∧ interp ν r = c := by
  cases h with
  | @op o ho hx =>
    cases ho with
    | @full c n t hc hn ht =>
      refine ⟨.full c n (ν.repr t), by simp [rawOk, hc, hn, ht.tok], rfl, rfl, ?_⟩
      simp [interp, ht.roundtrip]
    | @time c t hc ht =>
      refine ⟨.time c (ν.repr t), by simp [rawOk, hc, ht.tok], ?_, rfl, ?_⟩
      · simpa [rawXfree, mkTime] using hx
      · simp [interp, ht.roundtrip]
    | @skill c n hc hn =>
      exact ⟨.skill c n, by simp [rawOk, hc, hn], rfl, rfl, rfl⟩
  | @console s hs => exact ⟨.console s, by simpa [rawOk] using hs, rfl, rfl, rfl⟩

theorem CmdInRange.raw' {ν : NumModel} {c : Command ν} (h : CmdInRange ν c) :
    ∃ r : RawCmd, rawOk r = true ∧ rawXfree r = true ∧ renderRaw r = renderCmd c ∧ interp ν r = c ∧
      timeFinite ν r = true := by
  cases h with
  | @op o ho hx =>
    cases ho with
    | @full c n t hc hn ht =>
      refine ⟨.full c n (ν.repr t), by simp [rawOk, hc, hn, ht.tok], rfl, rfl, ?_, ?_⟩
      · simp [interp, ht.roundtrip]
      · simp [timeFinite, ht.roundtrip, ht.fin]
    | @time c t hc ht =>
      refine ⟨.time c (ν.repr t), by simp [rawOk, hc, ht.tok], ?_, rfl, ?_, ?_⟩
      · simpa [rawXfree, mkTime] using hx
      · simp [interp, ht.roundtrip]
      · simp [timeFinite, ht.roundtrip, ht.fin]
    | @skill c n hc hn =>
      exact ⟨.skill c n, by simp [rawOk, hc, hn], rfl, rfl, rfl, rfl⟩
  | @console s hs => exact ⟨.console s, by simpa [rawOk] using hs, rfl, rfl, rfl, rfl⟩

theorem cmds_raw' {ν : NumModel} : ∀ (cmds : List (Command ν)), (∀ c ∈ cmds, CmdInRange ν c) →
    ∃ rs : List RawCmd, (∀ r ∈ rs, rawOk r = true) ∧ (∀ r ∈ rs, rawXfree r = true) ∧
      rs.map renderRaw = cmds.map renderCmd ∧ rs.map (interp ν) = cmds ∧ rs.length = cmds.length ∧
      rs.all (timeFinite ν) = true
  | [], _ => ⟨[], by simp, by simp, rfl, rfl, rfl, rfl⟩
  | c :: cs, h => by
    obtain ⟨r, h1, h2, h3, h4, h5⟩ := (h c (by simp)).raw'
    obtain ⟨rs, g1, g2, g3, g4, g5, g6⟩ := cmds_raw' cs (fun x hx => h x (List.mem_cons_of_mem _ hx))
    refine ⟨r :: rs, ?_, ?_, by simp [h3, g3], by simp [h4, g4], by simp [g5], by simp [h5, g6]⟩
    · intro x hx; rcases List.mem_cons.mp hx with rfl | hx
      · exact h1
      · exact g1 x hx
    · intro x hx; rcases List.mem_cons.mp hx with rfl | hx
      · exact h2
      · exact g2 x hx

theorem interpAll_ok {ν : NumModel} {rs : List RawCmd} (h : rs.all (timeFinite ν) = true) :
    interpAll ν rs = .ok (rs.map (interp ν)) := by
  simp [interpAll, h]

theorem cmds_raw {ν : NumModel} : ∀ (cmds : List (Command ν)), (∀ c ∈ cmds, CmdInRange ν c) →
    ∃ rs : List RawCmd, (∀ r ∈ rs, rawOk r = true) ∧ (∀ r ∈ rs, rawXfree r = true) ∧
      rs.map renderRaw = cmds.map renderCmd ∧ rs.map (interp ν) = cmds ∧ rs.length = cmds.length
  | [], _ => ⟨[], by simp, by simp, rfl, rfl, rfl⟩
  | c :: cs, h => by
    obtain ⟨r, h1, h2, h3, h4⟩ := (h c (by simp)).raw
    obtain ⟨rs, g1, g2, g3, g4, g5⟩ := cmds_raw cs (fun x hx => h x (List.mem_cons_of_mem _ hx))
    refine ⟨r :: rs, ?_, ?_, by simp [h3, g3], by simp [h4, g4], by simp [g5]⟩
    · intro x hx; rcases List.mem_cons.mp hx with rfl | hx
      · exact h1
      · exact g1 x hx
    · intro x hx; rcases List.mem_cons.mp hx with rfl | hx
      · exact h2
      · exact g2 x hx

theorem canonLine_lead_none (r : RawCmd) (after : List GTok) :
    gapFits (leadPat patNone (canonLine r after)) [] = true := by
  cases r <;> rfl

theorem canonLine_lead_hdr (r : RawCmd) (after : List GTok) :
    gapFits (leadPat patHdr (canonLine r after)) [.white ['\n']] = true := by
  cases r <;> rfl

theorem canonLines_head_is_canon : ∀ (rs : List RawCmd) (l : DLine) (ls : List DLine),
    canonLines rs = l :: ls → ∃ r after, l = canonLine r after
  | [], _, _, h => by simp [canonLines] at h
  | [r], _, _, h => by simp only [canonLines, List.cons.injEq] at h; exact ⟨r, [], h.1.symm⟩
  | r :: r' :: rs', _, _, h => by
    simp only [canonLines, List.cons.injEq] at h; exact ⟨r, _, h.1.symm⟩

end Simaple.Dsl
