import Simaple.Model.Entity
/-!
# The mob's DOT tracker is chunk independent

`runL` is `DOT.run` with the emitted `(name, damage)` events kept as a list; `DOT.run` folds `bump`
over exactly that list (`run_eq`).  `elapseL_add` : the state after `a` then `b` IS the state after
`a + b`, and the event lists concatenate.  `hits_foldl_bump` turns this into "the hit count of every
(name, damage) key adds up".
-/
namespace Simaple.Entity

/-! ### dict lemmas -/
section dict
variable {κ ν : Type} [BEq κ] [LawfulBEq κ]

theorem dictGet_dictSet_self (d : List (κ × ν)) (k : κ) (v : ν) : dictGet (dictSet d k v) k = some v := by
  induction d with
  | nil => simp [dictSet, dictGet]
  | cons e r ih =>
    obtain ⟨k', v'⟩ := e
    simp only [dictSet]
    by_cases h : (k' == k) = true
    · simp [h, dictGet]
    · simp [h, dictGet, ih]

theorem dictGet_dictSet_other (d : List (κ × ν)) (k k' : κ) (v : ν) (hne : k' ≠ k) :
    dictGet (dictSet d k v) k' = dictGet d k' := by
  induction d with
  | nil =>
    have : (k == k') = false := by simpa using fun h => hne h.symm
    simp [dictSet, dictGet, this]
  | cons e r ih =>
    obtain ⟨k0, v0⟩ := e
    simp only [dictSet]
    by_cases h : (k0 == k) = true
    · have hk : k0 = k := by simpa using h
      subst hk
      have : (k0 == k') = false := by simpa using fun h => hne h.symm
      simp [dictGet, this]
    · have h' : (k0 == k) = false := by simpa using h
      simp only [h', Bool.false_eq_true, if_false, dictGet, ih]
end dict

namespace DOT

/-- the hit count of a key in an emits dict (`emits.get(k, 0)`) -/
def hits (em : List ((String × Rat) × Nat)) (k : String × Rat) : Nat := (dictGet em k).getD 0

theorem hits_bump (em : List ((String × Rat) × Nat)) (k k' : String × Rat) :
    hits (bump em k) k' = hits em k' + (if k = k' then 1 else 0) := by
  unfold bump hits
  by_cases h : k = k'
  · subst h
    simp [dictGet_dictSet_self]
  · have h' : k' ≠ k := fun e => h e.symm
    simp [dictGet_dictSet_other _ _ _ _ h', h]

theorem hits_foldl_bump (L : List (String × Rat)) : ∀ (em : List ((String × Rat) × Nat)) (k : String × Rat),
    hits (L.foldl bump em) k = hits em k + L.count k := by
  induction L with
  | nil => intro em k; simp
  | cons x r ih =>
    intro em k
    simp only [List.foldl_cons]
    rw [ih, hits_bump, List.count_cons]
    by_cases h : x = k
    · subst h; simp; omega
    · have : (x == k) = false := by simpa using h
      simp [h, this]

/-! ### the loop with an event list -/
def runL : Nat → DOT → Int → DOT × List (String × Rat)
  | 0, s, _ => (s, [])
  | n + 1, s, t =>
    if t ≤ 0 then (s, []) else
    ((runL n (s.step t).1 (s.step t).2.1).1, (s.step t).2.2 ++ (runL n (s.step t).1 (s.step t).2.1).2)

def elapseL (s : DOT) (t : Int) : DOT × List (String × Rat) := runL t.toNat s t

theorem run_eq (n : Nat) : ∀ (s : DOT) (t : Int) (em : List ((String × Rat) × Nat)),
    run n s t em = ((runL n s t).1, (runL n s t).2.foldl bump em) := by
  induction n with
  | zero => intro s t em; rfl
  | succ n ih =>
    intro s t em
    simp only [run, runL]
    split
    · rfl
    · rw [ih]; simp [List.foldl_append]

theorem elapse_eq (s : DOT) (t : Int) : s.elapse t = ((elapseL s t).1, (elapseL s t).2.foldl bump []) :=
  run_eq _ _ _ _

theorem age_age (cur : List (String × Rat × Int)) (a b : Int) : age (age cur a) b = age cur (a + b) := by
  unfold age
  rw [List.map_map]
  apply List.map_congr_left
  intro e _
  simp only [Function.comp, Prod.mk.injEq, true_and]
  omega

theorem step_wf (s : DOT) (t : Int) (h : s.WF) : (s.step t).1.WF := by
  unfold WF step at *
  split
  · simp only []; omega
  · simp only []; omega

theorem step_dec (s : DOT) (t : Int) (h : s.WF) (_ht : 0 < t) : (s.step t).2.1 < t ∧ 0 ≤ (s.step t).2.1 := by
  unfold WF step at *
  split
  · simp only []; omega
  · simp only []; omega

theorem runL_nonpos (n : Nat) (s : DOT) (t : Int) (ht : t ≤ 0) : runL n s t = (s, []) := by
  cases n <;> simp [runL, ht]

theorem runL_fuel2 (n : Nat) : ∀ (m : Nat) (s : DOT) (t : Int), s.WF → t.toNat ≤ n → t.toNat ≤ m →
    runL n s t = runL m s t := by
  induction n with
  | zero =>
    intro m s t _ h _
    have : t ≤ 0 := by omega
    simp [runL_nonpos _ _ _ this]
  | succ n ih =>
    intro m s t hw h hm
    by_cases ht : t ≤ 0
    · simp [runL_nonpos _ _ _ ht]
    · have hpos : 0 < t := by omega
      have hd := step_dec s t hw hpos
      have hw' := step_wf s t hw
      cases m with
      | zero => omega
      | succ m =>
        simp only [runL, ht, if_false]
        rw [ih m _ _ hw' (by omega) (by omega)]

theorem elapseL_unfold (s : DOT) (t : Int) (hw : s.WF) (ht : 0 < t) :
    elapseL s t = ((elapseL (s.step t).1 (s.step t).2.1).1,
                   (s.step t).2.2 ++ (elapseL (s.step t).1 (s.step t).2.1).2) := by
  unfold elapseL
  obtain ⟨k, hk⟩ : ∃ k, t.toNat = k + 1 := ⟨t.toNat - 1, by omega⟩
  have hd := step_dec s t hw ht
  rw [hk]
  simp only [runL, show ¬ t ≤ 0 by omega, if_false]
  rw [runL_fuel2 k _ _ _ (step_wf s t hw) (by omega) (Nat.le_refl _)]

theorem elapseL_nonpos (s : DOT) (t : Int) (ht : t ≤ 0) : elapseL s t = (s, []) := by
  unfold elapseL; exact runL_nonpos _ _ _ ht

theorem elapseL_wf (s : DOT) (t : Int) (hw : s.WF) : (elapseL s t).1.WF := by
  unfold elapseL
  generalize t.toNat = n
  induction n generalizing s t with
  | zero => simpa [runL]
  | succ n ih =>
    simp only [runL]
    split
    · exact hw
    · exact ih _ _ (step_wf s t hw)

/-- a full period fits into the first chunk: the step does not see the extra time -/
theorem step_more (s : DOT) (a b : Int) (hb : 0 ≤ b) (h : s.periodTimeLeft ≤ a) :
    s.step (a + b) = ((s.step a).1, (s.step a).2.1 + b, (s.step a).2.2) := by
  unfold step
  rw [if_neg (by omega), if_neg (by omega)]
  simp only [Prod.mk.injEq, true_and, and_true]
  omega

/-- the first chunk ends inside a period: the next step from there is the step from the start -/
theorem step_partial (s : DOT) (a b : Int) (h : a < s.periodTimeLeft) :
    (s.step a) = ({ s with periodTimeLeft := s.periodTimeLeft - a, current := age s.current a }, 0, []) ∧
    ({ s with periodTimeLeft := s.periodTimeLeft - a, current := age s.current a } : DOT).step b = s.step (a + b) := by
  constructor
  · unfold step; rw [if_pos (by omega)]
  · unfold step
    simp only []
    by_cases hb : s.periodTimeLeft > a + b
    · rw [if_pos (by omega), if_pos hb]
      simp only [age_age, Prod.mk.injEq, and_true, DOT.mk.injEq, true_and]
      omega
    · rw [if_neg (by omega), if_neg hb]
      have e : a + (s.periodTimeLeft - a) = s.periodTimeLeft := by omega
      simp only [age_age, e, Prod.mk.injEq, and_true, true_and]
      omega

/-- chunk independence of the DOT tracker: same state, the event lists concatenate -/
theorem elapseL_add (n : Nat) : ∀ (s : DOT) (a b : Int), s.WF → a.toNat ≤ n → 0 ≤ a → 0 ≤ b →
    (elapseL (elapseL s a).1 b).1 = (elapseL s (a + b)).1 ∧
    (elapseL s (a + b)).2 = (elapseL s a).2 ++ (elapseL (elapseL s a).1 b).2 := by
  induction n with
  | zero =>
    intro s a b _ hn ha _
    have : a = 0 := by omega
    subst this
    simp [elapseL_nonpos s 0 (Int.le_refl 0)]
  | succ n ih =>
    intro s a b hw hn ha hb
    by_cases ha0 : a = 0
    · subst ha0
      simp [elapseL_nonpos s 0 (Int.le_refl 0)]
    by_cases hb0 : b = 0
    · subst hb0
      simp [elapseL_nonpos _ 0 (Int.le_refl 0)]
    have hap : 0 < a := by omega
    have hbp : 0 < b := by omega
    have hd := step_dec s a hw hap
    by_cases hfull : s.periodTimeLeft ≤ a
    · rw [elapseL_unfold s a hw hap, elapseL_unfold s (a + b) hw (by omega)]
      rw [step_more s a b hb hfull]
      simp only []
      have := ih (s.step a).1 (s.step a).2.1 b (step_wf s a hw) (by omega) (by omega) hb
      rw [this.1, this.2]
      simp [List.append_assoc]
    · have hp := step_partial s a b (by omega)
      have e1 : elapseL s a = ({ s with periodTimeLeft := s.periodTimeLeft - a, current := age s.current a }, []) := by
        rw [elapseL_unfold s a hw hap, hp.1]
        simp only [elapseL_nonpos _ 0 (Int.le_refl 0), List.append_nil]
      have hw' : ({ s with periodTimeLeft := s.periodTimeLeft - a, current := age s.current a } : DOT).WF := by
        unfold WF at *; simp only []; omega
      rw [e1]
      simp only [List.nil_append]
      rw [elapseL_unfold _ b hw' hbp, elapseL_unfold s (a + b) hw (by omega), hp.2]
      exact ⟨rfl, rfl⟩

theorem elapseL_add' (s : DOT) (a b : Int) (hw : s.WF) (ha : 0 ≤ a) (hb : 0 ≤ b) :
    (elapseL (elapseL s a).1 b).1 = (elapseL s (a + b)).1 ∧
    (elapseL s (a + b)).2 = (elapseL s a).2 ++ (elapseL (elapseL s a).1 b).2 :=
  elapseL_add a.toNat s a b hw (Nat.le_refl _) ha hb

/-- chunk independence of `DOT.elapse`: the state after `a` then `b` is the state after `a + b`, and for
    every (name, damage) key the emitted hit counts add up -/
theorem elapse_add (s : DOT) (a b : Int) (hw : s.WF) (ha : 0 ≤ a) (hb : 0 ≤ b) :
    ((s.elapse a).1.elapse b).1 = (s.elapse (a + b)).1 ∧
    ∀ k, hits (s.elapse (a + b)).2 k = hits (s.elapse a).2 k + hits ((s.elapse a).1.elapse b).2 k := by
  have h := elapseL_add' s a b hw ha hb
  simp only [elapse_eq]
  refine ⟨h.1, ?_⟩
  intro k
  rw [h.2]
  simp only [hits_foldl_bump, List.count_append]
  simp [hits, dictGet]

theorem elapse_wf (s : DOT) (t : Int) (hw : s.WF) : (s.elapse t).1.WF := by
  rw [elapse_eq]; exact elapseL_wf s t hw

/-- the remaining durations only depend on the total time: every entry still present has aged by it -/
theorem elapse_zero (s : DOT) : s.elapse 0 = (s, []) := by
  rw [elapse_eq, elapseL_nonpos s 0 (Int.le_refl 0)]; rfl

end DOT
end Simaple.Entity
