import Simaple.Model.ProviderLevels
/-! Helper lemmas for `Props/C16_Provider.lean`: Python dict operations on association lists. -/
namespace Simaple.Model.Levels

theorem lookup_dictSet (d : List (String × Int)) (k : String) (v : Int) (k' : String) :
    lookup (dictSet d k v) k' = if k = k' then some v else lookup d k' := by
  induction d with
  | nil => simp [dictSet, lookup]
  | cons p r ih =>
    obtain ⟨a, b⟩ := p
    by_cases hak : a = k
    · subst hak
      simp only [dictSet, if_true, lookup]
      by_cases h1 : a = k' <;> simp [h1]
    · simp only [dictSet, hak, if_false, lookup, ih]
      by_cases h1 : a = k' <;> by_cases h2 : k = k'
      · exact absurd (h1.trans h2.symm) hak
      · simp [h1, h2]
      · simp [h1, h2]
      · simp [h1, h2]

theorem lookup_dictUpdate (items : List (String × Int)) : ∀ (d : List (String × Int)) (k : String),
    lookup (dictUpdate d items) k = match lookupLast items k with | some x => some x | none => lookup d k := by
  induction items with
  | nil => intro d k; simp [dictUpdate, lookupLast]
  | cons p r ih =>
    intro d k
    obtain ⟨a, b⟩ := p
    have : dictUpdate d ((a, b) :: r) = dictUpdate (dictSet d a b) r := rfl
    rw [this, ih, lookup_dictSet]
    simp only [lookupLast]
    cases lookupLast r k with
    | some x => rfl
    | none => by_cases h : a = k <;> simp [h]

theorem keys_dictSet (d : List (String × Int)) (k : String) (v : Int) :
    (dictSet d k v).map Prod.fst = if k ∈ d.map Prod.fst then d.map Prod.fst else d.map Prod.fst ++ [k] := by
  induction d with
  | nil => simp [dictSet]
  | cons p r ih =>
    obtain ⟨a, b⟩ := p
    by_cases hak : a = k
    · subst hak; simp [dictSet]
    · have hka : ¬ k = a := fun h => hak h.symm
      simp only [dictSet, hak, if_false, List.map_cons, ih, List.mem_cons, hka, false_or]
      split <;> simp

theorem nodup_dictSet {d : List (String × Int)} (h : (d.map Prod.fst).Nodup) (k : String) (v : Int) :
    ((dictSet d k v).map Prod.fst).Nodup := by
  rw [keys_dictSet]
  split
  · exact h
  · rename_i hk
    rw [List.nodup_append]
    refine ⟨h, by simp, ?_⟩
    intro a ha b hb
    simp only [List.mem_singleton] at hb
    subst hb
    exact fun hab => hk (hab ▸ ha)

theorem nodup_dictUpdate (items : List (String × Int)) : ∀ {d : List (String × Int)},
    (d.map Prod.fst).Nodup → ((dictUpdate d items).map Prod.fst).Nodup := by
  induction items with
  | nil => intro d h; exact h
  | cons p r ih => intro d h; exact ih (nodup_dictSet h p.1 p.2)

theorem lookup_none_of_not_mem {d : List (String × Int)} {k : String} (h : k ∉ d.map Prod.fst) :
    lookup d k = none := by
  induction d with
  | nil => rfl
  | cons p r ih =>
    obtain ⟨a, b⟩ := p
    simp only [List.map_cons, List.mem_cons, not_or] at h
    have hak : ¬ a = k := fun hh => h.1 hh.symm
    simp only [lookup, hak, if_false]
    exact ih h.2

theorem lookupLast_eq_lookup {d : List (String × Int)} (h : (d.map Prod.fst).Nodup) (k : String) :
    lookupLast d k = lookup d k := by
  induction d with
  | nil => rfl
  | cons p r ih =>
    obtain ⟨a, b⟩ := p
    simp only [List.map_cons, List.nodup_cons] at h
    simp only [lookupLast, lookup, ih h.2]
    by_cases hak : a = k
    · subst hak
      simp [lookup_none_of_not_mem h.1]
    · simp only [hak, if_false]
      cases lookup r k <;> rfl

theorem lookupLast_const {α : Type} (l : List α) (f : α → String) (c : Int) (k : String) :
    lookupLast (l.map fun x => (f x, c)) k = if k ∈ l.map f then some c else none := by
  induction l with
  | nil => simp [lookupLast]
  | cons a r ih =>
    simp only [List.map_cons, lookupLast, ih, List.mem_cons]
    by_cases h1 : k ∈ r.map f <;> by_cases h2 : f a = k
    · simp [h1]
    · simp [h1]
    · simp [h1, h2]
    · have : ¬ k = f a := fun h => h2 h.symm
      simp [h1, h2, this]

theorem lookupLast_mem {e : List (String × Int)} {k : String} {x : Int} (h : lookupLast e k = some x) :
    (k, x) ∈ e := by
  induction e with
  | nil => simp [lookupLast] at h
  | cons p r ih =>
    obtain ⟨a, b⟩ := p
    simp only [lookupLast] at h
    cases hr : lookupLast r k with
    | some y =>
      rw [hr] at h
      simp only [Option.some.injEq] at h
      subst h
      exact List.mem_cons_of_mem _ (ih hr)
    | none =>
      rw [hr] at h
      by_cases hak : a = k
      · simp only [hak, if_true, Option.some.injEq] at h
        subst h; subst hak
        exact List.mem_cons_self
      · simp [hak] at h

theorem nodup_filled (names : List String) (c : Int) : ((filled names c).map Prod.fst).Nodup :=
  nodup_dictUpdate _ (by simp)

theorem lookup_filled (names : List String) (c : Int) (k : String) :
    lookup (filled names c) k = if k ∈ names then some c else none := by
  unfold filled
  rw [lookup_dictUpdate]
  have := lookupLast_const names id c k
  simp only [List.map_id, id] at this
  rw [this]
  split <;> simp_all [lookup]

theorem lookupLast_filled (names : List String) (c : Int) (k : String) :
    lookupLast (filled names c) k = if k ∈ names then some c else none := by
  rw [lookupLast_eq_lookup (nodup_filled names c), lookup_filled]

/-- `SkillProfile.get_skill_levels`: mastery cores at the mastery level, else origin skills at the origin level,
    else V cores at the V level; nothing else is a key -/
theorem lookup_getSkillLevels (p : Profile) (v h m : Int) (k : String) :
    lookup (p.getSkillLevels v h m) k =
      if k ∈ p.hexaMastery.map Prod.snd then some m
      else if k ∈ p.hexaSkillNames then some h
      else if k ∈ p.vSkillNames then some v
      else none := by
  unfold Profile.getSkillLevels
  have hn : ((dictUpdate [] (p.hexaMastery.map fun x => (x.2, m))).map Prod.fst).Nodup :=
    nodup_dictUpdate _ (by simp)
  simp only []
  rw [lookup_dictUpdate, lookupLast_eq_lookup hn, lookup_dictUpdate, lookupLast_const p.hexaMastery Prod.snd m k]
  by_cases h1 : k ∈ p.hexaMastery.map Prod.snd
  · simp [h1]
  · simp only [h1, if_false, lookup]
    rw [lookup_dictUpdate, lookupLast_filled]
    by_cases h2 : k ∈ p.hexaSkillNames
    · simp [h2]
    · simp only [h2, if_false]
      rw [lookup_dictUpdate, lookupLast_filled]
      by_cases h3 : k ∈ p.vSkillNames <;> simp [h3, lookup]

theorem firstUnknown_none_iff (defaults e : List (String × Int)) :
    firstUnknown defaults e = none ↔ ∀ x ∈ e, (lookup defaults x.1).isSome = true := by
  induction e with
  | nil => simp [firstUnknown]
  | cons p r ih =>
    obtain ⟨a, b⟩ := p
    simp only [firstUnknown, List.mem_cons, forall_eq_or_imp]
    by_cases h : (lookup defaults a).isSome = true
    · simp [h, ih]
    · simp [h]

theorem firstUnknown_some {defaults e : List (String × Int)} {n : String} (h : firstUnknown defaults e = some n) :
    n ∈ e.map Prod.fst ∧ (lookup defaults n).isSome = false := by
  induction e with
  | nil => simp [firstUnknown] at h
  | cons p r ih =>
    obtain ⟨a, b⟩ := p
    simp only [firstUnknown] at h
    by_cases hs : (lookup defaults a).isSome = true
    · simp only [hs, if_true] at h
      obtain ⟨h1, h2⟩ := ih h
      exact ⟨List.mem_cons_of_mem _ h1, h2⟩
    · simp only [hs] at h
      simp only [Bool.false_eq_true, if_false, Option.some.injEq] at h
      subst h
      exact ⟨by simp, by simpa using hs⟩

end Simaple.Model.Levels
