/-
C12 helper lemmas, part 3: the level-advantage table (generated from dpm.py) is non-empty, bounded by
its first entry 1.2 and by 0, and non-increasing; `get_advantage` is a clamped lookup in it.
-/
import Simaple.Gen.Core
import Simaple.Proofs.C12Basic

namespace Simaple.Proofs.C12
open Simaple.Gen Simaple.Py

/-! ### facts about the concrete table (finite checks, evaluated by the kernel) -/

theorem table_length_pos : 0 < LevelAdvantage.table.length := by decide +kernel

theorem table_bounds : ∀ x ∈ LevelAdvantage.table, 0 ≤ x ∧ x ≤ (6 / 5 : Rat) := by decide +kernel

theorem table_antitone : LevelAdvantage.table.Pairwise (fun a b => b ≤ a) := by decide +kernel

theorem bias_nonneg : 0 ≤ LevelAdvantage.bias := by decide +kernel

theorem table_head_eq : LevelAdvantage.table.getD 0 0 = (6 / 5 : Rat) := by decide +kernel

/-! ### the lookup as a total function of the gap -/

/-- value of the lookup at table index `i` (an integer, clamped on both sides the way
    `get_advantage` clamps it) -/
def advAt (i : Int) : Rat :=
  if i < 0 then LevelAdvantage.table.getD 0 0
  else LevelAdvantage.table.getD i.toNat 0

theorem getD_lt (l : List Rat) (n : Nat) (h : n < l.length) : l.getD n 0 = l[n] := by
  simp [List.getD, List.getElem?_eq_getElem h]

theorem getD_ge (l : List Rat) (n : Nat) (h : l.length ≤ n) : l.getD n 0 = 0 := by
  simp [List.getD, List.getElem?_eq_none h]

theorem getD_eq_getElem? (l : List Rat) (n : Nat) (h : n < l.length) : l[n]? = some (l.getD n 0) := by
  simp [List.getD, List.getElem?_eq_getElem h]

/-- `get_advantage` never fails and equals the clamped lookup -/
theorem get_advantage_eq (m c : Int) :
    LevelAdvantage.get_advantage m c = some (advAt (m - c + LevelAdvantage.bias)) := by
  unfold LevelAdvantage.get_advantage advAt
  simp only []
  split
  · exact getD_eq_getElem? _ 0 table_length_pos
  · next h0 =>
    split
    · next h1 =>
      congr 1
      rw [getD_ge]
      omega
    · next h1 =>
      rw [if_pos (by omega)]
      apply getD_eq_getElem?
      omega

theorem getD_bounds (n : Nat) :
    0 ≤ LevelAdvantage.table.getD n 0 ∧ LevelAdvantage.table.getD n 0 ≤ (6 / 5 : Rat) := by
  rcases Nat.lt_or_ge n LevelAdvantage.table.length with h | h
  · rw [getD_lt _ _ h]
    exact table_bounds _ (List.getElem_mem h)
  · rw [getD_ge _ _ h]; norm_num

theorem getD_antitone {n k : Nat} (h : n ≤ k) :
    LevelAdvantage.table.getD k 0 ≤ LevelAdvantage.table.getD n 0 := by
  rcases Nat.lt_or_ge k LevelAdvantage.table.length with hk | hk
  · rcases Nat.eq_or_lt_of_le h with rfl | hlt
    · exact le_rfl
    · have hn : n < LevelAdvantage.table.length := by omega
      rw [getD_lt _ _ hk, getD_lt _ _ hn]
      exact (List.pairwise_iff_getElem.mp table_antitone) n k hn hk hlt
  · rw [getD_ge _ _ hk]
    exact (getD_bounds n).1

theorem advAt_bounds (i : Int) : 0 ≤ advAt i ∧ advAt i ≤ (6 / 5 : Rat) := by
  unfold advAt; split <;> exact getD_bounds _

theorem advAt_antitone {i j : Int} (h : i ≤ j) : advAt j ≤ advAt i := by
  unfold advAt
  split
  · next hj => rw [if_pos (by omega)]
  · next hj =>
    split
    · exact getD_antitone (Nat.zero_le _)
    · exact getD_antitone (by omega)

end Simaple.Proofs.C12
