import Simaple.Proofs.EntityLoop
import Simaple.Proofs.EntityPeriodic
/-!
# Job-specific entities: DynamicIntervalPeriodic, CurrentField, OrderSword

* `DynamicIntervalPeriodic.resolving_add` — chunk independent up to the interval counter of an expired
  timer (`Equiv`); the yielded counts concatenate.
* `CurrentField.elapse_add` — plain equality, tick counts add (from `Periodic.elapse_add`).
* `OrderSword.resolving_add_partial` — only for splits that stay at least one interval away from the end
  of every sword (known finding F10: `resolving` caps the ticks of a call by `time_left // interval`).
-/
namespace Simaple.Entity
open Loop

/-! ## DynamicIntervalPeriodic -/
namespace DynamicIntervalPeriodic

/-- reachable states: well-formed, and an expired timer has a positive counter (the tick loop always
    leaves the counter positive, and only `set_time_left` makes it 0 again together with a new timer) -/
def Inv (s : DynamicIntervalPeriodic) : Prop := s.WF ∧ (s.timeLeft < 0 → 0 < s.intervalCounter)
instance (s : DynamicIntervalPeriodic) : Decidable s.Inv := by unfold Inv; exact inferInstance

/-- the interval counter is dead once the timer has expired and the counter is positive: from then on it
    can only grow (`counter -= min(time, time_left)` with `time_left ≤ 0`) and no tick is produced, until
    `set_time_left` overwrites it -/
def Equiv (a b : DynamicIntervalPeriodic) : Prop :=
  a.interval = b.interval ∧ a.timeLeft = b.timeLeft ∧ a.count = b.count ∧
  a.countIntervalPenalty = b.countIntervalPenalty ∧ a.maxCount = b.maxCount ∧
  (a.intervalCounter = b.intervalCounter ∨ (a.timeLeft ≤ 0 ∧ 0 < a.intervalCounter ∧ 0 < b.intervalCounter))

theorem Equiv.refl (a : DynamicIntervalPeriodic) : Equiv a a := ⟨rfl, rfl, rfl, rfl, rfl, Or.inl rfl⟩

theorem Equiv.symm {a b : DynamicIntervalPeriodic} (h : Equiv a b) : Equiv b a := by
  obtain ⟨a1, a2, a3, a4, a5, a6⟩ := h
  refine ⟨a1.symm, a2.symm, a3.symm, a4.symm, a5.symm, ?_⟩
  rcases a6 with h | h
  · exact Or.inl h.symm
  · exact Or.inr ⟨by omega, h.2.2, h.2.1⟩

theorem Equiv.trans {a b c : DynamicIntervalPeriodic} (h1 : Equiv a b) (h2 : Equiv b c) : Equiv a c := by
  obtain ⟨a1, a2, a3, a4, a5, a6⟩ := h1
  obtain ⟨b1, b2, b3, b4, b5, b6⟩ := h2
  refine ⟨by omega, by omega, by omega, by omega, by omega, ?_⟩
  rcases a6 with h | h <;> rcases b6 with g | g
  · exact Or.inl (h.trans g)
  · exact Or.inr ⟨by omega, by omega, g.2.2⟩
  · exact Or.inr ⟨h.1, h.2.1, by omega⟩
  · exact Or.inr ⟨h.1, h.2.1, g.2.2⟩

/-- the views (`enabled`, `time_left`, `count`) do not see the dead counter -/
theorem Equiv.enabled {a b : DynamicIntervalPeriodic} (h : Equiv a b) : a.enabled = b.enabled := by
  simp [DynamicIntervalPeriodic.enabled, h.2.1]
theorem Equiv.timeLeft {a b : DynamicIntervalPeriodic} (h : Equiv a b) : a.timeLeft = b.timeLeft := h.2.1
theorem Equiv.count {a b : DynamicIntervalPeriodic} (h : Equiv a b) : a.count = b.count := h.2.2.1
theorem Equiv.setTimeLeft {a b : DynamicIntervalPeriodic} (h : Equiv a b) (t c : Int) :
    a.setTimeLeft t c = b.setTimeLeft t c := by
  obtain ⟨a1, a2, a3, a4, a5, a6⟩ := h
  unfold DynamicIntervalPeriodic.setTimeLeft
  cases a; cases b; simp_all
theorem Equiv.disable {a b : DynamicIntervalPeriodic} (h : Equiv a b) : Equiv a.disable b.disable := by
  obtain ⟨a1, a2, a3, a4, a5, a6⟩ := h
  refine ⟨a1, rfl, a3, a4, a5, ?_⟩
  rcases a6 with h | h
  · exact Or.inl h
  · exact Or.inr ⟨Int.le_refl 0, h.2.1, h.2.2⟩

/-! ### the loop -/
def guard (p : DynamicIntervalPeriodic × List Int) : Bool := decide (p.1.intervalCounter ≤ 0)
def body (p : DynamicIntervalPeriodic × List Int) : DynamicIntervalPeriodic × List Int :=
  (p.1.tickStep, p.2 ++ [p.1.count])
/-- the two assignments before the loop -/
def pre (s : DynamicIntervalPeriodic) (t : Int) : DynamicIntervalPeriodic :=
  { s with intervalCounter := s.intervalCounter - min t s.timeLeft, timeLeft := s.timeLeft - t }

theorem loop_eq_iter (n : Nat) : ∀ (s : DynamicIntervalPeriodic) (ys : List Int),
    loop n s ys = iter guard body n (s, ys) := by
  induction n with
  | zero => intro s ys; rfl
  | succ n ih =>
    intro s ys
    simp only [loop, iter, guard, body, decide_eq_true_eq, ih]

theorem resolving_eq (s : DynamicIntervalPeriodic) (t : Int) :
    s.resolving t = iter guard body ((-(s.pre t).intervalCounter).toNat + 1) (s.pre t, []) := by
  unfold resolving; simp only []; rw [loop_eq_iter]; rfl

def measure (p : DynamicIntervalPeriodic × List Int) : Nat :=
  if p.1.intervalCounter ≤ 0 then (-p.1.intervalCounter).toNat + 1 else 0

theorem body_measure (p : DynamicIntervalPeriodic × List Int) (hw : p.1.WF) (hg : guard p = true) :
    (body p).1.WF ∧ measure (body p) < measure p := by
  obtain ⟨h1, h2, h3, h4⟩ := hw
  have hmul : 0 ≤ p.1.count * p.1.countIntervalPenalty := Int.mul_nonneg h3 h2
  simp only [guard, decide_eq_true_eq] at hg
  refine ⟨?_, ?_⟩
  · unfold WF body tickStep
    simp only []
    omega
  · unfold measure body tickStep
    simp only [hg, if_true]
    split <;> omega

theorem iter_done (p : DynamicIntervalPeriodic × List Int) (hw : p.1.WF) (n : Nat) (hn : measure p ≤ n) :
    guard (iter guard body n p) = false :=
  iter_done_of_measure (fun p => p.1.WF) measure (fun p hp hg => body_measure p hp hg) n p hw hn

theorem iter_wf (n : Nat) (p : DynamicIntervalPeriodic × List Int) (hw : p.1.WF) : (iter guard body n p).1.WF :=
  iter_inv (fun p => p.1.WF) (fun p hp hg => (body_measure p hp hg).1) n p hw

theorem fuel_ok (s : DynamicIntervalPeriodic) : measure (s, []) ≤ (-s.intervalCounter).toNat + 1 := by
  unfold measure; simp only []; split <;> omega

theorem iter_timeLeft (n : Nat) : ∀ p : DynamicIntervalPeriodic × List Int,
    (iter guard body n p).1.timeLeft = p.1.timeLeft := by
  induction n with
  | zero => intro p; rfl
  | succ n ih =>
    intro p
    simp only [iter]
    split
    · rw [ih]; rfl
    · rfl

theorem iter_acc (n : Nat) : ∀ (p : DynamicIntervalPeriodic × List Int) (l : List Int),
    iter guard body n (p.1, l ++ p.2) = ((iter guard body n p).1, l ++ (iter guard body n p).2) := by
  induction n with
  | zero => intro p l; rfl
  | succ n ih =>
    intro p l
    by_cases hg : guard p = true
    · have hg' : guard (p.1, l ++ p.2) = true := by simpa [guard] using hg
      rw [iter_succ_of n _ hg', iter_succ_of n _ hg]
      have := ih (body p) l
      simp only [body] at this ⊢
      rw [← this, List.append_assoc]
    · have hg0 : guard p = false := by simpa using hg
      have hg' : guard (p.1, l ++ p.2) = false := by simpa [guard] using hg0
      rw [iter_of_not _ _ hg', iter_of_not _ _ hg0]

theorem pre_wf (s : DynamicIntervalPeriodic) (t : Int) (hw : s.WF) : (s.pre t).WF := hw

theorem resolving_wf (s : DynamicIntervalPeriodic) (t : Int) (hw : s.WF) : (s.resolving t).1.WF := by
  rw [resolving_eq]; exact iter_wf _ _ hw

/-- the loop has stopped: the counter is positive after every `resolving` -/
theorem resolving_pos (s : DynamicIntervalPeriodic) (t : Int) (hw : s.WF) :
    0 < (s.resolving t).1.intervalCounter := by
  rw [resolving_eq]
  have := iter_done (s.pre t, []) hw _ (fuel_ok _)
  simp only [guard, decide_eq_false_iff_not] at this
  omega

theorem resolving_timeLeft (s : DynamicIntervalPeriodic) (t : Int) : (s.resolving t).1.timeLeft = s.timeLeft - t := by
  rw [resolving_eq, iter_timeLeft]; rfl

theorem resolving_inv (s : DynamicIntervalPeriodic) (t : Int) (hi : s.Inv) : (s.resolving t).1.Inv :=
  ⟨resolving_wf s t hi.1, fun _ => resolving_pos s t hi.1⟩

/-- with an expired timer and a positive counter nothing happens except that the counter grows -/
theorem resolving_dead (s : DynamicIntervalPeriodic) (t : Int) (ht : 0 ≤ t) (hT : s.timeLeft ≤ 0)
    (hc : 0 < s.intervalCounter) :
    s.resolving t = ({ s with intervalCounter := s.intervalCounter - s.timeLeft, timeLeft := s.timeLeft - t }, []) := by
  rw [resolving_eq]
  have hm : min t s.timeLeft = s.timeLeft := by omega
  have e : s.pre t = { s with intervalCounter := s.intervalCounter - s.timeLeft, timeLeft := s.timeLeft - t } := by
    simp only [pre, hm]
  rw [e, iter_of_not]
  simp only [guard, decide_eq_false_iff_not]
  omega

/-- `resolving` respects the equivalence -/
theorem resolving_equiv (x y : DynamicIntervalPeriodic) (t : Int) (h : Equiv x y) (ht : 0 ≤ t) :
    Equiv (x.resolving t).1 (y.resolving t).1 ∧ (x.resolving t).2 = (y.resolving t).2 := by
  obtain ⟨a1, a2, a3, a4, a5, a6⟩ := h
  rcases a6 with h | h
  · have : x = y := by cases x; cases y; simp_all
    subst this
    exact ⟨Equiv.refl _, rfl⟩
  · rw [resolving_dead x t ht h.1 h.2.1, resolving_dead y t ht (by omega) h.2.2]
    refine ⟨⟨a1, ?_, a3, a4, a5, Or.inr ⟨?_, ?_, ?_⟩⟩, rfl⟩ <;> simp only [] <;> omega

/-- chunk independence of `DynamicIntervalPeriodic.resolving`: equivalent states, yields concatenate -/
theorem resolving_add (s : DynamicIntervalPeriodic) (a b : Int) (hi : s.Inv) (_ha : 0 ≤ a) (hb : 0 ≤ b) :
    Equiv ((s.resolving a).1.resolving b).1 (s.resolving (a + b)).1 ∧
    (s.resolving (a + b)).2 = (s.resolving a).2 ++ ((s.resolving a).1.resolving b).2 := by
  have hw := hi.1
  have hw1 := resolving_wf s a hw
  have hpos1 := resolving_pos s a hw
  have hT1 := resolving_timeLeft s a
  by_cases hcase : a ≤ s.timeLeft
  · -- the first chunk ends while the timer is still running (or exactly at its end)
    rw [resolving_eq _ b, resolving_eq s (a + b)]
    rw [resolving_eq s a] at hw1 hT1 ⊢
    have hd1 := iter_done (s.pre a, []) hw _ (fuel_ok _)
    generalize hn1 : (-(s.pre a).intervalCounter).toNat + 1 = n1 at *
    generalize hr : iter guard body n1 (s.pre a, []) = r at *
    let m := min b (s.timeLeft - a)
    let σ : DynamicIntervalPeriodic × List Int → DynamicIntervalPeriodic × List Int :=
      fun p => ({ p.1 with intervalCounter := p.1.intervalCounter - m, timeLeft := p.1.timeLeft - b }, p.2)
    have hm0 : 0 ≤ m := by simp only [m]; omega
    have hσr : σ r = (r.1.pre b, r.2) := by
      simp only [σ, pre, m, hT1]
    have hσs : σ (s.pre a, []) = (s.pre (a + b), []) := by
      simp only [σ, pre, m, Prod.mk.injEq, and_true, DynamicIntervalPeriodic.mk.injEq, true_and]
      omega
    have hd2 := iter_done (r.1.pre b, []) hw1 _ (fuel_ok _)
    generalize hn2 : (-(r.1.pre b).intervalCounter).toNat + 1 = n2 at *
    have hd3 := iter_done (s.pre (a + b), []) hw _ (fuel_ok _)
    generalize hn3 : (-(s.pre (a + b)).intervalCounter).toNat + 1 = n3 at *
    have hacc := iter_acc n2 (r.1.pre b, []) r.2
    simp only [List.append_nil] at hacc
    have key := iter_commute (g := guard) (f := body) σ
      (by
        intro p hg
        have hg' : p.1.intervalCounter ≤ 0 := by simpa [guard] using hg
        exact decide_eq_true (show p.1.intervalCounter - m ≤ 0 by omega))
      (by
        intro p _
        simp only [σ, body, tickStep, Prod.mk.injEq, DynamicIntervalPeriodic.mk.injEq, and_true]
        omega)
      n1 n2 n3 (s.pre a, [])
      (by rw [hr]; exact hd1)
      (by rw [hr, hσr, hacc]; simpa [guard] using hd2)
      (by rw [hσs]; exact hd3)
    rw [hr, hσr, hσs, hacc] at key
    rw [← key]
    exact ⟨Equiv.refl _, rfl⟩
  · -- the timer expires strictly inside the first chunk (or had expired before)
    have hlt : s.timeLeft < a := by omega
    have hdead := resolving_dead (s.resolving a).1 b hb (by omega) hpos1
    rw [hdead]
    -- the single call: same counter arithmetic as the first chunk, only `time_left` differs
    have hpre : s.pre (a + b) = { s.pre a with timeLeft := s.timeLeft - (a + b) } := by
      simp only [pre, DynamicIntervalPeriodic.mk.injEq, and_true]
      omega
    let τ : DynamicIntervalPeriodic × List Int → DynamicIntervalPeriodic × List Int :=
      fun p => ({ p.1 with timeLeft := s.timeLeft - (a + b) }, p.2)
    have hmap := iter_map (g := guard) (f := body) τ (by intro p; rfl) (by intro p; rfl)
    have hfuel : (-(s.pre (a + b)).intervalCounter).toNat + 1 = (-(s.pre a).intervalCounter).toNat + 1 := by
      rw [hpre]
    have e3 : s.resolving (a + b) = τ (s.resolving a) := by
      rw [resolving_eq s (a + b), resolving_eq s a, hfuel, ← hmap, hpre]
    rw [e3]
    refine ⟨⟨rfl, ?_, rfl, rfl, rfl, Or.inr ⟨?_, ?_, ?_⟩⟩, ?_⟩
    · simp only [τ]; omega
    · simp only []; omega
    · simp only []; omega
    · simp only [τ]; exact hpos1
    · simp [τ]

end DynamicIntervalPeriodic

/-! ## CurrentField -/
namespace CurrentField

def listElapse (L : List Periodic) (t : Int) : List Periodic := (L.map (fun p => p.elapse t)).filter (·.enabled)
def listTicks (L : List Periodic) (t : Int) : Int := (L.map (fun p => p.elapseCount t)).foldl (· + ·) 0

theorem elapse_eq (s : CurrentField) (t : Int) :
    s.elapse t = ({ s with fieldPeriodics := listElapse s.fieldPeriodics t,
                           lastForceTriggered := s.lastForceTriggered + t }, listTicks s.fieldPeriodics t) := by
  simp [elapse, listElapse, listTicks, List.map_map, Function.comp_def, Periodic.elapse']

theorem foldl_add (xs : List Int) : ∀ acc : Int, xs.foldl (· + ·) acc = acc + xs.foldl (· + ·) 0 := by
  induction xs with
  | nil => intro acc; simp
  | cons x r ih =>
    intro acc
    simp only [List.foldl_cons]
    rw [ih (acc + x), ih (0 + x)]
    omega

theorem listTicks_cons (p : Periodic) (r : List Periodic) (t : Int) :
    listTicks (p :: r) t = p.elapseCount t + listTicks r t := by
  unfold listTicks
  simp only [List.map_cons, List.foldl_cons]
  rw [foldl_add]; omega

theorem listElapse_cons (p : Periodic) (r : List Periodic) (t : Int) :
    listElapse (p :: r) t = if (p.elapse t).enabled then p.elapse t :: listElapse r t else listElapse r t := by
  unfold listElapse
  simp only [List.map_cons, List.filter_cons]

theorem list_add (a b : Int) (ha : 0 ≤ a) (hb : 0 ≤ b) : ∀ (L : List Periodic), (∀ p ∈ L, p.WF) →
    listElapse (listElapse L a) b = listElapse L (a + b) ∧
    listTicks L (a + b) = listTicks L a + listTicks (listElapse L a) b := by
  intro L
  induction L with
  | nil => intro _; simp [listElapse, listTicks]
  | cons p r ih =>
    intro hL
    have hp : p.WF := hL p (by simp)
    have ihr := ih (fun q hq => hL q (by simp [hq]))
    have he := Periodic.elapse_add' p a b hp ha hb
    have hcnt := Periodic.elapseCount_add p a b hp ha hb
    rw [listElapse_cons p r a, listElapse_cons p r (a + b), listTicks_cons, listTicks_cons]
    by_cases hen : (p.elapse a).enabled = true
    · rw [if_pos hen, listElapse_cons, listTicks_cons, he.enabled]
      by_cases hen2 : (p.elapse (a + b)).enabled = true
      · have hpos : 0 < ((p.elapse a).elapse b).timeLeft := by
          rw [he.timeLeft]; simpa [Periodic.enabled] using hen2
        rw [if_pos hen2, if_pos hen2, he.eq_of_enabled hpos, ihr.1]
        refine ⟨rfl, ?_⟩
        rw [ihr.2]; omega
      · rw [if_neg hen2, if_neg hen2, ihr.1]
        refine ⟨rfl, ?_⟩
        rw [ihr.2]; omega
    · have hexp : (p.elapse a).timeLeft ≤ 0 := by simpa [Periodic.enabled] using hen
      have hst := Periodic.elapse_expired (p.elapse a) b hexp
      have hen2 : ¬ (p.elapse (a + b)).enabled = true := by
        have := he.timeLeft
        rw [hst] at this
        simp only [Periodic.enabled, decide_eq_true_eq]; omega
      have hz : (p.elapse a).elapseCount b = 0 := by
        unfold Periodic.elapseCount; rw [hst]; omega
      rw [if_neg hen, if_neg hen2, ihr.1]
      refine ⟨rfl, ?_⟩
      rw [ihr.2]; omega

/-- chunk independence of `CurrentField.elapse`: same state, tick counts add -/
theorem elapse_add (s : CurrentField) (a b : Int) (hw : ∀ p ∈ s.fieldPeriodics, p.WF) (ha : 0 ≤ a) (hb : 0 ≤ b) :
    ((s.elapse a).1.elapse b).1 = (s.elapse (a + b)).1 ∧
    (s.elapse (a + b)).2 = (s.elapse a).2 + ((s.elapse a).1.elapse b).2 := by
  have h := list_add a b ha hb s.fieldPeriodics hw
  simp only [elapse_eq]
  refine ⟨?_, h.2⟩
  rw [h.1]
  simp only [CurrentField.mk.injEq, true_and, and_true]
  omega

theorem listElapse_wf (L : List Periodic) (t : Int) (hw : ∀ p ∈ L, p.WF) : ∀ p ∈ listElapse L t, p.WF := by
  intro p hp
  unfold listElapse at hp
  simp only [List.mem_filter, List.mem_map] at hp
  obtain ⟨⟨q, hq, rfl⟩, _⟩ := hp
  exact Periodic.elapse_wf q t (hw q hq)

theorem elapse_wf (s : CurrentField) (t : Int) (hw : ∀ p ∈ s.fieldPeriodics, p.WF) :
    ∀ p ∈ (s.elapse t).1.fieldPeriodics, p.WF := by
  rw [elapse_eq]; exact listElapse_wf _ t hw

end CurrentField

/-! ## OrderSword (partial: known finding F10) -/
namespace OrderSword

def guard (p : Int × Nat) : Bool := decide (p.1 ≤ 0)
def body (interval : Int) (p : Int × Nat) : Int × Nat := (p.1 + interval, p.2 + 1)

theorem swordLoop_eq_iter (interval : Int) (n : Nat) : ∀ (c : Int) (k : Nat),
    swordLoop interval n c k = iter guard (body interval) n (c, k) := by
  induction n with
  | zero => intro c k; rfl
  | succ n ih =>
    intro c k
    simp only [swordLoop, iter, guard, body, decide_eq_true_eq, ih]

/-- the cap does not bind: the loop stops because the counter became positive -/
theorem iter_done (interval : Int) (_hI : 0 < interval) (n : Nat) : ∀ (c : Int) (k : Nat),
    0 < c + (n : Int) * interval → guard (iter guard (body interval) n (c, k)) = false := by
  induction n with
  | zero =>
    intro c k h
    have hc : 0 < c := by simpa using h
    exact decide_eq_false (show ¬ c ≤ 0 by omega)
  | succ n ih =>
    intro c k h
    by_cases hg : guard (c, k) = true
    · rw [iter_succ_of n _ hg]
      apply ih
      have e : ((n + 1 : Nat) : Int) * interval = (n : Int) * interval + interval := by
        rw [Int.natCast_succ, Int.add_mul, Int.one_mul]
      rw [e] at h
      omega
    · have hg' : guard (c, k) = false := by simpa using hg
      rw [iter_of_not _ _ hg']; exact hg'

theorem iter_snd (interval : Int) (n : Nat) : ∀ (p : Int × Nat) (k : Nat),
    iter guard (body interval) n (p.1, p.2 + k) =
      ((iter guard (body interval) n p).1, (iter guard (body interval) n p).2 + k) := by
  induction n with
  | zero => intro p k; rfl
  | succ n ih =>
    intro p k
    by_cases hg : guard p = true
    · have hg' : guard (p.1, p.2 + k) = true := by simpa [guard] using hg
      rw [iter_succ_of n _ hg', iter_succ_of n _ hg]
      have := ih (body interval p) k
      simp only [body] at this ⊢
      rw [← this]
      congr 2; omega
    · have hg0 : guard p = false := by simpa using hg
      have hg' : guard (p.1, p.2 + k) = false := by simpa [guard] using hg0
      rw [iter_of_not _ _ hg', iter_of_not _ _ hg0]

/-- `time_left // interval` intervals are more than `time_left - interval` -/
theorem maximumElapsed_spec (interval timeLeft : Int) (hI : 0 < interval) (hT : 0 ≤ timeLeft) :
    timeLeft - interval < (maximumElapsed interval timeLeft : Int) * interval := by
  unfold maximumElapsed
  rw [Int.fdiv_eq_ediv_of_nonneg _ (Int.le_of_lt hI)]
  have h0 : 0 ≤ timeLeft / interval := Int.ediv_nonneg hT (Int.le_of_lt hI)
  rw [Int.toNat_of_nonneg h0]
  have h1 := Int.lt_ediv_add_one_mul_self timeLeft hI
  rw [Int.add_mul, Int.one_mul] at h1
  omega

/-- a sword for which a call of length `t` stays at least one interval away from its end -/
def SwordOK (interval t : Int) (sw : Int × Int) : Prop := 0 ≤ sw.1 ∧ t + interval ≤ sw.2

theorem swordStep_eq (interval t : Int) (sw : Int × Int) :
    swordStep interval t sw =
      (((iter guard (body interval) (maximumElapsed interval sw.2) (sw.1 - t, 0)).1, sw.2 - t),
       (iter guard (body interval) (maximumElapsed interval sw.2) (sw.1 - t, 0)).2) := by
  unfold swordStep; simp only [swordLoop_eq_iter]

theorem swordStep_done (interval t : Int) (sw : Int × Int) (hI : 0 < interval) (ht : 0 ≤ t)
    (hok : SwordOK interval t sw) :
    guard (iter guard (body interval) (maximumElapsed interval sw.2) (sw.1 - t, 0)) = false := by
  apply iter_done interval hI
  have := maximumElapsed_spec interval sw.2 hI (by unfold SwordOK at hok; omega)
  unfold SwordOK at hok; omega

/-- one sword, away from its end: chunk independent -/
theorem swordStep_add (interval a b : Int) (sw : Int × Int) (hI : 0 < interval) (ha : 0 ≤ a) (hb : 0 ≤ b)
    (hok : SwordOK interval (a + b) sw) :
    (swordStep interval b (swordStep interval a sw).1).1 = (swordStep interval (a + b) sw).1 ∧
    (swordStep interval (a + b) sw).2 = (swordStep interval a sw).2 + (swordStep interval b (swordStep interval a sw).1).2 := by
  have hokA : SwordOK interval a sw := by unfold SwordOK at *; omega
  have hd1 := swordStep_done interval a sw hI ha hokA
  have hd3 := swordStep_done interval (a + b) sw hI (by omega) hok
  rw [swordStep_eq interval a sw]
  generalize hr : iter guard (body interval) (maximumElapsed interval sw.2) (sw.1 - a, 0) = r at *
  have hpos : 0 < r.1 := by simpa [guard] using hd1
  have hokB : SwordOK interval b (r.1, sw.2 - a) := by unfold SwordOK at *; simp only []; omega
  have hd2 := swordStep_done interval b (r.1, sw.2 - a) hI hb hokB
  rw [swordStep_eq interval b, swordStep_eq interval (a + b)]
  simp only [] at hd2 ⊢
  let σ : Int × Nat → Int × Nat := fun p => (p.1 - b, p.2)
  have hacc := iter_snd interval (maximumElapsed interval (sw.2 - a)) (r.1 - b, 0) r.2
  simp only [Nat.zero_add] at hacc
  have key := iter_commute (g := guard) (f := body interval) σ
    (by
      intro p hg
      have hg' : p.1 ≤ 0 := by simpa [guard] using hg
      exact decide_eq_true (show p.1 - b ≤ 0 by omega))
    (by intro p _; simp only [σ, body, Prod.mk.injEq, and_true]; omega)
    (maximumElapsed interval sw.2) (maximumElapsed interval (sw.2 - a)) (maximumElapsed interval sw.2)
    (sw.1 - a, 0)
    (by rw [hr]; exact hd1)
    (by rw [hr]; show guard (iter guard (body interval) _ (r.1 - b, r.2)) = false
        rw [hacc]; simpa [guard] using hd2)
    (by
      have e : σ (sw.1 - a, 0) = (sw.1 - (a + b), 0) := by simp only [σ, Prod.mk.injEq, and_true]; omega
      rw [e]; exact hd3)
  rw [hr] at key
  have e : σ (sw.1 - a, 0) = (sw.1 - (a + b), 0) := by simp only [σ, Prod.mk.injEq, and_true]; omega
  have e2 : σ r = (r.1 - b, r.2) := rfl
  rw [e, e2, hacc] at key
  rw [← key]
  refine ⟨?_, Nat.add_comm _ _⟩
  simp only [Prod.mk.injEq, true_and]; omega

theorem trim_of_le (xs : List (Int × Int)) (m : Int) (h : (xs.length : Int) * 2 ≤ m) : trim xs m = xs := by
  cases xs with
  | nil => rfl
  | cons x r => simp only [trim]; rw [if_neg (by omega)]

/-- when no sword ends and the list already respects the cap, `resolving` is a plain map -/
theorem resolving_eq (s : OrderSword) (t m : Int) (hlen : (s.runningSwords.length : Int) * 2 ≤ m)
    (hall : ∀ sw ∈ s.runningSwords, 0 < sw.2 - t) :
    s.resolving t m = ({ s with runningSwords := s.runningSwords.map (fun sw => (swordStep s.interval t sw).1) },
                       (s.runningSwords.map (fun sw => (swordStep s.interval t sw).2)).sum) := by
  unfold resolving setRunningSwords
  simp only [List.map_map, Function.comp_def]
  have hf : List.filter (fun sw : Int × Int => decide (0 < sw.2))
      (s.runningSwords.map (fun sw => (swordStep s.interval t sw).1)) =
      s.runningSwords.map (fun sw => (swordStep s.interval t sw).1) := by
    rw [List.filter_eq_self]
    intro x hx
    simp only [List.mem_map] at hx
    obtain ⟨sw, hsw, rfl⟩ := hx
    simpa [swordStep] using hall sw hsw
  rw [hf, trim_of_le _ _ (by simpa using hlen)]

/-- `OrderSword.resolving` is chunk independent for splits that stay at least one interval away from the
    end of every sword, on a list that respects the sword cap.
    FULL STATEMENT (false, see `Props.C09.orderSword_not_add`): the same without the hypothesis `hok`
    (for all reachable swords and all `a b ≥ 0`). -/
theorem resolving_add_partial (s : OrderSword) (a b m : Int) (hI : 0 < s.interval) (ha : 0 ≤ a) (hb : 0 ≤ b)
    (hlen : (s.runningSwords.length : Int) * 2 ≤ m)
    (hok : ∀ sw ∈ s.runningSwords, SwordOK s.interval (a + b) sw) :
    ((s.resolving a m).1.resolving b m).1 = (s.resolving (a + b) m).1 ∧
    (s.resolving (a + b) m).2 = (s.resolving a m).2 + ((s.resolving a m).1.resolving b m).2 := by
  have h1 : ∀ sw ∈ s.runningSwords, 0 < sw.2 - a := by
    intro sw hsw; have := hok sw hsw; unfold SwordOK at this; omega
  have h3 : ∀ sw ∈ s.runningSwords, 0 < sw.2 - (a + b) := by
    intro sw hsw; have := hok sw hsw; unfold SwordOK at this; omega
  rw [resolving_eq s a m hlen h1, resolving_eq s (a + b) m hlen h3]
  simp only []
  rw [resolving_eq _ b m (by simpa using hlen) (by
    intro sw hsw
    simp only [List.mem_map] at hsw
    obtain ⟨sw0, hsw0, rfl⟩ := hsw
    have := hok sw0 hsw0
    unfold SwordOK at this
    simp only [swordStep]; omega)]
  simp only [List.map_map, Function.comp_def]
  have hstate : ∀ sw ∈ s.runningSwords,
      (swordStep s.interval b (swordStep s.interval a sw).1).1 = (swordStep s.interval (a + b) sw).1 :=
    fun sw hsw => (swordStep_add s.interval a b sw hI ha hb (hok sw hsw)).1
  have hticks : ∀ sw ∈ s.runningSwords,
      (swordStep s.interval (a + b) sw).2 =
        (swordStep s.interval a sw).2 + (swordStep s.interval b (swordStep s.interval a sw).1).2 :=
    fun sw hsw => (swordStep_add s.interval a b sw hI ha hb (hok sw hsw)).2
  refine ⟨?_, ?_⟩
  · simp only [OrderSword.mk.injEq, and_true]
    exact List.map_congr_left hstate
  · generalize s.runningSwords = L at hticks
    induction L with
    | nil => simp
    | cons x r ih =>
      simp only [List.map_cons, List.sum_cons]
      rw [hticks x (by simp), ih (fun sw hsw => hticks sw (by simp [hsw]))]
      omega

end OrderSword
end Simaple.Entity
