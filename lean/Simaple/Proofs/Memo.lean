/-
Lemmas for C20 (core Lean only): dictionary algebra, the soundness invariant of stores and worlds, and the
specification of `memoize` for both memoizer kinds.
-/
import Simaple.Model.Memo

namespace Simaple.Memo
open Simaple.Gen.Memo

/-! ### dictionaries -/
namespace Dict
variable {V : Type}

theorem get?_set (d : Dict V) (k k' : String) (v : V) :
    (d.set k v).get? k' = if k = k' then some v else d.get? k' := by
  induction d with
  | nil => simp [Dict.set, Dict.get?]
  | cons hd tl ih =>
    obtain ⟨a, b⟩ := hd
    by_cases h : a = k
    · subst h
      by_cases h' : a = k' <;> simp [Dict.set, Dict.get?, h']
    · by_cases h' : a = k'
      · subst h'
        simp [Dict.set, Dict.get?, h, Ne.symm h]
      · simp only [Dict.set, h, if_false, Dict.get?, h', ih]

theorem get?_set_self (d : Dict V) (k : String) (v : V) : (d.set k v).get? k = some v := by
  simp [get?_set]

theorem get?_set_ne (d : Dict V) {k k' : String} (v : V) (h : k ≠ k') : (d.set k v).get? k' = d.get? k' := by
  simp [get?_set, h]

theorem has_set (d : Dict V) (k k' : String) (v : V) : (d.set k v).has k' = (decide (k = k') || d.has k') := by
  unfold has
  rw [get?_set]
  by_cases h : k = k' <;> simp [h]

/-- `d.update(e)` leaves every key that `e` does not mention as it was -/
theorem get?_update_of_not_mem (d e : Dict V) (k : String) (h : k ∉ e.keys) :
    (d.update e).get? k = d.get? k := by
  unfold update
  induction e generalizing d with
  | nil => rfl
  | cons hd tl ih =>
    simp only [keys, List.map_cons, List.mem_cons, not_or] at h
    simp only [List.foldl_cons]
    rw [ih _ (by simpa [keys] using h.2), get?_set_ne _ _ (Ne.symm h.1)]

end Dict

/-! ### outcomes -/

/-- two computations agree: both return the same value, or both raise -/
def SameOutcome {E : Type} : Except String E → Except String E → Prop
  | .ok a, .ok b => a = b
  | .error _, .error _ => True
  | _, _ => False

section
variable {P V E S T : Type} (I : Iface P V E S T)

/-! ### the invariant -/

/-- every entry was written by a miss of some provider with that key -/
def Store.Sound (s : Store S) : Prop :=
  ∀ k txt, s.get? k = some txt →
    ∃ q m i, key I q = k ∧ I.memoPart q = .ok m ∧ I.indepPart q = .ok i ∧ txt = I.ser ⟨m, i⟩

/-- every dict object of the process is sound and every file parses to a sound store -/
def World.Sound (w : World S T) : Prop :=
  (∀ s ∈ w.heap, Store.Sound I s) ∧
  (∀ path text, w.files.get? path = some text → ∃ s, I.loadStore text = .ok s ∧ Store.Sound I s)

theorem Store.sound_nil : Store.Sound I [] := by
  intro k txt h; simp [Dict.get?] at h

theorem World.sound_empty : World.Sound I (World.empty : World S T) :=
  ⟨by intro s hs; simp [World.empty] at hs, by intro p t h; simp [World.empty, Dict.get?] at h⟩

theorem Store.sound_set {s : Store S} (hs : Store.Sound I s) (q : P) {m i : Dict V}
    (hm : I.memoPart q = .ok m) (hi : I.indepPart q = .ok i) :
    Store.Sound I (s.set (key I q) (I.ser ⟨m, i⟩)) := by
  intro k txt h
  rw [Dict.get?_set] at h
  by_cases hk : key I q = k
  · simp only [hk, if_true, Option.some.injEq] at h
    exact ⟨q, m, i, hk, hm, hi, h.symm⟩
  · simp only [hk, if_false] at h
    exact hs k txt h

/-- the hypotheses about keys and the two codecs, relative to an equivalence `R` of memoizable parts
    (`R = Eq` for an exact round trip; "equal after validation" for what the JSON round trip really gives) -/
structure Hyps (R : Dict V → Dict V → Prop) : Prop where
  hKey : ∀ p q, key I p = key I q → I.memoPart p = I.memoPart q
  hSer : ∀ x : ProviderMemo V, ∃ y, I.deser (I.ser x) = .ok y ∧ R y.memoizable_environment x.memoizable_environment
  hJson : ∀ s : Store S, I.loadStore (I.dumpStore s) = .ok s
  hRefl : ∀ d, R d d

/-- what a call of `memoize` guarantees about its answer -/
def AnswerOk (R : Dict V → Dict V → Prop) (p : P) : Except String (ProviderMemo V × Bool) → Prop
  | .ok (memo, _) =>
    I.indepPart p = .ok memo.independent_environment ∧
    ∃ m, I.memoPart p = .ok m ∧ R memo.memoizable_environment m
  | .error _ => (∃ e, I.memoPart p = .error e) ∨ (∃ e, I.indepPart p = .error e)

variable {I}

/-- hit branch -/
theorem hit_ok {R : Dict V → Dict V → Prop} (H : Hyps I R) {s : Store S} (hs : Store.Sound I s) (p : P) {txt : S}
    (hget : s.get? (key I p) = some txt) :
    ∃ y m, I.deser txt = .ok y ∧ I.memoPart p = .ok m ∧ R y.memoizable_environment m := by
  obtain ⟨q, m, i, hk, hm, _, rfl⟩ := hs _ _ hget
  obtain ⟨y, hy, hR⟩ := H.hSer ⟨m, i⟩
  exact ⟨y, m, hy, by rw [H.hKey p q hk.symm, hm], hR⟩

/-- `InMemoryMemoizer.memoize` keeps the world sound and answers correctly -/
theorem InMemory.memoize_spec {R : Dict V → Dict V → Prop} (H : Hyps I R) (w : World S T) (hw : World.Sound I w)
    (ref : Nat) (hv : ref < w.heap.length) (p : P) :
    World.Sound I (InMemory.memoize I w ref p).2 ∧ AnswerOk I R p (InMemory.memoize I w ref p).1 := by
  unfold InMemory.memoize
  have hsome : w.heap[ref]? = some w.heap[ref] := List.getElem?_eq_getElem hv
  rw [hsome]
  have hs : Store.Sound I w.heap[ref] := hw.1 _ (List.getElem_mem hv)
  simp only
  cases hget : Dict.get? w.heap[ref] (key I p) with
  | some txt =>
    obtain ⟨y, m, hy, hm, hR⟩ := hit_ok H hs p hget
    simp only [hy]
    cases hi : I.indepPart p with
    | error e => exact ⟨hw, Or.inr ⟨e, hi⟩⟩
    | ok i => exact ⟨hw, hi, m, hm, hR⟩
  | none =>
    simp only
    cases hm : I.memoPart p with
    | error e => exact ⟨hw, Or.inl ⟨e, hm⟩⟩
    | ok m =>
      cases hi : I.indepPart p with
      | error e => exact ⟨hw, Or.inr ⟨e, hi⟩⟩
      | ok i =>
        refine ⟨⟨?_, hw.2⟩, hi, m, hm, ?_⟩
        · intro s' hs'
          rcases List.mem_or_eq_of_mem_set hs' with h | h
          · exact hw.1 _ h
          · rw [h]; exact Store.sound_set I hs p hm hi
        · exact H.hRefl m

/-- `PersistentStorageMemoizer.memoize` keeps the world sound and answers correctly -/
theorem Persistent.memoize_spec {R : Dict V → Dict V → Prop} (H : Hyps I R) (w : World S T) (hw : World.Sound I w)
    (path : String) (hv : w.files.has path = true) (p : P) :
    World.Sound I (Persistent.memoize I w path p).2 ∧ AnswerOk I R p (Persistent.memoize I w path p).1 := by
  unfold Persistent.memoize
  simp only
  cases hfile : w.files.get? path with
  | none => simp [Dict.has, hfile] at hv
  | some text =>
    obtain ⟨s, hload, hs⟩ := hw.2 _ _ hfile
    simp only [hload]
    cases hget : Dict.get? s (key I p) with
    | some txt =>
      obtain ⟨y, m, hy, hm, hR⟩ := hit_ok H hs p hget
      simp only [hy]
      cases hi : I.indepPart p with
      | error e => exact ⟨hw, Or.inr ⟨e, hi⟩⟩
      | ok i => exact ⟨hw, hi, m, hm, hR⟩
    | none =>
      simp only
      cases hm : I.memoPart p with
      | error e => exact ⟨hw, Or.inl ⟨e, hm⟩⟩
      | ok m =>
        cases hi : I.indepPart p with
        | error e => exact ⟨hw, Or.inr ⟨e, hi⟩⟩
        | ok i =>
          refine ⟨⟨hw.1, ?_⟩, hi, m, hm, H.hRefl m⟩
          intro path' text' h'
          rw [Dict.get?_set] at h'
          by_cases hp : path = path'
          · simp only [hp, if_true, Option.some.injEq] at h'
            exact ⟨_, by rw [← h']; exact H.hJson _, Store.sound_set I hs p hm hi⟩
          · simp only [hp, if_false] at h'
            exact hw.2 _ _ h'

theorem memoize_spec {R : Dict V → Dict V → Prop} (H : Hyps I R) (w : World S T) (hw : World.Sound I w)
    (h : Handle) (hv : h.Valid w) (p : P) :
    World.Sound I (memoize I w h p).2 ∧ AnswerOk I R p (memoize I w h p).1 := by
  cases h with
  | inMemory ref => exact InMemory.memoize_spec H w hw ref hv p
  | persistent path => exact Persistent.memoize_spec H w hw path hv p

/-- soundness is kept by a request through ANY handle (a dangling one raises and changes nothing) -/
theorem memoize_sound {R : Dict V → Dict V → Prop} (H : Hyps I R) (w : World S T) (hw : World.Sound I w)
    (h : Handle) (p : P) : World.Sound I (memoize I w h p).2 := by
  cases h with
  | inMemory ref =>
    by_cases hv : ref < w.heap.length
    · exact (InMemory.memoize_spec H w hw ref hv p).1
    · have : w.heap[ref]? = none := List.getElem?_eq_none (Nat.le_of_not_lt hv)
      simp [memoize, InMemory.memoize, this, hw]
  | persistent path =>
    cases hf : w.files.has path with
    | true => exact (Persistent.memoize_spec H w hw path hf p).1
    | false =>
      have : w.files.get? path = none := by
        simp only [Dict.has] at hf
        cases h : w.files.get? path <;> simp_all
      simp [memoize, Persistent.memoize, this, hw]

/-- every operation of a history keeps the world sound -/
theorem step_sound {R : Dict V → Dict V → Prop} (H : Hyps I R) (w : World S T) (hw : World.Sound I w) (op : Op P) :
    World.Sound I (step (E := E) I w op).1 := by
  cases op with
  | newInMemory saved =>
    cases saved with
    | some r => simp only [step]; split <;> exact hw
    | none =>
      simp only [step, InMemory.new]
      refine ⟨?_, hw.2⟩
      intro s hs
      rcases List.mem_append.mp hs with h | h
      · exact hw.1 _ h
      · simp only [List.mem_singleton] at h; rw [h]; exact Store.sound_nil I
  | newPersistent path =>
    simp only [step, Persistent.new]
    split
    · exact hw
    · refine ⟨hw.1, ?_⟩
      intro path' text' h'
      rw [Dict.get?_set] at h'
      by_cases hp : path = path'
      · simp only [hp, if_true, Option.some.injEq] at h'
        exact ⟨[], by rw [← h']; exact H.hJson _, Store.sound_nil I⟩
      · simp only [hp, if_false] at h'
        exact hw.2 _ _ h'
  | request h p =>
    have := memoize_sound H w hw h p
    simp only [step]
    split <;> simp_all
  | «export» ref => simp only [step]; split <;> exact hw
  | saveJson ref path =>
    simp only [step]
    split
    · rename_i s hs
      refine ⟨hw.1, ?_⟩
      intro path' text' h'
      rw [Dict.get?_set] at h'
      by_cases hp : path = path'
      · simp only [hp, if_true, Option.some.injEq] at h'
        exact ⟨s, by rw [← h']; exact H.hJson _, hw.1 _ (List.mem_of_getElem? hs)⟩
      · simp only [hp, if_false] at h'
        exact hw.2 _ _ h'
    · exact hw
  | loadJson path =>
    simp only [step]
    split
    · exact hw
    · rename_i text hfile
      obtain ⟨s, hload, hs⟩ := hw.2 _ _ hfile
      simp only [hload]
      refine ⟨?_, hw.2⟩
      intro s' hs'
      rcases List.mem_append.mp hs' with h | h
      · exact hw.1 _ h
      · simp only [List.mem_singleton] at h; rw [h]; exact hs
  | restart =>
    simp only [step]
    exact ⟨by intro s hs; simp at hs, hw.2⟩

theorem after_nil (w : World S T) : after (E := E) I w [] = w := rfl

theorem after_cons (w : World S T) (op : Op P) (ops : List (Op P)) :
    after (E := E) I w (op :: ops) = after (E := E) I (step (E := E) I w op).1 ops := by
  simp [after, run]

theorem after_sound {R : Dict V → Dict V → Prop} (H : Hyps I R) (w : World S T) (hw : World.Sound I w)
    (ops : List (Op P)) : World.Sound I (after (E := E) I w ops) := by
  induction ops generalizing w with
  | nil => exact hw
  | cons op ops ih => rw [after_cons]; exact ih _ (step_sound H w hw op)

/-- from the guarantee about the answer of `memoize` to the environment -/
theorem sameOutcome_of_answerOk (p : P) (w' : World S T) (r : Except String (ProviderMemo V × Bool))
    (h : AnswerOk I (fun a b => ∀ i, I.validate (Dict.update i a) = I.validate (Dict.update i b)) p r) :
    SameOutcome
      (match (r, w') with
        | (.error e, w') => ((.error e : Except String E), w')
        | (.ok (memo, _), w') => (memoEnv I memo, w')).1
      (directEnv I p) := by
  cases r with
  | error e =>
    simp only [AnswerOk] at h
    rcases h with ⟨e', he⟩ | ⟨e', he⟩
    · cases hi : I.indepPart p <;> simp [directEnv, he, hi, SameOutcome, bind, Except.bind]
    · simp [directEnv, he, SameOutcome, bind, Except.bind]
  | ok mh =>
    obtain ⟨memo, hit⟩ := mh
    simp only [AnswerOk] at h
    obtain ⟨hi, m, hm, hR⟩ := h
    simp only [memoEnv, directEnv, hi, hm, bind, Except.bind, hR]
    cases I.validate (Dict.update memo.independent_environment m) <;> simp [SameOutcome]

end

/-! ### a concrete instance (used by the non-vacuity examples of Props/C20) -/
namespace Demo

/-- toy providers: (memoized field, independent field) -/
def I : Iface (Bool × Nat) Nat (Dict Nat) (ProviderMemo Nat) (Store (ProviderMemo Nat)) where
  name := fun _ => "Toy"
  memoKeyStr := fun p => if p.1 then "t" else "f"
  memoPart := fun p => .ok [("m", if p.1 then 10 else 20)]
  indepPart := fun p => .ok [("i", p.2)]
  validate := fun d => .ok d
  digest := fun s _ => s
  ser := id
  deser := .ok
  dumpStore := id
  loadStore := .ok

theorem hKey : ∀ p q, key I p = key I q → I.memoPart p = I.memoPart q := by
  intro ⟨a, x⟩ ⟨b, y⟩ h
  cases a <;> cases b <;> first | rfl | (simp [key, I] at h)

def history : List (Op (Bool × Nat)) :=
  [.newInMemory none, .request (.inMemory 0) (true, 5), .request (.inMemory 0) (true, 6), .export 0,
   .saveJson 0 "memo.json", .restart, .newPersistent "memo.json", .request (.persistent "memo.json") (false, 7)]

/-- after that history the file-backed memoizer is alive … -/
theorem alive : (Handle.persistent "memo.json").Valid (after (E := Dict Nat) I World.empty history) := by
  show Dict.has _ _ = true
  decide

end Demo

end Simaple.Memo
