import Simaple.Model.Dsl
/-! Lemmas about the lexer of the plan DSL (C14): fuel sufficiency, fuel-free unfolding, and
`lex (unlex ts) = ts` for well-separated token lists (any Unicode content). -/
namespace Simaple.Dsl

/-! ### spanP -/

theorem spanP_append (p : Char → Bool) (l : Text) : (spanP p l).1 ++ (spanP p l).2 = l := by
  induction l with
  | nil => rfl
  | cons c cs ih => by_cases h : p c <;> simp [spanP, h, ih]

theorem spanP_length_le (p : Char → Bool) (l : Text) : (spanP p l).2.length ≤ l.length := by
  have h := congrArg List.length (spanP_append p l)
  simp only [List.length_append] at h; omega

theorem spanP_fst_all (p : Char → Bool) (l : Text) : (spanP p l).1.all p = true := by
  induction l with
  | nil => rfl
  | cons c cs ih => by_cases h : p c <;> simp [spanP, h] <;> simpa using ih

theorem spanP_append_term {p : Char → Bool} {d : Char} (hd : p d = false) (r rest : Text) :
    spanP p (r ++ d :: rest) = ((spanP p r).1, (spanP p r).2 ++ d :: rest) := by
  induction r with
  | nil => simp [spanP, hd]
  | cons c cs ih => by_cases h : p c <;> simp [spanP, h, ih]

theorem spanP_all {p : Char → Bool} {u : Text} (h : u.all p = true) : spanP p u = (u, []) := by
  induction u with
  | nil => rfl
  | cons c cs ih =>
    simp only [List.all_cons, Bool.and_eq_true] at h
    simp [spanP, h.1, ih h.2]

theorem spanP_all_term {p : Char → Bool} {u : Text} {d : Char} (h : u.all p = true)
    (hd : p d = false) (rest : Text) : spanP p (u ++ d :: rest) = (u, d :: rest) := by
  rw [spanP_append_term hd, spanP_all h]; rfl

/-! ### strings -/

theorem scanStr_length {esc : Bool} {cs i r : Text} (h : scanStr esc cs = some (i, r)) :
    r.length < cs.length + 1 := by
  induction cs generalizing esc i r with
  | nil => simp [scanStr] at h
  | cons c cs ih =>
    simp only [scanStr] at h
    split at h
    · cases h
    · split at h
      · cases h; simp only [List.length_cons]; omega
      · split at h
        · rename_i inner rest heq
          cases h
          have := ih heq
          simp only [List.length_cons]; omega
        · cases h

theorem scanStr_append {esc : Bool} {a i r : Text} (x : Text) (h : scanStr esc a = some (i, r)) :
    scanStr esc (a ++ x) = some (i, r ++ x) := by
  induction a generalizing esc i r with
  | nil => simp [scanStr] at h
  | cons c cs ih =>
    simp only [scanStr] at h
    simp only [List.cons_append, scanStr]
    split at h
    · cases h
    · rename_i hnl
      simp only [hnl]
      split at h
      · rename_i hq
        cases h; simp [hq]
      · rename_i hq
        simp only [hq]
        split at h
        · rename_i inner rest heq
          cases h
          rw [ih heq]; rfl
        · cases h

/-! ### numbers -/

theorem scanExp_append (x : Text) : (scanExp x).1 ++ (scanExp x).2 = x := by
  unfold scanExp
  split
  · rfl
  · rename_i e rest
    split
    · split
      · rfl
      · rename_i s r
        split
        · have := spanP_append Char.isDigit r
          split <;> simp_all
        · have := spanP_append Char.isDigit (s :: r)
          split <;> simp_all
    · rfl

theorem scanExp_length (x : Text) : (scanExp x).2.length ≤ x.length := by
  have h := congrArg List.length (scanExp_append x)
  simp only [List.length_append] at h; omega

theorem scanAfterInt_append (ip r1 : Text) :
    (scanAfterInt ip r1).1 ++ (scanAfterInt ip r1).2 = ip ++ r1 := by
  unfold scanAfterInt
  split
  · simp
  · rename_i c r2
    split
    · rename_i hc
      have hc' : c = '.' := by simpa using hc
      have h1 := spanP_append Char.isDigit r2
      have h2 := scanExp_append (spanP Char.isDigit r2).2
      simp only [List.append_assoc, List.cons_append]
      rw [h2, h1, hc']
    · have h2 := scanExp_append (c :: r2)
      simp only [List.append_assoc]; rw [h2]

theorem scanAfterInt_ne_nil {ip : Text} (h : ip ≠ []) (r1 : Text) : (scanAfterInt ip r1).1 ≠ [] := by
  unfold scanAfterInt
  split
  · exact h
  · split <;> simp [h]

theorem scanDotFirst_append {r0 t r : Text} (h : scanDotFirst r0 = some (t, r)) :
    t ++ r = r0 ∧ t ≠ [] := by
  unfold scanDotFirst at h
  split at h
  · cases h
  · rename_i c r2
    split at h
    · rename_i hc
      have hc' : c = '.' := by simpa using hc
      split at h
      · cases h
      · cases h
        have h1 := spanP_append Char.isDigit r2
        have h2 := scanExp_append (spanP Char.isDigit r2).2
        refine ⟨?_, by simp⟩
        simp only [List.append_assoc, List.cons_append]
        rw [h2, h1, hc']
    · cases h

theorem scanUnsigned_append {r0 t r : Text} (h : scanUnsigned r0 = some (t, r)) :
    t ++ r = r0 ∧ t ≠ [] := by
  unfold scanUnsigned at h
  split at h
  · exact scanDotFirst_append h
  · rename_i hne
    simp only [Option.some.injEq] at h
    have h1 := scanAfterInt_append (spanP Char.isDigit r0).1 (spanP Char.isDigit r0).2
    have h2 := scanAfterInt_ne_nil (ip := (spanP Char.isDigit r0).1)
      (by intro hnil; simp [hnil] at hne) (spanP Char.isDigit r0).2
    rw [h] at h1 h2
    exact ⟨by rw [h1, spanP_append], h2⟩

theorem scanNumber_append {a t r : Text} (h : scanNumber a = some (t, r)) : t ++ r = a ∧ t ≠ [] := by
  unfold scanNumber at h
  split at h
  · cases h
  · rename_i c cs
    split at h
    · split at h
      · rename_i t' r' heq
        cases h
        have := scanUnsigned_append heq
        exact ⟨by simp [this.1], by simp⟩
      · cases h
    · exact scanUnsigned_append h

theorem scanNumber_length {c : Char} {cs t r : Text} (h : scanNumber (c :: cs) = some (t, r)) :
    r.length ≤ cs.length := by
  have ⟨h1, h2⟩ := scanNumber_append h
  have h3 := congrArg List.length h1
  have : 0 < t.length := List.length_pos_iff.mpr h2
  simp only [List.length_append, List.length_cons] at h3; omega

theorem isTerm_digit {d : Char} (h : isTerm d = true) : d.isDigit = false := by
  simp only [isTerm, Bool.and_eq_true, Bool.not_eq_true'] at h; exact h.1.1.1
theorem isTerm_dot {d : Char} (h : isTerm d = true) : (d == '.') = false := by
  simp only [isTerm, Bool.and_eq_true, bne_iff_ne, ne_eq] at h; simpa using h.1.1.2
theorem isTerm_exp {d : Char} (h : isTerm d = true) : isExpChar d = false := by
  simp only [isTerm, Bool.and_eq_true, Bool.not_eq_true'] at h; exact h.1.2
theorem isTerm_sign {d : Char} (h : isTerm d = true) : isSign d = false := by
  simp only [isTerm, Bool.and_eq_true, Bool.not_eq_true'] at h; exact h.2

theorem scanExp_not_exp {d : Char} (h : isExpChar d = false) (rest : Text) :
    scanExp (d :: rest) = ([], d :: rest) := by
  simp [scanExp, h]

theorem scanExp_term {d : Char} (hd : isTerm d = true) (a rest : Text) :
    scanExp (a ++ d :: rest) = ((scanExp a).1, (scanExp a).2 ++ d :: rest) := by
  have hdig := isTerm_digit hd
  have hexp := isTerm_exp hd
  have hsg := isTerm_sign hd
  cases a with
  | nil => simp [scanExp, hexp]
  | cons e a' =>
    simp only [List.cons_append, scanExp]
    by_cases he : isExpChar e
    · simp only [he, if_true]
      cases a' with
      | nil => simp [hsg, spanP, hdig]
      | cons s r =>
        simp only [List.cons_append]
        by_cases hs : isSign s
        · simp only [hs, if_true, spanP_append_term hdig]
          by_cases hemp : (spanP Char.isDigit r).1.isEmpty = true <;> simp [hemp]
        · simp only [hs]
          have hsp := spanP_append_term hdig (s :: r) rest
          simp only [List.cons_append] at hsp
          rw [hsp]
          by_cases hemp : (spanP Char.isDigit (s :: r)).1.isEmpty = true <;> simp [hemp]
    · simp [he]

theorem scanAfterInt_term {d : Char} (hd : isTerm d = true) (ip a rest : Text) :
    scanAfterInt ip (a ++ d :: rest) = ((scanAfterInt ip a).1, (scanAfterInt ip a).2 ++ d :: rest) := by
  cases a with
  | nil =>
    simp only [List.nil_append, scanAfterInt, isTerm_dot hd, scanExp_not_exp (isTerm_exp hd)]
    simp
  | cons c r2 =>
    simp only [List.cons_append, scanAfterInt]
    by_cases hc : (c == '.') = true
    · simp only [hc, if_true, spanP_append_term (isTerm_digit hd), scanExp_term hd]
    · simp only [hc]
      rw [show c :: (r2 ++ d :: rest) = (c :: r2) ++ d :: rest from rfl, scanExp_term hd]
      simp

theorem scanDotFirst_term {d : Char} (hd : isTerm d = true) (a rest : Text) :
    scanDotFirst (a ++ d :: rest) = (scanDotFirst a).map (fun p => (p.1, p.2 ++ d :: rest)) := by
  cases a with
  | nil => simp [scanDotFirst, isTerm_dot hd]
  | cons c r2 =>
    simp only [List.cons_append, scanDotFirst]
    by_cases hc : (c == '.') = true
    · simp only [hc, if_true, spanP_append_term (isTerm_digit hd), scanExp_term hd]
      by_cases hemp : (spanP Char.isDigit r2).1.isEmpty = true <;> simp [hemp]
    · simp [hc]

theorem scanUnsigned_term {d : Char} (hd : isTerm d = true) (a rest : Text) :
    scanUnsigned (a ++ d :: rest) = (scanUnsigned a).map (fun p => (p.1, p.2 ++ d :: rest)) := by
  unfold scanUnsigned
  rw [spanP_append_term (isTerm_digit hd)]
  by_cases hemp : (spanP Char.isDigit a).1.isEmpty = true
  · simp only [hemp, if_true]
    exact scanDotFirst_term hd a rest
  · simp [hemp, scanAfterInt_term hd]

theorem scanNumber_term {d : Char} (hd : isTerm d = true) (a rest : Text) :
    scanNumber (a ++ d :: rest) = (scanNumber a).map (fun p => (p.1, p.2 ++ d :: rest)) := by
  cases a with
  | nil =>
    simp [scanNumber, isTerm_sign hd, scanUnsigned, spanP, isTerm_digit hd, scanDotFirst, isTerm_dot hd]
  | cons c cs =>
    simp only [List.cons_append, scanNumber]
    by_cases hs : isSign c
    · simp only [hs, if_true, scanUnsigned_term hd]
      cases scanUnsigned cs <;> simp
    · simp only [hs]
      exact scanUnsigned_term hd (c :: cs) rest

/-! ### fuel -/

theorem stripPrefix_length {p s r : Text} (h : stripPrefix p s = some r) : r.length ≤ s.length := by
  induction p generalizing s with
  | nil => simp [stripPrefix] at h; subst h; exact Nat.le_refl _
  | cons a p ih =>
    cases s with
    | nil => simp [stripPrefix] at h
    | cons c cs =>
      simp only [stripPrefix] at h
      split at h
      · have := ih h; simp only [List.length_cons]; omega
      · cases h

theorem stripPrefix_append (p r : Text) : stripPrefix p (p ++ r) = some r := by
  induction p with
  | nil => cases r <;> rfl
  | cons a p ih => simp [stripPrefix, ih]

theorem lexStep_congr {k1 k2 : Text → Option (List Tok)} (c : Char) (cs : Text)
    (h : ∀ r : Text, r.length ≤ cs.length → k1 r = k2 r) : lexStep k1 c cs = lexStep k2 c cs := by
  unfold lexStep
  rw [h _ (spanP_length_le isWsChar cs), h _ (spanP_length_le (· != '\n') cs),
    h _ (spanP_length_le Char.isAlpha cs)]
  cases hs : scanStr false cs with
  | none =>
    cases hn : scanNumber (c :: cs) with
    | none =>
      cases hd : stripPrefix ['d', 'e', 'b', 'u', 'g'] cs with
      | none => rfl
      | some r => simp only [h r (stripPrefix_length hd)]
    | some p =>
      obtain ⟨t, r⟩ := p
      simp only [h r (scanNumber_length hn)]
      cases hd : stripPrefix ['d', 'e', 'b', 'u', 'g'] cs with
      | none => rfl
      | some r => simp only [h r (stripPrefix_length hd)]
  | some q =>
    obtain ⟨i, r0⟩ := q
    have := scanStr_length hs
    simp only [h r0 (by omega)]
    cases hn : scanNumber (c :: cs) with
    | none =>
      cases hd : stripPrefix ['d', 'e', 'b', 'u', 'g'] cs with
      | none => rfl
      | some r => simp only [h r (stripPrefix_length hd)]
    | some p =>
      obtain ⟨t, r⟩ := p
      simp only [h r (scanNumber_length hn)]
      cases hd : stripPrefix ['d', 'e', 'b', 'u', 'g'] cs with
      | none => rfl
      | some r => simp only [h r (stripPrefix_length hd)]

theorem lexF_succ : ∀ (f : Nat) (cs : Text), cs.length ≤ f → lexF (f + 1) cs = lexF f cs := by
  intro f
  induction f with
  | zero =>
    intro cs h
    cases cs with
    | nil => rfl
    | cons c cs => simp at h
  | succ f ih =>
    intro cs hlen
    cases cs with
    | nil => rfl
    | cons c cs =>
      have hl : cs.length ≤ f := by simp only [List.length_cons] at hlen; omega
      rw [lexF, lexF]
      exact lexStep_congr c cs fun r hr => ih r (by omega)

theorem lexF_add (cs : Text) (k : Nat) : lexF (cs.length + k) cs = lex cs := by
  induction k with
  | zero => rfl
  | succ k ih => rw [← Nat.add_assoc, lexF_succ _ _ (by omega), ih]

theorem lexF_of_le {f : Nat} {cs : Text} (h : cs.length ≤ f) : lexF f cs = lex cs := by
  have := lexF_add cs (f - cs.length)
  rwa [show cs.length + (f - cs.length) = f by omega] at this

/-! ### one token at a time (fuel-free) -/

theorem lex_nil : lex [] = some [] := rfl

theorem lex_cons (c : Char) (cs : Text) : lex (c :: cs) = lexStep lex c cs := by
  unfold lex
  rw [List.length_cons, lexF]
  exact lexStep_congr c cs fun r hr => lexF_of_le hr

theorem isWsChar_not_alpha {c : Char} (h : c.isAlpha = true) : isWsChar c = false := by
  cases hw : isWsChar c with
  | false => rfl
  | true =>
    simp only [isWsChar, Bool.or_eq_true, beq_iff_eq] at hw
    rcases hw with (((h1 | h1) | h1) | h1) | h1 <;> subst h1 <;> exact absurd h (by decide)

theorem hash_not_alpha {c : Char} (h : c.isAlpha = true) : (c == '#') = false := by
  cases hw : (c == '#') with
  | false => rfl
  | true => simp only [beq_iff_eq] at hw; subst hw; exact absurd h (by decide)

theorem lex_white {c : Char} (cs : Text) (h : isWsChar c = true) :
    lex (c :: cs) = (lex (spanP isWsChar cs).2).map (Tok.white (c :: (spanP isWsChar cs).1) :: ·) := by
  rw [lex_cons, lexStep]; simp only [h, ↓reduceIte]

theorem lex_comment (cs : Text) :
    lex ('#' :: cs) = (lex (spanP (· != '\n') cs).2).map (Tok.comment (spanP (· != '\n') cs).1 :: ·) := by
  rw [lex_cons, lexStep]
  simp only [show isWsChar '#' = false by decide, show ('#' == '#') = true by decide, ↓reduceIte,
    Bool.false_eq_true]

theorem lex_word {c : Char} (cs : Text) (h : c.isAlpha = true) :
    lex (c :: cs) = (lex (spanP Char.isAlpha cs).2).map (Tok.word (c :: (spanP Char.isAlpha cs).1) :: ·) := by
  rw [lex_cons, lexStep]
  simp only [isWsChar_not_alpha h, hash_not_alpha h, h, ↓reduceIte, Bool.false_eq_true]

theorem lex_str {cs i r : Text} (h : scanStr false cs = some (i, r)) :
    lex ('"' :: cs) = (lex r).map (Tok.str i :: ·) := by
  rw [lex_cons, lexStep]
  simp only [show isWsChar '"' = false by decide, show ('"' == '#') = false by decide,
    show '"'.isAlpha = false by decide, show ('"' == '"') = true by decide, ↓reduceIte,
    Bool.false_eq_true, h]

theorem lex_debug (r : Text) :
    lex ('!' :: 'd' :: 'e' :: 'b' :: 'u' :: 'g' :: r) = (lex r).map (Tok.debug :: ·) := by
  rw [lex_cons, lexStep]
  have := stripPrefix_append ['d', 'e', 'b', 'u', 'g'] r
  simp only [List.cons_append, List.nil_append] at this
  simp only [show isWsChar '!' = false by decide, show ('!' == '#') = false by decide,
    show '!'.isAlpha = false by decide, show ('!' == '"') = false by decide,
    show isNumStart '!' = false by decide, show ('!' == '!') = true by decide, ↓reduceIte,
    Bool.false_eq_true, this]

theorem numStart_props {c : Char} (h : isNumStart c = true) :
    isWsChar c = false ∧ (c == '#') = false ∧ c.isAlpha = false ∧ (c == '"') = false := by
  simp only [isNumStart, isSign, Bool.or_eq_true, beq_iff_eq] at h
  rcases h with ((h | h) | h) | h
  · subst h; decide
  · subst h; decide
  · subst h; decide
  · have hv : c.val ≤ 57 := by
      simp only [Char.isDigit, Bool.and_eq_true, decide_eq_true_eq] at h; exact h.2
    refine ⟨?_, ?_, ?_, ?_⟩
    · cases hw : isWsChar c with
      | false => rfl
      | true =>
        simp only [isWsChar, Bool.or_eq_true, beq_iff_eq] at hw
        rcases hw with (((h1 | h1) | h1) | h1) | h1 <;> subst h1 <;> exact absurd h (by decide)
    · cases hw : (c == '#') with
      | false => rfl
      | true => simp only [beq_iff_eq] at hw; subst hw; exact absurd h (by decide)
    · cases ha : c.isAlpha with
      | false => rfl
      | true =>
        exfalso
        simp only [Char.isAlpha, Char.isUpper, Char.isLower, Bool.or_eq_true, Bool.and_eq_true,
          decide_eq_true_eq] at ha
        rcases ha with ha | ha
        · exact absurd (UInt32.le_trans ha.1 hv) (by decide)
        · exact absurd (UInt32.le_trans ha.1 hv) (by decide)
    · cases hw : (c == '"') with
      | false => rfl
      | true => simp only [beq_iff_eq] at hw; subst hw; exact absurd h (by decide)

theorem lex_num {c : Char} {cs t r : Text} (hc : isNumStart c = true)
    (h : scanNumber (c :: cs) = some (t, r)) :
    lex (c :: cs) = (lex r).map (Tok.num t :: ·) := by
  obtain ⟨h1, h2, h3, h4⟩ := numStart_props hc
  rw [lex_cons, lexStep]
  simp only [h1, h2, h3, h4, hc, ↓reduceIte, Bool.false_eq_true, h]

/-! ### `lex ∘ unlex` -/

theorem spanP_all_next {p : Char → Bool} {u rest : Text} (h : u.all p = true)
    (hn : nextOk (fun d => !p d) rest.head? = true) : spanP p (u ++ rest) = (u, rest) := by
  cases rest with
  | nil => simpa using spanP_all h
  | cons d r =>
    simp only [List.head?_cons, nextOk, Bool.not_eq_true'] at hn
    exact spanP_all_term h hn r

theorem nameOk_scan {n : Text} (h : nameOk n = true) (rest : Text) :
    scanStr false (n ++ '"' :: rest) = some (n, rest) := by
  simp only [nameOk, beq_iff_eq] at h
  have := scanStr_append rest h
  simpa using this

theorem numTokOk_scan {t rest : Text} (h : numTokOk t = true)
    (hn : nextOk isTerm rest.head? = true) : scanNumber (t ++ rest) = some (t, rest) := by
  simp only [numTokOk, beq_iff_eq] at h
  cases rest with
  | nil => simpa using h
  | cons d r =>
    simp only [List.head?_cons, nextOk] at hn
    rw [scanNumber_term hn, h]; rfl

theorem numTokOk_start {t : Text} (h : numTokOk t = true) :
    ∃ c cs, t = c :: cs ∧ isNumStart c = true := by
  simp only [numTokOk, beq_iff_eq] at h
  cases t with
  | nil => simp [scanNumber] at h
  | cons c cs =>
    refine ⟨c, cs, rfl, ?_⟩
    simp only [scanNumber] at h
    by_cases hs : isSign c = true
    · simp [isNumStart, hs]
    · simp only [hs, Bool.false_eq_true, ↓reduceIte] at h
      simp only [scanUnsigned, spanP] at h
      by_cases hd : c.isDigit = true
      · simp [isNumStart, hd]
      · simp only [hd, Bool.false_eq_true, ↓reduceIte, List.isEmpty_nil, scanDotFirst] at h
        by_cases hdot : (c == '.') = true
        · simp [isNumStart, hdot]
        · simp [hdot] at h

theorem lex_unlex : ∀ ts : List Tok, separated ts = true → lex (unlex ts) = some ts := by
  intro ts
  induction ts with
  | nil => intro _; rfl
  | cons t ts ih =>
    intro h
    simp only [separated, Bool.and_eq_true] at h
    obtain ⟨hok, hsep⟩ := h
    have ih' := ih hsep
    simp only [unlex]
    cases t with
    | word s =>
      simp only [okTok, wordOk, Bool.and_eq_true, Bool.not_eq_true', List.isEmpty_eq_false_iff] at hok
      obtain ⟨⟨hne, hall⟩, hnx⟩ := hok
      cases s with
      | nil => exact absurd rfl hne
      | cons c s' =>
        simp only [List.all_cons, Bool.and_eq_true] at hall
        simp only [unlexTok, List.cons_append]
        rw [lex_word _ hall.1, spanP_all_next hall.2 hnx, ih']; rfl
    | white w =>
      simp only [okTok, Bool.and_eq_true, Bool.not_eq_true', List.isEmpty_eq_false_iff] at hok
      obtain ⟨⟨hne, hall⟩, hnx⟩ := hok
      cases w with
      | nil => exact absurd rfl hne
      | cons c w' =>
        simp only [List.all_cons, Bool.and_eq_true] at hall
        simp only [unlexTok, List.cons_append]
        rw [lex_white _ hall.1, spanP_all_next hall.2 hnx, ih']; rfl
    | comment c =>
      simp only [okTok, Bool.and_eq_true] at hok
      obtain ⟨hall, hnx⟩ := hok
      simp only [unlexTok, List.cons_append]
      have hnx' : nextOk (fun d => !(d != '\n')) (unlex ts).head? = true := by
        cases hh : (unlex ts).head? with
        | none => rfl
        | some d => rw [hh] at hnx; simpa [nextOk] using hnx
      rw [lex_comment, spanP_all_next hall hnx', ih']; rfl
    | str n =>
      simp only [okTok] at hok
      simp only [unlexTok, List.cons_append, List.append_assoc, List.nil_append]
      rw [lex_str (nameOk_scan hok _), ih']; rfl
    | num t =>
      simp only [okTok, Bool.and_eq_true] at hok
      obtain ⟨hnum, hnx⟩ := hok
      obtain ⟨c, cs, rfl, hc⟩ := numTokOk_start hnum
      have hscan := numTokOk_scan hnum hnx
      simp only [unlexTok, List.cons_append] at hscan ⊢
      rw [lex_num hc hscan, ih']; rfl
    | debug =>
      simp only [unlexTok, List.cons_append, List.nil_append]
      rw [lex_debug, ih']; rfl

end Simaple.Dsl
