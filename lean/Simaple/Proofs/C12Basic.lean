/-
C12 helper lemmas, part 1: Python `min`/`max` over `Rat` are the lattice `min`/`max`, and the
generic "product of non-negative monotone factors" lemmas used for the damage factor.
-/
import Simaple.Model.PyPrelude
import Mathlib.Tactic.Ring
import Mathlib.Tactic.Linarith
import Mathlib.Tactic.Positivity
import Mathlib.Algebra.Order.Field.Rat

namespace Simaple.Proofs.C12
open Simaple.Py

theorem pyMin_eq (a b : Rat) : pyMin a b = min a b := by
  unfold pyMin
  split
  · next h => exact (min_eq_right (le_of_lt h)).symm
  · next h => exact (min_eq_left (not_lt.mp h)).symm

theorem pyMax_eq (a b : Rat) : pyMax a b = max a b := by
  unfold pyMax
  split
  · next h => exact (max_eq_right (le_of_lt h)).symm
  · next h => exact (max_eq_left (not_lt.mp h)).symm

/-- two non-negative monotone factors -/
theorem mul_mono2 {a a' b b' : Rat} (ha : 0 ≤ a) (haa : a ≤ a') (hb : 0 ≤ b) (hbb : b ≤ b') :
    a * b ≤ a' * b' :=
  mul_le_mul haa hbb hb (le_trans ha haa)

/-- The generic lemma behind every `damage_factor_mono`: a product of six stat-dependent factors, each
    non-negative at the smaller stat block and not smaller at the larger one, times non-negative
    constants, does not decrease. -/
theorem prod6_mono {g a c b t e g' a' c' b' t' e' k₁ k₂ k₃ : Rat}
    (hg : 0 ≤ g) (hgg : g ≤ g') (ha : 0 ≤ a) (haa : a ≤ a') (hc : 0 ≤ c) (hcc : c ≤ c')
    (hb : 0 ≤ b) (hbb : b ≤ b') (ht : 0 ≤ t) (htt : t ≤ t') (he : 0 ≤ e) (hee : e ≤ e')
    (h₁ : 0 ≤ k₁) (h₂ : 0 ≤ k₂) (h₃ : 0 ≤ k₃) :
    g * a * c * b * t * e * k₁ * k₂ * k₃ ≤ g' * a' * c' * b' * t' * e' * k₁ * k₂ * k₃ := by
  have p1 := mul_mono2 hg hgg ha haa
  have n1 : 0 ≤ g * a := mul_nonneg hg ha
  have p2 := mul_mono2 n1 p1 hc hcc
  have n2 : 0 ≤ g * a * c := mul_nonneg n1 hc
  have p3 := mul_mono2 n2 p2 hb hbb
  have n3 : 0 ≤ g * a * c * b := mul_nonneg n2 hb
  have p4 := mul_mono2 n3 p3 ht htt
  have n4 : 0 ≤ g * a * c * b * t := mul_nonneg n3 ht
  have p5 := mul_mono2 n4 p4 he hee
  exact mul_le_mul_of_nonneg_right (mul_le_mul_of_nonneg_right (mul_le_mul_of_nonneg_right p5 h₁) h₂) h₃

end Simaple.Proofs.C12
