import Simaple.Model.JobRunner
import Simaple.Proofs.Router
/-! lemmas about the end-to-end job model (core Lean only):
    * the `.previous_callbacks` cell is a store cell (`getPending (setPending s p) = p`);
    * the hash tables between dispatches change nothing: `routeC = Simaple.Router.route clockCodec`,
      `jobPlayC keys ds = jobPlayG ds`;
    * the total router agrees with `route` wherever `route` answers. -/
namespace Simaple.JobRunner
open Lean Simaple.Dispatch Simaple.Router Simaple.Engine

/-! ### the pending-callbacks cell -/

theorem decRat_encRat (r : Rat) : decRat (encRat r) = some r := by
  simp [decRat, encRat, Rat.mkRat_self]

theorem decPayload_encPayload (p : Payload) : decPayload (encPayload p) = some p := by
  cases p with
  | none => rfl
  | num r =>
    have h := decRat_encRat r
    simp only [encPayload]
    unfold decPayload
    simp only [encRat] at h ⊢
    simp [h]
  | obj s => rfl

theorem decAction_encAction (a : Action) : decAction (encAction a) = some a := by
  simp [decAction, encAction, decPayload_encPayload]

theorem decPair_encPair (p : Action × Action) : decPair (encPair p) = some p := by
  simp [decPair, encPair, decAction_encAction]

theorem decPending_encPending (p : List (Action × Action)) : decPending (encPending p) = p := by
  simp only [decPending, encPending, List.filterMap_map]
  have : (decPair ∘ encPair) = some := by funext x; simp [decPair_encPair]
  rw [this, List.filterMap_some]

/-- **the store-cell law** of `previous_callbacks` -/
theorem getPending_setPending (s : Store Json) (p : List (Action × Action)) : getPending (setPending s p) = p := by
  simp [getPending, setPending, get_set_same, decPending_encPending]

theorem pendingAddr_ne_clockAddr : pendingAddr ≠ clockAddr := by decide

theorem clock_setPending (s : Store Json) (p : List (Action × Action)) : clock (setPending s p) = clock s := by
  simp [clock, clockView, setPending, get_set_other _ _ _ _ pendingAddr_ne_clockAddr]

/-! ### the hash tables are invisible -/

theorem tableOf_aux (s : Store Json) (addrs : List String) :
    ∀ (hm : Std.HashMap String (Option Json)) (a : String),
      (addrs.foldl (fun hm k => hm.insert k (s k)) hm)[a]? = if a ∈ addrs then some (s a) else hm[a]? := by
  induction addrs with
  | nil => intro hm a; simp
  | cons k ks ih =>
    intro hm a
    rw [List.foldl_cons, ih]
    by_cases h1 : a ∈ ks
    · simp [h1]
    · by_cases h2 : k = a
      · subst h2; simp [h1]
      · have h3 : ¬ a = k := fun h => h2 h.symm
        simp [h1, h2, h3, Std.HashMap.getElem?_insert]

theorem tableOf_get (addrs : List String) (s : Store Json) (a : String) :
    (tableOf addrs s)[a]? = if a ∈ addrs then some (s a) else none := by
  unfold tableOf
  rw [tableOf_aux]
  simp

/-- answering the listed addresses from a table of `s'` and the others from `base` is `s'`, provided `s'` and
    `base` agree off the list -/
theorem lookupIn_tableOf (addrs : List String) (s' base : Store Json) (h : ∀ a, a ∉ addrs → s' a = base a) :
    lookupIn (tableOf addrs s') base = s' := by
  funext a
  simp only [lookupIn, tableOf_get]
  by_cases ha : a ∈ addrs
  · simp [ha]
  · simp [ha, h a ha]

theorem runCompC_eq (d : CompDisp Json) (a : Action) (s : Store Json) : runCompC d a s = runComp d a s := by
  unfold runCompC runComp
  cases hh : d.handle a with
  | none => rfl
  | some mr =>
    obtain ⟨m, r⟩ := mr
    simp only
    cases hd : dispatch d.comp m r s with
    | none => rfl
    | some x =>
      simp only
      have hf := Simaple.Props.C08.dispatch_frame d.comp m r s x hd
      rw [lookupIn_tableOf d.comp.boundAddrs x.1 s (fun b hb => hf b hb)]

theorem runCompsC_eq (ds : List (CompDisp Json)) (a : Action) : ∀ s, runCompsC ds a s = runComps ds a s := by
  induction ds with
  | nil => intro s; rfl
  | cons d ds ih =>
    intro s
    simp only [runCompsC, runComps, runCompC_eq]
    cases runComp d a s with
    | none => rfl
    | some r1 =>
      simp only [ih]
      cases runComps ds a r1.1 <;> rfl

theorem timer_of_not_elapse (a : Action) (s : Store Json) (h : ¬ (a.name = "*" ∧ a.method = "elapse")) :
    timer clockCodec a s = s := by
  simp [timer, h]

theorem timer_frame (a : Action) (s : Store Json) (b : String) (hb : b ∉ [clockAddr]) :
    timer clockCodec a s b = s b := by
  have hne : clockAddr ≠ b := by intro h; exact hb (by simp [h])
  unfold timer
  split
  · exact get_set_other _ _ _ _ hne
  · rfl

/-- **the router that is run is `Simaple.Router.route`** -/
theorem routeC_eq_route (ds : List (CompDisp Json)) (a : Action) (s : Store Json) :
    routeC ds a s = route clockCodec ds a s := by
  unfold routeC route
  rw [runCompsC_eq]
  cases runComps ds a s with
  | none => rfl
  | some r =>
    simp only
    by_cases he : a.name = "*" ∧ a.method = "elapse"
    · simp only [he, and_self, if_true]
      rw [lookupIn_tableOf [clockAddr] (timer clockCodec a r.1) r.1 (fun b hb => timer_frame a r.1 b hb)]
    · simp only [he, if_false, timer_of_not_elapse a r.1 he]

/-- **the total router agrees with `route` on error-free calls** -/
theorem routeT_of_some (ds : List (CompDisp Json)) (a : Action) (s : Store Json) (r : Store Json × List Ev)
    (h : route clockCodec ds a s = some r) : routeT ds a s = (r.1, r.2.map toEvent) := by
  simp [routeT, routeC_eq_route, h]

theorem routeT_of_none (ds : List (CompDisp Json)) (a : Action) (s : Store Json)
    (h : route clockCodec ds a s = none) :
    routeT ds a s = (timer clockCodec a s, [toEvent (errorEv a.name a.method "ValueError: no entity exists")]) := by
  simp [routeT, routeC_eq_route, h]

/-- the clock after the bare timer -/
theorem timer_clock (a : Action) (s : Store Json) : clock (timer clockCodec a s) = clock s + elapseOf a := by
  have h : route clockCodec [] a s = some (timer clockCodec a s, []) := rfl
  exact route_clock clockCodec [] (by intro d hd; cases hd) a s _ h

theorem noClockBind_spec (ds : List (CompDisp Json)) (h : noClockBind ds = true) :
    ∀ d ∈ ds, clockAddr ∉ d.comp.boundAddrs := by
  intro d hd
  have := (List.all_eq_true.mp h) d hd
  simpa using this

/-- `hRouter` for the total router of the job -/
theorem routeT_clock (ds : List (CompDisp Json)) (hb : noClockBind ds = true) (a : Action) (s : Store Json) :
    clock (routeT ds a s).1 = clock s + elapseOf a := by
  cases h : route clockCodec ds a s with
  | none => rw [routeT_of_none ds a s h]; exact timer_clock a s
  | some r =>
    rw [routeT_of_some ds a s r h]
    exact route_clock clockCodec ds (noClockBind_spec ds hb) a s r h

/-! ### guard and compaction of `play` -/

theorem jobPlayG_of_pendOk (ds : List (CompDisp Json)) (a : Action) (s : Store Json) (h : pendOk s = true) :
    jobPlayG ds a s = jobPlay ds s a := by
  simp [jobPlayG, h]

/-- **what the driver runs is `jobPlayG`** -/
theorem jobPlayC_eq (keys : List String) (ds : List (CompDisp Json)) : jobPlayC keys ds = jobPlayG ds := by
  funext a s
  simp only [jobPlayC]
  rw [lookupIn_tableOf keys _ _ (fun _ _ => rfl)]

theorem getPending_jobPlay (ds : List (CompDisp Json)) (s : Store Json) (a : Action) :
    getPending (jobPlay ds s a).1 = callbacksOf (jobPlay ds s a).2 := by
  simp [jobPlay, play, getPending_setPending]

end Simaple.JobRunner
