/-
Helper lemmas for the part file of C17 (`Props/C17_Parts.lean`): the finite table facts about spell traces
(`decide +kernel` over the generated tables) and their lifting to every gear meta, non-negativity of the bonus
part, and the evaluation lemmas that let the concrete blueprints instantiate the composition theorems of
`Props/C17.lean`.
-/
import Simaple.Model.GearParts
import Simaple.Proofs.GearBlueprint
import Simaple.Props.C17

namespace Simaple.Proofs.GearParts
open Simaple.Gen Simaple.Gen.GearParts Simaple.Gen.Starforce Simaple.Model.GearParts
open Simaple.Model.Starforce Simaple.Model.GearBlueprint Simaple.Proofs.GearBlueprint Simaple.Props.C11

/-! ### spell traces: the finite facts -/

/-- the values `get_spell_trace_rank` can take -/
def ranks : List Int := [0, 1, 2]
/-- the values `order4` can take -/
def o4s : List (Option (Int × Int)) := [none, some (1, 1), some (1, 0), some (0, 1)]

/-- every declared field of the stat block is non-negative -/
def AllNonneg (s : Stat) : Prop := ∀ f ∈ Stat.fields, 0 ≤ f.2 s
instance (s : Stat) : Decidable (AllNonneg s) := by unfold AllNonneg; infer_instance

/-- a defined, non-negative spell-trace result without a multiplicative part -/
def goodResult : Except PErr Stat → Bool
  | .ok s => decide (AllNonneg s) && decide (s.final_damage_multiplier = 0) && decide (s.ignored_defence = 0)
  | .error _ => false

/-- every branch × rank × listed probability the branch has a table entry for × listed stat kind × order-4
    extra: the look-ups are defined (entry present, row long enough, right arity) and the result is good -/
theorem core_table :
    (Branch.all.all fun b => ranks.all fun r => PROBABILITIES.all fun p => STAT_PROP_TYPES.all fun k =>
      o4s.all fun o => !(keysOf b).contains p || goodResult (improvementCore b r p k o)) = true := by
  decide +kernel

theorem branch_mem (b : Branch) : b ∈ Branch.all := by cases b <;> decide

theorem rank_mem (l : Int) : get_spell_trace_rank l ∈ ranks := by
  unfold get_spell_trace_rank ranks
  repeat' split
  all_goals decide

theorem order4_mem (m : SFMeta) (o : Int) : order4 m o ∈ o4s := by
  unfold order4 o4s
  split
  · by_cases h0 : m.req_job = 0
    · simp [h0, boolInt]
    · rcases Int.emod_two_eq (m.req_job / 2) with h | h <;> simp [h0, h, boolInt]
  · simp

theorem trace_good {m : SFMeta} {t : SpellTrace} (h : TraceLegal m t) :
    goodResult (t.calculate_improvement m) = true := by
  obtain ⟨_, hp, hk⟩ := h
  have hp' := List.mem_filter.mp hp
  have := core_table
  simp only [List.all_eq_true] at this
  have := this _ (branch_mem (branchOf m.type)) _ (rank_mem m.req_level) _ hp'.1 _ hk _ (order4_mem m t.order)
  simp only [hp'.2, Bool.not_true, Bool.false_or] at this
  exact this

theorem trace_ok {m : SFMeta} {t : SpellTrace} (h : TraceLegal m t) :
    ∃ s, t.calculate_improvement m = .ok s ∧ AllNonneg s ∧ s.final_damage_multiplier = 0 ∧ s.ignored_defence = 0 := by
  have := trace_good h
  cases hr : t.calculate_improvement m with
  | error e => rw [hr] at this; simp [goodResult] at this
  | ok s =>
    rw [hr] at this
    simp only [goodResult, Bool.and_eq_true, decide_eq_true_eq] at this
    exact ⟨s, rfl, this.1.1, this.1.2, this.2⟩

theorem statNonneg_of_all {s : Stat} (h : AllNonneg s) : StatNonneg s := by
  unfold AllNonneg at h
  simp [Stat.fields] at h
  simp only [StatNonneg]
  obtain ⟨h1, h2, h3, h4, _, _, _, _, _, _, _, _, h13, h14, _, _, _, _, _, _, _, _, h23, h24, _⟩ := h
  exact ⟨h1, h4, h3, h2, h13, h14, h23, h24⟩

/-! ### n equal parts -/

theorem stack_succ (t : Stat) (hfd : t.final_damage_multiplier = 0) (hig : t.ignored_defence = 0) (n : Nat) :
    (t.stack (n : Rat)).add t = t.stack ((n + 1 : Nat) : Rat) := by
  cases t
  simp only at hfd hig
  subst hfd hig
  simp only [Stat.stack, Stat.add, Stat.mk.injEq]
  push_cast
  and_intros <;> ring

/-- applying the same spell-trace improvement n times is n times the improvement, in every field -/
theorem sum_replicate_eq_stack (t : Stat) (hfd : t.final_damage_multiplier = 0) (hig : t.ignored_defence = 0)
    (n : Nat) : Stat.sum (List.replicate n t) = t.stack (n : Rat) := by
  induction n with
  | zero =>
    rw [List.replicate_zero, stat_sum_nil]
    cases t
    simp [Stat.stack, Stat.zero]
  | succ k ih => rw [List.replicate_succ', stat_sum_snoc, ih, stack_succ t hfd hig]

theorem sum_replicate_zero (n : Nat) : Stat.sum (List.replicate n Stat.zero) = Stat.zero := by
  induction n with
  | zero => rw [List.replicate_zero, stat_sum_nil]
  | succ k ih => rw [List.replicate_succ', stat_sum_snoc, ih, stat_add_zero]

/-! ### bonus -/

theorem obsToStat_nonneg {o : Simaple.Bonus.Obs} (h1 : 0 ≤ o.sdil.s) (h2 : 0 ≤ o.sdil.d) (h3 : 0 ≤ o.sdil.i)
    (h4 : 0 ≤ o.sdil.l) (h5 : 0 ≤ o.mul.s) (h6 : 0 ≤ o.mul.d) (h7 : 0 ≤ o.mul.i) (h8 : 0 ≤ o.mul.l)
    (h9 : 0 ≤ o.mhp) (h10 : 0 ≤ o.mmp) (h11 : 0 ≤ o.att) (h12 : 0 ≤ o.matt) (h13 : 0 ≤ o.boss) (h14 : 0 ≤ o.dmg) :
    AllNonneg (obsToStat o) := by
  unfold AllNonneg
  simp [Stat.fields, obsToStat, *]

theorem ceilDiv_nonneg {n : Int} (h : 0 ≤ n) : 0 ≤ Simaple.Bonus.ceilDiv n 1000000 := by
  unfold Simaple.Bonus.ceilDiv; omega

theorem gradeMultiplier_nonneg (b : Bool) (g : Int) : 0 ≤ Simaple.Bonus.gradeMultiplierE4 b g := by
  unfold Simaple.Bonus.gradeMultiplierE4
  repeat' split
  all_goals decide

theorem zlBasis_nonneg {b : Int} (h : 0 ≤ b) : 0 ≤ Simaple.Bonus.zlBasis b := by
  unfold Simaple.Bonus.zlBasis
  repeat' split
  all_goals omega

theorem attackValue_nonneg {m : Simaple.Bonus.Meta} (ha : 0 ≤ m.baseAtt) (hm : 0 ≤ m.baseMatt) {g : Int}
    (hg : 0 ≤ g) : 0 ≤ Simaple.Bonus.attackValue m g := by
  unfold Simaple.Bonus.attackValue
  have hb : 0 ≤ (if m.baseAtt > m.baseMatt then m.baseAtt else m.baseMatt) := by split <;> assumption
  have hgm := gradeMultiplier_nonneg m.bossReward g
  cases hw : m.wclass <;> simp only
  · exact hg
  all_goals
    apply ceilDiv_nonneg
    apply Int.mul_nonneg
    · apply Int.mul_nonneg _ hgm
      first
        | exact hb
        | (split
           · exact zlBasis_nonneg hb
           · exact hb)
    · repeat' split
      all_goals decide

theorem improve_nonneg {m : Simaple.Bonus.Meta} (hl : 0 ≤ m.reqLevel) (ha : 0 ≤ m.baseAtt) (hm : 0 ≤ m.baseMatt)
    (k : Simaple.Bonus.Kind) {g : Int} (hg : 0 ≤ g) : AllNonneg (obsToStat (Simaple.Bonus.improve m k g)) := by
  have hsb : 0 ≤ Simaple.Bonus.singleBasis m.reqLevel * g :=
    Int.mul_nonneg (by unfold Simaple.Bonus.singleBasis; omega) hg
  have hdb : 0 ≤ Simaple.Bonus.dualBasis m.reqLevel * g :=
    Int.mul_nonneg (by unfold Simaple.Bonus.dualBasis; omega) hg
  have hhp : 0 ≤ m.reqLevel / 10 * 30 * g := Int.mul_nonneg (by omega) hg
  have hat := attackValue_nonneg ha hm hg
  have h2 : 0 ≤ g * 2 := by omega
  cases k <;>
    (apply obsToStat_nonneg <;>
      simp only [Simaple.Bonus.improve, Simaple.Bonus.ofSdil, Simaple.Bonus.Obs.zero, Simaple.Bonus.V4.zero] <;>
      first | exact Int.le_refl 0 | assumption)

/-! ### evaluation of the parts of a blueprint -/

theorem evalAll_replicate {α β : Type} {f : α → Except PErr β} {x : α} {y : β} (h : f x = .ok y) (n : Nat) :
    evalAll f (List.replicate n x) = .ok (List.replicate n y) := by
  induction n with
  | zero => rfl
  | succ k ih => simp only [List.replicate_succ, evalAll, h, ih]

theorem evalAll_ok {α β : Type} {f : α → Except PErr β} {xs : List α} (h : ∀ x ∈ xs, ∃ y, f x = .ok y) :
    ∃ ys, evalAll f xs = .ok ys := by
  induction xs with
  | nil => exact ⟨[], rfl⟩
  | cons x xs ih =>
    obtain ⟨y, hy⟩ := h x (by simp)
    obtain ⟨ys, hys⟩ := ih (fun z hz => h z (List.mem_cons_of_mem _ hz))
    exact ⟨y :: ys, by simp only [evalAll, hy, hys]⟩

/-- `build` once the parts are known to evaluate: the existing composition model on the evaluated parts -/
theorem build_of_parts (bp : GeneralizedGearBlueprint) {ts ss bs : List Stat} {ex : Option Stat}
    (ht : bp.traceStats = .ok ts) (hs : bp.scrollStats = .ok ss) (hb : bp.bonusStats = .ok bs)
    (he : bp.exceptionalStat = .ok ex) :
    bp.build = liftSF (Simaple.Model.GearBlueprint.build (bp.evaluated ts ss bs ex)) := by
  simp only [GeneralizedGearBlueprint.build, ht, hs, hb, he]

/-- the star-force exception of `build` does not depend on the parts evaluated after star force -/
theorem build_error_indep (b b' : Blueprint) (hm : b'.meta = b.meta) (hb : b'.base = b.base)
    (ht : b'.spell_traces = b.spell_traces) (hs : b'.scrolls = b.scrolls) (hst : b'.star = b.star) (e : Err)
    (h : Simaple.Model.GearBlueprint.build b = .error e) : Simaple.Model.GearBlueprint.build b' = .error e := by
  rw [build_eq] at h ⊢
  simp only [scrolled, hm, hb, ht, hs, hst] at h ⊢
  split at h
  · exact h
  · cases h

/-- a well-formed bonus spec contributes a defined improvement -/
theorem bonus_ok {m : GearMeta} {k : Simaple.Bonus.Kind} {g : Int}
    (hg : Simaple.Bonus.validGrade (bonusMeta m) g = true) :
    bonusImprovement m k g = .ok (obsToStat (Simaple.Bonus.improve (bonusMeta m) k g)) := by
  simp only [Simaple.Bonus.validGrade, Bool.and_eq_true, decide_eq_true_eq] at hg
  obtain ⟨⟨h1, h7⟩, hv⟩ := hg
  unfold bonusImprovement
  simp only [hv, Bool.not_true, Bool.false_eq_true, if_false]
  have hA : ¬ (g - 1 ≥ 7 ∨ g - 1 < -7) := by omega
  have hB : ¬ (g - 1 < 0) := by omega
  split
  · simp only [Bool.or_eq_true, decide_eq_true_eq, hA, if_false]
  · rfl

theorem bonusStats_ok (bp : GeneralizedGearBlueprint) (h : ∀ b ∈ bp.bonuses, b.wellFormed bp.meta = true) :
    ∃ bs, bp.bonusStats = .ok bs := by
  unfold GeneralizedGearBlueprint.bonusStats
  have h1 : ∃ gs, evalAll BonusSpec.toBonus bp.bonuses = .ok gs ∧
      ∀ kg ∈ gs, Simaple.Bonus.validGrade (bonusMeta bp.meta) kg.2 = true := by
    generalize bp.bonuses = l at h
    induction l with
    | nil => exact ⟨[], rfl, by simp⟩
    | cons b bs ih =>
      obtain ⟨gs, hgs, hv⟩ := ih (fun z hz => h z (List.mem_cons_of_mem _ hz))
      have hb := h b (by simp)
      unfold BonusSpec.wellFormed at hb
      cases hg : b.get_grade with
      | error e => simp [hg] at hb
      | ok g =>
        simp only [hg] at hb
        refine ⟨(b.bonus_type, g) :: gs, by simp only [evalAll, BonusSpec.toBonus, hg, hgs], ?_⟩
        intro kg hkg
        rcases List.mem_cons.mp hkg with rfl | hkg
        · exact hb
        · exact hv kg hkg
  obtain ⟨gs, hgs, hv⟩ := h1
  rw [hgs]
  exact evalAll_ok (fun kg hkg => ⟨_, bonus_ok (hv kg hkg)⟩)

/-! ### practical blueprints -/

/-- well-formed practical blueprint: non-negative level requirement and base stat; the spell trace (if given) is
    legal on the gear; the scroll (if given) accepts the gear and has non-negative
    STR/DEX/INT/LUK/attack/magic attack/MHP/MMP; every bonus spec has a grade that exists on the gear -/
def WFP (p : PracticalGearBlueprint) : Prop :=
  0 ≤ p.meta.sf.req_level ∧ StatNonneg p.meta.base_stat ∧
  (∀ t, p.spell_trace = some t → TraceLegal p.meta.sf t) ∧
  (∀ s, p.scroll = some s → s.is_gear_acceptable p.meta.sf = true ∧ StatNonneg s.stat) ∧
  (∀ b ∈ p.bonuses, b.wellFormed p.meta = true)
instance (p : PracticalGearBlueprint) : Decidable (WFP p) := by
  unfold WFP
  have : Decidable (∀ t, p.spell_trace = some t → TraceLegal p.meta.sf t) := by
    cases h : p.spell_trace with
    | none => exact isTrue (by simp)
    | some t => exact decidable_of_iff (TraceLegal p.meta.sf t) (by simp)
  have : Decidable (∀ s, p.scroll = some s → s.is_gear_acceptable p.meta.sf = true ∧ StatNonneg s.stat) := by
    cases h : p.scroll with
    | none => exact isTrue (by simp)
    | some s => exact decidable_of_iff (s.is_gear_acceptable p.meta.sf = true ∧ StatNonneg s.stat) (by simp)
  infer_instance

/-- the slot part of a well-formed practical blueprint is defined and non-negative, the parts of the translated
    blueprint evaluate to `max_scroll_chance` copies of it, and the evaluated blueprint is the translation of an
    (existing-model) practical blueprint -/
theorem practical_parts {p : PracticalGearBlueprint} (h : WFP p) :
    ∃ (part : Stat) (bs : List Stat) (q : Practical),
      p.slotPart = .ok part ∧ StatNonneg part ∧
      p.translate.bonusStats = .ok bs ∧
      q.meta = p.meta.sf ∧ q.base = p.meta.base_stat ∧ q.star = p.star ∧ q.bonuses = bs ∧
      (∀ x, q.spell_trace = some x → StatNonneg x) ∧ (∀ x, q.scroll = some x → StatNonneg x) ∧
      (Stat.sum q.toGeneralized.spell_traces).add (Stat.sum q.toGeneralized.scrolls)
        = Stat.sum (List.replicate p.meta.sf.max_scroll_chance.toNat part) ∧
      (p.spell_trace.isSome = true → part.final_damage_multiplier = 0 ∧ part.ignored_defence = 0 ∧ AllNonneg part) ∧
      p.build = liftSF q.build := by
  obtain ⟨_, _, htr, hsc, hbon⟩ := h
  obtain ⟨bs, hbs⟩ := bonusStats_ok p.translate hbon
  have hex : p.translate.exceptionalStat = .ok none := rfl
  cases hsp : p.spell_trace with
  | some t =>
    obtain ⟨tv, htv, hnn, hfd, hig⟩ := trace_ok (htr t hsp)
    refine ⟨tv, bs, { «meta» := p.meta.sf, base := p.meta.base_stat, spell_trace := some tv, scroll := none,
                       star := p.star, bonuses := bs }, ?_, statNonneg_of_all hnn, hbs, rfl, rfl, rfl, rfl,
            ?_, ?_, ?_, ?_, ?_⟩
    · simp only [PracticalGearBlueprint.slotPart, hsp, htv]
    · intro x hx; cases hx; exact statNonneg_of_all hnn
    · intro x hx; cases hx
    · simp only [Practical.toGeneralized, stat_sum_nil, stat_add_zero]
    · intro _; exact ⟨hfd, hig, hnn⟩
    · have ht : p.translate.traceStats = .ok (List.replicate p.meta.sf.max_scroll_chance.toNat tv) := by
        simp only [GeneralizedGearBlueprint.traceStats, PracticalGearBlueprint.translate, hsp]
        exact evalAll_replicate htv _
      have hs : p.translate.scrollStats = .ok [] := by
        simp only [GeneralizedGearBlueprint.scrollStats, PracticalGearBlueprint.translate, hsp]
        rfl
      rw [PracticalGearBlueprint.build, build_of_parts p.translate ht hs hbs hex]
      rfl
  | none =>
    cases hso : p.scroll with
    | some s =>
      obtain ⟨hacc, hsnn⟩ := hsc s hso
      have hsv : Scroll.calculate_improvement p.meta.sf s = .ok s.stat := by
        simp only [Scroll.calculate_improvement, hacc, Bool.not_true, Bool.false_eq_true, if_false]
      refine ⟨s.stat, bs, { «meta» := p.meta.sf, base := p.meta.base_stat, spell_trace := none, scroll := some s.stat,
                             star := p.star, bonuses := bs }, ?_, hsnn, hbs, rfl, rfl, rfl, rfl, ?_, ?_, ?_, ?_, ?_⟩
      · simp only [PracticalGearBlueprint.slotPart, hsp, hso, hsv]
      · intro x hx; cases hx
      · intro x hx; cases hx; exact hsnn
      · simp only [Practical.toGeneralized, stat_sum_nil, stat_zero_add]
      · intro hx; simp at hx
      · have ht : p.translate.traceStats = .ok [] := by
          simp only [GeneralizedGearBlueprint.traceStats, PracticalGearBlueprint.translate, hsp]
          rfl
        have hs : p.translate.scrollStats = .ok (List.replicate p.meta.sf.max_scroll_chance.toNat s.stat) := by
          simp only [GeneralizedGearBlueprint.scrollStats, PracticalGearBlueprint.translate, hsp, hso]
          exact evalAll_replicate hsv _
        rw [PracticalGearBlueprint.build, build_of_parts p.translate ht hs hbs hex]
        rfl
    | none =>
      refine ⟨Stat.zero, bs, { «meta» := p.meta.sf, base := p.meta.base_stat, spell_trace := none, scroll := none,
                               star := p.star, bonuses := bs }, ?_, statNonneg_zero, hbs, rfl, rfl, rfl, rfl,
              ?_, ?_, ?_, ?_, ?_⟩
      · simp only [PracticalGearBlueprint.slotPart, hsp, hso]
      · intro x hx; cases hx
      · intro x hx; cases hx
      · simp only [Practical.toGeneralized, stat_sum_nil, stat_add_zero, sum_replicate_zero]
      · intro hx; simp at hx
      · have ht : p.translate.traceStats = .ok [] := by
          simp only [GeneralizedGearBlueprint.traceStats, PracticalGearBlueprint.translate, hsp]
          rfl
        have hs : p.translate.scrollStats = .ok [] := by
          simp only [GeneralizedGearBlueprint.scrollStats, PracticalGearBlueprint.translate, hsp, hso]
          rfl
        rw [PracticalGearBlueprint.build, build_of_parts p.translate ht hs hbs hex]
        rfl

end Simaple.Proofs.GearParts
