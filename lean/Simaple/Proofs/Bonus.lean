import Simaple.Model.Bonus
/-!
Helper lemmas for C18 (bonus-option inference): algebra of `V4`/`Obs`, facts about the lookup table and
the candidate table, soundness and completeness of `_search_bonus_recursive` and `_search_bonus`.
-/
namespace Simaple.Bonus

/-! ### `V4` algebra -/
namespace V4
@[simp] theorem add_s (a b : V4) : (a + b).s = a.s + b.s := rfl
@[simp] theorem add_d (a b : V4) : (a + b).d = a.d + b.d := rfl
@[simp] theorem add_i (a b : V4) : (a + b).i = a.i + b.i := rfl
@[simp] theorem add_l (a b : V4) : (a + b).l = a.l + b.l := rfl
@[simp] theorem sub_s (a b : V4) : (a - b).s = a.s - b.s := rfl
@[simp] theorem sub_d (a b : V4) : (a - b).d = a.d - b.d := rfl
@[simp] theorem sub_i (a b : V4) : (a - b).i = a.i - b.i := rfl
@[simp] theorem sub_l (a b : V4) : (a - b).l = a.l - b.l := rfl
@[simp] theorem zero_s : V4.zero.s = 0 := rfl
@[simp] theorem zero_d : V4.zero.d = 0 := rfl
@[simp] theorem zero_i : V4.zero.i = 0 := rfl
@[simp] theorem zero_l : V4.zero.l = 0 := rfl

theorem add_assoc (a b c : V4) : a + b + c = a + (b + c) := by ext <;> simp <;> omega
theorem add_comm (a b : V4) : a + b = b + a := by ext <;> simp <;> omega
@[simp] theorem add_zero (a : V4) : a + V4.zero = a := by ext <;> simp
@[simp] theorem zero_add (a : V4) : V4.zero + a = a := by ext <;> simp
theorem sub_add_cancel (a b : V4) : a - b + b = a := by ext <;> simp <;> omega
theorem add_sub_cancel_left (a b : V4) : a + b - a = b := by ext <;> simp <;> omega

theorem isZero_iff (a : V4) : a.isZero = true ↔ a = V4.zero := by
  constructor
  · intro h
    simp only [isZero, Bool.and_eq_true, beq_iff_eq] at h
    ext <;> simp <;> omega
  · intro h; subst h; rfl

/-- the component selected by a single-stat kind -/
def comp (v : V4) : Kind → Int
  | .str => v.s | .dex => v.d | .int => v.i | .luk => v.l | _ => 0

/-- the non-negative vectors -/
def NonNeg (v : V4) : Prop := 0 ≤ v.s ∧ 0 ≤ v.d ∧ 0 ≤ v.i ∧ 0 ≤ v.l

theorem hasNeg_false_of_nonneg {v : V4} (h : v.NonNeg) : v.hasNeg = false := by
  obtain ⟨h1, h2, h3, h4⟩ := h
  simp only [hasNeg, Bool.or_eq_false_iff, decide_eq_false_iff_not]
  omega
end V4

/-- a single-stat kind -/
def isSingleStat (k : Kind) : Prop := k = .str ∨ k = .dex ∨ k = .int ∨ k = .luk

/-! ### grades -/

theorem mem_grades_iff (m : Meta) (g : Int) : g ∈ grades m ↔ validGrade m g = true := by
  unfold grades validGrade validateGrade
  cases hb : m.bossReward <;> simp <;> omega

theorem mem_gradeRange_iff (m : Meta) (g : Int) : g ∈ gradeRange m ↔ g ∈ grades m := by
  unfold grades gradeRange
  cases hb : m.bossReward <;> simp <;> omega

theorem grade_pos {m : Meta} {g : Int} (h : g ∈ grades m) : 1 ≤ g := by
  have := (mem_grades_iff m g).1 h
  simp only [validGrade, Bool.and_eq_true, decide_eq_true_eq] at this
  omega

theorem lookup_of_mem {m : Meta} {g : Int} (h : g ∈ grades m) (t : Kind) :
    lookup m t g = (improve m t g).sdil := by
  unfold lookup
  rw [if_pos ((mem_gradeRange_iff m g).2 h)]

theorem singleBasis_pos {r : Int} (h : 0 ≤ r) : 1 ≤ singleBasis r := by unfold singleBasis; omega
theorem dualBasis_pos {r : Int} (h : 0 ≤ r) : 1 ≤ dualBasis r := by unfold dualBasis; omega

/-! ### which components a STR/DEX/INT/LUK kind touches -/

/-- `touches bs bd bi bl k`: kind `k` raises a stat whose flag is set -/
def touchesB (bs bd bi bl : Bool) : Kind → Bool
  | .str => bs | .dex => bd | .int => bi | .luk => bl
  | .strDex => bs || bd | .strInt => bs || bi | .strLuk => bs || bl
  | .dexInt => bd || bi | .dexLuk => bd || bl | .intLuk => bi || bl
  | _ => false

def idxB (bs bd bi bl : Bool) : Nat :=
  (if bs then 1 else 0) + (if bd then 2 else 0) + (if bi then 4 else 0) + (if bl then 8 else 0)

/-- the cached candidate table, read through the mask: exactly the kinds touching a flagged stat -/
theorem cand_table : ∀ bs bd bi bl : Bool,
    candLookup[idxB bs bd bi bl]?.getD [] = statTypesByValue.filter (touchesB bs bd bi bl) := by
  decide

theorem index_eq (v : V4) :
    v.index = idxB (decide (v.s ≠ 0)) (decide (v.d ≠ 0)) (decide (v.i ≠ 0)) (decide (v.l ≠ 0)) := by
  unfold V4.index idxB
  by_cases h1 : v.s = 0 <;> by_cases h2 : v.d = 0 <;> by_cases h3 : v.i = 0 <;> by_cases h4 : v.l = 0 <;>
    simp [h1, h2, h3, h4]

theorem getTypes_eq (v : V4) :
    getTypes v = statTypesByValue.filter
      (touchesB (decide (v.s ≠ 0)) (decide (v.d ≠ 0)) (decide (v.i ≠ 0)) (decide (v.l ≠ 0))) := by
  unfold getTypes
  rw [index_eq, cand_table]

theorem mem_statTypesByValue_iff (t : Kind) : t ∈ statTypesByValue ↔ t ∈ statTypes := by
  cases t <;> decide

theorem mem_getTypes_stat {v : V4} {t : Kind} (h : t ∈ getTypes v) : t ∈ statTypes := by
  rw [getTypes_eq, List.mem_filter] at h
  exact (mem_statTypesByValue_iff t).1 h.1

/-! ### sums of table entries -/

/-- the sum of the table entries of a list of options -/
def sumLookup (m : Meta) : List Opt → V4
  | [] => V4.zero
  | o :: os => lookup m o.1 o.2 + sumLookup m os

theorem sumLookup_append (m : Meta) (a b : List Opt) :
    sumLookup m (a ++ b) = sumLookup m a + sumLookup m b := by
  induction a with
  | nil => simp [sumLookup]
  | cons x xs ih => simp [sumLookup, ih, V4.add_assoc]

/-- components of a table entry of a STR/DEX/INT/LUK kind at a legal grade: non-negative, and positive where
    the kind acts -/
theorem lookup_facts {m : Meta} (hm : 0 ≤ m.reqLevel) {t : Kind} (ht : t ∈ statTypes) {g : Int}
    (hg : g ∈ grades m) :
    (lookup m t g).NonNeg ∧
      touchesB (decide ((lookup m t g).s ≠ 0)) (decide ((lookup m t g).d ≠ 0))
        (decide ((lookup m t g).i ≠ 0)) (decide ((lookup m t g).l ≠ 0)) t = true := by
  have h1 := grade_pos hg
  have hs := singleBasis_pos hm
  have hd := dualBasis_pos hm
  have hsg : 1 ≤ singleBasis m.reqLevel * g := by
    have := Int.mul_le_mul hs h1 (by omega) (by omega); omega
  have hdg : 1 ≤ dualBasis m.reqLevel * g := by
    have := Int.mul_le_mul hd h1 (by omega) (by omega); omega
  rw [lookup_of_mem hg]
  simp only [statTypes, List.mem_cons, List.not_mem_nil, or_false] at ht
  rcases ht with h | h | h | h | h | h | h | h | h | h <;> subst h <;>
    simp only [improve, ofSdil, V4.NonNeg, touchesB, Obs.zero] <;>
    refine ⟨by omega, ?_⟩ <;> simp <;> omega

/-- the valid STR/DEX/INT/LUK option lists: `StatSol m left rem forbidden r` says that `r` uses at most `left`
    options of distinct, non-forbidden STR/DEX/INT/LUK kinds with legal grades whose table entries add up to
    `rem` -/
structure StatSol (m : Meta) (left : Nat) (rem : V4) (forbidden : List Kind) (r : List Opt) : Prop where
  len : r.length ≤ left
  nodup : (r.map Prod.fst).Nodup
  disj : ∀ o ∈ r, o.1 ∉ forbidden
  stat : ∀ o ∈ r, o.1 ∈ statTypes
  grade : ∀ o ∈ r, o.2 ∈ grades m
  sum : sumLookup m r = rem

theorem sumLookup_nonneg {m : Meta} (hm : 0 ≤ m.reqLevel) {r : List Opt}
    (hs : ∀ o ∈ r, o.1 ∈ statTypes) (hg : ∀ o ∈ r, o.2 ∈ grades m) : (sumLookup m r).NonNeg := by
  induction r with
  | nil => simp [sumLookup, V4.NonNeg]
  | cons x xs ih =>
    have hx := (lookup_facts hm (hs x (by simp)) (hg x (by simp))).1
    have ih' := ih (fun o ho => hs o (by simp [ho])) (fun o ho => hg o (by simp [ho]))
    simp only [sumLookup, V4.NonNeg, V4.add_s, V4.add_d, V4.add_i, V4.add_l] at *
    omega

/-! ### `_search_bonus_recursive` -/

/-- every answer of the recursive search is a valid option list for its arguments -/
theorem searchRec_sound (m : Meta) : ∀ (left : Nat) (rem : V4) (forbidden : List Kind) (r : List Opt),
    searchRec m left rem forbidden = some r → StatSol m left rem forbidden r := by
  intro left
  induction left with
  | zero =>
    intro rem forbidden r h
    unfold searchRec at h
    split at h
    · rename_i hz
      have := (V4.isZero_iff rem).1 hz
      injection h with h; subst h; subst this
      exact ⟨by simp, by simp, by simp, by simp, by simp, rfl⟩
    · simp at h
  | succ n ih =>
    intro rem forbidden r h
    unfold searchRec at h
    split at h
    · rename_i hz
      have := (V4.isZero_iff rem).1 hz
      injection h with h; subst h; subst this
      exact ⟨by simp, by simp, by simp, by simp, by simp, rfl⟩
    · simp only at h
      split at h
      · simp at h
      · obtain ⟨t, ht, h⟩ := List.exists_of_findSome?_eq_some h
        split at h
        · simp at h
        · rename_i hforb
          obtain ⟨g, hg, h⟩ := List.exists_of_findSome?_eq_some h
          obtain ⟨r', hr', hrr⟩ := Option.map_eq_some_iff.1 h
          have S := ih _ _ _ hr'
          subst hrr
          refine ⟨?_, ?_, ?_, ?_, ?_, ?_⟩
          · have := S.len; simp; omega
          · rw [List.map_append, List.nodup_append]
            refine ⟨S.nodup, by simp, ?_⟩
            intro a ha b hb
            simp only [List.map_cons, List.map_nil, List.mem_singleton] at hb
            subst hb
            obtain ⟨o, ho, rfl⟩ := List.mem_map.1 ha
            have := S.disj o ho
            intro heq
            exact this (by simp [heq])
          · intro o ho
            rcases List.mem_append.1 ho with ho | ho
            · have := S.disj o ho
              intro hc; exact this (by simp [hc])
            · simp only [List.mem_singleton] at ho; subst ho; exact hforb
          · intro o ho
            rcases List.mem_append.1 ho with ho | ho
            · exact S.stat o ho
            · simp only [List.mem_singleton] at ho; subst ho; exact mem_getTypes_stat ht
          · intro o ho
            rcases List.mem_append.1 ho with ho | ho
            · exact S.grade o ho
            · simp only [List.mem_singleton] at ho; subst ho; exact hg
          · rw [sumLookup_append, S.sum]
            simp only [sumLookup, V4.add_zero]
            exact V4.sub_add_cancel _ _

/-- a remainder with a negative component in a single-stat position is never solved -/
theorem searchRec_none_of_neg (m : Meta) (left : Nat) (rem : V4) (forbidden : List Kind) {k : Kind}
    (h : rem.comp k < 0) : searchRec m left rem forbidden = none := by
  have hz : rem.isZero = false := by
    cases hz : rem.isZero
    · rfl
    · have := (V4.isZero_iff rem).1 hz
      subst this
      cases k <;> simp [V4.comp, V4.zero] at h
  have hn : rem.hasNeg = true := by
    simp only [V4.hasNeg, Bool.or_eq_true, decide_eq_true_eq]
    cases k <;> simp only [V4.comp] at h <;> omega
  unfold searchRec
  cases left <;> simp [hz, hn]

/-- the recursive search is complete: whenever the remainder is the sum of at most `left` legal options of
    distinct non-forbidden kinds, it answers -/
theorem searchRec_complete (m : Meta) (hm : 0 ≤ m.reqLevel) :
    ∀ (left : Nat) (rem : V4) (forbidden : List Kind) (S : List Opt),
      StatSol m left rem forbidden S → (searchRec m left rem forbidden).isSome = true := by
  intro left
  induction left with
  | zero =>
    intro rem forbidden S hS
    have : S = [] := List.eq_nil_of_length_eq_zero (by have := hS.len; omega)
    subst this
    have hz : rem = V4.zero := hS.sum.symm
    subst hz
    unfold searchRec
    simp [(V4.isZero_iff V4.zero).2 rfl]
  | succ n ih =>
    intro rem forbidden S hS
    unfold searchRec
    split
    · rfl
    · rename_i hz
      match S, hS with
      | [], hS =>
        exact absurd ((V4.isZero_iff rem).2 hS.sum.symm) hz
      | (t, g) :: S', hS =>
        have hnn : rem.NonNeg := by
          rw [← hS.sum]; exact sumLookup_nonneg hm hS.stat hS.grade
        simp only [V4.hasNeg_false_of_nonneg hnn, Bool.false_eq_true, if_false]
        have ht : t ∈ statTypes := hS.stat (t, g) (by simp)
        have hg : g ∈ grades m := hS.grade (t, g) (by simp)
        have hrest : (sumLookup m S').NonNeg :=
          sumLookup_nonneg hm (fun o ho => hS.stat o (by simp [ho])) (fun o ho => hS.grade o (by simp [ho]))
        rw [List.findSome?_isSome_iff]
        refine ⟨t, ?_, ?_⟩
        · -- `t` is among the candidates of the remainder
          rw [getTypes_eq, List.mem_filter]
          refine ⟨(mem_statTypesByValue_iff t).2 ht, ?_⟩
          obtain ⟨hl, htouch⟩ := lookup_facts hm ht hg
          have hsum := hS.sum
          simp only [sumLookup] at hsum
          have e1 : rem.s = (lookup m t g).s + (sumLookup m S').s := by rw [← hsum]; rfl
          have e2 : rem.d = (lookup m t g).d + (sumLookup m S').d := by rw [← hsum]; rfl
          have e3 : rem.i = (lookup m t g).i + (sumLookup m S').i := by rw [← hsum]; rfl
          have e4 : rem.l = (lookup m t g).l + (sumLookup m S').l := by rw [← hsum]; rfl
          obtain ⟨a1, a2, a3, a4⟩ := hl
          obtain ⟨b1, b2, b3, b4⟩ := hrest
          simp only [statTypes, List.mem_cons, List.not_mem_nil, or_false] at ht
          rcases ht with h | h | h | h | h | h | h | h | h | h <;> subst h <;>
            simp only [touchesB, Bool.or_eq_true, decide_eq_true_eq] at htouch ⊢ <;> omega
        · have hforb : t ∉ forbidden := hS.disj (t, g) (by simp)
          simp only [hforb, if_false]
          rw [List.findSome?_isSome_iff]
          refine ⟨g, hg, ?_⟩
          rw [Option.isSome_map]
          apply ih _ _ S'
          have hnd := hS.nodup
          simp only [List.map_cons, List.nodup_cons] at hnd
          refine ⟨?_, hnd.2, ?_, ?_, ?_, ?_⟩
          · have := hS.len; simp at this; omega
          · intro o ho hc
            rcases List.mem_append.1 hc with hc | hc
            · exact hS.disj o (by simp [ho]) hc
            · simp only [List.mem_singleton] at hc
              exact hnd.1 (hc ▸ List.mem_map_of_mem ho)
          · exact fun o ho => hS.stat o (by simp [ho])
          · exact fun o ho => hS.grade o (by simp [ho])
          · have hsum := hS.sum
            simp only [sumLookup] at hsum
            rw [← hsum]
            exact (V4.add_sub_cancel_left _ _).symm

end Simaple.Bonus
