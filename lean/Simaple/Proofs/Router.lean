import Simaple.Model.Router
import Simaple.Props.C08
/-! the clock is written by the timer only: `hRouter` of C06 derived from the frame theorem of C08 -/
namespace Simaple.Router
open Simaple.Dispatch Simaple.Engine

section
variable {ε : Type}

theorem runComp_clock (d : CompDisp ε) (hb : clockAddr ∉ d.comp.boundAddrs) (a : Action) (s : Store ε)
    (r : Store ε × List Ev) (h : runComp d a s = some r) : r.1.get clockAddr = s.get clockAddr := by
  unfold runComp at h
  cases hh : d.handle a with
  | none => simp [hh] at h; rw [← h]
  | some mr =>
    obtain ⟨m, red⟩ := mr
    simp only [hh] at h
    exact Simaple.Props.C08.dispatch_frame d.comp m red s r h clockAddr hb

theorem runComps_clock (ds : List (CompDisp ε)) (hb : ∀ d ∈ ds, clockAddr ∉ d.comp.boundAddrs) (a : Action) :
    ∀ (s : Store ε) (r : Store ε × List Ev), runComps ds a s = some r → r.1.get clockAddr = s.get clockAddr := by
  induction ds with
  | nil => intro s r h; simp [runComps] at h; rw [← h]
  | cons d ds ih =>
    intro s r h
    simp only [runComps] at h
    cases h1 : runComp d a s with
    | none => simp [h1] at h
    | some r1 =>
      simp only [h1] at h
      cases h2 : runComps ds a r1.1 with
      | none => simp [h2] at h
      | some r2 =>
        simp only [h2, Option.some.injEq] at h
        rw [← h]
        simp only
        rw [ih (fun x hx => hb x (List.mem_cons_of_mem _ hx)) r1.1 r2 h2,
            runComp_clock d (hb d (List.mem_cons_self ..)) a s r1 h1]

/-- **`hRouter`**: if no installed component dispatcher is bound to `global.time`, one router call
    changes the clock view by exactly the elapse time of its action -/
theorem route_clock (cc : ClockCodec ε) (ds : List (CompDisp ε))
    (hb : ∀ d ∈ ds, clockAddr ∉ d.comp.boundAddrs) (a : Action) (s : Store ε) (r : Store ε × List Ev)
    (h : route cc ds a s = some r) : clockView cc r.1 = clockView cc s + elapseOf a := by
  unfold route at h
  cases h1 : runComps ds a s with
  | none => simp [h1] at h
  | some r1 =>
    simp only [h1, Option.some.injEq] at h
    rw [← h]
    have hc := runComps_clock ds hb a s r1 h1
    simp only [clockView, timer]
    by_cases he : a.name = "*" ∧ a.method = "elapse"
    · simp only [he, and_self, if_true, get_set_same, cc.read_make, hc]
    · have h0 : elapseOf a = 0 := by simp [elapseOf, he]
      simp only [he, if_false, hc, h0]
      cases s.get clockAddr <;> simp [Rat.add_zero]

end
end Simaple.Router
