/-
C10 (part `Mage`) — status views never fail and never advertise a skill that would be rejected, for the
job-specific component classes of archmagefb / archmagetc / bishop and `Infinity`
(Simaple/Model/ComponentMage.lean).  Per class with a validity view: the remaining time is never negative
and, whenever the view says usable, `use` on that very state is not rejected (for the `use`s that can raise —
`Periodic.set_time_left`, `CurrentField.stack_rng` — : every successful answer is not a rejection, and
`…_use_defined` gives the parameter conditions under which no exception can arise; the harness checks those
conditions on the built components).  The other views are total functions, except `Infinity.buff`, whose
float floor division needs a non-zero `increase_interval` (`infinity_buff_defined`).
-/
import Simaple.Proofs.ComponentMage

namespace Simaple.Props.C10_Mage
open Simaple.Comp Simaple.Comp.Mage Simaple.Entity

theorem periodic_setTimeLeft_defined (per : Periodic) (d : Int) (hl : 0 < d)
    (hi : ∀ c, per.initialCounter = some c → 0 < c) : ∃ q, per.setTimeLeft d = .ok q := by
  unfold Periodic.setTimeLeft
  have : ¬ d ≤ 0 := by omega
  simp only [this, if_false]
  cases hc : per.initialCounter with
  | none => exact ⟨_, rfl⟩
  | some c =>
    have := hi c hc
    have h2 : ¬ c ≤ 0 := by omega
    simp only [h2, if_false]; exact ⟨_, rfl⟩

/-! ### PoisonNovaComponent -/
theorem poisonNova_valid_implies_accepted (p : PoisonNova.P) (s : PoisonNova.S) (h : (PoisonNova.validity p s).valid = true) :
    rejectedIn (PoisonNova.use p s).2 = false := by
  simp only [PoisonNova.validity, cooldownValidity] at h
  simp [PoisonNova.use, h, rejectedIn, REv.isReject]
theorem poisonNova_validity_nonneg (p : PoisonNova.P) (s : PoisonNova.S) : 0 ≤ (PoisonNova.validity p s).timeLeft :=
  cooldown_min_nonneg _

/-! ### PoisonChainComponent -/
theorem poisonChain_valid_implies_accepted (p : PoisonChain.P) (s : PoisonChain.S) (h : (PoisonChain.validity p s).valid = true) :
    ∀ r, PoisonChain.use p s = .ok r → rejectedIn r.2 = false := by
  simp only [PoisonChain.validity, cooldownValidity] at h
  intro r hr
  simp only [PoisonChain.use, h, Bool.not_true, Bool.false_eq_true, if_false] at hr
  cases hs : s.periodic.setTimeLeft p.lastingDuration with
  | error e => simp [hs] at hr
  | ok per => simp [hs] at hr; rw [← hr]; simp [rejectedIn, REv.isReject]
theorem poisonChain_use_defined (p : PoisonChain.P) (s : PoisonChain.S) (hl : 0 < p.lastingDuration)
    (hi : ∀ c, s.periodic.initialCounter = some c → 0 < c) : ∃ r, PoisonChain.use p s = .ok r := by
  unfold PoisonChain.use
  split
  · exact ⟨_, rfl⟩
  · obtain ⟨q, hq⟩ := periodic_setTimeLeft_defined s.periodic _ hl hi
    rw [hq]; exact ⟨_, rfl⟩
theorem poisonChain_validity_nonneg (p : PoisonChain.P) (s : PoisonChain.S) : 0 ≤ (PoisonChain.validity p s).timeLeft :=
  cooldown_min_nonneg _

/-! ### DotPunisherComponent -/
theorem dotPunisher_valid_implies_accepted (p : DotPunisher.P) (s : DotPunisher.S) (h : (DotPunisher.validity p s).valid = true) :
    rejectedIn (DotPunisher.use p s).2 = false := by
  simp only [DotPunisher.validity, cooldownValidity] at h
  simp only [DotPunisher.use, h, Bool.not_true, Bool.false_eq_true, if_false]
  rw [rejectedIn_append, rejectedIn_of_allDamage _ (allDamage_replicate _ _ _)]
  simp [rejectedIn, REv.isReject]
theorem dotPunisher_validity_nonneg (p : DotPunisher.P) (s : DotPunisher.S) : 0 ≤ (DotPunisher.validity p s).timeLeft :=
  cooldown_min_nonneg _

/-! ### IfrittComponent -/
theorem ifritt_valid_implies_accepted (p : Ifritt.P) (s : Ifritt.S) (h : (Ifritt.validity p s).valid = true) :
    ∀ r, Ifritt.use p s = .ok r → rejectedIn r.2 = false := by
  simp only [Ifritt.validity, cooldownValidity] at h
  intro r hr
  simp only [Ifritt.use, h, Bool.not_true, Bool.false_eq_true, if_false] at hr
  cases hs : s.periodic.setTimeLeft p.lastingDuration with
  | error e => simp [hs] at hr
  | ok per => simp [hs] at hr; rw [← hr]; simp [rejectedIn, REv.isReject]
theorem ifritt_use_defined (p : Ifritt.P) (s : Ifritt.S) (hl : 0 < p.lastingDuration)
    (hi : ∀ c, s.periodic.initialCounter = some c → 0 < c) : ∃ r, Ifritt.use p s = .ok r := by
  unfold Ifritt.use
  split
  · exact ⟨_, rfl⟩
  · obtain ⟨q, hq⟩ := periodic_setTimeLeft_defined s.periodic _ hl hi
    rw [hq]; exact ⟨_, rfl⟩
theorem ifritt_validity_nonneg (p : Ifritt.P) (s : Ifritt.S) : 0 ≤ (Ifritt.validity p s).timeLeft :=
  cooldown_min_nonneg _

/-! ### InfernalVenom -/
theorem infernalVenom_valid_implies_accepted (p : InfernalVenom.P) (s : InfernalVenom.S)
    (h : (InfernalVenom.validity p s).valid = true) : rejectedIn (InfernalVenom.use p s).2 = false := by
  simp only [InfernalVenom.validity, cooldownValidity] at h
  simp [InfernalVenom.use, h, rejectedIn, REv.isReject]
theorem infernalVenom_validity_nonneg (p : InfernalVenom.P) (s : InfernalVenom.S) :
    0 ≤ (InfernalVenom.validity p s).timeLeft := cooldown_min_nonneg _

/-! ### FlameSwipVI -/
theorem flameSwip_valid_implies_accepted (p : FlameSwip.P) (s : FlameSwip.S) (h : (FlameSwip.validity p s).valid = true) :
    rejectedIn (FlameSwip.use p s).2 = false := by
  simp only [FlameSwip.validity, cooldownValidity] at h
  simp [FlameSwip.use, h, rejectedIn, REv.isReject]
theorem flameSwip_validity_nonneg (p : FlameSwip.P) (s : FlameSwip.S) : 0 ≤ (FlameSwip.validity p s).timeLeft :=
  cooldown_min_nonneg _

/-! ### JupyterThunder -/
theorem jupyterThunder_valid_implies_accepted (p : JupyterThunder.P) (s : JupyterThunder.S)
    (h : (JupyterThunder.validity p s).valid = true) : ∀ r, JupyterThunder.use p s = .ok r → rejectedIn r.2 = false := by
  simp only [JupyterThunder.validity, cooldownValidity] at h
  intro r hr
  simp only [JupyterThunder.use, h, Bool.not_true, Bool.false_eq_true, if_false] at hr
  cases hs : s.periodic.setTimeLeft p.lastingDuration with
  | error e => simp [hs] at hr
  | ok per => simp [hs] at hr; rw [← hr]; simp [rejectedIn, REv.isReject]
theorem jupyterThunder_use_defined (p : JupyterThunder.P) (s : JupyterThunder.S) (hl : 0 < p.lastingDuration)
    (hi : ∀ c, s.periodic.initialCounter = some c → 0 < c) : ∃ r, JupyterThunder.use p s = .ok r := by
  unfold JupyterThunder.use
  split
  · exact ⟨_, rfl⟩
  · obtain ⟨q, hq⟩ := periodic_setTimeLeft_defined s.periodic _ hl hi
    rw [hq]; exact ⟨_, rfl⟩
theorem jupyterThunder_validity_nonneg (p : JupyterThunder.P) (s : JupyterThunder.S) :
    0 ≤ (JupyterThunder.validity p s).timeLeft := cooldown_min_nonneg _

/-! ### ThunderBreak -/
theorem thunderBreak_valid_implies_accepted (p : ThunderBreak.P) (s : ThunderBreak.S)
    (h : (ThunderBreak.validity p s).valid = true) : ∀ r, ThunderBreak.use p s = .ok r → rejectedIn r.2 = false := by
  simp only [ThunderBreak.validity, cooldownValidity] at h
  intro r hr
  simp only [ThunderBreak.use, h, Bool.not_true, Bool.false_eq_true, if_false] at hr
  cases hs : s.periodic.setTimeLeft p.lastingDuration with
  | error e => simp [hs] at hr
  | ok per => simp [hs] at hr; rw [← hr]; simp [rejectedIn, REv.isReject]
theorem thunderBreak_use_defined (p : ThunderBreak.P) (s : ThunderBreak.S) (hl : 0 < p.lastingDuration)
    (hi : ∀ c, s.periodic.initialCounter = some c → 0 < c) : ∃ r, ThunderBreak.use p s = .ok r := by
  unfold ThunderBreak.use
  split
  · exact ⟨_, rfl⟩
  · obtain ⟨q, hq⟩ := periodic_setTimeLeft_defined s.periodic _ hl hi
    rw [hq]; exact ⟨_, rfl⟩
theorem thunderBreak_validity_nonneg (p : ThunderBreak.P) (s : ThunderBreak.S) :
    0 ≤ (ThunderBreak.validity p s).timeLeft := cooldown_min_nonneg _

/-! ### ChainLightningVIComponent -/
theorem chainLightning_valid_implies_accepted (p : ChainLightning.P) (s : ChainLightning.S)
    (h : (ChainLightning.validity p s).valid = true) : ∀ r, ChainLightning.use p s = .ok r → rejectedIn r.2 = false := by
  simp only [ChainLightning.validity, cooldownValidity] at h
  intro r hr
  simp only [ChainLightning.use, h, Bool.not_true, Bool.false_eq_true, if_false] at hr
  cases hs : s.currentFields.stackRng p.prob with
  | error e => simp [hs] at hr
  | ok cf =>
    simp [hs] at hr; rw [← hr]
    simp only [rejectedIn_cons, isDamage_not_reject _ (mkDealt_isDamage _ _ _ _)]
    simp [rejectedIn, REv.isReject]
/-- `stack_rng` can only raise through the `Periodic` it builds: not with a positive field interval and duration -/
theorem chainLightning_use_defined (p : ChainLightning.P) (s : ChainLightning.S)
    (hI : 0 < s.currentFields.fieldInterval) (hD : 0 < s.currentFields.fieldDuration) :
    ∃ r, ChainLightning.use p s = .ok r := by
  have create : ∀ cf : CurrentField, cf.fieldInterval = s.currentFields.fieldInterval →
      cf.fieldDuration = s.currentFields.fieldDuration → ∃ q, cf.createNewCurrent = .ok q := by
    intro cf h1 h2
    unfold CurrentField.createNewCurrent
    have a : ¬ cf.fieldInterval ≤ 0 := by omega
    have b : ¬ cf.fieldDuration ≤ 0 := by omega
    simp [a, b, Periodic.setTimeLeft]
  have rng : ∃ q, s.currentFields.stackRng p.prob = .ok q := by
    unfold CurrentField.stackRng
    split
    · obtain ⟨q, hq⟩ := create { s.currentFields with lastForceTriggered := 0 } rfl rfl
      rw [hq]; exact ⟨_, rfl⟩
    · simp only []
      split
      · obtain ⟨q, hq⟩ := create { s.currentFields with
            stableRngCounter := s.currentFields.stableRngCounter + p.prob - 1 } rfl rfl
        rw [hq]; exact ⟨_, rfl⟩
      · exact ⟨_, rfl⟩
  unfold ChainLightning.use
  split
  · exact ⟨_, rfl⟩
  · obtain ⟨q, hq⟩ := rng
    simp only [hq]; exact ⟨_, rfl⟩
theorem chainLightning_validity_nonneg (p : ChainLightning.P) (s : ChainLightning.S) :
    0 ≤ (ChainLightning.validity p s).timeLeft := cooldown_min_nonneg _

/-! ### DivineAttackSkillComponent -/
theorem divineAttack_valid_implies_accepted (p : DivineAttack.P) (s : DivineAttack.S)
    (h : (DivineAttack.validity p s).valid = true) : rejectedIn (DivineAttack.use p s).2 = false := by
  simp only [DivineAttack.validity, cooldownValidity] at h
  simp only [DivineAttack.use, h, Bool.not_true, Bool.false_eq_true, if_false]
  simp only [rejectedIn_cons, isDamage_not_reject _ (mkDealt_isDamage _ _ _ _)]
  simp [rejectedIn, REv.isReject]
theorem divineAttack_validity_nonneg (p : DivineAttack.P) (s : DivineAttack.S) :
    0 ≤ (DivineAttack.validity p s).timeLeft := cooldown_min_nonneg _

/-! ### DivineMinion (validity can be switched off by `disable_validity`) -/
theorem divineMinion_valid_implies_accepted (p : DivineMinion.P) (s : DivineMinion.S)
    (h : (DivineMinion.validity p s).valid = true) : ∀ r, DivineMinion.use p s = .ok r → rejectedIn r.2 = false := by
  have hv := invalidate_valid _ _ h
  simp only [cooldownValidity] at hv
  intro r hr
  simp only [DivineMinion.use, hv, Bool.not_true, Bool.false_eq_true, if_false] at hr
  cases hs : s.periodic.setTimeLeft p.lastingDuration with
  | error e => simp [hs] at hr
  | ok per => simp [hs] at hr; rw [← hr]; simp [rejectedIn, REv.isReject]
theorem divineMinion_use_defined (p : DivineMinion.P) (s : DivineMinion.S) (hl : 0 < p.lastingDuration)
    (hi : ∀ c, s.periodic.initialCounter = some c → 0 < c) : ∃ r, DivineMinion.use p s = .ok r := by
  unfold DivineMinion.use
  split
  · exact ⟨_, rfl⟩
  · obtain ⟨q, hq⟩ := periodic_setTimeLeft_defined s.periodic _ hl hi
    rw [hq]; exact ⟨_, rfl⟩
theorem divineMinion_validity_nonneg (p : DivineMinion.P) (s : DivineMinion.S) :
    0 ≤ (DivineMinion.validity p s).timeLeft := by
  simp only [DivineMinion.validity, invalidate_timeLeft, cooldownValidity]; exact cooldown_min_nonneg _

/-! ### HexaAngelRayComponent -/
theorem hexaAngelRay_valid_implies_accepted (p : HexaAngelRay.P) (s : HexaAngelRay.S)
    (h : (HexaAngelRay.validity p s).valid = true) : rejectedIn (HexaAngelRay.use p s).2 = false := by
  simp only [HexaAngelRay.validity, cooldownValidity] at h
  simp only [HexaAngelRay.use, h, Bool.not_true, Bool.false_eq_true, if_false]
  have hd : ∀ e ∈ (HexaAngelRay.stackCore p s.punishingStack).2, isDamage e = true := by
    unfold HexaAngelRay.stackCore; simp only []; split <;> simp [isDamage]
  simp only [rejectedIn_append, rejectedIn_cons, isDamage_not_reject _ (mkDealt_isDamage _ _ _ _),
    rejectedIn_of_allDamage _ hd]
  simp [rejectedIn, REv.isReject]
theorem hexaAngelRay_validity_nonneg (p : HexaAngelRay.P) (s : HexaAngelRay.S) :
    0 ≤ (HexaAngelRay.validity p s).timeLeft := cooldown_min_nonneg _

/-! ### Infinity -/
theorem infinity_valid_implies_accepted (p : Infinity.P) (s : Infinity.S) (h : (Infinity.validity p s).valid = true) :
    rejectedIn (Infinity.use p s).2 = false := by
  simp only [Infinity.validity, cooldownValidity] at h
  simp [Infinity.use, h, rejectedIn, REv.isReject]
theorem infinity_validity_nonneg (p : Infinity.P) (s : Infinity.S) : 0 ≤ (Infinity.validity p s).timeLeft :=
  cooldown_min_nonneg _
/-- the `buff` view is defined whenever `increase_interval` is not zero … -/
theorem infinity_buff_defined (p : Infinity.P) (s : Infinity.S) (h : p.increaseInterval ≠ 0) :
    ∃ v, Infinity.buff p s = .ok v := by
  unfold Infinity.buff Infinity.effect
  rw [if_neg h]
  split
  · exact ⟨_, rfl⟩
  · exact ⟨_, rfl⟩
/-- … and with a zero interval it raises as soon as the buff is on (the witness) -/
theorem infinity_buff_zero_interval_raises :
    ∃ (p : Infinity.P) (s : Infinity.S), p.increaseInterval = 0 ∧ ∃ e, Infinity.buff p s = .error e :=
  ⟨⟨0, 1024, 0, 3, 0, 70, 115⟩, ⟨⟨0⟩, ⟨1024, 1024⟩⟩, rfl, _, rfl⟩

/-! non-vacuity: ready skills are listed valid -/
example : (ThunderBreak.validity ⟨40960000, 706560, 12, 10240000, 8, [2065], "D", ["D"], ["E"]⟩
    ⟨⟨0, 5⟩, { interval := 122880 }, ⟨0⟩, { interval := 122880 }⟩).valid = true := by decide
example : (DivineMinion.validity ⟨0, 614400, 0, 0, 510, 3, 266240000, false, "S", false⟩
    ⟨⟨none⟩, ⟨0⟩, { interval := 3102720 }⟩).valid = true := by decide

end Simaple.Props.C10_Mage
