/-
C12 — more of a good stat never hurts: damage, cooldown and level gap are monotone.

Property theorems only.  They are stated against the *generated* definitions of `Simaple.Gen.Core`
(regenerated on every run from simaple/core/base.py, simaple/core/damage.py and
simaple/simulate/report/dpm.py) and against `Simaple.Model.DamageCalc.getDamage`
(`DamageCalculator.get_damage`).  Numbers are exact rationals.

Hypothesis predicates (`StatHyp`, `CommonOk`, `CommonLe`, `BaseOk`, `BaseLe`, `AttOk`, `AttLe`, `reads…`)
and the stage functions `cdPercent` / `cdFlat` are defined in `Simaple/Proofs/C12Damage.lean` and
`Simaple/Proofs/C12Cooldown.lean`.
-/
import Simaple.Gen.Core
import Simaple.Model.DamageCalc
import Simaple.Proofs.C12Basic
import Simaple.Proofs.C12Cooldown
import Simaple.Proofs.C12Level
import Simaple.Proofs.C12Damage
import Mathlib.Tactic.NormNum

namespace Simaple.Props.C12
open Simaple.Gen Simaple.Py Simaple.Proofs.C12 Simaple.Model.DamageCalc

/-! ## 1. Damage factor

`StatHyp rd s s'` says, for the fields the logic reads (`rd`): at the smaller block `s` the base
stats, their multipliers and static parts, the attack value and its multiplier, damage%, boss damage%,
critical rate/damage and elemental resistance are `≥ 0` and final damage% is `≥ −100`; and `s ≤ s'`
on each of these and on `ignored_defence`.  Nothing else is assumed about the stat blocks (in
particular not `ignored_defence ≤ 100`, and nothing at all about the fields of `s'` beyond `s ≤ s'`).
`armor ≥ 0`, `attack_range_constant ≥ 0`, `mastery ≥ −1`, and the armour term of the smaller block is
non-negative (this covers "positive", the case named in the property). -/

theorem str_damage_factor_mono (l : STRBasedDamageLogic) (s s' : Stat) (armor : Rat)
    (H : StatHyp readsSTR s s') (harmor : 0 ≤ armor) (harc : 0 ≤ l.attack_range_constant)
    (hm : -1 ≤ l.mastery) (hpos : 0 ≤ l.get_armor_factor s armor) :
    l.get_damage_factor s armor ≤ l.get_damage_factor s' armor := by
  have b1 := H.baseOk .STR (by simp [readsSTR]); have b2 := H.baseOk .DEX (by simp [readsSTR])
  have l1 := H.baseLe .STR (by simp [readsSTR]); have l2 := H.baseLe .DEX (by simp [readsSTR])
  have n1 := coeff_nonneg _ s b1; have n2 := coeff_nonneg _ s b2
  have m1 := coeff_mono _ s s' b1 l1; have m2 := coeff_mono _ s s' b2 l2
  exact damage_shape_mono readsSTR (fun s => coeff .STR s * 4 + coeff .DEX s) s s' armor _ _ H
    (by positivity) (by linarith) harmor harc hm hpos

theorem int_damage_factor_mono (l : INTBasedDamageLogic) (s s' : Stat) (armor : Rat)
    (H : StatHyp readsINT s s') (harmor : 0 ≤ armor) (harc : 0 ≤ l.attack_range_constant)
    (hm : -1 ≤ l.mastery) (hpos : 0 ≤ l.get_armor_factor s armor) :
    l.get_damage_factor s armor ≤ l.get_damage_factor s' armor := by
  have b1 := H.baseOk .INT (by simp [readsINT]); have b2 := H.baseOk .LUK (by simp [readsINT])
  have l1 := H.baseLe .INT (by simp [readsINT]); have l2 := H.baseLe .LUK (by simp [readsINT])
  have n1 := coeff_nonneg _ s b1; have n2 := coeff_nonneg _ s b2
  have m1 := coeff_mono _ s s' b1 l1; have m2 := coeff_mono _ s s' b2 l2
  exact damage_shape_mono readsINT (fun s => coeff .INT s * 4 + coeff .LUK s) s s' armor _ _ H
    (by positivity) (by linarith) harmor harc hm hpos

theorem dex_damage_factor_mono (l : DEXBasedDamageLogic) (s s' : Stat) (armor : Rat)
    (H : StatHyp readsDEX s s') (harmor : 0 ≤ armor) (harc : 0 ≤ l.attack_range_constant)
    (hm : -1 ≤ l.mastery) (hpos : 0 ≤ l.get_armor_factor s armor) :
    l.get_damage_factor s armor ≤ l.get_damage_factor s' armor := by
  have b1 := H.baseOk .DEX (by simp [readsDEX]); have b2 := H.baseOk .STR (by simp [readsDEX])
  have l1 := H.baseLe .DEX (by simp [readsDEX]); have l2 := H.baseLe .STR (by simp [readsDEX])
  have n1 := coeff_nonneg _ s b1; have n2 := coeff_nonneg _ s b2
  have m1 := coeff_mono _ s s' b1 l1; have m2 := coeff_mono _ s s' b2 l2
  exact damage_shape_mono readsDEX (fun s => coeff .DEX s * 4 + coeff .STR s) s s' armor _ _ H
    (by positivity) (by linarith) harmor harc hm hpos

theorem luk_damage_factor_mono (l : LUKBasedDamageLogic) (s s' : Stat) (armor : Rat)
    (H : StatHyp readsLUK s s') (harmor : 0 ≤ armor) (harc : 0 ≤ l.attack_range_constant)
    (hm : -1 ≤ l.mastery) (hpos : 0 ≤ l.get_armor_factor s armor) :
    l.get_damage_factor s armor ≤ l.get_damage_factor s' armor := by
  have b1 := H.baseOk .LUK (by simp [readsLUK]); have b2 := H.baseOk .DEX (by simp [readsLUK])
  have l1 := H.baseLe .LUK (by simp [readsLUK]); have l2 := H.baseLe .DEX (by simp [readsLUK])
  have n1 := coeff_nonneg _ s b1; have n2 := coeff_nonneg _ s b2
  have m1 := coeff_mono _ s s' b1 l1; have m2 := coeff_mono _ s s' b2 l2
  exact damage_shape_mono readsLUK (fun s => coeff .LUK s * 4 + coeff .DEX s) s s' armor _ _ H
    (by positivity) (by linarith) harmor harc hm hpos

theorem lukdual_damage_factor_mono (l : LUKBasedDualSubDamageLogic) (s s' : Stat) (armor : Rat)
    (H : StatHyp readsLUKDual s s') (harmor : 0 ≤ armor) (harc : 0 ≤ l.attack_range_constant)
    (hm : -1 ≤ l.mastery) (hpos : 0 ≤ l.get_armor_factor s armor) :
    l.get_damage_factor s armor ≤ l.get_damage_factor s' armor := by
  have b1 := H.baseOk .LUK (by simp [readsLUKDual]); have b2 := H.baseOk .DEX (by simp [readsLUKDual])
  have b3 := H.baseOk .STR (by simp [readsLUKDual])
  have l1 := H.baseLe .LUK (by simp [readsLUKDual]); have l2 := H.baseLe .DEX (by simp [readsLUKDual])
  have l3 := H.baseLe .STR (by simp [readsLUKDual])
  have n1 := coeff_nonneg _ s b1; have n2 := coeff_nonneg _ s b2; have n3 := coeff_nonneg _ s b3
  have m1 := coeff_mono _ s s' b1 l1; have m2 := coeff_mono _ s s' b2 l2
  have m3 := coeff_mono _ s s' b3 l3
  exact damage_shape_mono readsLUKDual (fun s => coeff .LUK s * 4 + coeff .DEX s + coeff .STR s)
    s s' armor _ _ H (by positivity) (by linarith) harmor harc hm hpos

/-- The armour term is the only factor that can be negative; it is non-negative exactly when
    `armor · (100 − ignored_defence) ≤ 10000`, e.g. for every `ignored_defence ≥ 100 − 10000/armor`
    (armor 300: `ignored_defence ≥ 66.67`). -/
theorem armor_factor_nonneg_iff (l : STRBasedDamageLogic) (s : Stat) (armor : Rat) :
    0 ≤ l.get_armor_factor s armor ↔ armor * (100 - s.ignored_defence) ≤ 10000 := by
  unfold STRBasedDamageLogic.get_armor_factor
  constructor <;> intro h <;> linarith

/-- the DoT factor (base · attack · constant · 0.01) is monotone as well; shown for each logic -/
theorem str_dot_factor_mono (l : STRBasedDamageLogic) (s s' : Stat) (armor : Rat)
    (H : StatHyp readsSTR s s') (harc : 0 ≤ l.attack_range_constant) :
    l.get_dot_factor s armor ≤ l.get_dot_factor s' armor := by
  have b1 := H.baseOk .STR (by simp [readsSTR]); have b2 := H.baseOk .DEX (by simp [readsSTR])
  have l1 := H.baseLe .STR (by simp [readsSTR]); have l2 := H.baseLe .DEX (by simp [readsSTR])
  have n1 := coeff_nonneg _ s b1; have n2 := coeff_nonneg _ s b2
  have m1 := coeff_mono _ s s' b1 l1; have m2 := coeff_mono _ s s' b2 l2
  exact dot_shape_mono readsSTR (fun s => coeff .STR s * 4 + coeff .DEX s) s s' _ H.attOk H.attLe
    (by positivity) (by linarith) harc

theorem int_dot_factor_mono (l : INTBasedDamageLogic) (s s' : Stat) (armor : Rat)
    (H : StatHyp readsINT s s') (harc : 0 ≤ l.attack_range_constant) :
    l.get_dot_factor s armor ≤ l.get_dot_factor s' armor := by
  have b1 := H.baseOk .INT (by simp [readsINT]); have b2 := H.baseOk .LUK (by simp [readsINT])
  have l1 := H.baseLe .INT (by simp [readsINT]); have l2 := H.baseLe .LUK (by simp [readsINT])
  have n1 := coeff_nonneg _ s b1; have n2 := coeff_nonneg _ s b2
  have m1 := coeff_mono _ s s' b1 l1; have m2 := coeff_mono _ s s' b2 l2
  exact dot_shape_mono readsINT (fun s => coeff .INT s * 4 + coeff .LUK s) s s' _ H.attOk H.attLe
    (by positivity) (by linarith) harc

theorem dex_dot_factor_mono (l : DEXBasedDamageLogic) (s s' : Stat) (armor : Rat)
    (H : StatHyp readsDEX s s') (harc : 0 ≤ l.attack_range_constant) :
    l.get_dot_factor s armor ≤ l.get_dot_factor s' armor := by
  have b1 := H.baseOk .DEX (by simp [readsDEX]); have b2 := H.baseOk .STR (by simp [readsDEX])
  have l1 := H.baseLe .DEX (by simp [readsDEX]); have l2 := H.baseLe .STR (by simp [readsDEX])
  have n1 := coeff_nonneg _ s b1; have n2 := coeff_nonneg _ s b2
  have m1 := coeff_mono _ s s' b1 l1; have m2 := coeff_mono _ s s' b2 l2
  exact dot_shape_mono readsDEX (fun s => coeff .DEX s * 4 + coeff .STR s) s s' _ H.attOk H.attLe
    (by positivity) (by linarith) harc

theorem luk_dot_factor_mono (l : LUKBasedDamageLogic) (s s' : Stat) (armor : Rat)
    (H : StatHyp readsLUK s s') (harc : 0 ≤ l.attack_range_constant) :
    l.get_dot_factor s armor ≤ l.get_dot_factor s' armor := by
  have b1 := H.baseOk .LUK (by simp [readsLUK]); have b2 := H.baseOk .DEX (by simp [readsLUK])
  have l1 := H.baseLe .LUK (by simp [readsLUK]); have l2 := H.baseLe .DEX (by simp [readsLUK])
  have n1 := coeff_nonneg _ s b1; have n2 := coeff_nonneg _ s b2
  have m1 := coeff_mono _ s s' b1 l1; have m2 := coeff_mono _ s s' b2 l2
  exact dot_shape_mono readsLUK (fun s => coeff .LUK s * 4 + coeff .DEX s) s s' _ H.attOk H.attLe
    (by positivity) (by linarith) harc

theorem lukdual_dot_factor_mono (l : LUKBasedDualSubDamageLogic) (s s' : Stat) (armor : Rat)
    (H : StatHyp readsLUKDual s s') (harc : 0 ≤ l.attack_range_constant) :
    l.get_dot_factor s armor ≤ l.get_dot_factor s' armor := by
  have b1 := H.baseOk .LUK (by simp [readsLUKDual]); have b2 := H.baseOk .DEX (by simp [readsLUKDual])
  have b3 := H.baseOk .STR (by simp [readsLUKDual])
  have l1 := H.baseLe .LUK (by simp [readsLUKDual]); have l2 := H.baseLe .DEX (by simp [readsLUKDual])
  have l3 := H.baseLe .STR (by simp [readsLUKDual])
  have n1 := coeff_nonneg _ s b1; have n2 := coeff_nonneg _ s b2; have n3 := coeff_nonneg _ s b3
  have m1 := coeff_mono _ s s' b1 l1; have m2 := coeff_mono _ s s' b2 l2
  have m3 := coeff_mono _ s s' b3 l3
  exact dot_shape_mono readsLUKDual (fun s => coeff .LUK s * 4 + coeff .DEX s + coeff .STR s)
    s s' _ H.attOk H.attLe (by positivity) (by linarith) harc

/-! ### `DamageCalculator.get_damage` is linear in skill damage% and in hit count -/

/-- `get_damage` answers exactly for the two damage tags (anything else is Python's `ValueError`) -/
theorem get_damage_defined_iff (c : Calculator) (log : Log) :
    (∃ r, getDamage c log = .ok r) ↔ (log.tag = tagDamage ∨ log.tag = tagDot) := by
  unfold getDamage
  simp only []
  by_cases h1 : log.tag = tagDamage
  · rw [if_pos h1]; exact ⟨fun _ => Or.inl h1, fun _ => ⟨_, rfl⟩⟩
  · rw [if_neg h1]
    by_cases h2 : log.tag = tagDot
    · rw [if_pos h2]; exact ⟨fun _ => Or.inr h2, fun _ => ⟨_, rfl⟩⟩
    · rw [if_neg h2]
      constructor
      · rintro ⟨r, hr⟩; cases hr
      · rintro (h | h) <;> contradiction

/-- linear in the skill damage% of the log (same hit count, buff and tag) -/
theorem get_damage_linear_in_damage (c : Calculator) (hit : Rat) (buff : Stat) (tag : String)
    (a b d₁ d₂ r₁ r₂ : Rat)
    (h₁ : getDamage c ⟨d₁, hit, buff, tag⟩ = .ok r₁) (h₂ : getDamage c ⟨d₂, hit, buff, tag⟩ = .ok r₂) :
    getDamage c ⟨a * d₁ + b * d₂, hit, buff, tag⟩ = .ok (a * r₁ + b * r₂) := by
  unfold getDamage at *
  simp only [] at *
  by_cases t1 : tag = tagDamage
  · rw [if_pos t1] at h₁ h₂ ⊢
    injection h₁ with h₁; injection h₂ with h₂
    rw [← h₁, ← h₂]; unfold damageFormula; congr 1; ring
  · rw [if_neg t1] at h₁ h₂ ⊢
    by_cases t2 : tag = tagDot
    · rw [if_pos t2] at h₁ h₂ ⊢
      injection h₁ with h₁; injection h₂ with h₂
      rw [← h₁, ← h₂]; unfold damageFormula; congr 1; ring
    · rw [if_neg t2] at h₁; cases h₁

/-- linear in the hit count of the log (same damage%, buff and tag) -/
theorem get_damage_linear_in_hit (c : Calculator) (damage : Rat) (buff : Stat) (tag : String)
    (a b n₁ n₂ r₁ r₂ : Rat)
    (h₁ : getDamage c ⟨damage, n₁, buff, tag⟩ = .ok r₁)
    (h₂ : getDamage c ⟨damage, n₂, buff, tag⟩ = .ok r₂) :
    getDamage c ⟨damage, a * n₁ + b * n₂, buff, tag⟩ = .ok (a * r₁ + b * r₂) := by
  unfold getDamage at *
  simp only [] at *
  by_cases t1 : tag = tagDamage
  · rw [if_pos t1] at h₁ h₂ ⊢
    injection h₁ with h₁; injection h₂ with h₂
    rw [← h₁, ← h₂]; unfold damageFormula; congr 1; ring
  · rw [if_neg t1] at h₁ h₂ ⊢
    by_cases t2 : tag = tagDot
    · rw [if_pos t2] at h₁ h₂ ⊢
      injection h₁ with h₁; injection h₂ with h₂
      rw [← h₁, ← h₂]; unfold damageFormula; congr 1; ring
    · rw [if_neg t2] at h₁; cases h₁

/-- …and it is the damage factor of the buffed stat block times the other four numbers, so a larger
    damage factor gives at least as much damage for non-negative damage%, hits and advantages -/
theorem get_damage_mono_in_factor (c c' : Calculator) (log : Log) (r r' : Rat)
    (htag : log.tag = tagDamage)
    (hspec : c'.character_spec = c.character_spec) (harm : c'.armor = c.armor)
    (hla : c'.level_advantage = c.level_advantage) (hfa : c'.force_advantage = c.force_advantage)
    (hd : 0 ≤ log.damage) (hh : 0 ≤ log.hit) (h1 : 0 ≤ c.level_advantage) (h2 : 0 ≤ c.force_advantage)
    (hf : c.damageFactor (c.character_spec.add log.buff) c.armor
            ≤ c'.damageFactor (c.character_spec.add log.buff) c.armor)
    (hr : getDamage c log = .ok r) (hr' : getDamage c' log = .ok r') : r ≤ r' := by
  unfold getDamage at hr hr'
  simp only [htag, if_true, hspec, harm, hla, hfa] at hr hr'
  injection hr with hr; injection hr' with hr'
  rw [← hr, ← hr']; unfold damageFormula
  have : 0 ≤ log.damage * (1 / 100) * log.hit := by positivity
  exact mul_le_mul_of_nonneg_right (mul_le_mul_of_nonneg_right (mul_le_mul_of_nonneg_left hf this) h1) h2

/-- damage is never negative for non-negative damage%, hits, advantages and damage factor -/
theorem get_damage_nonneg (c : Calculator) (log : Log) (r : Rat)
    (htag : log.tag = tagDamage)
    (hd : 0 ≤ log.damage) (hh : 0 ≤ log.hit) (h1 : 0 ≤ c.level_advantage) (h2 : 0 ≤ c.force_advantage)
    (hf : 0 ≤ c.damageFactor (c.character_spec.add log.buff) c.armor)
    (hr : getDamage c log = .ok r) : 0 ≤ r := by
  unfold getDamage at hr
  simp only [htag, if_true] at hr
  injection hr with hr
  rw [← hr]; unfold damageFormula
  positivity

/-- a log with no hits, or with 0 % skill damage, deals no damage whatever the stats are -/
theorem get_damage_zero (c : Calculator) (log : Log) (r : Rat)
    (hz : log.hit = 0 ∨ log.damage = 0) (hr : getDamage c log = .ok r) : r = 0 := by
  unfold getDamage at hr
  simp only [] at hr
  split at hr
  · injection hr with hr
    rw [← hr]; unfold damageFormula
    rcases hz with h | h <;> rw [h] <;> ring
  · split at hr
    · injection hr with hr
      rw [← hr]; unfold damageFormula
      rcases hz with h | h <;> rw [h] <;> ring
    · cases hr

/-! ## 2. Cooldown -/

/-- `calculate_cooldown` is the flat stage (`cdFlat`: 10 s taper, 5 s floor) applied to the value `cd`
    of the percent stage (`cdPercent`: percent first, 1 s floor) -/
theorem cooldown_stages (a : ActionStat) (o : Rat) :
    a.calculate_cooldown o = cdFlat (cdPercent o a.cooltime_reduce_rate) a.cooltime_reduce :=
  calculate_cooldown_eq a o

/-- the result never exceeds the base cooldown -/
theorem cooldown_le_base (a : ActionStat) (o : Rat) (ho : 0 ≤ o)
    (hf : 0 ≤ a.cooltime_reduce) (hr : 0 ≤ a.cooltime_reduce_rate) : a.calculate_cooldown o ≤ o := by
  rw [calculate_cooldown_eq]
  exact le_trans (cdFlat_le _ _ (cdPercent_nonneg o _ ho) hf) (cdPercent_le o _ ho hr)

theorem cooldown_nonneg (a : ActionStat) (o : Rat) (ho : 0 ≤ o) : 0 ≤ a.calculate_cooldown o := by
  rw [calculate_cooldown_eq]
  exact le_trans (le_min (cdPercent_nonneg o _ ho) (by norm_num)) (cdFlat_ge_floor _ _)

/-- documented floor of the flat stage ("5초까지 감소, 단 이미 스킬쿨이 5초 아래였을 경우 그대로 사용"):
    never below `min cd 5000`, `cd` being the value after the percent stage.  No hypotheses. -/
theorem cooldown_ge_floor (a : ActionStat) (o : Rat) :
    min (cdPercent o a.cooltime_reduce_rate) 5000 ≤ a.calculate_cooldown o := by
  rw [calculate_cooldown_eq]; exact cdFlat_ge_floor _ _

/-- documented floor of the percent stage ("쿨감%부터 적용, 최소 1초까지"): never below
    `min original 1000`.  No hypotheses. -/
theorem cooldown_percent_stage_ge_floor (o r : Rat) : min o 1000 ≤ cdPercent o r :=
  cdPercent_ge_floor o r

/-- hence the result is never below `min original 1000` -/
theorem cooldown_ge_min_base_1000 (a : ActionStat) (o : Rat) : min o 1000 ≤ a.calculate_cooldown o := by
  refine le_trans ?_ (cooldown_ge_floor a o)
  exact le_min (cdPercent_ge_floor o _) (le_trans (min_le_right _ _) (by norm_num))

/-- a cooldown that is already at most 5 s after the percent stage is not reduced by flat reduction -/
theorem cooldown_short_unchanged (a : ActionStat) (o : Rat) (ho : 0 ≤ o) (hf : 0 ≤ a.cooltime_reduce)
    (h5 : cdPercent o a.cooltime_reduce_rate ≤ 5000) :
    a.calculate_cooldown o = cdPercent o a.cooltime_reduce_rate := by
  rw [calculate_cooldown_eq]; exact cdFlat_short _ _ (cdPercent_nonneg o _ ho) h5 hf

/-- without any reduction the cooldown is the base cooldown -/
theorem cooldown_no_reduction (a : ActionStat) (o : Rat) (hf : a.cooltime_reduce = 0)
    (hr : a.cooltime_reduce_rate = 0) : a.calculate_cooldown o = o := by
  rw [calculate_cooldown_eq, hf, hr, cdFlat_zero]
  unfold cdPercent
  split
  · next h => rw [pyMin_eq]; exact min_eq_left (by linarith)
  · ring

/-- more flat cooldown reduction never gives a longer cooldown -/
theorem cooldown_antitone_flat (a a' : ActionStat) (o : Rat) (ho : 0 ≤ o)
    (hf : 0 ≤ a.cooltime_reduce) (hff : a.cooltime_reduce ≤ a'.cooltime_reduce)
    (hsame : a'.cooltime_reduce_rate = a.cooltime_reduce_rate) :
    a'.calculate_cooldown o ≤ a.calculate_cooldown o := by
  rw [calculate_cooldown_eq, calculate_cooldown_eq, hsame]
  exact cdFlat_antitone_flat _ _ _ (cdPercent_nonneg o _ ho) hf hff

/-- more percent cooldown reduction never gives a longer cooldown -/
theorem cooldown_antitone_rate (a a' : ActionStat) (o : Rat) (ho : 0 ≤ o)
    (hf : 0 ≤ a.cooltime_reduce) (hr : 0 ≤ a.cooltime_reduce_rate)
    (hrr : a.cooltime_reduce_rate ≤ a'.cooltime_reduce_rate)
    (hsame : a'.cooltime_reduce = a.cooltime_reduce) :
    a'.calculate_cooldown o ≤ a.calculate_cooldown o := by
  rw [calculate_cooldown_eq, calculate_cooldown_eq, hsame]
  exact cdFlat_mono_cd _ _ _ (cdPercent_nonneg o _ ho) (cdPercent_antitone o _ _ ho hr hrr) hf

/-- both at once -/
theorem cooldown_antitone (a a' : ActionStat) (o : Rat) (ho : 0 ≤ o)
    (hf : 0 ≤ a.cooltime_reduce) (hr : 0 ≤ a.cooltime_reduce_rate)
    (hff : a.cooltime_reduce ≤ a'.cooltime_reduce)
    (hrr : a.cooltime_reduce_rate ≤ a'.cooltime_reduce_rate) :
    a'.calculate_cooldown o ≤ a.calculate_cooldown o := by
  rw [calculate_cooldown_eq, calculate_cooldown_eq]
  exact le_trans
    (cdFlat_antitone_flat _ _ _ (cdPercent_nonneg o _ ho) hf hff)
    (cdFlat_mono_cd _ _ _ (cdPercent_nonneg o _ ho) (cdPercent_antitone o _ _ ho hr hrr) hf)

/-- a longer base cooldown never gives a shorter cooldown (same reductions) -/
theorem cooldown_mono_base (a : ActionStat) (o o' : Rat) (ho : 0 ≤ o) (hoo : o ≤ o')
    (hf : 0 ≤ a.cooltime_reduce) (hr : 0 ≤ a.cooltime_reduce_rate) (hr100 : a.cooltime_reduce_rate ≤ 100) :
    a.calculate_cooldown o ≤ a.calculate_cooldown o' := by
  rw [calculate_cooldown_eq, calculate_cooldown_eq]
  apply cdFlat_mono_cd _ _ _ (cdPercent_nonneg o _ ho) _ hf
  rw [cdPercent_eq_max o _ ho hr, cdPercent_eq_max o' _ (le_trans ho hoo) hr]
  apply max_le_max _ (min_le_min hoo le_rfl)
  exact mul_le_mul_of_nonneg_right hoo (by linarith)

/-! ## 3. Level advantage -/

/-- defined for EVERY pair of integer levels (no `IndexError`) -/
theorem level_advantage_total (mob character : Int) :
    ∃ r, LevelAdvantage.get_advantage mob character = some r :=
  ⟨_, get_advantage_eq mob character⟩

/-- the value lies in [0, 1.2] -/
theorem level_advantage_range (mob character : Int) (r : Rat)
    (h : LevelAdvantage.get_advantage mob character = some r) : 0 ≤ r ∧ r ≤ (6 / 5 : Rat) := by
  rw [get_advantage_eq] at h
  injection h with h
  rw [← h]; exact advAt_bounds _

/-- it never increases as the monster out-levels the character: antitone in `mob − character` -/
theorem level_advantage_antitone (mob character mob' character' : Int) (r r' : Rat)
    (hgap : mob - character ≤ mob' - character')
    (h : LevelAdvantage.get_advantage mob character = some r)
    (h' : LevelAdvantage.get_advantage mob' character' = some r') : r' ≤ r := by
  rw [get_advantage_eq] at h h'
  injection h with h; injection h' with h'
  rw [← h, ← h']; exact advAt_antitone (by omega)

/-- it depends on the two levels only through their difference -/
theorem level_advantage_gap_only (mob character mob' character' : Int)
    (hgap : mob - character = mob' - character') :
    LevelAdvantage.get_advantage mob character = LevelAdvantage.get_advantage mob' character' := by
  rw [get_advantage_eq, get_advantage_eq, hgap]

/-- far above the table the advantage is 0 (this includes the first index past the table, the gap
    at which the lookup used to raise `IndexError`) -/
theorem level_advantage_zero_beyond_table (mob character : Int)
    (h : (LevelAdvantage.table.length : Int) ≤ mob - character + LevelAdvantage.bias) :
    LevelAdvantage.get_advantage mob character = some 0 := by
  rw [get_advantage_eq]
  congr 1
  unfold advAt
  rw [if_neg (by omega), getD_ge]
  omega

/-- at or below the first table index (the character out-levels the monster by at least `bias`) the
    advantage is the maximum 1.2: the lookup clamps instead of indexing from the end of the table, as a
    negative Python index would -/
theorem level_advantage_max_below_table (mob character : Int)
    (h : mob - character + LevelAdvantage.bias ≤ 0) :
    LevelAdvantage.get_advantage mob character = some (6 / 5) := by
  rw [get_advantage_eq]
  congr 1
  unfold advAt
  split
  · exact table_head_eq
  · next h0 =>
    have : mob - character + LevelAdvantage.bias = 0 := by omega
    rw [this]; exact table_head_eq

/-! ## non-vacuity: concrete instances of every hypothesis set -/

/-- a realistic pair of stat blocks (armor 300, ignore 90 % → armour term 0.7 > 0) -/
def exS : Stat :=
  { STR := 40000, DEX := 3000, STR_multiplier := 400, DEX_multiplier := 90, STR_static := 15000,
    attack_power := 3000, attack_power_multiplier := 95, critical_rate := 100, critical_damage := 80,
    boss_damage_multiplier := 300, damage_multiplier := 70, final_damage_multiplier := -10,
    ignored_defence := 90, elemental_resistance := 5 }
def exS' : Stat :=
  { exS with STR := 41000, critical_damage := 88, ignored_defence := 92, final_damage_multiplier := 0 }

example : StatHyp readsSTR exS exS' := by
  refine ⟨⟨?_, ?_, ?_, ?_, ?_, ?_⟩, ⟨?_, ?_, ?_, ?_, ?_, ?_, ?_⟩, ?_, ?_, ?_, ?_⟩ <;>
    simp [readsSTR, exS, exS', BaseOk, BaseLe, AttOk, AttLe] <;> norm_num

example : (0 : Rat) ≤ (⟨1, 9 / 10⟩ : STRBasedDamageLogic).get_armor_factor exS 300 := by
  simp [STRBasedDamageLogic.get_armor_factor, exS]; norm_num

example : (⟨1, 9 / 10⟩ : STRBasedDamageLogic).get_damage_factor exS 300
    < (⟨1, 9 / 10⟩ : STRBasedDamageLogic).get_damage_factor exS' 300 := by
  simp [STRBasedDamageLogic.get_damage_factor, STRBasedDamageLogic._get_general_damage_factor,
    STRBasedDamageLogic.get_armor_factor, STRBasedDamageLogic.get_critical_factor,
    STRBasedDamageLogic.get_base_stat_factor, STRBasedDamageLogic.get_attack_type_factor,
    STRBasedDamageLogic.get_elemental_disadvantage, Stat.get_base_stat_coefficient_STR,
    Stat.get_base_stat_coefficient_DEX, Stat.get_attack_coefficient_attack_power, exS, exS', pyMin]
  norm_num

/-- the six cooldown values pinned by tests/core/test_action_stat.py -/
example : ({ cooltime_reduce_rate := 5, cooltime_reduce := 5000 } : ActionStat).calculate_cooldown 100000 = 90000 := by
  simp [ActionStat.calculate_cooldown, pyMin, pyMax]; norm_num
example : ({ cooltime_reduce_rate := 5, cooltime_reduce := 4000 } : ActionStat).calculate_cooldown 12000 = 8700 := by
  simp [ActionStat.calculate_cooldown, pyMin, pyMax]; norm_num
example : ({ cooltime_reduce_rate := 5, cooltime_reduce := 4000 } : ActionStat).calculate_cooldown 5300 = 5000 := by
  simp [ActionStat.calculate_cooldown, pyMin, pyMax]; norm_num

/-- the level pairs pinned by tests/simulate/report/test_level_advantage.py and the table boundary -/
example : LevelAdvantage.get_advantage 30 200 = some (6 / 5) := by decide +kernel
example : LevelAdvantage.get_advantage 195 200 = some (6 / 5) := by decide +kernel   -- index 0 exactly
example : LevelAdvantage.get_advantage 30 29 = some (1323 / 1250) := by decide +kernel
example : LevelAdvantage.get_advantage 100 75 = some (19 / 50) := by decide +kernel
example : LevelAdvantage.get_advantage 240 200 = some 0 := by decide +kernel
example : LevelAdvantage.get_advantage 241 200 = some 0 := by decide +kernel   -- gap 41: index 46 = len(table)
example : LevelAdvantage.get_advantage 242 200 = some 0 := by decide +kernel

end Simaple.Props.C12
