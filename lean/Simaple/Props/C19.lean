/-
C19 — optimizers stay within budget and bounds, keep presets, never do worse.

Property theorems only, about the hand-written model `Simaple.Model.Optimizer` of
`simaple/optimizer/{optimizer,step_iterator,*_optimizer,weapon_potential_optimizer}.py`.
Every theorem quantifies over ALL problems `P` (any slot count, step limit, step size, iteration guard,
budget, and any `cost`/`value` functions) and all initial states.

Reading guide (`P : Problem`, `s0` the preset state, `optimize P s0 = .ok r` = the call returned `r`):
the code accepts the best increment whenever its reward is `> INITIAL_REWARD = -1` — not `> 0`.
Hence "improving, as the code defines it" means reward `> -1`; a step that lowers the value is still
accepted when it is the best one (`worse_without_monotonicity`), and `never_worse` needs the target's
value not to decrease along the steps tried (true of the real targets: every option adds stats).
-/
import Simaple.Proofs.Optimizer
import Mathlib.Tactic.Linarith
import Mathlib.Tactic.NormNum
import Mathlib.Tactic.FieldSimp
import Mathlib.Algebra.Order.Field.Rat

namespace Simaple.Props.C19
open Simaple.Optimizer Simaple.Proofs.Optimizer

/-! ### the step-wise optimizer -/

/-- the result is affordable unless nothing was done at all; in particular -/
theorem within_budget_or_untouched (P : Problem) (s0 r : State) (h : optimize P s0 = .ok r) :
    r = s0 ∨ P.cost r ≤ P.budget := by
  refine (optimizeLoop_ok (P := P) (fun s => s = s0 ∨ P.cost s ≤ P.budget) ?_ _ _ _ h (Or.inl rfl)).1
  intro s s' _ hs
  obtain ⟨_, _, _, hb, _⟩ := stepOnce_some hs
  exact Or.inr hb

/-- **within budget**: an affordable preset gives an affordable result -/
theorem within_budget (P : Problem) (s0 r : State) (h : optimize P s0 = .ok r)
    (h0 : P.cost s0 ≤ P.budget) : P.cost r ≤ P.budget := by
  rcases within_budget_or_untouched P s0 r h with rfl | hb
  · exact h0
  · exact hb

/-- **within limits**: if no preset slot is above `maximum_step`, no result slot is -/
theorem within_limits (P : Problem) (s0 r : State) (h : optimize P s0 = .ok r)
    (h0 : ∀ x ∈ s0, x ≤ P.maxStep) : ∀ x ∈ r, x ≤ P.maxStep := by
  refine (optimizeLoop_ok (P := P) (fun s => ∀ x ∈ s, x ≤ P.maxStep) ?_ _ _ _ h h0).1
  intro s s' hs hstep
  obtain ⟨_, _, hst, _⟩ := stepOnce_some hstep
  exact stepped_some_limits hst hs

/-- **keeps presets**: the result has the same slots and no slot is below its preset level -/
theorem keeps_presets (P : Problem) (s0 r : State) (h : optimize P s0 = .ok r) :
    r.length = s0.length ∧ ∀ j, s0.getD j 0 ≤ r.getD j 0 := by
  have := (optimizeLoop_ok (P := P) (fun s => Le s0 s) ?_ _ _ _ h (Le.refl _)).1
  · exact ⟨this.1.symm, this.2⟩
  · intro s s' hs hstep
    obtain ⟨_, _, hst, _⟩ := stepOnce_some hstep
    exact Le.trans hs (stepped_some_le hst)

/-- **never worse**: for a target whose value does not decrease along the steps tried, the result
    is worth at least the preset.  (Value-monotonicity IS needed, see `worse_without_monotonicity`.) -/
theorem never_worse (P : Problem) (hmono : StepMonotone P) (s0 r : State)
    (h : optimize P s0 = .ok r) : P.value s0 ≤ P.value r := by
  refine (optimizeLoop_ok (P := P) (fun s => P.value s0 ≤ P.value s) ?_ _ _ _ h (le_refl _)).1
  intro s s' hs hstep
  obtain ⟨inc, hinc, hst, hb, _⟩ := stepOnce_some hstep
  exact le_trans hs (hmono s s' inc hinc hst hb)

/-- a globally monotone value (more levels never hurt) is enough -/
theorem never_worse_of_monotone (P : Problem)
    (hmono : ∀ a b : State, a.length = b.length → (∀ j, a.getD j 0 ≤ b.getD j 0) → P.value a ≤ P.value b)
    (s0 r : State) (h : optimize P s0 = .ok r) : P.value s0 ≤ P.value r := by
  have := keeps_presets P s0 r h
  exact hmono s0 r this.1.symm this.2

/-- a one-slot target whose value halves with the first level: the optimizer takes the step
    (reward `-1/2 > -1`) and returns a state worth less than the preset -/
def worseningProblem : Problem :=
  { n := 1, maxStep := 1, stepSize := 1, maxIter := 999, budget := 5,
    cost := fun s => (s.getD 0 0 : Nat), value := fun s => if s.getD 0 0 = 0 then 2 else 1 }

/-- without monotonicity of the value the optimizer can make things worse -/
theorem worse_without_monotonicity :
    optimize worseningProblem [0] = .ok [1] ∧
      worseningProblem.value [1] < worseningProblem.value [0] := by
  constructor
  · decide +kernel
  · decide +kernel

/-- **no single step improves** (at normal termination, i.e. `optimize` returned rather than raised
    `MaximumOptimizationStepExceed`): for every slot `i` the reward the code computes for the single
    step `(i,)` from the result exists and is `≤ -1` — not improving, as the code defines improving. -/
theorem no_single_step_improves (P : Problem) (hsz : 1 ≤ P.stepSize) (s0 r : State)
    (h : optimize P s0 = .ok r) :
    ∀ i, i < P.n → ∃ ρ, getReward P r [i] (P.cost r) (P.value r) = .ok ρ ∧ ρ ≤ -1 := by
  have hterm := (optimizeLoop_ok (P := P) (fun _ => True) (fun _ _ _ _ => trivial) _ _ _ h trivial).2
  intro i hi
  exact stepOnce_none hterm [i] (single_mem_cumulatedIterator hsz hi)

/-- the same for every increment vector tried (pairs, triples, … when `step_size > 1`) -/
theorem no_tried_increment_improves (P : Problem) (s0 r : State) (h : optimize P s0 = .ok r) :
    ∀ inc ∈ P.increments, ∃ ρ, getReward P r inc (P.cost r) (P.value r) = .ok ρ ∧ ρ ≤ -1 := by
  have hterm := (optimizeLoop_ok (P := P) (fun _ => True) (fun _ _ _ _ => trivial) _ _ _ h trivial).2
  exact stepOnce_none hterm

/-- unfolded: a single step that stays within the limit and the budget has reward
    `(value'/value - 1) / (cost' - cost) ≤ -1` -/
theorem no_single_step_improves_unfolded (P : Problem) (hsz : 1 ≤ P.stepSize) (s0 r : State)
    (h : optimize P s0 = .ok r) (hlen : s0.length = P.n) (i : Nat) (hi : i < P.n)
    (hlim : r.getD i 0 + 1 ≤ P.maxStep) (hbud : P.cost (incr r i) ≤ P.budget) :
    rewardOf P r (incr r i) ≤ -1 := by
  obtain ⟨ρ, hρ, hle⟩ := no_single_step_improves P hsz s0 r h i hi
  have hrl : i < r.length := by rw [(keeps_presets P s0 r h).1, hlen]; exact hi
  have hst : getSteppedTarget P.maxStep r [i] = .ok (some (incr r i)) := by
    rw [stepped_single _ _ _ hrl, if_neg (by omega)]
  have := reward_ok_of_stepped hρ hst hbud
  rw [this] at hle
  exact hle

/-- for targets like the real ones (positive values; a step costs at least 1) the optimizer stops
    only when nothing fits any more: every single step from the result leaves the limit or the budget -/
theorem stops_only_when_exhausted (P : Problem) (hsz : 1 ≤ P.stepSize) (s0 r : State)
    (h : optimize P s0 = .ok r) (hlen : s0.length = P.n)
    (hpos : ∀ s, 0 < P.value s) (hcost : ∀ s i, i < s.length → P.cost s + 1 ≤ P.cost (incr s i))
    (i : Nat) (hi : i < P.n) :
    P.maxStep < r.getD i 0 + 1 ∨ P.budget < P.cost (incr r i) := by
  by_contra hcon
  have hcon' : ¬ (P.maxStep < r.getD i 0 + 1) ∧ ¬ (P.budget < P.cost (incr r i)) := by
    constructor
    · intro h1; exact hcon (Or.inl h1)
    · intro h2; exact hcon (Or.inr h2)
  obtain ⟨h1, h2⟩ := hcon'
  have hrl : i < r.length := by rw [(keeps_presets P s0 r h).1, hlen]; exact hi
  have hle := no_single_step_improves_unfolded P hsz s0 r h hlen i hi (by omega) (not_lt.mp h2)
  unfold rewardOf at hle
  have hd : 0 < P.cost (incr r i) - P.cost r := by have := hcost r i hrl; linarith
  have hv := hpos r
  have hv' := hpos (incr r i)
  have hq : 0 < P.value (incr r i) / P.value r := div_pos hv' hv
  rw [div_le_iff₀ hd] at hle
  have : 1 ≤ P.cost (incr r i) - P.cost r := by have := hcost r i hrl; linarith
  nlinarith

/-- **deterministic**: the result is a function of the preset state, the optimizer's parameters and the
    cost/value tables — two problems that agree on those give the same result (or the same exception) -/
theorem deterministic (P Q : Problem) (s0 : State)
    (hn : P.n = Q.n) (hm : P.maxStep = Q.maxStep) (hs : P.stepSize = Q.stepSize)
    (hi : P.maxIter = Q.maxIter) (hb : P.budget = Q.budget)
    (hc : ∀ s, P.cost s = Q.cost s) (hv : ∀ s, P.value s = Q.value s) :
    optimize P s0 = optimize Q s0 := by
  obtain ⟨n, m, sz, it, b, c, v⟩ := P
  obtain ⟨n', m', sz', it', b', c', v'⟩ := Q
  simp only at hn hm hs hi hb hc hv
  have hc' : c = c' := funext hc
  have hv' : v = v' := funext hv
  subst hn hm hs hi hb hc' hv'
  rfl

/-- `raise TypeError` in `optimize` is unreachable, and so is `IndexError` when the preset state has
    `state_length` slots: the only exceptions are `ZeroDivisionError` (a zero value or a free step)
    and the iteration guard -/
theorem only_exceptions (P : Problem) (s0 : State) (e : Err) (hlen : s0.length = P.n)
    (h : optimize P s0 = .error e) : e = .zeroDivision ∨ e = .maximumOptimizationStepExceed := by
  have hstep : ∀ s s', s.length = P.n → stepOnce P s = .ok (some s') → s'.length = P.n := by
    intro s s' hs hst
    obtain ⟨_, _, hst', _⟩ := stepOnce_some hst
    rw [stepped_length hst', hs]
  rcases optimizeLoop_error (P := P) (fun s => s.length = P.n) hstep _ _ _ h hlen with rfl | ⟨t, ht, hte⟩
  · right; rfl
  · cases e with
    | zeroDivision => left; rfl
    | maximumOptimizationStepExceed => right; rfl
    | typeError => exact absurd hte (stepOnce_no_typeError P t)
    | indexError => exact absurd hte (stepOnce_no_indexError ht)

/-- the iteration guard (`_maximum_iteration_count`, the fuel of the model) is sufficient whenever the
    slots fill up first: with `state_length * maximum_step ≤ maximum_iteration_count` (union squad 47·1,
    link skills 27·1, union occupation 5·40, against 999) `MaximumOptimizationStepExceed` is never raised -/
theorem guard_not_hit (P : Problem) (s0 : State) (hlim : ∀ x ∈ s0, x ≤ P.maxStep)
    (hroom : s0.length * P.maxStep ≤ P.maxIter + s0.sum) :
    optimize P s0 ≠ .error .maximumOptimizationStepExceed :=
  optimizeLoop_guard P.maxIter s0 hlim hroom

/-! ### `clone()` of the four targets -/

/-- **clone preserves the objective**: for a target built by its constructor and then given any state,
    `clone()` has the same state, armour, limits, cost and value (for every objective reading them) -/
theorem clone_preserves_objective {S L Pr J : Type} (ops : ProtoOps Pr J) (o : Objective S L Pr)
    (kind : Kind) (d : S) (l : L) (p : Pr) (jobs : List J) (armor : Rat) (st : State) :
    let t := (Target.new ops kind d l p jobs armor).setState st
    let c := t.clone ops
    c.state = t.state ∧ c.armor = t.armor ∧ c.maximum_step = t.maximum_step ∧
      c.state_length = t.state_length ∧ c.getCost o = t.getCost o ∧ c.getValue o = t.getValue o ∧
      c = t := by
  simp [Target.clone, Target.new, Target.setState, Target.getCost, Target.getValue]

/-- in particular a non-default armour survives `clone()` (the constructor default is 300) -/
theorem clone_keeps_armor {S L Pr J : Type} (ops : ProtoOps Pr J)
    (kind : Kind) (d : S) (l : L) (p : Pr) (jobs : List J) (st : State) :
    (((Target.new ops kind d l p jobs 100).setState st).clone ops).armor = 100 ∧
    (((Target.new ops kind d l p jobs).setState st).clone ops).armor = 300 := by
  simp [Target.clone, Target.new, Target.setState]

/-! ### weapon potentials

`weapon_best_partial`: maximality among the legal combinations of the PRUNED candidate lists
(`get_useful_candidates`).  The full statement —

    the returned triple has maximal reward among all legal combinations of the unpruned lists
    `_WEAPON_POTENTIALS[tier]`

— additionally needs `useless_stays_useless` for the concrete damage formula (an option whose factor
gain next to the protection stat is `≤ 0` gains nothing in any context of the brute force, and a plain
useful line can replace it).  That lemma about `get_damage_factor` is not proved here; it is stated as
the hypothesis `Dominated` of `weapon_best_of_dominated`, and the check compares the real optimizer
against an independent brute force over the unpruned lists on every run. -/

/-- **weapon best (over the pruned lists)**: `get_full_optimal_potential` returns a legal triple of
    useful lines with positive reward that no other legal triple beats; it returns the three empty
    potentials only if no legal triple has positive reward -/
theorem weapon_best_partial {α : Type} (W : WeaponProblem α) :
    (∀ w s e, W.getFullOptimalPotential = some (w, s, e) →
      LegalPruned W false w ∧ LegalPruned W false s ∧ LegalPruned W true e ∧ 0 < W.reward w s e ∧
      ∀ w' s' e', LegalPruned W false w' → LegalPruned W false s' → LegalPruned W true e' →
        W.reward w' s' e' ≤ W.reward w s e) ∧
    (W.getFullOptimalPotential = none →
      ∀ w' s' e', LegalPruned W false w' → LegalPruned W false s' → LegalPruned W true e' →
        W.reward w' s' e' ≤ 0) := by
  unfold WeaponProblem.getFullOptimalPotential
  generalize hres : argmaxLoop (fun t => W.reward t.1 t.2.1 t.2.2) W.triples none 0 = res
  obtain ⟨b, r⟩ := res
  obtain ⟨_, h2, h3⟩ := argmaxLoop_spec _ _ _ _ _ _ hres
  have hall : ∀ w' s' e', LegalPruned W false w' → LegalPruned W false s' → LegalPruned W true e' →
      W.reward w' s' e' ≤ r := by
    intro w' s' e' hw hs he
    exact h2 (w', s', e') ((mem_triples W _).mpr ⟨hw, hs, he⟩)
  constructor
  · intro w s e hb
    simp only at hb
    rcases h3 with ⟨hbn, _⟩ | ⟨x, hx, hbx, hfx, hlt⟩
    · rw [hbn] at hb; simp at hb
    · rw [hbx] at hb
      simp only [Option.some.injEq] at hb
      subst hb
      obtain ⟨hw, hs, he⟩ := (mem_triples W _).mp hx
      simp only at hfx
      exact ⟨hw, hs, he, hfx ▸ hlt, fun w' s' e' a b c => hfx ▸ hall w' s' e' a b c⟩
  · intro hb
    simp only at hb
    rcases h3 with ⟨_, hr⟩ | ⟨x, _, hbx, _, _⟩
    · subst hr; exact hall
    · rw [hbx] at hb; simp at hb

/-- the same for the single-potential search `get_optimal_potential` -/
theorem weapon_single_best_partial {α : Type} (W : WeaponProblem α) :
    (∀ c, W.getOptimalPotential = some c →
      LegalPruned W false c ∧ 0 < W.reward1 c ∧ ∀ c', LegalPruned W false c' → W.reward1 c' ≤ W.reward1 c) ∧
    (W.getOptimalPotential = none → ∀ c', LegalPruned W false c' → W.reward1 c' ≤ 0) := by
  unfold WeaponProblem.getOptimalPotential
  generalize hres : argmaxLoop W.reward1 (W.potentialCandidates false) none 0 = res
  obtain ⟨b, r⟩ := res
  obtain ⟨_, h2, h3⟩ := argmaxLoop_spec _ _ _ _ _ _ hres
  have hall : ∀ c', LegalPruned W false c' → W.reward1 c' ≤ r :=
    fun c' hc => h2 c' ((mem_potentialCandidates W false c').mpr hc)
  constructor
  · intro c hb
    simp only at hb
    rcases h3 with ⟨hbn, _⟩ | ⟨x, hx, hbx, hfx, hlt⟩
    · rw [hbn] at hb; simp at hb
    · rw [hbx] at hb
      simp only [Option.some.injEq] at hb
      subst hb
      exact ⟨(mem_potentialCandidates W false _).mp hx, hfx ▸ hlt, fun c' hc => hfx ▸ hall c' hc⟩
  · intro hb
    simp only at hb
    rcases h3 with ⟨_, hr⟩ | ⟨x, _, hbx, _, _⟩
    · subst hr; exact hall
    · rw [hbx] at hb; simp at hb

/-- what "legal" means: one line per tier list, at most two boss lines, at most two ignore-defence
    lines, no boss line on the emblem -/
theorem legal_meaning {α : Type} (W : WeaponProblem α) (emblem : Bool) (c : List α) :
    Legal W emblem c ↔ Picks c W.tiers ∧ c.countP W.isBoss ≤ 2 ∧ c.countP W.isIed ≤ 2 ∧
      (emblem = true → c.countP W.isBoss = 0) := by
  simp only [Legal, legal_iff]

/-- **weapon best** over the unpruned lists, given that pruning loses nothing -/
theorem weapon_best_of_dominated {α : Type} (W : WeaponProblem α) (hdom : Dominated W) :
    (∀ w s e, W.getFullOptimalPotential = some (w, s, e) →
      Legal W false w ∧ Legal W false s ∧ Legal W true e ∧
      ∀ w' s' e', Legal W false w' → Legal W false s' → Legal W true e' →
        W.reward w' s' e' ≤ W.reward w s e) ∧
    (W.getFullOptimalPotential = none →
      ∀ w' s' e', Legal W false w' → Legal W false s' → Legal W true e' → W.reward w' s' e' ≤ 0) := by
  obtain ⟨h1, h2⟩ := weapon_best_partial W
  constructor
  · intro w s e hb
    obtain ⟨hw, hs, he, _, hmax⟩ := h1 w s e hb
    refine ⟨⟨hw.1, hw.2.2⟩, ⟨hs.1, hs.2.2⟩, ⟨he.1, he.2.2⟩, ?_⟩
    intro w' s' e' hw' hs' he'
    obtain ⟨w'', s'', e'', a, b, c, hle⟩ := hdom w' s' e' hw' hs' he'
    exact le_trans hle (hmax w'' s'' e'' a b c)
  · intro hb w' s' e' hw' hs' he'
    obtain ⟨w'', s'', e'', a, b, c, hle⟩ := hdom w' s' e' hw' hs' he'
    exact le_trans hle (h2 hb w'' s'' e'' a b c)

/-- `Dominated` follows from two local facts about the lines: (1) every tier list offers a useful line
    that is neither a boss nor an ignore-defence line (the attack% / flat attack line of the logic's
    attack type), and (2) the reward does not drop when, line by line, useless lines are replaced by such
    lines of the same tier (`useless_stays_useless` + monotonicity of the damage factor) -/
theorem dominated_of_local_replacement {α : Type} (W : WeaponProblem α)
    (hplain : ∀ l ∈ W.tiers, ∃ p ∈ l, W.useful p = true ∧ W.isBoss p = false ∧ W.isIed p = false)
    (hmono : ∀ w w' s s' e e', RepairsAll W w w' W.tiers → RepairsAll W s s' W.tiers →
      RepairsAll W e e' W.tiers → W.reward w s e ≤ W.reward w' s' e') :
    Dominated W := by
  intro w s e hw hs he
  obtain ⟨w', hw'⟩ := exists_repair W W.tiers w hw.1 hplain
  obtain ⟨s', hs'⟩ := exists_repair W W.tiers s hs.1 hplain
  obtain ⟨e', he'⟩ := exists_repair W W.tiers e he.1 hplain
  exact ⟨w', s', e', legal_repair W false w w' hw' hw, legal_repair W false s s' hs' hs,
    legal_repair W true e e' he' he, hmono w w' s s' e e' hw' hs' he'⟩

/-! ### non-vacuity: concrete instances -/

/-- a two-slot target, budget 3: the greedy takes slot 1 (gain 3/cost 1), then slot 0 twice … -/
def demo : Problem :=
  { n := 2, maxStep := 2, stepSize := 1, maxIter := 999, budget := 3,
    cost := fun s => (s.sum : Nat),
    value := fun s => 10 + 2 * (s.getD 0 0 : Nat) + 3 * (min (s.getD 1 0) 1 : Nat) }

example : optimize demo [0, 0] = .ok [2, 1] := by decide +kernel
example : optimize demo [0, 2] = .ok [1, 2] := by decide +kernel          -- preset kept, budget 3 spent
example : optimize { demo with maxIter := 1 } [0, 0] = .error .maximumOptimizationStepExceed := by
  decide +kernel
example : optimize { demo with value := fun _ => 0 } [0, 0] = .error .zeroDivision := by decide +kernel

/-- the hypothesis of `never_worse` holds for the demo target (more levels never lower its value) -/
example : StepMonotone demo := by
  intro s s' inc _ hst _
  have h := stepped_some_le hst
  have h0 := h.2 0
  have h1 := h.2 1
  have a : ((s.getD 0 0 : Nat) : Rat) ≤ ((s'.getD 0 0 : Nat) : Rat) := by exact_mod_cast h0
  have b : ((min (s.getD 1 0) 1 : Nat) : Rat) ≤ ((min (s'.getD 1 0) 1 : Nat) : Rat) := by
    exact_mod_cast (by omega : min (s.getD 1 0) 1 ≤ min (s'.getD 1 0) 1)
  simp only [demo]
  linarith

/-- the hypotheses of `stops_only_when_exhausted` hold for the demo target -/
example : (∀ s, 0 < demo.value s) ∧ (∀ s i, i < s.length → demo.cost s + 1 ≤ demo.cost (incr s i)) := by
  constructor
  · intro s
    simp only [demo]
    positivity
  · intro s i hi
    simp only [demo, sum_incr s i hi]
    push_cast
    exact le_refl _

/-- a weapon problem with three lines per potential: options 0 = attack%, 1 = magic% (useless),
    2 = ignore-defence, 3 = boss; three boss lines are illegal, boss is illegal on the emblem -/
def demoWeapon : WeaponProblem Nat :=
  { isBoss := fun x => x == 3, isIed := fun x => x == 2, useful := fun x => x != 1,
    tiers := [[0, 1, 2, 3], [0, 1, 2, 3], [0, 1, 2]],
    reward := fun w s e => ((w ++ s ++ e).foldl (fun a x => a + (if x = 3 then 5 else if x = 2 then 1 else 2)) 0 : Nat),
    reward1 := fun c => (c.foldl (fun a x => a + (if x = 3 then 5 else if x = 2 then 1 else 2)) 0 : Nat) }

example : demoWeapon.getFullOptimalPotential = some ([3, 3, 0], [3, 3, 0], [0, 0, 0]) := by decide +kernel
example : LegalPruned demoWeapon false [3, 3, 0] := by
  refine ⟨by simp [Picks, demoWeapon], by decide, by decide⟩
/-- the hypothesis (1) of `dominated_of_local_replacement` holds for the demo: line 0 is useful and plain -/
example : ∀ l ∈ demoWeapon.tiers, ∃ p ∈ l, demoWeapon.useful p = true ∧ demoWeapon.isBoss p = false ∧
    demoWeapon.isIed p = false := by decide

end Simaple.Props.C19
