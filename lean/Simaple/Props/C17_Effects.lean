/-
C17, last clause: "building never alters the blueprint or the base gear" — proved on programs regenerated from the
source (tools/py2lean/gen_effects.py, table `pureTable`, entries tagged "C17"):
`GeneralizedGearBlueprint.build` and `PracticalGearBlueprint.build` with everything they call inlined (spell traces,
scrolls, star force with every increment provider, the bonus factory and every bonus class, exceptional
enhancement, potentials; overridden methods by class-hierarchy analysis; the `calculate_improvement` / `get_increment`
family as separately checked procedures reached through `Stmt.call`) write NO object that existed before the
call: not the blueprint, not its `GearMeta` / base `Stat`, not the spell-trace / scroll / bonus specifications.
Not inlined and trusted: the lazily loaded process-wide potential table (`_global_load_kms_potential_table`),
pydantic construction, builtins.
-/
import Simaple.Proofs.Effect
import Simaple.Gen.Effects

namespace Simaple.Props.C17
open Simaple.Effect Simaple.Gen.Effects

def buildEntries : List PureEntry := pureTable.filter (·.prop == 17)

theorem build_methods_lowered : 2 ≤ buildEntries.length ∧ pureNotLowered.length = 0 := by decide +kernel

theorem build_wellFormed : buildEntries.all (fun e => wellFormedWith e.taint e.nvars e.body e.prog) = true := by decide +kernel

/-- **building never alters the blueprint or the base gear**: at every state passed while `build` runs, every object
    that existed before the call is exactly as it was, and every store went to an object allocated by the call -/
theorem build_never_alters_what_it_is_given (e : PureEntry) (he : e ∈ buildEntries)
    (σ σ' : State) (hlog : σ.log = []) (hr : Reach e.body e.prog σ σ') :
    (∀ a o, σ.heap a = some o → σ'.heap a = some o) ∧ (∀ a ∈ σ'.log, σ.heap a = none) := by
  have hall := build_wellFormed
  rw [List.all_eq_true] at hall
  exact wellFormedWith_frame_always e.taint e.nvars e.body e.prog (hall e he) σ σ' hlog hr

end Simaple.Props.C17
