/-
C07 — a rejected action is reported alone and changes nothing.
Part 1 (this section): the dispatcher of simaple/simulate/component/base.py, for an ARBITRARY reducer:
if the reducer answers with a rejection alone and returns the state it was given, the dispatcher
reports exactly that rejection (no ACCEPT or anything else is added) and every lookup in the store is
as before.  Part 2 (below, per component class): the reducers of the modelled component classes answer a
rejection alone with the state unchanged.
-/
import Simaple.Proofs.Dispatch

namespace Simaple.Props.C07
open Simaple.Dispatch

section
variable {ε : Type}

/-- tagging never creates or hides a rejection (method names are identifiers, never `global.reject`) -/
theorem tagging_preserves_rejection (compName m : String) (hm : m ≠ tagREJECT) (evs : List Ev) :
    (∃ e ∈ tagEvents compName m evs, e.tag = tagREJECT) ↔ (∃ e ∈ evs, e.tag = tagREJECT) :=
  tagEvents_reject_iff compName m hm evs

/-- no ACCEPT (or anything else) is appended to an answer that contains a rejection -/
theorem nothing_added_to_rejection (compName m : String) (evs : List Ev) (h : ∃ e ∈ evs, e.tag = tagREJECT) :
    (tagEvents compName m evs).length = evs.length :=
  tagEvents_length_of_reject compName m evs h

/-- **dispatcher level**: a reducer that rejects alone and returns its input state makes the dispatcher
    answer with that rejection alone and leave every store lookup unchanged -/
theorem dispatch_reject_alone (c : Comp ε) (hnd : (c.boundNames.map (·.1)).Nodup) (m : String)
    (reducer : List (String × ε) → List (String × ε) × List Ev) (s : Store ε) (r : Ev)
    (hr : r.tag = tagREJECT)
    (hred : ∀ st, readAll c (initDefaults c s) = some st → reducer st = (st, [r]))
    (res : Store ε × List Ev) (h : dispatch c m reducer s = some res) :
    res.2 = [{ r with method := m }] ∧ ∀ a, res.1.get a = (initDefaults c s).get a := by
  unfold dispatch at h
  simp only at h
  cases hst : readAll c (initDefaults c s) with
  | none => simp [hst] at h
  | some st =>
    simp only [hst, Option.some.injEq] at h
    rw [← h, hred st hst]
    exact ⟨tagEvents_single_reject c.name m r hr, setState_readback c hnd _ st hst⟩

end

end Simaple.Props.C07
