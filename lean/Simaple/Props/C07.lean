/-
C07 — a rejected action is reported alone and changes nothing.
Part 1 (this section): the dispatcher of simaple/simulate/component/base.py, for an ARBITRARY reducer:
if the reducer answers with a rejection alone and returns the state it was given, the dispatcher
reports exactly that rejection (no ACCEPT or anything else is added) and every lookup in the store is
as before.  Part 2 (below, per component class): the reducers of the modelled component classes answer a
rejection alone with the state unchanged.
-/
import Simaple.Proofs.Dispatch
import Simaple.Proofs.Component

namespace Simaple.Props.C07
open Simaple.Dispatch

section
variable {ε : Type}

/-- tagging never creates or hides a rejection (method names are identifiers, never `global.reject`) -/
theorem tagging_preserves_rejection (compName m : String) (hm : m ≠ tagREJECT) (evs : List Ev) :
    (∃ e ∈ tagEvents compName m evs, e.tag = tagREJECT) ↔ (∃ e ∈ evs, e.tag = tagREJECT) :=
  tagEvents_reject_iff compName m hm evs

/-- no ACCEPT (or anything else) is appended to an answer that contains a rejection -/
theorem nothing_added_to_rejection (compName m : String) (evs : List Ev) (h : ∃ e ∈ evs, e.tag = tagREJECT) :
    (tagEvents compName m evs).length = evs.length :=
  tagEvents_length_of_reject compName m evs h

/-- **dispatcher level**: a reducer that rejects alone and returns its input state makes the dispatcher
    answer with that rejection alone and leave every store lookup unchanged -/
theorem dispatch_reject_alone (c : Comp ε) (hnd : (c.boundNames.map (·.1)).Nodup) (m : String)
    (reducer : List (String × ε) → List (String × ε) × List Ev) (s : Store ε) (r : Ev)
    (hr : r.tag = tagREJECT)
    (hred : ∀ st, readAll c (initDefaults c s) = some st → reducer st = (st, [r]))
    (res : Store ε × List Ev) (h : dispatch c m reducer s = some res) :
    res.2 = [{ r with method := m }] ∧ ∀ a, res.1.get a = (initDefaults c s).get a := by
  unfold dispatch at h
  simp only at h
  cases hst : readAll c (initDefaults c s) with
  | none => simp [hst] at h
  | some st =>
    simp only [hst, Option.some.injEq] at h
    rw [← h, hred st hst]
    exact ⟨tagEvents_single_reject c.name m r hr, setState_readback c hnd _ st hst⟩

end

/-! ## Part 2: the reducers of the modelled component classes reject alone and leave the state unchanged.
For every parameter block, every state and every reducer of the class (player actions, and listened /
triggered reducers such as `trigger` and the `ignore_rejected` wrappers): if the answer contains a
rejection, the answer is exactly `[rejected]` and the returned state is the state given. -/
section Classes
open Simaple.Comp Simaple.Entity

theorem buff_reject_alone (p : BuffSkill.P) (s : BuffSkill.S) (h : rejectedIn (BuffSkill.use p s).2 = true) :
    BuffSkill.use p s = (s, [.rejected]) := by
  unfold BuffSkill.use at h ⊢
  split
  · rfl
  · rename_i hc; simp [hc, rejectedIn, REv.isReject] at h
theorem buff_elapse_never_rejects (p : BuffSkill.P) (t : Int) (s : BuffSkill.S) :
    rejectedIn (BuffSkill.elapse p t s).2 = false := by simp [BuffSkill.elapse, rejectedIn, REv.isReject]

theorem attack_reject_alone (p : AttackSkill.P) (s : AttackSkill.S) (h : rejectedIn (AttackSkill.use p s).2 = true) :
    AttackSkill.use p s = (s, [.rejected]) := by
  unfold AttackSkill.use at h ⊢
  split
  · rfl
  · rename_i hc; simp [hc, rejectedIn, REv.isReject] at h
/-- the `ignore_rejected` wrapper never reports a rejection, and when the inner use rejected it changes nothing -/
theorem attack_useIgnoreReject (p : AttackSkill.P) (s : AttackSkill.S) :
    rejectedIn (AttackSkill.useIgnoreReject p s).2 = false ∧
    (rejectedIn (AttackSkill.use p s).2 = true → AttackSkill.useIgnoreReject p s = (s, [])) := by
  constructor
  · simp [AttackSkill.useIgnoreReject, rejectedIn, List.any_filter]
  · intro h
    simp [AttackSkill.useIgnoreReject, attack_reject_alone p s h, REv.isReject]
theorem attack_other_reducers_never_reject (p : AttackSkill.P) (t : Int) (s : AttackSkill.S) :
    rejectedIn (AttackSkill.elapse p t s).2 = false ∧ rejectedIn (AttackSkill.resetCooldown p s).2 = false := by
  simp [AttackSkill.elapse, AttackSkill.resetCooldown, rejectedIn, REv.isReject]

/-- the repaired `DOTEmittingAttackSkillComponent.use`: no `add_dot` accompanies a rejection -/
theorem dotAttack_reject_alone (p : DotAttack.P) (s : AttackSkill.S) (h : rejectedIn (DotAttack.use p s).2 = true) :
    DotAttack.use p s = (s, [.rejected]) := by
  unfold DotAttack.use at h ⊢
  by_cases hr : rejectedIn (AttackSkill.use p.toP s).2 = true
  · simp only [hr, if_true]; exact attack_reject_alone p.toP s hr
  · simp only [hr] at h
    simp only [Bool.not_eq_true] at hr
    simp [rejectedIn, REv.isReject] at h hr
    exact absurd h (by simpa using hr)

theorem periodicAttack_reject_alone (p : PeriodicAttack.P) (s : PeriodicAttack.S) (r : PeriodicAttack.S × List REv)
    (hr : PeriodicAttack.use p s = .ok r) (h : rejectedIn r.2 = true) : r = (s, [.rejected]) := by
  unfold PeriodicAttack.use at hr
  split at hr
  · simp at hr; exact hr.symm
  · cases hs : s.periodic.setTimeLeft p.lastingDuration with
    | error e => simp [hs] at hr
    | ok per => simp [hs] at hr; rw [← hr] at h; simp [rejectedIn, REv.isReject] at h
theorem periodicAttack_elapse_never_rejects (p : PeriodicAttack.P) (t : Int) (s : PeriodicAttack.S) :
    rejectedIn (PeriodicAttack.elapse p t s).2 = false := by
  simp [PeriodicAttack.elapse, rejectedIn, REv.isReject, List.any_replicate]

theorem programmed_reject_alone (p : Programmed.P) (s : Programmed.S) (h : rejectedIn (Programmed.use p s).2 = true) :
    Programmed.use p s = (s, [.rejected]) := by
  unfold Programmed.use at h ⊢
  split
  · rfl
  · rename_i hc; simp [hc, rejectedIn, REv.isReject] at h
theorem programmed_elapse_never_rejects (p : Programmed.P) (t : Int) (s : Programmed.S) :
    rejectedIn (Programmed.elapse p t s).2 = false := by
  simp [Programmed.elapse, rejectedIn, REv.isReject, List.any_replicate]

theorem triggable_reject_alone (p : TriggableBuff.P) (s : TriggableBuff.S) (h : rejectedIn (TriggableBuff.use p s).2 = true) :
    TriggableBuff.use p s = (s, [.rejected]) := by
  unfold TriggableBuff.use at h ⊢
  split
  · rfl
  · rename_i hc; simp [hc, rejectedIn, REv.isReject] at h
/-- the listened `trigger` reducer never rejects: when it is not ready it answers nothing and changes nothing -/
theorem triggable_trigger_never_rejects (p : TriggableBuff.P) (t : Int) (s : TriggableBuff.S) :
    rejectedIn (TriggableBuff.trigger p s).2 = false ∧ rejectedIn (TriggableBuff.elapse p t s).2 = false := by
  constructor
  · unfold TriggableBuff.trigger; split <;> simp [rejectedIn, REv.isReject]
  · simp [TriggableBuff.elapse, rejectedIn, REv.isReject]

theorem keydown_use_reject_alone (p : KeydownSkill.P) (s : KeydownSkill.S) (h : rejectedIn (KeydownSkill.use p s).2 = true) :
    KeydownSkill.use p s = (s, [.rejected]) := by
  unfold KeydownSkill.use at h ⊢
  split
  · rfl
  · rename_i hc; simp [hc, rejectedIn, REv.isReject] at h
theorem keydown_stop_reject_alone (p : KeydownSkill.P) (s : KeydownSkill.S) (h : rejectedIn (KeydownSkill.stop p s).2 = true) :
    KeydownSkill.stop p s = (s, [.rejected]) := by
  unfold KeydownSkill.stop at h ⊢
  split
  · rfl
  · rename_i hc; simp [hc, rejectedIn, REv.isReject] at h
theorem keydown_elapse_never_rejects (p : KeydownSkill.P) (t : Int) (s : KeydownSkill.S) :
    rejectedIn (KeydownSkill.elapse p t s).2 = false := by
  unfold KeydownSkill.elapse
  simp only
  split <;> simp [rejectedIn, REv.isReject, List.any_replicate]

/-- the unrepaired `DOTEmittingAttackSkillComponent.use` (append `add_dot` unconditionally) violates the
    property: witness of defect F8a -/
theorem dotAttack_unrepaired_refuted :
    ∃ (p : DotAttack.P) (s : AttackSkill.S),
      let r := AttackSkill.use p.toP s
      rejectedIn (r.2 ++ [REv.addDot p.dotDamage p.dotLasting]) = true ∧ (r.2 ++ [REv.addDot p.dotDamage p.dotLasting]).length = 2 :=
  ⟨⟨⟨1000, 0, 1, 1, false⟩, 1, 1000⟩, ⟨⟨500⟩⟩, by decide⟩

end Classes

end Simaple.Props.C07
