/-
C07 (part `Mage`) — a refused request has no side effect and reports only the refusal, for the job-specific
component classes of archmagefb / archmagetc / bishop and `Infinity` (Simaple/Model/ComponentMage.lean).
For every reducer that can refuse: if the answer contains a rejection, the answer is exactly
`(s, [.rejected])` — the state (INCLUDING the entities of other components bound into it: the frost stack,
the divine mark, the drain stack, the Jupiter shock) is unchanged and the rejection is alone.  Every other
reducer (elapse, listened / triggered reducers) never rejects.  Statements are over all parameters and states.
-/
import Simaple.Proofs.ComponentMage

namespace Simaple.Props.C07_Mage
open Simaple.Comp Simaple.Comp.Mage Simaple.Entity

/-! ### PoisonNovaComponent -/
theorem poisonNova_reject_alone (p : PoisonNova.P) (s : PoisonNova.S) (h : rejectedIn (PoisonNova.use p s).2 = true) :
    PoisonNova.use p s = (s, [.rejected]) := by
  unfold PoisonNova.use at h ⊢
  split
  · rfl
  · rename_i hc; simp [hc, rejectedIn, REv.isReject] at h
theorem poisonNova_elapse_never_rejects (p : PoisonNova.P) (t : Int) (s : PoisonNova.S) :
    rejectedIn (PoisonNova.elapse p t s).2 = false := by simp [PoisonNova.elapse, rejectedIn, REv.isReject]
/-- the listened `trigger` (on 미스트 이럽션) never rejects -/
theorem poisonNova_trigger_never_rejects (p : PoisonNova.P) (s : PoisonNova.S) :
    rejectedIn (PoisonNova.trigger p s).2 = false := by
  unfold PoisonNova.trigger; simp only []; split <;> simp [rejectedIn, REv.isReject]

/-! ### PoisonChainComponent -/
theorem poisonChain_reject_alone (p : PoisonChain.P) (s : PoisonChain.S) (r : PoisonChain.S × List REv)
    (hr : PoisonChain.use p s = .ok r) (h : rejectedIn r.2 = true) : r = (s, [.rejected]) := by
  unfold PoisonChain.use at hr
  split at hr
  · simp at hr; exact hr.symm
  · cases hs : s.periodic.setTimeLeft p.lastingDuration with
    | error e => simp [hs] at hr
    | ok per => simp [hs] at hr; rw [← hr] at h; simp [rejectedIn, REv.isReject] at h
theorem poisonChain_elapse_never_rejects (p : PoisonChain.P) (t : Int) (s : PoisonChain.S) :
    rejectedIn (PoisonChain.elapse p t s).2 = false :=
  rejectedIn_elapsed_damage _ _ (poisonChain_ticks_allDamage p _ _)

/-! ### DotPunisherComponent -/
theorem dotPunisher_reject_alone (p : DotPunisher.P) (s : DotPunisher.S) (h : rejectedIn (DotPunisher.use p s).2 = true) :
    DotPunisher.use p s = (s, [.rejected]) := by
  unfold DotPunisher.use at h ⊢
  split
  · rfl
  · rename_i hc
    simp only [hc] at h
    rw [if_neg (by simp), rejectedIn_append, rejectedIn_of_allDamage _ (allDamage_replicate _ _ _)] at h
    simp [rejectedIn, REv.isReject] at h
theorem dotPunisher_other_reducers_never_reject (p : DotPunisher.P) (t : Int) (s : DotPunisher.S) :
    rejectedIn (DotPunisher.elapse p t s).2 = false ∧ rejectedIn (DotPunisher.resetCooldown p s).2 = false := by
  simp [DotPunisher.elapse, DotPunisher.resetCooldown, rejectedIn, REv.isReject]

/-! ### IfrittComponent (the repaired `use`: no `add_dot` accompanies a rejection) -/
theorem ifritt_reject_alone (p : Ifritt.P) (s : Ifritt.S) (r : Ifritt.S × List REv)
    (hr : Ifritt.use p s = .ok r) (h : rejectedIn r.2 = true) : r = (s, [.rejected]) := by
  unfold Ifritt.use at hr
  split at hr
  · simp at hr; exact hr.symm
  · cases hs : s.periodic.setTimeLeft p.lastingDuration with
    | error e => simp [hs] at hr
    | ok per => simp [hs] at hr; rw [← hr] at h; simp [rejectedIn, REv.isReject] at h
theorem ifritt_elapse_never_rejects (p : Ifritt.P) (t : Int) (s : Ifritt.S) :
    rejectedIn (Ifritt.elapse p t s).2 = false :=
  rejectedIn_elapsed_damage _ _ (allDamage_replicate _ _ _)

/-! ### InfernalVenom: a refused use leaves FerventDrain's stack alone -/
theorem infernalVenom_reject_alone (p : InfernalVenom.P) (s : InfernalVenom.S)
    (h : rejectedIn (InfernalVenom.use p s).2 = true) : InfernalVenom.use p s = (s, [.rejected]) := by
  unfold InfernalVenom.use at h ⊢
  split
  · rfl
  · rename_i hc; simp [hc, rejectedIn, REv.isReject] at h
theorem infernalVenom_elapse_never_rejects (p : InfernalVenom.P) (t : Int) (s : InfernalVenom.S) :
    rejectedIn (InfernalVenom.elapse p t s).2 = false := by
  unfold InfernalVenom.elapse; simp only []; split <;> simp [rejectedIn, REv.isReject]

/-! ### FlameSwipVI (the repaired `use`: neither `add_dot` nor a stack accompanies a rejection) -/
theorem flameSwip_reject_alone (p : FlameSwip.P) (s : FlameSwip.S) (h : rejectedIn (FlameSwip.use p s).2 = true) :
    FlameSwip.use p s = (s, [.rejected]) := by
  unfold FlameSwip.use at h ⊢
  split
  · rfl
  · rename_i hc; simp [hc, rejectedIn, REv.isReject] at h
/-- the listened `explode` never rejects: below three stacks it answers nothing and changes nothing -/
theorem flameSwip_explode_never_rejects (p : FlameSwip.P) (s : FlameSwip.S) :
    rejectedIn (FlameSwip.explode p s).2 = false ∧ (s.stack.getStack < 3 → FlameSwip.explode p s = (s, [])) := by
  unfold FlameSwip.explode
  constructor
  · split <;> simp [rejectedIn, REv.isReject]
  · intro h; simp [h]

/-! ### FrostEffect: both listened reducers answer no event at all -/
theorem frostEffect_never_rejects (s : FrostEffect.S) :
    rejectedIn (FrostEffect.increaseStep s).2 = false ∧ rejectedIn (FrostEffect.increaseThree s).2 = false := by
  simp [FrostEffect.increaseStep, FrostEffect.increaseThree, rejectedIn]

/-! ### JupyterThunder -/
theorem jupyterThunder_reject_alone (p : JupyterThunder.P) (s : JupyterThunder.S) (r : JupyterThunder.S × List REv)
    (hr : JupyterThunder.use p s = .ok r) (h : rejectedIn r.2 = true) : r = (s, [.rejected]) := by
  unfold JupyterThunder.use at hr
  split at hr
  · simp at hr; exact hr.symm
  · cases hs : s.periodic.setTimeLeft p.lastingDuration with
    | error e => simp [hs] at hr
    | ok per => simp [hs] at hr; rw [← hr] at h; simp [rejectedIn, REv.isReject] at h
theorem jupyterThunder_elapse_never_rejects (p : JupyterThunder.P) (t : Int) (s : JupyterThunder.S) :
    rejectedIn (JupyterThunder.elapse p t s).2 = false :=
  rejectedIn_elapsed_damage _ _ (tickLoop_allDamage _ _ (jupyter_emit_isDamage p) _ _ _ _ _)

/-! ### ThunderBreak -/
theorem thunderBreak_reject_alone (p : ThunderBreak.P) (s : ThunderBreak.S) (r : ThunderBreak.S × List REv)
    (hr : ThunderBreak.use p s = .ok r) (h : rejectedIn r.2 = true) : r = (s, [.rejected]) := by
  unfold ThunderBreak.use at hr
  split at hr
  · simp at hr; exact hr.symm
  · cases hs : s.periodic.setTimeLeft p.lastingDuration with
    | error e => simp [hs] at hr
    | ok per => simp [hs] at hr; rw [← hr] at h; simp [rejectedIn, REv.isReject] at h
theorem thunderBreak_elapse_never_rejects (p : ThunderBreak.P) (t : Int) (s : ThunderBreak.S) :
    rejectedIn (ThunderBreak.elapse p t s).2 = false :=
  rejectedIn_elapsed_damage _ _ (tickLoop_allDamage _ _ (thunderBreak_emit_isDamage p _) _ _ _ _ _)

/-! ### ChainLightningVIComponent: a refused use consumes no frost stack and does not touch the current fields -/
theorem chainLightning_reject_alone (p : ChainLightning.P) (s : ChainLightning.S) (r : ChainLightning.S × List REv)
    (hr : ChainLightning.use p s = .ok r) (h : rejectedIn r.2 = true) : r = (s, [.rejected]) := by
  unfold ChainLightning.use at hr
  split at hr
  · simp at hr; exact hr.symm
  · simp only [] at hr
    cases hs : s.currentFields.stackRng p.prob with
    | error e => simp [hs] at hr
    | ok cf =>
      simp [hs] at hr; rw [← hr] at h
      simp only [rejectedIn_cons, isDamage_not_reject _ (mkDealt_isDamage _ _ _ _)] at h
      simp [rejectedIn, REv.isReject] at h
theorem chainLightning_elapse_never_rejects (p : ChainLightning.P) (t : Int) (s : ChainLightning.S) :
    rejectedIn (ChainLightning.elapse p t s).2 = false :=
  rejectedIn_elapsed_damage _ _ (allDamage_replicate _ _ _)

/-! ### DivineAttackSkillComponent: a refused use does not consume the divine mark -/
theorem divineAttack_reject_alone (p : DivineAttack.P) (s : DivineAttack.S) (h : rejectedIn (DivineAttack.use p s).2 = true) :
    DivineAttack.use p s = (s, [.rejected]) := by
  unfold DivineAttack.use at h ⊢
  split
  · rfl
  · rename_i hc
    simp only [hc] at h
    rw [if_neg (by simp)] at h
    simp only [rejectedIn_cons, isDamage_not_reject _ (mkDealt_isDamage _ _ _ _)] at h
    simp [rejectedIn, REv.isReject] at h
theorem divineAttack_elapse_never_rejects (p : DivineAttack.P) (t : Int) (s : DivineAttack.S) :
    rejectedIn (DivineAttack.elapse p t s).2 = false := by simp [DivineAttack.elapse, rejectedIn, REv.isReject]

/-! ### DivineMinion -/
theorem divineMinion_reject_alone (p : DivineMinion.P) (s : DivineMinion.S) (r : DivineMinion.S × List REv)
    (hr : DivineMinion.use p s = .ok r) (h : rejectedIn r.2 = true) : r = (s, [.rejected]) := by
  unfold DivineMinion.use at hr
  split at hr
  · simp at hr; exact hr.symm
  · cases hs : s.periodic.setTimeLeft p.lastingDuration with
    | error e => simp [hs] at hr
    | ok per => simp [hs] at hr; rw [← hr] at h; simp [rejectedIn, REv.isReject] at h
theorem divineMinion_elapse_never_rejects (p : DivineMinion.P) (t : Int) (s : DivineMinion.S) :
    rejectedIn (DivineMinion.elapse p t s).2 = false :=
  rejectedIn_elapsed_damage _ _ (allDamage_replicate _ _ _)

/-! ### HexaAngelRayComponent: a refused use neither stacks nor consumes the mark -/
theorem hexaAngelRay_stackCore_allDamage (p : HexaAngelRay.P) (st : Stack) :
    ∀ e ∈ (HexaAngelRay.stackCore p st).2, isDamage e = true := by
  unfold HexaAngelRay.stackCore; simp only []; split <;> simp [isDamage]
theorem hexaAngelRay_reject_alone (p : HexaAngelRay.P) (s : HexaAngelRay.S) (h : rejectedIn (HexaAngelRay.use p s).2 = true) :
    HexaAngelRay.use p s = (s, [.rejected]) := by
  unfold HexaAngelRay.use at h ⊢
  split
  · rfl
  · rename_i hc
    simp only [hc] at h
    rw [if_neg (by simp)] at h
    simp only [rejectedIn_append, rejectedIn_cons, isDamage_not_reject _ (mkDealt_isDamage _ _ _ _),
      rejectedIn_of_allDamage _ (hexaAngelRay_stackCore_allDamage p _)] at h
    simp [rejectedIn, REv.isReject] at h
/-- the listened `stack` (on 디바인 퍼니시먼트 damage) and `elapse` never reject -/
theorem hexaAngelRay_other_reducers_never_reject (p : HexaAngelRay.P) (t : Int) (s : HexaAngelRay.S) :
    rejectedIn (HexaAngelRay.stack p s).2 = false ∧ rejectedIn (HexaAngelRay.elapse p t s).2 = false := by
  constructor
  · exact rejectedIn_of_allDamage _ (hexaAngelRay_stackCore_allDamage p _)
  · simp [HexaAngelRay.elapse, rejectedIn, REv.isReject]

/-! ### Infinity -/
theorem infinity_reject_alone (p : Infinity.P) (s : Infinity.S) (h : rejectedIn (Infinity.use p s).2 = true) :
    Infinity.use p s = (s, [.rejected]) := by
  unfold Infinity.use at h ⊢
  split
  · rfl
  · rename_i hc; simp [hc, rejectedIn, REv.isReject] at h
theorem infinity_elapse_never_rejects (p : Infinity.P) (t : Int) (s : Infinity.S) :
    rejectedIn (Infinity.elapse p t s).2 = false := by simp [Infinity.elapse, rejectedIn, REv.isReject]

/-! ### non-vacuity: rejections and acceptances both occur -/
example : rejectedIn (PoisonNova.use ⟨25600000, 583680, 550, 12, 4096000, 495, 12, 4, 660, 20480000⟩
    ⟨⟨1024⟩, ⟨0, 102400000⟩⟩).2 = true := by decide
example : rejectedIn (PoisonNova.use ⟨25600000, 583680, 550, 12, 4096000, 495, 12, 4, 660, 20480000⟩
    ⟨⟨0⟩, ⟨0, 102400000⟩⟩).2 = false := by decide
example : (HexaAngelRay.use ⟨0, 645120, 239, 14, 559, 10, 12, "D", "D", []⟩ ⟨⟨some "m"⟩, ⟨5⟩, ⟨11, 23⟩⟩)
    = (⟨⟨some "m"⟩, ⟨5⟩, ⟨11, 23⟩⟩, [.rejected]) := by decide

end Simaple.Props.C07_Mage
