import Simaple.Props.C06
import Simaple.Props.C01_Refused
/-!
# C06, part "Refused": the clock in sessions that go on after a refused command

`clock_is_sum` is about uninterrupted runs of commands that are all executed.  A command refused with an exception
(see `Props/C01_Refused.lean`) must leave the clock where it was, and the clock after the whole session is still the sum
of the elapse times that were dispatched (those of the commands that were not refused).
-/
namespace Simaple.Props.C06
open Simaple.Engine Simaple.Props.C01

section
variable {σ τ : Type}
variable {P : Action → σ → σ × List Event} {save : σ → τ} {load : τ → σ} {clock : σ → Rat}
variable {view : σ → String → String}
variable (hash : OpLog τ → String) (t0 : τ)

/-- a refused operation / debug line leaves the clock (and every view) where it was -/
theorem refused_command_leaves_the_clock (L : StoreLaws P save load clock view) (e : Engine σ τ)
    (h : EInv save t0 e) :
    clock (curStore load t0 (refuseOp e)) = clock (curStore load t0 e) ∧
    clock (curStore load t0 (refuseConsole load t0 e)) = clock (curStore load t0 e) ∧
    ∀ q, view (curStore load t0 (refuseOp e)) q = view (curStore load t0 e) q :=
  ⟨(current_views_agree t0 L _ _ (refused_op_keeps_inv t0 e h).1 h rfl "").2,
   (current_views_agree t0 L _ _ (refused_console_keeps_inv t0 L e h).1 h rfl "").2,
   fun q => (current_views_agree t0 L _ _ (refused_op_keeps_inv t0 e h).1 h rfl q).1⟩

/-- **C06 for sessions with refused commands**: the recorded clocks chain as before and the clock the engine shows at
    the end is the sum of the elapse times of all dispatched actions. -/
theorem clock_is_sum_with_refusals (L : StoreLaws P save load clock view)
    (hPlay : ∀ a s, clock (P a s).1 = clock s + elapseOf a) (st : σ) (hst : clock st = 0) (steps : List Step) :
    let e := runSteps P save load clock view hash t0 (initEngine save st) steps
    ClockChain 0 ((allPL e.logs).drop 1) ∧
    clock (curStore load t0 e) = (((allPL e.logs).drop 1).map (fun pl => elapseOf pl.action)).sum := by
  intro e
  have hi := initEngine_inv (save := save) t0 st
  obtain ⟨hl, hinv⟩ := refused_commands_leave_no_trace hash t0 L steps _ hi
  have hinv' := (execAll_logs hash t0 L (accepted steps) _ hi).2
  have hs := clock_is_sum (save := save) (load := load) (view := view) hash t0 hPlay st hst (accepted steps)
  simp only [] at hs
  have hc := (current_views_agree t0 L _ _ hinv hinv' hl "").2
  show ClockChain 0 ((allPL (runSteps P save load clock view hash t0 (initEngine save st) steps).logs).drop 1) ∧ _
  rw [hl]
  exact ⟨hs.1, hc.trans hs.2⟩

end
end Simaple.Props.C06
