/- C08, effect discipline: kernel evaluation of the checker on part 1 of the generated table -/
import Simaple.Props.C08_EffectsBase

namespace Simaple.Props.C08
open Simaple.Effect Simaple.Gen.Effects

theorem chunk1_wellFormed : allWellFormed table1 = true := by decide +kernel

end Simaple.Props.C08
