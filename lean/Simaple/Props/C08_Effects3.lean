/- C08, effect discipline: kernel evaluation of the checker on part 3 of the generated table -/
import Simaple.Props.C08_EffectsBase

namespace Simaple.Props.C08
open Simaple.Effect Simaple.Gen.Effects

theorem chunk3_wellFormed : allWellFormed table3 = true := by decide +kernel

end Simaple.Props.C08
