/-
C10 — status views never fail and never advertise a skill that would be rejected.
Per modelled component class (Simaple/Model/Component.lean): the views are total functions of the state
(no exception can arise in them), the validity view never reports a negative remaining time, and
whenever it reports the skill usable, `use` on that very state is not rejected.  The statements hold for
EVERY state (no reachability invariant is needed for the modelled classes) and every parameter block.
Classes not modelled are covered only by the exploration in the check (evidence lists both sets).
-/
import Simaple.Proofs.Component

namespace Simaple.Props.C10
open Simaple.Comp Simaple.Entity

/-! ### BuffSkillComponent -/
theorem buff_valid_implies_accepted (p : BuffSkill.P) (s : BuffSkill.S) (h : (BuffSkill.validity p s).valid = true) :
    rejectedIn (BuffSkill.use p s).2 = false := by
  have hv := invalidate_valid _ _ h
  simp only [cooldownValidity] at hv
  simp [BuffSkill.use, hv, rejectedIn, REv.isReject]
theorem buff_validity_nonneg (p : BuffSkill.P) (s : BuffSkill.S) : 0 ≤ (BuffSkill.validity p s).timeLeft := by
  simp only [BuffSkill.validity, invalidate_timeLeft, cooldownValidity]; exact cooldown_min_nonneg _

/-! ### AttackSkillComponent -/
theorem attack_valid_implies_accepted (p : AttackSkill.P) (s : AttackSkill.S) (h : (AttackSkill.validity p s).valid = true) :
    rejectedIn (AttackSkill.use p s).2 = false := by
  have hv := invalidate_valid _ _ h
  simp only [cooldownValidity] at hv
  simp [AttackSkill.use, hv, rejectedIn, REv.isReject]
theorem attack_validity_nonneg (p : AttackSkill.P) (s : AttackSkill.S) : 0 ≤ (AttackSkill.validity p s).timeLeft := by
  simp only [AttackSkill.validity, invalidate_timeLeft, cooldownValidity]; exact cooldown_min_nonneg _

/-! ### DOTEmittingAttackSkillComponent -/
theorem dotAttack_valid_implies_accepted (p : DotAttack.P) (s : AttackSkill.S) (h : (DotAttack.validity p s).valid = true) :
    rejectedIn (DotAttack.use p s).2 = false := by
  have h0 := attack_valid_implies_accepted p.toP s h
  simp only [DotAttack.use, h0]
  simp [rejectedIn, REv.isReject] at h0 ⊢
  exact h0
theorem dotAttack_validity_nonneg (p : DotAttack.P) (s : AttackSkill.S) : 0 ≤ (DotAttack.validity p s).timeLeft :=
  attack_validity_nonneg p.toP s

/-! ### PeriodicDamageConfiguratedAttackSkillComponent -/
theorem periodicAttack_valid_implies_accepted (p : PeriodicAttack.P) (s : PeriodicAttack.S)
    (h : (PeriodicAttack.validity p s).valid = true) :
    ∀ r, PeriodicAttack.use p s = .ok r → rejectedIn r.2 = false := by
  have hv := invalidate_valid _ _ h
  simp only [cooldownValidity] at hv
  intro r hr
  simp only [PeriodicAttack.use, hv, Bool.not_true, Bool.false_eq_true, if_false] at hr
  cases hs : s.periodic.setTimeLeft p.lastingDuration with
  | error e => simp [hs] at hr
  | ok per => simp [hs] at hr; rw [← hr]; simp [rejectedIn, REv.isReject]
/-- the only exception `use` can raise is the ValueError of `Periodic.set_time_left`, and it cannot for a
    positive lasting duration and a positive (or absent) initial counter — which shipped data satisfies -/
theorem periodicAttack_use_defined (p : PeriodicAttack.P) (s : PeriodicAttack.S) (hl : 0 < p.lastingDuration)
    (hi : ∀ c, s.periodic.initialCounter = some c → 0 < c) : ∃ r, PeriodicAttack.use p s = .ok r := by
  unfold PeriodicAttack.use
  split
  · exact ⟨_, rfl⟩
  · unfold Periodic.setTimeLeft
    have : ¬ p.lastingDuration ≤ 0 := by omega
    simp only [this, if_false]
    cases hc : s.periodic.initialCounter with
    | none => exact ⟨_, rfl⟩
    | some c =>
      have := hi c hc
      have h2 : ¬ c ≤ 0 := by omega
      simp only [h2, if_false]; exact ⟨_, rfl⟩
theorem periodicAttack_validity_nonneg (p : PeriodicAttack.P) (s : PeriodicAttack.S) :
    0 ≤ (PeriodicAttack.validity p s).timeLeft := by
  simp only [PeriodicAttack.validity, invalidate_timeLeft, cooldownValidity]; exact cooldown_min_nonneg _

/-! ### ProgrammedPeriodicComponent -/
theorem programmed_valid_implies_accepted (p : Programmed.P) (s : Programmed.S) (h : (Programmed.validity p s).valid = true) :
    rejectedIn (Programmed.use p s).2 = false := by
  have hv := invalidate_valid _ _ h
  simp only [cooldownValidity] at hv
  simp [Programmed.use, hv, rejectedIn, REv.isReject]
theorem programmed_validity_nonneg (p : Programmed.P) (s : Programmed.S) : 0 ≤ (Programmed.validity p s).timeLeft := by
  simp only [Programmed.validity, invalidate_timeLeft, cooldownValidity]; exact cooldown_min_nonneg _

/-! ### TriggableBuffSkillComponent -/
theorem triggable_valid_implies_accepted (p : TriggableBuff.P) (s : TriggableBuff.S) (h : (TriggableBuff.validity p s).valid = true) :
    rejectedIn (TriggableBuff.use p s).2 = false := by
  have hv := invalidate_valid _ _ h
  simp only [cooldownValidity] at hv
  simp [TriggableBuff.use, hv, rejectedIn, REv.isReject]
theorem triggable_validity_nonneg (p : TriggableBuff.P) (s : TriggableBuff.S) : 0 ≤ (TriggableBuff.validity p s).timeLeft := by
  simp only [TriggableBuff.validity, invalidate_timeLeft, cooldownValidity]; exact cooldown_min_nonneg _

/-! ### KeydownSkillComponent — valid requires the key-down not to be running (the F14 repair) -/
theorem keydown_valid_implies_accepted (p : KeydownSkill.P) (s : KeydownSkill.S) (h : (KeydownSkill.validity p s).valid = true) :
    rejectedIn (KeydownSkill.use p s).2 = false := by
  simp only [KeydownSkill.validity, Bool.and_eq_true, Bool.not_eq_true'] at h
  simp [KeydownSkill.use, h.1, h.2, rejectedIn, REv.isReject]
theorem keydown_validity_nonneg (p : KeydownSkill.P) (s : KeydownSkill.S) : 0 ≤ (KeydownSkill.validity p s).timeLeft := by
  simp only [KeydownSkill.validity]; exact cooldown_min_nonneg _
/-- with the cooldown-only validity of the unrepaired code the implication is FALSE: a running key-down
    with an expired cooldown is listed valid and `use` rejects (the witness of defect F14) -/
theorem keydown_cooldown_only_validity_refuted :
    ∃ (p : KeydownSkill.P) (s : KeydownSkill.S), (cooldownValidity s.cooldown).valid = true ∧
      rejectedIn (KeydownSkill.use p s).2 = true :=
  ⟨⟨0, 10240, 0, 1, 1, 1, 1, 0⟩, ⟨⟨0⟩, ⟨1024, 0, 5120⟩⟩, by decide⟩

/-! ### the aggregated buff view is a well-formed stat block: see `Simaple.Props.C11.stat_sum_eq_foldl`
    (the `buff` view is `Stat.sum` of the component buffs that are switched on) -/

/-! non-vacuity: a ready skill is listed valid -/
example : (BuffSkill.validity ⟨1000, 2000, 30, false⟩ ⟨⟨0⟩, ⟨0, 0⟩⟩).valid = true := by decide

end Simaple.Props.C10
