/-
C06 (part `Common`) — component level: the `elapsed` event a component answers to `elapse t` carries
exactly the time asked for, and exactly one such event is emitted (`elapsedTimes` = the list of the times
of the `elapsed` events of an answer, `Simaple/Proofs/ComponentCommon.lean`).  For the 7 classes of
`Simaple/Model/Component.lean` and the classes of `Simaple/Model/ComponentCommon.lean`.  No hypothesis on
state, parameters or the sign of `t`.  `use`-type reducers emit no `elapsed` event at all.
The mob answers DOT ticks only — the clock is advanced by the timer component alone.
-/
import Simaple.Proofs.ComponentCommon

namespace Simaple.Props.C06_Common
open Simaple.Comp Simaple.Comp.Common Simaple.Entity

/-! ### the 7 classes of `Model/Component.lean` -/
theorem buff_elapsed_carries_time (p : BuffSkill.P) (t : Int) (s : BuffSkill.S) :
    elapsedTimes (BuffSkill.elapse p t s).2 = [t] := rfl
theorem attack_elapsed_carries_time (p : AttackSkill.P) (t : Int) (s : AttackSkill.S) :
    elapsedTimes (AttackSkill.elapse p t s).2 = [t] := rfl
theorem dotAttack_elapsed_carries_time (p : DotAttack.P) (t : Int) (s : AttackSkill.S) :
    elapsedTimes (DotAttack.elapse p t s).2 = [t] := rfl
theorem periodicAttack_elapsed_carries_time (p : PeriodicAttack.P) (t : Int) (s : PeriodicAttack.S) :
    elapsedTimes (PeriodicAttack.elapse p t s).2 = [t] := by
  simp only [PeriodicAttack.elapse, elapsedTimes_cons_elapsed, elapsedTimes_replicate_dealt]
theorem programmed_elapsed_carries_time (p : Programmed.P) (t : Int) (s : Programmed.S) :
    elapsedTimes (Programmed.elapse p t s).2 = [t] := by
  simp only [Programmed.elapse, elapsedTimes_cons_elapsed, elapsedTimes_replicate_dealt]
theorem triggable_elapsed_carries_time (p : TriggableBuff.P) (t : Int) (s : TriggableBuff.S) :
    elapsedTimes (TriggableBuff.elapse p t s).2 = [t] := rfl
/-- the key-down answers hits, a delay, the elapsed time and possibly the key-down end: one `elapsed`, with `t` -/
theorem keydown_elapsed_carries_time (p : KeydownSkill.P) (t : Int) (s : KeydownSkill.S) :
    elapsedTimes (KeydownSkill.elapse p t s).2 = [t] := by
  unfold KeydownSkill.elapse
  simp only []
  split
  · simp only [elapsedTimes_append, elapsedTimes_replicate_dealt]; rfl
  · simp only [elapsedTimes_append, elapsedTimes_replicate_dealt]; rfl
/-- the reducers that do not let time pass emit no `elapsed` event -/
theorem core_use_emits_no_elapsed (pb : BuffSkill.P) (sb : BuffSkill.S) (pa : AttackSkill.P) (sa : AttackSkill.S)
    (pk : KeydownSkill.P) (sk : KeydownSkill.S) (pt : TriggableBuff.P) (st : TriggableBuff.S) :
    elapsedTimes (BuffSkill.use pb sb).2 = [] ∧ elapsedTimes (AttackSkill.use pa sa).2 = [] ∧
    elapsedTimes (KeydownSkill.use pk sk).2 = [] ∧ elapsedTimes (KeydownSkill.stop pk sk).2 = [] ∧
    elapsedTimes (TriggableBuff.use pt st).2 = [] ∧ elapsedTimes (TriggableBuff.trigger pt st).2 = [] := by
  refine ⟨?_, ?_, ?_, ?_, ?_, ?_⟩
  · unfold BuffSkill.use; split <;> rfl
  · unfold AttackSkill.use; split <;> rfl
  · unfold KeydownSkill.use; split <;> rfl
  · unfold KeydownSkill.stop; split <;> rfl
  · unfold TriggableBuff.use; split <;> rfl
  · unfold TriggableBuff.trigger; split <;> rfl

/-! ### the classes of `Model/ComponentCommon.lean` -/
theorem synergy_elapsed_carries_time (p : SynergySkill.P) (t : Int) (s : SynergySkill.S) :
    elapsedTimes (SynergySkill.elapse p t s).2 = [t] := rfl
theorem hitLimited_elapsed_carries_time (p : HitLimited.P) (t : Int) (s : HitLimited.S) :
    elapsedTimes (HitLimited.elapse p t s).2 = [t] := by
  simp only [HitLimited.elapse, elapsedTimes_cons_elapsed, elapsedTimes_replicate_dealt]
theorem periodicHexa_elapsed_carries_time (p : PeriodicHexa.P) (t : Int) (s : PeriodicHexa.S) :
    elapsedTimes (PeriodicHexa.elapse p t s).2 = [t] := by
  simp only [PeriodicHexa.elapse, elapsedTimes_cons_elapsed, elapsedTimes_replicate_dealt]
theorem tripleHexa_elapsed_carries_time (p : TripleHexa.P) (t : Int) (s : TripleHexa.S) :
    elapsedTimes (TripleHexa.elapse p t s).2 = [t] := by
  simp only [TripleHexa.elapse, TripleHexa.ticks, elapsedTimes_cons_elapsed, elapsedTimes_append,
    elapsedTimes_replicate_dealt, List.append_nil]
theorem multipleHit_elapsed_carries_time (p : MultipleHit.P) (t : Int) (s : MultipleHit.S) :
    elapsedTimes (MultipleHit.elapse p t s).2 = [t] := rfl
theorem consumableBuff_elapsed_carries_time (p : ConsumableBuff.P) (t : Int) (s : ConsumableBuff.S) :
    elapsedTimes (ConsumableBuff.elapse p t s).2 = [t] := rfl
theorem stackableBuff_elapsed_carries_time (p : StackableBuff.P) (t : Int) (s : StackableBuff.S) :
    elapsedTimes (StackableBuff.elapse p t s).2 = [t] := rfl
theorem temporal_elapsed_carries_time (p : TemporalEnhancing.P) (t : Int) (s : TemporalEnhancing.S) :
    elapsedTimes (TemporalEnhancing.elapse p t s).2 = [t] := rfl
theorem periodicWithFinish_elapsed_carries_time (p : PeriodicWithFinish.P) (t : Int) (s : PeriodicWithFinish.S) :
    elapsedTimes (PeriodicWithFinish.elapse p t s).2 = [t] := by
  unfold PeriodicWithFinish.elapse
  simp only []
  split
  · simp only [elapsedTimes_append, elapsedTimes_cons_elapsed, elapsedTimes_replicate_dealt]; rfl
  · simp only [elapsedTimes_cons_elapsed, elapsedTimes_replicate_dealt]
/-- the mob reports DOT ticks only: no `elapsed` event, whatever the time -/
theorem mob_emits_no_elapsed (render : Rat → String) (s : DOT) (name : String) (damage : Rat) (lasting t : Int) :
    elapsedTimes (Mob.addDotEv s name damage lasting).2 = [] ∧ elapsedTimes (Mob.elapseEv render s t).2 = [] := by
  constructor
  · rfl
  · simp only [Mob.elapseEv]
    generalize (Mob.elapse s t).2 = l
    induction l with
    | nil => rfl
    | cons e l ih => simp only [List.map_cons, elapsedTimes, List.filterMap_cons, Mob.dotEvent, elapsedOf] at *; exact ih

/-! non-vacuity: concrete answers with ticks and a finishing blow around the single `elapsed` -/
example :
    (PeriodicWithFinish.elapse ⟨ms 1000, 0, 10, 1, 99, 2, ms 500⟩ (ms 600)
      ⟨⟨0⟩, { interval := ms 200, intervalCounter := ms 200, timeLeft := ms 500 }⟩).2 =
      [.elapsed (ms 600), .dealt 10 1, .dealt 10 1, .dealt 99 2] := by decide
example :
    elapsedTimes (KeydownSkill.elapse ⟨0, ms 1000, ms 100, 5, 1, 50, 1, ms 300⟩ (ms 1500) ⟨⟨0⟩, ⟨ms 300, ms 100, ms 1000⟩⟩).2
      = [ms 1500] := by decide

end Simaple.Props.C06_Common
