/-
C13 — reports add up: totals, shares, DPM and the best dealing window.
Property theorems only, over the hand-written model `Simaple.Model.Report` of
simaple/simulate/report/{base,dpm,feature}.py.  `dmg` is `DamageCalculator.get_damage` (abstract),
`add` the `+` of buff blocks (abstract).
-/
import Simaple.Proofs.Report
import Simaple.Proofs.ReportTotals

namespace Simaple.Props.C13
open Simaple.Report Simaple.Py Simaple.Proofs.Report

variable {β : Type}

/-! ### totals -/

/-- the run total is the sum over actions (entries) of the action's `total_damage`, and an action's
    `total_damage` is the sum of its `damage_records` -/
theorem total_is_sum_of_actions (dmg : DamageLog β → Rat) (entries : List (SimulationEntry β)) :
    calculateTotalDamage dmg entries = (entries.map (calculateDamage dmg)).sum ∧
    ∀ en ∈ entries, calculateDamage dmg en = ((damageRecords dmg en).map (·.2)).sum := by
  refine ⟨pySum_eq_sum _, fun en _ => ?_⟩
  rw [calculateDamage_eq_sum, damageRecords, List.map_map]; rfl

/-- the total of a run cut in two is the total of the first part plus the total of the second -/
theorem total_append (dmg : DamageLog β → Rat) (xs ys : List (SimulationEntry β)) :
    calculateTotalDamage dmg (xs ++ ys) = calculateTotalDamage dmg xs + calculateTotalDamage dmg ys := by
  rw [(total_is_sum_of_actions dmg (xs ++ ys)).1, (total_is_sum_of_actions dmg xs).1,
    (total_is_sum_of_actions dmg ys).1, List.map_append, List.sum_append]

/-- the total does not depend on the order in which the actions were recorded -/
theorem total_perm (dmg : DamageLog β → Rat) {xs ys : List (SimulationEntry β)} (h : xs.Perm ys) :
    calculateTotalDamage dmg xs = calculateTotalDamage dmg ys := by
  rw [(total_is_sum_of_actions dmg xs).1, (total_is_sum_of_actions dmg ys).1]
  induction h with
  | nil => rfl
  | cons x _ ih => simp only [List.map_cons, List.sum_cons, ih]
  | swap x y l => simp only [List.map_cons, List.sum_cons]; ring
  | trans _ _ ih₁ ih₂ => exact ih₁.trans ih₂

/-- an empty run has total 0 -/
theorem total_nil (dmg : DamageLog β → Rat) : calculateTotalDamage dmg ([] : List (SimulationEntry β)) = 0 := by
  rw [(total_is_sum_of_actions dmg []).1]; rfl
/-- the per-skill sums of `DamageShareFeature` add up to the run total (sum rearrangement by name) -/
theorem total_is_sum_of_skills (dmg : DamageLog β → Rat) (entries : List (SimulationEntry β)) :
    ((shareSums dmg entries).map (·.2)).sum = calculateTotalDamage dmg entries := by
  have := dictTotal_addLogs dmg (allLogs entries) []
  rw [shareSums_eq_addLogs, total_eq_sum_allLogs]
  simpa [dictTotal] using this

/-- each skill appears once in the dict, exactly the names that have a log appear, and a skill's entry is
    the sum of the damages of its own logs -/
theorem skill_sum_is_sum_of_its_logs (dmg : DamageLog β → Rat) (entries : List (SimulationEntry β)) :
    ((shareSums dmg entries).map (·.1)).Nodup ∧
    (∀ k, k ∈ (shareSums dmg entries).map (·.1) ↔ ∃ l ∈ allLogs entries, l.name = k) ∧
    ∀ k, dictGet (shareSums dmg entries) k = (((allLogs entries).filter (fun l => l.name = k)).map dmg).sum := by
  rw [shareSums_eq_addLogs]
  refine ⟨nodup_keys_addLogs dmg _ (by simp), fun k => ?_, fun k => ?_⟩
  · simpa using mem_keys_addLogs dmg (allLogs entries) [] k
  · simpa [dictGet] using dictGet_addLogs dmg (allLogs entries) [] k

/-- with non-negative damages and a positive total, `compute()` succeeds and every share is ≥ 0 -/
theorem shares_nonneg (dmg : DamageLog β → Rat) (entries : List (SimulationEntry β))
    (hd : ∀ l ∈ allLogs entries, 0 ≤ dmg l) (hpos : 0 < calculateTotalDamage dmg entries) :
    ∃ sh, shareCompute (shareSums dmg entries) = .ok sh ∧ ∀ kv ∈ sh, 0 ≤ kv.2 := by
  have htot : dictTotal (shareSums dmg entries) = calculateTotalDamage dmg entries :=
    total_is_sum_of_skills dmg entries
  have hne : dictTotal (shareSums dmg entries) ≠ 0 := by rw [htot]; exact ne_of_gt hpos
  refine ⟨_, shareCompute_ok hne, ?_⟩
  intro kv hkv
  obtain ⟨kv0, hkv0, rfl⟩ := List.mem_map.mp hkv
  have h0 : 0 ≤ kv0.2 := by
    rw [shareSums_eq_addLogs] at hkv0
    exact nonneg_addLogs dmg (allLogs entries) (by simp) hd kv0 hkv0
  rw [htot]
  exact div_nonneg h0 (le_of_lt hpos)

/-- with a non-zero (in particular a positive) total, `compute()` succeeds, keeps the skills and their
    order, each share is that skill's sum over the total, and the shares sum to one -/
theorem shares_sum_one (dmg : DamageLog β → Rat) (entries : List (SimulationEntry β))
    (hne : calculateTotalDamage dmg entries ≠ 0) :
    ∃ sh, shareCompute (shareSums dmg entries) = .ok sh ∧
      sh = (shareSums dmg entries).map (fun kv => (kv.1, kv.2 / calculateTotalDamage dmg entries)) ∧
      (sh.map (·.2)).sum = 1 := by
  have htot : dictTotal (shareSums dmg entries) = calculateTotalDamage dmg entries :=
    total_is_sum_of_skills dmg entries
  have hne' : dictTotal (shareSums dmg entries) ≠ 0 := by rw [htot]; exact hne
  refine ⟨_, shareCompute_ok hne', by rw [htot], ?_⟩
  rw [sum_map_div]
  exact div_self hne'

/-- outside the property's domain, documented: a run that has damage logs but total 0 makes `compute()`
    raise ZeroDivisionError; a run without logs gives the empty dict -/
theorem shares_zero_total (dmg : DamageLog β → Rat) (entries : List (SimulationEntry β))
    (h0 : calculateTotalDamage dmg entries = 0) :
    (allLogs entries = [] → shareCompute (shareSums dmg entries) = .ok []) ∧
    (allLogs entries ≠ [] → shareCompute (shareSums dmg entries) = .error .zeroDivisionError) := by
  have htot : dictTotal (shareSums dmg entries) = 0 := (total_is_sum_of_skills dmg entries).trans h0
  have hp : pySum ((shareSums dmg entries).map (·.2)) = 0 := (pySum_eq_sum _).trans htot
  have hkeys := (skill_sum_is_sum_of_its_logs dmg entries).2.1
  constructor
  · intro hnil
    cases hs : shareSums dmg entries with
    | nil => rfl
    | cons kv t =>
      have := (hkeys kv.1).mp (by rw [hs]; simp)
      rw [hnil] at this; simp at this
  · intro hne
    cases hs : shareSums dmg entries with
    | nil =>
      obtain ⟨l, t, hl⟩ := List.exists_cons_of_ne_nil hne
      have := (hkeys l.name).mpr ⟨l, by rw [hl]; simp, rfl⟩
      rw [hs] at this; simp at this
    | cons kv t =>
      rw [hs] at hp
      simp only [shareCompute, hp, if_true]

/-- DPM is the run total per elapsed minute (clock in ms): defined for a non-empty run whose last clock
    is non-zero, `dpm = total / clock_last * 60000`, i.e. `dpm * (clock_last / 60000) = total` -/
theorem dpm_def (dmg : DamageLog β → Rat) (entries : List (SimulationEntry β))
    (hne : entries ≠ []) (hclk : (entries.getLast hne).clock ≠ 0) :
    ∃ dpm, calculateDpm dmg entries = .ok dpm ∧
      dpm = calculateTotalDamage dmg entries / (entries.getLast hne).clock * 60000 ∧
      dpm * ((entries.getLast hne).clock / 60000) = calculateTotalDamage dmg entries := by
  refine ⟨_, ?_, rfl, ?_⟩
  · unfold calculateDpm
    rw [List.getLast?_eq_some_getLast hne]
    simp only [hclk, if_false]; rfl
  · have hc : (entries.getLast hne).clock * ((entries.getLast hne).clock)⁻¹ = 1 := mul_inv_cancel₀ hclk
    calc calculateTotalDamage dmg entries / (entries.getLast hne).clock * 60000 * ((entries.getLast hne).clock / 60000)
        = calculateTotalDamage dmg entries * ((entries.getLast hne).clock * ((entries.getLast hne).clock)⁻¹) := by ring
      _ = calculateTotalDamage dmg entries := by rw [hc, mul_one]

/-- `calculate_dpm` on an empty run raises IndexError, on a run ending at clock 0 ZeroDivisionError -/
theorem dpm_undefined (dmg : DamageLog β → Rat) :
    calculateDpm dmg ([] : List (SimulationEntry β)) = .error .indexError ∧
    ∀ (entries : List (SimulationEntry β)) (hne : entries ≠ []), (entries.getLast hne).clock = 0 →
      calculateDpm dmg entries = .error .zeroDivisionError := by
  refine ⟨rfl, fun entries hne h => ?_⟩
  unfold calculateDpm
  rw [List.getLast?_eq_some_getLast hne]
  simp only [h, if_true]

/-! ### every event counts exactly once -/

/-- `SimulationEntry.build` keeps, in order, exactly one log per event that is DAMAGE/DOT-tagged with
    non-zero damage and non-zero hit (with the buff in force: entry buff ⊕ event modifier) and nothing
    else; hence the entry's damage is the sum over ALL its events of the event's contribution, which is 0
    for zero-damage / zero-hit / otherwise-tagged events -/
theorem each_event_once (add : β → β → β) (dmg : DamageLog β → Rat) (pl : PlayLog β) (buff : β) :
    (SimulationEntry.build add pl buff).damageLogs
        = (pl.events.filter (fun ev => decide (Qualifies ev))).map (logOf add buff) ∧
    calculateDamage dmg (SimulationEntry.build add pl buff)
        = (pl.events.map (contribution add dmg buff)).sum ∧
    (∀ ev : Event β, (ev.damage = 0 ∨ ev.hit = 0 ∨ ¬ (ev.tag = Tag.DAMAGE ∨ ev.tag = Tag.DOT)) →
        contribution add dmg buff ev = 0) ∧
    (∀ ev : Event β, (ev.tag = Tag.DAMAGE ∨ ev.tag = Tag.DOT) → ev.damage ≠ 0 → ev.hit ≠ 0 →
        contribution add dmg buff ev
          = dmg { name := ev.name, damage := ev.damage, hit := ev.hit,
                  buff := buffInForce add buff ev, tag := ev.tag }) := by
  refine ⟨build_logs_eq add pl buff, ?_, ?_, ?_⟩
  · rw [calculateDamage_eq_sum, build_logs_eq, sum_filter_map_eq_sum_contribution]
  · intro ev h
    have : ¬ Qualifies ev := by
      rintro ⟨ht, hd, hh⟩
      rcases h with h | h | h
      · exact hd h
      · exact hh h
      · exact h ht
    simp [contribution, this]
  · intro ev ht hd hh
    have : Qualifies ev := ⟨ht, hd, hh⟩
    simp [contribution, this, logOf]

/-- run level: the total of a run built from play logs is the sum over all events of all play logs -/
theorem total_is_sum_over_events (add : β → β → β) (dmg : DamageLog β → Rat) (run : List (PlayLog β × β)) :
    calculateTotalDamage dmg (run.map (fun p => SimulationEntry.build add p.1 p.2))
      = (run.map (fun p => (p.1.events.map (contribution add dmg p.2)).sum)).sum := by
  rw [(total_is_sum_of_actions dmg _).1, List.map_map]
  congr 1
  apply List.map_congr_left
  intro p _
  exact (each_event_once add dmg p.1 p.2).2.1

/-! ### the best dealing window -/

/-- the fuel of the loop model is never exhausted: for every window length and every sequence the model
    returns a result or the IndexError of the code -/
theorem scan_terminates (L : Rat) (xs : Seq) :
    findMaximumDealingInterval L xs ≠ .error .outOfFuel :=
  scan_fuel_sufficient L xs

/-- what `firstEnd` (the inner brute-force loop of the specification) finds: the least end index `e ≥ i`
    whose clock span from `i` reaches `L` -/
theorem firstEnd_is_least (L : Rat) (xs : Seq) (i e : Nat) :
    firstEnd L xs i = some e ↔
      i ≤ e ∧ e < xs.length ∧ L ≤ clockAt xs e - clockAt xs i ∧
        ∀ j, i ≤ j → j < e → clockAt xs j - clockAt xs i < L :=
  firstEnd_eq_some_iff

/-- the exhaustive specification is a maximum: it is ≥ 0 and ≥ the damage of the window of every start,
    and it is 0 or the damage of one of these windows -/
theorem exhaustive_is_max (L : Rat) (xs : Seq) :
    0 ≤ exhaustiveBest L xs ∧
    (∀ i e, firstEnd L xs i = some e → sliceDamage xs i e ≤ exhaustiveBest L xs) ∧
    (exhaustiveBest L xs = 0 ∨ ∃ i e, firstEnd L xs i = some e ∧ exhaustiveBest L xs = sliceDamage xs i e) := by
  rw [exhaustiveBest_eq_bestUpTo]
  refine ⟨bestUpTo_nonneg _, fun i e h => ?_, ?_⟩
  · exact bestUpTo_ge ((firstEnd_eq_some_iff.mp h).1.trans_lt (firstEnd_eq_some_iff.mp h).2.1) h
  · rcases bestUpTo_attained (L := L) (xs := xs) xs.length with h | ⟨i, e, _, hf, hv⟩
    · exact Or.inl h
    · exact Or.inr ⟨i, e, hf, hv⟩

/-- **the two-pointer scan equals the exhaustive search**: for non-decreasing clocks and a positive window
    length the scan returns (no exception) a triple `(d, s, e)` with `d` the exhaustive maximum,
    `d = Σ damage[s ..< e]` (the indices reproduce the value), and `(s, e)` is the initial `(0, 0)` with
    `d = 0` or the shortest qualifying window of start `s` -/
theorem two_pointer_eq_exhaustive (L : Rat) (xs : Seq) (hs : ClocksSorted xs) (hL : 0 < L) :
    ∃ b, findMaximumDealingInterval L xs = .ok b ∧
      b.dealing = exhaustiveBest L xs ∧
      b.dealing = sliceDamage xs b.start b.stop ∧
      ((b.dealing = 0 ∧ b.start = 0 ∧ b.stop = 0) ∨ firstEnd L xs b.start = some b.stop) := by
  obtain ⟨r, h1, h2, h3, h4⟩ :=
    scanLoop_correct hs hL (scanFuel xs) 0 0 ⟨0, 0, 0⟩ inv_init (by unfold scanFuel; omega)
  exact ⟨r, h1, by rw [exhaustiveBest_eq_bestUpTo]; exact h2, h3, h4⟩

/-- known finding F12, as the code is: for a window length ≤ 0 and a non-empty clock-sorted sequence the scan
    walks `start` past the end and raises IndexError (for the empty sequence it returns `(0, 0, 0)`) -/
theorem nonpositive_window_raises (L : Rat) (xs : Seq) (hs : ClocksSorted xs) (hL : L ≤ 0) :
    (xs ≠ [] → findMaximumDealingInterval L xs = .error .indexError) ∧
    findMaximumDealingInterval L [] = .ok ⟨0, 0, 0⟩ :=
  ⟨nonpositive_window_indexError hs hL, rfl⟩

/-- the slice sum of the model is the plain sum `Σ damage[s ..< e]` -/
theorem sliceDamage_is_sum (xs : Seq) (s e : Nat) :
    sliceDamage xs s e = (((xs.drop s).take (e - s)).map (·.2)).sum := by
  unfold sliceDamage
  rw [foldl_add_map]; simp

/-! ### non-vacuity: the hypotheses hold on concrete non-trivial data -/

/-- tests/simulate/report/test_maximum_dealing_interval.py::test_duplicated_maximum_interval -/
def sampleSeq : Seq :=
  [(0, 100), (1, 100), (2, 100), (3, 300), (3, 300), (4, 200), (5, 400), (5, 300), (6, 100), (7, 100)]

example : ClocksSorted sampleSeq := by decide +kernel
example : findMaximumDealingInterval 3 sampleSeq = .ok ⟨1500, 3, 8⟩ := by decide +kernel
example : exhaustiveBest 3 sampleSeq = 1500 := by decide +kernel
example : firstEnd 3 sampleSeq 3 = some 8 := by decide +kernel
/-- the known finding F12: window length 0 on a non-empty sequence raises IndexError -/
example : findMaximumDealingInterval 0 sampleSeq = .error .indexError := by decide +kernel

def sampleRun : List (SimulationEntry Unit) :=
  [ { clock := 0, accepted := true, damageLogs := [⟨"A", 100, 2, (), Tag.DAMAGE⟩, ⟨"B", 50, 1, (), Tag.DOT⟩] },
    { clock := 600, accepted := true, damageLogs := [⟨"A", 100, 3, (), Tag.DAMAGE⟩] } ]
def sampleDmg : DamageLog Unit → Rat := fun l => l.damage * l.hit

example : calculateTotalDamage sampleDmg sampleRun = 550 := by decide +kernel
example : shareSums sampleDmg sampleRun = [("A", 500), ("B", 50)] := by decide +kernel
example : 0 < calculateTotalDamage sampleDmg sampleRun := by decide +kernel
example : ∀ l ∈ allLogs sampleRun, 0 ≤ sampleDmg l := by decide +kernel
example : calculateDpm sampleDmg sampleRun = .ok 55000 := by decide +kernel

end Simaple.Props.C13
