/-
C16, "building the skill set": the build path keeps nothing between builds and alters nothing it is given — proved on
programs regenerated from the source (tools/py2lean/gen_effects.py, table `pureTable`, entries tagged 16):
`build_skills`, `_exclude_hexa_skill` (simaple/data/jobs/builtin.py) and `get_skill_components`
(simaple/container/simulation.py) with everything they call inlined — the loader, the repository look-ups,
`Spec.interpret` with the whole patch chain, the profile — write NO object that existed before the call: not the
environment, not the level tables, not the stored specifications, and no module- or class-level object (a cache of
built skills or improvements kept at module level is such a write).  Hence the result of a build cannot depend on the
builds that came before it.  Not inlined and trusted: the lazily created process-wide repository object
(`get_kms_jobs_repository`, a `global` statement; its one-time creation is part of C02's inventory of shared state),
`evaluate_expression`, pydantic construction, builtins.
-/
import Simaple.Proofs.Effect
import Simaple.Gen.Effects

namespace Simaple.Props.C16
open Simaple.Effect Simaple.Gen.Effects

def buildPathEntries : List PureEntry := pureTable.filter (·.prop == 16)

theorem build_path_lowered : 3 ≤ buildPathEntries.length ∧ pureNotLowered.length = 0 := by decide +kernel

theorem build_path_wellFormed :
    buildPathEntries.all (fun e => wellFormedWith e.taint e.nvars e.body e.prog) = true := by decide +kernel

/-- **building a skill set alters nothing it is given and keeps nothing**: at every state passed while the build runs,
    every object that existed before the call — arguments, stored specifications, module-level objects — is exactly as it
    was, and every store went to an object allocated by the call -/
theorem build_path_never_alters_what_exists (e : PureEntry) (he : e ∈ buildPathEntries)
    (σ σ' : State) (hlog : σ.log = []) (hr : Reach e.body e.prog σ σ') :
    (∀ a o, σ.heap a = some o → σ'.heap a = some o) ∧ (∀ a ∈ σ'.log, σ.heap a = none) := by
  have hall := build_path_wellFormed
  rw [List.all_eq_true] at hall
  exact wellFormedWith_frame_always e.taint e.nvars e.body e.prog (hall e he) σ σ' hlog hr

end Simaple.Props.C16
