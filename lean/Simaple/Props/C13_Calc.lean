import Simaple.Props.C13
import Simaple.Model.DamageCalc
/-!
# C13, part "Calc": the report with the real `get_damage`

`Props/C13.lean` takes `DamageCalculator.get_damage` as a parameter `dmg`.  Here it is the model of
`simaple/simulate/report/dpm.py` that property C12 is about (`Model/DamageCalc.lean`, the factor functions being the
generated definitions): "every damage / DOT event contributes exactly once with the buff in force" then reads, in
full: damage% × 1/100 × **hits** × the factor of (character stat + entry buff + event modifier) × level advantage ×
force advantage — every hit of an event counts, for DOT events as for direct ones.
-/
namespace Simaple.Props.C13
open Simaple.Report Simaple.Py Simaple.Proofs.Report Simaple.Gen Simaple.Model.DamageCalc

/-- `get_damage` of a calculator, as the function the report sums (`0` where Python raises: an entry only holds
    DAMAGE / DOT logs, see `calc_defined_on_entry_logs`) -/
def calcDmg (c : Calculator) (l : DamageLog Stat) : Rat :=
  match getDamage c { damage := l.damage, hit := l.hit, buff := l.buff, tag := l.tag } with
  | .ok v => v
  | .error _ => 0

/-- every log of a built entry is DAMAGE- or DOT-tagged: `get_damage` never raises on it -/
theorem calc_defined_on_entry_logs (c : Calculator) (pl : PlayLog Stat) (buff : Stat) :
    ∀ l ∈ (SimulationEntry.build Stat.add pl buff).damageLogs,
      ∃ v, getDamage c { damage := l.damage, hit := l.hit, buff := l.buff, tag := l.tag } = .ok v := by
  intro l hl
  rw [(each_event_once Stat.add (calcDmg c) pl buff).1] at hl
  obtain ⟨ev, hev, rfl⟩ := List.mem_map.mp hl
  have hq : Qualifies ev := by simpa using (List.mem_filter.mp hev).2
  have htag : (logOf Stat.add buff ev).tag = ev.tag := rfl
  unfold getDamage
  simp only [htag]
  rcases hq.1 with h | h
  · have : ev.tag = tagDamage := h
    simp [this]
  · have h2 : ev.tag = tagDot := h
    have hne : ¬ (tagDot = tagDamage) := by decide
    simp [h2, hne]

/-- **Every hit of every event counts**: the contribution of a DAMAGE event with non-zero damage and hits is
    damage% · hits · damage factor of the stat with the buff in force · the two advantages … -/
theorem damage_event_contribution (c : Calculator) (buff : Stat) (ev : Event Stat)
    (ht : ev.tag = Tag.DAMAGE) (hd : ev.damage ≠ 0) (hh : ev.hit ≠ 0) :
    contribution Stat.add (calcDmg c) buff ev =
      damageFormula ev.damage ev.hit
        (c.damageFactor (c.character_spec.add (buffInForce Stat.add buff ev)) c.armor)
        c.level_advantage c.force_advantage := by
  rw [(each_event_once Stat.add (calcDmg c) ⟨0, []⟩ buff).2.2.2 ev (Or.inl ht) hd hh]
  have : ev.tag = tagDamage := ht
  simp [calcDmg, getDamage, this]

/-- … and of a DOT event the same with the DOT factor: `hits` is a factor there too -/
theorem dot_event_contribution (c : Calculator) (buff : Stat) (ev : Event Stat)
    (ht : ev.tag = Tag.DOT) (hd : ev.damage ≠ 0) (hh : ev.hit ≠ 0) :
    contribution Stat.add (calcDmg c) buff ev =
      damageFormula ev.damage ev.hit
        (c.dotFactor (c.character_spec.add (buffInForce Stat.add buff ev)) c.armor)
        c.level_advantage c.force_advantage := by
  rw [(each_event_once Stat.add (calcDmg c) ⟨0, []⟩ buff).2.2.2 ev (Or.inr ht) hd hh]
  have h2 : ev.tag = tagDot := ht
  have hne : ¬ (tagDot = tagDamage) := by decide
  simp [calcDmg, getDamage, h2, hne]

/-- an event with `k` times the hits contributes `k` times as much (so a tick batch of `k` ticks counts `k` times) -/
theorem contribution_scales_with_hits (c : Calculator) (buff : Stat) (ev : Event Stat) (k : Rat)
    (ht : ev.tag = Tag.DAMAGE ∨ ev.tag = Tag.DOT) (hd : ev.damage ≠ 0) (hh : ev.hit ≠ 0) (hk : k ≠ 0) :
    contribution Stat.add (calcDmg c) buff { ev with hit := k * ev.hit } =
      k * contribution Stat.add (calcDmg c) buff ev := by
  have hh' : (k * ev.hit) ≠ 0 := mul_ne_zero hk hh
  rcases ht with ht | ht
  · rw [damage_event_contribution c buff { ev with hit := k * ev.hit } ht hd hh',
      damage_event_contribution c buff ev ht hd hh]
    simp only [damageFormula, buffInForce]
    ring
  · rw [dot_event_contribution c buff { ev with hit := k * ev.hit } ht hd hh',
      dot_event_contribution c buff ev ht hd hh]
    simp only [damageFormula, buffInForce]
    ring

/-- the total of a run under the real calculator is the sum over all events of all play logs -/
theorem total_is_sum_over_events_of_the_calculator (c : Calculator) (run : List (PlayLog Stat × Stat)) :
    calculateTotalDamage (calcDmg c) (run.map (fun p => SimulationEntry.build Stat.add p.1 p.2))
      = (run.map (fun p => (p.1.events.map (contribution Stat.add (calcDmg c) p.2)).sum)).sum :=
  total_is_sum_over_events Stat.add (calcDmg c) run

/-! non-vacuity: a batch of 7 DOT ticks under a calculator whose DOT factor is 2 counts 7 times one tick -/
private def demoCalc : Calculator :=
  { character_spec := {}, damageFactor := fun _ _ => 3, dotFactor := fun _ _ => 2, level_advantage := 1, force_advantage := 1 }
private def tick (h : Rat) : Event Stat := { name := "dot", tag := Tag.DOT, damage := 100, hit := h, modifier := none }

example : contribution Stat.add (calcDmg demoCalc) {} (tick 7) = 14 := by
  rw [dot_event_contribution demoCalc {} (tick 7) rfl (by decide) (by decide)]
  simp [damageFormula, demoCalc, tick]
  norm_num
example : contribution Stat.add (calcDmg demoCalc) {} (tick 1) = 2 := by
  rw [dot_event_contribution demoCalc {} (tick 1) rfl (by decide) (by decide)]
  simp [damageFormula, demoCalc, tick]

end Simaple.Props.C13
