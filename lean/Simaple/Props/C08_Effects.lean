/-
C08, second part — the reducers and views as they are written never write an object they were given.

`Simaple/Gen/Effects.lean` is regenerated on every run from simaple/simulate/component/** by
tools/py2lean/gen_effects.py: one effect program (Model/Effect.lean) per reducer and view method of every
shipped component class, with everything the method calls inlined (trait functions, component helpers, entity
methods, properties, generators, `ignore_rejected`, NamedEventProvider, Stat/ActionStat arithmetic).
`Proofs/Effect.lean` proves the checker sound; here the checker is run, inside the kernel, on every generated
program.  Together: on EVERY heap, for EVERY payload and state, at EVERY point of the call (also where an
exception ends it), every object that existed before the call — the state and payload objects passed in, the
component itself, class- and module-level objects — is exactly as it was, and every store went to an object
allocated during the call (in a reducer: into the deep copy or into new events).

A change that removes `state = state.deepcopy()`, writes through the argument before copying, lets a view or
an entity getter assign to `self`, or mutates the payload / the component / a module-level object, makes the
regenerated program ill-formed and `table_wellFormed` no longer checks.
-/
import Simaple.Props.C08_EffectsBase
import Simaple.Props.C08_Effects0
import Simaple.Props.C08_Effects1
import Simaple.Props.C08_Effects2
import Simaple.Props.C08_Effects3
import Simaple.Props.C08_Effects4
import Simaple.Props.C08_Effects5
import Simaple.Props.C08_Effects6
import Simaple.Props.C08_Effects7

namespace Simaple.Props.C08
open Simaple.Effect Simaple.Gen.Effects

/-- the translator lowered every reducer and view method of every shipped component class -/
theorem every_method_lowered : notLowered.length = 0 := by decide

/-- the checker accepts every generated program (kernel evaluation, one part of the table per file) -/
theorem table_wellFormed : allWellFormed table = true := by
  unfold table
  simp only [allWellFormed_append, chunk0_wellFormed, chunk1_wellFormed, chunk2_wellFormed, chunk3_wellFormed,
    chunk4_wellFormed, chunk5_wellFormed, chunk6_wellFormed, chunk7_wellFormed, Bool.and_self]

/-- how many programs that is (so that an empty table cannot pass for coverage) -/
theorem table_size : 300 ≤ table.length := by decide +kernel

/-- **reducers and views never write a pre-existing object**: for every generated method, every initial
    heap / arguments, and every state `σ'` passed during the call (final or not),
    * every object allocated before the call has exactly the content it had, and
    * every store performed so far went to an object allocated during the call. -/
theorem methods_never_write_preexisting_objects (e : Entry) (he : e ∈ table) (hc : covered e = true)
    (σ σ' : State) (hlog : σ.log = []) (hr : Reach .skip e.prog σ σ') :
    (∀ a o, σ.heap a = some o → σ'.heap a = some o) ∧ (∀ a ∈ σ'.log, σ.heap a = none) := by
  have hall := table_wellFormed
  unfold allWellFormed at hall
  rw [List.all_eq_true] at hall
  have hwf := hall e (List.mem_filter.mpr ⟨he, hc⟩)
  exact wellFormed_frame_always e.taint e.nvars e.prog hwf σ σ' hlog hr

/-- in particular for completed calls -/
theorem methods_leave_arguments_unchanged (e : Entry) (he : e ∈ table) (hc : covered e = true)
    (σ σ' : State) (hlog : σ.log = []) (hex : Exec .skip e.prog σ σ') :
    ∀ a o, σ.heap a = some o → σ'.heap a = some o :=
  (methods_never_write_preexisting_objects e he hc σ σ' hlog (Reach.done _ _ _ hex)).1

/-- where the checker derives `fresh` for the returned state, the returned state shares no object with
    anything that existed before the call (through untainted fields): it can be stored and later mutated
    without touching the caller's objects -/
theorem fresh_results_share_nothing (e : Entry) (_he : e ∈ table) (_hc : covered e = true) (x : Var)
    (_hx : e.result = some x) (ht : (resultTag e.taint e.nvars e.prog x).map Tag.deep = some true)
    (σ σ' : State) (hlog : σ.log = []) (hex : Exec .skip e.prog σ σ') :
    ∃ D : Addr → Prop, (∀ a, D a → σ.heap a = none) ∧ (∀ a, σ'.env x = .ref a → D a) ∧
      (∀ a o f b, D a → σ'.heap a = some o → tainted e.taint f = false → o f = .ref b → D b) :=
  wellFormed_result_fresh e.taint e.nvars e.prog x ht σ σ' hlog hex

/-! ### consequences used by C02 (`hFrame` of Props/C02.lean for the reducer / view layer)

A session-local step of an engine is a sequence of reducer and view calls routed by the dispatchers.  For that
layer the frame hypothesis of `C02.schedule_independent` is a corollary of the discipline: a call writes NO
object that existed before it — not the repository's parsed specs, not the component objects built from them,
not any other engine's store. -/

/-- whatever set of objects `shared` existed before a reducer or view call (the repository's specs, other
    engines' stores and components, module-level data …), the call leaves every one of them exactly as it was,
    at every point of the call -/
theorem reducer_calls_leave_shared_objects_unchanged (e : Entry) (he : e ∈ table) (hc : covered e = true)
    (σ σ' : State) (hlog : σ.log = []) (hr : Reach .skip e.prog σ σ')
    (shared : Addr → Prop) (hshared : ∀ a, shared a → σ.heap a ≠ none) :
    ∀ a, shared a → σ'.heap a = σ.heap a := by
  intro a ha
  cases h : σ.heap a with
  | none => exact absurd h (hshared a ha)
  | some o => exact (methods_never_write_preexisting_objects e he hc σ σ' hlog hr).1 a o h

/-- two calls made one after the other on disjoint sets of arguments do not see each other: the second call
    starts from a heap in which everything the first call was given is unchanged -/
theorem consecutive_calls_do_not_interfere (e₁ e₂ : Entry) (h₁ : e₁ ∈ table) (h₂ : e₂ ∈ table)
    (c₁ : covered e₁ = true) (c₂ : covered e₂ = true)
    (σ σ₁ σ₂ : State) (hlog : σ.log = []) (r₁ : Reach .skip e₁.prog σ σ₁)
    (r₂ : Reach .skip e₂.prog { σ₁ with log := [] } σ₂) :
    ∀ a o, σ.heap a = some o → σ₂.heap a = some o := by
  intro a o h
  have s₁ := (methods_never_write_preexisting_objects e₁ h₁ c₁ σ σ₁ hlog r₁).1 a o h
  exact (methods_never_write_preexisting_objects e₂ h₂ c₂ { σ₁ with log := [] } σ₂ rfl r₂).1 a o s₁

/-! ### the checker rejects what it should, and the theorem is not vacuous -/

/-- a reducer that assigns to a field of the state it was given: rejected -/
example : wellFormed [] 3 (.seq (.load 2 1 5) (.store 2 7 0)) = false := by decide

/-- the same after `state = state.deepcopy()`: accepted -/
example : wellFormed [] 4 (.seq (.copy 3 1) (.seq (.load 2 3 5) (.seq (.havoc 0) (.store 2 7 0)))) = true := by decide

/-- copying too late (a write before the copy): rejected -/
example : wellFormed [] 4 (.seq (.load 2 1 5) (.seq (.havoc 0) (.seq (.store 2 7 0) (.copy 3 1)))) = false := by
  decide

/-- storing a reference to a pre-existing object into the copy: rejected unless the field is declared tainted,
    and what is loaded from a tainted field is not writable -/
example : wellFormed [] 4 (.seq (.copy 3 1) (.store 3 9 0)) = false := by decide
example : wellFormed [9] 4 (.seq (.copy 3 1) (.store 3 9 0)) = true := by decide
example : wellFormed [9] 4 (.seq (.copy 3 1) (.seq (.store 3 9 0) (.seq (.load 2 3 9) (.store 2 1 2)))) = false := by
  decide

/-- a view that caches something on the component (`self`, variable 0): rejected -/
example : wellFormed [] 3 (.seq (.havoc 2) (.store 0 4 2)) = false := by decide

/-- executions exist (so `Reach`/`Exec` hypotheses are satisfiable): allocate an object, then store into it -/
example : ∃ σ', Exec .skip (.seq (.new 3) (.seq (.havoc 0) (.store 3 7 0)))
    ⟨fun x => if x = 1 then .ref 10 else .prim,
     fun a => if a = 10 then some (fun _ => .prim) else none, []⟩ σ' :=
  ⟨_, Exec.seq _ _ _ _ _ (Exec.new 3 _ 20 (by simp))
        (Exec.seq _ _ _ _ _ (Exec.havoc _ _) (Exec.store _ _ _ _))⟩

/-- a recursive procedure (`body` = allocate, maybe recurse, store into the own object) with an entry that
    calls it: accepted; and a recursive procedure that writes what it was given: rejected -/
example : wellFormedWith [] 4 (.seq (.new 1) (.seq (.choice .skip (.call 2)) (.store 1 0 2))) (.call 3) = false := by
  decide
example : wellFormedWith [] 4 (.seq (.newShallow 1) (.seq (.choice .skip (.call 2)) (.store 1 0 2))) (.call 3) = true := by
  decide
example : wellFormedWith [] 4 (.seq (.choice .skip (.call 2)) (.store 0 0 2)) (.call 3) = false := by decide

/-- the deep-copy specification is satisfiable: the copy of a primitive is that primitive -/
example (h : Heap) : IsDeepCopy h h .prim :=
  ⟨fun _ _ => rfl, Or.inl rfl, fun a o _ _ ha ho => by rw [ha] at ho; cases ho⟩

end Simaple.Props.C08
