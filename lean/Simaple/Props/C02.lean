import Simaple.Proofs.Sharing
import Simaple.Proofs.SharingHeap
/-!
C02 -- same plan, same environment, same result: always and everywhere.           (level: other / partial)

What is proved here is the ABSTRACT SHARING PROTOCOL of the library (`Simaple/Model/Sharing.lean`):

* `schedule_independent`, `every_session_can_finish`, `shared_data_unchanged`: a process-wide, lazily created
  repository (`get_kms_jobs_repository`: check / construct / write / re-read, not locked), any number of sessions
  whose atomic steps are interleaved by an arbitrary schedule -- including several sessions that all find the
  global empty and each construct an object -- interpretations that read the repository and session-local engine
  steps.  Under the frame hypothesis `hFrame` (construction is deterministic; no step writes a cell reachable
  from the global) every session computes exactly what it computes when it runs alone in a fresh process.
* `interpret_frame`, `interpret_pure`: `Spec.interpret` over a heap with object identity (deep copy of the stored
  dict -- `interpret_shallow_frame_and_pure`: also with the shallow `.copy()` the code had before 45b7f46 --, DFS
  patches that rebuild, patches that deep-copy then assign in place, patches that hand their argument back)
  overwrites no cell that existed before -- `hFrame` for the modelled patch kinds -- and returns a
  structure that stands for the pure interpretation of the stored document.
* `route_cache_transparent`, `route_cache_exact`: `RouterDispatcher` with its memo `_route_cache` returns the
  events and leaves the store of the router without memo, for every action sequence, with dispatchers that
  re-enter the router; `includes` depends on the signature only and the dispatcher list is fixed.

What is NOT proved (and cannot be exhibited by a functional model): that the real objects satisfy `hFrame`
(aliasing in CPython), thread switching inside the atomic steps, hash randomisation, Lark's internal state.
That half is the differential of `harness/check_C02.py` on the real code.
-/
namespace Simaple.Props.C02
open Simaple.Sharing

/-! ### the protocol -/

/-- For every finite set of sessions (`progs`: program and initial engine of each), EVERY interleaving of their
    atomic steps (`sched`: who moves next; any list is allowed, so racing sessions that both find the global empty
    are included), and every session `i` that has finished: running `i` ALONE from an empty global (scheduled
    `5 * |program|` times) finishes too, and both runs have the same outputs (every interpreted tree, every engine
    output, in order) and the same final engine state. -/
theorem schedule_independent {ρ κ χ σ ω : Type} (W : World ρ κ χ σ ω) (hFrame : W.Frame)
    (progs : List (List (Op κ χ) × σ)) (sched : List Nat) (i : Nat) (p : List (Op κ χ) × σ)
    (hp : progs[i]? = some p) (s : Sess κ χ σ ω)
    (hs : (run W sched (init progs)).sess[i]? = some s) (hfin : s.prog = []) :
    ∃ a, (run W (List.replicate (5 * p.1.length) 0) (init [p])).sess[0]? = some a ∧ a.prog = [] ∧
      s.out = a.out ∧ s.eng = a.eng := by
  have hmain := finished_result hFrame progs sched i s p hp hs hfin
  have hinit : (init (ρ := ρ) (ω := ω) [p]).sess[0]? =
      some { prog := p.1, phase := .idle, ref := none, eng := p.2, out := [] } := by simp [init]
  obtain ⟨a, ha, hafin⟩ := finishes hFrame 0 (5 * p.1.length) (init [p]) _ (inv_init W [p]) hinit
    (work_init_le p.1 p.2)
  have halone := finished_result hFrame [p] (List.replicate (5 * p.1.length) 0) 0 a p (by simp) ha hafin
  exact ⟨a, ha, hafin, by rw [hmain.1, halone.1], by rw [hmain.2, halone.2]⟩

/-- the hypothesis "has finished" above is not empty: after any schedule whatsoever, scheduling a session
    `5 * |program|` more times lets it finish (no session can be blocked by the others) -/
theorem every_session_can_finish {ρ κ χ σ ω : Type} (W : World ρ κ χ σ ω) (hFrame : W.Frame)
    (progs : List (List (Op κ χ) × σ)) (sched : List Nat) (i : Nat) (p : List (Op κ χ) × σ)
    (hp : progs[i]? = some p) :
    ∃ s, (run W (sched ++ List.replicate (5 * p.1.length) i) (init progs)).sess[i]? = some s ∧ s.prog = [] := by
  have hinv := inv_run hFrame sched (inv_init W progs)
  have hlen : i < (run W sched (init progs)).sess.length := by
    rw [hinv.2.2.1]
    exact lt_of_getElem?_some hp
  obtain ⟨p', hp', done, h1, _⟩ := hinv.2.2.2 i _ (List.getElem?_eq_getElem hlen)
  rw [hp] at hp'
  cases hp'
  have hw : work ((run W sched (init progs)).sess[i]) ≤ 5 * p.1.length := by
    have hl : ((run W sched (init progs)).sess[i]).prog.length ≤ p.1.length := by
      rw [h1]; simp
    generalize (run W sched (init progs)).sess[i] = s at hl
    unfold work
    split
    · omega
    · rename_i hd tl hprog
      rw [hprog] at hl
      simp only [List.length_cons] at hl
      omega
  obtain ⟨s', hs', hfin⟩ := finishes hFrame i (5 * p.1.length) _ _ hinv (List.getElem?_eq_getElem hlen) hw
  refine ⟨s', ?_, hfin⟩
  have : run W (sched ++ List.replicate (5 * p.1.length) i) (init progs) =
      run W (List.replicate (5 * p.1.length) i) (run W sched (init progs)) := by
    simp [run, List.foldl_append]
  rw [this]
  exact hs'

/-- building or running one simulation never changes the shared built-in data: at every moment of every schedule
    every repository object that exists is the value a fresh construction yields -/
theorem shared_data_unchanged {ρ κ χ σ ω : Type} (W : World ρ κ χ σ ω) (hFrame : W.Frame)
    (progs : List (List (Op κ χ) × σ)) (sched : List Nat) :
    ∀ r ∈ (run W sched (init progs)).objs, r = W.build 0 :=
  (inv_run hFrame sched (inv_init W progs)).1

/-! ### the router memo -/

/-- for every dispatcher list, nesting bound, action sequence and store: the router with the memo (starting from an
    empty `_route_cache`) returns exactly the final store and the per-call events of the router without it
    (both `none` when the nesting bound is exceeded) -/
theorem route_cache_transparent {α σ ε : Type} (sig : α → String) (ds : List (Disp α σ ε)) (depth : Nat)
    (actions : List α) (s : σ) :
    (seqCached sig ds depth actions [] s).map (fun x => x.2) = seqPlain sig ds depth actions s :=
  (seqCached_agree sig ds depth actions [] s (CacheOk.nil ds)).1

/-- and the memo it ends with holds, for every signature it has seen, exactly the dispatchers whose `includes`
    holds, in installation order -/
theorem route_cache_exact {α σ ε : Type} (sig : α → String) (ds : List (Disp α σ ε)) (depth : Nat)
    (actions : List α) (s : σ) (x : Cache α σ ε × σ × List (List ε))
    (hx : seqCached sig ds depth actions [] s = some x) : CacheOk ds x.1 :=
  (seqCached_agree sig ds depth actions [] s (CacheOk.nil ds)).2 x hx

/-! ### interpret over a heap with object identity -/

/-- `hFrame` for the modelled code: whatever the heap, the stored spec, the patch chain and the fuel, if
    `Spec.interpret` returns, every cell that existed before still exists and holds what it held -/
theorem interpret_frame (fuel : Nat) (h : Heap) (root : Nat) (t : Tree) (ps : List Patch) (x : Heap × Val)
    (hx : interpretH fuel h root t ps = some x) : Frame h x.1 :=
  interpretH_frame' fuel h root t ps x hx

/-- and when the stored cell stands for the document `dict kts` (with fuel for it and every intermediate
    document), `interpret` does return, and the structure it returns stands for the pure interpretation
    `interpretT` of that document: a function of the stored value and the patches only -/
theorem interpret_pure (fuel : Nat) (h : Heap) (root : Nat) (kts : List (String × Tree)) (ps : List Patch)
    (hr : Rep h (.ref root) (.dict kts)) (hfuel : FuelOk fuel (.dict kts) ps) :
    ∃ x, interpretH fuel h root (.dict kts) ps = some x ∧ Frame h x.1 ∧
      Rep x.1 x.2 (interpretT (.dict kts) ps) :=
  interpretH_rep' fuel h root kts ps hr hfuel

/-- both facts also hold for the variant with `data = self.data.copy()`: the shallow copy aliases the stored nested
    containers, but no modelled patch writes through such an alias -/
theorem interpret_shallow_frame_and_pure (fuel : Nat) (h : Heap) (root : Nat) (kts : List (String × Tree))
    (ps : List Patch) (hr : Rep h (.ref root) (.dict kts)) (hfuel : FuelOk fuel (.dict kts) ps) :
    ∃ x, interpretShallowH fuel h root (.dict kts) ps = some x ∧ Frame h x.1 ∧
      Rep x.1 x.2 (interpretT (.dict kts) ps) :=
  interpretShallowH_rep' fuel h root kts ps hr hfuel

/-- `copy.deepcopy` (the traversal with `copyHooks`) means the same document -/
theorem deepcopy_same_document (t : Tree) : dfsT copyHooks t = t := dfsT_copy t

/-! ### non-vacuity: concrete instances -/
section Examples

/-- repository = list of spec values; query = (spec index, patch addend); engine = a counter -/
def W0 : World (List Nat) (Nat × Nat) Nat Nat Nat where
  build _ := [10, 20, 30]
  interp r q := r[q.1]?.getD 0 + q.2
  touchI _ r := r
  exec c s := (s + c, s * c)
  touchE _ _ r := r

example : W0.Frame := ⟨fun _ _ => rfl, fun _ _ => rfl, fun _ _ _ => rfl⟩

def progs0 : List (List (Op (Nat × Nat) Nat) × Nat) :=
  [([.load (0, 1), .exec 2, .load (2, 5)], 1), ([.load (1, 7), .exec 3], 4)]

/-- both sessions check the global before either has written it: both find it empty, both construct -/
def raceSched : List Nat := [0, 1, 0, 1, 0, 1, 0, 1, 0, 1, 0, 0, 0, 0, 0, 0, 1, 1]

example : (run W0 raceSched (init progs0)).objs.length = 2 := by decide
example : (run W0 raceSched (init progs0)).sess.map (fun s => (s.prog.length, s.ref, s.out, s.eng)) =
    [(0, some 1, [11, 2, 35], 3), (0, some 1, [27, 12], 7)] := by decide
/-- the same sessions, each alone from an empty global -/
example : (run W0 (List.replicate 15 0) (init [progs0[0]])).sess.map (fun s => (s.prog.length, s.out, s.eng)) =
    [(0, [11, 2, 35], 3)] := by decide
example : (run W0 (List.replicate 10 0) (init [progs0[1]])).sess.map (fun s => (s.prog.length, s.out, s.eng)) =
    [(0, [27, 12], 7)] := by decide

/-- `hFrame` is needed: an `interpret` that leaves its patched values in the store (here: +1 on every entry)
    makes the second session's result depend on the first having run -/
def Wleak : World (List Nat) (Nat × Nat) Nat Nat Nat := { W0 with touchI := fun _ r => r.map (· + 1) }

example : ((run Wleak [0, 0, 0, 0, 0, 1, 1, 1, 1] (init [([.load (0, 0)], 0), ([.load (0, 0)], 0)])).sess.map
    (fun s => s.out)) = [[10], [11]] := by decide
example : ((run Wleak [0, 0, 0, 0, 0] (init [([.load (0, 0)], 0)])).sess.map (fun s => s.out)) = [[10]] := by decide

/-- determinism of construction is needed: if the object depends on the moment it is built, racing sessions see
    the other's object -/
def Wnondet : World (List Nat) (Nat × Nat) Nat Nat Nat := { W0 with build := fun n => [n] }

example : ((run Wnondet [0, 1, 0, 1, 0, 1, 0, 1, 0, 1] (init [([.load (0, 0)], 0), ([.load (0, 0)], 0)])).sess.map
    (fun s => s.out)) = [[1], [1]] := by decide
example : ((run Wnondet [0, 0, 0, 0, 0] (init [([.load (0, 0)], 0)])).sess.map (fun s => s.out)) = [[0]] := by decide

/-! a router: `d0` handles "a" and first re-enters the router with "b"; `d1` handles "b"; `d2` handles both.
    store = trace of dispatcher names, events = names -/
def d0 : Disp String (List String) String :=
  ⟨fun s => s == "a", fun _ st => .call "b" (st ++ ["d0"]) (fun st' evs => .done st' ("d0" :: evs))⟩
def d1 : Disp String (List String) String := ⟨fun s => s == "b", fun _ st => .done (st ++ ["d1"]) ["d1"]⟩
def d2 : Disp String (List String) String := ⟨fun _ => true, fun _ st => .done (st ++ ["d2"]) ["d2"]⟩

example : seqPlain id [d0, d1, d2] 4 ["a", "b", "a"] [] =
    some (["d0", "d1", "d2", "d2", "d1", "d2", "d0", "d1", "d2", "d2"],
          [["d0", "d1", "d2", "d2"], ["d1", "d2"], ["d0", "d1", "d2", "d2"]]) := by decide
example : (seqCached id [d0, d1, d2] 4 ["a", "b", "a"] [] []).map (fun x => x.2) =
    seqPlain id [d0, d1, d2] 4 ["a", "b", "a"] [] := by decide
/-- a nested call fills the memo for "b" before the outer call stores "a" -/
example : (seqCached id [d0, d1, d2] 4 ["a"] [] []).map (fun x => x.1.map (fun kv => (kv.1, kv.2.length))) =
    some [("b", 2), ("a", 2)] := by decide
/-- the fixed dispatcher list is needed: a dispatcher installed after the memo was filled is never called -/
example : (match seqCached id [d0, d1] 4 ["b"] [] [] with
    | some x => (seqCached id [d0, d1, d2] 4 ["b"] x.1 x.2.1).map (fun y => y.2.2)
    | none => none) = some [["d1"]] := by decide
example : (seqPlain id [d0, d1, d2] 4 ["b"] ["d1"]).map (fun y => y.2) = some [["d1", "d2"]] := by decide

/-! a heap: cell 0 = the list `[1, 2]`, cell 1 = the stored `Spec.data` =
    `{"name": "x", "hit": [1, 2], "v_improvement": 2}` -/
def h0 : Heap := [.list [.scal (.num 1), .scal (.num 2)],
                  .dict [("name", .scal (.str "x")), ("hit", .ref 0), ("v_improvement", .scal (.num 2))]]
def t0 : List (String × Tree) :=
  [("name", .leaf (.str "x")), ("hit", .list [.leaf (.num 1), .leaf (.num 2)]), ("v_improvement", .leaf (.num 2))]
def plus10 : Hooks := { pv := fun s => match s with | .num n => .num (n + 10) | s => s,
                        pd := fun k s => [(k, match s with | .num n => .num (n + 10) | s => s)] }
def chain : List Patch := [.dfs plus10, .copySet "modifier" (fun _ => .dict [("final", .leaf (.num 60))]), .same]

example : Rep h0 (.ref 1) (.dict t0) := by
  simp [Rep, RepDict, RepList, h0, t0]
example : FuelOk 3 (.dict t0) chain := by
  simp [FuelOk, chain, t0, applyPatchT, dfsT, dfsTDict, dfsTList, insScalars, ins, dictSet, plus10, copyHooks,
    setKeyT, Tree.depth, Tree.depthDict, Tree.depthList]
/-- the run: 2 stored cells untouched, result at a new address -/
example : (interpretH 3 h0 1 (.dict t0) chain).map (fun x => (x.1.take 2, x.2, x.1.length)) =
    some (h0, .ref 7, 9) := by decide +kernel
/-- the deep copy shares nothing with the store ... -/
example : (interpretH 3 h0 1 (.dict t0) []).map (fun x => (x.2, x.1[3]?)) =
    some (.ref 3, some (.dict [("name", .scal (.str "x")), ("hit", .ref 2), ("v_improvement", .scal (.num 2))])) := by
  decide +kernel
/-- ... the shallow copy the code had before still shares the nested list (cell 0) with the store ... -/
example : (interpretShallowH 3 h0 1 (.dict t0) []).map (fun x => x.1[2]?) =
    some (some (.dict [("name", .scal (.str "x")), ("hit", .ref 0), ("v_improvement", .scal (.num 2))])) := by decide
/-- ... and a variant that assigns into the stored dict instead (`interpretInPlace`) does break the frame -/
example : (interpretInPlace h0 1 "v_improvement" (.scal (.num 12))).map (fun x => x.1[1]?) ≠ some h0[1]? := by
  decide

end Examples

end Simaple.Props.C02
