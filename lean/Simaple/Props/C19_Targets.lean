/-
C19, part "Targets" — the CONCRETE step-wise optimizer targets.

`Props/C19.lean` proves the optimizer's guarantees for every cost/value function.  This part brings the four real
targets inside the model (`Model/Targets.lean`, over the tables and formulas GENERATED from the source on every
run: `Gen/Systems.lean`, and the generated damage factors of `Gen/Core.lean`) and proves, for each of
`HyperstatTarget`, `UnionSquadTarget`, `UnionOccupationTarget`, `LinkSkillTarget`:

* `X_cost_monotone`, `X_cost_zero`, `X_cost_nonneg` — raising any slot never lowers `get_cost()`; the empty state is free;
* `X_*_tables_ok`, `hyperstat_budget_*`, `X_cost_bound` — facts about the generated tables and budgets
  (per-level stat values non-negative and non-decreasing, prices non-negative, `get_maximum_cost_from_level`
  non-decreasing in the character level and below the price of a level without a stat value, …);
* `X_value_monotone` — in the positive-damage domain (`ConfigOk`) `get_value()` is non-decreasing in every slot:
  the C12 theorems `*_damage_factor_mono` combined with the monotone generated tables;
* `X_step_monotone` — hence the hypothesis `StepMonotone` of `Simaple.Props.C19.never_worse` HOLDS for the real target;
* `X_optimizer_within_budget / _keeps_presets / _within_limits / _never_worse` — the abstract theorems instantiated.

`Le a b` (Proofs/Optimizer.lean) is: same number of slots and `a` ≤ `b` slot by slot.  `ConfigOk c`
(Proofs/Targets.lean): the reference stat block has non-negative read fields, final damage% ≥ -100,
ignore-defence ≤ 100 and a non-negative armour term under `c.armor ≥ 0`; `attack_range_constant ≥ 0`, `mastery ≥ -1`.
`Good x`: every field of the stat block `x` that a damage logic reads is `≥ 0` and `ignored_defence ≤ 100`;
`SLe x y`: `x ≤ y` on those fields; `TableOk t`: every cell of the per-level table `t` is `Good` and each cell is
`SLe` the next; `OptGood o`: the slot's stat is defined (no `IndexError`) and `Good` (all in Proofs/Targets.lean,
all decidable: the table facts are `decide +kernel` over the tables generated in this run).
`topLevel` = 15, `overflowCost` = 1000489 = the cumulative price of level 16 (whose single price is the 999999 sentinel).
-/
import Simaple.Proofs.Targets
import Simaple.Props.C19
import Mathlib.Tactic.Linarith
import Mathlib.Tactic.NormNum

namespace Simaple.Props.C19_Targets
open Simaple.Gen Simaple.Py Simaple.Optimizer Simaple.Targets Simaple.Proofs.Targets Simaple.Proofs.Optimizer

/-! ## facts about the generated tables (checked by the kernel on the tables of this run) -/

/-- **budget table**: `get_maximum_cost_from_level` never decreases with the character level
    (all levels, in particular 140..300) -/
theorem hyperstat_budget_monotone (a b : Int) (h : a ≤ b) :
    Hyperstat.get_maximum_cost_from_level a ≤ Hyperstat.get_maximum_cost_from_level b := by
  obtain ⟨n, rfl⟩ : ∃ n : Nat, b = a + n := ⟨(b - a).toNat, by omega⟩
  induction n with
  | zero => simp
  | succ n ih =>
    have := ih (by omega)
    have := hyperstat_budget_step (a + n)
    have e : a + ((n + 1 : Nat) : Int) = a + (n : Int) + 1 := by push_cast; ring
    rw [e]; omega

/-- no points below level 140, 3 at 140, 1699 at 300 -/
theorem hyperstat_budget_values :
    (∀ L : Int, L < 140 → Hyperstat.get_maximum_cost_from_level L = 0) ∧
    Hyperstat.get_maximum_cost_from_level 140 = 3 ∧ Hyperstat.get_maximum_cost_from_level 300 = 1699 := by
  refine ⟨fun L h => ?_, by decide, by decide⟩
  unfold Hyperstat.get_maximum_cost_from_level Systems.Hyperstat.get_maximum_cost_from_level
  simp [h]

theorem hyperstat_budget_nonneg (L : Int) : 0 ≤ Hyperstat.get_maximum_cost_from_level L := by
  by_cases h : L < 140
  · rw [hyperstat_budget_values.1 L h]
  · have := hyperstat_budget_monotone 139 L (by omega)
    rw [hyperstat_budget_values.1 139 (by decide)] at this
    exact this

/-- the budget of every character level up to 300 stays below the price of a level without a stat value:
    an affordable hyper stat state has no slot above level 15 -/
theorem hyperstat_budget_below_overflow (L : Int) (h : L ≤ 300) :
    Hyperstat.get_maximum_cost_from_level L < overflowCost := by
  have := hyperstat_budget_monotone L 300 h
  rw [hyperstat_budget_values.2.2] at this
  have : (1699 : Int) < overflowCost := by decide +kernel
  omega


/-- every hyper stat has one stat value per cost entry (levels 0..15); every value is non-negative on the fields a
    damage logic reads and never decreases with the level -/
theorem hyperstat_tables_ok : ∀ o ∈ Systems.hyperstat_options,
    o.2.length = Systems.hyperstat_cost.length ∧ TableOk o.2 := tbl_hyperstat_tables_ok

/-- every price is non-negative: the cumulative cost of a slot never decreases with its level -/
theorem hyperstat_cost_cells_nonneg : ∀ c ∈ Systems.hyperstat_cost, 0 ≤ c := tbl_hyperstat_cost_cells_nonneg

/-! ## HyperstatTarget -/

/-- `get_cost()` raises (`AssertionError` of `get_level_rearranged`) exactly for states of the wrong length -/
theorem hyperstat_cost_defined_iff (s : State) :
    (HyperstatTarget.get_cost kmsHyperstat s).isSome ↔ s.length = kmsHyperstat.length := by
  rw [hyperstat_get_cost_eq]; split <;> simp [*]

/-- **cost is monotone**: raising any slot never lowers the cost, and the empty state is free -/
theorem hyperstat_cost_monotone (a b : State) (hab : Le a b) (hlen : a.length = kmsHyperstat.length) :
    ∃ ca cb, HyperstatTarget.get_cost kmsHyperstat a = some ca ∧
      HyperstatTarget.get_cost kmsHyperstat b = some cb ∧ ca ≤ cb := by
  rw [hyperstat_get_cost_eq, hyperstat_get_cost_eq, if_pos hlen, if_pos (hab.1 ▸ hlen)]
  exact ⟨_, _, rfl, rfl, sum_map_mono (cost_for_level_mono kms_cost_nonneg) (forall₂_of_le hab)⟩

theorem hyperstat_cost_zero :
    HyperstatTarget.get_cost kmsHyperstat (List.replicate kmsHyperstat.length 0) = some 0 := by decide +kernel

theorem hyperstat_cost_nonneg (s : State) (c : Int) (h : HyperstatTarget.get_cost kmsHyperstat s = some c) :
    0 ≤ c := by
  rw [hyperstat_get_cost_eq] at h
  split at h
  · cases h
    apply sum_nonneg_int
    intro x hx
    obtain ⟨lv, _, rfl⟩ := List.mem_map.mp hx
    exact cost_for_level_nonneg kms_cost_nonneg lv
  · cases h

/-- a state that costs less than `overflowCost` (the cumulative price of level 16, 1000489) has every slot at
    level ≤ 15: with `hyperstat_budget_below_overflow`, every affordable state -/
theorem hyperstat_affordable_levels (s : State) (c : Int)
    (h : HyperstatTarget.get_cost kmsHyperstat s = some c) (hc : c < overflowCost) : ∀ lv ∈ s, lv ≤ topLevel :=
  affordable_levels s c h hc

/-- `get_value()` is defined (no `AssertionError`, no `IndexError`) on states of the right length with
    levels ≤ 15 -/
theorem hyperstat_value_defined (c : Config) (s : State) (hlen : s.length = kmsHyperstat.length)
    (hs : ∀ lv ∈ s, lv ≤ topLevel) : (HyperstatTarget.get_value c kmsHyperstat s).isSome := by
  rw [hyperstat_get_value_eq, if_pos hlen]
  have := lookupAll_isSome (kmsHyperstat.options.map (·.2)) s topLevel (by
    intro t ht
    obtain ⟨o, ho, rfl⟩ := List.mem_map.mp ht
    have := (hyperstat_tables_ok o ho).1
    have e : Systems.hyperstat_cost.length = topLevel + 1 := by decide
    omega) hs
  cases h : lookupAll (kmsHyperstat.options.map (·.2)) s with
  | none => rw [h] at this; simp at this
  | some _ => rfl

/-- **value is monotone**: in the positive-damage domain, raising any slot (up to level 15) never lowers
    `get_value()` — the C12 damage-factor theorems combined with the generated per-level tables -/
theorem hyperstat_value_monotone (c : Config) (hc : ConfigOk c) (a b : State) (hab : Le a b)
    (hlen : b.length = kmsHyperstat.length) (hb : ∀ lv ∈ b, lv ≤ topLevel) :
    ∃ va vb, HyperstatTarget.get_value c kmsHyperstat a = some va ∧
      HyperstatTarget.get_value c kmsHyperstat b = some vb ∧ va ≤ vb := by
  have hdef := hyperstat_value_defined c b hlen hb
  rw [hyperstat_get_value_eq, if_pos hlen] at hdef
  rw [hyperstat_get_value_eq, hyperstat_get_value_eq, if_pos hlen, if_pos (hab.1 ▸ hlen)]
  cases hys : lookupAll (kmsHyperstat.options.map (·.2)) b with
  | none => rw [hys] at hdef; simp at hdef
  | some ys =>
    obtain ⟨xs, hxs, hle⟩ := lookup_value_mono hc _ kms_tables_ok (forall₂_of_le hab) hys
    exact ⟨_, _, by rw [hxs]; rfl, rfl, hle⟩

/-! ### the optimizer on the hyper stat target -/

/-- **`StepMonotone` holds for the real hyper stat target** (the hypothesis of `Simaple.Props.C19.never_worse`):
    with a budget below `overflowCost` no step the optimizer may take lowers the value -/
theorem hyperstat_step_monotone (c : Config) (hc : ConfigOk c) (budget : Rat) (hbud : budget < (overflowCost : Rat))
    (ss mi : Nat) : StepMonotone (hyperstatProblem c budget ss mi) := by
  intro s s' inc _ hst hb
  have hle : Le s s' := stepped_some_le hst
  by_cases hlen : s.length = kmsHyperstat.length
  · have hlen' : s'.length = kmsHyperstat.length := hle.1 ▸ hlen
    have hlv := hyperstat_problem_affordable hbud hlen' hb
    obtain ⟨va, vb, h1, h2, hv⟩ := hyperstat_value_monotone c hc s s' hle hlen' hlv
    rw [hyperstat_problem_value h1, hyperstat_problem_value h2]
    exact hv
  · have hlen' : ¬ s'.length = kmsHyperstat.length := hle.1 ▸ hlen
    have e1 : (hyperstatProblem c budget ss mi).value s = 0 := by
      simp [hyperstatProblem, optOr0, hyperstat_get_value_eq, hlen]
    have e2 : (hyperstatProblem c budget ss mi).value s' = 0 := by
      simp [hyperstatProblem, optOr0, hyperstat_get_value_eq, hlen']
    rw [e1, e2]

/-- **within budget** (instance of `C19.within_budget`): an affordable preset gives an affordable hyper stat -/
theorem hyperstat_optimizer_within_budget (c : Config) (budget : Rat) (ss mi : Nat) (s0 r : State)
    (hlen : s0.length = kmsHyperstat.length)
    (h : optimize (hyperstatProblem c budget ss mi) s0 = .ok r) (k0 : Int)
    (h0 : HyperstatTarget.get_cost kmsHyperstat s0 = some k0) (hk0 : (k0 : Rat) ≤ budget) :
    ∃ k, HyperstatTarget.get_cost kmsHyperstat r = some k ∧ (k : Rat) ≤ budget := by
  have hr := (C19.keeps_presets _ s0 r h)
  obtain ⟨k, _, hk, _, _⟩ := hyperstat_cost_monotone r r (Le.refl r) (hr.1 ▸ hlen)
  refine ⟨k, hk, ?_⟩
  have := C19.within_budget _ s0 r h (by rw [hyperstat_problem_cost h0]; exact hk0)
  rwa [hyperstat_problem_cost hk] at this

/-- **keeps presets** (instance of `C19.keeps_presets`) -/
theorem hyperstat_optimizer_keeps_presets (c : Config) (budget : Rat) (ss mi : Nat) (s0 r : State)
    (h : optimize (hyperstatProblem c budget ss mi) s0 = .ok r) :
    r.length = s0.length ∧ ∀ j, s0.getD j 0 ≤ r.getD j 0 := C19.keeps_presets _ s0 r h

/-- **never worse**: in the positive-damage domain, with a budget below `overflowCost` (every character level
    up to 300) and a preset with levels ≤ 15, `get_value()` of the result is defined and at least
    `get_value()` of the preset -/
theorem hyperstat_optimizer_never_worse (c : Config) (hc : ConfigOk c) (budget : Rat)
    (hbud : budget < (overflowCost : Rat)) (ss mi : Nat) (s0 r : State) (hlen : s0.length = kmsHyperstat.length)
    (hs0 : ∀ lv ∈ s0, lv ≤ topLevel) (h : optimize (hyperstatProblem c budget ss mi) s0 = .ok r) :
    ∃ v0 vr, HyperstatTarget.get_value c kmsHyperstat s0 = some v0 ∧
      HyperstatTarget.get_value c kmsHyperstat r = some vr ∧ v0 ≤ vr := by
  have hkp := C19.keeps_presets _ s0 r h
  have hle : Le s0 r := ⟨hkp.1.symm, hkp.2⟩
  have hrlen : r.length = kmsHyperstat.length := hkp.1 ▸ hlen
  have hr : ∀ lv ∈ r, lv ≤ topLevel := by
    rcases C19.within_budget_or_untouched _ s0 r h with rfl | hb
    · exact hs0
    · exact hyperstat_problem_affordable hbud hrlen hb
  exact hyperstat_value_monotone c hc s0 r hle hrlen hr

/-- the instance of `C19.never_worse` itself, through `StepMonotone` (any preset) -/
theorem hyperstat_optimizer_never_worse_total (c : Config) (hc : ConfigOk c) (budget : Rat)
    (hbud : budget < (overflowCost : Rat)) (ss mi : Nat) (s0 r : State)
    (h : optimize (hyperstatProblem c budget ss mi) s0 = .ok r) :
    (hyperstatProblem c budget ss mi).value s0 ≤ (hyperstatProblem c budget ss mi).value r :=
  C19.never_worse _ (hyperstat_step_monotone c hc budget hbud ss mi) s0 r h

/-! ## UnionSquadTarget -/

/-- every union block, at the default and at the large size, has a defined stat that is non-negative on the
    fields a damage logic reads; a larger block is never worse (per-size table non-decreasing) -/
theorem unionSquad_blocks_ok : ∀ b ∈ allBlocks, OptGood (b.get_stat Systems.union_default_size) ∧
    OptGood (b.get_stat Systems.union_large_size) ∧ TableOk b.options := tbl_unionSquad_blocks_ok

/-- no job has two blocks: the de-duplication loop of `UnionSquad.get_stat` keeps every selected block -/
theorem unionSquad_jobs_nodup : (allBlocks.map (·.job)).Nodup := tbl_unionSquad_jobs_nodup

/-- **cost is monotone** (`sum(self.state)`), the empty selection is free -/
theorem unionSquad_cost_monotone (a b : State) (hab : Le a b) :
    UnionSquadTarget.get_cost a ≤ UnionSquadTarget.get_cost b := sum_le_of_forall₂ (forall₂_of_le hab)

theorem unionSquad_cost_zero (n : Nat) : UnionSquadTarget.get_cost (List.replicate n 0) = 0 := by
  simp [UnionSquadTarget.get_cost]

theorem unionSquad_cost_nonneg (s : State) : (0 : Rat) ≤ (UnionSquadTarget.get_cost s : Nat) := Nat.cast_nonneg _

/-- **budget table**: with every slot within `maximum_step = 1` the cost is the number of selected blocks, at most
    the number of blocks -/
theorem unionSquad_cost_bound (s : State) (h : ∀ x ∈ s, x ≤ maximumStep .unionSquad) :
    UnionSquadTarget.get_cost s ≤ s.length := by
  have := sum_le_of_all_le s 1 h
  simpa [UnionSquadTarget.get_cost] using this

/-- **value is monotone** (for the squad built with any `large_block_jobs`): selecting more blocks never lowers
    `get_value()`, which is always defined -/
theorem unionSquad_value_monotone (c : Config) (hc : ConfigOk c) (large : List String) (a b : State)
    (hab : Le a b) :
    ∃ va vb, UnionSquadTarget.get_value c (createWithSomeLargeBlocks large) a = some va ∧
      UnionSquadTarget.get_value c (createWithSomeLargeBlocks large) b = some vb ∧ va ≤ vb := by
  obtain ⟨r, r', h1, h2, hv⟩ := masked_value_mono hc _ (squadSlots_ok large) (forall₂_of_le hab)
  rw [unionSquad_get_value_eq, unionSquad_get_value_eq, h1, h2]
  exact ⟨_, _, rfl, rfl, hv⟩

/-- **`StepMonotone` holds for the real union squad target** -/
theorem unionSquad_step_monotone (c : Config) (hc : ConfigOk c) (large : List String) (budget : Rat)
    (ss mi : Nat) : StepMonotone (unionSquadProblem c (createWithSomeLargeBlocks large) budget ss mi) := by
  intro s s' inc _ hst _
  obtain ⟨va, vb, h1, h2, hv⟩ := unionSquad_value_monotone c hc large s s' (stepped_some_le hst)
  simpa [unionSquadProblem, optOr0, h1, h2] using hv

theorem unionSquad_optimizer_within_budget (c : Config) (large : List String) (budget : Rat) (ss mi : Nat)
    (s0 r : State) (h : optimize (unionSquadProblem c (createWithSomeLargeBlocks large) budget ss mi) s0 = .ok r)
    (h0 : (UnionSquadTarget.get_cost s0 : Rat) ≤ budget) : (UnionSquadTarget.get_cost r : Rat) ≤ budget :=
  C19.within_budget _ s0 r h h0

theorem unionSquad_optimizer_keeps_presets (c : Config) (large : List String) (budget : Rat) (ss mi : Nat)
    (s0 r : State) (h : optimize (unionSquadProblem c (createWithSomeLargeBlocks large) budget ss mi) s0 = .ok r) :
    r.length = s0.length ∧ ∀ j, s0.getD j 0 ≤ r.getD j 0 := C19.keeps_presets _ s0 r h

/-- no slot leaves `maximum_step = 1`: a block is selected at most once -/
theorem unionSquad_optimizer_within_limits (c : Config) (large : List String) (budget : Rat) (ss mi : Nat)
    (s0 r : State) (h : optimize (unionSquadProblem c (createWithSomeLargeBlocks large) budget ss mi) s0 = .ok r)
    (h0 : ∀ x ∈ s0, x ≤ 1) : ∀ x ∈ r, x ≤ 1 := C19.within_limits _ s0 r h h0

/-- **never worse** (instance of `C19.never_worse`, `StepMonotone` discharged) -/
theorem unionSquad_optimizer_never_worse (c : Config) (hc : ConfigOk c) (large : List String) (budget : Rat)
    (ss mi : Nat) (s0 r : State)
    (h : optimize (unionSquadProblem c (createWithSomeLargeBlocks large) budget ss mi) s0 = .ok r) :
    ∃ v0 vr, UnionSquadTarget.get_value c (createWithSomeLargeBlocks large) s0 = some v0 ∧
      UnionSquadTarget.get_value c (createWithSomeLargeBlocks large) r = some vr ∧ v0 ≤ vr := by
  have hkp := C19.keeps_presets _ s0 r h
  exact unionSquad_value_monotone c hc large s0 r ⟨hkp.1.symm, hkp.2⟩

theorem unionSquad_optimizer_never_worse_total (c : Config) (hc : ConfigOk c) (large : List String) (budget : Rat)
    (ss mi : Nat) (s0 r : State)
    (h : optimize (unionSquadProblem c (createWithSomeLargeBlocks large) budget ss mi) s0 = .ok r) :
    (unionSquadProblem c (createWithSomeLargeBlocks large) budget ss mi).value s0 ≤
      (unionSquadProblem c (createWithSomeLargeBlocks large) budget ss mi).value r :=
  C19.never_worse _ (unionSquad_step_monotone c hc large budget ss mi) s0 r h

/-! ## LinkSkillTarget -/

/-- every link skill at its maximum level has a defined stat that is non-negative on the fields a damage logic reads -/
theorem linkSkill_slots_ok : ∀ o ∈ linkSlots kmsLinkSkillset, OptGood o := tbl_linkSkill_slots_ok

/-- a higher link level is never worse (per-level table non-decreasing) -/
theorem linkSkill_tables_ok : ∀ l ∈ allLinkSkills, TableOk l.options := tbl_linkSkill_tables_ok

theorem linkSkill_cost_monotone (a b : State) (hab : Le a b) :
    LinkSkillTarget.get_cost a ≤ LinkSkillTarget.get_cost b := sum_le_of_forall₂ (forall₂_of_le hab)

theorem linkSkill_cost_zero (n : Nat) : LinkSkillTarget.get_cost (List.replicate n 0) = 0 := by
  simp [LinkSkillTarget.get_cost]

theorem linkSkill_cost_nonneg (s : State) : (0 : Rat) ≤ (LinkSkillTarget.get_cost s : Nat) := Nat.cast_nonneg _

/-- **budget table**: within `maximum_step = 1` the cost is the number of selected links, at most their number -/
theorem linkSkill_cost_bound (s : State) (h : ∀ x ∈ s, x ≤ maximumStep .linkSkill) :
    LinkSkillTarget.get_cost s ≤ s.length := by
  have := sum_le_of_all_le s 1 h
  simpa [LinkSkillTarget.get_cost] using this

/-- **value is monotone**: selecting more links never lowers `get_value()`, which is always defined -/
theorem linkSkill_value_monotone (c : Config) (hc : ConfigOk c) (a b : State) (hab : Le a b) :
    ∃ va vb, LinkSkillTarget.get_value c kmsLinkSkillset a = some va ∧
      LinkSkillTarget.get_value c kmsLinkSkillset b = some vb ∧ va ≤ vb := by
  obtain ⟨r, r', h1, h2, hv⟩ := masked_value_mono hc _ linkSkill_slots_ok (forall₂_of_le hab)
  rw [linkSkill_get_value_eq, linkSkill_get_value_eq, h1, h2]
  exact ⟨_, _, rfl, rfl, hv⟩

/-- **`StepMonotone` holds for the real link skill target** -/
theorem linkSkill_step_monotone (c : Config) (hc : ConfigOk c) (budget : Rat) (ss mi : Nat) :
    StepMonotone (linkSkillProblem c budget ss mi) := by
  intro s s' inc _ hst _
  obtain ⟨va, vb, h1, h2, hv⟩ := linkSkill_value_monotone c hc s s' (stepped_some_le hst)
  simpa [linkSkillProblem, optOr0, h1, h2] using hv

theorem linkSkill_optimizer_within_budget (c : Config) (budget : Rat) (ss mi : Nat) (s0 r : State)
    (h : optimize (linkSkillProblem c budget ss mi) s0 = .ok r)
    (h0 : (LinkSkillTarget.get_cost s0 : Rat) ≤ budget) : (LinkSkillTarget.get_cost r : Rat) ≤ budget :=
  C19.within_budget _ s0 r h h0

theorem linkSkill_optimizer_keeps_presets (c : Config) (budget : Rat) (ss mi : Nat) (s0 r : State)
    (h : optimize (linkSkillProblem c budget ss mi) s0 = .ok r) :
    r.length = s0.length ∧ ∀ j, s0.getD j 0 ≤ r.getD j 0 := C19.keeps_presets _ s0 r h

theorem linkSkill_optimizer_within_limits (c : Config) (budget : Rat) (ss mi : Nat) (s0 r : State)
    (h : optimize (linkSkillProblem c budget ss mi) s0 = .ok r) (h0 : ∀ x ∈ s0, x ≤ 1) : ∀ x ∈ r, x ≤ 1 :=
  C19.within_limits _ s0 r h h0

theorem linkSkill_optimizer_never_worse (c : Config) (hc : ConfigOk c) (budget : Rat) (ss mi : Nat) (s0 r : State)
    (h : optimize (linkSkillProblem c budget ss mi) s0 = .ok r) :
    ∃ v0 vr, LinkSkillTarget.get_value c kmsLinkSkillset s0 = some v0 ∧
      LinkSkillTarget.get_value c kmsLinkSkillset r = some vr ∧ v0 ≤ vr := by
  have hkp := C19.keeps_presets _ s0 r h
  exact linkSkill_value_monotone c hc s0 r ⟨hkp.1.symm, hkp.2⟩

theorem linkSkill_optimizer_never_worse_total (c : Config) (hc : ConfigOk c) (budget : Rat) (ss mi : Nat)
    (s0 r : State) (h : optimize (linkSkillProblem c budget ss mi) s0 = .ok r) :
    (linkSkillProblem c budget ss mi).value s0 ≤ (linkSkillProblem c budget ss mi).value r :=
  C19.never_worse _ (linkSkill_step_monotone c hc budget ss mi) s0 r h

/-! ## UnionOccupationTarget -/

/-- every occupation kind has a value for 0..40 occupied cells (`maximum_step`), non-negative on the fields a
    damage logic reads and non-decreasing in the number of cells -/
theorem unionOccupation_tables_ok : ∀ t ∈ Systems.union_occupation_values,
    t.length = maximumStep .unionOccupation + 1 ∧ TableOk (t.map (·.1)) := tbl_unionOccupation_tables_ok

theorem unionOccupation_cost_monotone (a b : State) (hab : Le a b) :
    UnionOccupationTarget.get_cost a ≤ UnionOccupationTarget.get_cost b := sum_le_of_forall₂ (forall₂_of_le hab)

theorem unionOccupation_cost_zero (n : Nat) : UnionOccupationTarget.get_cost (List.replicate n 0) = 0 := by
  simp [UnionOccupationTarget.get_cost]

theorem unionOccupation_cost_nonneg (s : State) : (0 : Rat) ≤ (UnionOccupationTarget.get_cost s : Nat) :=
  Nat.cast_nonneg _

/-- **budget table**: within `maximum_step = 40` the cost (occupied cells) is at most 40 per kind -/
theorem unionOccupation_cost_bound (s : State) (h : ∀ x ∈ s, x ≤ maximumStep .unionOccupation) :
    UnionOccupationTarget.get_cost s ≤ s.length * maximumStep .unionOccupation :=
  sum_le_of_all_le s _ h

/-- `get_value()` is defined on states of the right length within `maximum_step` -/
theorem unionOccupation_value_defined (c : Config) (s : State) (hlen : s.length = defaultUnionOccupation.length)
    (hs : ∀ x ∈ s, x ≤ maximumStep .unionOccupation) :
    (UnionOccupationTarget.get_value c defaultUnionOccupation s).isSome := by
  rw [unionOccupation_get_value_eq, if_pos hlen]
  have := lookupAll_isSome (defaultUnionOccupation.occupation_value.map (·.map (·.1))) s
    (maximumStep .unionOccupation) (by
      intro t ht
      obtain ⟨o, ho, rfl⟩ := List.mem_map.mp ht
      have := (unionOccupation_tables_ok o ho).1
      simp only [List.length_map]; omega) hs
  cases h : lookupAll (defaultUnionOccupation.occupation_value.map (·.map (·.1))) s with
  | none => rw [h] at this; simp at this
  | some _ => rfl

/-- **value is monotone**: occupying more cells (up to 40 per kind) never lowers `get_value()` -/
theorem unionOccupation_value_monotone (c : Config) (hc : ConfigOk c) (a b : State) (hab : Le a b)
    (hlen : b.length = defaultUnionOccupation.length) (hb : ∀ x ∈ b, x ≤ maximumStep .unionOccupation) :
    ∃ va vb, UnionOccupationTarget.get_value c defaultUnionOccupation a = some va ∧
      UnionOccupationTarget.get_value c defaultUnionOccupation b = some vb ∧ va ≤ vb := by
  have hdef := unionOccupation_value_defined c b hlen hb
  rw [unionOccupation_get_value_eq, if_pos hlen] at hdef
  rw [unionOccupation_get_value_eq, unionOccupation_get_value_eq, if_pos hlen, if_pos (hab.1 ▸ hlen)]
  cases hys : lookupAll (defaultUnionOccupation.occupation_value.map (·.map (·.1))) b with
  | none => rw [hys] at hdef; simp at hdef
  | some ys =>
    obtain ⟨xs, hxs, hle⟩ := lookup_value_mono hc _ occupation_tables_ok' (forall₂_of_le hab) hys
    exact ⟨_, _, by rw [hxs]; rfl, rfl, hle⟩

theorem unionOccupation_optimizer_within_budget (c : Config) (budget : Rat) (ss mi : Nat) (s0 r : State)
    (h : optimize (unionOccupationProblem c budget ss mi) s0 = .ok r)
    (h0 : (UnionOccupationTarget.get_cost s0 : Rat) ≤ budget) : (UnionOccupationTarget.get_cost r : Rat) ≤ budget :=
  C19.within_budget _ s0 r h h0

theorem unionOccupation_optimizer_keeps_presets (c : Config) (budget : Rat) (ss mi : Nat) (s0 r : State)
    (h : optimize (unionOccupationProblem c budget ss mi) s0 = .ok r) :
    r.length = s0.length ∧ ∀ j, s0.getD j 0 ≤ r.getD j 0 := C19.keeps_presets _ s0 r h

theorem unionOccupation_optimizer_within_limits (c : Config) (budget : Rat) (ss mi : Nat) (s0 r : State)
    (h : optimize (unionOccupationProblem c budget ss mi) s0 = .ok r)
    (h0 : ∀ x ∈ s0, x ≤ maximumStep .unionOccupation) : ∀ x ∈ r, x ≤ maximumStep .unionOccupation :=
  C19.within_limits _ s0 r h h0

/-- **never worse**: in the positive-damage domain, for a preset of 5 slots within the limit, `get_value()` of the
    result is defined and at least `get_value()` of the preset -/
theorem unionOccupation_optimizer_never_worse (c : Config) (hc : ConfigOk c) (budget : Rat) (ss mi : Nat)
    (s0 r : State) (hlen : s0.length = defaultUnionOccupation.length)
    (hs0 : ∀ x ∈ s0, x ≤ maximumStep .unionOccupation)
    (h : optimize (unionOccupationProblem c budget ss mi) s0 = .ok r) :
    ∃ v0 vr, UnionOccupationTarget.get_value c defaultUnionOccupation s0 = some v0 ∧
      UnionOccupationTarget.get_value c defaultUnionOccupation r = some vr ∧ v0 ≤ vr := by
  have hkp := C19.keeps_presets _ s0 r h
  exact unionOccupation_value_monotone c hc s0 r ⟨hkp.1.symm, hkp.2⟩ (hkp.1 ▸ hlen)
    (C19.within_limits _ s0 r h hs0)

/-- **`StepMonotone` holds for the real union occupation target** -/
theorem unionOccupation_step_monotone (c : Config) (hc : ConfigOk c) (budget : Rat) (ss mi : Nat) :
    StepMonotone (unionOccupationProblem c budget ss mi) := by
  intro s s' inc _ hst _
  have hle : Le s s' := stepped_some_le hst
  by_cases hlen : s.length = defaultUnionOccupation.length
  · have hlen' : s'.length = defaultUnionOccupation.length := hle.1 ▸ hlen
    by_cases hs : ∀ x ∈ s, x ≤ maximumStep .unionOccupation
    · have hs' := stepped_some_limits hst hs
      obtain ⟨va, vb, h1, h2, hv⟩ := unionOccupation_value_monotone c hc s s' hle hlen' hs'
      simpa [unionOccupationProblem, optOr0, h1, h2] using hv
    · have hbig : ∃ x ∈ s, maximumStep .unionOccupation < x := by
        by_contra hcon
        apply hs
        intro x hx
        by_contra hx'
        exact hcon ⟨x, hx, by omega⟩
      have hT : ∀ t ∈ defaultUnionOccupation.occupation_value.map (·.map (·.1)),
          t.length ≤ maximumStep .unionOccupation + 1 := by
        intro t ht
        obtain ⟨o, ho, rfl⟩ := List.mem_map.mp ht
        have := (unionOccupation_tables_ok o ho).1
        simp only [List.length_map]; omega
      have e1 := lookupAll_none_of_big _ s _ hT (by
        simp only [List.length_map]; exact le_of_eq hlen) hbig
      have e2 := lookupAll_none_mono _ (forall₂_of_le hle) e1
      have v1 : (unionOccupationProblem c budget ss mi).value s = 0 := by
        simp [unionOccupationProblem, optOr0, unionOccupation_get_value_eq, e1]
      have v2 : (unionOccupationProblem c budget ss mi).value s' = 0 := by
        simp [unionOccupationProblem, optOr0, unionOccupation_get_value_eq, e2]
      rw [v1, v2]
  · have hlen' : ¬ s'.length = defaultUnionOccupation.length := hle.1 ▸ hlen
    have e1 : (unionOccupationProblem c budget ss mi).value s = 0 := by
      simp [unionOccupationProblem, optOr0, unionOccupation_get_value_eq, hlen]
    have e2 : (unionOccupationProblem c budget ss mi).value s' = 0 := by
      simp [unionOccupationProblem, optOr0, unionOccupation_get_value_eq, hlen']
    rw [e1, e2]

theorem unionOccupation_optimizer_never_worse_total (c : Config) (hc : ConfigOk c) (budget : Rat) (ss mi : Nat)
    (s0 r : State) (h : optimize (unionOccupationProblem c budget ss mi) s0 = .ok r) :
    (unionOccupationProblem c budget ss mi).value s0 ≤ (unionOccupationProblem c budget ss mi).value r :=
  C19.never_worse _ (unionOccupation_step_monotone c hc budget ss mi) s0 r h

/-! ## the generated limits agree with the hand-written C19 model; non-vacuity -/

/-- `maximum_step` as generated from each target's `super().__init__(…)` call = the constants of
    `Simaple.Optimizer.Kind.maximumStep` (Model/Optimizer.lean), `NO_MAXIMUM_STEP` included -/
theorem maximum_step_agrees : (∀ k : Kind, maximumStep k = k.maximumStep) ∧
    Systems.NO_MAXIMUM_STEP = Simaple.Optimizer.NO_MAXIMUM_STEP := by
  refine ⟨fun k => ?_, by decide⟩
  cases k <;> decide

example : ConfigOk exampleConfig := ⟨by decide +kernel, by decide +kernel, by decide +kernel, by decide +kernel, by decide +kernel⟩

/-- one more level of attack power is worth strictly more for that configuration -/
example : (HyperstatTarget.get_value exampleConfig kmsHyperstat [0, 0, 0, 0, 0, 0, 0, 0, 0, 0]).isSome ∧
    optOr0 (HyperstatTarget.get_value exampleConfig kmsHyperstat [0, 0, 0, 0, 0, 0, 0, 0, 0, 0]) <
      optOr0 (HyperstatTarget.get_value exampleConfig kmsHyperstat [0, 0, 0, 0, 1, 0, 0, 0, 0, 0]) := by
  decide +kernel

/-- the optimizer on the real hyper stat target with the budget of level 141 (6 points) -/
example : optimize (hyperstatProblem exampleConfig 6) (List.replicate 10 0) = .ok [0, 0, 0, 0, 0, 1, 0, 1, 1, 2] := by
  decide +kernel

/-- … and on the real union occupation target with 3 cells: all three go to ignore-defence -/
example : optimize (unionOccupationProblem exampleConfig 3 1) (List.replicate 5 0) = .ok [0, 3, 0, 0, 0] := by
  decide +kernel

end Simaple.Props.C19_Targets
