/-
C10, part: why "never advertise a skill that would be rejected" matters — the shipped default policy
(`cast_by_priority` of simaple/simulate/strategy/default.py) casts only skills the validity view lists as
usable, so together with `X_valid_implies_accepted` its casts are accepted; and it fails (ValueError) exactly
when the validity view lists nothing as usable.
-/
import Simaple.Model.Strategy

namespace Simaple.Props.C10_Strategy
open Simaple.Strategy

theorem validNames_sound (vs : List V) : ∀ n ∈ validNames vs, ∃ v ∈ vs, v.name = n ∧ v.valid = true := by
  unfold validNames
  suffices h : ∀ (l : List V) (acc : List String), (∀ n ∈ acc, ∃ v ∈ vs, v.name = n ∧ v.valid = true) →
      (∀ v ∈ l, v ∈ vs ∧ v.valid = true) →
      ∀ n ∈ l.foldl (fun acc v => if acc.contains v.name then acc else acc ++ [v.name]) acc,
        ∃ v ∈ vs, v.name = n ∧ v.valid = true by
    apply h _ [] (by simp)
    intro v hv
    have := List.mem_filter.mp hv
    exact ⟨this.1, by simpa using this.2⟩
  intro l
  induction l with
  | nil => intro acc hacc _ n hn; exact hacc n hn
  | cons x xs ih =>
    intro acc hacc hl n hn
    simp only [List.foldl_cons] at hn
    apply ih _ _ (fun v hv => hl v (List.mem_cons_of_mem _ hv)) n hn
    intro m hm
    split at hm
    · exact hacc m hm
    · rcases List.mem_append.mp hm with h1 | h1
      · exact hacc m h1
      · simp at h1; subst h1
        exact ⟨x, (hl x (List.mem_cons_self ..)).1, rfl, (hl x (List.mem_cons_self ..)).2⟩

/-- **the default policy only casts skills that the validity view lists as usable** -/
theorem cast_is_listed_valid (order : List String) (vs : List V) (rs : List (String × Int)) (n : String)
    (h : castByPriority order vs rs = some n) : ∃ v ∈ vs, v.name = n ∧ v.valid = true := by
  unfold castByPriority at h
  simp only at h
  cases hf : order.find? (fun n => (validNames vs).contains n && !(decide (0 < runningOf rs n))) with
  | some m =>
    simp only [hf, Option.some.injEq] at h
    subst h
    have := List.find?_some hf
    simp only [Bool.and_eq_true] at this
    exact validNames_sound vs m (by simpa using this.1)
  | none =>
    simp only [hf] at h
    exact validNames_sound vs n (List.mem_of_mem_head? h)

/-- it raises exactly when nothing is listed as usable -/
theorem cast_fails_iff_nothing_valid (order : List String) (vs : List V) (rs : List (String × Int)) :
    castByPriority order vs rs = none → validNames vs = [] := by
  unfold castByPriority
  simp only
  cases order.find? (fun n => (validNames vs).contains n && !(decide (0 < runningOf rs n))) with
  | some m => intro h; cases h
  | none => intro h; simpa [List.head?_eq_none_iff] using h

example : castByPriority ["a", "b"] [⟨"b", true⟩, ⟨"a", true⟩, ⟨"c", true⟩] [("a", 500)] = some "b" := by decide

end Simaple.Props.C10_Strategy
