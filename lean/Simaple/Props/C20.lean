/-
C20 — memoized environments equal freshly computed ones.

Property theorems only.  The memoizer model is `Simaple.Model.Memo` (hand-written, statement by statement after
simaple/container/memoizer.py); the facts about the two provider classes and the statement shapes of the two
`memoize` methods are GENERATED from the current source (`Simaple.Gen.Memo`, regenerated on every run).

Reading guide
  * `Iface P V E S T`       the provider / codec interface; `key I p` is `_compute_memo_key`;
  * `after I w ops`         the world (process heap + files) after the history `ops` (new memoizers of both kinds,
                            requests, export, json save / load of an exported dict, process restart);
  * `computeEnvironment`    `memoizer.compute_environment(p)`; `directEnv I p` = `p.get_simulation_environment()`;
  * `SameOutcome a b`       both return the same environment, or both raise.
-/
import Simaple.Proofs.Memo

namespace Simaple.Props.C20
open Simaple.Memo Simaple.Gen.Memo

section abstract_provider
variable {P V E S T : Type} (I : Iface P V E S T)

/-- **Main theorem, in the form the JSON codec really satisfies.**  Start from any sound world (e.g. the empty
    one), run ANY history of operations (requests for arbitrary providers through memoizers of either kind,
    export / re-import, json save / load, restarts), then ask any live memoizer for any provider:
    the answer is what the provider computes directly.
    `hSerV`: a stored memo read back is *equal after validation* (the round trip turns `JobType.x` into `"x"`). -/
theorem memo_eq_direct_upto_validation
    (hKey : ∀ p q, key I p = key I q → I.memoPart p = I.memoPart q)
    (hSerV : ∀ x : ProviderMemo V, ∃ y, I.deser (I.ser x) = .ok y ∧
        ∀ i, I.validate (Dict.update i y.memoizable_environment) = I.validate (Dict.update i x.memoizable_environment))
    (hJson : ∀ s : Store S, I.loadStore (I.dumpStore s) = .ok s)
    (w : World S T) (hw : World.Sound I w) (ops : List (Op P))
    (h : Handle) (hv : h.Valid (after (E := E) I w ops)) (p : P) :
    SameOutcome (computeEnvironment I (after (E := E) I w ops) h p).1 (directEnv I p) := by
  have H : Hyps I (fun a b => ∀ i, I.validate (Dict.update i a) = I.validate (Dict.update i b)) :=
    ⟨hKey, hSerV, hJson, fun _ _ => rfl⟩
  have hs := after_sound (E := E) H w hw ops
  have := (memoize_spec H _ hs h hv p).2
  unfold computeEnvironment
  exact sameOutcome_of_answerOk p _ _ this

/-- **`memo_eq_direct`** — the same with an exact round trip `deserialize (serialize x) = x`. -/
theorem memo_eq_direct
    (hKey : ∀ p q, key I p = key I q → I.memoPart p = I.memoPart q)
    (hSer : ∀ x : ProviderMemo V, I.deser (I.ser x) = .ok x)
    (hJson : ∀ s : Store S, I.loadStore (I.dumpStore s) = .ok s)
    (w : World S T) (hw : World.Sound I w) (ops : List (Op P))
    (h : Handle) (hv : h.Valid (after (E := E) I w ops)) (p : P) :
    SameOutcome (computeEnvironment I (after (E := E) I w ops) h p).1 (directEnv I p) :=
  memo_eq_direct_upto_validation I hKey (fun x => ⟨x, hSer x, fun _ => rfl⟩) hJson w hw ops h hv p

/-- the empty world is sound: the theorem applies to every history of a fresh installation -/
theorem memo_eq_direct_from_scratch
    (hKey : ∀ p q, key I p = key I q → I.memoPart p = I.memoPart q)
    (hSer : ∀ x : ProviderMemo V, I.deser (I.ser x) = .ok x)
    (hJson : ∀ s : Store S, I.loadStore (I.dumpStore s) = .ok s)
    (ops : List (Op P)) (h : Handle) (hv : h.Valid (after (E := E) I World.empty ops)) (p : P) :
    SameOutcome (computeEnvironment I (after (E := E) I World.empty ops) h p).1 (directEnv I p) :=
  memo_eq_direct I hKey hSer hJson _ (World.sound_empty I) ops h hv p

/-- soundness of the stores survives every operation, in particular export / import and restart -/
theorem sound_after
    (hKey : ∀ p q, key I p = key I q → I.memoPart p = I.memoPart q)
    (hSer : ∀ x : ProviderMemo V, I.deser (I.ser x) = .ok x)
    (hJson : ∀ s : Store S, I.loadStore (I.dumpStore s) = .ok s)
    (w : World S T) (hw : World.Sound I w) (ops : List (Op P)) :
    World.Sound I (after (E := E) I w ops) :=
  after_sound (R := Eq) ⟨hKey, fun x => ⟨x, hSer x, rfl⟩, hJson, fun _ => rfl⟩ w hw ops

/-- **`no_sharing`** — providers whose memoizable parts differ never get the same memo key (so an entry
    written for one is never looked up for the other). -/
theorem no_sharing
    (hKey : ∀ p q, key I p = key I q → I.memoPart p = I.memoPart q)
    (p q : P) (hne : I.memoPart p ≠ I.memoPart q) : key I p ≠ key I q :=
  fun hk => hne (hKey p q hk)

/-- … and whatever entry answers a request (after any history), the memoizable part handed out is the
    requesting provider's own. -/
theorem memo_part_is_own
    (hKey : ∀ p q, key I p = key I q → I.memoPart p = I.memoPart q)
    (hSer : ∀ x : ProviderMemo V, I.deser (I.ser x) = .ok x)
    (hJson : ∀ s : Store S, I.loadStore (I.dumpStore s) = .ok s)
    (w : World S T) (hw : World.Sound I w) (ops : List (Op P))
    (h : Handle) (hv : h.Valid (after (E := E) I w ops)) (p : P) (memo : ProviderMemo V) (hit : Bool)
    (hres : (memoize I (after (E := E) I w ops) h p).1 = .ok (memo, hit)) :
    I.memoPart p = .ok memo.memoizable_environment := by
  have H : Hyps I Eq := ⟨hKey, fun x => ⟨x, hSer x, rfl⟩, hJson, fun _ => rfl⟩
  have := (memoize_spec H _ (after_sound (E := E) H w hw ops) h hv p).2
  rw [hres] at this
  obtain ⟨_, m, hm, hR⟩ := this
  rw [hm, hR]

/-- **`independent_from_request`** — on a hit and on a miss, in ANY world (no hypothesis at all, the store may
    hold anything), the independent part of the answer is the independent part of the CURRENT request. -/
theorem independent_from_request (w : World S T) (h : Handle) (p : P) (memo : ProviderMemo V) (hit : Bool)
    (hres : (memoize I w h p).1 = .ok (memo, hit)) :
    I.indepPart p = .ok memo.independent_environment := by
  cases h with
  | inMemory ref =>
    simp only [memoize, InMemory.memoize] at hres
    split at hres
    · simp at hres
    · split at hres
      · split at hres
        · simp at hres
        · split at hres
          · simp at hres
          · rename_i hi
            simp only [Except.ok.injEq, Prod.mk.injEq] at hres
            rw [hi, ← hres.1]
      · split at hres
        · simp at hres
        · split at hres
          · simp at hres
          · rename_i hi
            simp only [Except.ok.injEq, Prod.mk.injEq] at hres
            rw [hi, ← hres.1]
  | persistent path =>
    simp only [memoize, Persistent.memoize] at hres
    split at hres
    · simp at hres
    · split at hres
      · simp at hres
      · split at hres
        · split at hres
          · simp at hres
          · split at hres
            · simp at hres
            · rename_i hi
              simp only [Except.ok.injEq, Prod.mk.injEq] at hres
              rw [hi, ← hres.1]
        · split at hres
          · simp at hres
          · split at hres
            · simp at hres
            · rename_i hi
              simp only [Except.ok.injEq, Prod.mk.injEq] at hres
              rw [hi, ← hres.1]

/-- the hit flag says whether the key was in the store the memoizer looks at (in-memory kind) -/
theorem inMemory_hit_iff (w : World S T) (ref : Nat) (s : Store S) (hs : w.heap[ref]? = some s) (p : P)
    (memo : ProviderMemo V) (hit : Bool) (hres : (memoize I w (.inMemory ref) p).1 = .ok (memo, hit)) :
    hit = s.has (key I p) := by
  simp only [memoize, InMemory.memoize, hs] at hres
  split at hres
  · rename_i txt hget
    split at hres
    · simp at hres
    · split at hres
      · simp at hres
      · simp only [Except.ok.injEq, Prod.mk.injEq] at hres
        simp [Dict.has, hget, ← hres.2]
  · rename_i hget
    split at hres
    · simp at hres
    · split at hres
      · simp at hres
      · simp only [Except.ok.injEq, Prod.mk.injEq] at hres
        simp [Dict.has, hget, ← hres.2]

end abstract_provider

/-! ### the generated facts about the two provider classes -/

/-- every field the memoizable part reads is part of the key: `reads ∩ excluded = ∅`, both classes -/
theorem reads_disjoint_excluded : ∀ s ∈ specs, ∀ f ∈ s.memoReads, f ∉ s.keyExclude := by decide

/-- … and is a declared field, so it is in the dump the key is made of -/
theorem reads_in_key : ∀ s ∈ specs, ∀ f ∈ s.memoReads, f ∈ keyFields s := by decide

/-- the two classes have different names (the name is part of the key) -/
theorem names_distinct : ∀ s ∈ specs, ∀ t ∈ specs, s.name = t.name → s = t := by decide

/-- every field left out of the key is consumed by the independent part … -/
theorem excluded_feed_independent : ∀ s ∈ specs, ∀ f ∈ s.keyExclude, f ∈ s.indepReads := by decide

/-- … the fields the independent part copies verbatim are all left out of the key … -/
theorem include_subset_excluded : ∀ s ∈ specs, ∀ f ∈ s.indepInclude, f ∈ s.keyExclude := by decide

/-- … but the independent part is NOT limited to the excluded fields: it also reads exactly these four keyed
    fields (harmless: that part is never taken from the store) -/
theorem independent_reads_beyond_excluded :
    ∀ s ∈ specs, s.indepReads.filter (fun f => !s.keyExclude.contains f)
      = ["jobtype", "hexa_mastery_skill_levels", "hexa_skill_levels", "hexa_improvement_levels"] := by decide

/-- no declared field is dead: each is read by one of the two parts -/
theorem every_field_used : ∀ s ∈ specs, ∀ f ∈ s.fields, f ∈ s.memoReads ∨ f ∈ s.indepReads := by decide

/-- the two parts produce disjoint dictionary keys, so `update` never overwrites an independent setting -/
theorem part_keys_disjoint : ∀ s ∈ specs, ∀ k ∈ s.memoKeys, k ∉ s.indepKeys := by decide

/-- together they give every required field of `SimulationEnvironment` and nothing it forbids -/
theorem part_keys_fit_environment :
    ∀ s ∈ specs, (∀ k ∈ simEnvRequired, k ∈ s.memoKeys ∨ k ∈ s.indepKeys) ∧
      (∀ k ∈ s.memoKeys ++ s.indepKeys, k ∈ simEnvFields) := by decide

/-- the hand-written control flow of the model is the one the current source has -/
theorem model_matches_source :
    inMemoryShape = modelInMemoryShape ∧ persistentShape = modelPersistentShape ∧
    providerAssemble = modelAssemble ∧ memoAssemble = modelAssemble := by decide

/-- in the assembled dictionary every key of the independent part holds the independent part's value,
    whatever memoizable dictionary (with the declared keys) is laid over it -/
theorem independent_keys_survive {V : Type} : ∀ s ∈ specs, ∀ (i m : Dict V), (∀ k ∈ m.keys, k ∈ s.memoKeys) →
    ∀ k ∈ s.indepKeys, (Dict.update i m).get? k = i.get? k := by
  intro s hs i m hm k hk
  apply Dict.get?_update_of_not_mem
  intro hmem
  exact part_keys_disjoint s hs k (hm k hmem) hk

/-! ### discharging `hKey` for the two real classes -/

section generated_provider
variable {V E S T : Type} (canon : List (String × V) → String)
  (memoFn indepFn : Spec → (String → V) → Except String (Dict V))
  (validate : Dict V → Except String E) (digest : String → String → String)
  (ser : ProviderMemo V → S) (deser : S → Except String (ProviderMemo V))
  (dumpStore : Store S → T) (loadStore : T → Except String (Store S))

/-- `hKey` for providers of the generated classes.  Assumptions: the canonical JSON dump is injective on field
    values, sha256 does not collide (with the name prefix), and the memoizable part is a function of the fields
    it reads (`hReads`: what the translator's read-set extraction claims; cross-checked dynamically). -/
theorem hKey_of_generated
    (hCanon : ∀ a b, canon a = canon b → a = b)
    (hDigest : ∀ n s n' s', n ++ "." ++ digest s n = n' ++ "." ++ digest s' n' → n = n' ∧ s = s')
    (hReads : ∀ s ∈ specs, ∀ v v' : String → V, (∀ f ∈ s.memoReads, v f = v' f) → memoFn s v = memoFn s v')
    (p q : Prov V)
    (hk : key (provIface canon memoFn indepFn validate digest ser deser dumpStore loadStore) p
        = key (provIface canon memoFn indepFn validate digest ser deser dumpStore loadStore) q) :
    (provIface canon memoFn indepFn validate digest ser deser dumpStore loadStore).memoPart p
      = (provIface canon memoFn indepFn validate digest ser deser dumpStore loadStore).memoPart q := by
  simp only [key, provIface] at hk
  obtain ⟨hname, hcanon⟩ := hDigest _ _ _ _ hk
  have hspec : p.spec = q.spec := names_distinct _ p.known _ q.known hname
  have hview := hCanon _ _ hcanon
  simp only [keyView, ← hspec] at hview
  simp only [provIface, ← hspec]
  apply hReads _ p.known
  intro f hf
  have hfk : f ∈ keyFields p.spec := reads_in_key _ p.known f hf
  have := List.map_inj_left.mp hview f hfk
  exact (Prod.mk.inj this).2

/-- the contrapositive for the real classes: different memoizable parts ⇒ different keys -/
theorem no_sharing_generated
    (hCanon : ∀ a b, canon a = canon b → a = b)
    (hDigest : ∀ n s n' s', n ++ "." ++ digest s n = n' ++ "." ++ digest s' n' → n = n' ∧ s = s')
    (hReads : ∀ s ∈ specs, ∀ v v' : String → V, (∀ f ∈ s.memoReads, v f = v' f) → memoFn s v = memoFn s v')
    (p q : Prov V) (hne : memoFn p.spec p.val ≠ memoFn q.spec q.val) :
    key (provIface canon memoFn indepFn validate digest ser deser dumpStore loadStore) p
      ≠ key (provIface canon memoFn indepFn validate digest ser deser dumpStore loadStore) q :=
  fun hk => hne (hKey_of_generated canon memoFn indepFn validate digest ser deser dumpStore loadStore
    hCanon hDigest hReads p q hk)

/-- the main theorem for the two real classes, with `hKey` discharged from the generated facts -/
theorem memo_eq_direct_generated
    (hCanon : ∀ a b, canon a = canon b → a = b)
    (hDigest : ∀ n s n' s', n ++ "." ++ digest s n = n' ++ "." ++ digest s' n' → n = n' ∧ s = s')
    (hReads : ∀ s ∈ specs, ∀ v v' : String → V, (∀ f ∈ s.memoReads, v f = v' f) → memoFn s v = memoFn s v')
    (hSerV : ∀ x : ProviderMemo V, ∃ y, deser (ser x) = .ok y ∧
        ∀ i, validate (Dict.update i y.memoizable_environment) = validate (Dict.update i x.memoizable_environment))
    (hJson : ∀ s : Store S, loadStore (dumpStore s) = .ok s)
    (ops : List (Op (Prov V))) (h : Handle)
    (hv : h.Valid (after (E := E) (provIface canon memoFn indepFn validate digest ser deser dumpStore loadStore)
      World.empty ops)) (p : Prov V) :
    SameOutcome
      (computeEnvironment (provIface canon memoFn indepFn validate digest ser deser dumpStore loadStore)
        (after (E := E) (provIface canon memoFn indepFn validate digest ser deser dumpStore loadStore)
          World.empty ops) h p).1
      (directEnv (provIface canon memoFn indepFn validate digest ser deser dumpStore loadStore) p) :=
  memo_eq_direct_upto_validation _
    (hKey_of_generated canon memoFn indepFn validate digest ser deser dumpStore loadStore hCanon hDigest hReads)
    hSerV hJson _ (World.sound_empty _) ops h hv p

end generated_provider

/-! ### non-vacuity: a concrete instance satisfying every hypothesis, with a non-trivial history -/

namespace Demo
open Simaple.Memo.Demo

/-- … and a request that differs from the stored one only in the independent field is a HIT that carries
    the current independent value (9, not the stored 5) -/
example : (computeEnvironment I (after (E := Dict Nat) I World.empty history) (.persistent "memo.json") (true, 9)).1
    = .ok [("i", 9), ("m", 10)] := by rfl
example : ((memoize I (after (E := Dict Nat) I World.empty history) (.persistent "memo.json") (true, 9)).1.toOption.map
    (·.2)) = some true := by decide +kernel

/-- the main theorem applies to it -/
example : SameOutcome
    (computeEnvironment I (after (E := Dict Nat) I World.empty history) (.persistent "memo.json") (true, 9)).1
    (directEnv I (true, 9)) :=
  memo_eq_direct_from_scratch I hKey (fun _ => rfl) (fun _ => rfl) history _ alive _

end Demo

/-- which keyed fields the memoizable part does not read (over-keying: extra misses, never a wrong answer) -/
example : (keyFields minimal).filter (fun f => !minimal.memoReads.contains f)
    = ["hexa_mastery_skill_levels", "hexa_skill_levels", "hexa_improvement_levels"] := by decide
example : (keyFields baseline).filter (fun f => !baseline.memoReads.contains f)
    = ["hexa_mastery_skill_levels", "hexa_skill_levels", "hexa_improvement_levels"] := by decide

end Simaple.Props.C20
