/-
C06 (part `Mage`) — component level: the `elapsed` event a component answers to `elapse t` carries exactly
the time asked for, and exactly one such event is emitted (`Mage.elapsedTimes` = the list of the times of the
`elapsed` events of an answer, `Simaple/Model/ComponentMage.lean`), for the job-specific component classes of
archmagefb / archmagetc / bishop and `Infinity`.  No hypothesis on state, parameters or the sign of `t`
(the tick loops of JupyterThunder / ThunderBreak included: whatever fuel, they answer damage events only).
FerventDrain, FlameSwipVI and FrostEffect have no `elapse` reducer.
-/
import Simaple.Proofs.ComponentMage

namespace Simaple.Props.C06_Mage
open Simaple.Comp Simaple.Comp.Mage Simaple.Entity

theorem poisonNova_elapsed_carries_time (p : PoisonNova.P) (t : Int) (s : PoisonNova.S) :
    elapsedTimes (PoisonNova.elapse p t s).2 = [t] := rfl
theorem poisonChain_elapsed_carries_time (p : PoisonChain.P) (t : Int) (s : PoisonChain.S) :
    elapsedTimes (PoisonChain.elapse p t s).2 = [t] :=
  elapsedTimes_elapsed_damage _ _ (poisonChain_ticks_allDamage p _ _)
theorem dotPunisher_elapsed_carries_time (p : DotPunisher.P) (t : Int) (s : DotPunisher.S) :
    elapsedTimes (DotPunisher.elapse p t s).2 = [t] := rfl
theorem ifritt_elapsed_carries_time (p : Ifritt.P) (t : Int) (s : Ifritt.S) :
    elapsedTimes (Ifritt.elapse p t s).2 = [t] :=
  elapsedTimes_elapsed_damage _ _ (allDamage_replicate _ _ _)
theorem infernalVenom_elapsed_carries_time (p : InfernalVenom.P) (t : Int) (s : InfernalVenom.S) :
    elapsedTimes (InfernalVenom.elapse p t s).2 = [t] := by
  unfold InfernalVenom.elapse; simp only []; split <;> rfl
theorem jupyterThunder_elapsed_carries_time (p : JupyterThunder.P) (t : Int) (s : JupyterThunder.S) :
    elapsedTimes (JupyterThunder.elapse p t s).2 = [t] :=
  elapsedTimes_elapsed_damage _ _ (tickLoop_allDamage _ _ (jupyter_emit_isDamage p) _ _ _ _ _)
theorem thunderBreak_elapsed_carries_time (p : ThunderBreak.P) (t : Int) (s : ThunderBreak.S) :
    elapsedTimes (ThunderBreak.elapse p t s).2 = [t] :=
  elapsedTimes_elapsed_damage _ _ (tickLoop_allDamage _ _ (thunderBreak_emit_isDamage p _) _ _ _ _ _)
theorem chainLightning_elapsed_carries_time (p : ChainLightning.P) (t : Int) (s : ChainLightning.S) :
    elapsedTimes (ChainLightning.elapse p t s).2 = [t] :=
  elapsedTimes_elapsed_damage _ _ (allDamage_replicate _ _ _)
theorem divineAttack_elapsed_carries_time (p : DivineAttack.P) (t : Int) (s : DivineAttack.S) :
    elapsedTimes (DivineAttack.elapse p t s).2 = [t] := rfl
theorem divineMinion_elapsed_carries_time (p : DivineMinion.P) (t : Int) (s : DivineMinion.S) :
    elapsedTimes (DivineMinion.elapse p t s).2 = [t] :=
  elapsedTimes_elapsed_damage _ _ (allDamage_replicate _ _ _)
theorem hexaAngelRay_elapsed_carries_time (p : HexaAngelRay.P) (t : Int) (s : HexaAngelRay.S) :
    elapsedTimes (HexaAngelRay.elapse p t s).2 = [t] := rfl
theorem infinity_elapsed_carries_time (p : Infinity.P) (t : Int) (s : Infinity.S) :
    elapsedTimes (Infinity.elapse p t s).2 = [t] := rfl

/-- the reducers that do not let time pass emit no `elapsed` event (use / listened reducers of the group) -/
theorem mage_use_emits_no_elapsed (pn : PoisonNova.P) (sn : PoisonNova.S) (pv : InfernalVenom.P) (sv : InfernalVenom.S)
    (pf : FlameSwip.P) (sf : FlameSwip.S) (pa : DivineAttack.P) (sa : DivineAttack.S) (ph : HexaAngelRay.P)
    (sh : HexaAngelRay.S) (pi : Infinity.P) (si : Infinity.S) (sfr : FrostEffect.S) :
    elapsedTimes (PoisonNova.use pn sn).2 = [] ∧ elapsedTimes (PoisonNova.trigger pn sn).2 = [] ∧
    elapsedTimes (InfernalVenom.use pv sv).2 = [] ∧ elapsedTimes (FlameSwip.use pf sf).2 = [] ∧
    elapsedTimes (FlameSwip.explode pf sf).2 = [] ∧ elapsedTimes (DivineAttack.use pa sa).2 = [] ∧
    elapsedTimes (HexaAngelRay.use ph sh).2 = [] ∧ elapsedTimes (HexaAngelRay.stack ph sh).2 = [] ∧
    elapsedTimes (Infinity.use pi si).2 = [] ∧ elapsedTimes (FrostEffect.increaseStep sfr).2 = [] ∧
    elapsedTimes (FrostEffect.increaseThree sfr).2 = [] := by
  have hd : ∀ st, ∀ e ∈ (HexaAngelRay.stackCore ph st).2, isDamage e = true := by
    intro st; unfold HexaAngelRay.stackCore; simp only []; split <;> simp [isDamage]
  refine ⟨?_, ?_, ?_, ?_, ?_, ?_, ?_, ?_, ?_, rfl, rfl⟩
  · unfold PoisonNova.use; split <;> rfl
  · unfold PoisonNova.trigger; simp only []; split <;> rfl
  · unfold InfernalVenom.use; split <;> rfl
  · unfold FlameSwip.use; split <;> rfl
  · unfold FlameSwip.explode; split <;> rfl
  · unfold DivineAttack.use; split
    · rfl
    · rw [elapsedTimes_cons_of_none _ _ (isDamage_elapsedTime _ (mkDealt_isDamage _ _ _ _))]; rfl
  · unfold HexaAngelRay.use; split
    · rfl
    · rw [elapsedTimes_append, elapsedTimes_of_allDamage _ (hd sh.punishingStack),
        elapsedTimes_cons_of_none _ _ (isDamage_elapsedTime _ (mkDealt_isDamage _ _ _ _))]; rfl
  · exact elapsedTimes_of_allDamage _ (hd _)
  · unfold Infinity.use; split <;> rfl

/-! non-vacuity: a Jupiter Thunder that ticks during the elapse -/
example : (JupyterThunder.elapse ⟨0, 0, 660, 8, 30720000, 30, "D", ["D", "M1", "M2"]⟩ (250 * 1024)
    ⟨⟨2, 5⟩, ⟨0⟩, { interval := 122880, intervalCounter := 122880, timeLeft := 30720000, count := 0 }⟩).2
    = [.elapsed 256000, .dealtMod 660 8 "M2", .dealtMod 660 8 "M2"] := by decide

end Simaple.Props.C06_Mage
