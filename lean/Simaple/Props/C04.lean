/-
C04 — the incremental runner (with hint) returns exactly what a full run returns.
Model: Simaple/Model/Engine.lean (L6 `runPlan`, `runPlanWithHint`), arbitrary play function, store,
checkpoint type, clock, views, hash, response rendering — and an arbitrary value standing for
`DummyCheckpoint` (the result does not depend on it, and the only checkpoint the reloaded engine ever
restores is a real one: `reload_point_is_real`).
-/
import Simaple.Proofs.EngineApi

namespace Simaple.Props.C04
open Simaple.Engine

section
variable {σ τ ρ : Type}
variable {P : Action → σ → σ × List Event} {save : σ → τ} {load : τ → σ} {clock : σ → Rat}
variable {view : σ → String → String}
variable (hash : OpLog τ → String) (t0 : τ) (render : PlayLog τ → ρ) (dummy : τ)

/-- logs of a full run -/
def fullLogs (P : Action → σ → σ × List Event) (save : σ → τ) (load : τ → σ) (clock : σ → Rat)
    (view : σ → String → String) (hash : OpLog τ → String) (t0 : τ) (st : σ) (cs : List Command) :
    List (OpLog τ) :=
  cs.foldl (stepL P save load clock view hash t0) [initLog (save st)]

theorem runPlan_eq (L : StoreLaws P save load clock view) (st : σ) (cs : List Command) :
    runPlan P save load clock view hash t0 render st cs
      = respFrom hash render 0 (fullLogs P save load clock view hash t0 st cs) := by
  unfold runPlan
  rw [extractFrom_eq, (execAll_logs hash t0 L cs _ (initEngine_inv t0 st)).1]
  rfl

theorem fullLogs_length (st : σ) (cs : List Command) :
    (fullLogs P save load clock view hash t0 st cs).length = cs.length + 1 := by
  unfold fullLogs; rw [fold_length]; simp; omega

theorem fullLogs_take (st : σ) (cs : List Command) (j : Nat) :
    (fullLogs P save load clock view hash t0 st cs).take (j + 1)
      = fullLogs P save load clock view hash t0 st (cs.take j) := by
  have := fold_take P save load clock view hash t0 cs [initLog (save st)] j
  simp only [List.length_singleton] at this
  unfold fullLogs
  rw [← this]; congr 1; omega

/-- the common prefix the incremental runner decides to reuse -/
def reusePoint (prevCmds cmds : List Command) (hist : List (OpResp τ ρ)) : Nat :=
  walkBack hist (cacheCount cmds prevCmds (hist.drop 1))

/-- the log at the reload point kept its checkpoints and has a playlog, so the checkpoint the reloaded
    engine restores first is real (a `DummyCheckpoint` is never restored) -/
theorem reload_point_is_real (L : StoreLaws P save load clock view) (st : σ) (prevCmds cmds : List Command) :
    let hist : List (OpResp τ ρ) := runPlan P save load clock view hash t0 render st prevCmds
    let k := reusePoint prevCmds cmds hist
    ∃ lk, (fullLogs P save load clock view hash t0 st prevCmds)[k]? = some lk ∧ lk.playlogs ≠ [] ∧
      restoreLog dummy (respOf hash render k lk) = lk := by
  intro hist k
  have hh : hist = respFrom hash render 0 (fullLogs P save load clock view hash t0 st prevCmds) :=
    runPlan_eq hash t0 render L st prevCmds
  rcases walkBack_spec hist (cacheCount cmds prevCmds (hist.drop 1)) with h0 | ⟨r, hr, hc⟩
  · have hk : k = 0 := h0
    rw [hk]
    have h1 := fullLogs_take (P := P) (save := save) (load := load) (clock := clock) (view := view)
      hash t0 st prevCmds 0
    simp only [List.take_zero, Nat.zero_add] at h1
    have : (fullLogs P save load clock view hash t0 st prevCmds)[0]? = some (initLog (save st)) := by
      have h2 : ((fullLogs P save load clock view hash t0 st prevCmds).take 1)[0]? = some (initLog (save st)) := by
        rw [h1]; simp [fullLogs]
      simpa [List.getElem?_take] using h2
    exact ⟨_, this, by simp [initLog], restore_respOf hash render dummy 0 _ rfl⟩
  · have hk : walkBack hist (cacheCount cmds prevCmds (hist.drop 1)) = k := rfl
    rw [hk] at hr
    have hlen : k < (fullLogs P save load clock view hash t0 st prevCmds).length := by
      have : k < hist.length := by
        rcases Nat.lt_or_ge k hist.length with h1 | h1
        · exact h1
        · rw [List.getElem?_eq_none h1] at hr; cases hr
      rw [hh, respFrom_length] at this; exact this
    let lk := (fullLogs P save load clock view hash t0 st prevCmds)[k]
    have hget : (fullLogs P save load clock view hash t0 st prevCmds)[k]? = some lk := by
      simp [lk, List.getElem?_eq_getElem hlen]
    have hr' := respFrom_getElem? hash render _ 0 k lk hget
    rw [← hh, hr] at hr'
    simp only [Nat.zero_add, Option.some.injEq] at hr'
    rw [hr'] at hc
    obtain ⟨h10, hne⟩ := containsCkpt_respOf hash render k lk hc
    exact ⟨lk, hget, hne, restore_respOf hash render dummy k lk h10⟩

/-- **C04, one step**: with the result of a full run of the previous plan as hint, the incremental
    runner returns exactly what a full run of the new plan returns — for every play function, every
    previous plan and every new plan (any common prefix, any lengths, debug lines anywhere), whether or
    not the metadata agree, and whatever `DummyCheckpoint` restores to. -/
theorem hint_sound_one_step (L : StoreLaws P save load clock view) (st : σ) (sameMeta : Bool)
    (prevCmds cmds : List Command) :
    runPlanWithHint P save load clock view hash t0 render dummy st sameMeta prevCmds
        (runPlan P save load clock view hash t0 render st prevCmds) cmds
      = runPlan P save load clock view hash t0 render st cmds := by
  cases sameMeta with
  | false => simp [runPlanWithHint]
  | true =>
    simp only [runPlanWithHint, Bool.not_true, Bool.false_eq_true, if_false]
    -- notation
    generalize hhist : runPlan P save load clock view hash t0 render st prevCmds = hist
    have hh : hist = respFrom hash render 0 (fullLogs P save load clock view hash t0 st prevCmds) := by
      rw [← hhist]; exact runPlan_eq hash t0 render L st prevCmds
    generalize hn : cacheCount cmds prevCmds (List.drop 1 hist) = n
    generalize hk : walkBack hist n = k
    have hreal := reload_point_is_real hash t0 render dummy L st prevCmds cmds
    simp only [reusePoint, hhist, hn, hk] at hreal
    obtain ⟨lk, hget, hne, hrest⟩ := hreal
    -- the commands agree up to k
    have hspec := cacheCount_spec cmds prevCmds (List.drop 1 hist)
    rw [hn] at hspec
    have hkn : k ≤ n := by rw [← hk]; exact walkBack_le hist n
    have htake : cmds.take k = prevCmds.take k := by
      have := congrArg (List.take k) hspec.1
      simpa [List.take_take, Nat.min_eq_left hkn] using this
    -- the first k+1 logs of both full runs coincide
    let Lp := fullLogs P save load clock view hash t0 st prevCmds
    let Ln := fullLogs P save load clock view hash t0 st cmds
    have hU : Ln.take (k + 1) = Lp.take (k + 1) := by
      simp only [Ln, Lp]
      rw [fullLogs_take, fullLogs_take, htake]
    have hklen : k < Lp.length := by
      rcases Nat.lt_or_ge k Lp.length with h1 | h1
      · exact h1
      · rw [List.getElem?_eq_none h1] at hget; cases hget
    -- split the common part at its last log
    have hUsplit : Lp.take (k + 1) = Lp.take k ++ [lk] := by
      rw [List.take_succ, hget]; rfl
    -- the restored history ends in the same log
    have hDsplit : (hist.take (k + 1)).map (restoreLog dummy)
        = (hist.take k).map (restoreLog dummy) ++ [lk] := by
      have hr' := respFrom_getElem? hash render Lp 0 k lk hget
      rw [← hh] at hr'
      rw [List.take_succ, hr']
      simp only [Nat.zero_add, Option.toList_some, List.map_append, List.map_cons, List.map_nil, hrest]
    -- both evolve identically
    have hrel := rel_same_last hash t0 ((hist.take k).map (restoreLog dummy)) (Lp.take k) lk hne
    rw [← hDsplit, ← hUsplit] at hrel
    obtain ⟨S, hD, hUf⟩ := fold_rel P save load clock view hash t0 (cmds.drop k) _ _ hrel
    -- the reloaded engine is in the canonical state
    have hreal2 : ∃ s, save s = lastCkpt t0 ((hist.take (k + 1)).map (restoreLog dummy)) := by
      rw [hrel.1, ← hU]
      simp only [Ln]
      rw [fullLogs_take]
      have := execAll_logs hash t0 L (cmds.take k) _ (initEngine_inv (save := save) t0 st)
      have h := this.2.2.1
      rw [this.1] at h
      exact h
    have hex := execAll_logs hash t0 L (cmds.drop k)
      (reload ((hist.take (k + 1)).map (restoreLog dummy)) : Engine σ τ) (reload_inv t0 _ hreal2)
    rw [hex.1]
    simp only [reload]
    rw [hD, extractFrom_eq, respFrom_append]
    -- the full run of the new plan
    have hLn : Ln = Lp.take (k + 1) ++ S := by
      rw [← hUf, ← hU]
      simp only [Ln]
      rw [fullLogs_take]
      simp only [fullLogs]
      rw [← List.foldl_append, List.take_append_drop]
    rw [runPlan_eq hash t0 render L st cmds]
    change _ = respFrom hash render 0 Ln
    rw [hLn, respFrom_append]
    have hklen' : k < (fullLogs P save load clock view hash t0 st prevCmds).length := hklen
    have hlenD : ((hist.take (k + 1)).map (restoreLog dummy)).length = k + 1 := by
      simp only [List.length_map, List.length_take, hh, respFrom_length]; omega
    have hlenU : (Lp.take (k + 1)).length = k + 1 := by
      simp only [List.length_take, Lp]; omega
    rw [hlenD, hlenU, List.drop_append_of_le_length (by rw [respFrom_length, hlenD]; exact Nat.le_refl _)]
    have : (respFrom hash render 0 ((hist.take (k + 1)).map (restoreLog dummy))).drop (k + 1) = [] := by
      apply List.drop_of_length_le; rw [respFrom_length, hlenD]; exact Nat.le_refl _
    rw [this, List.nil_append]
    congr 1
    rw [hh, respFrom_take]

/-- **C04, chains**: a sequence of plans where each step's hint is the previous step's incremental
    output: every step returns what a full run of its plan returns -/
def chain (P : Action → σ → σ × List Event) (save : σ → τ) (load : τ → σ) (clock : σ → Rat)
    (view : σ → String → String) (hash : OpLog τ → String) (t0 : τ) (render : PlayLog τ → ρ) (dummy : τ)
    (st : σ) : List Command → List (OpResp τ ρ) → List (Bool × List Command) → List (List (OpResp τ ρ))
  | _, _, [] => []
  | prev, hist, (same, cmds) :: rest =>
    let r := runPlanWithHint P save load clock view hash t0 render dummy st same prev hist cmds
    r :: chain P save load clock view hash t0 render dummy st cmds r rest

theorem hint_sound_chain (L : StoreLaws P save load clock view) (st : σ) (plans : List (Bool × List Command)) :
    ∀ (p0 : List Command),
    chain P save load clock view hash t0 render dummy st p0
        (runPlan P save load clock view hash t0 render st p0) plans
      = plans.map (fun p => runPlan P save load clock view hash t0 render st p.2) := by
  induction plans with
  | nil => intro _; rfl
  | cons p ps ih =>
    intro p0
    obtain ⟨same, cmds⟩ := p
    simp only [chain, List.map_cons]
    rw [hint_sound_one_step hash t0 render dummy L st same p0 cmds, ih cmds]

end

end Simaple.Props.C04
