/-
C02, the frame hypothesis for the rest of the build path: what an engine and its report are built from besides the
specifications (`Props/C02_Patches.lean`) — `build_skills`, `_exclude_hexa_skill`, `get_skill_components` (entries
tagged 16, shared with C16) and `get_damage_calculator`, `get_damage_logic`, `get_skill_profile`,
`get_builtin_strategy` (entries tagged 2) — lowered from the source with everything they call inlined, write NO object
that existed before the call: two simulations built in one process share the repository object and cannot change it
for each other.  Trusted as in `C02_Patches.lean` and `C16_Effects.lean`; NOT covered: `get_builder` /
`get_operation_engine` (the component wiring uses reflection — `inspect.signature` — and untyped attributes of
`EngineBuilder`, which the lowering refuses) — engine construction stays observed by the differential runs of
`check_C02`.
-/
import Simaple.Proofs.Effect
import Simaple.Gen.Effects

namespace Simaple.Props.C02
open Simaple.Effect Simaple.Gen.Effects

def buildPathFunctions : List PureEntry := pureTable.filter (fun e => e.prop == 2 || e.prop == 16)

theorem build_path_functions_lowered : 7 ≤ buildPathFunctions.length ∧ pureNotLowered.length = 0 := by decide +kernel

theorem build_path_functions_wellFormed :
    buildPathFunctions.all (fun e => wellFormedWith e.taint e.nvars e.body e.prog) = true := by decide +kernel

/-- at every state passed while one of these functions runs, every object that existed before the call is exactly as
    it was (the shared repository, the stored specifications, the environment) -/
theorem build_path_functions_never_write_preexisting_objects (e : PureEntry) (he : e ∈ buildPathFunctions)
    (σ σ' : State) (hlog : σ.log = []) (hr : Reach e.body e.prog σ σ') :
    (∀ a o, σ.heap a = some o → σ'.heap a = some o) ∧ (∀ a ∈ σ'.log, σ.heap a = none) := by
  have hall := build_path_functions_wellFormed
  rw [List.all_eq_true] at hall
  exact wellFormedWith_frame_always e.taint e.nvars e.body e.prog (hall e he) σ σ' hlog hr

end Simaple.Props.C02
