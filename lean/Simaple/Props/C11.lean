/-
C11 — stat blocks form a commutative monoid and every field takes part.
Property theorems only; they are stated against the *generated* definitions of
`Simaple.Gen.Core` (regenerated from simaple/core/base.py on every run).
-/
import Simaple.Gen.Core
import Mathlib.Tactic.Ring
import Mathlib.Tactic.NormNum
import Mathlib.Algebra.Order.Field.Rat
import Mathlib.Data.List.Induction
import Mathlib.Data.List.Perm.Basic

namespace Simaple.Props.C11
open Simaple.Gen Simaple.Py

/-! ### Stat -/

theorem stat_add_comm (x y : Stat) : x.add y = y.add x := by
  simp only [Stat.add]; congr 1 <;> ring

theorem stat_add_assoc (x y z : Stat) : (x.add y).add z = x.add (y.add z) := by
  simp only [Stat.add]; congr 1 <;> ring

theorem stat_add_zero (x : Stat) : x.add Stat.zero = x := by
  cases x; simp only [Stat.add, Stat.zero]; congr 1 <;> ring

theorem stat_zero_add (x : Stat) : Stat.zero.add x = x := by
  rw [stat_add_comm]; exact stat_add_zero x

/-- in-place accumulation (`+=`) computes the same block as `+` -/
theorem stat_iadd_eq_add (x y : Stat) : x.iadd y = x.add y := by
  simp only [Stat.add, Stat.iadd]; congr 1 <;> ring

theorem pySum_append_singleton (xs : List Rat) (x : Rat) : pySum (xs ++ [x]) = pySum xs + x := by
  simp [pySum, List.foldl_append]

theorem stat_sum_nil : Stat.sum [] = Stat.zero := by
  simp only [Stat.sum, Stat.zero, pySum, List.foldl, List.map]; congr 1 <;> norm_num

theorem stat_sum_snoc (ys : List Stat) (x : Stat) : Stat.sum (ys ++ [x]) = (Stat.sum ys).add x := by
  simp only [Stat.sum, Stat.add, List.map_append, List.map_cons, List.map_nil,
    pySum_append_singleton, List.foldl_append, List.foldl_cons, List.foldl_nil]
  congr 1 <;> ring

/-- summing a list agrees with repeated `+` starting from the empty block -/
theorem stat_sum_eq_foldl (xs : List Stat) : Stat.sum xs = xs.foldl Stat.add Stat.zero := by
  induction xs using List.reverseRecOn with
  | nil => simpa using stat_sum_nil
  | append_singleton ys x ih => rw [stat_sum_snoc, ih]; simp [List.foldl_append]

/-- summing a list agrees with repeated in-place accumulation -/
theorem stat_sum_eq_foldl_iadd (xs : List Stat) : Stat.sum xs = xs.foldl Stat.iadd Stat.zero := by
  rw [stat_sum_eq_foldl]; congr 1; funext a b; exact (stat_iadd_eq_add a b).symm

/-- the sum of a list does not depend on the order of the list -/
theorem stat_sum_perm {xs ys : List Stat} (h : xs.Perm ys) : Stat.sum xs = Stat.sum ys := by
  rw [stat_sum_eq_foldl, stat_sum_eq_foldl]
  apply List.Perm.foldl_eq' h
  intro x _ y _ z
  rw [stat_add_assoc, stat_add_assoc, stat_add_comm x y]

theorem stat_sum_append (xs ys : List Stat) : Stat.sum (xs ++ ys) = (Stat.sum xs).add (Stat.sum ys) := by
  induction ys using List.reverseRecOn with
  | nil => rw [stat_sum_nil, stat_add_zero, List.append_nil]
  | append_singleton zs z ih => rw [← List.append_assoc, stat_sum_snoc, ih, stat_sum_snoc, stat_add_assoc]

/-- the sum of a list read backwards is the same block -/
theorem stat_sum_reverse (xs : List Stat) : Stat.sum xs.reverse = Stat.sum xs :=
  stat_sum_perm (List.reverse_perm xs)

/-- a one-element sum is that element -/
theorem stat_sum_singleton (x : Stat) : Stat.sum [x] = x := by
  have := stat_sum_snoc [] x
  rw [List.nil_append, stat_sum_nil, stat_zero_add] at this
  exact this

/-- a new first element can be added first or last -/
theorem stat_sum_cons (x : Stat) (xs : List Stat) : Stat.sum (x :: xs) = x.add (Stat.sum xs) := by
  have := stat_sum_append [x] xs
  rw [stat_sum_singleton] at this
  exact this

/-- a list of lists can be summed in one pass or group by group -/
theorem stat_sum_flatten (xss : List (List Stat)) :
    Stat.sum xss.flatten = Stat.sum (xss.map Stat.sum) := by
  induction xss with
  | nil => rfl
  | cons xs xss ih => rw [List.flatten_cons, stat_sum_append, ih, List.map_cons, stat_sum_cons]

/-- three blocks can be combined in any nesting and order -/
theorem stat_add_left_comm (x y z : Stat) : x.add (y.add z) = y.add (x.add z) := by
  rw [← stat_add_assoc, stat_add_comm x y, stat_add_assoc]
/-- final damage combines multiplicatively -/
theorem final_damage_multiplicative (a b : Stat) :
    1 + (a.add b).final_damage_multiplier / 100
      = (1 + a.final_damage_multiplier / 100) * (1 + b.final_damage_multiplier / 100) := by
  simp only [Stat.add]; ring

/-- defence ignore combines multiplicatively -/
theorem ignored_defence_multiplicative (a b : Stat) :
    1 - (a.add b).ignored_defence / 100
      = (1 - a.ignored_defence / 100) * (1 - b.ignored_defence / 100) := by
  simp only [Stat.add]; ring

/-- every other declared field combines additively; quantifies over the *generated* field list, so
    a field that `__add__` forgets (it would get the default 0) makes this false -/
theorem other_fields_additive (a b : Stat) :
    ∀ f ∈ Stat.fields, f.1 ≠ "final_damage_multiplier" → f.1 ≠ "ignored_defence" →
      f.2 (a.add b) = f.2 a + f.2 b := by
  simp [Stat.fields, Stat.add]

/-- the two multiplicative fields are declared fields (so the three statements together cover
    every declared field), and the field list has the declared length -/
theorem fields_complete :
    Stat.fields.length = Stat.declaredFieldCount ∧ Stat.fields.map (·.1) = Stat.fieldNames ∧
    "final_damage_multiplier" ∈ Stat.fieldNames ∧ "ignored_defence" ∈ Stat.fieldNames ∧
    Stat.fieldNames.Nodup := by
  decide

/-- stacking n times scales every declared field by n -/
theorem stack_scales (a : Stat) (n : Rat) : ∀ f ∈ Stat.fields, f.2 (a.stack n) = f.2 a * n := by
  simp [Stat.fields, Stat.stack]

/-- `toList` lists exactly the declared fields in order: two blocks with equal field values are equal -/
theorem stat_ext_fields (a b : Stat) (h : ∀ f ∈ Stat.fields, f.2 a = f.2 b) : a = b := by
  cases a; cases b
  simp [Stat.fields] at h
  simp [h]

/-- every declared field takes part in `+=` exactly as in `+` (field-wise form of `stat_iadd_eq_add`) -/
theorem iadd_every_field (a b : Stat) : ∀ f ∈ Stat.fields, f.2 (a.iadd b) = f.2 (a.add b) := by
  intro f _; rw [stat_iadd_eq_add]

/-! ### ActionStat -/

theorem action_add_comm (x y : ActionStat) : x.add y = y.add x := by
  simp only [ActionStat.add]; congr 1 <;> ring
theorem action_add_assoc (x y z : ActionStat) : (x.add y).add z = x.add (y.add z) := by
  simp only [ActionStat.add]; congr 1 <;> ring
theorem action_add_zero (x : ActionStat) : x.add {} = x := by
  cases x; simp only [ActionStat.add]; congr 1 <;> ring
theorem action_iadd_eq_add (x y : ActionStat) : x.iadd y = x.add y := by
  simp only [ActionStat.add, ActionStat.iadd]
theorem action_fields_additive (a b : ActionStat) :
    ∀ f ∈ ActionStat.fields, f.2 (a.add b) = f.2 a + f.2 b := by
  simp [ActionStat.fields, ActionStat.add]
theorem action_fields_complete :
    ActionStat.fields.length = ActionStat.declaredFieldCount ∧ ActionStat.fieldNames.Nodup := by decide

/-! ### LevelStat -/

theorem level_add_comm (x y : LevelStat) : x.add y = y.add x := by
  simp only [LevelStat.add]; congr 1 <;> ring
theorem level_add_assoc (x y z : LevelStat) : (x.add y).add z = x.add (y.add z) := by
  simp only [LevelStat.add]; congr 1 <;> ring
theorem level_add_zero (x : LevelStat) : x.add {} = x := by
  cases x; simp only [LevelStat.add]; congr 1 <;> ring
theorem level_fields_additive (a b : LevelStat) :
    ∀ f ∈ LevelStat.fields, f.2 (a.add b) = f.2 a + f.2 b := by
  simp [LevelStat.fields, LevelStat.add]
theorem level_fields_complete :
    LevelStat.fields.length = LevelStat.declaredFieldCount ∧ LevelStat.fieldNames.Nodup := by decide

/-! ### ExtendedStat -/

theorem ext_add_comm (x y : ExtendedStat) : x.add y = y.add x := by
  simp only [ExtendedStat.add]
  congr 1
  · exact stat_add_comm _ _
  · exact action_add_comm _ _
  · exact level_add_comm _ _
theorem ext_add_assoc (x y z : ExtendedStat) : (x.add y).add z = x.add (y.add z) := by
  simp only [ExtendedStat.add]
  congr 1
  · exact stat_add_assoc _ _ _
  · exact action_add_assoc _ _ _
  · exact level_add_assoc _ _ _
theorem ext_add_zero (x : ExtendedStat) : x.add {} = x := by
  cases x
  simp only [ExtendedStat.add]
  congr 1
  · exact stat_add_zero _
  · exact action_add_zero _
  · exact level_add_zero _
/-- the extended block has exactly the three declared parts and each takes part in `+` -/
theorem ext_parts (a b : ExtendedStat) :
    (a.add b).stat = a.stat.add b.stat ∧ (a.add b).action_stat = a.action_stat.add b.action_stat ∧
    (a.add b).level_stat = a.level_stat.add b.level_stat ∧
    ExtendedStat.fieldNames = ["stat", "action_stat", "level_stat"] ∧
    ExtendedStat.fieldNames.length = ExtendedStat.declaredFieldCount := by
  refine ⟨rfl, rfl, rfl, by decide, by decide⟩

/-! ### non-vacuity -/
example : (({ STR := 1, final_damage_multiplier := 10, ignored_defence := 20 } : Stat).add
    { STR := 2, final_damage_multiplier := -5, ignored_defence := 50 }).ignored_defence = 60 := by
  simp only [Stat.add]; norm_num

end Simaple.Props.C11
