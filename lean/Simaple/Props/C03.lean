/-
C03 — rolling back and continuing equals never having run the discarded part; hash chain.
Model: Simaple/Model/Engine.lean (L5), arbitrary play function, store, checkpoint type, views.
-/
import Simaple.Proofs.Engine

namespace Simaple.Props.C03
open Simaple.Engine

section
variable {σ τ : Type}
variable {P : Action → σ → σ × List Event} {save : σ → τ} {load : τ → σ} {clock : σ → Rat}
variable {view : σ → String → String}
variable (hash : OpLog τ → String) (t0 : τ)

/-- the histories reachable from a fresh engine: replay of a command list -/
def replay (P : Action → σ → σ × List Event) (save : σ → τ) (load : τ → σ) (clock : σ → Rat)
    (view : σ → String → String) (hash : OpLog τ → String) (t0 : τ) (st : σ) (cs : List Command) :
    List (OpLog τ) :=
  cs.foldl (stepL P save load clock view hash t0) [initLog (save st)]

/-- the last checkpoint of a replayed history is the saved form of a store -/
theorem replay_ckpt_real (L : StoreLaws P save load clock view) (st : σ) (cs : List Command) :
    ∃ s, save s = lastCkpt t0 (replay P save load clock view hash t0 st cs) := by
  have := execAll_logs hash t0 L cs _ (initEngine_inv (save := save) t0 st)
  have h := this.2.2.1
  rw [this.1] at h
  exact h

/-- **C03**: any interleaving of `exec` and `rollback` (targets may be operation logs, console logs or the
    initial log) leaves exactly the history of a fresh engine that executed only the surviving commands,
    and the engine is again in the canonical state — so (C01 `nothing_else_matters`,
    `current_views_agree`) every view and every further result agree as well. -/
theorem rollback_replay (L : StoreLaws P save load clock view) (st : σ) (ops : List Op) :
    ∀ (acc : List Command) (e : Engine σ τ), EInv save t0 e →
      e.logs = replay P save load clock view hash t0 st acc →
      (runOps P save load clock view hash t0 e ops).logs
          = replay P save load clock view hash t0 st (surviving acc ops)
        ∧ EInv save t0 (runOps P save load clock view hash t0 e ops) := by
  induction ops with
  | nil => intro acc e h he; exact ⟨he, h⟩
  | cons op ops ih =>
    intro acc e h he
    cases op with
    | exec c =>
      simp only [runOps, surviving]
      apply ih _ _ (exec_inv hash t0 L e c h)
      rw [exec_logs hash t0 L e c h, he]
      simp [replay, List.foldl_append]
    | rollback i =>
      simp only [runOps, surviving]
      have key : e.logs.take (i + 1) = replay P save load clock view hash t0 st (acc.take i) := by
        rw [he]
        have := fold_take P save load clock view hash t0 acc [initLog (save st)] i
        simp only [List.length_singleton] at this
        unfold replay
        rw [← this]; congr 1; omega
      apply ih (acc.take i)
      · apply reload_inv
        simp only [key]
        exact replay_ckpt_real hash t0 L st _
      · exact key

/-- corollary for a fresh engine -/
theorem rollback_replay_fresh (L : StoreLaws P save load clock view) (st : σ) (ops : List Op) :
    (runOps P save load clock view hash t0 (initEngine save st) ops).logs
      = (execAll P save load clock view hash t0 (initEngine save st) (surviving [] ops)).logs := by
  have h := rollback_replay hash t0 L st ops [] (initEngine save st) (initEngine_inv t0 st) rfl
  rw [h.1, (execAll_logs hash t0 L _ _ (initEngine_inv t0 st)).1]
  rfl

/-! ### the hash chain -/

/-- every log's previous-hash is the hash of the log before it; the first has the empty previous-hash -/
def ChainOk (hash : OpLog τ → String) (logs : List (OpLog τ)) : Prop :=
  (∀ l, logs.head? = some l → l.prev = "") ∧
  ∀ i, ∀ a b, logs[i]? = some a → logs[i + 1]? = some b → b.prev = hash a

theorem chainOk_snoc (logs : List (OpLog τ)) (l : OpLog τ) (h : ChainOk hash logs) (hne : logs ≠ [])
    (hl : l.prev = lastHash hash logs) : ChainOk hash (logs ++ [l]) := by
  refine ⟨?_, ?_⟩
  · intro x hx
    cases logs with
    | nil => exact absurd rfl hne
    | cons y ys => simp at hx; subst hx; exact h.1 y rfl
  · intro i a b ha hb
    by_cases hi : i + 1 < logs.length
    · rw [List.getElem?_append_left (by omega)] at ha
      rw [List.getElem?_append_left hi] at hb
      exact h.2 i a b ha hb
    · have hlen : i + 1 = logs.length := by
        have : i + 1 < (logs ++ [l]).length := by
          rcases Nat.lt_or_ge (i + 1) (logs ++ [l]).length with h1 | h1
          · exact h1
          · rw [List.getElem?_eq_none h1] at hb; cases hb
        simp at this; omega
      rw [List.getElem?_append_left (by omega)] at ha
      rw [List.getElem?_append_right (by omega)] at hb
      have : b = l := by
        have : i + 1 - logs.length = 0 := by omega
        simp [this] at hb; exact hb.symm
      subst this
      rw [hl]
      have : logs.getLast? = some a := by
        rw [List.getLast?_eq_getElem?]
        have : logs.length - 1 = i := by omega
        rw [this]; exact ha
      simp [lastHash, this]

/-- in every reachable history the chain is intact -/
theorem chain_ok (st : σ) (cs : List Command) :
    ChainOk hash (replay P save load clock view hash t0 st cs) ∧
    replay P save load clock view hash t0 st cs ≠ [] := by
  induction cs using List.reverseRecOn' with
  | nil =>
    refine ⟨⟨?_, ?_⟩, by simp [replay]⟩
    · intro l hl; simp [replay, initLog] at hl; rw [← hl]
    · intro i a b ha hb; simp [replay] at hb
  | snoc cs c ih =>
    have : replay P save load clock view hash t0 st (cs ++ [c])
        = stepL P save load clock view hash t0 (replay P save load clock view hash t0 st cs) c := by
      simp [replay, List.foldl_append]
    obtain ⟨l, hl1, _, hl3⟩ := stepL_append P save load clock view hash t0
      (replay P save load clock view hash t0 st cs) c
    rw [this, hl1]
    exact ⟨chainOk_snoc hash _ l ih.1 ih.2 hl3, by simp⟩
where
  /-- reverse induction on lists, core Lean only -/
  List.reverseRecOn' {α : Type} {motive : List α → Prop} (l : List α) (nil : motive [])
      (snoc : ∀ l a, motive l → motive (l ++ [a])) : motive l := by
    have : ∀ n (l : List α), l.length = n → motive l := by
      intro n
      induction n with
      | zero => intro l hl; have : l = [] := List.length_eq_zero_iff.mp hl; subst this; exact nil
      | succ n ih =>
        intro l hl
        have hne : l ≠ [] := by intro h; subst h; simp at hl
        rw [← List.dropLast_concat_getLast hne]
        exact snoc _ _ (ih _ (by simp [hl]))
    exact this _ l rfl

/-- the hash is a function of the log alone: equal logs (equal previous-hash and equal dumped content)
    have equal hashes, hence equal histories hash equally position by position -/
theorem equal_histories_equal_hashes (A B : List (OpLog τ)) (h : A = B) : A.map hash = B.map hash := by
  rw [h]

/-- the real hash has the shape `H previous_hash content`; if `H` is injective in both arguments and
    never yields the empty string (sha1 assumed collision free), all hashes of a chain are distinct -/
theorem hashes_distinct (H : String → String → String) (content : OpLog τ → String)
    (hH : ∀ p c p' c', H p c = H p' c' → p = p' ∧ c = c') (hne : ∀ p c, H p c ≠ "")
    (hhash : ∀ l, hash l = H l.prev (content l))
    (logs : List (OpLog τ)) (hc : ChainOk hash logs) :
    ∀ d i, ∀ a b, logs[i]? = some a → logs[i + d + 1]? = some b → hash a ≠ hash b := by
  intro d i
  induction i with
  | zero =>
    intro a b ha hb heq
    rw [hhash a, hhash b] at heq
    have hp := (hH _ _ _ _ heq).1
    have ha0 : a.prev = "" := hc.1 a (by rw [List.head?_eq_getElem?]; exact ha)
    -- b has a predecessor c with b.prev = hash c ≠ ""
    have : d + 1 < logs.length := by
      rcases Nat.lt_or_ge (0 + d + 1) logs.length with h1 | h1
      · omega
      · rw [List.getElem?_eq_none h1] at hb; cases hb
    obtain ⟨c, hcget⟩ : ∃ c, logs[d]? = some c := ⟨logs[d], by simp [List.getElem?_eq_getElem (by omega : d < logs.length)]⟩
    have hbp := hc.2 d c b hcget (by simpa using hb)
    rw [hbp, hhash c] at hp
    rw [ha0] at hp
    exact hne _ _ hp.symm
  | succ i ih =>
    intro a b ha hb heq
    rw [hhash a, hhash b] at heq
    have hp := (hH _ _ _ _ heq).1
    have hlen : i + 1 + d + 1 < logs.length := by
      rcases Nat.lt_or_ge (i + 1 + d + 1) logs.length with h1 | h1
      · exact h1
      · rw [List.getElem?_eq_none h1] at hb; cases hb
    obtain ⟨a', ha'⟩ : ∃ c, logs[i]? = some c := ⟨logs[i], by simp [List.getElem?_eq_getElem (by omega : i < logs.length)]⟩
    obtain ⟨b', hb'⟩ : ∃ c, logs[i + d + 1]? = some c :=
      ⟨logs[i + d + 1], by simp [List.getElem?_eq_getElem (by omega : i + d + 1 < logs.length)]⟩
    have e1 := hc.2 i a' a ha' ha
    have e2 := hc.2 (i + d + 1) b' b hb' (by rw [show i + d + 1 + 1 = i + 1 + d + 1 by omega]; exact hb)
    rw [e1, e2] at hp
    exact ih a' b' ha' hb' hp

/-- facts about where a given hash can occur as a previous-hash in a chain -/
theorem prev_eq_hash_unique (H : String → String → String) (content : OpLog τ → String)
    (hH : ∀ p c p' c', H p c = H p' c' → p = p' ∧ c = c') (hne : ∀ p c, H p c ≠ "")
    (hhash : ∀ l, hash l = H l.prev (content l))
    (logs : List (OpLog τ)) (hc : ChainOk hash logs) (i j : Nat) (a b : OpLog τ)
    (ha : logs[i]? = some a) (hb : logs[j]? = some b) (hp : b.prev = hash a) : j = i + 1 := by
  cases j with
  | zero =>
    have : b.prev = "" := hc.1 b (by rw [List.head?_eq_getElem?]; exact hb)
    rw [this, hhash a] at hp
    exact absurd hp.symm (hne _ _)
  | succ j =>
    have hj : j + 1 < logs.length := by
      rcases Nat.lt_or_ge (j + 1) logs.length with h1 | h1
      · exact h1
      · rw [List.getElem?_eq_none h1] at hb; cases hb
    obtain ⟨c, hcget⟩ : ∃ c, logs[j]? = some c := ⟨logs[j], by simp [List.getElem?_eq_getElem (by omega : j < logs.length)]⟩
    have e := hc.2 j c b hcget hb
    rw [e] at hp
    -- hash c = hash a with c at j, a at i: distinctness forces j = i
    rcases Nat.lt_trichotomy i j with hlt | heq | hgt
    · obtain ⟨d, hd⟩ : ∃ d, j = i + d + 1 := ⟨j - i - 1, by omega⟩
      subst hd
      exact absurd hp.symm (hashes_distinct hash H content hH hne hhash logs hc d i a c ha hcget)
    · omega
    · obtain ⟨d, hd⟩ : ∃ d, i = j + d + 1 := ⟨i - j - 1, by omega⟩
      subst hd
      exact absurd hp (hashes_distinct hash H content hH hne hhash logs hc d j c a hcget ha)

/-- **a hash locates its log**: in a chain (with a collision-free `H`) `get_hash_index (hash logs[i]) = i` -/
theorem hash_locates (H : String → String → String) (content : OpLog τ → String)
    (hH : ∀ p c p' c', H p c = H p' c' → p = p' ∧ c = c') (hne : ∀ p c, H p c ≠ "")
    (hhash : ∀ l, hash l = H l.prev (content l))
    (logs : List (OpLog τ)) (hc : ChainOk hash logs) (i : Nat) (a : OpLog τ) (ha : logs[i]? = some a) :
    getHashIndex hash logs (hash a) = some (i : Int) := by
  have hi : i < logs.length := by
    rcases Nat.lt_or_ge i logs.length with h1 | h1
    · exact h1
    · rw [List.getElem?_eq_none h1] at ha; cases ha
  unfold getHashIndex
  cases hf : logs.findIdx? (fun l => l.prev == hash a) with
  | some idx =>
    rw [List.findIdx?_eq_some_iff_getElem] at hf
    obtain ⟨hlt, hp, _⟩ := hf
    have := prev_eq_hash_unique hash H content hH hne hhash logs hc i idx a logs[idx] ha
      (by simp [List.getElem?_eq_getElem hlt]) (by simpa using hp)
    simp [this]
  | none =>
    rw [List.findIdx?_eq_none_iff] at hf
    -- no log has `hash a` as previous-hash, so `a` is the last log
    have hlast : i + 1 = logs.length := by
      rcases Nat.lt_or_ge (i + 1) logs.length with h1 | h1
      · have hb : logs[i + 1]? = some logs[i + 1] := by simp [List.getElem?_eq_getElem h1]
        have e := hc.2 i a logs[i + 1] ha hb
        have := hf logs[i + 1] (List.getElem_mem h1)
        simp [e] at this
      · omega
    have hl : logs.getLast? = some a := by
      rw [List.getLast?_eq_getElem?]
      have : logs.length - 1 = i := by omega
      rw [this]; exact ha
    simp only [hl, BEq.rfl, if_true]
    congr 1; omega

/-- conversely, whatever non-negative index `get_hash_index` answers holds a log with that hash
    (no assumption on `H`) -/
theorem hash_index_sound (logs : List (OpLog τ)) (hc : ChainOk hash logs) (h : String) (i : Nat)
    (hg : getHashIndex hash logs h = some (i : Int)) : ∃ a, logs[i]? = some a ∧ hash a = h := by
  unfold getHashIndex at hg
  cases hf : logs.findIdx? (fun l => l.prev == h) with
  | some idx =>
    rw [hf] at hg
    simp only [Option.some.injEq] at hg
    have hidx : idx = i + 1 := by omega
    subst hidx
    rw [List.findIdx?_eq_some_iff_getElem] at hf
    obtain ⟨hlt, hp, _⟩ := hf
    have hi : i < logs.length := by omega
    refine ⟨logs[i], by simp [List.getElem?_eq_getElem hi], ?_⟩
    have e := hc.2 i logs[i] logs[i + 1] (by simp [List.getElem?_eq_getElem hi]) (by simp [List.getElem?_eq_getElem hlt])
    rw [← e]; simpa using hp
  | none =>
    rw [hf] at hg
    cases hl : logs.getLast? with
    | none => simp [hl] at hg
    | some l =>
      simp only [hl] at hg
      split at hg
      · rename_i heq
        simp only [Option.some.injEq] at hg
        refine ⟨l, ?_, by simpa using heq⟩
        rw [List.getLast?_eq_getElem?] at hl
        have : logs.length - 1 = i := by omega
        rw [← this]; exact hl
      · cases hg

end

end Simaple.Props.C03
