/-
C06, part: the clock theorems apply to the END-TO-END job model (Simaple/Model/JobRunner.lean).  `hRouter` of
`Simaple.Props.C06.play_clock` is DERIVED for the concrete total router `routeT` of a job from
`Simaple.Props.C06_Router.router_clock_only_timer` (dispatcher frame theorem of C08) under the static condition
`noClockBind` (no installed component is bound to `global.time`; the driver evaluates it on every job
description it runs and the harness requires it to be true).
-/
import Simaple.Props.C06
import Simaple.Props.C06_Router
import Simaple.Proofs.JobRunner

namespace Simaple.Props.C06_Job
open Simaple.Engine Simaple.Dispatch Simaple.Router Simaple.JobRunner

/-- **`hRouter` for the concrete job**: one call of the total router — error cases included — advances the
    clock by exactly the elapse time of its action -/
theorem job_router_clock (ds : List (CompDisp Lean.Json)) (hb : noClockBind ds = true) (a : Action) (s : Store Lean.Json) :
    clock (routeT ds a s).1 = clock s + elapseOf a := by
  cases h : route clockCodec ds a s with
  | none => rw [routeT_of_none ds a s h]; exact timer_clock a s
  | some r =>
    rw [routeT_of_some ds a s r h]
    exact Simaple.Props.C06_Router.router_clock_only_timer clockCodec ds (noClockBind_spec ds hb) a s r h

/-- the total router is `route` wherever `route` answers (no Python exception) -/
theorem job_router_agrees (ds : List (CompDisp Lean.Json)) (a : Action) (s : Store Lean.Json) (r : Store Lean.Json × List Ev)
    (h : route clockCodec ds a s = some r) : routeT ds a s = (r.1, r.2.map toEvent) :=
  routeT_of_some ds a s r h

/-- after every play the pending callbacks are relays (derived from events, never `*.elapse`) -/
theorem pendOk_after_play (ds : List (CompDisp Lean.Json)) (s : Store Lean.Json) (a : Action) :
    pendOk (jobPlay ds s a).1 = true := by
  simp only [pendOk, getPending_jobPlay, List.all_eq_true, relayOnly, Bool.and_eq_true, decide_eq_true_eq]
  exact Simaple.Props.C06.callbacks_no_elapse _

/-- ... so the guard of `jobPlayG` never fires along a run that starts from a store passing it -/
theorem pendOk_invariant (ds : List (CompDisp Lean.Json)) (a : Action) (s : Store Lean.Json) (h : pendOk s = true) :
    pendOk (jobPlayG ds a s).1 = true := by
  rw [jobPlayG_of_pendOk ds a s h]
  exact pendOk_after_play ds s a

/-- a store that never played (no `.previous_callbacks` cell) passes the guard -/
theorem pendOk_fresh (s : Store Lean.Json) (h : s.get pendingAddr = none) : pendOk s = true := by
  simp [pendOk, getPending, h]

/-- **`play_clock` for the concrete job**: from a store whose pending callbacks are relays, a play advances the
    clock by exactly the elapse time of its own action (`Simaple.Props.C06.play_clock` instantiated; its
    hypothesis on the pending callbacks is met by reading them through the guard) -/
theorem job_play_clock (ds : List (CompDisp Lean.Json)) (hb : noClockBind ds = true) (s : Store Lean.Json)
    (hs : pendOk s = true) (a : Action) : clock (jobPlay ds s a).1 = clock s + elapseOf a := by
  let gp : Store Lean.Json → List (Action × Action) := fun s => if pendOk s then getPending s else []
  have hgp : ∀ s, ∀ p ∈ gp s, elapseOf p.1 = 0 ∧ elapseOf p.2 = 0 := by
    intro s p hp
    by_cases h : pendOk s = true
    · have hp' : p ∈ getPending s := by simpa [gp, h] using hp
      have := (List.all_eq_true.mp h) p hp'
      simpa [relayOnly] using this
    · simp [gp, h] at hp
  have key := Simaple.Props.C06.play_clock (routeT ds) gp setPending clock (job_router_clock ds hb)
    clock_setPending hgp s a
  have : play (routeT ds) gp setPending s a = jobPlay ds s a := by
    simp [play, jobPlay, gp, hs]
  rw [this] at key
  exact key

/-- **`hPlay`, total**: the play function of the engine (guarded, with hash tables) on EVERY store -/
theorem job_playC_clock (keys : List String) (ds : List (CompDisp Lean.Json)) (hb : noClockBind ds = true)
    (a : Action) (s : Store Lean.Json) : clock (jobPlayC keys ds a s).1 = clock s + elapseOf a := by
  rw [jobPlayC_eq]
  by_cases h : pendOk s = true
  · rw [jobPlayG_of_pendOk ds a s h]; exact job_play_clock ds hb s h a
  · simp only [jobPlayG, h]; exact timer_clock a s

/-- **C06 for the concrete job engine**: in every history the engine of a job produces from a store showing
    clock 0, the clock recorded after every action is the clock before plus the elapse time of that action, and
    the clock the engine shows is the sum of all elapse times dispatched so far -/
theorem job_clock_is_sum (keys : List String) (ds : List (CompDisp Lean.Json)) (hb : noClockBind ds = true)
    (st : Store Lean.Json) (hst : clock st = 0) (cs : List Command) :
    let e := execAll (jobPlayC keys ds) id id clock jobView jobHash st (jobInit st) cs
    Simaple.Props.C06.ClockChain 0 ((allPL e.logs).drop 1) ∧
    clock (curStore id st e) = (((allPL e.logs).drop 1).map (fun pl => elapseOf pl.action)).sum :=
  Simaple.Props.C06.clock_is_sum jobHash st (job_playC_clock keys ds hb) st hst cs

/-- per command, for the concrete job engine -/
theorem job_per_command (keys : List String) (ds : List (CompDisp Lean.Json)) (hb : noClockBind ds = true)
    (s : Store Lean.Json) (b : List Event) (c : Command) :
    clock (execOp (jobPlayC keys ds) id clock s b c).2 = clock s +
      (match c.kind with
       | .elapse => c.time
       | .cast => firstDelay (jobPlayC keys ds ⟨c.name, "use", .none⟩ s).2
       | .resolve => firstDelay (b.filter (fun e => e.name == c.name))
       | .use => 0 | .keydownstop => 0 | .console => 0) :=
  Simaple.Props.C06.per_command (job_playC_clock keys ds hb) s b c

/-! non-vacuity: a component bound to its own entities and to dynamics meets `noClockBind`; one bound to
    `global.time` does not -/
example : noClockBind [compDisp ⟨"BuffSkillComponent", "x", .null, [("cooldown", .null), ("lasting", .null)],
    [("dynamics", "global.dynamics")], [("x.use", "use", .null)], ["use"], .null⟩] = true := by decide +kernel
example : noClockBind [compDisp ⟨"BuffSkillComponent", "x", .null, [("cooldown", .null)],
    [("lasting", "global.time")], [], [], .null⟩] = false := by decide +kernel

/-- the hypotheses of `job_clock_is_sum` / `job_play_clock` on a concrete instance: a one-component job on a store
    that never played -/
example :
    let ds := [compDisp ⟨"BuffSkillComponent", "x", .null, [("cooldown", .null), ("lasting", .null)],
      [("dynamics", "global.dynamics")], [("x.use", "use", .null)], ["use"], .null⟩]
    let st : Store Lean.Json := fun _ => none
    noClockBind ds = true ∧ clock st = 0 ∧ pendOk st = true := by decide +kernel

end Simaple.Props.C06_Job
