/-
C10 (part `Common`) — status views never fail and never advertise a skill that would be rejected.
Per class of `Simaple/Model/ComponentCommon.lean`: the views are total functions of the state, the
validity view never reports a negative remaining time, and whenever it reports the skill usable, `use`
on that very state is not rejected (for the classes whose `use` can raise the ValueError of
`Periodic.set_time_left`: it does not for the parameters shipped data has — `X_use_defined`).
-/
import Simaple.Proofs.ComponentCommon

namespace Simaple.Props.C10_Common
open Simaple.Comp Simaple.Comp.Common Simaple.Entity

/-! ### SynergySkillComponent -/
theorem synergy_valid_implies_accepted (p : SynergySkill.P) (s : SynergySkill.S) (h : (SynergySkill.validity p s).valid = true) :
    rejectedIn (SynergySkill.use p s).2 = false := by
  have hv := invalidate_valid _ _ h
  simp only [cooldownValidity] at hv
  simp [SynergySkill.use, hv, rejectedIn, REv.isReject]
theorem synergy_validity_nonneg (p : SynergySkill.P) (s : SynergySkill.S) : 0 ≤ (SynergySkill.validity p s).timeLeft := by
  simp only [SynergySkill.validity, invalidate_timeLeft, cooldownValidity]; exact cooldown_min_nonneg _

/-! ### HitLimitedPeriodicDamageComponent -/
theorem hitLimited_valid_implies_accepted (p : HitLimited.P) (s : HitLimited.S) (h : (HitLimited.validity p s).valid = true) :
    ∀ r, HitLimited.use p s = .ok r → rejectedIn r.2 = false := by
  simp only [HitLimited.validity, cooldownValidity] at h
  intro r hr
  simp only [HitLimited.use, h, Bool.not_true, Bool.false_eq_true, if_false] at hr
  cases hs : s.periodic.setTimeLeft p.lastingDuration with
  | error e => simp [hs] at hr
  | ok per => simp [hs] at hr; rw [← hr]; simp [rejectedIn, REv.isReject]
theorem hitLimited_use_defined (p : HitLimited.P) (s : HitLimited.S) (hl : 0 < p.lastingDuration)
    (hi : ∀ c, s.periodic.initialCounter = some c → 0 < c) : ∃ r, HitLimited.use p s = .ok r := by
  unfold HitLimited.use
  split
  · exact ⟨_, rfl⟩
  · obtain ⟨y, hy⟩ := setTimeLeft_defined s.periodic _ hl hi
    rw [hy]; exact ⟨_, rfl⟩
theorem hitLimited_validity_nonneg (p : HitLimited.P) (s : HitLimited.S) : 0 ≤ (HitLimited.validity p s).timeLeft := by
  simp only [HitLimited.validity, cooldownValidity]; exact cooldown_min_nonneg _

/-! ### PeriodicDamageConfiguratedHexaSkillComponent -/
theorem periodicHexa_valid_implies_accepted (p : PeriodicHexa.P) (s : PeriodicHexa.S)
    (h : (PeriodicHexa.validity p s).valid = true) : ∀ r, PeriodicHexa.use p s = .ok r → rejectedIn r.2 = false := by
  have hv := invalidate_valid _ _ h
  simp only [cooldownValidity] at hv
  intro r hr
  simp only [PeriodicHexa.use, hv, Bool.not_true, Bool.false_eq_true, if_false] at hr
  cases hs : s.periodic.setTimeLeft p.lastingDuration with
  | error e => simp [hs] at hr
  | ok per =>
    simp [hs] at hr; rw [← hr]
    simp [rejectedIn_append, rejectedIn_dealtAll]
    simp [rejectedIn, REv.isReject]
theorem periodicHexa_use_defined (p : PeriodicHexa.P) (s : PeriodicHexa.S) (hl : 0 < p.lastingDuration)
    (hi : ∀ c, s.periodic.initialCounter = some c → 0 < c) : ∃ r, PeriodicHexa.use p s = .ok r := by
  unfold PeriodicHexa.use
  split
  · exact ⟨_, rfl⟩
  · obtain ⟨y, hy⟩ := setTimeLeft_defined s.periodic _ hl hi
    rw [hy]; exact ⟨_, rfl⟩
theorem periodicHexa_validity_nonneg (p : PeriodicHexa.P) (s : PeriodicHexa.S) : 0 ≤ (PeriodicHexa.validity p s).timeLeft := by
  simp only [PeriodicHexa.validity, invalidate_timeLeft, cooldownValidity]; exact cooldown_min_nonneg _

/-! ### TriplePeriodicDamageHexaComponent -/
theorem tripleHexa_valid_implies_accepted (p : TripleHexa.P) (s : TripleHexa.S)
    (h : (TripleHexa.validity p s).valid = true) : ∀ r, TripleHexa.use p s = .ok r → rejectedIn r.2 = false := by
  have hv := invalidate_valid _ _ h
  simp only [cooldownValidity] at hv
  intro r hr
  simp only [TripleHexa.use, hv, Bool.not_true, Bool.false_eq_true, if_false] at hr
  cases h1 : s.p1.setTimeLeft p.lastingDuration with
  | error e => simp [h1] at hr
  | ok q1 =>
    cases h2 : s.p2.setTimeLeft p.lastingDuration with
    | error e => simp [h1, h2] at hr
    | ok q2 =>
      cases h3 : s.p3.setTimeLeft p.lastingDuration with
      | error e => simp [h1, h2, h3] at hr
      | ok q3 =>
        simp [h1, h2, h3] at hr; rw [← hr]
        simp [rejectedIn_append, rejectedIn_dealtAll]
        simp [rejectedIn, REv.isReject]
theorem tripleHexa_use_defined (p : TripleHexa.P) (s : TripleHexa.S) (hl : 0 < p.lastingDuration)
    (h1 : ∀ c, s.p1.initialCounter = some c → 0 < c) (h2 : ∀ c, s.p2.initialCounter = some c → 0 < c)
    (h3 : ∀ c, s.p3.initialCounter = some c → 0 < c) : ∃ r, TripleHexa.use p s = .ok r := by
  unfold TripleHexa.use
  split
  · exact ⟨_, rfl⟩
  · obtain ⟨y1, e1⟩ := setTimeLeft_defined s.p1 _ hl h1
    obtain ⟨y2, e2⟩ := setTimeLeft_defined s.p2 _ hl h2
    obtain ⟨y3, e3⟩ := setTimeLeft_defined s.p3 _ hl h3
    rw [e1, e2, e3]; exact ⟨_, rfl⟩
theorem tripleHexa_validity_nonneg (p : TripleHexa.P) (s : TripleHexa.S) : 0 ≤ (TripleHexa.validity p s).timeLeft := by
  simp only [TripleHexa.validity, invalidate_timeLeft, cooldownValidity]; exact cooldown_min_nonneg _

/-! ### MultipleHitHexaSkillComponent -/
theorem multipleHit_valid_implies_accepted (p : MultipleHit.P) (s : MultipleHit.S) (h : (MultipleHit.validity p s).valid = true) :
    rejectedIn (MultipleHit.use p s).2 = false := by
  have hv := invalidate_valid _ _ h
  simp only [cooldownValidity] at hv
  simp only [MultipleHit.use, hv, Bool.not_true, Bool.false_eq_true, if_false]
  simp [rejectedIn_append, rejectedIn_dealtAll]
  simp [rejectedIn, REv.isReject]
theorem multipleHit_validity_nonneg (p : MultipleHit.P) (s : MultipleHit.S) : 0 ≤ (MultipleHit.validity p s).timeLeft := by
  simp only [MultipleHit.validity, invalidate_timeLeft, cooldownValidity]; exact cooldown_min_nonneg _

/-! ### ConsumableBuffSkillComponent -/
theorem consumableBuff_valid_implies_accepted (p : ConsumableBuff.P) (s : ConsumableBuff.S)
    (h : (ConsumableBuff.validity p s).valid = true) : rejectedIn (ConsumableBuff.use p s).2 = false := by
  simp only [ConsumableBuff.validity] at h
  simp [ConsumableBuff.use, h, rejectedIn, REv.isReject]
theorem consumableBuff_validity_nonneg (p : ConsumableBuff.P) (s : ConsumableBuff.S) :
    0 ≤ (ConsumableBuff.validity p s).timeLeft := by
  simp only [ConsumableBuff.validity]; omega
/-- the stack shown is the stack `use` tests: the skill is listed valid exactly when a stack is left -/
theorem consumableBuff_valid_iff_stack (p : ConsumableBuff.P) (s : ConsumableBuff.S) :
    (ConsumableBuff.validity p s).valid = true ↔ ∃ k, (ConsumableBuff.validity p s).stack = some k ∧ 0 < k := by
  simp [ConsumableBuff.validity, Consumable.available]

/-! ### StackableBuffSkillComponent — the early stack change (F8d) does not touch what `validity` reads -/
theorem stackableBuff_valid_implies_accepted (p : StackableBuff.P) (s : StackableBuff.S)
    (h : (StackableBuff.validity p s).valid = true) : rejectedIn (StackableBuff.use p s).2 = false := by
  have hv := invalidate_valid _ _ h
  simp only [cooldownValidity] at hv
  have hb : (StackableBuff.bumped s).cooldown = s.cooldown := rfl
  simp [StackableBuff.use, hb, hv, rejectedIn, REv.isReject]
theorem stackableBuff_validity_nonneg (p : StackableBuff.P) (s : StackableBuff.S) :
    0 ≤ (StackableBuff.validity p s).timeLeft := by
  simp only [StackableBuff.validity, invalidate_timeLeft, cooldownValidity]; exact cooldown_min_nonneg _
/-- the `running` view always carries a stack, and shows 0 stacks when the buff is over -/
theorem stackableBuff_running_stack (s : StackableBuff.S) :
    ∃ k, (StackableBuff.running s).stack = some k ∧ (StackableBuff.buffOn s = false → k = 0) := by
  refine ⟨_, rfl, ?_⟩
  intro h
  simp only [StackableBuff.buffOn, Lasting.enabled, decide_eq_false_iff_not] at h
  simp [show ¬ s.lasting.timeLeft > 0 from h]

/-! ### TemporalEnhancingAttackSkill -/
theorem temporal_valid_implies_accepted (p : TemporalEnhancing.P) (s : TemporalEnhancing.S)
    (h : (TemporalEnhancing.validity p s).valid = true) : rejectedIn (TemporalEnhancing.use p s).2 = false := by
  have hv := invalidate_valid _ _ h
  simp only [cooldownValidity] at hv
  simp only [TemporalEnhancing.use, hv, Bool.not_true, Bool.false_eq_true, if_false]
  split
  · simp [rejectedIn_append, rejectedIn_replicate_dealt]
    simp [rejectedIn, REv.isReject]
  · simp [rejectedIn, REv.isReject]
theorem temporal_validity_nonneg (p : TemporalEnhancing.P) (s : TemporalEnhancing.S) :
    0 ≤ (TemporalEnhancing.validity p s).timeLeft := by
  simp only [TemporalEnhancing.validity, invalidate_timeLeft, cooldownValidity]; exact cooldown_min_nonneg _

/-! ### PeriodicWithFinishSkillComponent -/
theorem periodicWithFinish_valid_implies_accepted (p : PeriodicWithFinish.P) (s : PeriodicWithFinish.S)
    (h : (PeriodicWithFinish.validity p s).valid = true) :
    ∀ r, PeriodicWithFinish.use p s = .ok r → rejectedIn r.2 = false := by
  simp only [PeriodicWithFinish.validity, cooldownValidity] at h
  intro r hr
  simp only [PeriodicWithFinish.use, h, Bool.not_true, Bool.false_eq_true, if_false] at hr
  cases hs : s.periodic.setTimeLeft p.lastingDuration with
  | error e => simp [hs] at hr
  | ok per => simp [hs] at hr; rw [← hr]; simp [rejectedIn, REv.isReject]
theorem periodicWithFinish_use_defined (p : PeriodicWithFinish.P) (s : PeriodicWithFinish.S) (hl : 0 < p.lastingDuration)
    (hi : ∀ c, s.periodic.initialCounter = some c → 0 < c) : ∃ r, PeriodicWithFinish.use p s = .ok r := by
  unfold PeriodicWithFinish.use
  split
  · exact ⟨_, rfl⟩
  · obtain ⟨y, hy⟩ := setTimeLeft_defined s.periodic _ hl hi
    rw [hy]; exact ⟨_, rfl⟩
theorem periodicWithFinish_validity_nonneg (p : PeriodicWithFinish.P) (s : PeriodicWithFinish.S) :
    0 ≤ (PeriodicWithFinish.validity p s).timeLeft := by
  simp only [PeriodicWithFinish.validity, cooldownValidity]; exact cooldown_min_nonneg _

/-! ### AlwaysEnabledComponent: constant views, a well-formed (non-negative) running entry -/
theorem alwaysEnabled_views :
    AlwaysEnabled.buffIsSome = true ∧ 0 ≤ AlwaysEnabled.running.timeLeft ∧
    AlwaysEnabled.running.timeLeft = AlwaysEnabled.running.lastingDuration := by decide

/-! non-vacuity: ready skills are listed valid -/
example : (SynergySkill.validity ⟨ms 1000, ms 500, 0, 1, 1, false⟩ ⟨⟨0⟩, ⟨0, 0⟩⟩).valid = true := by decide
example : (ConsumableBuff.validity ⟨ms 1000, 0, ms 1000⟩ ⟨⟨2, 1, ms 500, ms 100⟩, ⟨0, 0⟩⟩).valid = true := by decide
example : (HitLimited.validity ⟨ms 1000, 0, 1, 1, ms 500, 3⟩ ⟨⟨0⟩, { interval := ms 100 }⟩).valid = true := by decide

end Simaple.Props.C10_Common
