/-
C10, part `Mech` — status views never advertise a skill that would be rejected, for the job-specific component
classes of the shipped jobs mechanic / adele (Simaple/Model/ComponentMech.lean).  The views are total
functions of the state; per class with a `validity` view: it never reports a negative remaining time, and
whenever it reports the skill usable, `use` on that very state is not rejected (for reducers that can raise:
no successful answer contains a rejection).  The statements hold for EVERY state and parameter block.
AdeleEtherComponent, AdeleRestoreBuffComponent and RobotMasteryComponent have no `validity` view.
-/
import Simaple.Proofs.ComponentMech

namespace Simaple.Props.C10_Mech
open Simaple.Comp Simaple.Comp.Mech Simaple.Entity

/-! ### RobotSetupBuff -/
theorem robotSetupBuff_valid_implies_accepted (p : RobotSetupBuff.P) (s : RobotSetupBuff.S)
    (h : (RobotSetupBuff.validity p s).valid = true) : rejectedIn (RobotSetupBuff.use p s).2 = false := by
  simp only [RobotSetupBuff.validity, cooldownValidity] at h
  simp [RobotSetupBuff.use, h, rejectedIn, REv.isReject]
theorem robotSetupBuff_validity_nonneg (p : RobotSetupBuff.P) (s : RobotSetupBuff.S) :
    0 ≤ (RobotSetupBuff.validity p s).timeLeft := cooldown_min_nonneg _

/-! ### RobotSummonSkill -/
theorem robotSummon_valid_implies_accepted (p : RobotSummonSkill.P) (s : RobotSummonSkill.S)
    (h : (RobotSummonSkill.validity p s).valid = true) :
    ∀ r, RobotSummonSkill.use p s = .ok r → rejectedIn r.2 = false := by
  simp only [RobotSummonSkill.validity, cooldownValidity] at h
  intro r hr
  simp only [RobotSummonSkill.use, h, Bool.not_true, Bool.false_eq_true, if_false] at hr
  cases hs : s.periodic.setTimeLeft p.lastingEff with
  | error e => simp [hs] at hr
  | ok per => simp [hs] at hr; rw [← hr]; simp [rejectedIn, REv.isReject]
/-- the only exception `use` can raise is the ValueError of `Periodic.set_time_left`; it cannot for a positive
    duration and a positive (or absent) initial counter — which the shipped data satisfies -/
theorem robotSummon_use_defined (p : RobotSummonSkill.P) (s : RobotSummonSkill.S) (hl : 0 < p.lastingEff)
    (hi : ∀ c, s.periodic.initialCounter = some c → 0 < c) : ∃ r, RobotSummonSkill.use p s = .ok r := by
  unfold RobotSummonSkill.use
  split
  · exact ⟨_, rfl⟩
  · unfold Periodic.setTimeLeft
    have : ¬ p.lastingEff ≤ 0 := by omega
    simp only [this, if_false]
    cases hc : s.periodic.initialCounter with
    | none => exact ⟨_, rfl⟩
    | some c =>
      have := hi c hc
      have h2 : ¬ c ≤ 0 := by omega
      simp only [h2, if_false]; exact ⟨_, rfl⟩
theorem robotSummon_validity_nonneg (p : RobotSummonSkill.P) (s : RobotSummonSkill.S) :
    0 ≤ (RobotSummonSkill.validity p s).timeLeft := cooldown_min_nonneg _

/-! ### HommingMissile -/
theorem hommingMissile_valid_implies_accepted (p : HommingMissile.P) (s : HommingMissile.S)
    (h : (HommingMissile.validity p s).valid = true) :
    ∀ r, HommingMissile.use p s = .ok r → rejectedIn r.2 = false := by
  simp only [HommingMissile.validity, cooldownValidity] at h
  intro r hr
  simp only [HommingMissile.use, h, Bool.not_true, Bool.false_eq_true, if_false] at hr
  cases hs : s.periodic.setTimeLeft p.lastingDuration with
  | error e => simp [hs] at hr
  | ok per => simp [hs] at hr; rw [← hr]; simp [rejectedIn, REv.isReject]
theorem hommingMissile_validity_nonneg (p : HommingMissile.P) (s : HommingMissile.S) :
    0 ≤ (HommingMissile.validity p s).timeLeft := cooldown_min_nonneg _

/-! ### FullMetalBarrageComponent — valid requires the key-down not to be running (the F14 repair) -/
theorem fullMetalBarrage_valid_implies_accepted (p : FullMetalBarrage.P) (s : FullMetalBarrage.S)
    (h : (FullMetalBarrage.validity p s).valid = true) : rejectedIn (FullMetalBarrage.use p s).2 = false := by
  simp only [FullMetalBarrage.validity, KeydownSkill.validity, Bool.and_eq_true, Bool.not_eq_true'] at h
  simp [FullMetalBarrage.use, KeydownSkill.use, h.1, h.2, rejectedIn, REv.isReject]
theorem fullMetalBarrage_validity_nonneg (p : FullMetalBarrage.P) (s : FullMetalBarrage.S) :
    0 ≤ (FullMetalBarrage.validity p s).timeLeft := cooldown_min_nonneg _

/-! ### MultipleOptionComponent -/
theorem multipleOption_valid_implies_accepted (p : MultipleOption.P) (s : MultipleOption.S)
    (h : (MultipleOption.validity p s).valid = true) :
    ∀ r, MultipleOption.use p s = .ok r → rejectedIn r.2 = false := by
  simp only [MultipleOption.validity, cooldownValidity] at h
  intro r hr
  simp only [MultipleOption.use, h, Bool.not_true, Bool.false_eq_true, if_false] at hr
  cases hs : s.periodic.setTimeLeft p.lastingDuration with
  | error e => simp [hs] at hr
  | ok per => simp [hs] at hr; rw [← hr]; simp [rejectedIn, REv.isReject]
theorem multipleOption_validity_nonneg (p : MultipleOption.P) (s : MultipleOption.S) :
    0 ≤ (MultipleOption.validity p s).timeLeft := cooldown_min_nonneg _

/-! ### MecaCarrier -/
theorem mecaCarrier_valid_implies_accepted (p : MecaCarrier.P) (s : MecaCarrier.S)
    (h : (MecaCarrier.validity p s).valid = true) : rejectedIn (MecaCarrier.use p s).2 = false := by
  simp only [MecaCarrier.validity, cooldownValidity] at h
  simp [MecaCarrier.use, h, rejectedIn, REv.isReject]
theorem mecaCarrier_validity_nonneg (p : MecaCarrier.P) (s : MecaCarrier.S) :
    0 ≤ (MecaCarrier.validity p s).timeLeft := cooldown_min_nonneg _

/-! ### PenalizedBuffSkill -/
theorem penalizedBuff_valid_implies_accepted (p : PenalizedBuff.P) (s : PenalizedBuff.S)
    (h : (PenalizedBuff.validity p s).valid = true) : rejectedIn (PenalizedBuff.use p s).2 = false := by
  simp only [PenalizedBuff.validity, cooldownValidity] at h
  simp [PenalizedBuff.use, h, rejectedIn, REv.isReject]
theorem penalizedBuff_validity_nonneg (p : PenalizedBuff.P) (s : PenalizedBuff.S) :
    0 ≤ (PenalizedBuff.validity p s).timeLeft := cooldown_min_nonneg _
/-- the `buff` view shows the advantage exactly while the buff lasts, and never both blocks -/
theorem penalizedBuff_buff_spec (s : PenalizedBuff.S) :
    (PenalizedBuff.buff s = some .advantage ↔ s.lasting.enabled = true) ∧
    (PenalizedBuff.buff s = some .disadvantage ↔ (s.lasting.enabled = false ∧ s.cooldown.available = false)) := by
  unfold PenalizedBuff.buff
  cases h1 : s.lasting.enabled <;> cases h2 : s.cooldown.available <;> simp

/-! ### AdeleCreationComponent (no `use` reducer; its `trigger` is `ignore_rejected ∘ use_multiple_damage`) -/
theorem adeleCreation_valid_implies_accepted (p : AdeleCreation.P) (n : Int) (s : AdeleCreation.S)
    (h : (AdeleCreation.validity p s).valid = true) : rejectedIn (AdeleCreation.useMultiple p n s).2 = false := by
  have hv := invalidate_valid _ _ h
  simp only [cooldownValidity] at hv
  simp only [AdeleCreation.useMultiple, hv, Bool.not_true, Bool.false_eq_true, if_false, rejectedIn_append]
  rw [rejectedIn_replicate _ _ rfl]; rfl
theorem adeleCreation_validity_nonneg (p : AdeleCreation.P) (s : AdeleCreation.S) :
    0 ≤ (AdeleCreation.validity p s).timeLeft := by
  simp only [AdeleCreation.validity, invalidate_timeLeft, cooldownValidity]; exact cooldown_min_nonneg _

/-! ### AdeleOrderComponent — valid = cooldown over AND enough ether, the very test `use` makes -/
theorem adeleOrder_valid_implies_accepted (p : AdeleOrder.P) (s : AdeleOrder.S)
    (h : (AdeleOrder.validity p s).valid = true) : rejectedIn (AdeleOrder.use p s).2 = false := by
  simp only [AdeleOrder.validity, Bool.and_eq_true] at h
  simp [AdeleOrder.use, h.1, h.2, rejectedIn, REv.isReject]
theorem adeleOrder_validity_nonneg (p : AdeleOrder.P) (s : AdeleOrder.S) :
    0 ≤ (AdeleOrder.validity p s).timeLeft := cooldown_min_nonneg _

/-! ### AdeleGatheringComponent (valid also asks for a sword; `use` only for the cooldown) -/
theorem adeleGathering_valid_implies_accepted (p : AdeleGathering.P) (s : AdeleGathering.S)
    (h : (AdeleGathering.validity p s).valid = true) : rejectedIn (AdeleGathering.use p s).2 = false := by
  simp only [AdeleGathering.validity, Bool.and_eq_true] at h
  simp only [AdeleGathering.use, h.1, Bool.not_true, Bool.false_eq_true, if_false, rejectedIn_append]
  rw [rejectedIn_replicate _ _ rfl]; rfl
theorem adeleGathering_validity_nonneg (p : AdeleGathering.P) (s : AdeleGathering.S) :
    0 ≤ (AdeleGathering.validity p s).timeLeft := cooldown_min_nonneg _

/-! ### AdeleBlossomComponent -/
theorem adeleBlossom_valid_implies_accepted (p : AdeleBlossom.P) (s : AdeleBlossom.S)
    (h : (AdeleBlossom.validity p s).valid = true) : rejectedIn (AdeleBlossom.use p s).2 = false := by
  have hv : AdeleBlossom.isValid s = true := h
  simp only [AdeleBlossom.use, hv, Bool.not_true, Bool.false_eq_true, if_false, rejectedIn_append]
  rw [rejectedIn_replicate _ _ (isReject_dealtWith _ _ _)]; rfl
theorem adeleBlossom_validity_nonneg (p : AdeleBlossom.P) (s : AdeleBlossom.S) :
    0 ≤ (AdeleBlossom.validity p s).timeLeft := cooldown_min_nonneg _

/-! ### AdeleRuinComponent -/
theorem adeleRuin_valid_implies_accepted (p : AdeleRuin.P) (s : AdeleRuin.S)
    (h : (AdeleRuin.validity p s).valid = true) : ∀ r, AdeleRuin.use p s = .ok r → rejectedIn r.2 = false := by
  simp only [AdeleRuin.validity, cooldownValidity] at h
  intro r hr
  simp only [AdeleRuin.use, h, Bool.not_true, Bool.false_eq_true, if_false] at hr
  cases hf : s.first.setTimeLeft p.lastingDurationFirst with
  | error e => simp [hf] at hr
  | ok f =>
    cases hg : s.second.setTimeLeft (p.lastingDurationFirst + p.lastingDurationSecond) with
    | error e => simp [hf, hg] at hr
    | ok g => simp [hf, hg] at hr; rw [← hr]; simp [rejectedIn, REv.isReject]
theorem adeleRuin_validity_nonneg (p : AdeleRuin.P) (s : AdeleRuin.S) :
    0 ≤ (AdeleRuin.validity p s).timeLeft := cooldown_min_nonneg _

/-! ### AdeleStormComponent — valid = cooldown over AND a sword is out, the two tests `use` makes -/
theorem adeleStorm_valid_implies_accepted (p : AdeleStorm.P) (s : AdeleStorm.S)
    (h : (AdeleStorm.validity p s).valid = true) : ∀ r, AdeleStorm.use p s = .ok r → rejectedIn r.2 = false := by
  simp only [AdeleStorm.validity, Bool.and_eq_true, decide_eq_true_eq] at h
  intro r hr
  have h2 : ¬ s.orderSword.getSwordCount ≤ 0 := by omega
  simp only [AdeleStorm.use, h2, h.1, Bool.not_true, Bool.false_eq_true, if_false] at hr
  cases hs : s.periodic.setTimeLeft p.lastingDuration with
  | error e => simp [hs] at hr
  | ok per => simp [hs] at hr; rw [← hr]; simp [rejectedIn, REv.isReject]
theorem adeleStorm_validity_nonneg (p : AdeleStorm.P) (s : AdeleStorm.S) :
    0 ≤ (AdeleStorm.validity p s).timeLeft := cooldown_min_nonneg _

/-! ### MagicCurcuitFullDriveComponent -/
theorem magicCurcuit_valid_implies_accepted (p : MagicCurcuit.P) (s : MagicCurcuit.S)
    (h : (MagicCurcuit.validity p s).valid = true) : ∀ r, MagicCurcuit.use p s = .ok r → rejectedIn r.2 = false := by
  simp only [MagicCurcuit.validity, cooldownValidity] at h
  intro r hr
  simp only [MagicCurcuit.use, h, Bool.not_true, Bool.false_eq_true, if_false] at hr
  cases hs : s.periodic.setTimeLeft p.lastingDuration with
  | error e => simp [hs] at hr
  | ok per => simp [hs] at hr; rw [← hr]; simp [rejectedIn, REv.isReject]
theorem magicCurcuit_validity_nonneg (p : MagicCurcuit.P) (s : MagicCurcuit.S) :
    0 ≤ (MagicCurcuit.validity p s).timeLeft := cooldown_min_nonneg _

/-! non-vacuity: ready skills are listed valid (with a sword out / enough ether where that is asked for) -/
example : (AdeleStorm.validity ⟨ms 90000, ms 780, 550, 1, ms 14000⟩
    ⟨⟨0⟩, { interval := ms 330 }, ⟨0, 8⟩, { interval := ms 1020, runningSwords := [(0, ms 40000)] }⟩).valid = true := by decide
example : (AdeleOrder.validity ⟨ms 500, 0, 394, 2, ms 45000, 6, 8⟩
    ⟨{ stack := 120, maximumStack := 400, creationStep := 100, orderConsume := 100 }, { timeLeft := 0, etherMultiplier := 80 },
     ⟨0⟩, { interval := ms 1020 }⟩).valid = true := by decide
example : (FullMetalBarrage.validity ⟨0, ms 8000, ms 970, 880, 12, ms 1800, ms 2000⟩ ⟨⟨0⟩, ⟨ms 150, 0, -1024⟩, ⟨0, 0⟩⟩).valid = true := by
  decide

end Simaple.Props.C10_Mech
