import Simaple.Props.C01
/-!
# C01, part "Refused": sessions that go on after a command was refused

A command the engine refuses with an exception (malformed `ELAPSE`, unknown command word, raising debug line) writes
no log.  For resuming from the logs to reproduce the uninterrupted run, it must then leave NOTHING behind that
influences the future.  In the model (`refuseOp`, `refuseConsole` in `Model/Engine.lean`, following
`_exec_operation` / `_console`): the only thing a refused command touches is the history's cache of the live store.
-/
namespace Simaple.Props.C01
open Simaple.Engine

section
variable {σ τ : Type}
variable {P : Action → σ → σ × List Event} {save : σ → τ} {load : τ → σ} {clock : σ → Rat}
variable {view : σ → String → String}
variable (hash : OpLog τ → String) (t0 : τ)

/-- a refused operation leaves the logs and the pending events alone and keeps the engine in the canonical state -/
theorem refused_op_keeps_inv (e : Engine σ τ) (h : EInv save t0 e) :
    EInv save t0 (refuseOp e) ∧ (refuseOp e).logs = e.logs ∧ (refuseOp e).buffered = e.buffered :=
  ⟨⟨Or.inl rfl, h.2.1, h.2.2⟩, rfl, rfl⟩

/-- ... and so does a refused debug line -/
theorem refused_console_keeps_inv (L : StoreLaws P save load clock view) (e : Engine σ τ) (h : EInv save t0 e) :
    EInv save t0 (refuseConsole load t0 e) ∧ (refuseConsole load t0 e).logs = e.logs ∧
      (refuseConsole load t0 e).buffered = e.buffered :=
  ⟨⟨Or.inr ⟨_, rfl, curStore_save t0 L e h⟩, h.2.1, h.2.2⟩, rfl, rfl⟩

/-- **Refused commands leave no trace**: the history after any session is the history of the session without its
    refused commands, and the engine stays in the canonical state. -/
theorem refused_commands_leave_no_trace (L : StoreLaws P save load clock view) (steps : List Step) :
    ∀ (e : Engine σ τ), EInv save t0 e →
      (runSteps P save load clock view hash t0 e steps).logs
          = (execAll P save load clock view hash t0 e (accepted steps)).logs ∧
      EInv save t0 (runSteps P save load clock view hash t0 e steps) := by
  induction steps with
  | nil => intro e h; exact ⟨rfl, h⟩
  | cons s r ih =>
    intro e h
    cases s with
    | run c =>
      have := ih _ (exec_inv hash t0 L e c h)
      simpa [runSteps, accepted, execAll] using this
    | refusedOp =>
      obtain ⟨hi, hl, _⟩ := refused_op_keeps_inv t0 e h
      obtain ⟨h1, h2⟩ := ih _ hi
      refine ⟨?_, h2⟩
      simp only [runSteps, accepted]
      rw [h1]
      exact nothing_else_matters hash t0 L _ _ hi h hl _
    | refusedConsole =>
      obtain ⟨hi, hl, _⟩ := refused_console_keeps_inv t0 L e h
      obtain ⟨h1, h2⟩ := ih _ hi
      refine ⟨?_, h2⟩
      simp only [runSteps, accepted]
      rw [h1]
      exact nothing_else_matters hash t0 L _ _ hi h hl _

theorem accepted_append (a b : List Step) : accepted (a ++ b) = accepted a ++ accepted b := by
  induction a with
  | nil => rfl
  | cons s r ih => cases s <;> simp [accepted, ih]

/-- **C01 for sessions with refused commands**: cut the session anywhere (also directly after a refused command),
    load the logs recorded up to the cut into a fresh engine, go on with the rest of the session: the logs are those of
    the uninterrupted session. -/
theorem resume_eq_straight_with_refusals (L : StoreLaws P save load clock view) (st : σ) (steps : List Step)
    (k : Nat) :
    (runSteps P save load clock view hash t0
        (reload (runSteps P save load clock view hash t0 (initEngine save st) (steps.take k)).logs)
        (steps.drop k)).logs
      = (runSteps P save load clock view hash t0 (initEngine save st) steps).logs := by
  have hi := initEngine_inv (save := save) t0 st
  obtain ⟨a1, a2⟩ := refused_commands_leave_no_trace hash t0 L (steps.take k) _ hi
  have hr : EInv save t0 (reload (runSteps P save load clock view hash t0 (initEngine save st) (steps.take k)).logs :
      Engine σ τ) := reload_inv t0 _ a2.2.1
  obtain ⟨b1, _⟩ := refused_commands_leave_no_trace hash t0 L (steps.drop k) _ hr
  obtain ⟨c1, _⟩ := refused_commands_leave_no_trace hash t0 L steps _ hi
  rw [b1, c1]
  have e1 := (execAll_logs hash t0 L (accepted (steps.drop k)) _ hr).1
  have e2 := (execAll_logs hash t0 L (accepted steps) _ hi).1
  have e3 := (execAll_logs hash t0 L (accepted (steps.take k)) _ hi).1
  rw [e1, e2]
  simp only [reload]
  rw [a1, e3, ← List.foldl_append, ← accepted_append, List.take_append_drop]

end

/-! non-vacuity on the toy store of `Props/C01.lean`: a session with both kinds of refusal, cut after the refusal -/
example :
    (runSteps Toy.P id id id (fun _ _ => "") Toy.hash 0
        (reload (runSteps Toy.P id id id (fun _ _ => "") Toy.hash 0 (initEngine id (0 : Rat))
          ([.run ⟨.use, "x", 0, "USE x"⟩, .refusedOp] : List Step)).logs)
        [.refusedConsole, .run ⟨.resolve, "x", 0, "RESOLVE x"⟩]).logs.length = 3 := by
  decide

end Simaple.Props.C01
