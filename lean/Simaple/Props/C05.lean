/-
C05 — every event is relayed to listeners exactly once before and once after the next action.
Model: Simaple/Model/Engine.lean (L4 `play`), for an arbitrary router `R`, store `σ` and
`previous_callbacks` accessor pair.  The only law needed is that reading `previous_callbacks` after
writing it gives what was written (a store cell).
-/
import Simaple.Model.Engine

namespace Simaple.Props.C05
open Simaple.Engine

section
variable {σ : Type}
variable (R : Action → σ → σ × List Event)
variable (getPending : σ → List (Action × Action))
variable (setPending : σ → List (Action × Action) → σ)

theorem buildQueue_aux (pending : List (Action × Action)) : ∀ (q : List Action),
    pending.foldl (fun q p => [p.1] ++ q ++ [p.2]) q
      = (pending.map (·.1)).reverse ++ q ++ pending.map (·.2) := by
  induction pending with
  | nil => intro q; simp
  | cons p ps ih => intro q; rw [List.foldl_cons, ih]; simp

/-- shape of the queue: emitted callbacks in reverse order, the action, done callbacks in order -/
theorem buildQueue_callbacks (evs : List Event) (a : Action) :
    buildQueue (callbacksOf evs) a = (evs.map emittedOf).reverse ++ [a] ++ evs.map doneOf := by
  unfold buildQueue callbacksOf
  rw [buildQueue_aux]
  simp [List.map_map, Function.comp_def]

/-- **C05**: let `E₁` be the events produced while handling `a₁`.  The actions offered to the router
    while handling the next action `a₂` are exactly: the `emitted` action of every event of `E₁` (in
    reverse order), then `a₂`, then the `done` action of every event of `E₁` (in order).  Hence every event
    of `E₁` — by position, so duplicates count — is offered exactly once as emitted before `a₂` and exactly
    once as done after it. -/
theorem relay_exactly_once (hgs : ∀ s p, getPending (setPending s p) = p) (s : σ) (a₁ a₂ : Action) :
    dispatched getPending (play R getPending setPending s a₁).1 a₂
      = ((play R getPending setPending s a₁).2.map emittedOf).reverse ++ [a₂]
          ++ (play R getPending setPending s a₁).2.map doneOf := by
  unfold dispatched
  have : getPending (play R getPending setPending s a₁).1 = callbacksOf (play R getPending setPending s a₁).2 := by
    simp [play, hgs]
  rw [this, buildQueue_callbacks]

/-- ... and never again: what is offered while handling `a₃` is determined by the events of `a₂` alone -/
theorem relay_never_again (hgs : ∀ s p, getPending (setPending s p) = p) (s : σ) (a₁ a₂ a₃ : Action) :
    let s₂ := (play R getPending setPending (play R getPending setPending s a₁).1 a₂)
    dispatched getPending s₂.1 a₃ = (s₂.2.map emittedOf).reverse ++ [a₃] ++ s₂.2.map doneOf := by
  intro s₂
  exact relay_exactly_once R getPending setPending hgs _ a₂ a₃

/-- counting form: the queue has exactly one emitted and one done action per event, plus the action -/
theorem relay_count (hgs : ∀ s p, getPending (setPending s p) = p) (s : σ) (a₁ a₂ : Action) :
    (dispatched getPending (play R getPending setPending s a₁).1 a₂).length
      = 2 * (play R getPending setPending s a₁).2.length + 1 := by
  rw [relay_exactly_once R getPending setPending hgs]; simp; omega

/-- no event is lost or replayed across a checkpoint: if saving and restoring the store keeps the
    `previous_callbacks` cell, the relay is the same with `load (save ·)` in between -/
theorem relay_survives_checkpoint {τ : Type} (save : σ → τ) (load : τ → σ)
    (hgs : ∀ s p, getPending (setPending s p) = p) (hls : ∀ s, getPending (load (save s)) = getPending s)
    (s : σ) (a₁ a₂ : Action) :
    dispatched getPending (load (save (play R getPending setPending s a₁).1)) a₂
      = ((play R getPending setPending s a₁).2.map emittedOf).reverse ++ [a₂]
          ++ (play R getPending setPending s a₁).2.map doneOf := by
  unfold dispatched
  rw [hls]
  exact relay_exactly_once R getPending setPending hgs s a₁ a₂

/-- going BACK to an earlier checkpoint (`SimulationRuntime.load`, engine rollback): whatever was played on the
    abandoned time line after the checkpoint was taken — `later` — the first action after the restore relays exactly
    the events that were pending when the checkpoint was taken, and none of the abandoned ones -/
theorem relay_after_restore_to_an_earlier_checkpoint {τ : Type} (save : σ → τ) (load : τ → σ)
    (hgs : ∀ s p, getPending (setPending s p) = p) (hls : ∀ s, getPending (load (save s)) = getPending s)
    (s : σ) (a₁ a₂ : Action) (later : List Action) :
    let taken := save (play R getPending setPending s a₁).1
    let _abandoned := later.foldl (fun st a => (play R getPending setPending st a).1) (play R getPending setPending s a₁).1
    dispatched getPending (load taken) a₂
      = ((play R getPending setPending s a₁).2.map emittedOf).reverse ++ [a₂]
          ++ (play R getPending setPending s a₁).2.map doneOf := by
  intro taken _
  exact relay_survives_checkpoint R getPending setPending save load hgs hls s a₁ a₂

/-- the events of a play are the router's answers to the queue, in queue order -/
theorem play_events (s : σ) (a : Action) :
    (play R getPending setPending s a).2 = (runQueue R s (buildQueue (getPending s) a)).2 := rfl

theorem runQueue_append (s : σ) (q₁ q₂ : List Action) :
    (runQueue R s (q₁ ++ q₂)).2 = (runQueue R s q₁).2 ++ (runQueue R (runQueue R s q₁).1 q₂).2 ∧
    (runQueue R s (q₁ ++ q₂)).1 = (runQueue R (runQueue R s q₁).1 q₂).1 := by
  induction q₁ generalizing s with
  | nil => simp [runQueue]
  | cons a q ih =>
    simp only [List.cons_append, runQueue]
    have := ih (R a s).1
    exact ⟨by rw [this.1, List.append_assoc], this.2⟩

end

/-- the relayed actions carry the event's payload, and their signatures are
    `<skill>.<method>.emitted.<tag>` / `<skill>.<method>.done.<tag>` -/
theorem signature_shape (ev : Event) :
    signature (emittedOf ev).name (emittedOf ev).method = ev.name ++ "." ++ (ev.method ++ ".emitted." ++ ev.tag) ∧
    signature (doneOf ev).name (doneOf ev).method = ev.name ++ "." ++ (ev.method ++ ".done." ++ ev.tag) ∧
    (emittedOf ev).payload = .obj ev.payload ∧ (doneOf ev).payload = .obj ev.payload := by
  simp [signature, emittedOf, doneOf]

/-! non-vacuity: a toy router that answers `use` with two events -/
namespace Toy
def R (a : Action) (s : List (Action × Action)) : List (Action × Action) × List Event :=
  if a.method = "use" then
    (s, [⟨a.name, "use", "global.damage", "", "{}", none⟩, ⟨a.name, "use", "global.delay", "", "{\"time\":30}", some 30⟩])
  else (s, [])
example : dispatched id (play R id (fun _ p => p) [] ⟨"x", "use", .none⟩).1 ⟨"y", "use", .none⟩
    = [⟨"x", "use.emitted.global.delay", .obj "{\"time\":30}"⟩, ⟨"x", "use.emitted.global.damage", .obj "{}"⟩,
       ⟨"y", "use", .none⟩,
       ⟨"x", "use.done.global.damage", .obj "{}"⟩, ⟨"x", "use.done.global.delay", .obj "{\"time\":30}"⟩] := by
  decide
end Toy

end Simaple.Props.C05
