/-
C11, what makes "in-place accumulation, summing a list and repeated + all agree" meaningful for objects: the pure
operators never touch their operands and return NEW blocks.  Proved on programs regenerated from the source
(tools/py2lean/gen_effects.py, table `pureTable`, entries tagged "C11"): `Stat.__add__`, `Stat.sum`, `Stat.stack`,
`ActionStat.__add__`, `LevelStat.__add__`, `LevelStat.get_stat`, `ExtendedStat.__add__`,
`ExtendedStat.compute_by_level`.  (`__iadd__` writes its left operand by design and is not in the table; a `+` that
returned one of its operands — so that a later `+=` on the result would rewrite the operand — is rejected by
`operators_return_new_blocks`.)
-/
import Simaple.Proofs.Effect
import Simaple.Gen.Effects

namespace Simaple.Props.C11
open Simaple.Effect Simaple.Gen.Effects

def operatorEntries : List PureEntry := pureTable.filter (·.prop == 11)

theorem operators_lowered : 8 ≤ operatorEntries.length ∧ pureNotLowered.length = 0 := by decide +kernel

theorem operators_wellFormed :
    operatorEntries.all (fun e => wellFormed e.taint e.nvars e.prog) = true := by decide +kernel

/-- the checker derives that every result is a primitive or freshly allocated -/
theorem operators_results_tagged_fresh :
    operatorEntries.all (fun e => match e.result with
      | some x => (resultTag e.taint e.nvars e.prog x).map Tag.deep == some true
      | none => true) = true := by decide +kernel

/-- the operators leave their operands (and everything else that existed) exactly as they were -/
theorem operators_never_alter_their_operands (e : PureEntry) (he : e ∈ operatorEntries)
    (σ σ' : State) (hlog : σ.log = []) (hr : Reach .skip e.prog σ σ') :
    (∀ a o, σ.heap a = some o → σ'.heap a = some o) ∧ (∀ a ∈ σ'.log, σ.heap a = none) := by
  have hall := operators_wellFormed
  rw [List.all_eq_true] at hall
  exact wellFormed_frame_always e.taint e.nvars e.prog (hall e he) σ σ' hlog hr

/-- and what they return is a new block: it shares no object with anything that existed before the call -/
theorem operators_return_new_blocks (e : PureEntry) (he : e ∈ operatorEntries) (x : Var) (hx : e.result = some x)
    (σ σ' : State) (hlog : σ.log = []) (hex : Exec .skip e.prog σ σ') :
    ∃ D : Addr → Prop, (∀ a, D a → σ.heap a = none) ∧ (∀ a, σ'.env x = .ref a → D a) ∧
      (∀ a o f b, D a → σ'.heap a = some o → tainted e.taint f = false → o f = .ref b → D b) := by
  have hall := operators_results_tagged_fresh
  rw [List.all_eq_true] at hall
  have h := hall e he
  rw [hx] at h
  simp only [beq_iff_eq] at h
  exact wellFormed_result_fresh e.taint e.nvars e.prog x h σ σ' hlog hex

end Simaple.Props.C11
