/-
C10, part `Wind`: for the soulmaster / dualblade / windbreaker job-specific component classes, the validity
view never reports a negative remaining time, and whenever it reports the skill usable, `use` on that very
state is not rejected.  The views are total functions of the state (no exception can arise in them).
Classes without a validity view (CosmicOrb, CosmicBurst) have nothing to state here; FlareSlash is never
listed usable.  `use` of CosmicShower / Cosmos / HowlingGale can raise the ValueError of
`Periodic.set_time_left`; `X_use_defined` shows that it cannot for the shipped kind of parameters.
-/
import Simaple.Proofs.ComponentWind

namespace Simaple.Props.C10_Wind
open Simaple.Comp Simaple.Entity

/-! ### Elysion -/
theorem elysion_valid_implies_accepted (p : Elysion.P) (s : Elysion.S) (h : (Elysion.validity p s).valid = true) :
    rejectedIn (Elysion.use p s).2 = false := by
  simp only [Elysion.validity, cooldownValidity] at h
  simp [Elysion.use, h, rejectedIn, REv.isReject]
theorem elysion_validity_nonneg (p : Elysion.P) (s : Elysion.S) : 0 ≤ (Elysion.validity p s).timeLeft :=
  cooldown_min_nonneg _

/-! ### CrossTheStyx — listed usable exactly while the bound Elysion buff lasts -/
theorem crossTheStyx_valid_implies_accepted (p : CrossTheStyx.P) (s : CrossTheStyx.S)
    (h : (CrossTheStyx.validity p s).valid = true) : rejectedIn (CrossTheStyx.use p s).2 = false := by
  simp only [CrossTheStyx.validity] at h
  simp [CrossTheStyx.use, h, rejectedIn, REv.isReject]
theorem crossTheStyx_validity_nonneg (p : CrossTheStyx.P) (s : CrossTheStyx.S) : 0 ≤ (CrossTheStyx.validity p s).timeLeft :=
  Int.le_refl 0

/-! ### CosmicShower — usable needs the cooldown AND at least one orb, as `use` does -/
theorem cosmicShower_valid_implies_accepted (p : CosmicShower.P) (s : CosmicShower.S)
    (h : (CosmicShower.validity p s).valid = true) :
    ∀ r, CosmicShower.use p s = .ok r → rejectedIn r.2 = false := by
  simp only [CosmicShower.validity, Bool.and_eq_true, decide_eq_true_eq] at h
  have hne : (s.orb.stack == 0) = false := by simp; omega
  intro r hr
  simp only [CosmicShower.use, h.1, hne, Bool.not_true, Bool.or_false, Bool.false_eq_true, if_false] at hr
  split at hr
  · simp at hr
  · simp at hr; rw [← hr]; simp [rejectedIn, REv.isReject]
/-- no exception for a positive duration, a non-negative increase per orb and a positive (or absent) initial
    counter — which the shipped data satisfies -/
theorem cosmicShower_use_defined (p : CosmicShower.P) (s : CosmicShower.S) (hl : 0 < p.lastingDuration)
    (hd : 0 ≤ p.durationIncreasePerOrb) (ho : 0 ≤ s.orb.stack)
    (hi : ∀ c, s.periodic.initialCounter = some c → 0 < c) : ∃ r, CosmicShower.use p s = .ok r := by
  unfold CosmicShower.use
  split
  · exact ⟨_, rfl⟩
  · have hpos : ¬ p.lastingDuration + s.orb.stack * p.durationIncreasePerOrb ≤ 0 := by
      have := Int.mul_nonneg ho hd; omega
    simp only [Periodic.setTimeLeft, hpos, if_false]
    cases hc : s.periodic.initialCounter with
    | none => exact ⟨_, rfl⟩
    | some c =>
      have h2 : ¬ c ≤ 0 := by have := hi c hc; omega
      simp only [h2, if_false]; exact ⟨_, rfl⟩
theorem cosmicShower_validity_nonneg (p : CosmicShower.P) (s : CosmicShower.S) : 0 ≤ (CosmicShower.validity p s).timeLeft :=
  cooldown_min_nonneg _

/-! ### Cosmos -/
theorem cosmos_valid_implies_accepted (p : Cosmos.P) (s : Cosmos.S) (h : (Cosmos.validity p s).valid = true) :
    ∀ r, Cosmos.use p s = .ok r → rejectedIn r.2 = false := by
  simp only [Cosmos.validity, Bool.and_eq_true, decide_eq_true_eq] at h
  have hne : (s.orb.stack == 0) = false := by simp; omega
  intro r hr
  simp only [Cosmos.use, h.1, hne, Bool.not_true, Bool.or_false, Bool.false_eq_true, if_false] at hr
  split at hr
  · simp at hr
  · simp at hr; rw [← hr]; simp [rejectedIn, REv.isReject]
theorem cosmos_use_defined (p : Cosmos.P) (s : Cosmos.S) (hl : 0 < p.lastingDuration)
    (hi : ∀ c, s.periodic.initialCounter = some c → 0 < c) : ∃ r, Cosmos.use p s = .ok r := by
  unfold Cosmos.use
  split
  · exact ⟨_, rfl⟩
  · have hpos : ¬ p.lastingDuration ≤ 0 := by omega
    simp only [Periodic.setTimeLeft, hpos, if_false]
    cases hc : s.periodic.initialCounter with
    | none => exact ⟨_, rfl⟩
    | some c =>
      have h2 : ¬ c ≤ 0 := by have := hi c hc; omega
      simp only [h2, if_false]; exact ⟨_, rfl⟩
theorem cosmos_validity_nonneg (p : Cosmos.P) (s : Cosmos.S) : 0 ≤ (Cosmos.validity p s).timeLeft :=
  cooldown_min_nonneg _

/-! ### FlareSlash — there is no `use`; the validity view never lists it usable -/
theorem flareSlash_never_valid (p : FlareSlash.P) (s : FlareSlash.S) : (FlareSlash.validity p s).valid = false := rfl
theorem flareSlash_validity_nonneg (p : FlareSlash.P) (s : FlareSlash.S) : 0 ≤ (FlareSlash.validity p s).timeLeft :=
  cooldown_min_nonneg _

/-! ### FinalCutComponent -/
theorem finalCut_valid_implies_accepted (p : FinalCut.P) (s : FinalCut.S) (h : (FinalCut.validity p s).valid = true) :
    rejectedIn (FinalCut.use p s).2 = false := by
  simp only [FinalCut.validity, cooldownValidity] at h
  simp [FinalCut.use, h, rejectedIn, REv.isReject]
theorem finalCut_validity_nonneg (p : FinalCut.P) (s : FinalCut.S) : 0 ≤ (FinalCut.validity p s).timeLeft :=
  cooldown_min_nonneg _

/-! ### BladeStormComponent — valid requires the key-down not to be running (the F14 repair) -/
theorem bladeStorm_valid_implies_accepted (p : BladeStorm.P) (s : BladeStorm.S) (h : (BladeStorm.validity p s).valid = true) :
    rejectedIn (BladeStorm.use p s).2 = false := by
  simp only [BladeStorm.validity, KeydownSkill.validity, Bool.and_eq_true, Bool.not_eq_true'] at h
  simp [BladeStorm.use, KeydownSkill.use, h.1, h.2, rejectedIn, REv.isReject]
theorem bladeStorm_validity_nonneg (p : BladeStorm.P) (s : BladeStorm.S) : 0 ≤ (BladeStorm.validity p s).timeLeft :=
  cooldown_min_nonneg _

/-! ### UltimateDarkSightComponent -/
theorem ultimateDarkSight_valid_implies_accepted (p : UltimateDarkSight.P) (s : UltimateDarkSight.S)
    (h : (UltimateDarkSight.validity p s).valid = true) : rejectedIn (UltimateDarkSight.use p s).2 = false := by
  simp only [UltimateDarkSight.validity, cooldownValidity] at h
  simp [UltimateDarkSight.use, h, rejectedIn, REv.isReject]
theorem ultimateDarkSight_validity_nonneg (p : UltimateDarkSight.P) (s : UltimateDarkSight.S) :
    0 ≤ (UltimateDarkSight.validity p s).timeLeft := cooldown_min_nonneg _

/-! ### KarmaBladeTriggerComponent — `use` never rejects at all -/
theorem karmaBlade_valid_implies_accepted (p : KarmaBlade.P) (s : KarmaBlade.S) (_h : (KarmaBlade.validity p s).valid = true) :
    rejectedIn (KarmaBlade.use p s).2 = false := by simp [KarmaBlade.use, rejectedIn]
theorem karmaBlade_validity_nonneg (p : KarmaBlade.P) (s : KarmaBlade.S) : 0 ≤ (KarmaBlade.validity p s).timeLeft :=
  cooldown_min_nonneg _

/-! ### HowlingGaleComponent — consumable validity -/
theorem howlingGale_valid_implies_accepted (p : HowlingGale.P) (s : HowlingGale.S) (h : (HowlingGale.validity p s).valid = true) :
    ∀ r, HowlingGale.use p s = .ok r → rejectedIn r.2 = false := by
  simp only [HowlingGale.validity] at h
  intro r hr
  simp only [HowlingGale.use, h, Bool.not_true, Bool.false_eq_true, if_false] at hr
  split at hr
  · simp at hr
  · simp at hr; rw [← hr]; simp [rejectedIn, REv.isReject]
theorem howlingGale_use_defined (p : HowlingGale.P) (s : HowlingGale.S) (hl : 0 < HowlingGale.lasting p)
    (hi : ∀ c, s.periodic.initialCounter = some c → 0 < c) : ∃ r, HowlingGale.use p s = .ok r := by
  unfold HowlingGale.use
  split
  · exact ⟨_, rfl⟩
  · have hpos : ¬ HowlingGale.lasting p ≤ 0 := by omega
    simp only [Periodic.setTimeLeft, hpos, if_false]
    cases hc : s.periodic.initialCounter with
    | none => exact ⟨_, rfl⟩
    | some c =>
      have h2 : ¬ c ≤ 0 := by have := hi c hc; omega
      simp only [h2, if_false]; exact ⟨_, rfl⟩
theorem howlingGale_validity_nonneg (p : HowlingGale.P) (s : HowlingGale.S) : 0 ≤ (HowlingGale.validity p s).timeLeft := by
  simp only [HowlingGale.validity]; omega

/-! ### TranscendentCygnusBlessing -/
theorem cygnusBlessing_valid_implies_accepted (p : CygnusBlessing.P) (s : CygnusBlessing.S)
    (h : (CygnusBlessing.validity p s).valid = true) : rejectedIn (CygnusBlessing.use p s).2 = false := by
  simp only [CygnusBlessing.validity] at h
  simp [CygnusBlessing.use, h, rejectedIn, REv.isReject]
theorem cygnusBlessing_validity_nonneg (p : CygnusBlessing.P) (s : CygnusBlessing.S) :
    0 ≤ (CygnusBlessing.validity p s).timeLeft := by
  simp only [CygnusBlessing.validity]; omega

/-! non-vacuity: a ready shower with orbs is listed valid; one without orbs is not, although its cooldown is over -/
example : (CosmicShower.validity ⟨30720000, 614400, 271, 3, 46080000, 3072000⟩
    ⟨⟨0⟩, { interval := 1044480 }, ⟨3, 10, 30720000, 30720000⟩⟩).valid = true := by decide
example : (CosmicShower.validity ⟨30720000, 614400, 271, 3, 46080000, 3072000⟩
    ⟨⟨0⟩, { interval := 1044480 }, ⟨0, 10, 30720000, 0⟩⟩).valid = false := by decide
example : (CrossTheStyx.validity ⟨845, 25, 768000⟩ ⟨⟨1024, 40960000⟩⟩).valid = true := by decide

end Simaple.Props.C10_Wind
