import Simaple.Proofs.EntityPeriodic
import Simaple.Proofs.EntityTimers
import Simaple.Proofs.EntityDot
import Simaple.Proofs.EntityJob
/-!
# C09 — letting time pass in one step or in several gives the same ticks and status

Entity level.  Model: `Simaple/Model/Entity.lean` (time = `Int` in units of 2^-10 ms, on which Python's
float `+ - min max <` are exact — the restriction the property itself states).  For every entity with
an `elapse`/`resolving`:

    elapse b (elapse a e)  ≈  elapse (a + b) e        and       ticks (a + b) = ticks a + ticks b-after-a

for all `a b ≥ 0`, where `≈` is equality for all entities except `Periodic` and
`DynamicIntervalPeriodic`, whose `interval_counter` is a dead field once the timer has expired (the
Python code leaves different stale values there); `≈` is proved to be respected by every method that
reads the entity, in particular by the status views (`enabled`, `time_left`, `count`).  Multi-way splits
follow from the two-way split (`*_sum`).  Hypotheses are the explicit well-formedness predicates under
which the Python loops terminate (`WF`) / that `start`/`set_time_left` establish and `elapse` keeps (`Inv`).

`OrderSword.resolving` is NOT chunk independent (known finding F10): `orderSword_add_partial` +
the witness `orderSword_not_add`.
-/
namespace Simaple.Props.C09
open Simaple.Entity

/-! ## linear timers: Cooldown, Lasting, PoisonNovaEntity (plain equality, hence every view agrees) -/

theorem cooldown_add (s : Cooldown) (a b : Int) : (s.elapse a).elapse b = s.elapse (a + b) :=
  Cooldown.elapse_add s a b

theorem lasting_add (s : Lasting) (a b : Int) : (s.elapse a).elapse b = s.elapse (a + b) :=
  Lasting.elapse_add s a b

theorem poisonNova_add (s : PoisonNovaEntity) (a b : Int) : (s.elapse a).elapse b = s.elapse (a + b) :=
  PoisonNovaEntity.elapse_add s a b

/-- many-way split of a cooldown -/
theorem cooldown_sum (s : Cooldown) (t : Int) (ts : List Int) :
    ts.foldl Cooldown.elapse (s.elapse t) = s.elapse (t + ts.sum) := by
  induction ts generalizing s t with
  | nil => simp
  | cons u r ih =>
    simp only [List.foldl_cons, List.sum_cons]
    rw [Cooldown.elapse_add, ih]
    congr 1; omega

theorem lasting_sum (s : Lasting) (t : Int) (ts : List Int) :
    ts.foldl Lasting.elapse (s.elapse t) = s.elapse (t + ts.sum) := by
  induction ts generalizing s t with
  | nil => simp
  | cons u r ih =>
    simp only [List.foldl_cons, List.sum_cons]
    rw [Lasting.elapse_add, ih]
    congr 1; omega

/-! ## LastingStack -/

theorem lastingStack_add (s : LastingStack) (a b : Int) (ha : 0 ≤ a) (hb : 0 ≤ b) :
    (s.elapse a).elapse b = s.elapse (a + b) :=
  LastingStack.elapse_add s a b ha hb

theorem lastingStack_sum (s : LastingStack) (t : Int) (ts : List Int) (ht : 0 ≤ t) (hts : ∀ u ∈ ts, 0 ≤ u) :
    ts.foldl LastingStack.elapse (s.elapse t) = s.elapse (t + ts.sum) :=
  Loop.foldl_sum LastingStack.elapse Eq (fun _ => True) (fun _ => rfl) (fun _ _ _ h1 h2 => h1.trans h2)
    (fun _ _ _ _ => trivial) (fun x a b _ ha hb => LastingStack.elapse_add x a b ha hb) ts t s trivial ht hts

/-! ## Consumable (needs `0 < cooldown_duration`, otherwise the Python loop does not terminate) -/

theorem consumable_add (s : Consumable) (a b : Int) (hw : s.WF) (ha : 0 ≤ a) (hb : 0 ≤ b) :
    (s.elapse a).elapse b = s.elapse (a + b) :=
  Consumable.elapse_add s a b hw ha hb

theorem consumable_wf_elapse (s : Consumable) (t : Int) (hw : s.WF) : (s.elapse t).WF :=
  Consumable.elapse_wf s t hw

/-- under `WF` the model's fuel is enough: the `while time_left <= 0` loop has stopped -/
theorem consumable_loop_stopped (s : Consumable) (hw : s.WF) : 0 < (Consumable.refill s.refillFuel s).timeLeft :=
  Consumable.refill_pos s hw

theorem consumable_sum (s : Consumable) (t : Int) (ts : List Int) (hw : s.WF) (ht : 0 ≤ t)
    (hts : ∀ u ∈ ts, 0 ≤ u) :
    ts.foldl Consumable.elapse (s.elapse t) = s.elapse (t + ts.sum) :=
  Loop.foldl_sum Consumable.elapse Eq Consumable.WF (fun _ => rfl) (fun _ _ _ h1 h2 => h1.trans h2)
    (fun x t hx _ => Consumable.elapse_wf x t hx)
    (fun x a b hx ha hb => Consumable.elapse_add x a b hx ha hb) ts t s hw ht hts

example : (⟨3, 0, ms 1000, ms 100⟩ : Consumable).WF := by decide
example : (Consumable.elapse ⟨3, 0, ms 1000, ms 100⟩ (ms 1150)).stack = 2 := by decide

/-! ## Periodic (Appendix A of the design) -/

/-- chunk independence of `Periodic.elapse`: equivalent states, and the returned tick counts add up -/
theorem periodic_add (s : Periodic) (a b : Int) (hw : s.WF) (ha : 0 ≤ a) (hb : 0 ≤ b) :
    Periodic.Equiv ((s.elapse a).elapse b) (s.elapse (a + b)) ∧
    s.elapseCount (a + b) = s.elapseCount a + (s.elapse a).elapseCount b :=
  ⟨Periodic.elapse_add' s a b hw ha hb, Periodic.elapseCount_add s a b hw ha hb⟩

/-- equivalent periodics show the same status -/
theorem periodic_equiv_status (x y : Periodic) (h : Periodic.Equiv x y) :
    x.enabled = y.enabled ∧ x.timeLeft = y.timeLeft ∧ x.count = y.count ∧ x.interval = y.interval :=
  ⟨h.enabled, h.timeLeft, h.count, h.1⟩

/-- every method that reads a periodic respects the equivalence -/
theorem periodic_equiv_congr (x y : Periodic) (h : Periodic.Equiv x y) (t : Int) :
    Periodic.Equiv (x.elapse t) (y.elapse t) ∧ x.elapseCount t = y.elapseCount t ∧
    Periodic.Equiv (x.step t).1 (y.step t).1 ∧ (x.step t).2 = (y.step t).2 ∧
    x.setTimeLeft t = y.setTimeLeft t ∧ x.setTimeLeftWithoutDelay t = y.setTimeLeftWithoutDelay t ∧
    Periodic.Equiv (x.setIntervalCounter t) (y.setIntervalCounter t) ∧ Periodic.Equiv x.disable y.disable :=
  ⟨Periodic.elapse_equiv x y t h, h.elapseCount t, (Periodic.step_equiv x y t h).1, (Periodic.step_equiv x y t h).2,
   h.setTimeLeft t, h.setTimeLeftWithoutDelay t, h.setIntervalCounter t, h.disable⟩

theorem periodic_equiv_equivalence :
    (∀ x : Periodic, Periodic.Equiv x x) ∧ (∀ x y : Periodic, Periodic.Equiv x y → Periodic.Equiv y x) ∧
    (∀ x y z : Periodic, Periodic.Equiv x y → Periodic.Equiv y z → Periodic.Equiv x z) :=
  ⟨Periodic.Equiv.refl, fun _ _ h => h.symm, fun _ _ _ h1 h2 => h1.trans h2⟩

theorem periodic_wf_elapse (s : Periodic) (t : Int) (hw : s.WF) : (s.elapse t).WF := Periodic.elapse_wf s t hw

/-- `set_time_left` (the only way to start a periodic) establishes `WF` from the pydantic constraints -/
theorem periodic_wf_setTimeLeft (s s' : Periodic) (t : Int) (hi : 0 < s.interval)
    (h : s.setTimeLeft t = .ok s') : s'.WF := by
  unfold Periodic.setTimeLeft at h
  split at h
  · cases h
  · split at h
    · split at h
      · cases h
      · cases h
        refine ⟨hi, ?_⟩
        simp only []; omega
    · cases h; exact ⟨hi, hi⟩

theorem periodic_sum (s : Periodic) (t : Int) (ts : List Int) (hw : s.WF) (ht : 0 ≤ t) (hts : ∀ u ∈ ts, 0 ≤ u) :
    Periodic.Equiv (ts.foldl Periodic.elapse (s.elapse t)) (s.elapse (t + ts.sum)) :=
  Loop.foldl_sum Periodic.elapse Periodic.Equiv Periodic.WF Periodic.Equiv.refl (fun _ _ _ h1 h2 => h1.trans h2)
    (fun x t hx _ => Periodic.elapse_wf x t hx)
    (fun x a b hx ha hb => Periodic.elapse_add' x a b hx ha hb) ts t s hw ht hts

theorem periodic_ticks_sum (s : Periodic) (t : Int) (ts : List Int) (hw : s.WF) (ht : 0 ≤ t)
    (hts : ∀ u ∈ ts, 0 ≤ u) :
    Loop.ticksAlong Periodic.elapse Periodic.elapseCount s (t :: ts) = s.elapseCount (t + ts.sum) :=
  Loop.ticks_sum Periodic.elapse Periodic.elapseCount Periodic.WF (fun x t hx _ => Periodic.elapse_wf x t hx)
    (fun x a b hx ha hb => Periodic.elapseCount_add x a b hx ha hb) ts t s hw ht hts

example : ({ interval := ms 300, intervalCounter := ms 300, timeLeft := ms 1000 } : Periodic).WF := by decide
/-- the equivalence is needed: the stale counter differs between one step and two -/
example :
    let s : Periodic := { interval := ms 300, intervalCounter := ms 300, timeLeft := ms 1000 }
    ((s.elapse (ms 950)).elapse (ms 100)).intervalCounter ≠ (s.elapse (ms 1050)).intervalCounter ∧
    s.elapseCount (ms 1050) = 3 := by decide

/-! ## Keydown -/

/-- chunk independence of `Keydown.resolving`: same state (hence same `running`, `time_left`,
    `get_next_delay`), and the numbers of ticks add up -/
theorem keydown_add (s : Keydown) (a b : Int) (hi : s.Inv) (ha : 0 ≤ a) (hb : 0 ≤ b) :
    ((s.resolving a).1.resolving b).1 = (s.resolving (a + b)).1 ∧
    (s.resolving (a + b)).2 = (s.resolving a).2 + ((s.resolving a).1.resolving b).2 :=
  Keydown.resolving_add s a b hi ha hb

theorem keydown_inv_resolving (s : Keydown) (t : Int) (hi : s.Inv) : (s.resolving t).1.Inv :=
  Keydown.resolving_inv s t hi

/-- `start` establishes the invariant (prepare delays are non-negative) and `stop` keeps it -/
theorem keydown_inv_start (s : Keydown) (maxTime delay : Int) (hI : 0 < s.interval) (hd : 0 ≤ delay) :
    (s.start maxTime delay).Inv := ⟨hI, Or.inl hd⟩

theorem keydown_inv_stop (s : Keydown) (hi : s.Inv) (hc : 0 ≤ s.intervalCounter) : s.stop.Inv :=
  ⟨hi.1, Or.inl hc⟩

/-- under `Inv` the model's fuel is enough: the Python loop has stopped -/
theorem keydown_loop_stopped (s : Keydown) (t : Int) (hi : s.Inv) :
    0 < (s.resolving t).1.intervalCounter ∨ (s.resolving t).1.timeLeft < (s.resolving t).1.intervalCounter :=
  Keydown.resolving_stopped s t hi

theorem keydown_sum (s : Keydown) (t : Int) (ts : List Int) (hi : s.Inv) (ht : 0 ≤ t) (hts : ∀ u ∈ ts, 0 ≤ u) :
    ts.foldl (fun x u => (x.resolving u).1) (s.resolving t).1 = (s.resolving (t + ts.sum)).1 :=
  Loop.foldl_sum (fun x u => (Keydown.resolving x u).1) Eq Keydown.Inv (fun _ => rfl)
    (fun _ _ _ h1 h2 => h1.trans h2) (fun x t hx _ => Keydown.resolving_inv x t hx)
    (fun x a b hx ha hb => (Keydown.resolving_add x a b hx ha hb).1) ts t s hi ht hts

theorem keydown_ticks_sum (s : Keydown) (t : Int) (ts : List Int) (hi : s.Inv) (ht : 0 ≤ t)
    (hts : ∀ u ∈ ts, 0 ≤ u) :
    Loop.ticksAlong (fun x u => (Keydown.resolving x u).1) (fun x u => ((Keydown.resolving x u).2 : Int)) s (t :: ts)
      = ((s.resolving (t + ts.sum)).2 : Int) :=
  Loop.ticks_sum _ _ Keydown.Inv (fun x t hx _ => Keydown.resolving_inv x t hx)
    (fun x a b hx ha hb => by
      have := (Keydown.resolving_add x a b hx ha hb).2
      simp only [this, Int.natCast_add]) ts t s hi ht hts

example : (Keydown.start { interval := ms 300 } (ms 1000) (ms 900)).Inv := by decide
example : (Keydown.resolving ⟨ms 300, ms 900, ms 1000⟩ (ms 1500)).2 = 1 := by decide

/-! ## DOT tracker of the mob -/

/-- chunk independence of `DOT.elapse`: same remaining durations and period timer, and for every
    (name, damage) the emitted hits add up -/
theorem dot_add (s : DOT) (a b : Int) (hw : s.WF) (ha : 0 ≤ a) (hb : 0 ≤ b) :
    ((s.elapse a).1.elapse b).1 = (s.elapse (a + b)).1 ∧
    ∀ k, DOT.hits (s.elapse (a + b)).2 k = DOT.hits (s.elapse a).2 k + DOT.hits ((s.elapse a).1.elapse b).2 k :=
  DOT.elapse_add s a b hw ha hb

theorem dot_wf_elapse (s : DOT) (t : Int) (hw : s.WF) : (s.elapse t).1.WF := DOT.elapse_wf s t hw

theorem dot_wf_new (s : DOT) (n : String) (d : Rat) (l : Int) (hw : s.WF) : (s.new n d l).WF := hw

theorem dot_sum (s : DOT) (t : Int) (ts : List Int) (hw : s.WF) (ht : 0 ≤ t) (hts : ∀ u ∈ ts, 0 ≤ u) :
    ts.foldl (fun x u => (x.elapse u).1) (s.elapse t).1 = (s.elapse (t + ts.sum)).1 :=
  Loop.foldl_sum (fun x u => (DOT.elapse x u).1) Eq DOT.WF (fun _ => rfl)
    (fun _ _ _ h1 h2 => h1.trans h2) (fun x t hx _ => DOT.elapse_wf x t hx)
    (fun x a b hx ha hb => (DOT.elapse_add x a b hx ha hb).1) ts t s hw ht hts

theorem dot_ticks_sum (s : DOT) (k : String × Rat) (t : Int) (ts : List Int) (hw : s.WF) (ht : 0 ≤ t)
    (hts : ∀ u ∈ ts, 0 ≤ u) :
    Loop.ticksAlong (fun x u => (DOT.elapse x u).1) (fun x u => (DOT.hits (DOT.elapse x u).2 k : Int)) s (t :: ts)
      = (DOT.hits (s.elapse (t + ts.sum)).2 k : Int) :=
  Loop.ticks_sum _ _ DOT.WF (fun x t hx _ => DOT.elapse_wf x t hx)
    (fun x a b hx ha hb => by
      have := (DOT.elapse_add x a b hx ha hb).2 k
      simp only [this, Int.natCast_add]) ts t s hw ht hts

example : ((({} : DOT).new "a" 5 (ms 3500)).new "b" 7 (ms 1500)).WF := by decide
/-- 3000 ms at once or in thirty 100 ms steps: 500 ms of "a" remain (design §4 C09, finding F7, repaired) -/
example :
    let s := (({} : DOT).new "a" 5 (ms 3500)).new "b" 7 (ms 1500)
    (s.elapse (ms 3000)).1.current = [("a", 5, ms 500)] ∧
    ((List.replicate 30 (ms 100)).foldl (fun x u => (x.elapse u).1) s).current = [("a", 5, ms 500)] := by
  decide +kernel

/-! ## ProgrammedPeriodic -/

theorem programmedPeriodic_add (s : ProgrammedPeriodic) (a b : Int) (hw : s.WF) (ha : 0 ≤ a) (hb : 0 ≤ b) :
    ((s.resolving a).1.resolving b).1 = (s.resolving (a + b)).1 ∧
    (s.resolving (a + b)).2 = (s.resolving a).2 + ((s.resolving a).1.resolving b).2 :=
  ProgrammedPeriodic.resolving_add s a b hw ha hb

theorem programmedPeriodic_wf_resolving (s : ProgrammedPeriodic) (t : Int) (hw : s.WF) : (s.resolving t).1.WF :=
  ProgrammedPeriodic.resolving_wf s t hw

theorem programmedPeriodic_loop_stopped (s : ProgrammedPeriodic) (t : Int) (hw : s.WF) :
    0 < (s.resolving t).1.intervalCounter ∨ (s.resolving t).1.timeLeft ≤ 0 :=
  ProgrammedPeriodic.resolving_stopped s t hw

theorem programmedPeriodic_sum (s : ProgrammedPeriodic) (t : Int) (ts : List Int) (hw : s.WF) (ht : 0 ≤ t)
    (hts : ∀ u ∈ ts, 0 ≤ u) :
    ts.foldl (fun x u => (x.resolving u).1) (s.resolving t).1 = (s.resolving (t + ts.sum)).1 :=
  Loop.foldl_sum (fun x u => (ProgrammedPeriodic.resolving x u).1) Eq ProgrammedPeriodic.WF (fun _ => rfl)
    (fun _ _ _ h1 h2 => h1.trans h2) (fun x t hx _ => ProgrammedPeriodic.resolving_wf x t hx)
    (fun x a b hx ha hb => (ProgrammedPeriodic.resolving_add x a b hx ha hb).1) ts t s hw ht hts

example : ({ intervals := [ms 300, ms 500], timeLeft := ms 3000 } : ProgrammedPeriodic).WF := by decide
example : (ProgrammedPeriodic.resolving { intervals := [ms 300, ms 500], timeLeft := ms 3000 } (ms 1500)).2 = 4 := by
  decide

/-! ## DynamicIntervalPeriodic -/

/-- chunk independence of `DynamicIntervalPeriodic.resolving`: equivalent states, the yielded counts
    (one damage event batch per yield) concatenate -/
theorem dynamicIntervalPeriodic_add (s : DynamicIntervalPeriodic) (a b : Int) (hi : s.Inv) (ha : 0 ≤ a) (hb : 0 ≤ b) :
    DynamicIntervalPeriodic.Equiv ((s.resolving a).1.resolving b).1 (s.resolving (a + b)).1 ∧
    (s.resolving (a + b)).2 = (s.resolving a).2 ++ ((s.resolving a).1.resolving b).2 :=
  DynamicIntervalPeriodic.resolving_add s a b hi ha hb

theorem dynamicIntervalPeriodic_equiv_status (x y : DynamicIntervalPeriodic) (h : DynamicIntervalPeriodic.Equiv x y) :
    x.enabled = y.enabled ∧ x.timeLeft = y.timeLeft ∧ x.count = y.count :=
  ⟨h.enabled, h.timeLeft, h.count⟩

theorem dynamicIntervalPeriodic_equiv_congr (x y : DynamicIntervalPeriodic) (h : DynamicIntervalPeriodic.Equiv x y)
    (t c : Int) (ht : 0 ≤ t) :
    DynamicIntervalPeriodic.Equiv (x.resolving t).1 (y.resolving t).1 ∧ (x.resolving t).2 = (y.resolving t).2 ∧
    x.setTimeLeft t c = y.setTimeLeft t c ∧ DynamicIntervalPeriodic.Equiv x.disable y.disable :=
  ⟨(DynamicIntervalPeriodic.resolving_equiv x y t h ht).1, (DynamicIntervalPeriodic.resolving_equiv x y t h ht).2,
   h.setTimeLeft t c, h.disable⟩

theorem dynamicIntervalPeriodic_inv_resolving (s : DynamicIntervalPeriodic) (t : Int) (hi : s.Inv) :
    (s.resolving t).1.Inv := DynamicIntervalPeriodic.resolving_inv s t hi

theorem dynamicIntervalPeriodic_inv_setTimeLeft (s : DynamicIntervalPeriodic) (t c : Int) (hw : s.WF)
    (ht : 0 ≤ t) (hc : 0 ≤ c) : (s.setTimeLeft t c).Inv := by
  obtain ⟨h1, h2, _, h4⟩ := hw
  refine ⟨⟨h1, h2, hc, h4⟩, ?_⟩
  intro h
  simp only [DynamicIntervalPeriodic.setTimeLeft] at h
  omega

theorem dynamicIntervalPeriodic_sum (s : DynamicIntervalPeriodic) (t : Int) (ts : List Int) (hi : s.Inv)
    (ht : 0 ≤ t) (hts : ∀ u ∈ ts, 0 ≤ u) :
    DynamicIntervalPeriodic.Equiv (ts.foldl (fun x u => (x.resolving u).1) (s.resolving t).1)
      (s.resolving (t + ts.sum)).1 :=
  Loop.foldl_sum (fun x u => (DynamicIntervalPeriodic.resolving x u).1) DynamicIntervalPeriodic.Equiv
    DynamicIntervalPeriodic.Inv DynamicIntervalPeriodic.Equiv.refl (fun _ _ _ h1 h2 => h1.trans h2)
    (fun x t hx _ => DynamicIntervalPeriodic.resolving_inv x t hx)
    (fun x a b hx ha hb => (DynamicIntervalPeriodic.resolving_add x a b hx ha hb).1) ts t s hi ht hts

example : ({ interval := ms 300, countIntervalPenalty := ms 120, maxCount := 5, timeLeft := ms 3000,
             count := 2 } : DynamicIntervalPeriodic).Inv := by decide
example :
    let s : DynamicIntervalPeriodic :=
      { interval := ms 300, countIntervalPenalty := ms 120, maxCount := 5, timeLeft := ms 3000, count := 2 }
    (s.resolving (ms 1500)).2 = [2, 3, 4] := by decide

/-! ## CurrentField -/

theorem currentField_add (s : CurrentField) (a b : Int) (hw : ∀ p ∈ s.fieldPeriodics, p.WF)
    (ha : 0 ≤ a) (hb : 0 ≤ b) :
    ((s.elapse a).1.elapse b).1 = (s.elapse (a + b)).1 ∧
    (s.elapse (a + b)).2 = (s.elapse a).2 + ((s.elapse a).1.elapse b).2 :=
  CurrentField.elapse_add s a b hw ha hb

theorem currentField_wf_elapse (s : CurrentField) (t : Int) (hw : ∀ p ∈ s.fieldPeriodics, p.WF) :
    ∀ p ∈ (s.elapse t).1.fieldPeriodics, p.WF := CurrentField.elapse_wf s t hw

theorem currentField_sum (s : CurrentField) (t : Int) (ts : List Int) (hw : ∀ p ∈ s.fieldPeriodics, p.WF)
    (ht : 0 ≤ t) (hts : ∀ u ∈ ts, 0 ≤ u) :
    ts.foldl (fun x u => (x.elapse u).1) (s.elapse t).1 = (s.elapse (t + ts.sum)).1 :=
  Loop.foldl_sum (fun x u => (CurrentField.elapse x u).1) Eq (fun x => ∀ p ∈ x.fieldPeriodics, p.WF) (fun _ => rfl)
    (fun _ _ _ h1 h2 => h1.trans h2) (fun x t hx _ => CurrentField.elapse_wf x t hx)
    (fun x a b hx ha hb => (CurrentField.elapse_add x a b hx ha hb).1) ts t s hw ht hts

example :
    let s : CurrentField := { fieldInterval := ms 300, fieldDuration := ms 1000, maxCount := 3,
                              forceTriggerInterval := ms 5000,
                              fieldPeriodics := [{ interval := ms 300, intervalCounter := ms 100, timeLeft := ms 700 }] }
    (∀ p ∈ s.fieldPeriodics, p.WF) ∧ (s.elapse (ms 500)).2 = 2 := by decide

/-! ## OrderSword — chunk DEPENDENT (known finding F10) -/

/-- FULL STATEMENT (false): for every sword list, `a b ≥ 0`:
    `((s.resolving a m).1.resolving b m).1 = (s.resolving (a+b) m).1` and the ticks add.
    PROVED: the same for splits that stay at least one interval away from the end of every sword
    (`SwordOK`: counter ≥ 0 and `a + b + interval ≤ time_left`) on a list within the sword cap.
    MISSING: nothing can be added — the cap `time_left // interval` of ticks per call makes the rest false,
    see `orderSword_not_add`. -/
theorem orderSword_add_partial (s : OrderSword) (a b m : Int) (hI : 0 < s.interval) (ha : 0 ≤ a) (hb : 0 ≤ b)
    (hlen : (s.runningSwords.length : Int) * 2 ≤ m)
    (hok : ∀ sw ∈ s.runningSwords, OrderSword.SwordOK s.interval (a + b) sw) :
    ((s.resolving a m).1.resolving b m).1 = (s.resolving (a + b) m).1 ∧
    (s.resolving (a + b) m).2 = (s.resolving a m).2 + ((s.resolving a m).1.resolving b m).2 :=
  OrderSword.resolving_add_partial s a b m hI ha hb hlen hok

/-- the negation witness: one pair of swords with 2500 ms left, interval 1000 ms — 2500 ms at once gives
    2 ticks, 1200 ms + 1300 ms gives 3 -/
theorem orderSword_not_add :
    ∃ (s : OrderSword) (a b m : Int), 0 < s.interval ∧ 0 ≤ a ∧ 0 ≤ b ∧ (s.runningSwords.length : Int) * 2 ≤ m ∧
      (s.resolving (a + b) m).2 = 2 ∧ (s.resolving a m).2 + ((s.resolving a m).1.resolving b m).2 = 3 :=
  ⟨{ runningSwords := [(0, ms 2500)], interval := ms 1000 }, ms 1200, ms 1300, 6, by decide⟩

example : OrderSword.SwordOK (ms 1020) (ms 1200 + ms 1300) (0, ms 40000) := by
  unfold OrderSword.SwordOK; decide

end Simaple.Props.C09
