/-
C09 (part `Common`) — component level: letting time pass in one step or in two gives the same damage
ticks and the same status.  For every modelled class `X` (the 7 of `Model/Component.lean` and the classes
of `Model/ComponentCommon.lean`) and all `0 ≤ a`, `0 ≤ b`:

    elapse b (elapse a s)   vs   elapse (a + b) s

* the damage ticks (`dmg` = the `(damage, hit, modifier)` of the damage events of an answer, in order) of
  the one-step answer are a permutation of those of the two answers together (`List.Perm`; an equality
  of lists where the class has a single kind of tick);
* the final states are equal — or, where a `Periodic` is involved, equivalent (`Periodic.Equiv`: equal up
  to the dead `interval_counter` of an expired periodic), and then the views (`validity`, `running`) are
  proved equal and the equivalence is proved to be respected by `elapse` (`…_equiv_congr`).
Hypotheses are the explicit decidable well-formedness / reachability predicates (`Periodic.WF`,
`Keydown.Inv`, `ProgrammedPeriodic.WF`, `Consumable.WF`, `DOT.WF`, `HitLimited.Inv`); each is proved to be
established by `use` and kept by `elapse` (`…_inv_preserved`), and the driver evaluates them on every
harvested real state (`DrvComponentCommon`).  Many-way splits follow by induction from the two-way split
exactly as at the entity level (`Simaple.Props.C09.*_sum`).
-/
import Simaple.Proofs.ComponentCommon

namespace Simaple.Props.C09_Common
open Simaple.Comp Simaple.Comp.Common Simaple.Entity

/-! ## classes whose `elapse` only runs linear timers: equal states (hence equal views), no tick at all;
    no hypothesis, not even on the signs -/

theorem buff_chunk_independent (p : BuffSkill.P) (s : BuffSkill.S) (a b : Int) :
    (BuffSkill.elapse p b (BuffSkill.elapse p a s).1).1 = (BuffSkill.elapse p (a + b) s).1 ∧
    dmg (BuffSkill.elapse p (a + b) s).2 = dmg (BuffSkill.elapse p a s).2 ++ dmg (BuffSkill.elapse p b (BuffSkill.elapse p a s).1).2 := by
  refine ⟨?_, rfl⟩
  simp only [BuffSkill.elapse, Cooldown.elapse_add, Lasting.elapse_add]

theorem attack_chunk_independent (p : AttackSkill.P) (s : AttackSkill.S) (a b : Int) :
    (AttackSkill.elapse p b (AttackSkill.elapse p a s).1).1 = (AttackSkill.elapse p (a + b) s).1 ∧
    dmg (AttackSkill.elapse p (a + b) s).2 =
      dmg (AttackSkill.elapse p a s).2 ++ dmg (AttackSkill.elapse p b (AttackSkill.elapse p a s).1).2 := by
  refine ⟨?_, rfl⟩
  simp only [AttackSkill.elapse, Cooldown.elapse_add]

theorem dotAttack_chunk_independent (p : DotAttack.P) (s : AttackSkill.S) (a b : Int) :
    (DotAttack.elapse p b (DotAttack.elapse p a s).1).1 = (DotAttack.elapse p (a + b) s).1 ∧
    dmg (DotAttack.elapse p (a + b) s).2 =
      dmg (DotAttack.elapse p a s).2 ++ dmg (DotAttack.elapse p b (DotAttack.elapse p a s).1).2 :=
  attack_chunk_independent p.toP s a b

theorem triggable_chunk_independent (p : TriggableBuff.P) (s : TriggableBuff.S) (a b : Int) :
    (TriggableBuff.elapse p b (TriggableBuff.elapse p a s).1).1 = (TriggableBuff.elapse p (a + b) s).1 ∧
    dmg (TriggableBuff.elapse p (a + b) s).2 =
      dmg (TriggableBuff.elapse p a s).2 ++ dmg (TriggableBuff.elapse p b (TriggableBuff.elapse p a s).1).2 := by
  refine ⟨?_, rfl⟩
  simp only [TriggableBuff.elapse, Cooldown.elapse_add, Lasting.elapse_add]

theorem synergy_chunk_independent (p : SynergySkill.P) (s : SynergySkill.S) (a b : Int) :
    (SynergySkill.elapse p b (SynergySkill.elapse p a s).1).1 = (SynergySkill.elapse p (a + b) s).1 ∧
    dmg (SynergySkill.elapse p (a + b) s).2 =
      dmg (SynergySkill.elapse p a s).2 ++ dmg (SynergySkill.elapse p b (SynergySkill.elapse p a s).1).2 := by
  refine ⟨?_, rfl⟩
  simp only [SynergySkill.elapse, Cooldown.elapse_add, Lasting.elapse_add]

theorem multipleHit_chunk_independent (p : MultipleHit.P) (s : MultipleHit.S) (a b : Int) :
    (MultipleHit.elapse p b (MultipleHit.elapse p a s).1).1 = (MultipleHit.elapse p (a + b) s).1 ∧
    dmg (MultipleHit.elapse p (a + b) s).2 =
      dmg (MultipleHit.elapse p a s).2 ++ dmg (MultipleHit.elapse p b (MultipleHit.elapse p a s).1).2 := by
  refine ⟨?_, rfl⟩
  simp only [MultipleHit.elapse, Cooldown.elapse_add]

theorem stackableBuff_chunk_independent (p : StackableBuff.P) (s : StackableBuff.S) (a b : Int) :
    (StackableBuff.elapse p b (StackableBuff.elapse p a s).1).1 = (StackableBuff.elapse p (a + b) s).1 ∧
    dmg (StackableBuff.elapse p (a + b) s).2 =
      dmg (StackableBuff.elapse p a s).2 ++ dmg (StackableBuff.elapse p b (StackableBuff.elapse p a s).1).2 := by
  refine ⟨?_, rfl⟩
  simp only [StackableBuff.elapse, Cooldown.elapse_add, Lasting.elapse_add]

theorem temporal_chunk_independent (p : TemporalEnhancing.P) (s : TemporalEnhancing.S) (a b : Int) :
    (TemporalEnhancing.elapse p b (TemporalEnhancing.elapse p a s).1).1 = (TemporalEnhancing.elapse p (a + b) s).1 ∧
    dmg (TemporalEnhancing.elapse p (a + b) s).2 =
      dmg (TemporalEnhancing.elapse p a s).2 ++ dmg (TemporalEnhancing.elapse p b (TemporalEnhancing.elapse p a s).1).2 := by
  refine ⟨?_, rfl⟩
  simp only [TemporalEnhancing.elapse, Cooldown.elapse_add]

/-! ## ConsumableBuffSkillComponent: equal states under `0 < cooldown_duration` -/

theorem consumableBuff_chunk_independent (p : ConsumableBuff.P) (s : ConsumableBuff.S) (a b : Int)
    (hw : s.consumable.WF) (ha : 0 ≤ a) (hb : 0 ≤ b) :
    (ConsumableBuff.elapse p b (ConsumableBuff.elapse p a s).1).1 = (ConsumableBuff.elapse p (a + b) s).1 ∧
    dmg (ConsumableBuff.elapse p (a + b) s).2 =
      dmg (ConsumableBuff.elapse p a s).2 ++ dmg (ConsumableBuff.elapse p b (ConsumableBuff.elapse p a s).1).2 := by
  refine ⟨?_, rfl⟩
  simp only [ConsumableBuff.elapse, Consumable.elapse_add s.consumable a b hw ha hb, Lasting.elapse_add]

/-- `Consumable.WF` is kept by both reducers -/
theorem consumableBuff_inv_preserved (p : ConsumableBuff.P) (s : ConsumableBuff.S) (t : Int) (hw : s.consumable.WF) :
    (ConsumableBuff.elapse p t s).1.consumable.WF ∧ (ConsumableBuff.use p s).1.consumable.WF := by
  constructor
  · exact Consumable.elapse_wf _ _ hw
  · unfold ConsumableBuff.use
    split
    · exact hw
    · exact hw

/-! ## classes built on `elapse_periodic_damage_trait`: PeriodicDamageConfiguratedAttackSkillComponent,
    PeriodicDamageConfiguratedHexaSkillComponent -/

theorem periodicAttack_chunk_independent (p : PeriodicAttack.P) (s : PeriodicAttack.S) (a b : Int)
    (hw : s.periodic.WF) (ha : 0 ≤ a) (hb : 0 ≤ b) :
    PEquiv (PeriodicAttack.elapse p b (PeriodicAttack.elapse p a s).1).1 (PeriodicAttack.elapse p (a + b) s).1 ∧
    dmg (PeriodicAttack.elapse p (a + b) s).2 =
      dmg (PeriodicAttack.elapse p a s).2 ++ dmg (PeriodicAttack.elapse p b (PeriodicAttack.elapse p a s).1).2 :=
  periodicTrait_split p.periodicDamage p.periodicHit s a b hw ha hb

/-- equivalent states show the same views, answer the same events to `elapse` and `use`, and stay equivalent -/
theorem periodicAttack_equiv_congr (p : PeriodicAttack.P) (x y : PeriodicAttack.S) (h : PEquiv x y) (t : Int) :
    PeriodicAttack.validity p x = PeriodicAttack.validity p y ∧ PeriodicAttack.running p x = PeriodicAttack.running p y ∧
    PEquiv (PeriodicAttack.elapse p t x).1 (PeriodicAttack.elapse p t y).1 ∧
    (PeriodicAttack.elapse p t x).2 = (PeriodicAttack.elapse p t y).2 ∧
    (∀ r, PeriodicAttack.use p x = .ok r → ∃ r', PeriodicAttack.use p y = .ok r' ∧ PEquiv r.1 r'.1 ∧ r.2 = r'.2) := by
  have hc := periodicTrait_congr p.periodicDamage p.periodicHit t x y h
  refine ⟨?_, ?_, hc.1, hc.2, ?_⟩
  · simp only [PeriodicAttack.validity, h.1]
  · simp only [PeriodicAttack.running, h.2.timeLeft]
  · intro r hr
    unfold PeriodicAttack.use at hr ⊢
    rw [← h.1, ← h.2.setTimeLeft]
    split at hr
    · rename_i hc'
      rw [if_pos hc']
      cases hr
      exact ⟨_, rfl, h, rfl⟩
    · rename_i hc'
      rw [if_neg hc']
      cases hs : x.periodic.setTimeLeft p.lastingDuration with
      | error e => simp [hs] at hr
      | ok per =>
        simp [hs] at hr
        refine ⟨_, rfl, ?_, ?_⟩
        · rw [← hr]; exact ⟨rfl, Periodic.Equiv.refl _⟩
        · rw [← hr]

/-- `Periodic.WF` is established by `use` and kept by `elapse` -/
theorem periodicAttack_inv_preserved (p : PeriodicAttack.P) (s : PeriodicAttack.S) (t : Int) (hw : s.periodic.WF) :
    (PeriodicAttack.elapse p t s).1.periodic.WF ∧ (∀ r, PeriodicAttack.use p s = .ok r → r.1.periodic.WF) := by
  constructor
  · exact Periodic.elapse_wf _ _ hw
  · intro r hr
    unfold PeriodicAttack.use at hr
    split at hr
    · cases hr; exact hw
    · cases hs : s.periodic.setTimeLeft p.lastingDuration with
      | error e => simp [hs] at hr
      | ok per => simp [hs] at hr; rw [← hr]; exact setTimeLeft_wf _ _ _ hw.1 hs

theorem periodicHexa_chunk_independent (p : PeriodicHexa.P) (s : PeriodicHexa.S) (a b : Int)
    (hw : s.periodic.WF) (ha : 0 ≤ a) (hb : 0 ≤ b) :
    PEquiv (PeriodicHexa.elapse p b (PeriodicHexa.elapse p a s).1).1 (PeriodicHexa.elapse p (a + b) s).1 ∧
    dmg (PeriodicHexa.elapse p (a + b) s).2 =
      dmg (PeriodicHexa.elapse p a s).2 ++ dmg (PeriodicHexa.elapse p b (PeriodicHexa.elapse p a s).1).2 :=
  periodicTrait_split p.periodicDamage p.periodicHit s a b hw ha hb

theorem periodicHexa_equiv_congr (p : PeriodicHexa.P) (x y : PeriodicHexa.S) (h : PEquiv x y) (t : Int) :
    PeriodicHexa.validity p x = PeriodicHexa.validity p y ∧ PeriodicHexa.running p x = PeriodicHexa.running p y ∧
    PEquiv (PeriodicHexa.elapse p t x).1 (PeriodicHexa.elapse p t y).1 ∧
    (PeriodicHexa.elapse p t x).2 = (PeriodicHexa.elapse p t y).2 := by
  have hc := periodicTrait_congr p.periodicDamage p.periodicHit t x y h
  refine ⟨?_, ?_, hc.1, hc.2⟩
  · simp only [PeriodicHexa.validity, h.1]
  · simp only [PeriodicHexa.running, h.2.timeLeft]

theorem periodicHexa_inv_preserved (p : PeriodicHexa.P) (s : PeriodicHexa.S) (t : Int) (hw : s.periodic.WF) :
    (PeriodicHexa.elapse p t s).1.periodic.WF ∧ (∀ r, PeriodicHexa.use p s = .ok r → r.1.periodic.WF) := by
  constructor
  · exact Periodic.elapse_wf _ _ hw
  · intro r hr
    unfold PeriodicHexa.use at hr
    split at hr
    · cases hr; exact hw
    · cases hs : s.periodic.setTimeLeft p.lastingDuration with
      | error e => simp [hs] at hr
      | ok per => simp [hs] at hr; rw [← hr]; exact setTimeLeft_wf _ _ _ hw.1 hs

/-! ## PeriodicWithFinishSkillComponent: the finishing blow falls in exactly one chunk -/

theorem periodicWithFinish_chunk_independent (p : PeriodicWithFinish.P) (s : PeriodicWithFinish.S) (a b : Int)
    (hw : s.periodic.WF) (ha : 0 ≤ a) (hb : 0 ≤ b) :
    PEquiv (PeriodicWithFinish.elapse p b (PeriodicWithFinish.elapse p a s).1).1 (PeriodicWithFinish.elapse p (a + b) s).1 ∧
    (dmg (PeriodicWithFinish.elapse p (a + b) s).2).Perm
      (dmg (PeriodicWithFinish.elapse p a s).2 ++ dmg (PeriodicWithFinish.elapse p b (PeriodicWithFinish.elapse p a s).1).2) ∧
    PeriodicWithFinish.validity p (PeriodicWithFinish.elapse p b (PeriodicWithFinish.elapse p a s).1).1 =
      PeriodicWithFinish.validity p (PeriodicWithFinish.elapse p (a + b) s).1 ∧
    PeriodicWithFinish.running p (PeriodicWithFinish.elapse p b (PeriodicWithFinish.elapse p a s).1).1 =
      PeriodicWithFinish.running p (PeriodicWithFinish.elapse p (a + b) s).1 := by
  have hadd := Periodic.elapse_add' s.periodic a b hw ha hb
  have hst : PEquiv (PeriodicWithFinish.elapse p b (PeriodicWithFinish.elapse p a s).1).1 (PeriodicWithFinish.elapse p (a + b) s).1 := by
    refine ⟨?_, hadd⟩
    simp only [PeriodicWithFinish.elapse, Cooldown.elapse_add]
  refine ⟨hst, ?_, ?_, ?_⟩
  · simp only [periodicWithFinish_dmg]
    have e1 : (PeriodicWithFinish.elapse p a s).1.periodic = s.periodic.elapse a := rfl
    rw [e1]
    have hf := finishOf_split s.periodic.enabled (s.periodic.elapse a).enabled (s.periodic.elapse (a + b)).enabled
      p.finishDamage p.finishHit (fun h => elapse_disabled _ _ h)
      (fun h => by rw [← hadd.enabled]; exact elapse_disabled _ _ h)
    rw [hf, periodic_ticks_add s.periodic a b hw ha hb, ← List.replicate_append_replicate, hadd.enabled]
    rw [List.perm_iff_count]
    intro x
    simp only [List.count_append]
    omega
  · simp only [PeriodicWithFinish.validity, hst.1]
  · simp only [PeriodicWithFinish.running, hst.2.timeLeft]

theorem periodicWithFinish_inv_preserved (p : PeriodicWithFinish.P) (s : PeriodicWithFinish.S) (t : Int) (hw : s.periodic.WF) :
    (PeriodicWithFinish.elapse p t s).1.periodic.WF ∧ (∀ r, PeriodicWithFinish.use p s = .ok r → r.1.periodic.WF) := by
  constructor
  · exact Periodic.elapse_wf _ _ hw
  · intro r hr
    unfold PeriodicWithFinish.use at hr
    split at hr
    · cases hr; exact hw
    · cases hs : s.periodic.setTimeLeft p.lastingDuration with
      | error e => simp [hs] at hr
      | ok per => simp [hs] at hr; rw [← hr]; exact setTimeLeft_wf _ _ _ hw.1 hs

/-! ## TriplePeriodicDamageHexaComponent: three periodics, the ticks interleave differently -/

theorem tripleHexa_chunk_independent (p : TripleHexa.P) (s : TripleHexa.S) (a b : Int)
    (hw : TripleHexa.Inv s) (ha : 0 ≤ a) (hb : 0 ≤ b) :
    (TripleHexa.elapse p b (TripleHexa.elapse p a s).1).1.cooldown = (TripleHexa.elapse p (a + b) s).1.cooldown ∧
    Periodic.Equiv (TripleHexa.elapse p b (TripleHexa.elapse p a s).1).1.p1 (TripleHexa.elapse p (a + b) s).1.p1 ∧
    Periodic.Equiv (TripleHexa.elapse p b (TripleHexa.elapse p a s).1).1.p2 (TripleHexa.elapse p (a + b) s).1.p2 ∧
    Periodic.Equiv (TripleHexa.elapse p b (TripleHexa.elapse p a s).1).1.p3 (TripleHexa.elapse p (a + b) s).1.p3 ∧
    (dmg (TripleHexa.elapse p (a + b) s).2).Perm
      (dmg (TripleHexa.elapse p a s).2 ++ dmg (TripleHexa.elapse p b (TripleHexa.elapse p a s).1).2) ∧
    TripleHexa.validity p (TripleHexa.elapse p b (TripleHexa.elapse p a s).1).1 =
      TripleHexa.validity p (TripleHexa.elapse p (a + b) s).1 ∧
    TripleHexa.running p (TripleHexa.elapse p b (TripleHexa.elapse p a s).1).1 =
      TripleHexa.running p (TripleHexa.elapse p (a + b) s).1 := by
  obtain ⟨w1, w2, w3⟩ := hw
  have q1 := Periodic.elapse_add' s.p1 a b w1 ha hb
  have q2 := Periodic.elapse_add' s.p2 a b w2 ha hb
  have q3 := Periodic.elapse_add' s.p3 a b w3 ha hb
  have hcd : (TripleHexa.elapse p b (TripleHexa.elapse p a s).1).1.cooldown = (TripleHexa.elapse p (a + b) s).1.cooldown := by
    simp only [TripleHexa.elapse, Cooldown.elapse_add]
  refine ⟨hcd, q1, q2, q3, ?_, ?_, ?_⟩
  · simp only [TripleHexa.elapse, TripleHexa.ticks, Periodic.elapse', dmg_cons_elapsed, dmg_append, dmg_replicate_dealt,
      periodic_ticks_add s.p1 a b w1 ha hb, periodic_ticks_add s.p2 a b w2 ha hb, periodic_ticks_add s.p3 a b w3 ha hb]
    simp only [← List.replicate_append_replicate]
    rw [List.perm_iff_count]
    intro x
    simp only [List.count_append]
    omega
  · simp only [TripleHexa.validity, hcd]
  · simp only [TripleHexa.running]
    have : (TripleHexa.elapse p b (TripleHexa.elapse p a s).1).1.p1.timeLeft = (TripleHexa.elapse p (a + b) s).1.p1.timeLeft :=
      q1.timeLeft
    rw [this]

theorem tripleHexa_inv_preserved (p : TripleHexa.P) (s : TripleHexa.S) (t : Int) (hw : TripleHexa.Inv s) :
    TripleHexa.Inv (TripleHexa.elapse p t s).1 ∧ (∀ r, TripleHexa.use p s = .ok r → TripleHexa.Inv r.1) := by
  obtain ⟨w1, w2, w3⟩ := hw
  constructor
  · exact ⟨Periodic.elapse_wf _ _ w1, Periodic.elapse_wf _ _ w2, Periodic.elapse_wf _ _ w3⟩
  · intro r hr
    unfold TripleHexa.use at hr
    split at hr
    · cases hr; exact ⟨w1, w2, w3⟩
    · cases h1 : s.p1.setTimeLeft p.lastingDuration with
      | error e => simp [h1] at hr
      | ok y1 =>
        cases h2 : s.p2.setTimeLeft p.lastingDuration with
        | error e => simp [h1, h2] at hr
        | ok y2 =>
          cases h3 : s.p3.setTimeLeft p.lastingDuration with
          | error e => simp [h1, h2, h3] at hr
          | ok y3 =>
            simp [h1, h2, h3] at hr; rw [← hr]
            exact ⟨setTimeLeft_wf _ _ _ w1.1 h1, setTimeLeft_wf _ _ _ w2.1 h2, setTimeLeft_wf _ _ _ w3.1 h3⟩

/-! ## ProgrammedPeriodicComponent: equal states, the tick counts add up -/

theorem programmed_chunk_independent (p : Programmed.P) (s : Programmed.S) (a b : Int)
    (hw : s.programmed.WF) (ha : 0 ≤ a) (hb : 0 ≤ b) :
    (Programmed.elapse p b (Programmed.elapse p a s).1).1 = (Programmed.elapse p (a + b) s).1 ∧
    dmg (Programmed.elapse p (a + b) s).2 =
      dmg (Programmed.elapse p a s).2 ++ dmg (Programmed.elapse p b (Programmed.elapse p a s).1).2 := by
  have h := ProgrammedPeriodic.resolving_add s.programmed a b hw ha hb
  constructor
  · simp only [Programmed.elapse, Cooldown.elapse_add, h.1]
  · simp only [Programmed.elapse, dmg_cons_elapsed, dmg_replicate_dealt, h.2, List.replicate_append_replicate]

theorem programmed_inv_preserved (p : Programmed.P) (s : Programmed.S) (t : Int) (hw : s.programmed.WF) :
    (Programmed.elapse p t s).1.programmed.WF ∧ (Programmed.use p s).1.programmed.WF := by
  constructor
  · exact ProgrammedPeriodic.resolving_wf _ _ hw
  · unfold Programmed.use
    split
    · exact hw
    · exact hw

/-! ## KeydownSkillComponent: equal states; hits add up and the finishing blow falls in exactly one chunk -/

theorem keydown_chunk_independent (p : KeydownSkill.P) (s : KeydownSkill.S) (a b : Int)
    (hi : s.keydown.Inv) (ha : 0 ≤ a) (hb : 0 ≤ b) :
    (KeydownSkill.elapse p b (KeydownSkill.elapse p a s).1).1 = (KeydownSkill.elapse p (a + b) s).1 ∧
    (dmg (KeydownSkill.elapse p (a + b) s).2).Perm
      (dmg (KeydownSkill.elapse p a s).2 ++ dmg (KeydownSkill.elapse p b (KeydownSkill.elapse p a s).1).2) := by
  have h := Keydown.resolving_add s.keydown a b hi ha hb
  have e1 : ∀ t (x : KeydownSkill.S), (KeydownSkill.elapse p t x).1 =
      { cooldown := x.cooldown.elapse t, keydown := (x.keydown.resolving t).1 } := by
    intro t x; unfold KeydownSkill.elapse; simp only []; split <;> rfl
  constructor
  · simp only [e1, Cooldown.elapse_add, h.1]
  · simp only [keydown_dmg, e1]
    have hf := finishOf_split s.keydown.running (s.keydown.resolving a).1.running (s.keydown.resolving (a + b)).1.running
      p.finishDamage p.finishHit (fun hh => keydown_stays_stopped _ _ ha hh)
      (fun hh => by rw [← h.1]; exact keydown_stays_stopped _ _ hb hh)
    rw [hf, h.2, ← List.replicate_append_replicate, h.1]
    rw [List.perm_iff_count]
    intro x
    simp only [List.count_append]
    omega

/-- `Keydown.Inv` is established by an accepted `use` (non-negative prepare delay), kept by `elapse` and `stop` -/
theorem keydown_inv_preserved (p : KeydownSkill.P) (s : KeydownSkill.S) (t : Int) (hi : s.keydown.Inv)
    (hd : 0 ≤ p.prepareDelay) :
    (KeydownSkill.elapse p t s).1.keydown.Inv ∧ (KeydownSkill.use p s).1.keydown.Inv ∧ (KeydownSkill.stop p s).1.keydown.Inv := by
  refine ⟨?_, ?_, ?_⟩
  · have : (KeydownSkill.elapse p t s).1.keydown = (s.keydown.resolving t).1 := by
      unfold KeydownSkill.elapse; simp only []; split <;> rfl
    rw [this]; exact Keydown.resolving_inv _ _ hi
  · unfold KeydownSkill.use
    split
    · exact hi
    · exact ⟨hi.1, Or.inl hd⟩
  · unfold KeydownSkill.stop
    split
    · exact hi
    · rename_i hr
      have hrun : 0 < s.keydown.timeLeft := by simpa [Keydown.running] using hr
      obtain ⟨h1, h2⟩ := hi
      refine ⟨h1, ?_⟩
      simp only [Keydown.stop]
      omega

/-! ## HitLimitedPeriodicDamageComponent (the tick that reaches `max_count` is never dealt, the periodic is
    then switched off): chunk independent on reachable states -/

theorem hitLimited_chunk_independent (p : HitLimited.P) (s : HitLimited.S) (a b : Int)
    (hi : HitLimited.Inv p s) (ha : 0 ≤ a) (hb : 0 ≤ b) :
    (HitLimited.elapse p b (HitLimited.elapse p a s).1).1.cooldown = (HitLimited.elapse p (a + b) s).1.cooldown ∧
    Periodic.Equiv (HitLimited.elapse p b (HitLimited.elapse p a s).1).1.periodic (HitLimited.elapse p (a + b) s).1.periodic ∧
    dmg (HitLimited.elapse p (a + b) s).2 =
      dmg (HitLimited.elapse p a s).2 ++ dmg (HitLimited.elapse p b (HitLimited.elapse p a s).1).2 ∧
    HitLimited.validity p (HitLimited.elapse p b (HitLimited.elapse p a s).1).1 =
      HitLimited.validity p (HitLimited.elapse p (a + b) s).1 := by
  have h := HitLimited.elapse_add p s a b hi ha hb
  refine ⟨h.1, h.2.1, h.2.2, ?_⟩
  simp only [HitLimited.validity, h.1]

/-- the reachability invariant is established by `use` (positive hit limit) and kept by `elapse` -/
theorem hitLimited_inv_preserved (p : HitLimited.P) (s : HitLimited.S) (t : Int) (hp : HitLimited.PInv p)
    (hi : HitLimited.Inv p s) :
    HitLimited.Inv p (HitLimited.elapse p t s).1 ∧ (∀ r, HitLimited.use p s = .ok r → HitLimited.Inv p r.1) :=
  ⟨HitLimited.elapse_inv p t s hi, fun r hr => HitLimited.use_inv p s r hp hi hr⟩

/-- on a reachable state the model's fuel suffices: the answer is the periodic's own `elapse` while the limit
    is not reached, and a periodic switched off at exactly `max_count` afterwards, with `max_count − 1` hits in all -/
theorem hitLimited_elapse_closed_form (p : HitLimited.P) (t : Int) (s : HitLimited.S) (hi : HitLimited.Inv p s) :
    ∃ (per : Periodic) (hits : Nat),
      HitLimited.elapse p t s = ({ cooldown := s.cooldown.elapse t, periodic := per },
                      .elapsed t :: List.replicate hits (.dealt p.periodicDamage p.periodicHit)) ∧ per.WF ∧
      (((s.periodic.elapse t).count < p.maxCount ∧ per = s.periodic.elapse t ∧
          hits = ((s.periodic.elapse t).count - s.periodic.count).toNat) ∨
       (p.maxCount ≤ (s.periodic.elapse t).count ∧ per.timeLeft = 0 ∧ per.count = p.maxCount ∧
          hits = (p.maxCount - 1 - s.periodic.count).toNat)) := by
  obtain ⟨per, hits, he, hw, hc⟩ := HitLimited.elapse_char p t s hi
  refine ⟨per, hits, he, hw, ?_⟩
  rcases hc with h | ⟨h1, h2, h3⟩
  · exact Or.inl h
  · exact Or.inr ⟨h1, h2.timeLeft, h2.count, h3⟩

/-! ## MobComponent: the DOT tracker (equal states, per (name, damage) the hits add up) -/

theorem mob_chunk_independent (s : DOT) (a b : Int) (hw : s.WF) (ha : 0 ≤ a) (hb : 0 ≤ b) :
    (Mob.elapse (Mob.elapse s a).1 b).1 = (Mob.elapse s (a + b)).1 ∧
    ∀ k, DOT.hits (Mob.elapse s (a + b)).2 k = DOT.hits (Mob.elapse s a).2 k + DOT.hits (Mob.elapse (Mob.elapse s a).1 b).2 k :=
  DOT.elapse_add s a b hw ha hb

theorem mob_inv_preserved (s : DOT) (name : String) (damage : Rat) (lasting t : Int) (hw : s.WF) :
    (Mob.elapse s t).1.WF ∧ (Mob.addDot s name damage lasting).WF :=
  ⟨DOT.elapse_wf s t hw, hw⟩

/-! ## non-vacuity -/
example : HitLimited.Inv ⟨ms 1000, 0, 10, 1, ms 5000, 3⟩ ⟨⟨0⟩, { interval := ms 300, intervalCounter := ms 300, timeLeft := ms 5000 }⟩ := by
  decide
/-- limit 3: only two ticks are dealt, in one step or in two -/
example :
    let p : HitLimited.P := ⟨ms 1000, 0, 10, 1, ms 5000, 3⟩
    let s : HitLimited.S := ⟨⟨0⟩, { interval := ms 300, intervalCounter := ms 300, timeLeft := ms 5000 }⟩
    dmg (HitLimited.elapse p (ms 2000) s).2 = [(10, 1, ""), (10, 1, "")] ∧
    dmg (HitLimited.elapse p (ms 700) s).2 ++ dmg (HitLimited.elapse p (ms 1300) (HitLimited.elapse p (ms 700) s).1).2
      = [(10, 1, ""), (10, 1, "")] ∧ (HitLimited.elapse p (ms 2000) s).1.periodic.enabled = false := by decide
/-- the finishing blow: once, whichever chunk the end falls in -/
example :
    let p : PeriodicWithFinish.P := ⟨ms 1000, 0, 10, 1, 99, 2, ms 500⟩
    let s : PeriodicWithFinish.S := ⟨⟨0⟩, { interval := ms 200, intervalCounter := ms 200, timeLeft := ms 500 }⟩
    dmg (PeriodicWithFinish.elapse p (ms 600) s).2 = [(10, 1, ""), (10, 1, ""), (99, 2, "")] ∧
    dmg (PeriodicWithFinish.elapse p (ms 300) s).2 ++
      dmg (PeriodicWithFinish.elapse p (ms 300) (PeriodicWithFinish.elapse p (ms 300) s).1).2 =
      [(10, 1, ""), (10, 1, ""), (99, 2, "")] := by decide
example : TripleHexa.Inv ⟨⟨0⟩, { interval := ms 300 }, { interval := ms 500 }, { interval := ms 700 }⟩ := by decide

end Simaple.Props.C09_Common
