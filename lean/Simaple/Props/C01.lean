/-
C01 — resuming from any recorded point reproduces the uninterrupted run.
Model: Simaple/Model/Engine.lean (L5), for an arbitrary router/play function `P`, arbitrary store `σ`,
checkpoint type `τ`, clock, debug view and hash function.  `StoreLaws` is the hypothesis that everything
that influences the future is in the saved form of the store (validated on the real code by the
correspondence check: checkpoint round trip + next answers of the restored store).
-/
import Simaple.Proofs.Engine

namespace Simaple.Props.C01
open Simaple.Engine

section
variable {σ τ : Type}
variable {P : Action → σ → σ × List Event} {save : σ → τ} {load : τ → σ} {clock : σ → Rat}
variable {view : σ → String → String}
variable (hash : OpLog τ → String) (t0 : τ)

/-- one command: the new history is a function of the old history alone (through its last checkpoint,
    last events and last hash), and the invariant is kept -/
theorem exec_depends_only_on_logs (L : StoreLaws P save load clock view) (e : Engine σ τ) (c : Command)
    (h : EInv save t0 e) :
    (exec P save load clock view hash t0 e c).logs = stepL P save load clock view hash t0 e.logs c ∧
    EInv save t0 (exec P save load clock view hash t0 e c) :=
  ⟨exec_logs hash t0 L e c h, exec_inv hash t0 L e c h⟩

/-- a fresh engine and an engine reloaded from logs recorded by a run are in the canonical state -/
theorem reload_establishes_inv (L : StoreLaws P save load clock view) (st : σ) (cs : List Command) :
    EInv save t0 (reload (execAll P save load clock view hash t0 (initEngine save st) cs).logs : Engine σ τ) :=
  reload_inv t0 _ (execAll_logs hash t0 L cs _ (initEngine_inv t0 st)).2.2.1

/-- **C01**: for every play function, store, plan `cs` and cut point `k`: loading the logs recorded up to
    the cut into a fresh engine and executing the rest yields exactly the logs of the uninterrupted run
    (commands, actions, events, clocks, checkpoints, descriptions and previous-hash links). -/
theorem resume_eq_straight (L : StoreLaws P save load clock view) (st : σ) (cs : List Command) (k : Nat) :
    (execAll P save load clock view hash t0
        (reload (execAll P save load clock view hash t0 (initEngine save st) (cs.take k)).logs)
        (cs.drop k)).logs
      = (execAll P save load clock view hash t0 (initEngine save st) cs).logs := by
  have hi := initEngine_inv (save := save) t0 st
  have h1 := execAll_logs hash t0 L (cs.take k) _ hi
  have h2 := execAll_logs hash t0 L (cs.drop k) _ (reload_establishes_inv hash t0 L st (cs.take k))
  have h3 := execAll_logs hash t0 L cs _ hi
  rw [h2.1, h3.1]
  simp only [reload]
  rw [h1.1, ← List.foldl_append, List.take_append_drop]

/-- nothing that influences the future lives outside the recorded logs: two engines in the canonical
    state with equal logs produce equal logs for every future command sequence -/
theorem nothing_else_matters (L : StoreLaws P save load clock view) (e e' : Engine σ τ)
    (h : EInv save t0 e) (h' : EInv save t0 e') (heq : e.logs = e'.logs) (cs : List Command) :
    (execAll P save load clock view hash t0 e cs).logs = (execAll P save load clock view hash t0 e' cs).logs := by
  rw [(execAll_logs hash t0 L cs e h).1, (execAll_logs hash t0 L cs e' h').1, heq]

/-- ... and show equal views (the current store of both has the last checkpoint as its saved form) -/
theorem current_views_agree (L : StoreLaws P save load clock view) (e e' : Engine σ τ)
    (h : EInv save t0 e) (h' : EInv save t0 e') (heq : e.logs = e'.logs) (q : String) :
    view (curStore load t0 e) q = view (curStore load t0 e') q ∧
    clock (curStore load t0 e) = clock (curStore load t0 e') := by
  have a := curStore_save t0 L e h
  have b := curStore_save t0 L e' h'
  rw [heq] at a
  exact ⟨L.view_congr _ _ _ (a.trans b.symm), L.clock_congr _ _ (a.trans b.symm)⟩

end

/-! ### non-vacuity: a toy store with a pending delay, cut before the RESOLVE -/
namespace Toy
/-- store = clock; `use` announces a 780 ms delay, `elapse` advances the clock -/
def P (a : Action) (s : Rat) : Rat × List Event :=
  if a.method = "use" then (s, [⟨a.name, "use", tagDELAY, "", "{\"time\":780}", some 780⟩])
  else match a.payload with
    | .num t => (s + t, [])
    | _ => (s, [])
def hash (l : OpLog Rat) : String := l.prev ++ "|" ++ l.command.expr
theorem laws : StoreLaws P id id id (fun _ _ => "") :=
  ⟨fun _ => rfl, fun _ _ _ h => by cases h; rfl, fun _ _ _ h => by cases h; rfl,
   fun _ _ h => h, fun _ _ _ _ => rfl⟩
def plan : List Command := [⟨.use, "x", 0, "USE x"⟩, ⟨.resolve, "x", 0, "RESOLVE x"⟩]
/-- the straight run ends at clock 780 (the RESOLVE saw the pending delay) -/
example : (curStore id 0 (execAll P id id id (fun _ _ => "") hash 0 (initEngine id 0) plan)) = 780 := by
  decide +kernel
/-- and so does the run cut after the first command (an instance of `resume_eq_straight`) -/
example : (curStore id 0 (execAll P id id id (fun _ _ => "") hash 0
    (reload (execAll P id id id (fun _ _ => "") hash 0 (initEngine id 0) (plan.take 1)).logs) (plan.drop 1))) = 780 := by
  decide +kernel
end Toy

end Simaple.Props.C01
