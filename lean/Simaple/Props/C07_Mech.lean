/-
C07, part `Mech` — a rejection comes alone and changes nothing, for the job-specific component classes of the
shipped jobs mechanic / adele (Simaple/Model/ComponentMech.lean).  Per class: `X_<reducer>_reject_alone` for
every reducer that can reject (if its answer contains a rejection, the answer is exactly `(s, [.rejected])`),
`X_…_never_rejects` for every other reducer (listened/triggered reducers and the `ignore_rejected` wrapper
included).  Reducers that can raise (`Except`) are quantified over their successful answers.
-/
import Simaple.Proofs.ComponentMech

namespace Simaple.Props.C07_Mech
open Simaple.Comp Simaple.Comp.Mech Simaple.Entity

/-! ### RobotSetupBuff -/
theorem robotSetupBuff_use_reject_alone (p : RobotSetupBuff.P) (s : RobotSetupBuff.S)
    (h : rejectedIn (RobotSetupBuff.use p s).2 = true) : RobotSetupBuff.use p s = (s, [.rejected]) := by
  unfold RobotSetupBuff.use at h ⊢
  split
  · rfl
  · rename_i hc; simp [hc, rejectedIn, REv.isReject] at h
theorem robotSetupBuff_elapse_never_rejects (p : RobotSetupBuff.P) (t : Int) (s : RobotSetupBuff.S) :
    rejectedIn (RobotSetupBuff.elapse p t s).2 = false := by simp [RobotSetupBuff.elapse, rejectedIn, REv.isReject]

/-! ### RobotSummonSkill -/
theorem robotSummon_use_reject_alone (p : RobotSummonSkill.P) (s : RobotSummonSkill.S) (r : RobotSummonSkill.S × List REv)
    (hr : RobotSummonSkill.use p s = .ok r) (h : rejectedIn r.2 = true) : r = (s, [.rejected]) := by
  unfold RobotSummonSkill.use at hr
  split at hr
  · simp at hr; exact hr.symm
  · cases hs : s.periodic.setTimeLeft p.lastingEff with
    | error e => simp [hs] at hr
    | ok per => simp [hs] at hr; rw [← hr] at h; simp [rejectedIn, REv.isReject] at h
theorem robotSummon_elapse_never_rejects (p : RobotSummonSkill.P) (t : Int) (s : RobotSummonSkill.S) :
    rejectedIn (RobotSummonSkill.elapse p t s).2 = false := by
  simp only [RobotSummonSkill.elapse, rejectedIn_cons, rejectedIn_replicate _ _ (isReject_dealtWith _ _ _)]; rfl

/-! ### HommingMissile -/
theorem hommingMissile_use_reject_alone (p : HommingMissile.P) (s : HommingMissile.S) (r : HommingMissile.S × List REv)
    (hr : HommingMissile.use p s = .ok r) (h : rejectedIn r.2 = true) : r = (s, [.rejected]) := by
  unfold HommingMissile.use at hr
  split at hr
  · simp at hr; exact hr.symm
  · cases hs : s.periodic.setTimeLeft p.lastingDuration with
    | error e => simp [hs] at hr
    | ok per => simp [hs] at hr; rw [← hr] at h; simp [rejectedIn, REv.isReject] at h
theorem hommingMissile_elapse_never_rejects (p : HommingMissile.P) (t : Int) (s : HommingMissile.S) :
    rejectedIn (HommingMissile.elapse p t s).2 = false := by
  simp only [HommingMissile.elapse, rejectedIn_cons, rejectedIn_replicate _ _ (isReject_dealtWith _ _ _)]; rfl
/-- the listened `pause` reducer answers no event at all -/
theorem hommingMissile_pause_never_rejects (p : HommingMissile.P) (time : Int) (s : HommingMissile.S) :
    (HommingMissile.pause p time s).2 = [] := rfl

/-! ### FullMetalBarrageComponent -/
theorem fullMetalBarrage_use_reject_alone (p : FullMetalBarrage.P) (s : FullMetalBarrage.S)
    (h : rejectedIn (FullMetalBarrage.use p s).2 = true) : FullMetalBarrage.use p s = (s, [.rejected]) := by
  unfold FullMetalBarrage.use KeydownSkill.use at h ⊢
  simp only [] at h ⊢
  split
  · rfl
  · rename_i hc; simp [hc, rejectedIn, REv.isReject] at h
/-- a rejected `stop` does not start the penalty either -/
theorem fullMetalBarrage_stop_reject_alone (p : FullMetalBarrage.P) (s : FullMetalBarrage.S)
    (h : rejectedIn (FullMetalBarrage.stop p s).2 = true) : FullMetalBarrage.stop p s = (s, [.rejected]) := by
  unfold FullMetalBarrage.stop KeydownSkill.stop at h ⊢
  simp only [FullMetalBarrage.kdS] at h ⊢
  by_cases hc : s.keydown.running = true
  · simp [hc, keydownEnded, rejectedIn, REv.isReject] at h
  · simp only [Bool.not_eq_true] at hc
    simp [hc, keydownEnded, FullMetalBarrage.withKd]
theorem fullMetalBarrage_elapse_never_rejects (p : FullMetalBarrage.P) (t : Int) (s : FullMetalBarrage.S) :
    rejectedIn (FullMetalBarrage.elapse p t s).2 = false := by
  have key : ∀ (q : KeydownSkill.P) (u : KeydownSkill.S), rejectedIn (KeydownSkill.elapse q t u).2 = false := by
    intro q u
    unfold KeydownSkill.elapse
    simp only
    split <;> simp [rejectedIn, REv.isReject, List.any_replicate]
  unfold FullMetalBarrage.elapse
  simp only []
  split <;> exact key _ _

/-! ### MultipleOptionComponent -/
theorem multipleOption_use_reject_alone (p : MultipleOption.P) (s : MultipleOption.S) (r : MultipleOption.S × List REv)
    (hr : MultipleOption.use p s = .ok r) (h : rejectedIn r.2 = true) : r = (s, [.rejected]) := by
  unfold MultipleOption.use at hr
  split at hr
  · simp at hr; exact hr.symm
  · cases hs : s.periodic.setTimeLeft p.lastingDuration with
    | error e => simp [hs] at hr
    | ok per => simp [hs] at hr; rw [← hr] at h; simp [rejectedIn, REv.isReject] at h
theorem multipleOption_ticks_never_reject (p : MultipleOption.P) (n : Nat) : ∀ (c : Cycle) (r : Cycle × List REv),
    MultipleOption.ticks p n c = some r → rejectedIn r.2 = false := by
  induction n with
  | zero => intro c r h; simp [MultipleOption.ticks] at h; rw [← h]; rfl
  | succ n ih =>
    intro c r h
    simp only [MultipleOption.ticks] at h
    cases hc : c.step with
    | none => simp [hc] at h
    | some c' =>
      simp only [hc] at h
      cases hr : MultipleOption.ticks p n c' with
      | none => simp [hr] at h
      | some r' =>
        simp only [hr, Option.map_some, Option.some.injEq] at h
        rw [← h]
        simp only [rejectedIn_cons, ih c' r' hr, Bool.or_false]
        unfold MultipleOption.damageEvent
        split <;> exact isReject_dealtWith _ _ _
theorem multipleOption_elapse_never_rejects (p : MultipleOption.P) (t : Int) (s : MultipleOption.S)
    (r : MultipleOption.S × List REv) (hr : MultipleOption.elapse p t s = .ok r) : rejectedIn r.2 = false := by
  unfold MultipleOption.elapse at hr
  simp only [] at hr
  cases ht : MultipleOption.ticks p (s.periodic.elapse' t).2.toNat s.cycle with
  | none => simp [ht] at hr
  | some ce =>
    obtain ⟨c, evs⟩ := ce
    simp only [ht, Except.ok.injEq] at hr
    rw [← hr]
    simp only [rejectedIn_cons]
    have := multipleOption_ticks_never_reject p _ _ _ ht
    simpa [REv.isReject] using this

/-! ### MecaCarrier -/
theorem mecaCarrier_use_reject_alone (p : MecaCarrier.P) (s : MecaCarrier.S)
    (h : rejectedIn (MecaCarrier.use p s).2 = true) : MecaCarrier.use p s = (s, [.rejected]) := by
  unfold MecaCarrier.use at h ⊢
  split
  · rfl
  · rename_i hc; simp [hc, rejectedIn, REv.isReject] at h
theorem mecaCarrier_elapse_never_rejects (p : MecaCarrier.P) (t : Int) (s : MecaCarrier.S) :
    rejectedIn (MecaCarrier.elapse p t s).2 = false := by
  unfold MecaCarrier.elapse MecaCarrier.waves
  simp only [rejectedIn, List.any_cons, List.any_flatMap, List.any_replicate, isReject_dealtWith]
  simp [REv.isReject]

/-! ### PenalizedBuffSkill -/
theorem penalizedBuff_use_reject_alone (p : PenalizedBuff.P) (s : PenalizedBuff.S)
    (h : rejectedIn (PenalizedBuff.use p s).2 = true) : PenalizedBuff.use p s = (s, [.rejected]) := by
  unfold PenalizedBuff.use at h ⊢
  split
  · rfl
  · rename_i hc; simp [hc, rejectedIn, REv.isReject] at h
theorem penalizedBuff_elapse_never_rejects (p : PenalizedBuff.P) (t : Int) (s : PenalizedBuff.S) :
    rejectedIn (PenalizedBuff.elapse p t s).2 = false := by simp [PenalizedBuff.elapse, rejectedIn, REv.isReject]

/-! ### AdeleEtherComponent: no reducer can reject (three of them are listened reducers answering no event) -/
theorem adeleEther_never_rejects (p : AdeleEther.P) (t : Int) (s : AdeleEther.S) :
    rejectedIn (AdeleEther.elapse p t s).2 = false ∧ (AdeleEther.trigger p s).2 = [] ∧
    (AdeleEther.resonance p s).2 = [] ∧ (AdeleEther.order p s).2 = [] := by
  refine ⟨?_, rfl, rfl, rfl⟩
  simp [AdeleEther.elapse, rejectedIn, REv.isReject]

/-! ### AdeleCreationComponent: `trigger` is wrapped in `ignore_rejected` -/
theorem adeleCreation_useMultiple_reject_alone (p : AdeleCreation.P) (n : Int) (s : AdeleCreation.S)
    (h : rejectedIn (AdeleCreation.useMultiple p n s).2 = true) : AdeleCreation.useMultiple p n s = (s, [.rejected]) := by
  unfold AdeleCreation.useMultiple at h ⊢
  split
  · rfl
  · rename_i hc
    simp [hc, rejectedIn_append, rejectedIn_replicate, REv.isReject, rejectedIn] at h
/-- the wrapper never reports a rejection, and when the inner `use_multiple_damage` rejected (cooldown not over)
    the trigger changes nothing and answers nothing -/
theorem adeleCreation_trigger_never_rejects (p : AdeleCreation.P) (s : AdeleCreation.S) (r : AdeleCreation.S × List REv)
    (hr : AdeleCreation.trigger p s = .ok r) :
    rejectedIn r.2 = false ∧ (s.cooldown.available = false → r = (s, [])) := by
  unfold AdeleCreation.trigger at hr
  cases hn : s.etherGauge.getCreationCount with
  | none => simp [hn] at hr
  | some n =>
    simp only [hn, Except.ok.injEq] at hr
    rw [← hr]
    refine ⟨rejectedIn_filter_not _, ?_⟩
    intro hc
    simp [AdeleCreation.useMultiple, hc, REv.isReject]
theorem adeleCreation_elapse_never_rejects (p : AdeleCreation.P) (t : Int) (s : AdeleCreation.S) :
    rejectedIn (AdeleCreation.elapse p t s).2 = false := by simp [AdeleCreation.elapse, rejectedIn, REv.isReject]

/-! ### AdeleOrderComponent -/
theorem adeleOrder_use_reject_alone (p : AdeleOrder.P) (s : AdeleOrder.S)
    (h : rejectedIn (AdeleOrder.use p s).2 = true) : AdeleOrder.use p s = (s, [.rejected]) := by
  unfold AdeleOrder.use at h ⊢
  split
  · rfl
  · rename_i hc; simp [hc, rejectedIn, REv.isReject] at h
theorem adeleOrder_elapse_never_rejects (p : AdeleOrder.P) (t : Int) (s : AdeleOrder.S) :
    rejectedIn (AdeleOrder.elapse p t s).2 = false := by
  simp [AdeleOrder.elapse, rejectedIn, REv.isReject, List.any_replicate]

/-! ### AdeleGatheringComponent -/
theorem adeleGathering_use_reject_alone (p : AdeleGathering.P) (s : AdeleGathering.S)
    (h : rejectedIn (AdeleGathering.use p s).2 = true) : AdeleGathering.use p s = (s, [.rejected]) := by
  unfold AdeleGathering.use at h ⊢
  split
  · rfl
  · rename_i hc
    simp [hc, rejectedIn_append, rejectedIn_replicate, REv.isReject, rejectedIn] at h
theorem adeleGathering_elapse_never_rejects (p : AdeleGathering.P) (t : Int) (s : AdeleGathering.S) :
    rejectedIn (AdeleGathering.elapse p t s).2 = false := by simp [AdeleGathering.elapse, rejectedIn, REv.isReject]

/-! ### AdeleBlossomComponent -/
theorem adeleBlossom_use_reject_alone (p : AdeleBlossom.P) (s : AdeleBlossom.S)
    (h : rejectedIn (AdeleBlossom.use p s).2 = true) : AdeleBlossom.use p s = (s, [.rejected]) := by
  unfold AdeleBlossom.use at h ⊢
  split
  · rfl
  · rename_i hc
    rw [if_neg hc, rejectedIn_append, rejectedIn_append, rejectedIn_replicate _ _ (isReject_dealtWith _ _ _)] at h
    simp [rejectedIn, REv.isReject] at h
theorem adeleBlossom_elapse_never_rejects (p : AdeleBlossom.P) (t : Int) (s : AdeleBlossom.S) :
    rejectedIn (AdeleBlossom.elapse p t s).2 = false := by simp [AdeleBlossom.elapse, rejectedIn, REv.isReject]

/-! ### AdeleRuinComponent -/
theorem adeleRuin_use_reject_alone (p : AdeleRuin.P) (s : AdeleRuin.S) (r : AdeleRuin.S × List REv)
    (hr : AdeleRuin.use p s = .ok r) (h : rejectedIn r.2 = true) : r = (s, [.rejected]) := by
  unfold AdeleRuin.use at hr
  split at hr
  · simp at hr; exact hr.symm
  · cases hf : s.first.setTimeLeft p.lastingDurationFirst with
    | error e => simp [hf] at hr
    | ok f =>
      cases hg : s.second.setTimeLeft (p.lastingDurationFirst + p.lastingDurationSecond) with
      | error e => simp [hf, hg] at hr
      | ok g => simp [hf, hg] at hr; rw [← hr] at h; simp [rejectedIn, REv.isReject] at h
theorem adeleRuin_elapse_never_rejects (p : AdeleRuin.P) (t : Int) (s : AdeleRuin.S) :
    rejectedIn (AdeleRuin.elapse p t s).2 = false := by
  simp [AdeleRuin.elapse, rejectedIn, REv.isReject, List.any_replicate]

/-! ### AdeleRestoreBuffComponent: `use` (a listened reducer) never rejects -/
theorem adeleRestoreBuff_never_rejects (p : AdeleRestoreBuff.P) (t : Int) (s : AdeleRestoreBuff.S) :
    rejectedIn (AdeleRestoreBuff.use p s).2 = false ∧ rejectedIn (AdeleRestoreBuff.elapse p t s).2 = false := by
  simp [AdeleRestoreBuff.use, AdeleRestoreBuff.elapse, rejectedIn, REv.isReject]

/-! ### AdeleStormComponent: both rejections (no sword, cooldown) leave the state — the stack included — alone -/
theorem adeleStorm_use_reject_alone (p : AdeleStorm.P) (s : AdeleStorm.S) (r : AdeleStorm.S × List REv)
    (hr : AdeleStorm.use p s = .ok r) (h : rejectedIn r.2 = true) : r = (s, [.rejected]) := by
  unfold AdeleStorm.use at hr
  simp only [] at hr
  split at hr
  · simp at hr; exact hr.symm
  · split at hr
    · simp at hr; exact hr.symm
    · cases hs : s.periodic.setTimeLeft p.lastingDuration with
      | error e => simp [hs] at hr
      | ok per => simp [hs] at hr; rw [← hr] at h; simp [rejectedIn, REv.isReject] at h
theorem adeleStorm_elapse_never_rejects (p : AdeleStorm.P) (t : Int) (s : AdeleStorm.S) :
    rejectedIn (AdeleStorm.elapse p t s).2 = false := by
  simp [AdeleStorm.elapse, rejectedIn, REv.isReject, List.any_replicate]

/-! ### MagicCurcuitFullDriveComponent -/
theorem magicCurcuit_use_reject_alone (p : MagicCurcuit.P) (s : MagicCurcuit.S) (r : MagicCurcuit.S × List REv)
    (hr : MagicCurcuit.use p s = .ok r) (h : rejectedIn r.2 = true) : r = (s, [.rejected]) := by
  unfold MagicCurcuit.use at hr
  split at hr
  · simp at hr; exact hr.symm
  · cases hs : s.periodic.setTimeLeft p.lastingDuration with
    | error e => simp [hs] at hr
    | ok per => simp [hs] at hr; rw [← hr] at h; simp [rejectedIn, REv.isReject] at h
theorem magicCurcuit_elapse_never_rejects (p : MagicCurcuit.P) (t : Int) (s : MagicCurcuit.S) :
    rejectedIn (MagicCurcuit.elapse p t s).2 = false := by
  simp [MagicCurcuit.elapse, rejectedIn, REv.isReject, List.any_replicate]

/-! non-vacuity: rejections do occur (a skill on cooldown; no sword for the storm), and so do accepted uses -/
example : rejectedIn (RobotSetupBuff.use ⟨ms 1000, ms 2000, ms 30⟩ ⟨⟨41, 108⟩, ⟨ms 5⟩, ⟨0, 0⟩⟩).2 = true := by decide
example : ∃ r, AdeleStorm.use ⟨ms 90000, ms 780, 550, 1, ms 14000⟩
    ⟨⟨0⟩, { interval := ms 330 }, ⟨0, 8⟩, { interval := ms 1020 }⟩ = .ok r ∧ rejectedIn r.2 = true := ⟨_, rfl, by decide⟩
example : ∃ r, AdeleStorm.use ⟨ms 90000, ms 780, 550, 1, ms 14000⟩
    ⟨⟨0⟩, { interval := ms 330 }, ⟨0, 8⟩, { interval := ms 1020, runningSwords := [(0, ms 40000)] }⟩ = .ok r ∧
    rejectedIn r.2 = false ∧ r.1.stack.stack = 2 := ⟨_, rfl, by decide, by decide⟩
example : rejectedIn (FullMetalBarrage.stop ⟨0, ms 8000, ms 970, 880, 12, ms 1800, ms 2000⟩ ⟨⟨0⟩, ⟨ms 150, 0, -1024⟩, ⟨0, 0⟩⟩).2 = true := by
  decide

end Simaple.Props.C07_Mech
