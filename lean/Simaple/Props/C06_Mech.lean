/-
C06, part `Mech` — the time a component reports as elapsed is the time it was asked to elapse: for every class
of Simaple/Model/ComponentMech.lean with an `elapse` reducer, the answer of `elapse … t …` contains exactly one
`.elapsed` event and it carries `t` (`elapsedTimes evs` lists the times of the `.elapsed` events of `evs` in
order, so `= [t]` says both).  This is what the timer/clock accounting of C06 relies on per component.
-/
import Simaple.Proofs.ComponentMech

namespace Simaple.Props.C06_Mech
open Simaple.Comp Simaple.Comp.Mech Simaple.Entity

/-- `elapsedTimes` is what it says: membership = there is an `.elapsed t'` event in the answer -/
theorem mem_elapsedTimes (evs : List REv) (t' : Int) : t' ∈ elapsedTimes evs ↔ REv.elapsed t' ∈ evs := by
  unfold elapsedTimes
  simp only [List.mem_filterMap]
  constructor
  · rintro ⟨e, he, h⟩
    cases e <;> simp at h
    subst h; exact he
  · intro h; exact ⟨_, h, rfl⟩

theorem robotSetupBuff_elapsed_carries_time (p : RobotSetupBuff.P) (t : Int) (s : RobotSetupBuff.S) :
    elapsedTimes (RobotSetupBuff.elapse p t s).2 = [t] := rfl

theorem robotSummon_elapsed_carries_time (p : RobotSummonSkill.P) (t : Int) (s : RobotSummonSkill.S) :
    elapsedTimes (RobotSummonSkill.elapse p t s).2 = [t] := by
  show elapsedTimes ([.elapsed t] ++ _) = [t]
  rw [elapsedTimes_append, elapsedTimes_replicate_dealtWith]; rfl

theorem hommingMissile_elapsed_carries_time (p : HommingMissile.P) (t : Int) (s : HommingMissile.S) :
    elapsedTimes (HommingMissile.elapse p t s).2 = [t] := by
  show elapsedTimes ([.elapsed t] ++ _) = [t]
  rw [elapsedTimes_append, elapsedTimes_replicate_dealtWith]; rfl

/-- the key-down trait puts the `.elapsed` event after the damage and delay events; still exactly one -/
theorem fullMetalBarrage_elapsed_carries_time (p : FullMetalBarrage.P) (t : Int) (s : FullMetalBarrage.S) :
    elapsedTimes (FullMetalBarrage.elapse p t s).2 = [t] := by
  have key : ∀ (q : KeydownSkill.P) (u : KeydownSkill.S), elapsedTimes (KeydownSkill.elapse q t u).2 = [t] := by
    intro q u
    unfold KeydownSkill.elapse
    simp only
    split <;> simp only [elapsedTimes_append, elapsedTimes_replicate_dealt] <;> rfl
  unfold FullMetalBarrage.elapse
  simp only []
  split <;> exact key _ _

theorem multipleOption_ticks_no_elapsed (p : MultipleOption.P) (n : Nat) : ∀ (c : Cycle) (r : Cycle × List REv),
    MultipleOption.ticks p n c = some r → elapsedTimes r.2 = [] := by
  induction n with
  | zero => intro c r h; simp [MultipleOption.ticks] at h; rw [← h]; rfl
  | succ n ih =>
    intro c r h
    simp only [MultipleOption.ticks] at h
    cases hc : c.step with
    | none => simp [hc] at h
    | some c' =>
      simp only [hc] at h
      cases hr : MultipleOption.ticks p n c' with
      | none => simp [hr] at h
      | some r' =>
        simp only [hr, Option.map_some, Option.some.injEq] at h
        rw [← h]
        show elapsedTimes ([MultipleOption.damageEvent p c] ++ r'.2) = []
        rw [elapsedTimes_append, ih c' r' hr]
        unfold MultipleOption.damageEvent
        rw [List.append_nil]
        split <;> exact elapsedTimes_replicate_dealtWith 1 _ _ _
theorem multipleOption_elapsed_carries_time (p : MultipleOption.P) (t : Int) (s : MultipleOption.S)
    (r : MultipleOption.S × List REv) (hr : MultipleOption.elapse p t s = .ok r) : elapsedTimes r.2 = [t] := by
  unfold MultipleOption.elapse at hr
  simp only [] at hr
  cases ht : MultipleOption.ticks p (s.periodic.elapse' t).2.toNat s.cycle with
  | none => simp [ht] at hr
  | some ce =>
    obtain ⟨c, evs⟩ := ce
    simp only [ht, Except.ok.injEq] at hr
    rw [← hr]
    show elapsedTimes ([.elapsed t] ++ evs) = [t]
    rw [elapsedTimes_append, multipleOption_ticks_no_elapsed p _ _ _ ht]; rfl

theorem mecaCarrier_elapsed_carries_time (p : MecaCarrier.P) (t : Int) (s : MecaCarrier.S) :
    elapsedTimes (MecaCarrier.elapse p t s).2 = [t] := by
  show elapsedTimes ([.elapsed t] ++ MecaCarrier.waves p _) = [t]
  rw [elapsedTimes_append]
  have : ∀ ys : List Int, elapsedTimes (MecaCarrier.waves p ys) = [] := by
    intro ys
    induction ys with
    | nil => rfl
    | cons y ys ih =>
      simp only [MecaCarrier.waves, List.flatMap_cons] at ih ⊢
      rw [elapsedTimes_append, ih, elapsedTimes_replicate_dealtWith]; rfl
  rw [this]; rfl

theorem penalizedBuff_elapsed_carries_time (p : PenalizedBuff.P) (t : Int) (s : PenalizedBuff.S) :
    elapsedTimes (PenalizedBuff.elapse p t s).2 = [t] := rfl

theorem adeleEther_elapsed_carries_time (p : AdeleEther.P) (t : Int) (s : AdeleEther.S) :
    elapsedTimes (AdeleEther.elapse p t s).2 = [t] := rfl

theorem adeleCreation_elapsed_carries_time (p : AdeleCreation.P) (t : Int) (s : AdeleCreation.S) :
    elapsedTimes (AdeleCreation.elapse p t s).2 = [t] := rfl

theorem adeleOrder_elapsed_carries_time (p : AdeleOrder.P) (t : Int) (s : AdeleOrder.S) :
    elapsedTimes (AdeleOrder.elapse p t s).2 = [t] := by
  show elapsedTimes ([.elapsed t] ++ _) = [t]
  rw [elapsedTimes_append, elapsedTimes_replicate_dealt]; rfl

theorem adeleGathering_elapsed_carries_time (p : AdeleGathering.P) (t : Int) (s : AdeleGathering.S) :
    elapsedTimes (AdeleGathering.elapse p t s).2 = [t] := rfl

theorem adeleBlossom_elapsed_carries_time (p : AdeleBlossom.P) (t : Int) (s : AdeleBlossom.S) :
    elapsedTimes (AdeleBlossom.elapse p t s).2 = [t] := rfl

theorem adeleRuin_elapsed_carries_time (p : AdeleRuin.P) (t : Int) (s : AdeleRuin.S) :
    elapsedTimes (AdeleRuin.elapse p t s).2 = [t] := by
  show elapsedTimes ([.elapsed t] ++ (_ ++ _)) = [t]
  rw [elapsedTimes_append, elapsedTimes_append, elapsedTimes_replicate_dealt, elapsedTimes_replicate_dealt]; rfl

theorem adeleRestoreBuff_elapsed_carries_time (p : AdeleRestoreBuff.P) (t : Int) (s : AdeleRestoreBuff.S) :
    elapsedTimes (AdeleRestoreBuff.elapse p t s).2 = [t] := rfl

theorem adeleStorm_elapsed_carries_time (p : AdeleStorm.P) (t : Int) (s : AdeleStorm.S) :
    elapsedTimes (AdeleStorm.elapse p t s).2 = [t] := by
  show elapsedTimes ([.elapsed t] ++ _) = [t]
  rw [elapsedTimes_append, elapsedTimes_replicate_dealt]; rfl

theorem magicCurcuit_elapsed_carries_time (p : MagicCurcuit.P) (t : Int) (s : MagicCurcuit.S) :
    elapsedTimes (MagicCurcuit.elapse p t s).2 = [t] := by
  show elapsedTimes ([.elapsed t] ++ _) = [t]
  rw [elapsedTimes_append, elapsedTimes_replicate_dealt]; rfl

/-! non-vacuity: an elapse that also ticks (3 summon ticks in 3.5 s) still reports the time once -/
example : (RobotSummonSkill.elapse ⟨0, ms 630, 0, 0, 385, 1, ms 98700, some "m"⟩ (ms 3500)
    ⟨⟨41, 108⟩, ⟨0⟩, { interval := ms 1000, intervalCounter := ms 1000, timeLeft := ms 50000 }⟩).2.length = 4 := by decide

end Simaple.Props.C06_Mech
