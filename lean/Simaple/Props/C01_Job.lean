/-
C01 (and C03, C04), part: the abstract engine theorems apply to the END-TO-END job model
(Simaple/Model/JobRunner.lean): the engine of `Model/Engine.lean` instantiated with the play function of a
concrete job — `Simaple.Engine.play` over the total router `routeT` built from `Simaple.Router.route`, the
component dispatchers `Simaple.Dispatch.dispatch` and the L2 class reducers — with `save = load = id` on the
function store `Simaple.Dispatch.Store Lean.Json`.  `StoreLaws` is then no hypothesis any more: it HOLDS (the saved
form of a store is the store), so resume = straight run, rollback = replay and hint = full run are theorems
about the very definitions the driver executes (`job_run`), for every job description, initial store and plan.
-/
import Simaple.Props.C01
import Simaple.Props.C03
import Simaple.Props.C04
import Simaple.Proofs.JobRunner

namespace Simaple.Props.C01_Job
open Simaple.Engine Simaple.Dispatch Simaple.Router Simaple.JobRunner

/-- `StoreLaws` holds for `save = load = id`, whatever the play function, clock and view are -/
theorem job_store_laws (P : Action → Store Lean.Json → Store Lean.Json × List Event) :
    StoreLaws P id id clock jobView :=
  ⟨fun _ => rfl, fun _ _ _ h => by cases h; rfl, fun _ _ _ h => by cases h; rfl,
   fun _ _ h => by cases h; rfl, fun _ _ _ h => by cases h; rfl⟩

/-- what the driver runs (`jobPlayC`: hash tables between the dispatches and after every play) IS the model:
    the guarded `Simaple.Engine.play` over the total router -/
theorem driver_play_is_model (keys : List String) (ds : List (CompDisp Lean.Json)) : jobPlayC keys ds = jobPlayG ds :=
  jobPlayC_eq keys ds

/-- ... and the guard is invisible on every store whose pending callbacks are relays -/
theorem guarded_play_is_play (ds : List (CompDisp Lean.Json)) (a : Action) (s : Store Lean.Json) (h : pendOk s = true) :
    jobPlayG ds a s = play (routeT ds) getPending setPending s a :=
  jobPlayG_of_pendOk ds a s h

/-- the router that is run is `Simaple.Router.route` (components in installation order, then the timer) -/
theorem driver_router_is_route (ds : List (CompDisp Lean.Json)) (a : Action) (s : Store Lean.Json) :
    routeC ds a s = route clockCodec ds a s :=
  routeC_eq_route ds a s

/-- **C01 for the concrete job engine**: reloading the logs recorded up to any cut into a fresh engine and
    executing the rest yields exactly the logs of the uninterrupted run -/
theorem job_resume_eq_straight (keys : List String) (ds : List (CompDisp Lean.Json)) (st : Store Lean.Json)
    (cs : List Command) (k : Nat) :
    (execAll (jobPlayC keys ds) id id clock jobView jobHash st
        (reload (execAll (jobPlayC keys ds) id id clock jobView jobHash st (jobInit st) (cs.take k)).logs)
        (cs.drop k)).logs
      = (execAll (jobPlayC keys ds) id id clock jobView jobHash st (jobInit st) cs).logs :=
  Simaple.Props.C01.resume_eq_straight jobHash st (job_store_laws _) st cs k

/-- the engine the driver steps (`jobExec`) is `execAll` of the instantiated engine -/
theorem jobExec_fold (P : Action → Store Lean.Json → Store Lean.Json × List Event) (t0 : Store Lean.Json) (e : JobEngine)
    (cs : List Command) :
    cs.foldl (jobExec P t0) e = execAll P id id clock jobView jobHash t0 e cs := rfl

/-- **C03 for the concrete job engine**: any interleaving of exec and rollback leaves the history of a fresh
    engine that executed only the surviving commands -/
theorem job_rollback_replay (keys : List String) (ds : List (CompDisp Lean.Json)) (st : Store Lean.Json) (ops : List Op) :
    (runOps (jobPlayC keys ds) id id clock jobView jobHash st (jobInit st) ops).logs
      = (execAll (jobPlayC keys ds) id id clock jobView jobHash st (jobInit st) (surviving [] ops)).logs :=
  Simaple.Props.C03.rollback_replay_fresh jobHash st (job_store_laws _) st ops

/-- **C04 for the concrete job engine**: a chain of plans, each run with the previous output as hint, returns
    what full runs return (for every rendering of the playlogs) -/
theorem job_hint_sound_chain {ρ : Type} (render : PlayLog (Store Lean.Json) → ρ) (dummy : Store Lean.Json)
    (keys : List String) (ds : List (CompDisp Lean.Json)) (st : Store Lean.Json) (plans : List (Bool × List Command))
    (p0 : List Command) :
    Simaple.Props.C04.chain (jobPlayC keys ds) id id clock jobView jobHash st render dummy st p0
        (runPlan (jobPlayC keys ds) id id clock jobView jobHash st render st p0) plans
      = plans.map (fun p => runPlan (jobPlayC keys ds) id id clock jobView jobHash st render st p.2) :=
  Simaple.Props.C04.hint_sound_chain jobHash st render dummy (job_store_laws _) st plans p0

/-! the statements have no hypotheses left (every job description, store and plan); an instance: the engine of
    the empty job really steps -/
example : (execAll (jobPlayG []) id id clock jobView jobHash (fun _ => none) (jobInit (fun _ => none))
    [⟨.elapse, "", 5, "ELAPSE 5"⟩, ⟨.use, "x", 0, "USE x"⟩]).logs.length = 3 := by decide +kernel

end Simaple.Props.C01_Job
