/-
C16 — every level configuration builds and runs; upgrading never weakens a skill.

Property theorems only (the provable half of C16; "every configuration builds and every plan runs" is explored on
the real code by harness/check_C16.py).

`Simaple.Gen.Levels` is GENERATED on every run from the shipped YAML specs (`simaple/data/jobs/resources`), from the
grammar of `simaple/spec/_math.py` and from `simaple/data/jobs/patch.py`: `formulas` lists every `{{ … }}` formula in
`skill_level` of a damage field of a Component spec (and of a SkillImprovement advantage on a damage field) together
with the level range `SkillLevelPatch.get_skill_level` can produce for that spec.  The theorems quantify over that
list, so a new formula that is not non-decreasing on its reachable range breaks the build.
-/
import Simaple.Proofs.Levels
import Simaple.Gen.Levels

namespace Simaple.Props.C16
open Simaple.Py Simaple.Model.Levels Simaple.Proofs.Levels Simaple.Gen.Levels

/-! ### the shipped damage formulas -/

/-- `formula_mono_*`, all at once: every shipped damage formula in `skill_level` is non-decreasing in the level
    over the whole level range reachable for its spec, for every non-negative assignment of the other variables
    it mentions (`character_stat.INT`, …; most formulas mention none). -/
theorem formula_mono : ∀ f ∈ formulas, ∀ vars : String → Rat, (∀ n, 0 ≤ vars n) →
    ∀ a b : Int, f.lo ≤ a → a ≤ b → b ≤ f.hi → f.fn vars a ≤ f.fn vars b := by
  have h : formulas.all Formula.check = true := by decide +kernel
  intro f hf
  exact check_sound f (List.all_eq_true.mp h f hf)

/-- the same, as the generated list of named statements `("formula_mono_<ident>", statement)` -/
theorem formula_mono_statements : ∀ s ∈ formulaStatements, s.2 := by
  intro s hs
  simp only [formulaStatements, statements, List.mem_map] at hs
  obtain ⟨f, hf, rfl⟩ := hs
  exact formula_mono f hf

/-- no shipped damage formula can divide by zero at any level: every divisor is a non-zero constant -/
theorem formula_no_zero_division : ∀ f ∈ formulas, f.ex.safe = true := by
  have h : formulas.all (fun f => f.ex.safe) = true := by decide +kernel
  exact fun f hf => List.all_eq_true.mp h f hf

/-- The generic reason (no bound on the level): a formula of the `_math.py` language that the sign/direction
    analysis classifies as non-decreasing IS non-decreasing on all levels `≥ 0`, for all non-negative variables.
    This covers `a + b * skill_level` (`b ≥ 0`), `a + skill_level // k * b`, `floor(a + b * skill_level)`,
    `min(c, a + skill_level)`, `(a + b * skill_level) * (skill_level > 0)`, sums and products of such, … -/
theorem analysis_sound (e : Ex) (h : e.abs.up = true) (vars : String → Rat) (hv : ∀ n, 0 ≤ vars n)
    (a b : Int) (ha : 0 ≤ a) (hab : a ≤ b) : e.eval vars a ≤ e.eval vars b :=
  (abs_sound vars hv e).up h a b ha hab

/-! ### V and hexa enhancement -/

/-- `HexaSkillImprovementPatch._compute_final_damage_multiplier` is defined on the documented levels 0..30 and
    non-decreasing there. -/
theorem hexa_improvement_mono (a b : Int) (ha : 0 ≤ a) (hab : a ≤ b) (hb : b ≤ hexaImprovementMax) :
    ∃ x y, hexaFinalDamage a = some x ∧ hexaFinalDamage b = some y ∧ x ≤ y := by
  have key : ∀ i ∈ List.range (hexaImprovementMax + 1).toNat, ∀ j ∈ List.range (hexaImprovementMax + 1).toNat,
      i ≤ j → optLe (hexaFinalDamage i) (hexaFinalDamage j) = true := by decide +kernel
  have h := key a.toNat (List.mem_range.mpr (by omega)) b.toNat (List.mem_range.mpr (by omega)) (by omega)
  have ea : ((a.toNat : Nat) : Int) = a := by omega
  have eb : ((b.toNat : Nat) : Int) = b := by omega
  rw [ea, eb] at h
  cases hx : hexaFinalDamage a with
  | none => rw [hx] at h; simp [optLe] at h
  | some x =>
    cases hy : hexaFinalDamage b with
    | none => rw [hx, hy] at h; simp [optLe] at h
    | some y =>
      rw [hx, hy] at h
      exact ⟨x, y, rfl, rfl, by simpa [optLe] using h⟩

/-- … and so is the final-damage field of the patched modifier (`previous_modifier + Stat(final_damage_multiplier=…)`,
    where final damage combines multiplicatively), whatever the previous modifier above −100 % is. -/
theorem hexa_improvement_modifier_mono (prev : Rat) (hp : -100 ≤ prev) (a b : Int) (ha : 0 ≤ a) (hab : a ≤ b)
    (hb : b ≤ hexaImprovementMax) :
    ∃ x y, hexaFinalDamage a = some x ∧ hexaFinalDamage b = some y ∧ fdmAdd prev x ≤ fdmAdd prev y := by
  obtain ⟨x, y, hx, hy, hxy⟩ := hexa_improvement_mono a b ha hab hb
  exact ⟨x, y, hx, hy, fdmAdd_mono hp hxy⟩

/-- `VSkillImprovementPatch`: for a non-negative `v_improvement` scale both numbers it adds to the modifier (final
    damage `scale * level`; ignored defence 20 above level 40) are non-decreasing in the enhancement level -- at
    every level, not only 0..60. -/
theorem v_improvement_mono (scale : Rat) (hs : 0 ≤ scale) (a b : Int) (hab : a ≤ b) :
    vFinalDamage scale a ≤ vFinalDamage scale b ∧ vIgnoredDefence a ≤ vIgnoredDefence b := by
  have hc : (a : Rat) ≤ (b : Rat) := intCast_le hab
  constructor
  · unfold vFinalDamage
    nlinarith [mul_nonneg hs (sub_nonneg.mpr hc)]
  · unfold vIgnoredDefence
    split <;> split <;> first | omega | norm_num

/-- … and so are the two fields of the patched modifier (a level that adds no ignored defence leaves the field
    unchanged: `ignAdd prev 0 = prev`). -/
theorem v_improvement_modifier_mono (scale : Rat) (hs : 0 ≤ scale) (prevFd prevIgn : Rat) (h1 : -100 ≤ prevFd)
    (h2 : prevIgn ≤ 100) (a b : Int) (hab : a ≤ b) :
    fdmAdd prevFd (vFinalDamage scale a) ≤ fdmAdd prevFd (vFinalDamage scale b) ∧
    ignAdd prevIgn (vIgnoredDefence a) ≤ ignAdd prevIgn (vIgnoredDefence b) ∧ ignAdd prevIgn 0 = prevIgn :=
  ⟨fdmAdd_mono h1 (v_improvement_mono scale hs a b hab).1, ignAdd_mono h2 (v_improvement_mono scale hs a b hab).2,
   ignAdd_zero prevIgn⟩

/-! ### `SkillLevelPatch.get_skill_level` -/

/-- The level a spec is built at is non-decreasing in each of its three inputs: the configured levels (pointwise,
    same keys), the passive skill level and the combat orders level. -/
theorem skill_level_mono (o : Origin) (d d' : List (String × Int)) (p p' c c' : Int)
    (hd : LevelsLe d d') (hp : p ≤ p') (hc : c ≤ c') :
    getSkillLevel d p c o ≤ getSkillLevel d' p' c' o :=
  getSkillLevel_mono o hd hp hc

/-- An explicitly configured level is used as it is -- in particular an explicit level 0 is level 0, not the
    spec's default -- and only the enabled bonuses are added. -/
theorem skill_level_explicit (o : Origin) (d : List (String × Int)) (p c : Int) (n : String) (v : Int)
    (hn : o.name = some n) (hv : lookup d n = some v) :
    getSkillLevel d p c o = v + (if o.passiveEnabled then p else 0) + (if o.combatEnabled then c else 0) := by
  unfold getSkillLevel baseLevel
  rw [hn]; simp only [Option.bind_some, hv]
  cases o.passiveEnabled <;> cases o.combatEnabled <;> simp

theorem skill_level_explicit_zero (o : Origin) (d : List (String × Int)) (n : String)
    (hn : o.name = some n) (hv : lookup d n = some 0) : getSkillLevel d 0 0 o = 0 := by
  rw [skill_level_explicit o d 0 0 n 0 hn hv]; simp

/-- A spec whose name is not configured is built at its `default_skill_level` (0 if it has none). -/
theorem skill_level_default (o : Origin) (d : List (String × Int)) (p c : Int)
    (h : ∀ n, o.name = some n → lookup d n = none) :
    getSkillLevel d p c o =
      o.defaultLevel.getD 0 + (if o.passiveEnabled then p else 0) + (if o.combatEnabled then c else 0) := by
  unfold getSkillLevel baseLevel
  cases hn : o.name with
  | none => cases o.passiveEnabled <;> cases o.combatEnabled <;> simp
  | some n =>
    simp only [Option.bind_some, h n hn]
    cases o.passiveEnabled <;> cases o.combatEnabled <;> simp

/-! ### `_exclude_hexa_skill` -/

/-- If every pair of the replacement table names two components (the `assert`s), `_exclude_hexa_skill` returns
    the component names in their order (a sublist), keeps them unique, and keeps a name iff no pair
    `(name, high)` of the table has `skill_levels.get(high, 0) > 0`. -/
theorem exclude_hexa_iff (names : List String) (repl : List (String × String)) (levels : List (String × Int))
    (h : ∀ p ∈ repl, p.1 ∈ names ∧ p.2 ∈ names) :
    ∃ kept, excludeHexa names repl levels = .ok kept ∧ kept.Sublist names ∧ (names.Nodup → kept.Nodup) ∧
      ∀ n, n ∈ kept ↔ n ∈ names ∧ ¬ ∃ high, (n, high) ∈ repl ∧ (lookup levels high).getD 0 > 0 :=
  excludeHexa_spec h

/-- For a replacement dictionary (one entry per lower-tier name) and non-negative levels: the lower-tier skill of
    an entry is present iff the level of its 6th-job replacement is 0; the replacement itself and every skill
    that is not a lower-tier name are always present. -/
theorem exclude_hexa_level_zero (names : List String) (repl : List (String × String))
    (levels : List (String × Int)) (h : ∀ p ∈ repl, p.1 ∈ names ∧ p.2 ∈ names)
    (hk : (repl.map Prod.fst).Nodup) (hl : ∀ k, 0 ≤ (lookup levels k).getD 0) :
    ∃ kept, excludeHexa names repl levels = .ok kept ∧
      (∀ low high, (low, high) ∈ repl → (low ∈ kept ↔ (lookup levels high).getD 0 = 0)) ∧
      (∀ n ∈ names, n ∉ repl.map Prod.fst → n ∈ kept) := by
  obtain ⟨kept, hok, _, _, hiff⟩ := excludeHexa_spec (levels := levels) h
  refine ⟨kept, hok, ?_, ?_⟩
  · intro low high hm
    rw [hiff low]
    constructor
    · rintro ⟨_, hno⟩
      have := hl high
      have : ¬ (lookup levels high).getD 0 > 0 := fun hp => hno ⟨high, hm, hp⟩
      omega
    · intro hz
      refine ⟨(h _ hm).1, ?_⟩
      rintro ⟨high', hm', hp⟩
      have := unique_value hk hm hm'
      subst this; omega
  · intro n hn hnot
    rw [hiff n]
    refine ⟨hn, ?_⟩
    rintro ⟨high, hm, _⟩
    exact hnot (List.mem_map_of_mem (f := Prod.fst) hm)

/-- The run fails (one of the two `assert`s) exactly when some pair of the table names a missing component. -/
theorem exclude_hexa_error_iff (names : List String) (repl : List (String × String))
    (levels : List (String × Int)) :
    (∃ e, excludeHexa names repl levels = .error e) ↔ ∃ p ∈ repl, p.1 ∉ names ∨ p.2 ∉ names := by
  constructor
  · rintro ⟨e, he⟩
    by_contra hno
    have h : ∀ p ∈ repl, p.1 ∈ names ∧ p.2 ∈ names := by
      intro p hp
      by_contra hc
      exact hno ⟨p, hp, by tauto⟩
    obtain ⟨kept, hok, _⟩ := excludeHexa_spec (levels := levels) h
    rw [hok] at he; cases he
  · rintro ⟨p, hp, hbad⟩
    cases hc : collectExcluded names levels repl with
    | error e => exact ⟨e, by simp [excludeHexa, hc]⟩
    | ok ex => have := collect_ok_names hc p hp; tauto

/-! ### non-vacuity -/

example : 0 < formulas.length := by decide +kernel

/-- the check behind `formula_mono` is not trivially true: a decreasing formula is refused -/
example : ({ ident := "", file := "", group := "", skill := "", field := "", source := "100 - skill_level",
             configurable := true, defaultLevel := none, passive := false, combat := false, lo := 0, hi := 30,
             ex := .sub (.num 100) .lvl, fn := fun _ l => 100 - (l : Rat), eq := fun _ _ => rfl } : Formula).check
    = false := by decide +kernel

/-- … and so is a formula that dips at a single level inside its range only -/
example : ({ ident := "", file := "", group := "", skill := "", field := "", source := "10 * skill_level - 15 * (skill_level > 29)",
             configurable := true, defaultLevel := none, passive := false, combat := false, lo := 0, hi := 30,
             ex := .sub (.mul (.num 10) .lvl) (.mul (.num 15) (.gt .lvl (.num 29))),
             fn := fun _ l => 10 * (l : Rat) - 15 * pyGt (l : Rat) 29, eq := fun _ _ => rfl } : Formula).check
    = false := by decide +kernel

/-- the level-0 case of the shipped data: `체인 라이트닝 VI` (`damage = 245 + 3 * skill_level`) configured at 0 -/
example : getSkillLevel [("체인 라이트닝 VI", 0)] 0 2
    ⟨some "체인 라이트닝 VI", some 30, false, false⟩ = 0 := by decide +kernel

example : excludeHexa ["체인 라이트닝", "블리자드", "체인 라이트닝 VI", "블리자드 VI"]
    [("체인 라이트닝", "체인 라이트닝 VI"), ("블리자드", "블리자드 VI")]
    [("체인 라이트닝 VI", 0), ("블리자드 VI", 7)] = .ok ["체인 라이트닝", "체인 라이트닝 VI", "블리자드 VI"] := by
  decide +kernel

example : hexaFinalDamage 29 = some 49 ∧ hexaFinalDamage 30 = some 60 ∧ hexaFinalDamage 31 = none := by
  decide +kernel

end Simaple.Props.C16
