/-
C07, part `Wind`: the reducers of the soulmaster / dualblade / windbreaker job-specific component classes
(Simaple/Model/ComponentWind.lean) reject alone and leave the state unchanged — the component's own
entities AND the entities it reads through `binds`, which are fields of the model state.
For every reducer that can reject: `X_<reducer>_reject_alone`; for all others `X_…_never_reject(s)`.
Listened reducers that legitimately refuse (CosmicBurst.trigger while not ready) are covered by the first
shape: a rejection alone, nothing changed.
-/
import Simaple.Proofs.ComponentWind

namespace Simaple.Props.C07_Wind
open Simaple.Comp Simaple.Entity

/-! ### CosmicOrb — `increase`, `maximize` (both listened) -/
theorem cosmicOrb_never_rejects (p : CosmicOrb.P) (s : CosmicOrb.S) :
    rejectedIn (CosmicOrb.increase p s).2 = false ∧ rejectedIn (CosmicOrb.maximize p s).2 = false := by
  simp [CosmicOrb.increase, CosmicOrb.maximize, rejectedIn]

/-! ### Elysion -/
theorem elysion_use_reject_alone (p : Elysion.P) (s : Elysion.S) (h : rejectedIn (Elysion.use p s).2 = true) :
    Elysion.use p s = (s, [.rejected]) := by
  unfold Elysion.use at h ⊢
  split
  · rfl
  · rename_i hc; simp [hc, rejectedIn, REv.isReject] at h
/-- the listened `crack` and `elapse` never reject -/
theorem elysion_crack_elapse_never_reject (p : Elysion.P) (t : Int) (s : Elysion.S) :
    rejectedIn (Elysion.crack p s).2 = false ∧ rejectedIn (Elysion.elapse p t s).2 = false := by
  constructor
  · unfold Elysion.crack
    split
    · simp [rejectedIn]
    · simp only []; split <;> simp [rejectedIn, REv.isReject]
  · simp [Elysion.elapse, rejectedIn, REv.isReject]

/-! ### CrossTheStyx — the bound Elysion timer is returned untouched -/
theorem crossTheStyx_use_reject_alone (p : CrossTheStyx.P) (s : CrossTheStyx.S)
    (h : rejectedIn (CrossTheStyx.use p s).2 = true) : CrossTheStyx.use p s = (s, [.rejected]) := by
  unfold CrossTheStyx.use at h ⊢
  split
  · rfl
  · rename_i hc; simp [hc, rejectedIn, REv.isReject] at h

/-! ### CosmicBurst — the listened `trigger` refuses while cooling down or without orbs: alone, and neither
    the cooldown nor the bound orb stack changes -/
theorem cosmicBurst_trigger_reject_alone (p : CosmicBurst.P) (s : CosmicBurst.S)
    (h : rejectedIn (CosmicBurst.trigger p s).2 = true) : CosmicBurst.trigger p s = (s, [.rejected]) := by
  unfold CosmicBurst.trigger at h ⊢
  split
  · rfl
  · rename_i hc; simp [hc, rejectedIn, REv.isReject] at h
theorem cosmicBurst_elapse_never_rejects (p : CosmicBurst.P) (t : Int) (s : CosmicBurst.S) :
    rejectedIn (CosmicBurst.elapse p t s).2 = false := by simp [CosmicBurst.elapse, rejectedIn, REv.isReject]

/-! ### CosmicShower -/
theorem cosmicShower_use_reject_alone (p : CosmicShower.P) (s : CosmicShower.S) (r : CosmicShower.S × List REv)
    (hr : CosmicShower.use p s = .ok r) (h : rejectedIn r.2 = true) : r = (s, [.rejected]) := by
  unfold CosmicShower.use at hr
  split at hr
  · simp at hr; exact hr.symm
  · simp only [] at hr
    split at hr
    · simp at hr
    · simp at hr; rw [← hr] at h; simp [rejectedIn, REv.isReject] at h
theorem cosmicShower_elapse_never_rejects (p : CosmicShower.P) (t : Int) (s : CosmicShower.S) :
    rejectedIn (CosmicShower.elapse p t s).2 = false := by
  simp [CosmicShower.elapse, rejectedIn, REv.isReject, List.any_replicate]

/-! ### Cosmos -/
theorem cosmos_use_reject_alone (p : Cosmos.P) (s : Cosmos.S) (r : Cosmos.S × List REv)
    (hr : Cosmos.use p s = .ok r) (h : rejectedIn r.2 = true) : r = (s, [.rejected]) := by
  unfold Cosmos.use at hr
  split at hr
  · simp at hr; exact hr.symm
  · simp only [] at hr
    split at hr
    · simp at hr
    · simp at hr; rw [← hr] at h; simp [rejectedIn, REv.isReject] at h
theorem cosmos_elapse_never_rejects (p : Cosmos.P) (t : Int) (s : Cosmos.S) :
    rejectedIn (Cosmos.elapse p t s).2 = false := by
  simp [Cosmos.elapse, rejectedIn, REv.isReject, List.any_replicate]

/-! ### FlareSlash — both listened triggers change the cooldown and are wrapped in `ignore_rejected`
    (repair F8e): they never report a rejection -/
theorem flareSlash_never_rejects (p : FlareSlash.P) (t : Int) (s : FlareSlash.S) :
    rejectedIn (FlareSlash.changeStanceTrigger p s).2 = false ∧ rejectedIn (FlareSlash.styxTrigger p s).2 = false ∧
    rejectedIn (FlareSlash.elapse p t s).2 = false := by
  refine ⟨?_, ?_, ?_⟩
  · simp [FlareSlash.changeStanceTrigger, Wind.ignoreRejected, rejectedIn, List.any_filter]
  · simp [FlareSlash.styxTrigger, Wind.ignoreRejected, rejectedIn, List.any_filter]
  · simp [FlareSlash.elapse, rejectedIn, REv.isReject]
/-- without the wrapper the triggers violate the property: the inner attack rejects while the cooldown has
    already been reduced (the witness of defect F8e) -/
theorem flareSlash_unwrapped_refuted :
    ∃ (p : FlareSlash.P) (s : FlareSlash.S),
      let r := FlareSlash.useSimpleAttack p { cooldown := s.cooldown.reduceByValue p.cooldownReduceWhenStanceChanged }
      rejectedIn r.2 = true ∧ r.1 ≠ s :=
  ⟨⟨12000, 0, 1, 1, 800, 1200⟩, ⟨⟨5000⟩⟩, by decide⟩

/-! ### FinalCutComponent -/
theorem finalCut_use_reject_alone (p : FinalCut.P) (s : FinalCut.S) (h : rejectedIn (FinalCut.use p s).2 = true) :
    FinalCut.use p s = (s, [.rejected]) := by
  unfold FinalCut.use at h ⊢
  split
  · rfl
  · rename_i hc; simp [hc, rejectedIn, REv.isReject] at h
/-- the listened `sudden_raid` (wherever the model answers, i.e. the reduced cooldown is on the time grid)
    and `elapse` never reject -/
theorem finalCut_other_reducers_never_reject (p : FinalCut.P) (t : Int) (s : FinalCut.S) :
    (∀ r, FinalCut.suddenRaid p s = some r → rejectedIn r.2 = false) ∧ rejectedIn (FinalCut.elapse p t s).2 = false := by
  constructor
  · intro r hr
    unfold FinalCut.suddenRaid at hr
    split at hr
    · simp at hr; rw [← hr]; simp [rejectedIn]
    · simp at hr
  · simp [FinalCut.elapse, rejectedIn, REv.isReject]

/-! ### BladeStormComponent — the prepare hit is appended only to an accepted use -/
theorem bladeStorm_use_reject_alone (p : BladeStorm.P) (s : BladeStorm.S) (h : rejectedIn (BladeStorm.use p s).2 = true) :
    BladeStorm.use p s = (s, [.rejected]) := by
  unfold BladeStorm.use at h ⊢
  by_cases hr : rejectedIn (KeydownSkill.use (BladeStorm.kd p) s).2 = true
  · simp only [hr, Bool.not_true, Bool.false_eq_true, if_false]
    exact Wind.keydown_use_reject_alone _ _ hr
  · simp only [Bool.not_eq_true] at hr
    simp only [hr, Bool.not_false, if_true] at h
    simp only [rejectedIn, List.any_append, List.any_cons, List.any_nil, REv.isReject, Bool.or_false] at h hr
    rw [hr] at h; simp at h
theorem bladeStorm_stop_reject_alone (p : BladeStorm.P) (s : BladeStorm.S) (h : rejectedIn (BladeStorm.stop p s).2 = true) :
    BladeStorm.stop p s = (s, [.rejected]) := by
  unfold BladeStorm.stop KeydownSkill.stop at h ⊢
  split
  · rfl
  · rename_i hc; simp [hc, rejectedIn, REv.isReject] at h
theorem bladeStorm_elapse_never_rejects (p : BladeStorm.P) (t : Int) (s : BladeStorm.S) :
    rejectedIn (BladeStorm.elapse p t s).2 = false := by
  unfold BladeStorm.elapse KeydownSkill.elapse
  simp only
  split <;> simp [rejectedIn, REv.isReject, List.any_replicate]
/-- appending the prepare hit unconditionally would violate the property -/
theorem bladeStorm_unconditional_prepare_refuted :
    ∃ (p : BladeStorm.P) (s : BladeStorm.S),
      let r := KeydownSkill.use (BladeStorm.kd p) s
      rejectedIn (r.2 ++ [REv.dealt p.prepareDamage p.prepareHit]) = true ∧
      (r.2 ++ [REv.dealt p.prepareDamage p.prepareHit]).length = 2 :=
  ⟨⟨90000, 4000, 120, 1, 1, 120, 1, 1⟩, ⟨⟨500⟩, ⟨90, 0, -1⟩⟩, by decide⟩

/-! ### UltimateDarkSightComponent -/
theorem ultimateDarkSight_use_reject_alone (p : UltimateDarkSight.P) (s : UltimateDarkSight.S)
    (h : rejectedIn (UltimateDarkSight.use p s).2 = true) : UltimateDarkSight.use p s = (s, [.rejected]) := by
  unfold UltimateDarkSight.use at h ⊢
  split
  · rfl
  · rename_i hc; simp [hc, rejectedIn, REv.isReject] at h
theorem ultimateDarkSight_elapse_never_rejects (p : UltimateDarkSight.P) (t : Int) (s : UltimateDarkSight.S) :
    rejectedIn (UltimateDarkSight.elapse p t s).2 = false := by
  simp [UltimateDarkSight.elapse, rejectedIn, REv.isReject]

/-! ### KarmaBladeTriggerComponent — `use` and `trigger` are listened; none of the three reducers rejects
    (a trigger that is not ready answers nothing and changes nothing) -/
theorem karmaBlade_never_rejects (p : KarmaBlade.P) (t : Int) (s : KarmaBlade.S) :
    rejectedIn (KarmaBlade.use p s).2 = false ∧ rejectedIn (KarmaBlade.trigger p s).2 = false ∧
    rejectedIn (KarmaBlade.elapse p t s).2 = false := by
  refine ⟨?_, ?_, ?_⟩
  · simp [KarmaBlade.use, rejectedIn]
  · unfold KarmaBlade.trigger
    split
    · simp [rejectedIn]
    · split
      · simp [rejectedIn]
      · simp only []; split <;> simp [rejectedIn, REv.isReject]
  · unfold KarmaBlade.elapse
    simp only []; split <;> simp [rejectedIn, REv.isReject]
theorem karmaBlade_trigger_not_ready_noop (p : KarmaBlade.P) (s : KarmaBlade.S)
    (h : s.lastingStack.enabled = false ∨ s.cooldown.available = false) : KarmaBlade.trigger p s = (s, []) := by
  unfold KarmaBlade.trigger
  rcases h with h | h
  · simp [h]
  · by_cases h2 : s.lastingStack.enabled = true <;> simp [h, h2]

/-! ### HowlingGaleComponent -/
theorem howlingGale_use_reject_alone (p : HowlingGale.P) (s : HowlingGale.S) (r : HowlingGale.S × List REv)
    (hr : HowlingGale.use p s = .ok r) (h : rejectedIn r.2 = true) : r = (s, [.rejected]) := by
  unfold HowlingGale.use at hr
  split at hr
  · simp at hr; exact hr.symm
  · simp only [] at hr
    split at hr
    · simp at hr
    · simp at hr; rw [← hr] at h; simp [rejectedIn, REv.isReject] at h
theorem howlingGale_elapse_never_rejects (p : HowlingGale.P) (t : Int) (s : HowlingGale.S) (r : HowlingGale.S × List REv)
    (hr : HowlingGale.elapse p t s = .ok r) : rejectedIn r.2 = false := by
  unfold HowlingGale.elapse at hr
  simp only [] at hr
  split at hr
  · simp at hr; rw [← hr]; simp [rejectedIn, REv.isReject]
  · split at hr
    · simp at hr; rw [← hr]
      simp [rejectedIn, REv.isReject, HowlingGale.row, List.any_flatten, List.any_replicate, List.any_map]
    · simp at hr

/-! ### TranscendentCygnusBlessing -/
theorem cygnusBlessing_use_reject_alone (p : CygnusBlessing.P) (s : CygnusBlessing.S)
    (h : rejectedIn (CygnusBlessing.use p s).2 = true) : CygnusBlessing.use p s = (s, [.rejected]) := by
  unfold CygnusBlessing.use at h ⊢
  split
  · rfl
  · rename_i hc; simp [hc, rejectedIn, REv.isReject] at h
theorem cygnusBlessing_elapse_never_rejects (p : CygnusBlessing.P) (t : Int) (s : CygnusBlessing.S) :
    rejectedIn (CygnusBlessing.elapse p t s).2 = false := by
  simp [CygnusBlessing.elapse, rejectedIn, REv.isReject]

/-! non-vacuity: rejections do occur (a cooling-down burst, Styx outside Elysion) and are alone -/
example : CosmicBurst.trigger ⟨15360000, 404, 4, 1414 / 5, 1024000⟩ ⟨⟨5120⟩, ⟨3, 10, 30720000, 30720000⟩⟩ =
    (⟨⟨5120⟩, ⟨3, 10, 30720000, 30720000⟩⟩, [.rejected]) := by decide
example : rejectedIn (CrossTheStyx.use ⟨845, 25, 768000⟩ ⟨⟨0, 0⟩⟩).2 = true := by decide
example : (CosmicBurst.trigger ⟨15360000, 404, 4, 1414 / 5, 1024000⟩ ⟨⟨0⟩, ⟨3, 10, 30720000, 30720000⟩⟩).2 =
    [.dealt 404 4, .dealt (1414 / 5) 8] := by decide +kernel

end Simaple.Props.C07_Wind
