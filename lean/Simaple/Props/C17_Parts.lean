/-
C17, part: the parts of a gear blueprint are computed by the model too.

`Props/C17.lean` proves how `build` composes what the spell traces, scrolls, bonus options and the exceptional part
contribute, with those contributions as inputs.  Here they are the hand model `Simaple.Model.GearParts` of
`SpellTrace` / `Scroll` / `ExceptionalEnhancement` / `BonusSpec` + `BonusFactory` over the GENERATED spell-trace
tables, PROBABILITIES, STAT_PROP_TYPES and GearType predicates (`Simaple.Gen.GearParts`, `Simaple.Gen.Starforce`),
the bonus improvement being the EXISTING C18 model `Simaple.Bonus.improve`; the concrete `build` hands the evaluated
parts to the existing `Simaple.Model.GearBlueprint.build`.  Property theorems only.
-/
import Simaple.Proofs.GearParts

namespace Simaple.Props.C17_Parts
open Simaple.Gen Simaple.Gen.GearParts Simaple.Gen.Starforce Simaple.Model.GearParts
open Simaple.Model.Starforce Simaple.Model.GearBlueprint Simaple.Proofs.GearBlueprint Simaple.Proofs.GearParts
open Simaple.Props.C11

/-! ### spell traces -/

/-- For every gear meta whose type falls in one of the five classes `calculate_improvement` knows (`Traceable`;
    any level requirement, job mask, scroll count) and every legal (probability, stat kind) -- a listed
    probability the class has a table entry for, a listed stat kind -- and any `order`, every look-up the spell
    trace makes is defined: the result is a stat block, not an exception. -/
theorem spellTrace_defined (m : SFMeta) (t : SpellTrace) (hm : Traceable m)
    (hp : t.probability ∈ legalProbabilities m) (hk : t.stat_prop_type ∈ STAT_PROP_TYPES) :
    ∃ s, t.calculate_improvement m = .ok s := by
  obtain ⟨s, hs, _⟩ := trace_ok ⟨hm, hp, hk⟩
  exact ⟨s, hs⟩

/-- … and every one of the 27 fields of that stat block is non-negative; the two multiplicative fields are 0. -/
theorem spellTrace_nonneg (m : SFMeta) (t : SpellTrace) (hm : Traceable m)
    (hp : t.probability ∈ legalProbabilities m) (hk : t.stat_prop_type ∈ STAT_PROP_TYPES)
    (s : Stat) (hs : t.calculate_improvement m = .ok s) :
    (∀ f ∈ Stat.fields, 0 ≤ f.2 s) ∧ s.final_damage_multiplier = 0 ∧ s.ignored_defence = 0 := by
  obtain ⟨s', hs', h⟩ := trace_ok ⟨hm, hp, hk⟩
  rw [hs] at hs'
  cases hs'
  exact h

/-- The well-formedness hypotheses are needed: on a gear type outside the five classes a spell trace with a
    listed probability and stat kind raises (the `if/elif` chain binds nothing: UnboundLocalError), and a listed
    probability the class has no table entry for is a KeyError. -/
theorem spellTrace_refused (m : SFMeta) (t : SpellTrace) (hp : t.probability ∈ PROBABILITIES)
    (hk : t.stat_prop_type ∈ STAT_PROP_TYPES) :
    (¬ Traceable m → t.calculate_improvement m = .error .unboundLocalError) ∧
    (Traceable m → t.probability ∉ legalProbabilities m → t.calculate_improvement m = .error .keyError) := by
  have hp' : PROBABILITIES.contains t.probability = true := by simpa using hp
  have hk' : STAT_PROP_TYPES.contains t.stat_prop_type = true := by simpa using hk
  constructor
  · intro hm
    have hb : branchOf m.type = Branch.none := by simpa [Traceable] using hm
    simp only [SpellTrace.calculate_improvement, improvementCore, hp', hk', hb, basis, Bool.not_true,
      Bool.false_eq_true, if_false]
  · intro _ hnl
    have hnk : (keysOf (branchOf m.type)).contains t.probability = false := by
      cases hc : (keysOf (branchOf m.type)).contains t.probability with
      | false => rfl
      | true => exact absurd (List.mem_filter.mpr ⟨hp, hc⟩) hnl
    have key : ∀ b r p k, (keysOf b).contains p = false → b ≠ Branch.none → basis b r p k = .error .keyError := by
      intro b r p k hc hb
      have dg : ∀ {α : Type} (tbl : List (Int × α)), (tbl.map (·.1)).contains p = false →
          dictGet tbl p = .error .keyError := by
        intro α tbl
        induction tbl with
        | nil => intro _; rfl
        | cons kv rest ih =>
          intro h
          obtain ⟨k', v⟩ := kv
          simp only [List.map_cons, List.contains_cons, Bool.or_eq_false_iff, beq_eq_false_iff_ne, ne_eq] at h
          have hne : ¬ k' = p := fun h' => h.1 h'.symm
          simp only [dictGet, hne, if_false]
          exact ih h.2
      cases b with
      | none => exact absurd rfl hb
      | weapon => simp only [basis, get_weapon_improvement, dg _ hc]
      | glove => simp only [basis, get_glove_improvement, dg _ hc]
      | armor => simp only [basis, get_armor_improvement, dg _ hc]
      | accessory => simp only [basis, get_accesory_improvement, dg _ hc]
      | machineHeart => simp only [basis, get_machine_heart_improvement, dg _ hc]
    simp only [SpellTrace.calculate_improvement, improvementCore, hp', hk', Bool.not_true,
      Bool.false_eq_true, if_false, key _ _ _ _ hnk (by assumption)]

/-- What "legal probability" is, spelled out: 100/70/30/15 on weapon-like gear (weapons and katara),
    100/70/30 on gloves, armor, shoulder pads, accessories and machine hearts, none elsewhere. -/
theorem legal_probabilities_spec (m : SFMeta) :
    legalProbabilities m =
      if branchOf m.type = Branch.weapon then [100, 70, 30, 15]
      else if branchOf m.type = Branch.none then [] else [100, 70, 30] := by
  unfold legalProbabilities
  cases branchOf m.type <;> decide +kernel

/-- Applying the same legal spell trace n times adds n times its improvement, in every field
    (`Stat.sum` of n copies = the improvement stacked n times). -/
theorem spellTrace_n_times (m : SFMeta) (t : SpellTrace) (h : TraceLegal m t) (s : Stat)
    (hs : t.calculate_improvement m = .ok s) (n : Nat) :
    Stat.sum (List.replicate n s) = s.stack (n : Rat) := by
  obtain ⟨s', hs', _, hfd, hig⟩ := trace_ok h
  rw [hs] at hs'
  cases hs'
  exact sum_replicate_eq_stack s hfd hig n

/-! ### bonus -/

/-- A bonus option of any of the 17 kinds with a grade that exists on the gear (1..7, at least 3 on a boss
    reward), on a gear with non-negative level requirement and base attack values: the improvement is defined, it
    is the C18 model's `Simaple.Bonus.improve` (integer-valued) read as a stat block, and every field is
    non-negative. -/
theorem bonus_nonneg (m : GearMeta) (hl : 0 ≤ m.sf.req_level) (ha : 0 ≤ m.base_stat.attack_power)
    (hm : 0 ≤ m.base_stat.magic_attack) (k : Simaple.Bonus.Kind) (g : Int)
    (hg : Simaple.Bonus.validGrade (bonusMeta m) g = true) :
    bonusImprovement m k g = .ok (obsToStat (Simaple.Bonus.improve (bonusMeta m) k g)) ∧
    ∀ f ∈ Stat.fields, 0 ≤ f.2 (obsToStat (Simaple.Bonus.improve (bonusMeta m) k g)) := by
  refine ⟨bonus_ok hg, ?_⟩
  have hg0 : 0 ≤ g := by
    simp only [Simaple.Bonus.validGrade, Bool.and_eq_true, decide_eq_true_eq] at hg
    omega
  exact improve_nonneg (m := bonusMeta m) hl (by simpa [bonusMeta, Rat.le_floor_iff] using ha)
    (by simpa [bonusMeta, Rat.le_floor_iff] using hm) k hg0

/-! ### blueprints -/

/-- `GeneralizedGearBlueprint.build` with ALL parts computed by the model: if the spell traces, scrolls, bonus
    specs and the exceptional part evaluate (to `ts`, `ss`, `bs`, `ex`), the built stat is exactly
      base + (Σ spell traces + Σ scrolls) + star force + Σ bonus + exceptional,
    star force being computed on the scrolled gear (base + Σ spell traces + Σ scrolls); if star force refuses the
    star count, `build` raises the same exception.  (Instance of `Simaple.Props.C17.blueprint_additive`.) -/
theorem concrete_blueprint_additive (bp : GeneralizedGearBlueprint) (ts ss bs : List Stat) (ex : Option Stat)
    (ht : bp.traceStats = .ok ts) (hs : bp.scrollStats = .ok ss) (hb : bp.bonusStats = .ok bs)
    (he : bp.exceptionalStat = .ok ex) :
    (∀ sf, calculate_improvement bp.meta.sf
        (SF.ofStat (bp.meta.base_stat.add ((Stat.sum ts).add (Stat.sum ss)))) bp.star = .ok sf →
      bp.build = .ok (((((bp.meta.base_stat.add ((Stat.sum ts).add (Stat.sum ss))).add
        (SF.toStat sf)).add (Stat.sum bs)).add (ex.getD Stat.zero)))) ∧
    (∀ e, calculate_improvement bp.meta.sf
        (SF.ofStat (bp.meta.base_stat.add ((Stat.sum ts).add (Stat.sum ss)))) bp.star = .error e →
      bp.build = .error (PErr.ofSF e)) := by
  rw [build_of_parts bp ht hs hb he]
  obtain ⟨h1, h2⟩ := Simaple.Props.C17.blueprint_additive (bp.evaluated ts ss bs ex)
  constructor
  · intro sf h
    rw [h1 sf h]; rfl
  · intro e h
    rw [h2 e h]; rfl

/-- The first part that raises decides: an exception of a spell trace, else of a scroll, is what `build` raises;
    an exception of a bonus spec or of the exceptional part is raised only if star force accepted the stars
    (star force is computed before them). -/
theorem concrete_blueprint_part_error (bp : GeneralizedGearBlueprint) :
    (∀ e, bp.traceStats = .error e → bp.build = .error e) ∧
    (∀ ts e, bp.traceStats = .ok ts → bp.scrollStats = .error e → bp.build = .error e) ∧
    (∀ ts ss e, bp.traceStats = .ok ts → bp.scrollStats = .ok ss →
      (bp.bonusStats = .error e ∨ (∃ bs, bp.bonusStats = .ok bs ∧ bp.exceptionalStat = .error e)) →
      (∀ sf, calculate_improvement bp.meta.sf
          (SF.ofStat (bp.meta.base_stat.add ((Stat.sum ts).add (Stat.sum ss)))) bp.star = .ok sf →
        bp.build = .error e) ∧
      (∀ e', calculate_improvement bp.meta.sf
          (SF.ofStat (bp.meta.base_stat.add ((Stat.sum ts).add (Stat.sum ss)))) bp.star = .error e' →
        bp.build = .error (PErr.ofSF e'))) := by
  refine ⟨?_, ?_, ?_⟩
  · intro e h; simp only [GeneralizedGearBlueprint.build, h]
  · intro ts e h1 h2; simp only [GeneralizedGearBlueprint.build, h1, h2]
  · intro ts ss e h1 h2 h3
    obtain ⟨a1, a2⟩ := Simaple.Props.C17.blueprint_additive (bp.evaluated ts ss [] none)
    have hb : bp.build = raiseAfterSF e (Simaple.Model.GearBlueprint.build (bp.evaluated ts ss [] none)) := by
      rcases h3 with h3 | ⟨bs, h3, h4⟩
      · simp only [GeneralizedGearBlueprint.build, h1, h2, h3]
      · simp only [GeneralizedGearBlueprint.build, h1, h2, h3, h4]
    constructor
    · intro sf h; rw [hb, a1 sf h]; rfl
    · intro e' h; rw [hb, a2 e' h]; rfl

/-- `PracticalGearBlueprint.build` of a well-formed practical blueprint, ALL parts computed by the model: the slot
    part (the spell trace's improvement if one is given, else the scroll's stat, else nothing) is defined and
    non-negative, the bonus specs evaluate, star force with the stars cut to the cap is defined on the scrolled
    gear, and the built stat is exactly
      base + n · slot part + star force(scrolled gear, min(star, cap)) + Σ bonus        (n = max_scroll_chance),
    where for a spell trace the n copies add up to n times its improvement in every field.
    (Instance of `Simaple.Props.C17.practical_blueprint_additive`.) -/
theorem concrete_practical_additive (p : PracticalGearBlueprint) (h : WFP p) :
    ∃ (part : Stat) (bs : List Stat) (sf : SF),
      p.slotPart = .ok part ∧ p.translate.bonusStats = .ok bs ∧
      calculate_improvement p.meta.sf
        (SF.ofStat (p.meta.base_stat.add (Stat.sum (List.replicate p.meta.sf.max_scroll_chance.toNat part))))
        (if maxStar p.meta.sf < p.star then maxStar p.meta.sf else p.star) = .ok sf ∧ sf.nonneg ∧
      p.build = .ok (((p.meta.base_stat.add (Stat.sum (List.replicate p.meta.sf.max_scroll_chance.toNat part))).add
        (SF.toStat sf)).add (Stat.sum bs)) ∧
      (p.spell_trace.isSome = true →
        Stat.sum (List.replicate p.meta.sf.max_scroll_chance.toNat part)
          = part.stack (p.meta.sf.max_scroll_chance.toNat : Rat)) := by
  obtain ⟨part, bs, q, hpart, _, hbs, hqm, hqb, hqs, hqbon, hqt, hqsc, hsum, htr, hbuild⟩ := practical_parts h
  obtain ⟨sf, hsf, hnn, hq⟩ := Simaple.Props.C17.practical_blueprint_additive q (by rw [hqm]; exact h.1)
    (by rw [hqb]; exact h.2.1) hqt hqsc
  rw [scrolled_eq] at hsf
  have e1 : q.toGeneralized.base = q.base := rfl
  rw [e1, hsum, hqm, hqb, hqs] at hsf
  rw [hsum, hqb, hqbon] at hq
  refine ⟨part, bs, sf, hpart, hbs, hsf, hnn, ?_, ?_⟩
  · rw [hbuild, hq]; rfl
  · intro hsome
    obtain ⟨hfd, hig, _⟩ := htr hsome
    exact sum_replicate_eq_stack part hfd hig _

/-- A well-formed practical blueprint always builds. -/
theorem concrete_blueprint_defined (p : PracticalGearBlueprint) (h : WFP p) : ∃ s, p.build = .ok s := by
  obtain ⟨_, _, _, _, _, _, _, hb, _⟩ := concrete_practical_additive p h
  exact ⟨_, hb⟩

/-! ### non-vacuity: concrete gears satisfy the hypotheses and the conclusions are non-trivial -/

/-- a level-150 mage hat with 7 scroll slots (as 1005303): traceable; 100/70/30 are legal -/
example : Traceable { type := 100, req_level := 150, req_job := 2, max_scroll_chance := 7 } ∧
    legalProbabilities { type := 100, req_level := 150, req_job := 2, max_scroll_chance := 7 } = [100, 70, 30] := by
  decide +kernel
/-- … its 30 % INT spell trace gives INT 7 and MHP 120; as the 4th trace also magic attack 1 -/
example : SpellTrace.calculate_improvement { type := 100, req_level := 150, req_job := 2, max_scroll_chance := 7 }
      { probability := 30, stat_prop_type := .INT } = .ok { INT := 7, MHP := 120 } ∧
    SpellTrace.calculate_improvement { type := 100, req_level := 150, req_job := 2, max_scroll_chance := 7 }
      { probability := 30, stat_prop_type := .INT, order := 4 } = .ok { INT := 7, MHP := 120, magic_attack := 1 } := by
  decide +kernel
/-- a level-200 polearm: the 15 % STR trace gives attack 9 and STR 4 -/
example : SpellTrace.calculate_improvement { type := 144, req_level := 200, req_job := 1, max_scroll_chance := 8 }
      { probability := 15, stat_prop_type := .STR } = .ok { STR := 4, attack_power := 9 } := by
  decide +kernel
/-- a dragon mask (type 194, 3 scroll slots, as the shipped 1942000) is NOT traceable: the spell trace raises -/
example : ¬ Traceable { type := 194, req_level := 20, max_scroll_chance := 3 } ∧
    SpellTrace.calculate_improvement { type := 194, req_level := 20, max_scroll_chance := 3 }
      { probability := 100, stat_prop_type := .STR } = .error .unboundLocalError := by
  decide +kernel
/-- a well-formed practical blueprint on the hat: 30 % INT trace in all 7 slots, 22 stars, INT grade 5 and
    all-stat rank 2 (= grade 6) bonus -/
example : WFP { «meta» := { sf := { type := 100, req_level := 150, req_job := 2, max_scroll_chance := 7 },
                            base_stat := { INT := 40, LUK := 40, MHP := 360, MMP := 360 } },
                spell_trace := some { probability := 30, stat_prop_type := .INT }, star := 22,
                bonuses := [{ bonus_type := .int, grade := some 5 }, { bonus_type := .allstat, rank := some 2 }] } := by
  decide +kernel
/-- … builds to INT 40 + 7·7 + 117 + 8·5 = 246, MHP 360 + 7·120 + 255 = 1455, all-stat 6 % -/
example : PracticalGearBlueprint.build
    { «meta» := { sf := { type := 100, req_level := 150, req_job := 2, max_scroll_chance := 7 },
                  base_stat := { INT := 40, LUK := 40, MHP := 360, MMP := 360 } },
      spell_trace := some { probability := 30, stat_prop_type := .INT }, star := 22,
      bonuses := [{ bonus_type := .int, grade := some 5 }, { bonus_type := .allstat, rank := some 2 }] }
    = .ok { INT := 246, LUK := 157, MHP := 1455, MMP := 360, attack_power := 85, magic_attack := 85,
            STR_multiplier := 6, DEX_multiplier := 6, INT_multiplier := 6, LUK_multiplier := 6 } := by
  decide +kernel
/-- a weapon bonus: grade-5 attack on a level-200 non-boss polearm with base attack 295 is ceil(295·7.32·4/100) = 87 -/
example : bonusImprovement { sf := { type := 144, req_level := 200, req_job := 1, max_scroll_chance := 8 },
                             base_stat := { attack_power := 295 } } .att 5 = .ok { attack_power := 87 } := by
  decide +kernel

end Simaple.Props.C17_Parts
