import Simaple.Props.C03
import Simaple.Props.C01_Refused
/-!
# C03, part "Refused": rollback in sessions that go on after a refused command

`rollback_replay` is about interleavings of `exec` and `rollback`.  Here a third kind of step is allowed anywhere in
between: a command the engine refuses with an exception (`refuseOp` / `refuseConsole` of `Model/Engine.lean`).  It
survives nowhere: the history is that of a fresh engine that executed only the surviving, accepted commands.
-/
namespace Simaple.Props.C03
open Simaple.Engine Simaple.Props.C01

section
variable {σ τ : Type}
variable {P : Action → σ → σ × List Event} {save : σ → τ} {load : τ → σ} {clock : σ → Rat}
variable {view : σ → String → String}
variable (hash : OpLog τ → String) (t0 : τ)

/-- exec / rollback / refused command -/
inductive OpR where
  | exec (c : Command)
  | rollback (i : Nat)
  | refusedOp
  | refusedConsole

def survivingR : List Command → List OpR → List Command
  | acc, [] => acc
  | acc, .exec c :: ops => survivingR (acc ++ [c]) ops
  | acc, .rollback i :: ops => survivingR (acc.take i) ops
  | acc, _ :: ops => survivingR acc ops

def runOpsR (P : Action → σ → σ × List Event) (save : σ → τ) (load : τ → σ) (clock : σ → Rat)
    (view : σ → String → String) (hash : OpLog τ → String) (t0 : τ) (e : Engine σ τ) : List OpR → Engine σ τ
  | [] => e
  | .exec c :: ops => runOpsR P save load clock view hash t0 (exec P save load clock view hash t0 e c) ops
  | .rollback i :: ops => runOpsR P save load clock view hash t0 (rollback e i) ops
  | .refusedOp :: ops => runOpsR P save load clock view hash t0 (refuseOp e) ops
  | .refusedConsole :: ops => runOpsR P save load clock view hash t0 (refuseConsole load t0 e) ops

/-- **C03 with refused commands**: any interleaving of `exec`, `rollback` and refused commands leaves exactly the
    history of a fresh engine that executed only the surviving commands, in the canonical state. -/
theorem rollback_replay_with_refusals (L : StoreLaws P save load clock view) (st : σ) (ops : List OpR) :
    ∀ (acc : List Command) (e : Engine σ τ), EInv save t0 e →
      e.logs = replay P save load clock view hash t0 st acc →
      (runOpsR P save load clock view hash t0 e ops).logs
          = replay P save load clock view hash t0 st (survivingR acc ops)
        ∧ EInv save t0 (runOpsR P save load clock view hash t0 e ops) := by
  induction ops with
  | nil => intro acc e h he; exact ⟨he, h⟩
  | cons op ops ih =>
    intro acc e h he
    cases op with
    | exec c =>
      simp only [runOpsR, survivingR]
      apply ih _ _ (exec_inv hash t0 L e c h)
      rw [exec_logs hash t0 L e c h, he]
      simp [replay, List.foldl_append]
    | rollback i =>
      simp only [runOpsR, survivingR]
      have key : e.logs.take (i + 1) = replay P save load clock view hash t0 st (acc.take i) := by
        rw [he]
        have := fold_take P save load clock view hash t0 acc [initLog (save st)] i
        simp only [List.length_singleton] at this
        unfold replay
        rw [← this]; congr 1; omega
      apply ih (acc.take i)
      · apply reload_inv
        simp only [key]
        exact replay_ckpt_real hash t0 L st _
      · exact key
    | refusedOp =>
      simp only [runOpsR, survivingR]
      exact ih acc _ (refused_op_keeps_inv t0 e h).1 he
    | refusedConsole =>
      simp only [runOpsR, survivingR]
      exact ih acc _ (refused_console_keeps_inv t0 L e h).1 he

/-- corollary for a fresh engine -/
theorem rollback_replay_with_refusals_fresh (L : StoreLaws P save load clock view) (st : σ) (ops : List OpR) :
    (runOpsR P save load clock view hash t0 (initEngine save st) ops).logs
      = (execAll P save load clock view hash t0 (initEngine save st) (survivingR [] ops)).logs := by
  have h := rollback_replay_with_refusals hash t0 L st ops [] (initEngine save st) (initEngine_inv t0 st) rfl
  rw [h.1, (execAll_logs hash t0 L _ _ (initEngine_inv t0 st)).1]
  rfl

end
end Simaple.Props.C03
