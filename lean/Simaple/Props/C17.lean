/-
C17 — star force is incremental, monotone and capped; blueprints add up.

Property theorems only.  They are stated over the hand model `Simaple.Model.Starforce` /
`Simaple.Model.GearBlueprint`, whose tables, `star_data` and GearType predicates are the GENERATED
`Simaple.Gen.Starforce` (regenerated from the Python source on every run), for EVERY gear meta with a
non-negative level requirement and non-negative referenced stats (`WF`) -- any gear type code, job mask,
scroll count, superior flag -- not only the shipped gears.
-/
import Simaple.Proofs.Starforce
import Simaple.Proofs.GearBlueprint

namespace Simaple.Props.C17
open Simaple.Gen Simaple.Gen.Starforce Simaple.Model.Starforce Simaple.Model.GearBlueprint
open Simaple.Proofs.Starforce Simaple.Proofs.GearBlueprint Simaple.Props.C11

/-! ### star force -/

/-- Inside the cap every table look-up star force makes is defined (a level band is found and the row has
    a column for the star) and yields a non-negative number: the increment tables selected for the gear
    (superior gear calls `get_starforce_increment(…, amazing_scroll=True, …)`, all other gear `False`), the
    glove and the HP/MP bonus lists; the cap itself is read from complete rows of `star_data` and is
    non-negative. -/
theorem tables_in_range (m : Meta) (hl : 0 ≤ m.req_level) (star : Nat) (_h1 : 1 ≤ star)
    (hcap : (star : Int) ≤ maxStar m) :
    (∀ att, ∃ v, get_starforce_increment m star m.superior_eqp att = .ok v ∧ 0 ≤ v) ∧
    (∃ v, pyIndex glove_starforce_bonus star = .ok v ∧ 0 ≤ v) ∧
    (∃ v, pyIndex mhp_starforce_bonus star = .ok v ∧ 0 ≤ v) ∧
    (∀ r ∈ star_data, r.length = 3) ∧ 0 ≤ maxStar m := by
  have hw := maxStar_lt_width m
  have hsd := star_data_good
  simp only [starDataGood, List.all_eq_true, Bool.and_eq_true, decide_eq_true_eq] at hsd
  refine ⟨?_, ?_, ?_, fun r hr => (hsd r hr).1.1.1.1, maxStar_nonneg m⟩
  · intro att
    cases hs : m.superior_eqp with
    | true =>
      rw [hs] at hw
      exact increment_ok (table_good_sup hs true att) hl (by simp only [if_true] at hw; omega)
    | false =>
      rw [hs] at hw
      exact increment_ok (table_good_gen hs att) hl (by simp at hw; omega)
  · cases hs : m.superior_eqp with
    | true =>
      -- superior gear never reads the list, but its cap is inside it as well
      rw [hs] at hw
      have : widthSup ≤ glove_starforce_bonus.length := by decide +kernel
      have hpos : ∀ x ∈ glove_starforce_bonus, (0 : Int) ≤ x := by decide +kernel
      exact pyIndex_ok (by simp only [if_true] at hw; omega) hpos
    | false =>
      rw [hs] at hw
      exact list_lookup_ok general_tables_good.2.2.2.1 (by simp at hw; omega)
  · cases hs : m.superior_eqp with
    | true =>
      rw [hs] at hw
      have : widthSup ≤ mhp_starforce_bonus.length := by decide +kernel
      have hpos : ∀ x ∈ mhp_starforce_bonus, (0 : Int) ≤ x := by decide +kernel
      exact pyIndex_ok (by simp only [if_true] at hw; omega) hpos
    | false =>
      rw [hs] at hw
      exact list_lookup_ok general_tables_good.2.2.2.2 (by simp at hw; omega)

/-- One more star inside the cap, on a gear whose stats so far are non-negative: the increment
    (`get_single_starforce_improvement`) is defined and every field of it is non-negative. -/
theorem increment_nonneg (m : Meta) (ref cur : SF) (hwf : WF m ref) (hc : cur.nonneg) (t : Nat)
    (hcap : (t : Int) ≤ maxStar m) :
    ∃ d, single m ref t cur = .ok d ∧ d.nonneg :=
  single_ok hwf hcap hc

/-- Up to the cap the star-force bonus is defined and every field is non-negative. -/
theorem starforce_defined_nonneg (m : Meta) (ref : SF) (hwf : WF m ref) (n : Nat)
    (hcap : (n : Int) ≤ maxStar m) :
    ∃ s, improvement m ref n = .ok s ∧ s.nonneg :=
  improvement_ok hwf hcap

/-- Up to the cap the star-force bonus is non-decreasing in the number of stars, in every field. -/
theorem starforce_monotone (m : Meta) (ref : SF) (hwf : WF m ref) (a b : Nat) (hab : a ≤ b)
    (hcap : (b : Int) ≤ maxStar m) :
    ∃ sa sb, improvement m ref a = .ok sa ∧ improvement m ref b = .ok sb ∧ sa.nonneg ∧ sa.le sb :=
  improvement_mono hwf hab hcap

/-- The bonus for n+1 stars is the bonus for n stars plus the increment of star n+1 computed from the gear
    as enhanced so far (reference stat + bonus for n stars); the bonus for 0 stars is empty.  (All stars,
    also beyond the cap, where both sides are the same exception.) -/
theorem starforce_is_sum_of_increments (m : Meta) (ref : SF) :
    improvement m ref 0 = .ok SF.zero ∧
    ∀ n, improvement m ref (n + 1) =
      match improvement m ref n with
      | .error e => .error e
      | .ok cur =>
        match single m ref (n + 1) cur with
        | .error e => .error e
        | .ok inc => .ok (cur.add inc) := by
  exact ⟨rfl, fun n => rfl⟩

/-- … hence, inside the cap, it is the running sum of the per-star increments: there are increments
    `d 1 … d n`, each the (defined, non-negative) single-star increment on the running sum before it. -/
theorem starforce_running_sum (m : Meta) (ref : SF) (hwf : WF m ref) (n : Nat) (hcap : (n : Int) ≤ maxStar m) :
    ∃ ds : List SF, ds.length = n ∧ improvement m ref n = .ok (ds.foldl SF.add SF.zero) ∧
      ∀ i (hi : i < ds.length),
        single m ref (i + 1) ((ds.take i).foldl SF.add SF.zero) = .ok ds[i] ∧ ds[i].nonneg := by
  induction n with
  | zero => exact ⟨[], rfl, rfl, fun i hi => absurd hi (by simp)⟩
  | succ k ih =>
    obtain ⟨ds, hlen, himp, hds⟩ := ih (by omega)
    obtain ⟨s, d, hs, hd, hd0, _, hstep⟩ := improvement_step hwf hcap
    rw [himp] at hs
    cases hs
    refine ⟨ds ++ [d], by simp [hlen], by simp [hstep, List.foldl_append], ?_⟩
    intro i hi
    by_cases hik : i < ds.length
    · have h := hds i hik
      rw [List.take_append_of_le_length (by omega), List.getElem_append_left hik]
      exact h
    · have hi' : i = ds.length := by simp at hi; omega
      subst hi'
      simp only [List.take_left', List.getElem_append_right (Nat.le_refl _), Nat.sub_self,
        List.getElem_cons_zero]
      rw [hlen]
      exact ⟨hd, hd0⟩

/-- A star beyond the cap is refused: the single-star increment is the TypeError for every target star
    above the cap (in particular cap + 1), whatever the gear; and the whole computation with more stars than
    the cap ends in that TypeError. -/
theorem beyond_cap_refused (m : Meta) (ref : SF) :
    (∀ cur, single m ref ((maxStar m).toNat + 1) cur = .error .typeError) ∧
    (∀ t : Nat, (t : Int) > maxStar m → ∀ cur, single m ref t cur = .error .typeError) ∧
    (WF m ref → ∀ n : Nat, (n : Int) > maxStar m → improvement m ref n = .error .typeError) := by
  refine ⟨fun cur => single_refused m ref (by omega) cur, fun t ht cur => single_refused m ref ht cur,
    fun hwf n hn => improvement_refused hwf hn⟩

/-- `apply_star_cutoff` brings any requested star count inside the cap, so the cut computation is always
    defined (this is what `PracticalGearBlueprint` does before building). -/
theorem cutoff_defined (m : Meta) (ref : SF) (hwf : WF m ref) (star : Int) :
    starCutoff m star ≤ maxStar m ∧
    ∃ s, calculate_improvement m ref (starCutoff m star) = .ok s ∧ s.nonneg := by
  refine ⟨starCutoff_le m star, ?_⟩
  have := starCutoff_le m star
  have h0 := maxStar_nonneg m
  exact improvement_ok hwf (by omega)

/-! ### blueprints -/

/-- `GeneralizedGearBlueprint.build`: whenever star force accepts the star count, the built gear's stat is
    exactly  base + (Σ spell traces + Σ scrolls) + star force + Σ bonus + exceptional,  where star force is
    computed on the scrolled gear (base + Σ spell traces + Σ scrolls); if star force refuses, `build` raises
    the same exception. -/
theorem blueprint_additive (bp : Blueprint) :
    (∀ sf, calculate_improvement bp.meta
        (SF.ofStat (bp.base.add ((Stat.sum bp.spell_traces).add (Stat.sum bp.scrolls)))) bp.star = .ok sf →
      build bp = .ok (((((bp.base.add ((Stat.sum bp.spell_traces).add (Stat.sum bp.scrolls))).add
        (SF.toStat sf)).add (Stat.sum bp.bonuses)).add (bp.exceptional.getD Stat.zero)))) ∧
    (∀ e, calculate_improvement bp.meta
        (SF.ofStat (bp.base.add ((Stat.sum bp.spell_traces).add (Stat.sum bp.scrolls)))) bp.star = .error e →
      build bp = .error e) := by
  rw [build_eq, scrolled_eq]
  constructor
  · intro sf h; rw [h]; rfl
  · intro e h; rw [h]

/-- The parts add up in any order: for every arrangement `parts` of all spell traces, scrolls, bonuses and
    the exceptional part, the built stat is base + star force + Σ parts. -/
theorem blueprint_order_irrelevant (bp : Blueprint) (sf : SF)
    (h : calculate_improvement bp.meta (SF.ofStat (scrolled bp)) bp.star = .ok sf) (parts : List Stat)
    (hp : parts.Perm (bp.spell_traces ++ bp.scrolls ++ bp.bonuses ++ bp.exceptional.toList)) :
    build bp = .ok ((bp.base.add (SF.toStat sf)).add (Stat.sum parts)) := by
  rw [build_eq, h]
  simp only [composed]
  rw [stat_sum_perm hp, stat_sum_append, stat_sum_append, stat_sum_append]
  have hexc : Stat.sum bp.exceptional.toList = bp.exceptional.getD Stat.zero := by
    cases bp.exceptional with
    | none => simpa using stat_sum_nil
    | some e =>
      have := stat_sum_snoc [] e
      simp only [List.nil_append, stat_sum_nil, stat_zero_add] at this
      simpa using this
  rw [hexc]
  generalize bp.exceptional.getD Stat.zero = x
  generalize Stat.sum bp.spell_traces = t
  generalize Stat.sum bp.scrolls = s
  generalize Stat.sum bp.bonuses = b
  generalize SF.toStat sf = f
  simp only [stat_add_assoc]
  congr 1
  rw [stat_add_comm f (t.add (s.add (b.add x))), stat_add_comm f (b.add x)]
  simp only [stat_add_assoc]

/-- A generalized blueprint of a well-formed gear whose star count is within 0..cap always builds, and
    one with more stars than the cap is refused with the TypeError. -/
theorem blueprint_defined_iff_within_cap (bp : Blueprint) (hwf : WFB bp) :
    (bp.star ≤ maxStar bp.meta → ∃ sf, sf.nonneg ∧ build bp = .ok (composed bp sf)) ∧
    (bp.star > maxStar bp.meta → build bp = .error .typeError) := by
  have hw := wf_of_wfb hwf
  have h0 := maxStar_nonneg bp.meta
  rw [build_eq]
  constructor
  · intro h
    obtain ⟨s, hs, hs0⟩ := improvement_ok hw (n := bp.star.toNat) (by omega)
    exact ⟨s, hs0, by simp only [calculate_improvement, hs]⟩
  · intro h
    have := improvement_refused hw (n := bp.star.toNat) (by omega)
    simp only [calculate_improvement, this]

/-- `PracticalGearBlueprint.build`: the stars are cut to the cap, the one spell trace (else the one scroll)
    is applied `max_scroll_chance` times, and the result is always defined for a well-formed gear:
    base + n·trace (or n·scroll) + star force (on the scrolled gear, stars cut to the cap) + Σ bonus. -/
theorem practical_blueprint_additive (p : Practical) (hl : 0 ≤ p.meta.req_level) (hb : StatNonneg p.base)
    (ht : ∀ x, p.spell_trace = some x → StatNonneg x) (hs : ∀ x, p.scroll = some x → StatNonneg x) :
    ∃ sf, calculate_improvement p.meta (SF.ofStat (scrolled p.toGeneralized))
            (if maxStar p.meta < p.star then maxStar p.meta else p.star) = .ok sf ∧ sf.nonneg ∧
      p.build = .ok (((p.base.add ((Stat.sum p.toGeneralized.spell_traces).add
        (Stat.sum p.toGeneralized.scrolls))).add (SF.toStat sf)).add (Stat.sum p.bonuses)) := by
  have hwfb := toGeneralized_wfb hl hb ht hs
  have hw := wf_of_wfb hwfb
  have hle := starCutoff_le p.meta p.star
  have h0 := maxStar_nonneg p.meta
  obtain ⟨s, hsok, hs0⟩ := improvement_ok hw (n := (starCutoff p.meta p.star).toNat)
    (by simp only [Practical.toGeneralized]; omega)
  refine ⟨s, hsok, hs0, ?_⟩
  rw [Practical.build, build_eq]
  have hstar : p.toGeneralized.star = starCutoff p.meta p.star := rfl
  have hmeta : p.toGeneralized.meta = p.meta := rfl
  rw [hstar, hmeta]
  have : calculate_improvement p.meta (SF.ofStat (scrolled p.toGeneralized)) (starCutoff p.meta p.star)
      = .ok s := hsok
  rw [this]
  simp only [composed]
  have hexc : p.toGeneralized.exceptional = none := rfl
  have hbon : p.toGeneralized.bonuses = p.bonuses := rfl
  have hbase : p.toGeneralized.base = p.base := rfl
  rw [hexc, hbon, hbase, Option.getD_none, stat_add_zero]

/-! ### non-vacuity: concrete shipped gears satisfy the hypotheses and the conclusions are non-trivial -/

/-- 1005303 (level-150 mage hat, 7 scroll slots): cap 25 -/
example : maxStar { type := 100, req_level := 150, req_job := 2, max_scroll_chance := 7 } = 25 := by decide +kernel
example : WF { type := 100, req_level := 150, req_job := 2, max_scroll_chance := 7 } {} := by decide
/-- … 22 stars on it: the value the test-suite expects (attack 85, INT/LUK 117, MHP 255) -/
example : improvement { type := 100, req_level := 150, req_job := 2, max_scroll_chance := 7 } {} 22
    = .ok { INT := 117, LUK := 117, attack_power := 85, magic_attack := 85, MHP := 255 } := by decide +kernel
/-- … and the 26th star is refused -/
example : improvement { type := 100, req_level := 150, req_job := 2, max_scroll_chance := 7 } {} 26
    = .error .typeError := by decide +kernel
/-- a superior level-150 gear has cap 15 and its 15th star gives attack 23 -/
example : (maxStar { type := 113, req_level := 150, superior_eqp := true, max_scroll_chance := 3 } = 15) ∧
    single { type := 113, req_level := 150, superior_eqp := true, max_scroll_chance := 3 } {} 15 {}
      = .ok { attack_power := 23, magic_attack := 23 } := by decide +kernel
/-- a weapon: the attack increment depends on the attack reached so far (`// 50 + 1`) -/
example : improvement { type := 144, req_level := 200, req_job := 1, max_scroll_chance := 8 }
    { STR := 150, DEX := 150, attack_power := 295 } 2
    = .ok { STR := 4, DEX := 4, attack_power := 13, MHP := 10, MMP := 10 } := by decide +kernel

end Simaple.Props.C17
