/-
C09, part `Wind`: chunk independence of the `elapse` reducers of the soulmaster / dualblade / windbreaker
job-specific component classes.  For `0 ≤ a`, `0 ≤ b`: elapsing `a` then `b` deals the same damage ticks
(`Wind.damages`: the `dealt` events, with their (damage, hit)) as elapsing `a + b` at once — as the very same
list where the theorem says `=`, as a multiset (`List.Perm`) for the key-down skill, whose finishing blow may
come before later ticks — and leaves an equal state (hence equal views), or, for classes with a `Periodic`
scheduler, an equivalent one (`X.Equiv`: equal up to the dead tick counter of an expired scheduler) that
shows the same views and on which every reducer answers the same.
Hypotheses are the decidable invariants `X.Inv` of the model file (pydantic constraints of the timers, the
reachable key-downs); each is preserved by every reducer of its class (`X_inv_preserved`), and the driver
refuses any harvested real state that violates them.
CosmicOrb and CrossTheStyx have no `elapse` reducer.
-/
import Simaple.Proofs.ComponentWind

namespace Simaple.Props.C09_Wind
open Simaple.Comp Simaple.Entity

/-! ### classes whose timers are all linear: plain equality, no hypothesis beyond `0 ≤ a, b` -/
theorem elysion_chunk_independent (p : Elysion.P) (s : Elysion.S) (a b : Int) (ha : 0 ≤ a) (hb : 0 ≤ b) :
    Wind.damages (Elysion.elapse p (a + b) s).2 =
      Wind.damages (Elysion.elapse p a s).2 ++ Wind.damages (Elysion.elapse p b (Elysion.elapse p a s).1).2 ∧
    (Elysion.elapse p b (Elysion.elapse p a s).1).1 = (Elysion.elapse p (a + b) s).1 := by
  refine ⟨rfl, ?_⟩
  simp only [Elysion.elapse, Cooldown.elapse_add, Lasting.elapse_add, LastingStack.elapse_add _ _ _ ha hb]

theorem cosmicBurst_chunk_independent (p : CosmicBurst.P) (s : CosmicBurst.S) (a b : Int) :
    Wind.damages (CosmicBurst.elapse p (a + b) s).2 =
      Wind.damages (CosmicBurst.elapse p a s).2 ++ Wind.damages (CosmicBurst.elapse p b (CosmicBurst.elapse p a s).1).2 ∧
    (CosmicBurst.elapse p b (CosmicBurst.elapse p a s).1).1 = (CosmicBurst.elapse p (a + b) s).1 := by
  refine ⟨rfl, ?_⟩
  simp only [CosmicBurst.elapse, Cooldown.elapse_add]

theorem flareSlash_chunk_independent (p : FlareSlash.P) (s : FlareSlash.S) (a b : Int) :
    Wind.damages (FlareSlash.elapse p (a + b) s).2 =
      Wind.damages (FlareSlash.elapse p a s).2 ++ Wind.damages (FlareSlash.elapse p b (FlareSlash.elapse p a s).1).2 ∧
    (FlareSlash.elapse p b (FlareSlash.elapse p a s).1).1 = (FlareSlash.elapse p (a + b) s).1 := by
  refine ⟨rfl, ?_⟩
  simp only [FlareSlash.elapse, Cooldown.elapse_add]

theorem finalCut_chunk_independent (p : FinalCut.P) (s : FinalCut.S) (a b : Int) :
    Wind.damages (FinalCut.elapse p (a + b) s).2 =
      Wind.damages (FinalCut.elapse p a s).2 ++ Wind.damages (FinalCut.elapse p b (FinalCut.elapse p a s).1).2 ∧
    (FinalCut.elapse p b (FinalCut.elapse p a s).1).1 = (FinalCut.elapse p (a + b) s).1 := by
  refine ⟨rfl, ?_⟩
  simp only [FinalCut.elapse, Cooldown.elapse_add]

theorem ultimateDarkSight_chunk_independent (p : UltimateDarkSight.P) (s : UltimateDarkSight.S) (a b : Int) :
    Wind.damages (UltimateDarkSight.elapse p (a + b) s).2 =
      Wind.damages (UltimateDarkSight.elapse p a s).2 ++
        Wind.damages (UltimateDarkSight.elapse p b (UltimateDarkSight.elapse p a s).1).2 ∧
    (UltimateDarkSight.elapse p b (UltimateDarkSight.elapse p a s).1).1 = (UltimateDarkSight.elapse p (a + b) s).1 := by
  refine ⟨rfl, ?_⟩
  simp only [UltimateDarkSight.elapse, Cooldown.elapse_add, Lasting.elapse_add]

/-! ### KarmaBladeTriggerComponent — the finishing blow is dealt exactly once, in whichever chunk the
    blade's time runs out; equal states -/
theorem karmaBlade_chunk_independent (p : KarmaBlade.P) (s : KarmaBlade.S) (a b : Int) (ha : 0 ≤ a) (hb : 0 ≤ b) :
    Wind.damages (KarmaBlade.elapse p (a + b) s).2 =
      Wind.damages (KarmaBlade.elapse p a s).2 ++ Wind.damages (KarmaBlade.elapse p b (KarmaBlade.elapse p a s).1).2 ∧
    (KarmaBlade.elapse p b (KarmaBlade.elapse p a s).1).1 = (KarmaBlade.elapse p (a + b) s).1 :=
  KarmaBlade.chunk p s a b ha hb

/-! ### TranscendentCygnusBlessing — stack regeneration (`Consumable`) needs `0 < cooldown_duration` -/
theorem cygnusBlessing_chunk_independent (p : CygnusBlessing.P) (s : CygnusBlessing.S) (a b : Int)
    (ha : 0 ≤ a) (hb : 0 ≤ b) (hi : CygnusBlessing.Inv s) :
    Wind.damages (CygnusBlessing.elapse p (a + b) s).2 =
      Wind.damages (CygnusBlessing.elapse p a s).2 ++
        Wind.damages (CygnusBlessing.elapse p b (CygnusBlessing.elapse p a s).1).2 ∧
    (CygnusBlessing.elapse p b (CygnusBlessing.elapse p a s).1).1 = (CygnusBlessing.elapse p (a + b) s).1 := by
  refine ⟨rfl, ?_⟩
  simp only [CygnusBlessing.elapse, Lasting.elapse_add, Consumable.elapse_add _ _ _ hi ha hb]
theorem cygnusBlessing_inv_preserved (p : CygnusBlessing.P) (s : CygnusBlessing.S) (t : Int) (hi : CygnusBlessing.Inv s) :
    CygnusBlessing.Inv (CygnusBlessing.elapse p t s).1 ∧ CygnusBlessing.Inv (CygnusBlessing.use p s).1 := by
  constructor
  · exact Consumable.elapse_wf _ _ hi
  · unfold CygnusBlessing.use; split
    · exact hi
    · exact hi

/-! ### BladeStormComponent (key-down): equal states; the same ticks as a multiset -/
theorem bladeStorm_chunk_independent (p : BladeStorm.P) (s : BladeStorm.S) (a b : Int) (ha : 0 ≤ a) (hb : 0 ≤ b)
    (hi : BladeStorm.Inv s) :
    (Wind.damages (BladeStorm.elapse p (a + b) s).2).Perm
      (Wind.damages (BladeStorm.elapse p a s).2 ++ Wind.damages (BladeStorm.elapse p b (BladeStorm.elapse p a s).1).2) ∧
    (BladeStorm.elapse p b (BladeStorm.elapse p a s).1).1 = (BladeStorm.elapse p (a + b) s).1 :=
  BladeStorm.chunk p s a b ha hb hi
theorem bladeStorm_inv_preserved (p : BladeStorm.P) (s : BladeStorm.S) (t : Int) (hp : 0 ≤ p.prepareDelay)
    (hi : BladeStorm.Inv s) :
    BladeStorm.Inv (BladeStorm.elapse p t s).1 ∧ BladeStorm.Inv (BladeStorm.use p s).1 ∧ BladeStorm.Inv (BladeStorm.stop p s).1 :=
  BladeStorm.inv_preserved p s t hp hi

/-! ### CosmicShower / Cosmos (`Periodic` scheduler): same tick list, equivalent states, same views -/
theorem cosmicShower_chunk_independent (p : CosmicShower.P) (s : CosmicShower.S) (a b : Int) (ha : 0 ≤ a) (hb : 0 ≤ b)
    (hi : CosmicShower.Inv s) :
    Wind.damages (CosmicShower.elapse p (a + b) s).2 =
      Wind.damages (CosmicShower.elapse p a s).2 ++ Wind.damages (CosmicShower.elapse p b (CosmicShower.elapse p a s).1).2 ∧
    CosmicShower.Equiv (CosmicShower.elapse p b (CosmicShower.elapse p a s).1).1 (CosmicShower.elapse p (a + b) s).1 :=
  CosmicShower.chunk p s a b ha hb hi
/-- equivalent states are indistinguishable: same views, and every reducer answers with the same events (or the
    same exception) and equivalent states -/
theorem cosmicShower_equiv_indistinguishable (p : CosmicShower.P) (x y : CosmicShower.S) (h : CosmicShower.Equiv x y) :
    CosmicShower.validity p x = CosmicShower.validity p y ∧ CosmicShower.running p x = CosmicShower.running p y ∧
    (∀ rx, CosmicShower.use p x = .ok rx → ∃ ry, CosmicShower.use p y = .ok ry ∧ rx.2 = ry.2 ∧ CosmicShower.Equiv rx.1 ry.1) ∧
    (∀ e, CosmicShower.use p x = .error e → CosmicShower.use p y = .error e) :=
  CosmicShower.equiv_views_use p x y h
theorem cosmicShower_equiv_elapse (p : CosmicShower.P) (x y : CosmicShower.S) (t : Int) (h : CosmicShower.Equiv x y) :
    (CosmicShower.elapse p t x).2 = (CosmicShower.elapse p t y).2 ∧
    CosmicShower.Equiv (CosmicShower.elapse p t x).1 (CosmicShower.elapse p t y).1 :=
  CosmicShower.equiv_elapse p x y t h
theorem cosmicShower_inv_preserved (p : CosmicShower.P) (s : CosmicShower.S) (t : Int) (hi : CosmicShower.Inv s)
    (hc : ∀ c, s.periodic.initialCounter = some c → 0 < c) :
    CosmicShower.Inv (CosmicShower.elapse p t s).1 ∧ ∀ r, CosmicShower.use p s = .ok r → CosmicShower.Inv r.1 :=
  CosmicShower.inv_preserved p s t hi hc

theorem cosmos_chunk_independent (p : Cosmos.P) (s : Cosmos.S) (a b : Int) (ha : 0 ≤ a) (hb : 0 ≤ b)
    (hi : Cosmos.Inv s) :
    Wind.damages (Cosmos.elapse p (a + b) s).2 =
      Wind.damages (Cosmos.elapse p a s).2 ++ Wind.damages (Cosmos.elapse p b (Cosmos.elapse p a s).1).2 ∧
    Cosmos.Equiv (Cosmos.elapse p b (Cosmos.elapse p a s).1).1 (Cosmos.elapse p (a + b) s).1 :=
  Cosmos.chunk p s a b ha hb hi
theorem cosmos_equiv_indistinguishable (p : Cosmos.P) (x y : Cosmos.S) (h : Cosmos.Equiv x y) :
    Cosmos.validity p x = Cosmos.validity p y ∧ Cosmos.running p x = Cosmos.running p y ∧
    (∀ rx, Cosmos.use p x = .ok rx → ∃ ry, Cosmos.use p y = .ok ry ∧ rx.2 = ry.2 ∧ Cosmos.Equiv rx.1 ry.1) ∧
    (∀ e, Cosmos.use p x = .error e → Cosmos.use p y = .error e) :=
  Cosmos.equiv_views_use p x y h
theorem cosmos_equiv_elapse (p : Cosmos.P) (x y : Cosmos.S) (t : Int) (h : Cosmos.Equiv x y) :
    (Cosmos.elapse p t x).2 = (Cosmos.elapse p t y).2 ∧ Cosmos.Equiv (Cosmos.elapse p t x).1 (Cosmos.elapse p t y).1 :=
  Cosmos.equiv_elapse p x y t h
/-- `use` overwrites the tick interval with `periodic_interval - orbs * decrement` (no validation): the
    scheduler stays well-formed as long as that is positive (shipped: 600 ms − orbs·30 ms, orbs ≤ 10) -/
theorem cosmos_inv_preserved (p : Cosmos.P) (s : Cosmos.S) (t : Int) (hi : Cosmos.Inv s)
    (hc : ∀ c, s.periodic.initialCounter = some c → 0 < c)
    (hpos : 0 < p.periodicInterval - s.orb.stack * p.periodicIntervalDecrementPerOrb) :
    Cosmos.Inv (Cosmos.elapse p t s).1 ∧ ∀ r, Cosmos.use p s = .ok r → Cosmos.Inv r.1 :=
  Cosmos.inv_preserved p s t hi hc hpos

/-- the bound that `cosmos_inv_preserved` needs: every reducer that writes the shared orb stack keeps
    `stack ≤ maximum_stack` (with `0 ≤ maximum_stack`), so `periodic_interval - orbs * decrement` stays positive
    whenever `periodic_interval - maximum_stack * decrement` is (shipped: 600 ms − 10·30 ms) -/
theorem orb_stack_bounded (po : CosmicOrb.P) (pb : CosmicBurst.P) (ps : CosmicShower.P) (pc : Cosmos.P)
    (so : CosmicOrb.S) (sb : CosmicBurst.S) (ss : CosmicShower.S) (sc : Cosmos.S) :
    (so.orb.stack ≤ so.orb.maximumStack ∧ 0 ≤ so.orb.maximumStack →
      (CosmicOrb.increase po so).1.orb.stack ≤ (CosmicOrb.increase po so).1.orb.maximumStack ∧
      (CosmicOrb.maximize po so).1.orb.stack ≤ (CosmicOrb.maximize po so).1.orb.maximumStack ∧
      (CosmicOrb.increase po so).1.orb.maximumStack = so.orb.maximumStack ∧
      (CosmicOrb.maximize po so).1.orb.maximumStack = so.orb.maximumStack) ∧
    (sb.orb.stack ≤ sb.orb.maximumStack ∧ 0 ≤ sb.orb.maximumStack →
      (CosmicBurst.trigger pb sb).1.orb.stack ≤ sb.orb.maximumStack ∧
      (CosmicBurst.trigger pb sb).1.orb.maximumStack = sb.orb.maximumStack) ∧
    (ss.orb.stack ≤ ss.orb.maximumStack ∧ 0 ≤ ss.orb.maximumStack → ∀ r, CosmicShower.use ps ss = .ok r →
      r.1.orb.stack ≤ ss.orb.maximumStack ∧ r.1.orb.maximumStack = ss.orb.maximumStack) ∧
    (sc.orb.stack ≤ sc.orb.maximumStack ∧ 0 ≤ sc.orb.maximumStack → ∀ r, Cosmos.use pc sc = .ok r →
      r.1.orb.stack ≤ sc.orb.maximumStack ∧ r.1.orb.maximumStack = sc.orb.maximumStack) :=
  Wind.orb_stack_bounded po pb ps pc so sb ss sc
theorem cosmos_interval_positive (p : Cosmos.P) (s : Cosmos.S) (hb : s.orb.stack ≤ s.orb.maximumStack)
    (hd : 0 ≤ p.periodicIntervalDecrementPerOrb)
    (hp : 0 < p.periodicInterval - s.orb.maximumStack * p.periodicIntervalDecrementPerOrb) :
    0 < p.periodicInterval - s.orb.stack * p.periodicIntervalDecrementPerOrb := by
  have := Int.mul_le_mul_of_nonneg_right hb hd
  omega

/-! ### HowlingGaleComponent (`Consumable` + `Periodic`, rows selected by the stacks consumed) -/
theorem howlingGale_elapse_defined (p : HowlingGale.P) (s : HowlingGale.S) (t : Int) (hi : HowlingGale.Inv p s) :
    ∃ r, HowlingGale.elapse p t s = .ok r := HowlingGale.elapse_defined p s t hi
theorem howlingGale_chunk_independent (p : HowlingGale.P) (s : HowlingGale.S) (a b : Int) (ha : 0 ≤ a) (hb : 0 ≤ b)
    (hi : HowlingGale.Inv p s) (r1 r2 r : HowlingGale.S × List REv)
    (h1 : HowlingGale.elapse p a s = .ok r1) (h2 : HowlingGale.elapse p b r1.1 = .ok r2)
    (h : HowlingGale.elapse p (a + b) s = .ok r) :
    Wind.damages r.2 = Wind.damages r1.2 ++ Wind.damages r2.2 ∧ HowlingGale.Equiv r2.1 r.1 ∧
    HowlingGale.validity p r2.1 = HowlingGale.validity p r.1 ∧ HowlingGale.running p r2.1 = HowlingGale.running p r.1 :=
  HowlingGale.chunk p s a b ha hb hi r1 r2 r h1 h2 h
theorem howlingGale_equiv_indistinguishable (p : HowlingGale.P) (x y : HowlingGale.S) (t : Int) (h : HowlingGale.Equiv x y) :
    HowlingGale.validity p x = HowlingGale.validity p y ∧ HowlingGale.running p x = HowlingGale.running p y ∧
    (∀ rx, HowlingGale.use p x = .ok rx → ∃ ry, HowlingGale.use p y = .ok ry ∧ rx.2 = ry.2 ∧ HowlingGale.Equiv rx.1 ry.1) ∧
    (∀ e, HowlingGale.use p x = .error e → HowlingGale.use p y = .error e) ∧
    (∀ rx ry, HowlingGale.elapse p t x = .ok rx → HowlingGale.elapse p t y = .ok ry →
      rx.2 = ry.2 ∧ HowlingGale.Equiv rx.1 ry.1) :=
  HowlingGale.equiv_indistinguishable p x y t h
theorem howlingGale_inv_preserved (p : HowlingGale.P) (s : HowlingGale.S) (t : Int) (hi : HowlingGale.Inv p s)
    (hc : ∀ c, s.periodic.initialCounter = some c → 0 < c) :
    (∀ r, HowlingGale.elapse p t s = .ok r → HowlingGale.Inv p r.1) ∧
    (∀ r, HowlingGale.use p s = .ok r → HowlingGale.Inv p r.1) :=
  HowlingGale.inv_preserved p s t hi hc

/-! non-vacuity: real-sized instances satisfy the invariants, and ticks do occur -/
example : HowlingGale.Inv ⟨645120, [[715], [1715], [1715, 945]], [[3], [3], [3, 3]], 10240000⟩
    ⟨⟨3, 1, 20480000, 20480000⟩, ⟨2⟩,
     { interval := 153600, initialCounter := some 645120, intervalCounter := 645120, timeLeft := 10885120 }⟩ := by decide
example : BladeStorm.Inv ⟨⟨0⟩, ⟨92160, 122880, 4096000⟩⟩ := by decide
example : (Wind.damages (BladeStorm.elapse ⟨92160000, 4096000, 122880, 640, 7, 122880, 1270, 7⟩ 307200
    ⟨⟨92160000⟩, ⟨92160, 122880, 4096000⟩⟩).2).length = 3 := by decide +kernel

end Simaple.Props.C09_Wind
