/-
C08, effect discipline: the exception list and the per-chunk obligation (see C08_Effects.lean).
-/
import Simaple.Proofs.Effect
import Simaple.Gen.Effects

namespace Simaple.Props.C08
open Simaple.Effect Simaple.Gen.Effects

/-- methods outside the discipline: none.  (`AdeleStormComponent.use` writes `state.stack` only when the events
    returned by `use_periodic_damage_trait` contain no rejection, which is exactly when that trait returned a copy;
    the translator now lowers such a statement list once per return site of the call and folds the constant
    `is_rejected(events)`, so the correlation is visible to the checker.  The list is kept so that a method can be
    named here, and left to the harvested-call replay, should a future one need it.) -/
def pathCorrelated : List (String × String) := []

def covered (e : Entry) : Bool := !(pathCorrelated.any (fun p => p.1 == e.cls && p.2 == e.method))

/-- every covered program of a list is accepted by the checker -/
def allWellFormed (t : List Entry) : Bool := (t.filter covered).all (fun e => wellFormed e.taint e.nvars e.prog)

theorem allWellFormed_append (a b : List Entry) :
    allWellFormed (a ++ b) = (allWellFormed a && allWellFormed b) := by
  simp [allWellFormed, List.filter_append, List.all_append]

end Simaple.Props.C08
