/-
C15 — spec expressions mean ordinary arithmetic; interpretation has no side effects.

Models: `Simaple.Model.SpecMath` (grammar + CalcTransformer of simaple/spec/_math.py) and
`Simaple.Model.SpecPatch` (DFSTraversePatch._apply / ArithmeticPatch / Spec.interpret).  `eval` is ordinary
arithmetic on the parse tree by definition (exact rationals; `//` is the floor of the quotient; `/ 0` is an
error value); the theorems say which tree a text denotes and what `apply` / `interpret` do with templates.
-/
import Simaple.Proofs.SpecMathLex
import Simaple.Proofs.SpecPatch

namespace Simaple.Props.C15
open Simaple.Spec

/-! ### the text ↔ tree correspondence -/

/-- Token level, every tree: the parser reads the printed tokens of `e` back as `e`.  The printer puts
    parentheses only where the left-associative reading with `* / //` above `+ -` would otherwise give another
    tree, so this pins precedence and associativity. -/
theorem parse_pretty_tokens (e : Expr) : parseToks (toks e) = .ok e := parseToks_toks e

/-- Character level: lexing the rendered tokens gives the tokens back (printable ASCII, one blank between
    tokens), for every token list in the printer's range. -/
theorem lex_render_tokens (ts : List Tok) (h : ∀ t ∈ ts, t.wf = true) : lex (render ts) [] = some ts :=
  lex_render ts h

/-- `parseExpr (pretty e) = e` for every tree in the printer's range (`Expr.wf`: literal nodes carry the text of a
    token of their kind; NUMBER texts with a signed exponent such as `1e-3` are outside the range). -/
theorem parse_pretty (e : Expr) (h : e.wf = true) : parseExpr (pretty e) = .ok e := by
  simp only [parseExpr, pretty, String.toList_ofList]
  exact parseChars_pretty e h

/-- the evaluator applied to the printed text computes the arithmetic meaning of the tree -/
theorem evaluate_pretty (env : Env) (e : Expr) (h : e.wf = true) :
    evaluateExpression env (pretty e) = eval env e := by
  simp only [evaluateExpression, pretty, String.toList_ofList, evaluateChars, parseChars_pretty e h]

private def n1 : Expr := .number ['1']
private def n2 : Expr := .number ['2']
private def n3 : Expr := .number ['3']

/-- `1 - 2 - 3` is `(1 - 2) - 3`; the other tree needs parentheses -/
example : prettyChars (.bin .sub (.bin .sub n1 n2) n3) = ['1', ' ', '-', ' ', '2', ' ', '-', ' ', '3'] := by decide
example : prettyChars (.bin .sub n1 (.bin .sub n2 n3))
    = ['1', ' ', '-', ' ', '(', ' ', '2', ' ', '-', ' ', '3', ' ', ')'] := by decide
/-- `1 + 2 * 3` is `1 + (2 * 3)`; `7 // 2 * 3` is `(7 // 2) * 3` -/
example : prettyChars (.bin .add n1 (.bin .mul n2 n3)) = ['1', ' ', '+', ' ', '2', ' ', '*', ' ', '3'] := by decide
example : prettyChars (.bin .mul (.bin .idiv n1 n2) n3)
    = ['1', ' ', '/', '/', ' ', '2', ' ', '*', ' ', '3'] := by decide
example : (Expr.bin .sub (.bin .sub n1 n2) (.fn2 .min (.var ['a', '.', 'b']) (.sepNumber ['1', '_', '0']))).wf = true := by
  decide

/-! ### every template is replaced -/

/-
Full statement wanted (NOT true of the code as it is):

  theorem every_template_replaced (env : Env) (d : Doc) (h : structurally sane d) :
      applyArith env d = specDoc env d

`specDoc` replaces every `{{ e }}` - leaf, list element, dict value, dict key - by `eval e`.  The code passes a
key to `patch_dict` only when its value is a scalar; a template key in front of a dict or list value is kept as
a string (`template_key_of_container_not_replaced` below).  The theorem is therefore proved for documents
without such keys; `Doc.wf` also asks for what `_apply` needs not to raise on non-template data: no `None` list
element (AttributeError) and `exclude` being a list (TypeError).
-/

/-- For every environment and every well-formed document, at every depth: each leaf, list element, dict value
    and (scalar-valued) dict key of the form `{{ e }}` becomes the number `eval e` - whatever that number is,
    0 included -, everything else is unchanged, excluded keys are dropped. Errors (parse error, undefined
    variable, division by zero) are the first one in document order on both sides. -/
theorem every_template_replaced_partial (env : Env) (d : Doc) (h : d.wf = true) :
    applyArith env d = specDoc env d := applyArith_eq_spec env d h

/-- a `{{ e }}` scalar (bare, or - by the theorem above - anywhere) becomes `eval e`, also when that is 0 -/
theorem template_scalar_replaced (env : Env) (t body : Str) (e : Expr) (q : Rat)
    (ht : templateBody t = some body) (hp : parseChars body = .ok e) (hq : eval env e = .ok q) :
    applyArith env (.leaf (.str t)) = .ok (.leaf (.num q)) := by
  rw [applyArith_eq_spec env _ (by simp [Doc.wf])]
  simp [specDoc, subst, ht, hp, hq]

/-- a scalar that is not a template is left alone -/
theorem non_template_scalar_unchanged (env : Env) (s : Scalar) (hn : s ≠ .null) (ht : isTemplate s = false) :
    applyArith env (.leaf s) = .ok (.leaf s) := by
  rw [applyArith_eq_spec env _ (by simp [Doc.wf, hn])]
  simp [specDoc, subst_of_not_template env s ht]

/-- a dict entry with a scalar value: key and value are both translated -/
theorem template_entry_replaced (env : Env) (k v k' v' : Scalar) (hk : subst env k = .ok k')
    (hv : subst env v = .ok v') (hx : pyEq k excludeKey = false) :
    applyArith env (.dict [(k, .leaf v)]) = .ok (.dict [(k', .leaf v')]) := by
  have hg : dictGet [(k, Doc.leaf v)] excludeKey = none := by simp [dictGet, hx]
  rw [applyArith_eq_spec env _ (by simp [Doc.wf, Doc.wfEntries, Doc.wfValue, excludeOk, hg])]
  simp [specDoc, specEntries, excludeList, hg, isExcluded, hx, hk, hv, dictSet]

private def xT : Str := ['{', '{', 'x', '}', '}']
private def env0 : Env := [(['x'], 0)]

/-- the zero case as a list element, a dict value and a dict key -/
example : applyArith env0 (.list [.leaf (.str xT), .dict [(.str xT, .leaf (.str xT))]])
    = .ok (.list [.leaf (.num 0), .dict [(.num 0, .leaf (.num 0))]]) := by
  have hb : templateBody xT = some ['x'] := by decide
  have hp : parseChars ['x'] = .ok (.var ['x']) := parseChars_pretty (.var ['x']) (by decide)
  have hs : subst env0 (.str xT) = .ok (.num 0) := by
    simp [subst, hb, hp, eval, env0, Env.get]
  have hx : pyEq (.str xT) excludeKey = false := by decide
  have hg : dictGet [(Scalar.str xT, Doc.leaf (.str xT))] excludeKey = none := by simp [dictGet, hx]
  rw [every_template_replaced_partial env0 _ (by decide)]
  simp [specDoc, specList, specEntries, hs, excludeList, hg, isExcluded, hx, dictSet]

/-- The code does NOT replace a template key whose value is a list (or dict): the entry keeps its string key,
    while the specification has a number there (or an error if the expression is bad). -/
theorem template_key_of_container_not_replaced (env : Env) (t : Str) (h : isTemplate (.str t) = true) :
    applyArith env (.dict [(.str t, .list [])]) ≠ specDoc env (.dict [(.str t, .list [])]) := by
  have hne : pyEq (.str t) excludeKey = false := by
    cases hx : pyEq (.str t) excludeKey with
    | false => rfl
    | true =>
      simp only [pyEq, excludeKey, beq_iff_eq] at hx
      subst hx
      exact absurd h (by decide)
  have hg : dictGet [(Scalar.str t, Doc.list [])] excludeKey = none := by simp [dictGet, hne]
  obtain ⟨body, hb⟩ : ∃ body, templateBody t = some body := by
    simpa [isTemplate, Option.isSome_iff_exists] using h
  have hs : (∃ q, subst env (.str t) = .ok (.num q)) ∨ (∃ e, subst env (.str t) = .error e) := by
    simp only [subst, hb]
    cases parseChars body with
    | error e => exact .inr ⟨e, by simp⟩
    | ok ex =>
      cases hev : eval env ex with
      | error e => exact .inr ⟨e, by simp [hev]⟩
      | ok q => exact .inl ⟨q, by simp [hev]⟩
  have ha : applyArith env (.dict [(.str t, .list [])]) = .ok (.dict [(.str t, .list [])]) := by
    simp [applyArith, Traverse.apply, applyT, applyDict, excludedKeys, hg, applyEntries, isExcluded, hne,
      applyValue, applyList, dictSet]
  rw [ha]
  rcases hs with ⟨q, hq⟩ | ⟨e, he⟩
  · simp [specDoc, specEntries, excludeList, hg, isExcluded, hne, hq, specList, dictSet]
  · simp [specDoc, specEntries, excludeList, hg, isExcluded, hne, he]

/-! ### Spec.interpret -/

/-- a spec that lists `ArithmeticPatch` gets exactly the arithmetic patch among the given patches (earlier
    patches of other classes are skipped, later ones ignored), and the result is the specification of the
    stored data -/
theorem interpret_replaces_templates (s : Spec) (env : Env) (pre post : List Patch)
    (hp : s.patch = some ["ArithmeticPatch"]) (hi : s.ignoreOverflowingPatch = true)
    (hpre : ∀ p ∈ pre, p.name ≠ "ArithmeticPatch") (hwf : (Doc.dict s.data).wf = true) :
    interpret s (some (pre ++ Patch.arithmetic env :: post)) = specDoc env (.dict s.data) := by
  have hal : alignPatches ["ArithmeticPatch"] (pre ++ Patch.arithmetic env :: post)
      = (true, [Patch.arithmetic env]) := by
    induction pre with
    | nil => simp [alignPatches, Patch.arithmetic]
    | cons p ps ih =>
      have h1 : p.name ≠ "ArithmeticPatch" := hpre p (by simp)
      simp only [List.cons_append, alignPatches, h1, if_false]
      exact ih (fun q hq => hpre q (by simp [hq]))
  simp only [interpret, hi, if_true, fitsWithOverflow, hp, hal, runPatches]
  simp only [Patch.arithmetic]
  rw [every_template_replaced_partial env _ hwf]
  cases specDoc env (.dict s.data) <;> rfl

/-- a spec without a `patch` list is returned as stored whatever patches are offered -/
theorem interpret_without_patch_list (s : Spec) (ps : Option (List Patch)) (hp : s.patch = none)
    (hi : s.ignoreOverflowingPatch = true) : interpret s ps = .ok (.dict s.data) := by
  simp [interpret, hi, fitsWithOverflow, hp, runPatches]

/-- interpreting leaves the store as it was, so interpreting again gives the same result -/
theorem interpret_idempotent_input (db : List Spec) (i : Nat) (ps : Option (List Patch)) :
    (load db i ps).2 = db ∧ (load (load db i ps).2 i ps).1 = (load db i ps).1 := ⟨rfl, rfl⟩

end Simaple.Props.C15
