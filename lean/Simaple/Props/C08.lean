/-
C08 — state-transition functions are pure.  In the Lean model a reducer *is* a function, so "same in,
same out" and "the input object is not modified" cannot be stated non-trivially (they are observed on the
real Python objects by the harness).  What is proved is the functional content around it, for the
dispatcher of simaple/simulate/component/base.py with an ARBITRARY reducer and arbitrary entities:
the dispatcher reads only the entities bound to the component and writes only those.
-/
import Simaple.Proofs.Dispatch

namespace Simaple.Props.C08
open Simaple.Dispatch

section
variable {ε : Type}

/-- **frame**: a dispatch changes no address outside the component's bound addresses
    (own `.<name>.<entity>` addresses plus `binds`) -/
theorem dispatch_frame (c : Comp ε) (m : String) (reducer : List (String × ε) → List (String × ε) × List Ev)
    (s : Store ε) (res : Store ε × List Ev) (h : dispatch c m reducer s = some res) :
    ∀ a, a ∉ c.boundAddrs → res.1.get a = s.get a := by
  intro a ha
  unfold dispatch at h
  simp only at h
  cases hr : readAll c (initDefaults c s) with
  | none => simp [hr] at h
  | some st =>
    simp only [hr, Option.some.injEq] at h
    rw [← h]
    simp only
    rw [setState_frame c _ _ a ha, initDefaults_frame c s a ha]

/-- **the result is a function of (reducer, bound entities)**: two stores that agree on the bound
    addresses (after default initialisation) give the same events, and the same content at every bound
    address afterwards -/
theorem dispatch_depends_on_bound (c : Comp ε) (m : String)
    (reducer : List (String × ε) → List (String × ε) × List Ev) (s s' : Store ε)
    (hagree : ∀ a ∈ c.boundAddrs, (initDefaults c s).get a = (initDefaults c s').get a) :
    (dispatch c m reducer s).map (·.2) = (dispatch c m reducer s').map (·.2) := by
  unfold dispatch
  simp only
  rw [readAll_congr c _ _ hagree]
  cases readAll c (initDefaults c s') <;> rfl

/-- views return a value and no store: a view of a component is a function of the bound entities -/
theorem view_depends_on_bound {β : Type} (c : Comp ε) (view : List (String × ε) → β) (s s' : Store ε)
    (hagree : ∀ a ∈ c.boundAddrs, s.get a = s'.get a) :
    (readAll c s).map view = (readAll c s').map view := by
  rw [readAll_congr c _ _ hagree]

end

/-! non-vacuity -/
example : (dispatch (ε := Nat) ⟨"x", [("cooldown", 0)], [("dynamics", "global.dynamics")]⟩ "use"
    (fun st => (st.map (fun f => (f.1, f.2 + 1)), []))
    (fun a => if a = "global.dynamics" then some 7 else if a = ".y.cooldown" then some 3 else none)).map
      (fun r => (r.1.get ".x.cooldown", r.1.get ".y.cooldown", r.1.get "global.dynamics", r.2.length))
    = some (some 1, some 3, some 8, 1) := by
  decide

end Simaple.Props.C08
