/-
C06, part `Wind`: every `elapsed` notification that an `elapse` reducer of the soulmaster / dualblade /
windbreaker job-specific classes emits carries exactly the time of that elapse, and exactly one is emitted:
`Wind.elapsedTimes` (the times of the `elapsed` events of an answer, in order) is `[t]`.
Exception: KarmaBladeTriggerComponent.elapse emits NO `elapsed` event at all (the statement "every elapsed
notification carries the time" holds vacuously; the clock itself is kept by the timer dispatcher, not by
these events).  CosmicOrb and CrossTheStyx have no `elapse` reducer.
No other reducer of these classes emits an `elapsed` event (`X_no_spurious_elapsed`).
-/
import Simaple.Proofs.ComponentWind

namespace Simaple.Props.C06_Wind
open Simaple.Comp Simaple.Entity

theorem elysion_elapsed_carries_time (p : Elysion.P) (t : Int) (s : Elysion.S) :
    Wind.elapsedTimes (Elysion.elapse p t s).2 = [t] := rfl
theorem cosmicBurst_elapsed_carries_time (p : CosmicBurst.P) (t : Int) (s : CosmicBurst.S) :
    Wind.elapsedTimes (CosmicBurst.elapse p t s).2 = [t] := rfl
theorem cosmicShower_elapsed_carries_time (p : CosmicShower.P) (t : Int) (s : CosmicShower.S) :
    Wind.elapsedTimes (CosmicShower.elapse p t s).2 = [t] := by
  simp [CosmicShower.elapse, Wind.elapsedTimes_replicate_dealt]
theorem cosmos_elapsed_carries_time (p : Cosmos.P) (t : Int) (s : Cosmos.S) :
    Wind.elapsedTimes (Cosmos.elapse p t s).2 = [t] := by
  simp [Cosmos.elapse, Wind.elapsedTimes_replicate_dealt]
theorem flareSlash_elapsed_carries_time (p : FlareSlash.P) (t : Int) (s : FlareSlash.S) :
    Wind.elapsedTimes (FlareSlash.elapse p t s).2 = [t] := rfl
theorem finalCut_elapsed_carries_time (p : FinalCut.P) (t : Int) (s : FinalCut.S) :
    Wind.elapsedTimes (FinalCut.elapse p t s).2 = [t] := rfl
/-- key-down: hits, (finish), delay, elapsed, (keydown_end) — one `elapsed`, with the time given -/
theorem bladeStorm_elapsed_carries_time (p : BladeStorm.P) (t : Int) (s : BladeStorm.S) :
    Wind.elapsedTimes (BladeStorm.elapse p t s).2 = [t] := by
  unfold BladeStorm.elapse KeydownSkill.elapse
  simp only []
  split <;> simp [Wind.elapsedTimes_append, Wind.elapsedTimes_replicate_dealt]
theorem ultimateDarkSight_elapsed_carries_time (p : UltimateDarkSight.P) (t : Int) (s : UltimateDarkSight.S) :
    Wind.elapsedTimes (UltimateDarkSight.elapse p t s).2 = [t] := rfl
/-- KarmaBladeTriggerComponent.elapse emits no `elapsed` notification (only, possibly, the finishing blow) -/
theorem karmaBlade_elapse_emits_no_elapsed (p : KarmaBlade.P) (t : Int) (s : KarmaBlade.S) :
    Wind.elapsedTimes (KarmaBlade.elapse p t s).2 = [] := by
  unfold KarmaBlade.elapse
  simp only []
  split <;> rfl
theorem howlingGale_elapsed_carries_time (p : HowlingGale.P) (t : Int) (s : HowlingGale.S) (r : HowlingGale.S × List REv)
    (hr : HowlingGale.elapse p t s = .ok r) : Wind.elapsedTimes r.2 = [t] := by
  unfold HowlingGale.elapse at hr
  simp only [] at hr
  split at hr
  · simp at hr; rw [← hr]; rfl
  · split at hr
    · simp at hr; rw [← hr]
      simp only [Wind.elapsedTimes_elapsed, List.cons.injEq, true_and]
      exact Wind.elapsedTimes_rows _ _ _
    · simp at hr
theorem cygnusBlessing_elapsed_carries_time (p : CygnusBlessing.P) (t : Int) (s : CygnusBlessing.S) :
    Wind.elapsedTimes (CygnusBlessing.elapse p t s).2 = [t] := rfl

/-- the reducers other than `elapse` emit no `elapsed` notification -/
theorem soulmaster_no_spurious_elapsed :
    (∀ (p : CosmicOrb.P) s, Wind.elapsedTimes (CosmicOrb.increase p s).2 = [] ∧ Wind.elapsedTimes (CosmicOrb.maximize p s).2 = []) ∧
    (∀ (p : Elysion.P) s, Wind.elapsedTimes (Elysion.use p s).2 = [] ∧ Wind.elapsedTimes (Elysion.crack p s).2 = []) ∧
    (∀ (p : CrossTheStyx.P) s, Wind.elapsedTimes (CrossTheStyx.use p s).2 = []) ∧
    (∀ (p : CosmicBurst.P) s, Wind.elapsedTimes (CosmicBurst.trigger p s).2 = []) ∧
    (∀ (p : FlareSlash.P) s, Wind.elapsedTimes (FlareSlash.changeStanceTrigger p s).2 = [] ∧
        Wind.elapsedTimes (FlareSlash.styxTrigger p s).2 = []) := by
  refine ⟨fun p s => ⟨rfl, rfl⟩, fun p s => ⟨?_, ?_⟩, fun p s => ?_, fun p s => ?_, fun p s => ⟨?_, ?_⟩⟩
  · unfold Elysion.use; split <;> rfl
  · unfold Elysion.crack; split
    · rfl
    · simp only []; split <;> rfl
  · unfold CrossTheStyx.use; split <;> rfl
  · unfold CosmicBurst.trigger; split <;> rfl
  · unfold FlareSlash.changeStanceTrigger FlareSlash.useSimpleAttack Wind.ignoreRejected; split <;> rfl
  · unfold FlareSlash.styxTrigger FlareSlash.useSimpleAttack Wind.ignoreRejected; split <;> rfl
theorem dualblade_no_spurious_elapsed :
    (∀ (p : FinalCut.P) s, Wind.elapsedTimes (FinalCut.use p s).2 = [] ∧
        ∀ r, FinalCut.suddenRaid p s = some r → Wind.elapsedTimes r.2 = []) ∧
    (∀ (p : BladeStorm.P) s, Wind.elapsedTimes (BladeStorm.use p s).2 = [] ∧ Wind.elapsedTimes (BladeStorm.stop p s).2 = []) ∧
    (∀ (p : UltimateDarkSight.P) s, Wind.elapsedTimes (UltimateDarkSight.use p s).2 = []) ∧
    (∀ (p : KarmaBlade.P) s, Wind.elapsedTimes (KarmaBlade.use p s).2 = [] ∧ Wind.elapsedTimes (KarmaBlade.trigger p s).2 = []) := by
  refine ⟨fun p s => ⟨?_, ?_⟩, fun p s => ⟨?_, ?_⟩, fun p s => ?_, fun p s => ⟨rfl, ?_⟩⟩
  · unfold FinalCut.use; split <;> rfl
  · intro r hr
    unfold FinalCut.suddenRaid at hr
    split at hr
    · simp at hr; rw [← hr]; rfl
    · simp at hr
  · unfold BladeStorm.use KeydownSkill.use
    by_cases hc : (!s.cooldown.available || s.keydown.running) = true
    · simp [hc, rejectedIn, REv.isReject, Wind.elapsedTimes]
    · simp [hc, rejectedIn, REv.isReject, Wind.elapsedTimes]
  · unfold BladeStorm.stop KeydownSkill.stop; split <;> rfl
  · unfold UltimateDarkSight.use; split <;> rfl
  · unfold KarmaBlade.trigger; split
    · rfl
    · split
      · rfl
      · simp only []; split <;> rfl
theorem windbreaker_no_spurious_elapsed :
    (∀ (p : HowlingGale.P) s r, HowlingGale.use p s = .ok r → Wind.elapsedTimes r.2 = []) ∧
    (∀ (p : CygnusBlessing.P) s, Wind.elapsedTimes (CygnusBlessing.use p s).2 = []) := by
  refine ⟨fun p s r hr => ?_, fun p s => ?_⟩
  · unfold HowlingGale.use at hr
    split at hr
    · simp at hr; rw [← hr]; rfl
    · simp only [] at hr
      split at hr
      · simp at hr
      · simp at hr; rw [← hr]; rfl
  · unfold CygnusBlessing.use; split <;> rfl

/-! non-vacuity -/
example : (CosmicShower.elapse ⟨30720000, 614400, 271, 3, 46080000, 3072000⟩ 2097152
    ⟨⟨0⟩, { interval := 1044480, intervalCounter := 1044480, timeLeft := 46080000 }, ⟨0, 10, 30720000, 0⟩⟩).2 =
    [.elapsed 2097152, .dealt 271 3, .dealt 271 3] := by decide +kernel

end Simaple.Props.C06_Wind
