/-
C05, part: `relay_exactly_once` applies to the END-TO-END job model (Simaple/Model/JobRunner.lean): the
`previous_callbacks` entity of the JSON store (`.previous_callbacks`, holding the callback action pairs) is a
store cell, so for every job, store and pair of actions the events of one play are offered to the router of
the next play exactly once as `emitted` (reverse order) before the action and once as `done` after it.
-/
import Simaple.Props.C05
import Simaple.Proofs.JobRunner

namespace Simaple.Props.C05_Job
open Simaple.Engine Simaple.Dispatch Simaple.Router Simaple.JobRunner

/-- the store-cell law: reading `.previous_callbacks` after writing it gives what was written (the JSON
    encoding of the action pairs is injective: `decPending (encPending p) = p`) -/
theorem job_pending_cell (s : Store Lean.Json) (p : List (Action × Action)) : getPending (setPending s p) = p :=
  getPending_setPending s p

/-- **C05 for the concrete job**: the queue of the play after `a₁` -/
theorem job_relay_exactly_once (ds : List (CompDisp Lean.Json)) (s : Store Lean.Json) (a₁ a₂ : Action) :
    dispatched getPending (jobPlay ds s a₁).1 a₂
      = ((jobPlay ds s a₁).2.map emittedOf).reverse ++ [a₂] ++ (jobPlay ds s a₁).2.map doneOf :=
  Simaple.Props.C05.relay_exactly_once (routeT ds) getPending setPending job_pending_cell s a₁ a₂

/-- the same for the play function the engine of the driver uses (`jobPlayC`), from every store whose pending
    callbacks are relays (all reachable ones: C06_Job.pendOk_invariant) -/
theorem job_relay_exactly_once_engine (keys : List String) (ds : List (CompDisp Lean.Json)) (s : Store Lean.Json)
    (hs : pendOk s = true) (a₁ a₂ : Action) :
    dispatched getPending (jobPlayC keys ds a₁ s).1 a₂
      = ((jobPlayC keys ds a₁ s).2.map emittedOf).reverse ++ [a₂] ++ (jobPlayC keys ds a₁ s).2.map doneOf := by
  rw [jobPlayC_eq, jobPlayG_of_pendOk ds a₁ s hs]
  exact job_relay_exactly_once ds s a₁ a₂

/-- no event is lost or replayed across a checkpoint (`save = load = id`) -/
theorem job_relay_survives_checkpoint (ds : List (CompDisp Lean.Json)) (s : Store Lean.Json) (a₁ a₂ : Action) :
    dispatched getPending (id (id (jobPlay ds s a₁).1)) a₂
      = ((jobPlay ds s a₁).2.map emittedOf).reverse ++ [a₂] ++ (jobPlay ds s a₁).2.map doneOf :=
  Simaple.Props.C05.relay_survives_checkpoint (routeT ds) getPending setPending id id job_pending_cell
    (fun _ => rfl) s a₁ a₂

/-- a relayed action carries the payload of its event as it is (the canonical payload text) -/
theorem job_relay_carries_payload (ev : Event) :
    (emittedOf ev).payload = .obj ev.payload ∧ (doneOf ev).payload = .obj ev.payload :=
  ⟨rfl, rfl⟩

/-! non-vacuity: the cell really stores pairs (two different pending lists are told apart) -/
example : getPending (setPending (fun _ => none) [(⟨"x", "use.emitted.global.delay", .obj "{}"⟩, ⟨"x", "use.done.global.delay", .num 3⟩)])
    = [(⟨"x", "use.emitted.global.delay", .obj "{}"⟩, ⟨"x", "use.done.global.delay", .num 3⟩)] :=
  job_pending_cell _ _

end Simaple.Props.C05_Job
