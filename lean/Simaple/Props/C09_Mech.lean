/-
C09, part `Mech` — letting time pass in one step or in two gives the same damage ticks and the same status, for
the component classes of Simaple/Model/ComponentMech.lean.  Per class `X_chunk_independent`: for `0 ≤ a, 0 ≤ b`,
`elapse (a+b)` against `elapse a` then `elapse b`:
* the damage ticks (`damageTicks`: damage, hit, modifier) of the one-step answer are those of the two chunks — as
  lists (`=`, stronger than the multiset) except for `AdeleRuinComponent` whose two tick streams interleave
  (`List.Perm`);
* the states are equal, or equivalent (`X.Equiv`: equal up to the dead `interval_counter` of an expired
  `Periodic` / `DynamicIntervalPeriodic`, see Props/C09.lean) and then show the same views.
Hypotheses are the decidable well-formedness predicates of the entities (`Periodic.WF`, `Keydown.Inv`,
`DynamicIntervalPeriodic.Inv`); they are preserved by `elapse` (`X_wf_elapse`) and checked on every harvested
state by the driver (Simaple/Model/DrvComponentMech.lean).
Chunk DEPENDENT in the real code: `AdeleOrderComponent.elapse` (known finding F10): a `_partial` theorem and a
`decide` witness of the negation.  `FullMetalBarrageComponent.elapse` WAS chunk dependent (the penalty restarted at
the end of the call in which the key-down ended); found with this model, repaired in the code, the theorem is for
the repaired code and `fullMetalBarrage_unrepaired_refuted` keeps the witness.
-/
import Simaple.Proofs.ComponentMech

namespace Simaple.Props.C09_Mech
open Simaple.Comp Simaple.Comp.Mech Simaple.Entity

/-! ### linear timers only: plain equality of states, no tick -/
theorem robotSetupBuff_chunk_independent (p : RobotSetupBuff.P) (s : RobotSetupBuff.S) (a b : Int) :
    (RobotSetupBuff.elapse p b (RobotSetupBuff.elapse p a s).1).1 = (RobotSetupBuff.elapse p (a + b) s).1 ∧
    damageTicks (RobotSetupBuff.elapse p (a + b) s).2 = [] ∧ damageTicks (RobotSetupBuff.elapse p a s).2 = [] := by
  refine ⟨?_, rfl, rfl⟩
  simp only [RobotSetupBuff.elapse, Cooldown.elapse_add, Lasting.elapse_add]
theorem penalizedBuff_chunk_independent (p : PenalizedBuff.P) (s : PenalizedBuff.S) (a b : Int) :
    (PenalizedBuff.elapse p b (PenalizedBuff.elapse p a s).1).1 = (PenalizedBuff.elapse p (a + b) s).1 ∧
    damageTicks (PenalizedBuff.elapse p (a + b) s).2 = [] ∧ damageTicks (PenalizedBuff.elapse p a s).2 = [] := by
  refine ⟨?_, rfl, rfl⟩
  simp only [PenalizedBuff.elapse, Cooldown.elapse_add, Lasting.elapse_add]
theorem adeleRestoreBuff_chunk_independent (p : AdeleRestoreBuff.P) (s : AdeleRestoreBuff.S) (a b : Int) :
    (AdeleRestoreBuff.elapse p b (AdeleRestoreBuff.elapse p a s).1).1 = (AdeleRestoreBuff.elapse p (a + b) s).1 ∧
    damageTicks (AdeleRestoreBuff.elapse p (a + b) s).2 = [] ∧ damageTicks (AdeleRestoreBuff.elapse p a s).2 = [] := by
  refine ⟨?_, rfl, rfl⟩
  simp only [AdeleRestoreBuff.elapse, RestoreLasting.liftLasting, Lasting.elapse_add]
theorem adeleCreation_chunk_independent (p : AdeleCreation.P) (s : AdeleCreation.S) (a b : Int) :
    (AdeleCreation.elapse p b (AdeleCreation.elapse p a s).1).1 = (AdeleCreation.elapse p (a + b) s).1 ∧
    damageTicks (AdeleCreation.elapse p (a + b) s).2 = [] ∧ damageTicks (AdeleCreation.elapse p a s).2 = [] := by
  refine ⟨?_, rfl, rfl⟩
  simp only [AdeleCreation.elapse, Cooldown.elapse_add]
theorem adeleGathering_chunk_independent (p : AdeleGathering.P) (s : AdeleGathering.S) (a b : Int) :
    (AdeleGathering.elapse p b (AdeleGathering.elapse p a s).1).1 = (AdeleGathering.elapse p (a + b) s).1 ∧
    damageTicks (AdeleGathering.elapse p (a + b) s).2 = [] ∧ damageTicks (AdeleGathering.elapse p a s).2 = [] := by
  refine ⟨?_, rfl, rfl⟩
  simp only [AdeleGathering.elapse, Cooldown.elapse_add]
theorem adeleBlossom_chunk_independent (p : AdeleBlossom.P) (s : AdeleBlossom.S) (a b : Int) :
    (AdeleBlossom.elapse p b (AdeleBlossom.elapse p a s).1).1 = (AdeleBlossom.elapse p (a + b) s).1 ∧
    damageTicks (AdeleBlossom.elapse p (a + b) s).2 = [] ∧ damageTicks (AdeleBlossom.elapse p a s).2 = [] := by
  refine ⟨?_, rfl, rfl⟩
  simp only [AdeleBlossom.elapse, Cooldown.elapse_add]

/-! ### one `Periodic`: RobotSummonSkill, MagicCurcuitFullDriveComponent, AdeleStormComponent, HommingMissile -/
theorem robotSummon_chunk_independent (p : RobotSummonSkill.P) (s : RobotSummonSkill.S) (a b : Int)
    (ha : 0 ≤ a) (hb : 0 ≤ b) (hw : s.periodic.WF) :
    let r1 := RobotSummonSkill.elapse p a s
    let r2 := RobotSummonSkill.elapse p b r1.1
    let r := RobotSummonSkill.elapse p (a + b) s
    damageTicks r.2 = damageTicks r1.2 ++ damageTicks r2.2 ∧ RobotSummonSkill.Equiv r2.1 r.1 ∧
    RobotSummonSkill.validity p r2.1 = RobotSummonSkill.validity p r.1 ∧
    RobotSummonSkill.running p r2.1 = RobotSummonSkill.running p r.1 := by
  have he := Periodic.elapse_add' s.periodic a b hw ha hb
  refine ⟨?_, ⟨rfl, Cooldown.elapse_add _ _ _, he⟩, ?_, ?_⟩
  · simp only [RobotSummonSkill.elapse, Periodic.elapse', damageTicks_elapsed_cons, damageTicks_replicate_dealtWith]
    rw [periodic_ticks_add _ _ _ hw ha hb, replicate_add_append]
  · simp only [RobotSummonSkill.validity, RobotSummonSkill.elapse, Cooldown.elapse_add]
  · simp only [RobotSummonSkill.running, RobotSummonSkill.elapse, Periodic.elapse', he.timeLeft]
theorem robotSummon_wf_elapse (p : RobotSummonSkill.P) (t : Int) (s : RobotSummonSkill.S) (hw : s.periodic.WF) :
    (RobotSummonSkill.elapse p t s).1.periodic.WF := Periodic.elapse_wf _ _ hw

theorem magicCurcuit_chunk_independent (p : MagicCurcuit.P) (s : MagicCurcuit.S) (a b : Int)
    (ha : 0 ≤ a) (hb : 0 ≤ b) (hw : s.periodic.WF) :
    let r1 := MagicCurcuit.elapse p a s
    let r2 := MagicCurcuit.elapse p b r1.1
    let r := MagicCurcuit.elapse p (a + b) s
    damageTicks r.2 = damageTicks r1.2 ++ damageTicks r2.2 ∧ MagicCurcuit.Equiv r2.1 r.1 ∧
    MagicCurcuit.validity p r2.1 = MagicCurcuit.validity p r.1 ∧
    MagicCurcuit.running p r2.1 = MagicCurcuit.running p r.1 ∧ MagicCurcuit.buffOn r2.1 = MagicCurcuit.buffOn r.1 := by
  have he := Periodic.elapse_add' s.periodic a b hw ha hb
  refine ⟨?_, ⟨Cooldown.elapse_add _ _ _, he⟩, ?_, ?_, ?_⟩
  · simp only [MagicCurcuit.elapse, Periodic.elapse', damageTicks_elapsed_cons, damageTicks_replicate_dealt]
    rw [periodic_ticks_add _ _ _ hw ha hb, replicate_add_append]
  · simp only [MagicCurcuit.validity, MagicCurcuit.elapse, Cooldown.elapse_add]
  · simp only [MagicCurcuit.running, MagicCurcuit.elapse, Periodic.elapse', he.timeLeft]
  · exact he.enabled
theorem magicCurcuit_wf_elapse (p : MagicCurcuit.P) (t : Int) (s : MagicCurcuit.S) (hw : s.periodic.WF) :
    (MagicCurcuit.elapse p t s).1.periodic.WF := Periodic.elapse_wf _ _ hw

/-- the hit count of a storm tick is `periodic_hit * stack`, and the stack does not move with time -/
theorem adeleStorm_chunk_independent (p : AdeleStorm.P) (s : AdeleStorm.S) (a b : Int)
    (ha : 0 ≤ a) (hb : 0 ≤ b) (hw : s.periodic.WF) :
    let r1 := AdeleStorm.elapse p a s
    let r2 := AdeleStorm.elapse p b r1.1
    let r := AdeleStorm.elapse p (a + b) s
    damageTicks r.2 = damageTicks r1.2 ++ damageTicks r2.2 ∧ AdeleStorm.Equiv r2.1 r.1 ∧
    AdeleStorm.validity p r2.1 = AdeleStorm.validity p r.1 ∧ AdeleStorm.running p r2.1 = AdeleStorm.running p r.1 := by
  have he := Periodic.elapse_add' s.periodic a b hw ha hb
  refine ⟨?_, ⟨Cooldown.elapse_add _ _ _, he, rfl, rfl⟩, ?_, ?_⟩
  · simp only [AdeleStorm.elapse, Periodic.elapse', damageTicks_elapsed_cons, damageTicks_replicate_dealt]
    rw [periodic_ticks_add _ _ _ hw ha hb, replicate_add_append]
  · simp only [AdeleStorm.validity, AdeleStorm.elapse, Cooldown.elapse_add] <;> rfl
  · simp only [AdeleStorm.running, AdeleStorm.elapse, Periodic.elapse', he.timeLeft]
theorem adeleStorm_wf_elapse (p : AdeleStorm.P) (t : Int) (s : AdeleStorm.S) (hw : s.periodic.WF) :
    (AdeleStorm.elapse p t s).1.periodic.WF := Periodic.elapse_wf _ _ hw

/-- the missile's hit count and modifier read foreign entities (bomber time, the barrage key-down and its
    penalty) which this reducer does not move: within one component they are the same in both chunks -/
theorem hommingMissile_chunk_independent (p : HommingMissile.P) (s : HommingMissile.S) (a b : Int)
    (ha : 0 ≤ a) (hb : 0 ≤ b) (hw : s.periodic.WF) :
    let r1 := HommingMissile.elapse p a s
    let r2 := HommingMissile.elapse p b r1.1
    let r := HommingMissile.elapse p (a + b) s
    damageTicks r.2 = damageTicks r1.2 ++ damageTicks r2.2 ∧ HommingMissile.Equiv r2.1 r.1 ∧
    HommingMissile.validity p r2.1 = HommingMissile.validity p r.1 ∧
    HommingMissile.running p r2.1 = HommingMissile.running p r.1 := by
  have he := Periodic.elapse_add' s.periodic a b hw ha hb
  refine ⟨?_, ⟨rfl, rfl, rfl, Cooldown.elapse_add _ _ _, he⟩, ?_, ?_⟩
  · simp only [HommingMissile.elapse, Periodic.elapse', damageTicks_elapsed_cons, damageTicks_replicate_dealtWith,
      HommingMissile.missileHit]
    rw [periodic_ticks_add _ _ _ hw ha hb, replicate_add_append]
  · simp only [HommingMissile.validity, HommingMissile.elapse, Cooldown.elapse_add]
  · simp only [HommingMissile.running, HommingMissile.elapse, Periodic.elapse', he.timeLeft]
theorem hommingMissile_wf_elapse (p : HommingMissile.P) (t : Int) (s : HommingMissile.S) (hw : s.periodic.WF) :
    (HommingMissile.elapse p t s).1.periodic.WF := Periodic.elapse_wf _ _ hw

/-! ### AdeleRuinComponent: two `Periodic`s whose ticks interleave — equal as multisets -/
theorem adeleRuin_chunk_independent (p : AdeleRuin.P) (s : AdeleRuin.S) (a b : Int)
    (ha : 0 ≤ a) (hb : 0 ≤ b) (hw1 : s.first.WF) (hw2 : s.second.WF) :
    let r1 := AdeleRuin.elapse p a s
    let r2 := AdeleRuin.elapse p b r1.1
    let r := AdeleRuin.elapse p (a + b) s
    (damageTicks r.2).Perm (damageTicks r1.2 ++ damageTicks r2.2) ∧ AdeleRuin.Equiv r2.1 r.1 ∧
    AdeleRuin.validity p r2.1 = AdeleRuin.validity p r.1 ∧ AdeleRuin.running p r2.1 = AdeleRuin.running p r.1 := by
  have he1 := Periodic.elapse_add' s.first a b hw1 ha hb
  have he2 := Periodic.elapse_add' s.second a b hw2 ha hb
  refine ⟨?_, ⟨Cooldown.elapse_add _ _ _, he1, he2⟩, ?_, ?_⟩
  · simp only [AdeleRuin.elapse, Periodic.elapse', damageTicks_elapsed_cons, damageTicks_append, damageTicks_replicate_dealt]
    rw [periodic_ticks_add _ _ _ hw1 ha hb, periodic_ticks_add _ _ _ hw2 ha hb, replicate_add_append, replicate_add_append]
    exact perm_interleave _ _ _ _
  · simp only [AdeleRuin.validity, AdeleRuin.elapse, Cooldown.elapse_add]
  · simp only [AdeleRuin.running, AdeleRuin.elapse, Periodic.elapse', he2.timeLeft]
theorem adeleRuin_wf_elapse (p : AdeleRuin.P) (t : Int) (s : AdeleRuin.S) (hw1 : s.first.WF) (hw2 : s.second.WF) :
    (AdeleRuin.elapse p t s).1.first.WF ∧ (AdeleRuin.elapse p t s).1.second.WF :=
  ⟨Periodic.elapse_wf _ _ hw1, Periodic.elapse_wf _ _ hw2⟩

/-! ### AdeleEtherComponent: the gauge gains `stack_per_period` per tick, capped — needs a non-negative gain -/
theorem adeleEther_chunk_independent (p : AdeleEther.P) (s : AdeleEther.S) (a b : Int)
    (ha : 0 ≤ a) (hb : 0 ≤ b) (hw : s.periodic.WF) (hk : 0 ≤ p.stackPerPeriod) :
    let r1 := AdeleEther.elapse p a s
    let r2 := AdeleEther.elapse p b r1.1
    let r := AdeleEther.elapse p (a + b) s
    damageTicks r.2 = [] ∧ damageTicks r1.2 = [] ∧ AdeleEther.Equiv r2.1 r.1 ∧ AdeleEther.running r2.1 = AdeleEther.running r.1 := by
  have he := Periodic.elapse_add' s.periodic a b hw ha hb
  have hn := Periodic.elapseCount_add s.periodic a b hw ha hb
  have h2 := Periodic.elapseCount_nonneg (s.periodic.elapse a) b
  have hg : ((s.etherGauge.liftStack (·.increase (s.periodic.elapseCount a * p.stackPerPeriod))).liftStack
      (·.increase ((s.periodic.elapse a).elapseCount b * p.stackPerPeriod))) =
      s.etherGauge.liftStack (·.increase (s.periodic.elapseCount (a + b) * p.stackPerPeriod)) := by
    simp only [EtherGauge.liftStack]
    rw [stack_increase_add _ _ _ (Int.mul_nonneg h2 hk), hn, Int.add_mul]
  refine ⟨rfl, rfl, ⟨hg, he, rfl⟩, ?_⟩
  simp only [AdeleEther.running, AdeleEther.elapse, Periodic.elapse']
  rw [hg]
theorem adeleEther_wf_elapse (p : AdeleEther.P) (t : Int) (s : AdeleEther.S) (hw : s.periodic.WF) :
    (AdeleEther.elapse p t s).1.periodic.WF := Periodic.elapse_wf _ _ hw

/-! ### MultipleOptionComponent: the missile/gatling cycle advances once per tick -/
theorem multipleOption_elapse_defined (p : MultipleOption.P) (t : Int) (s : MultipleOption.S) (hc : s.cycle.period ≠ 0) :
    ∃ r, MultipleOption.elapse p t s = .ok r ∧ r.1.cycle.period = s.cycle.period := by
  obtain ⟨r, hr, hp⟩ := MultipleOption.ticks_defined p (s.periodic.elapse' t).2.toNat s.cycle hc
  exact ⟨_, by simp only [MultipleOption.elapse, hr]; rfl, hp⟩
theorem multipleOption_chunk_independent (p : MultipleOption.P) (s : MultipleOption.S) (a b : Int)
    (ha : 0 ≤ a) (hb : 0 ≤ b) (hw : s.periodic.WF) (r1 r2 : MultipleOption.S × List REv)
    (h1 : MultipleOption.elapse p a s = .ok r1) (h2 : MultipleOption.elapse p b r1.1 = .ok r2) :
    ∃ r, MultipleOption.elapse p (a + b) s = .ok r ∧
      damageTicks r.2 = damageTicks r1.2 ++ damageTicks r2.2 ∧ MultipleOption.Equiv r2.1 r.1 ∧
      MultipleOption.validity p r2.1 = MultipleOption.validity p r.1 ∧
      MultipleOption.running p r2.1 = MultipleOption.running p r.1 := by
  have he := Periodic.elapse_add' s.periodic a b hw ha hb
  unfold MultipleOption.elapse at h1
  simp only [Periodic.elapse'] at h1
  cases ht1 : MultipleOption.ticks p (s.periodic.elapseCount a).toNat s.cycle with
  | none => simp [ht1] at h1
  | some ce1 =>
    obtain ⟨c1, e1⟩ := ce1
    simp only [ht1, Except.ok.injEq] at h1
    subst h1
    unfold MultipleOption.elapse at h2
    simp only [Periodic.elapse'] at h2
    cases ht2 : MultipleOption.ticks p ((s.periodic.elapse a).elapseCount b).toNat c1 with
    | none => simp [ht2] at h2
    | some ce2 =>
      obtain ⟨c2, e2⟩ := ce2
      simp only [ht2, Except.ok.injEq] at h2
      subst h2
      have hsum : MultipleOption.ticks p (s.periodic.elapseCount (a + b)).toNat s.cycle = some (c2, e1 ++ e2) := by
        rw [periodic_ticks_add _ _ _ hw ha hb, MultipleOption.ticks_add, ht1]
        simp only [Option.bind_some, ht2, Option.map_some]
      refine ⟨({ s with cooldown := s.cooldown.elapse (a + b), periodic := s.periodic.elapse (a + b), cycle := c2 },
          .elapsed (a + b) :: (e1 ++ e2)), ?_, ?_, ⟨rfl, Cooldown.elapse_add _ _ _, he, rfl⟩, ?_, ?_⟩
      · simp only [MultipleOption.elapse, Periodic.elapse', hsum]
      · simp only [damageTicks_elapsed_cons, damageTicks_append]
      · simp only [MultipleOption.validity, Cooldown.elapse_add]
      · simp only [MultipleOption.running, he.timeLeft]

/-! ### MecaCarrier: the `DynamicIntervalPeriodic` waves -/
theorem mecaCarrier_chunk_independent (p : MecaCarrier.P) (s : MecaCarrier.S) (a b : Int)
    (ha : 0 ≤ a) (hb : 0 ≤ b) (hi : s.periodic.Inv) :
    let r1 := MecaCarrier.elapse p a s
    let r2 := MecaCarrier.elapse p b r1.1
    let r := MecaCarrier.elapse p (a + b) s
    damageTicks r.2 = damageTicks r1.2 ++ damageTicks r2.2 ∧ MecaCarrier.Equiv r2.1 r.1 ∧
    MecaCarrier.validity p r2.1 = MecaCarrier.validity p r.1 ∧ MecaCarrier.running p r2.1 = MecaCarrier.running p r.1 := by
  have he := DynamicIntervalPeriodic.resolving_add s.periodic a b hi ha hb
  refine ⟨?_, ⟨Cooldown.elapse_add _ _ _, he.1, rfl⟩, ?_, ?_⟩
  · simp only [MecaCarrier.elapse, damageTicks_elapsed_cons, he.2, MecaCarrier.waves, List.flatMap_append, damageTicks_append]
  · simp only [MecaCarrier.validity, MecaCarrier.elapse, Cooldown.elapse_add]
  · simp only [MecaCarrier.running, MecaCarrier.elapse, he.1.timeLeft, he.1.count] <;> rfl
theorem mecaCarrier_inv_elapse (p : MecaCarrier.P) (t : Int) (s : MecaCarrier.S) (hi : s.periodic.Inv) :
    (MecaCarrier.elapse p t s).1.periodic.Inv := DynamicIntervalPeriodic.resolving_inv _ _ hi

/-! ### AdeleOrderComponent — chunk DEPENDENT in the real code (known finding F10)
    FULL STATEMENT (false): for all states with `0 < interval`, all `0 ≤ a, 0 ≤ b`: same tick count and same state.
    PROVED: the same for splits that stay at least one interval away from the end of every sword (`SwordOK`), on a
    sword list within the cap.  MISSING: nothing can be added, see `adeleOrder_chunk_dependent`. -/
theorem adeleOrder_chunk_independent_partial (p : AdeleOrder.P) (s : AdeleOrder.S) (a b : Int)
    (ha : 0 ≤ a) (hb : 0 ≤ b) (hI : 0 < s.orderSword.interval)
    (hlen : (s.orderSword.runningSwords.length : Int) * 2 ≤ AdeleOrder.maxSwordCount p s)
    (hok : ∀ sw ∈ s.orderSword.runningSwords, OrderSword.SwordOK s.orderSword.interval (a + b) sw) :
    let r1 := AdeleOrder.elapse p a s
    let r2 := AdeleOrder.elapse p b r1.1
    let r := AdeleOrder.elapse p (a + b) s
    damageTicks r.2 = damageTicks r1.2 ++ damageTicks r2.2 ∧ r2.1 = r.1 := by
  have he := OrderSword.resolving_add_partial s.orderSword a b (AdeleOrder.maxSwordCount p s) hI ha hb hlen hok
  have hm : ∀ (cd : Cooldown) (os : OrderSword),
      AdeleOrder.maxSwordCount p { s with cooldown := cd, orderSword := os } = AdeleOrder.maxSwordCount p s := fun _ _ => rfl
  refine ⟨?_, ?_⟩
  · simp only [AdeleOrder.elapse, hm, damageTicks_elapsed_cons, damageTicks_replicate_dealt]
    rw [he.2, replicate_add_append]
  · simp only [AdeleOrder.elapse, hm, Cooldown.elapse_add]
    rw [he.1]
/-- the negation witness (F10): one pair of swords with 2500 ms left, interval 1000 ms — 2500 ms at once gives
    2 ticks, 1200 ms + 1300 ms gives 3 -/
theorem adeleOrder_chunk_dependent :
    ∃ (p : AdeleOrder.P) (s : AdeleOrder.S) (a b : Int), 0 ≤ a ∧ 0 ≤ b ∧ 0 < s.orderSword.interval ∧
      (damageTicks (AdeleOrder.elapse p (a + b) s).2).length = 2 ∧
      (damageTicks (AdeleOrder.elapse p a s).2 ++ damageTicks (AdeleOrder.elapse p b (AdeleOrder.elapse p a s).1).2).length = 3 :=
  ⟨⟨ms 500, 0, 394, 2, ms 45000, 6, 8⟩,
   ⟨{ stack := 0, maximumStack := 400, creationStep := 100, orderConsume := 100 }, { timeLeft := 0, etherMultiplier := 80 },
    ⟨0⟩, { runningSwords := [(0, ms 2500)], interval := ms 1000 }⟩, ms 1200, ms 1300, by decide⟩

/-! ### FullMetalBarrageComponent (after the repair reported by this model: the penalty started in the call in
    which the key-down ended is aged by the time that call ran past the key-down end).  The finishing `(0, 0)` tick
    comes once in either run but at a different position, so the ticks agree as a multiset. -/
theorem fullMetalBarrage_chunk_independent (p : FullMetalBarrage.P) (s : FullMetalBarrage.S) (a b : Int)
    (ha : 0 ≤ a) (hb : 0 ≤ b) (hi : s.keydown.Inv) :
    let r1 := FullMetalBarrage.elapse p a s
    let r2 := FullMetalBarrage.elapse p b r1.1
    let r := FullMetalBarrage.elapse p (a + b) s
    (damageTicks r.2).Perm (damageTicks r1.2 ++ damageTicks r2.2) ∧ r2.1 = r.1 ∧
    FullMetalBarrage.validity p r2.1 = FullMetalBarrage.validity p r.1 ∧
    FullMetalBarrage.keydownView r2.1 = FullMetalBarrage.keydownView r.1 := by
  have hk := Keydown.resolving_add s.keydown a b hi ha hb
  have ht1 := keydown_resolving_timeLeft s.keydown a
  have ht3 := keydown_resolving_timeLeft s.keydown (a + b)
  have h1 : (s.keydown.resolving a).1.running = decide (0 < s.keydown.timeLeft - a) := by
    simp only [Keydown.running, ht1]
  have h3 : (s.keydown.resolving (a + b)).1.running = decide (0 < s.keydown.timeLeft - (a + b)) := by
    simp only [Keydown.running, ht3]
  have h0 : s.keydown.running = decide (0 < s.keydown.timeLeft) := rfl
  -- normal form of a call
  have nf : ∀ (t : Int) (u : FullMetalBarrage.S),
      FullMetalBarrage.elapse p t u =
        ({ cooldown := u.cooldown.elapse t, keydown := (u.keydown.resolving t).1,
           penaltyLasting := if (u.keydown.running && !(u.keydown.resolving t).1.running) = true
             then ((u.penaltyLasting.elapse t).setTimeLeft p.homingPenaltyDuration).elapse (max 0 (-(u.keydown.resolving t).1.timeLeft))
             else u.penaltyLasting.elapse t },
         (KeydownSkill.elapse (FullMetalBarrage.kdP p) t ⟨u.cooldown, u.keydown⟩).2) := by
    intro t u
    unfold FullMetalBarrage.elapse
    simp only [FullMetalBarrage.kdS, keydownSkill_elapse_ended, FullMetalBarrage.withKd, keydownSkill_elapse_state]
    split <;> rfl
  have hst : (FullMetalBarrage.elapse p b (FullMetalBarrage.elapse p a s).1).1 = (FullMetalBarrage.elapse p (a + b) s).1 := by
    simp only [nf, hk.1, Cooldown.elapse_add, FullMetalBarrage.S.mk.injEq, true_and]
    rw [h1, h3, h0, ht1, ht3]
    by_cases c1 : 0 < s.keydown.timeLeft <;> by_cases c2 : 0 < s.keydown.timeLeft - a <;>
      by_cases c3 : 0 < s.keydown.timeLeft - (a + b) <;>
      simp only [c1, c2, c3, decide_true, decide_false, Bool.not_true, Bool.not_false, Bool.and_self, Bool.and_false,
        Bool.false_and, Bool.and_true, Bool.true_and, Bool.false_eq_true, if_true, if_false, Lasting.elapse,
        Lasting.setTimeLeft, Lasting.mk.injEq, and_true] <;> omega
  refine ⟨?_, hst, by rw [hst], by rw [hst]⟩
  simp only [nf, keydownSkill_elapse_ticks]
  rw [hk.1, hk.2, replicate_add_append]
  have hfin : (if (s.keydown.running && !(s.keydown.resolving (a + b)).1.running) = true
        then [((FullMetalBarrage.kdP p).finishDamage, (FullMetalBarrage.kdP p).finishHit, (none : Option String))] else []) =
      (if (s.keydown.running && !(s.keydown.resolving a).1.running) = true
        then [((FullMetalBarrage.kdP p).finishDamage, (FullMetalBarrage.kdP p).finishHit, (none : Option String))] else []) ++
      (if ((s.keydown.resolving a).1.running && !(s.keydown.resolving (a + b)).1.running) = true
        then [((FullMetalBarrage.kdP p).finishDamage, (FullMetalBarrage.kdP p).finishHit, (none : Option String))] else []) := by
    rw [h1, h3, h0]
    by_cases c1 : 0 < s.keydown.timeLeft <;> by_cases c2 : 0 < s.keydown.timeLeft - a <;>
      by_cases c3 : 0 < s.keydown.timeLeft - (a + b) <;>
      simp only [c1, c2, c3, decide_true, decide_false, Bool.not_true, Bool.not_false, Bool.and_self, Bool.and_false,
        Bool.false_and, Bool.and_true, Bool.true_and, Bool.false_eq_true, if_true, if_false, List.append_nil, List.nil_append] <;>
      first | rfl | (exfalso; omega)
  rw [hfin]
  exact perm_interleave _ _ _ _
/-- the unrepaired `elapse` (penalty restarted at the END of the call in which the key-down ended, without
    ageing) is chunk dependent: key-down with 8000 ms left, 9000 ms at once leaves the penalty at 2000 ms,
    8500 ms + 500 ms at 1500 ms — the witness of the defect reported from this model -/
theorem fullMetalBarrage_unrepaired_refuted :
    ∃ (p : FullMetalBarrage.P) (s : FullMetalBarrage.S) (a b : Int), 0 ≤ a ∧ 0 ≤ b ∧ s.keydown.Inv ∧
      let unrepaired := fun (t : Int) (u : FullMetalBarrage.S) =>
        let u1 : FullMetalBarrage.S := { u with penaltyLasting := u.penaltyLasting.elapse t }
        let r := KeydownSkill.elapse (FullMetalBarrage.kdP p) t (FullMetalBarrage.kdS u1)
        if keydownEnded r.2 then
          { FullMetalBarrage.withKd u1 r.1 with penaltyLasting := u1.penaltyLasting.setTimeLeft p.homingPenaltyDuration }
        else FullMetalBarrage.withKd u1 r.1
      (unrepaired (a + b) s).penaltyLasting.timeLeft = ms 2000 ∧
      (unrepaired b (unrepaired a s)).penaltyLasting.timeLeft = ms 1500 :=
  ⟨⟨ms 180000, ms 8000, ms 970, 880, 12, ms 1800, ms 2000⟩, ⟨⟨ms 180000⟩, ⟨ms 150, ms 970, ms 8000⟩, ⟨0, 0⟩⟩,
   ms 8500, ms 500, by decide⟩
theorem fullMetalBarrage_inv_elapse (p : FullMetalBarrage.P) (t : Int) (s : FullMetalBarrage.S) (hi : s.keydown.Inv) :
    (FullMetalBarrage.elapse p t s).1.keydown.Inv := by
  have : (FullMetalBarrage.elapse p t s).1.keydown = (s.keydown.resolving t).1 := by
    unfold FullMetalBarrage.elapse
    simp only [FullMetalBarrage.withKd, keydownSkill_elapse_state, FullMetalBarrage.kdS]
    split <;> rfl
  rw [this]; exact Keydown.resolving_inv _ _ hi

/-! ### the equivalences are respected by every reducer and view of their class (so an equivalent state can
    never be told apart later): same views, same events, equivalent successor states -/
theorem robotSummon_equiv_congr (p : RobotSummonSkill.P) (x y : RobotSummonSkill.S) (h : RobotSummonSkill.Equiv x y) (t : Int) :
    RobotSummonSkill.validity p x = RobotSummonSkill.validity p y ∧
    RobotSummonSkill.running p x = RobotSummonSkill.running p y ∧
    (RobotSummonSkill.elapse p t x).2 = (RobotSummonSkill.elapse p t y).2 ∧
    RobotSummonSkill.Equiv (RobotSummonSkill.elapse p t x).1 (RobotSummonSkill.elapse p t y).1 ∧
    (∀ rx, RobotSummonSkill.use p x = .ok rx →
      ∃ ry, RobotSummonSkill.use p y = .ok ry ∧ rx.2 = ry.2 ∧ RobotSummonSkill.Equiv rx.1 ry.1) := by
  obtain ⟨rm, cd, per⟩ := x
  obtain ⟨rm', cd', per'⟩ := y
  obtain ⟨h1, h2, h3⟩ := h
  simp only at h1 h2 h3
  subst h1 h2
  refine ⟨rfl, ?_, ?_, ⟨rfl, rfl, Periodic.elapse_equiv _ _ t h3⟩, ?_⟩
  · simp only [RobotSummonSkill.running, h3.timeLeft]
  · simp only [RobotSummonSkill.elapse, Periodic.elapse', h3.elapseCount]
  · intro rx hx
    simp only [RobotSummonSkill.use, ← h3.setTimeLeft] at hx ⊢
    split at hx
    · rename_i hc
      simp only [Except.ok.injEq] at hx; subst hx
      exact ⟨(⟨rm, cd, per'⟩, [.rejected]), by rw [if_pos hc], rfl, ⟨rfl, rfl, h3⟩⟩
    · rename_i hc
      rw [if_neg hc]
      cases hs : per.setTimeLeft p.lastingEff with
      | error e => simp [hs] at hx
      | ok q =>
        simp only [hs, Except.ok.injEq] at hx; subst hx
        exact ⟨_, rfl, rfl, ⟨rfl, rfl, Periodic.Equiv.refl _⟩⟩

theorem magicCurcuit_equiv_congr (p : MagicCurcuit.P) (x y : MagicCurcuit.S) (h : MagicCurcuit.Equiv x y) (t : Int) :
    MagicCurcuit.validity p x = MagicCurcuit.validity p y ∧ MagicCurcuit.running p x = MagicCurcuit.running p y ∧
    MagicCurcuit.buffOn x = MagicCurcuit.buffOn y ∧
    (MagicCurcuit.elapse p t x).2 = (MagicCurcuit.elapse p t y).2 ∧
    MagicCurcuit.Equiv (MagicCurcuit.elapse p t x).1 (MagicCurcuit.elapse p t y).1 ∧
    (∀ rx, MagicCurcuit.use p x = .ok rx → ∃ ry, MagicCurcuit.use p y = .ok ry ∧ rx.2 = ry.2 ∧ MagicCurcuit.Equiv rx.1 ry.1) := by
  obtain ⟨cd, per⟩ := x
  obtain ⟨cd', per'⟩ := y
  obtain ⟨h2, h3⟩ := h
  simp only at h2 h3
  subst h2
  refine ⟨rfl, ?_, h3.enabled, ?_, ⟨rfl, Periodic.elapse_equiv _ _ t h3⟩, ?_⟩
  · simp only [MagicCurcuit.running, h3.timeLeft]
  · simp only [MagicCurcuit.elapse, Periodic.elapse', h3.elapseCount]
  · intro rx hx
    simp only [MagicCurcuit.use, ← h3.setTimeLeft] at hx ⊢
    split at hx
    · rename_i hc
      simp only [Except.ok.injEq] at hx; subst hx
      exact ⟨(⟨cd, per'⟩, [.rejected]), by rw [if_pos hc], rfl, ⟨rfl, h3⟩⟩
    · rename_i hc
      rw [if_neg hc]
      cases hs : per.setTimeLeft p.lastingDuration with
      | error e => simp [hs] at hx
      | ok q =>
        simp only [hs, Except.ok.injEq] at hx; subst hx
        exact ⟨_, rfl, rfl, ⟨rfl, Periodic.Equiv.refl _⟩⟩

theorem adeleStorm_equiv_congr (p : AdeleStorm.P) (x y : AdeleStorm.S) (h : AdeleStorm.Equiv x y) (t : Int) :
    AdeleStorm.validity p x = AdeleStorm.validity p y ∧ AdeleStorm.running p x = AdeleStorm.running p y ∧
    (AdeleStorm.elapse p t x).2 = (AdeleStorm.elapse p t y).2 ∧
    AdeleStorm.Equiv (AdeleStorm.elapse p t x).1 (AdeleStorm.elapse p t y).1 ∧
    (∀ rx, AdeleStorm.use p x = .ok rx → ∃ ry, AdeleStorm.use p y = .ok ry ∧ rx.2 = ry.2 ∧ AdeleStorm.Equiv rx.1 ry.1) := by
  obtain ⟨cd, per, st, os⟩ := x
  obtain ⟨cd', per', st', os'⟩ := y
  obtain ⟨h2, h3, h4, h5⟩ := h
  simp only at h2 h3 h4 h5
  subst h2 h4 h5
  refine ⟨rfl, ?_, ?_, ⟨rfl, Periodic.elapse_equiv _ _ t h3, rfl, rfl⟩, ?_⟩
  · simp only [AdeleStorm.running, h3.timeLeft]
  · simp only [AdeleStorm.elapse, Periodic.elapse', h3.elapseCount]
  · intro rx hx
    simp only [AdeleStorm.use, ← h3.setTimeLeft] at hx ⊢
    split at hx
    · rename_i hc
      simp only [Except.ok.injEq] at hx; subst hx
      exact ⟨(⟨cd, per', st, os⟩, [.rejected]), by rw [if_pos hc], rfl, ⟨rfl, h3, rfl, rfl⟩⟩
    · rename_i hc
      rw [if_neg hc]
      split at hx
      · rename_i hc2
        simp only [Except.ok.injEq] at hx; subst hx
        exact ⟨(⟨cd, per', st, os⟩, [.rejected]), by rw [if_pos hc2], rfl, ⟨rfl, h3, rfl, rfl⟩⟩
      · rename_i hc2
        rw [if_neg hc2]
        cases hs : per.setTimeLeft p.lastingDuration with
        | error e => simp [hs] at hx
        | ok q =>
          simp only [hs, Except.ok.injEq] at hx; subst hx
          exact ⟨_, rfl, rfl, ⟨rfl, Periodic.Equiv.refl _, rfl, rfl⟩⟩

theorem hommingMissile_equiv_congr (p : HommingMissile.P) (x y : HommingMissile.S) (h : HommingMissile.Equiv x y) (t c : Int) :
    HommingMissile.validity p x = HommingMissile.validity p y ∧ HommingMissile.running p x = HommingMissile.running p y ∧
    (HommingMissile.elapse p t x).2 = (HommingMissile.elapse p t y).2 ∧
    HommingMissile.Equiv (HommingMissile.elapse p t x).1 (HommingMissile.elapse p t y).1 ∧
    HommingMissile.Equiv (HommingMissile.pause p c x).1 (HommingMissile.pause p c y).1 ∧
    (∀ rx, HommingMissile.use p x = .ok rx → ∃ ry, HommingMissile.use p y = .ok ry ∧ rx.2 = ry.2 ∧ HommingMissile.Equiv rx.1 ry.1) := by
  obtain ⟨bt, kd, pl, cd, per⟩ := x
  obtain ⟨bt', kd', pl', cd', per'⟩ := y
  obtain ⟨h0, h1, h2, h4, h3⟩ := h
  simp only at h0 h1 h2 h3 h4
  subst h0 h1 h2 h4
  refine ⟨rfl, ?_, ?_, ⟨rfl, rfl, rfl, rfl, Periodic.elapse_equiv _ _ t h3⟩, ⟨rfl, rfl, rfl, rfl, h3.setIntervalCounter c⟩, ?_⟩
  · simp only [HommingMissile.running, h3.timeLeft]
  · simp only [HommingMissile.elapse, Periodic.elapse', h3.elapseCount, HommingMissile.missileHit]
  · intro rx hx
    simp only [HommingMissile.use, ← h3.setTimeLeft] at hx ⊢
    split at hx
    · rename_i hc
      simp only [Except.ok.injEq] at hx; subst hx
      exact ⟨(⟨bt, kd, pl, cd, per'⟩, [.rejected]), by rw [if_pos hc], rfl, ⟨rfl, rfl, rfl, rfl, h3⟩⟩
    · rename_i hc
      rw [if_neg hc]
      cases hs : per.setTimeLeft p.lastingDuration with
      | error e => simp [hs] at hx
      | ok q =>
        simp only [hs, Except.ok.injEq] at hx; subst hx
        exact ⟨_, rfl, rfl, ⟨rfl, rfl, rfl, rfl, Periodic.Equiv.refl _⟩⟩

theorem adeleRuin_equiv_congr (p : AdeleRuin.P) (x y : AdeleRuin.S) (h : AdeleRuin.Equiv x y) (t : Int) :
    AdeleRuin.validity p x = AdeleRuin.validity p y ∧ AdeleRuin.running p x = AdeleRuin.running p y ∧
    (AdeleRuin.elapse p t x).2 = (AdeleRuin.elapse p t y).2 ∧
    AdeleRuin.Equiv (AdeleRuin.elapse p t x).1 (AdeleRuin.elapse p t y).1 ∧
    (∀ rx, AdeleRuin.use p x = .ok rx → ∃ ry, AdeleRuin.use p y = .ok ry ∧ rx.2 = ry.2 ∧ AdeleRuin.Equiv rx.1 ry.1) := by
  obtain ⟨cd, f, g⟩ := x
  obtain ⟨cd', f', g'⟩ := y
  obtain ⟨h2, h3, h4⟩ := h
  simp only at h2 h3 h4
  subst h2
  refine ⟨rfl, ?_, ?_, ⟨rfl, Periodic.elapse_equiv _ _ t h3, Periodic.elapse_equiv _ _ t h4⟩, ?_⟩
  · simp only [AdeleRuin.running, h4.timeLeft]
  · simp only [AdeleRuin.elapse, Periodic.elapse', h3.elapseCount, h4.elapseCount]
  · intro rx hx
    simp only [AdeleRuin.use, ← h3.setTimeLeft, ← h4.setTimeLeft] at hx ⊢
    split at hx
    · rename_i hc
      simp only [Except.ok.injEq] at hx; subst hx
      exact ⟨(⟨cd, f', g'⟩, [.rejected]), by rw [if_pos hc], rfl, ⟨rfl, h3, h4⟩⟩
    · rename_i hc
      rw [if_neg hc]
      cases hs : f.setTimeLeft p.lastingDurationFirst with
      | error e => simp [hs] at hx
      | ok q =>
        cases hs2 : g.setTimeLeft (p.lastingDurationFirst + p.lastingDurationSecond) with
        | error e => simp [hs, hs2] at hx
        | ok q2 =>
          simp only [hs, hs2, Except.ok.injEq] at hx; subst hx
          exact ⟨_, rfl, rfl, ⟨rfl, Periodic.Equiv.refl _, Periodic.Equiv.refl _⟩⟩

theorem adeleEther_equiv_congr (p : AdeleEther.P) (x y : AdeleEther.S) (h : AdeleEther.Equiv x y) (t : Int) :
    AdeleEther.running x = AdeleEther.running y ∧
    (AdeleEther.elapse p t x).2 = (AdeleEther.elapse p t y).2 ∧
    AdeleEther.Equiv (AdeleEther.elapse p t x).1 (AdeleEther.elapse p t y).1 ∧
    AdeleEther.Equiv (AdeleEther.trigger p x).1 (AdeleEther.trigger p y).1 ∧
    AdeleEther.Equiv (AdeleEther.resonance p x).1 (AdeleEther.resonance p y).1 ∧
    AdeleEther.Equiv (AdeleEther.order p x).1 (AdeleEther.order p y).1 := by
  obtain ⟨eg, per, rl⟩ := x
  obtain ⟨eg', per', rl'⟩ := y
  obtain ⟨h1, h3, h2⟩ := h
  simp only at h1 h2 h3
  subst h1 h2
  refine ⟨rfl, rfl, ⟨?_, Periodic.elapse_equiv _ _ t h3, rfl⟩, ⟨rfl, h3, rfl⟩, ⟨rfl, h3, rfl⟩, ⟨rfl, h3, rfl⟩⟩
  simp only [AdeleEther.elapse, Periodic.elapse', h3.elapseCount]

theorem mecaCarrier_equiv_congr (p : MecaCarrier.P) (x y : MecaCarrier.S) (h : MecaCarrier.Equiv x y) (t : Int) (ht : 0 ≤ t) :
    MecaCarrier.validity p x = MecaCarrier.validity p y ∧ MecaCarrier.running p x = MecaCarrier.running p y ∧
    (MecaCarrier.elapse p t x).2 = (MecaCarrier.elapse p t y).2 ∧
    MecaCarrier.Equiv (MecaCarrier.elapse p t x).1 (MecaCarrier.elapse p t y).1 ∧
    (MecaCarrier.use p x).2 = (MecaCarrier.use p y).2 ∧ MecaCarrier.Equiv (MecaCarrier.use p x).1 (MecaCarrier.use p y).1 := by
  obtain ⟨cd, per, rm⟩ := x
  obtain ⟨cd', per', rm'⟩ := y
  obtain ⟨h1, h3, h2⟩ := h
  simp only at h1 h2 h3
  subst h1 h2
  have hr := DynamicIntervalPeriodic.resolving_equiv per per' t h3 ht
  refine ⟨rfl, ?_, ?_, ⟨rfl, hr.1, rfl⟩, ?_, ?_⟩
  · simp only [MecaCarrier.running, h3.timeLeft, h3.count]
  · simp only [MecaCarrier.elapse, hr.2]
  · simp only [MecaCarrier.use]; split <;> rfl
  · simp only [MecaCarrier.use]
    split
    · exact ⟨rfl, h3, rfl⟩
    · exact ⟨rfl, by rw [h3.setTimeLeft]; exact DynamicIntervalPeriodic.Equiv.refl _, rfl⟩

theorem multipleOption_equiv_congr (p : MultipleOption.P) (x y : MultipleOption.S) (h : MultipleOption.Equiv x y) (t : Int) :
    MultipleOption.validity p x = MultipleOption.validity p y ∧ MultipleOption.running p x = MultipleOption.running p y ∧
    (∀ rx, MultipleOption.elapse p t x = .ok rx →
      ∃ ry, MultipleOption.elapse p t y = .ok ry ∧ rx.2 = ry.2 ∧ MultipleOption.Equiv rx.1 ry.1) ∧
    (∀ rx, MultipleOption.use p x = .ok rx →
      ∃ ry, MultipleOption.use p y = .ok ry ∧ rx.2 = ry.2 ∧ MultipleOption.Equiv rx.1 ry.1) := by
  obtain ⟨cy, cd, per, rm⟩ := x
  obtain ⟨cy', cd', per', rm'⟩ := y
  obtain ⟨h0, h1, h3, h2⟩ := h
  simp only at h0 h1 h2 h3
  subst h0 h1 h2
  refine ⟨rfl, ?_, ?_, ?_⟩
  · simp only [MultipleOption.running, h3.timeLeft]
  · intro rx hx
    simp only [MultipleOption.elapse, Periodic.elapse', ← h3.elapseCount] at hx ⊢
    cases hs : MultipleOption.ticks p (per.elapseCount t).toNat cy with
    | none => simp [hs] at hx
    | some ce =>
      obtain ⟨c, e⟩ := ce
      simp only [hs, Except.ok.injEq] at hx; subst hx
      exact ⟨_, rfl, rfl, ⟨rfl, rfl, Periodic.elapse_equiv _ _ t h3, rfl⟩⟩
  · intro rx hx
    simp only [MultipleOption.use, ← h3.setTimeLeft] at hx ⊢
    split at hx
    · rename_i hc
      simp only [Except.ok.injEq] at hx; subst hx
      exact ⟨(⟨cy, cd, per', rm⟩, [.rejected]), by rw [if_pos hc], rfl, ⟨rfl, rfl, h3, rfl⟩⟩
    · rename_i hc
      rw [if_neg hc]
      cases hs : per.setTimeLeft p.lastingDuration with
      | error e => simp [hs] at hx
      | ok q =>
        simp only [hs, Except.ok.injEq] at hx; subst hx
        exact ⟨_, rfl, rfl, ⟨rfl, rfl, Periodic.Equiv.refl _, rfl⟩⟩

/-! ### the well-formedness hypotheses are kept by every other reducer too (so they hold on every reachable
    state, starting from the default states whose `Periodic`s satisfy the pydantic constraints) -/
theorem robotSummon_wf_use (p : RobotSummonSkill.P) (s : RobotSummonSkill.S) (r : RobotSummonSkill.S × List REv)
    (hw : s.periodic.WF) (h : RobotSummonSkill.use p s = .ok r) : r.1.periodic.WF := by
  unfold RobotSummonSkill.use at h
  split at h
  · cases h; exact hw
  · cases hs : s.periodic.setTimeLeft p.lastingEff with
    | error e => simp [hs] at h
    | ok q => simp only [hs, Except.ok.injEq] at h; subst h; exact periodic_setTimeLeft_wf _ _ _ hw hs
theorem magicCurcuit_wf_use (p : MagicCurcuit.P) (s : MagicCurcuit.S) (r : MagicCurcuit.S × List REv)
    (hw : s.periodic.WF) (h : MagicCurcuit.use p s = .ok r) : r.1.periodic.WF := by
  unfold MagicCurcuit.use at h
  split at h
  · cases h; exact hw
  · cases hs : s.periodic.setTimeLeft p.lastingDuration with
    | error e => simp [hs] at h
    | ok q => simp only [hs, Except.ok.injEq] at h; subst h; exact periodic_setTimeLeft_wf _ _ _ hw hs
theorem adeleStorm_wf_use (p : AdeleStorm.P) (s : AdeleStorm.S) (r : AdeleStorm.S × List REv)
    (hw : s.periodic.WF) (h : AdeleStorm.use p s = .ok r) : r.1.periodic.WF := by
  unfold AdeleStorm.use at h
  simp only [] at h
  split at h
  · cases h; exact hw
  · split at h
    · cases h; exact hw
    · cases hs : s.periodic.setTimeLeft p.lastingDuration with
      | error e => simp [hs] at h
      | ok q => simp only [hs, Except.ok.injEq] at h; subst h; exact periodic_setTimeLeft_wf _ _ _ hw hs
/-- `pause` writes the listened delay into the counter: `WF` is kept for a positive delay -/
theorem hommingMissile_wf_use_pause (p : HommingMissile.P) (s : HommingMissile.S) (hw : s.periodic.WF) :
    (∀ r, HommingMissile.use p s = .ok r → r.1.periodic.WF) ∧
    (∀ time, 0 < time → (HommingMissile.pause p time s).1.periodic.WF) := by
  refine ⟨?_, fun time ht => ⟨hw.1, ht⟩⟩
  intro r h
  unfold HommingMissile.use at h
  split at h
  · cases h; exact hw
  · cases hs : s.periodic.setTimeLeft p.lastingDuration with
    | error e => simp [hs] at h
    | ok q => simp only [hs, Except.ok.injEq] at h; subst h; exact periodic_setTimeLeft_wf _ _ _ hw hs
theorem multipleOption_wf_preserved (p : MultipleOption.P) (t : Int) (s : MultipleOption.S) (hw : s.periodic.WF)
    (hc : s.cycle.period ≠ 0) :
    (∀ r, MultipleOption.use p s = .ok r → r.1.periodic.WF ∧ r.1.cycle.period ≠ 0) ∧
    (∀ r, MultipleOption.elapse p t s = .ok r → r.1.periodic.WF ∧ r.1.cycle.period ≠ 0) := by
  refine ⟨?_, ?_⟩
  · intro r h
    unfold MultipleOption.use at h
    split at h
    · cases h; exact ⟨hw, hc⟩
    · cases hs : s.periodic.setTimeLeft p.lastingDuration with
      | error e => simp [hs] at h
      | ok q => simp only [hs, Except.ok.injEq] at h; subst h; exact ⟨periodic_setTimeLeft_wf _ _ _ hw hs, hc⟩
  · intro r h
    obtain ⟨r', hr', hp⟩ := MultipleOption.ticks_defined p (s.periodic.elapse' t).2.toNat s.cycle hc
    unfold MultipleOption.elapse at h
    simp only [hr', Except.ok.injEq] at h
    subst h
    exact ⟨Periodic.elapse_wf _ _ hw, by simp only []; rw [hp]; exact hc⟩
theorem adeleRuin_wf_use (p : AdeleRuin.P) (s : AdeleRuin.S) (r : AdeleRuin.S × List REv)
    (hw1 : s.first.WF) (hw2 : s.second.WF) (h : AdeleRuin.use p s = .ok r) : r.1.first.WF ∧ r.1.second.WF := by
  unfold AdeleRuin.use at h
  split at h
  · cases h; exact ⟨hw1, hw2⟩
  · cases hf : s.first.setTimeLeft p.lastingDurationFirst with
    | error e => simp [hf] at h
    | ok f =>
      cases hg : s.second.setTimeLeft (p.lastingDurationFirst + p.lastingDurationSecond) with
      | error e => simp [hf, hg] at h
      | ok g =>
        simp only [hf, hg, Except.ok.injEq] at h; subst h
        exact ⟨periodic_setTimeLeft_wf _ _ _ hw1 hf, periodic_setTimeLeft_wf _ _ _ hw2 hg⟩
/-- the listened reducers of the ether gauge do not touch its `Periodic` -/
theorem adeleEther_wf_others (p : AdeleEther.P) (s : AdeleEther.S) :
    (AdeleEther.trigger p s).1.periodic = s.periodic ∧ (AdeleEther.resonance p s).1.periodic = s.periodic ∧
    (AdeleEther.order p s).1.periodic = s.periodic := ⟨rfl, rfl, rfl⟩
theorem mecaCarrier_inv_use (p : MecaCarrier.P) (s : MecaCarrier.S) (hi : s.periodic.Inv)
    (hl : 0 ≤ p.lastingDuration) (hc : 0 ≤ p.startIntercepter) : (MecaCarrier.use p s).1.periodic.Inv := by
  unfold MecaCarrier.use
  split
  · exact hi
  · obtain ⟨⟨h1, h2, _, h4⟩, _⟩ := hi
    refine ⟨⟨h1, h2, hc, h4⟩, ?_⟩
    intro h
    simp only [DynamicIntervalPeriodic.setTimeLeft] at h
    omega
theorem fullMetalBarrage_inv_use_stop (p : FullMetalBarrage.P) (s : FullMetalBarrage.S) (hi : s.keydown.Inv)
    (hd : 0 ≤ p.prepareDelay) : (FullMetalBarrage.use p s).1.keydown.Inv ∧ (FullMetalBarrage.stop p s).1.keydown.Inv := by
  refine ⟨?_, ?_⟩
  · have h : (FullMetalBarrage.use p s).1.keydown = s.keydown ∨
        (FullMetalBarrage.use p s).1.keydown = s.keydown.start p.maximumKeydownTime p.prepareDelay := by
      unfold FullMetalBarrage.use KeydownSkill.use
      by_cases hc : (!(FullMetalBarrage.kdS s).cooldown.available || (FullMetalBarrage.kdS s).keydown.running) = true
      · left; simp only [hc, if_true]; rfl
      · right; simp only [hc, if_false]; rfl
    rcases h with h | h <;> rw [h]
    · exact hi
    · exact ⟨hi.1, Or.inl hd⟩
  · have h : (FullMetalBarrage.stop p s).1.keydown = s.keydown ∨
        (s.keydown.running = true ∧ (FullMetalBarrage.stop p s).1.keydown = s.keydown.stop) := by
      unfold FullMetalBarrage.stop KeydownSkill.stop
      by_cases hc : (FullMetalBarrage.kdS s).keydown.running = true
      · right
        refine ⟨hc, ?_⟩
        simp only [hc, Bool.not_true, Bool.false_eq_true, if_false]
        split <;> rfl
      · left
        simp only [Bool.not_eq_true] at hc
        simp only [hc, Bool.not_false, if_true]
        split <;> rfl
    rcases h with h | ⟨hr, h⟩ <;> rw [h]
    · exact hi
    · have hpos : 0 < s.keydown.timeLeft := by simpa [Keydown.running] using hr
      have hc : 0 ≤ s.keydown.intervalCounter := by have := hi.2; omega
      exact ⟨hi.1, Or.inl hc⟩

/-! non-vacuity: the hypotheses hold on the states the jobs start from / reach, and ticks do occur -/
example : ({ interval := ms 1000, initialCounter := some (ms 1410), intervalCounter := ms 1410, timeLeft := ms 98700 } : Periodic).WF := by
  decide
example : (damageTicks (RobotSummonSkill.elapse ⟨0, ms 630, 0, 0, 385, 1, ms 98700, some "m"⟩ (ms 3500)
    ⟨⟨41, 108⟩, ⟨0⟩, { interval := ms 1000, intervalCounter := ms 1000, timeLeft := ms 50000 }⟩).2).length = 3 := by decide
example : (Keydown.start { interval := ms 150 } (ms 8000) (ms 970)).Inv := by decide
example : (DynamicIntervalPeriodic.setTimeLeft { interval := ms 2850, countIntervalPenalty := ms 120, maxCount := 16, count := 9 }
    (ms 70000) 9).Inv := by decide

end Simaple.Props.C09_Mech
