/-
C09 (part `Mage`) — chunk independence of the `elapse` reducers of the job-specific component classes of
archmagefb / archmagetc / bishop and `Infinity` (Simaple/Model/ComponentMage.lean).  For `0 ≤ a`, `0 ≤ b`:
elapsing `a` then `b` deals the same damage ticks (`Mage.damages`: the `dealt` events with their damage, hit
and modifier) IN THE SAME ORDER as elapsing `a + b` at once, and leaves an equal state — or, for the classes
with a `Periodic` scheduler, an equivalent one (`X.Equiv`: equal up to the dead tick counter of an expired
scheduler), which shows the same views and on which every reducer answers the same (`X_equiv_*`).
Hypotheses are the pydantic constraints of the schedulers (`Periodic.WF`), preserved by every reducer.
FerventDrain, FlameSwipVI and FrostEffect have no `elapse` reducer.
-/
import Simaple.Proofs.ComponentMage

namespace Simaple.Props.C09_Mage
open Simaple.Comp Simaple.Comp.Mage Simaple.Entity

/-! ### classes whose timers are all linear: plain equality -/
theorem poisonNova_chunk_independent (p : PoisonNova.P) (s : PoisonNova.S) (a b : Int) :
    damages (PoisonNova.elapse p (a + b) s).2 =
      damages (PoisonNova.elapse p a s).2 ++ damages (PoisonNova.elapse p b (PoisonNova.elapse p a s).1).2 ∧
    (PoisonNova.elapse p b (PoisonNova.elapse p a s).1).1 = (PoisonNova.elapse p (a + b) s).1 := by
  refine ⟨rfl, ?_⟩
  simp only [PoisonNova.elapse, Cooldown.elapse_add, PoisonNovaEntity.elapse_add]

theorem dotPunisher_chunk_independent (p : DotPunisher.P) (s : DotPunisher.S) (a b : Int) :
    damages (DotPunisher.elapse p (a + b) s).2 =
      damages (DotPunisher.elapse p a s).2 ++ damages (DotPunisher.elapse p b (DotPunisher.elapse p a s).1).2 ∧
    (DotPunisher.elapse p b (DotPunisher.elapse p a s).1).1 = (DotPunisher.elapse p (a + b) s).1 := by
  refine ⟨rfl, ?_⟩
  simp only [DotPunisher.elapse, Cooldown.elapse_add]

theorem divineAttack_chunk_independent (p : DivineAttack.P) (s : DivineAttack.S) (a b : Int) :
    damages (DivineAttack.elapse p (a + b) s).2 =
      damages (DivineAttack.elapse p a s).2 ++ damages (DivineAttack.elapse p b (DivineAttack.elapse p a s).1).2 ∧
    (DivineAttack.elapse p b (DivineAttack.elapse p a s).1).1 = (DivineAttack.elapse p (a + b) s).1 := by
  refine ⟨rfl, ?_⟩
  simp only [DivineAttack.elapse, Cooldown.elapse_add]

theorem hexaAngelRay_chunk_independent (p : HexaAngelRay.P) (s : HexaAngelRay.S) (a b : Int) :
    damages (HexaAngelRay.elapse p (a + b) s).2 =
      damages (HexaAngelRay.elapse p a s).2 ++ damages (HexaAngelRay.elapse p b (HexaAngelRay.elapse p a s).1).2 ∧
    (HexaAngelRay.elapse p b (HexaAngelRay.elapse p a s).1).1 = (HexaAngelRay.elapse p (a + b) s).1 := by
  refine ⟨rfl, ?_⟩
  simp only [HexaAngelRay.elapse, Cooldown.elapse_add]

theorem infinity_chunk_independent (p : Infinity.P) (s : Infinity.S) (a b : Int) :
    damages (Infinity.elapse p (a + b) s).2 =
      damages (Infinity.elapse p a s).2 ++ damages (Infinity.elapse p b (Infinity.elapse p a s).1).2 ∧
    (Infinity.elapse p b (Infinity.elapse p a s).1).1 = (Infinity.elapse p (a + b) s).1 := by
  refine ⟨rfl, ?_⟩
  simp only [Infinity.elapse, Cooldown.elapse_add, Lasting.elapse_add]

/-- InfernalVenom: FerventDrain's stack falls back to 5 exactly when the buff runs out, in whichever chunk
    that happens (needs `0 ≤ a, b`: time does not run backwards) -/
theorem infernalVenom_chunk_independent (p : InfernalVenom.P) (s : InfernalVenom.S) (a b : Int) (ha : 0 ≤ a) (hb : 0 ≤ b) :
    damages (InfernalVenom.elapse p (a + b) s).2 =
      damages (InfernalVenom.elapse p a s).2 ++ damages (InfernalVenom.elapse p b (InfernalVenom.elapse p a s).1).2 ∧
    (InfernalVenom.elapse p b (InfernalVenom.elapse p a s).1).1 = (InfernalVenom.elapse p (a + b) s).1 := by
  have hd : ∀ t (x : InfernalVenom.S), damages (InfernalVenom.elapse p t x).2 = [] := by
    intro t x; unfold InfernalVenom.elapse; simp only []; split <;> rfl
  refine ⟨by simp [hd], ?_⟩
  obtain ⟨ds, cd, la⟩ := s
  obtain ⟨tl, ad⟩ := la
  rw [infernalVenom_elapse_fst, infernalVenom_elapse_fst, infernalVenom_elapse_fst]
  simp only [Lasting.elapse, Cooldown.elapse, FerventDrainStack.setMaxCount, FerventDrainStack.setCount]
  have e1 : cd.timeLeft - a - b = cd.timeLeft - (a + b) := by omega
  have e2 : tl - a - b = tl - (a + b) := by omega
  rw [e1, e2]
  congr 1
  by_cases c1 : 0 < tl ∧ tl ≤ a <;> by_cases c2 : 0 < tl - a ∧ tl - a ≤ b <;> by_cases c3 : 0 < tl ∧ tl ≤ a + b <;>
    simp only [c1, c2, c3, if_true, if_false] <;> first | rfl | (exfalso; omega)

/-- ChainLightning VI: the electric-current fields (a list of `Periodic`s, expired ones dropped) -/
theorem chainLightning_chunk_independent (p : ChainLightning.P) (s : ChainLightning.S) (a b : Int)
    (hw : ∀ q ∈ s.currentFields.fieldPeriodics, q.WF) (ha : 0 ≤ a) (hb : 0 ≤ b) :
    damages (ChainLightning.elapse p (a + b) s).2 =
      damages (ChainLightning.elapse p a s).2 ++ damages (ChainLightning.elapse p b (ChainLightning.elapse p a s).1).2 ∧
    (ChainLightning.elapse p b (ChainLightning.elapse p a s).1).1 = (ChainLightning.elapse p (a + b) s).1 := by
  have h := CurrentField.elapse_add s.currentFields a b hw ha hb
  simp only [ChainLightning.elapse, damages_elapsed_cons _ _ (allDamage_replicate _ _ _)]
  refine ⟨?_, ?_⟩
  · rw [h.2, replicate_toNat_add _ _ _ (currentField_ticks_nonneg _ _) (currentField_ticks_nonneg _ _)]
  · rw [h.1, Cooldown.elapse_add]
theorem chainLightning_wf_preserved (p : ChainLightning.P) (s : ChainLightning.S) (t : Int)
    (hw : ∀ q ∈ s.currentFields.fieldPeriodics, q.WF) :
    ∀ q ∈ (ChainLightning.elapse p t s).1.currentFields.fieldPeriodics, q.WF :=
  CurrentField.elapse_wf _ t hw

/-! ### classes with a `Periodic` scheduler: equivalent states -/
theorem ifritt_chunk_independent (p : Ifritt.P) (s : Ifritt.S) (a b : Int) (hw : s.periodic.WF) (ha : 0 ≤ a) (hb : 0 ≤ b) :
    damages (Ifritt.elapse p (a + b) s).2 =
      damages (Ifritt.elapse p a s).2 ++ damages (Ifritt.elapse p b (Ifritt.elapse p a s).1).2 ∧
    Ifritt.Equiv (Ifritt.elapse p b (Ifritt.elapse p a s).1).1 (Ifritt.elapse p (a + b) s).1 := by
  simp only [Ifritt.elapse, Periodic.elapse', damages_elapsed_cons _ _ (allDamage_replicate _ _ _)]
  refine ⟨?_, ?_, ?_⟩
  · rw [Periodic.elapseCount_add _ _ _ hw ha hb,
      replicate_toNat_add _ _ _ (Periodic.elapseCount_nonneg _ _) (Periodic.elapseCount_nonneg _ _)]
  · simp only [Cooldown.elapse_add]
  · exact Periodic.elapse_add' _ _ _ hw ha hb
/-- equivalent Ifritt states show the same views, `use` answers the same, and `elapse` answers the same events
    and equivalent states -/
theorem ifritt_equiv_observations (p : Ifritt.P) (x y : Ifritt.S) (h : Ifritt.Equiv x y) (t : Int) :
    Ifritt.validity p x = Ifritt.validity p y ∧ Ifritt.running p x = Ifritt.running p y ∧
    ExceptEquiv Ifritt.Equiv (Ifritt.use p x) (Ifritt.use p y) ∧
    (Ifritt.elapse p t x).2 = (Ifritt.elapse p t y).2 ∧ Ifritt.Equiv (Ifritt.elapse p t x).1 (Ifritt.elapse p t y).1 := by
  obtain ⟨hc, hp⟩ := h
  refine ⟨?_, ?_, ?_, ?_, ?_, ?_⟩
  · simp only [Ifritt.validity, hc]
  · simp only [Ifritt.running, hp.timeLeft]
  · simp only [Ifritt.use, hc, hp.setTimeLeft]
    split
    · exact ⟨rfl, hc, hp⟩
    · cases y.periodic.setTimeLeft p.lastingDuration with
      | error e => exact rfl
      | ok per => exact ⟨rfl, rfl, Periodic.Equiv.refl _⟩
  · simp only [Ifritt.elapse, Periodic.elapse', hp.elapseCount]
  · simp only [Ifritt.elapse, hc]
  · exact Periodic.elapse_equiv _ _ _ hp
theorem ifritt_wf_preserved (p : Ifritt.P) (s : Ifritt.S) (t : Int) (hw : s.periodic.WF) :
    (Ifritt.elapse p t s).1.periodic.WF := Periodic.elapse_wf _ _ hw

/-- PoisonChain: every tick deals `periodic_damage + increment * stack` and raises the stack -/
theorem poisonChain_chunk_independent (p : PoisonChain.P) (s : PoisonChain.S) (a b : Int) (hw : s.periodic.WF)
    (ha : 0 ≤ a) (hb : 0 ≤ b) :
    damages (PoisonChain.elapse p (a + b) s).2 =
      damages (PoisonChain.elapse p a s).2 ++ damages (PoisonChain.elapse p b (PoisonChain.elapse p a s).1).2 ∧
    PoisonChain.Equiv (PoisonChain.elapse p b (PoisonChain.elapse p a s).1).1 (PoisonChain.elapse p (a + b) s).1 := by
  have hk : (s.periodic.elapseCount (a + b)).toNat =
      (s.periodic.elapseCount a).toNat + ((s.periodic.elapse a).elapseCount b).toNat := by
    rw [Periodic.elapseCount_add _ _ _ hw ha hb,
      Int.toNat_add (Periodic.elapseCount_nonneg _ _) (Periodic.elapseCount_nonneg _ _)]
  simp only [PoisonChain.elapse, Periodic.elapse', damages_elapsed_cons _ _ (poisonChain_ticks_allDamage _ _ _)]
  rw [hk, poisonChain_ticks_add]
  refine ⟨rfl, ?_, rfl, ?_⟩
  · simp only [Cooldown.elapse_add]
  · exact Periodic.elapse_add' _ _ _ hw ha hb
theorem poisonChain_equiv_observations (p : PoisonChain.P) (x y : PoisonChain.S) (h : PoisonChain.Equiv x y) (t : Int) :
    PoisonChain.validity p x = PoisonChain.validity p y ∧ PoisonChain.running p x = PoisonChain.running p y ∧
    ExceptEquiv PoisonChain.Equiv (PoisonChain.use p x) (PoisonChain.use p y) ∧
    (PoisonChain.elapse p t x).2 = (PoisonChain.elapse p t y).2 ∧
    PoisonChain.Equiv (PoisonChain.elapse p t x).1 (PoisonChain.elapse p t y).1 := by
  obtain ⟨hc, hs, hp⟩ := h
  refine ⟨?_, ?_, ?_, ?_, ?_, ?_, ?_⟩
  · simp only [PoisonChain.validity, hc]
  · simp only [PoisonChain.running, hp.timeLeft]
  · simp only [PoisonChain.use, hc, hs, hp.setTimeLeft]
    split
    · exact ⟨rfl, hc, hs, hp⟩
    · cases y.periodic.setTimeLeft p.lastingDuration with
      | error e => exact rfl
      | ok per => exact ⟨rfl, rfl, rfl, Periodic.Equiv.refl _⟩
  · simp only [PoisonChain.elapse, Periodic.elapse', hp.elapseCount, hs]
  · simp only [PoisonChain.elapse, hc]
  · simp only [PoisonChain.elapse, Periodic.elapse', hp.elapseCount, hs]
  · exact Periodic.elapse_equiv _ _ _ hp
theorem poisonChain_wf_preserved (p : PoisonChain.P) (s : PoisonChain.S) (t : Int) (hw : s.periodic.WF) :
    (PoisonChain.elapse p t s).1.periodic.WF := Periodic.elapse_wf _ _ hw

/-- DivineMinion: the divine mark is set iff at least one tick happened, in whichever chunk -/
theorem divineMinion_chunk_independent (p : DivineMinion.P) (s : DivineMinion.S) (a b : Int) (hw : s.periodic.WF)
    (ha : 0 ≤ a) (hb : 0 ≤ b) :
    damages (DivineMinion.elapse p (a + b) s).2 =
      damages (DivineMinion.elapse p a s).2 ++ damages (DivineMinion.elapse p b (DivineMinion.elapse p a s).1).2 ∧
    DivineMinion.Equiv (DivineMinion.elapse p b (DivineMinion.elapse p a s).1).1 (DivineMinion.elapse p (a + b) s).1 := by
  have h1 := Periodic.elapseCount_nonneg s.periodic a
  have h2 := Periodic.elapseCount_nonneg (s.periodic.elapse a) b
  have hk := Periodic.elapseCount_add _ a b hw ha hb
  simp only [DivineMinion.elapse, Periodic.elapse', damages_elapsed_cons _ _ (allDamage_replicate _ _ _)]
  refine ⟨?_, ?_, ?_, ?_⟩
  · rw [hk, replicate_toNat_add _ _ _ h1 h2]
  · simp only [Cooldown.elapse_add]
  · rw [hk, Int.toNat_add h1 h2, markTimes_add]
  · exact Periodic.elapse_add' _ _ _ hw ha hb
theorem divineMinion_equiv_observations (p : DivineMinion.P) (x y : DivineMinion.S) (h : DivineMinion.Equiv x y) (t : Int) :
    DivineMinion.validity p x = DivineMinion.validity p y ∧ DivineMinion.running p x = DivineMinion.running p y ∧
    DivineMinion.buffOn p x = DivineMinion.buffOn p y ∧
    ExceptEquiv DivineMinion.Equiv (DivineMinion.use p x) (DivineMinion.use p y) ∧
    (DivineMinion.elapse p t x).2 = (DivineMinion.elapse p t y).2 ∧
    DivineMinion.Equiv (DivineMinion.elapse p t x).1 (DivineMinion.elapse p t y).1 := by
  obtain ⟨hc, hm, hp⟩ := h
  refine ⟨?_, ?_, ?_, ?_, ?_, ?_, ?_, ?_⟩
  · simp only [DivineMinion.validity, hc]
  · simp only [DivineMinion.running, hp.timeLeft]
  · simp only [DivineMinion.buffOn, hp.enabled]
  · obtain ⟨xm, xc, xp⟩ := x
    obtain ⟨ym, yc, yp⟩ := y
    simp only at hc hm hp
    subst hc; subst hm
    simp only [DivineMinion.use, hp.setTimeLeft]
    split
    · exact ⟨rfl, rfl, rfl, hp⟩
    · cases yp.setTimeLeft p.lastingDuration with
      | error e => exact rfl
      | ok per => exact ⟨rfl, rfl, rfl, Periodic.Equiv.refl _⟩
  · simp only [DivineMinion.elapse, Periodic.elapse', hp.elapseCount]
  · simp only [DivineMinion.elapse, hc]
  · simp only [DivineMinion.elapse, Periodic.elapse', hp.elapseCount, hm]
  · exact Periodic.elapse_equiv _ _ _ hp
theorem divineMinion_wf_preserved (p : DivineMinion.P) (s : DivineMinion.S) (t : Int) (hw : s.periodic.WF) :
    (DivineMinion.elapse p t s).1.periodic.WF := Periodic.elapse_wf _ _ hw

/-! ### JupyterThunder / ThunderBreak: a hand-written loop over `Periodic.resolve_step` that emits one hit per
    new count (with the frost-stack modifier of that moment), breaks at the hit limit and switches the skill
    off.  `X.Inv`: the scheduler's pydantic constraints, and a running scheduler is below `max_count`;
    `X.Equiv`: same frost stack / cooldown / shock, schedulers with the same constants that are both
    switched off or equal (`count` and the tick counter of a switched-off scheduler are never read). -/
theorem jupyterThunder_chunk_independent (p : JupyterThunder.P) (s : JupyterThunder.S) (a b : Int)
    (hi : JupyterThunder.Inv p s) (ha : 0 ≤ a) (hb : 0 ≤ b) :
    damages (JupyterThunder.elapse p (a + b) s).2 =
      damages (JupyterThunder.elapse p a s).2 ++ damages (JupyterThunder.elapse p b (JupyterThunder.elapse p a s).1).2 ∧
    JupyterThunder.Equiv (JupyterThunder.elapse p b (JupyterThunder.elapse p a s).1).1 (JupyterThunder.elapse p (a + b) s).1 := by
  have h := loopCore_add _ (JupyterThunder.emit p) (p.maxCount - 1) p.maxCount (JupyterThunder.stop_eq p)
    ⟨Int.le_refl _, by omega⟩ a b ha hb s.periodic s.frostStack hi
  simp only [] at h
  simp only [JupyterThunder.elapse_eq, damages_elapsed_cons _ _ (loopCore_allDamage _ _ (jupyter_emit_isDamage p) _ _ _ _)]
  exact ⟨h.1, h.2.1.symm, by simp only [Cooldown.elapse_add], h.2.2⟩
theorem jupyterThunder_inv_preserved (p : JupyterThunder.P) (s : JupyterThunder.S) (t : Int) (hM : 0 < p.maxCount)
    (hi : JupyterThunder.Inv p s) :
    JupyterThunder.Inv p (JupyterThunder.elapse p t s).1 ∧
    ∀ r, JupyterThunder.use p s = .ok r → JupyterThunder.Inv p r.1 := by
  refine ⟨loopCore_inv _ _ (p.maxCount - 1) p.maxCount (JupyterThunder.stop_eq p) ⟨Int.le_refl _, by omega⟩ t _ _ hi, ?_⟩
  intro r hr
  unfold JupyterThunder.use at hr
  split at hr
  · simp only [Except.ok.injEq] at hr; rw [← hr]; exact hi
  · cases hs : s.periodic.setTimeLeft p.lastingDuration with
    | error e => simp [hs] at hr
    | ok q =>
      simp only [hs, Except.ok.injEq] at hr
      rw [← hr]
      exact setTimeLeft_loopInv _ _ _ _ hi.1 hM hs
theorem jupyterThunder_equiv_observations (p : JupyterThunder.P) (x y : JupyterThunder.S) (h : JupyterThunder.Equiv x y)
    (t : Int) :
    JupyterThunder.validity p x = JupyterThunder.validity p y ∧
    ExceptEquiv JupyterThunder.Equiv (JupyterThunder.use p x) (JupyterThunder.use p y) ∧
    (JupyterThunder.elapse p t x).2 = (JupyterThunder.elapse p t y).2 ∧
    JupyterThunder.Equiv (JupyterThunder.elapse p t x).1 (JupyterThunder.elapse p t y).1 := by
  obtain ⟨xf, xc, xp⟩ := x
  obtain ⟨yf, yc, yp⟩ := y
  obtain ⟨hf, hc, hp⟩ := h
  simp only at hf hc hp
  subst hf; subst hc
  have hl := loopCore_peq (fun c => decide (p.maxCount ≤ c)) (JupyterThunder.emit p) p.maxCount t xp yp xf hp
  refine ⟨rfl, ?_, ?_, ?_⟩
  · simp only [JupyterThunder.use, hp.setTimeLeft]
    split
    · exact ⟨rfl, rfl, rfl, hp⟩
    · cases yp.setTimeLeft p.lastingDuration with
      | error e => exact rfl
      | ok per => exact ⟨rfl, rfl, rfl, PEq.refl _⟩
  · simp only [JupyterThunder.elapse_eq]; rw [hl.1]
  · simp only [JupyterThunder.elapse_eq]
    exact ⟨by rw [hl.1], rfl, hl.2⟩

theorem thunderBreak_chunk_independent (p : ThunderBreak.P) (s : ThunderBreak.S) (a b : Int)
    (hi : ThunderBreak.Inv p s) (ha : 0 ≤ a) (hb : 0 ≤ b) :
    damages (ThunderBreak.elapse p (a + b) s).2 =
      damages (ThunderBreak.elapse p a s).2 ++ damages (ThunderBreak.elapse p b (ThunderBreak.elapse p a s).1).2 ∧
    ThunderBreak.Equiv (ThunderBreak.elapse p b (ThunderBreak.elapse p a s).1).1 (ThunderBreak.elapse p (a + b) s).1 := by
  have h := loopCore_add (fun c => decide (p.maxCount < c)) (ThunderBreak.emit p s.shock.enabled) p.maxCount p.maxCount
    (fun _ => rfl) ⟨by omega, Int.le_refl _⟩ a b ha hb s.periodic s.frostStack hi
  simp only [] at h
  simp only [ThunderBreak.elapse_eq, damages_elapsed_cons _ _ (loopCore_allDamage _ _ (thunderBreak_emit_isDamage p _) _ _ _ _)]
  exact ⟨h.1, h.2.1.symm, rfl, by simp only [Cooldown.elapse_add], h.2.2⟩
theorem thunderBreak_inv_preserved (p : ThunderBreak.P) (s : ThunderBreak.S) (t : Int) (hM : 0 < p.maxCount)
    (hi : ThunderBreak.Inv p s) :
    ThunderBreak.Inv p (ThunderBreak.elapse p t s).1 ∧
    ∀ r, ThunderBreak.use p s = .ok r → ThunderBreak.Inv p r.1 := by
  refine ⟨loopCore_inv _ _ p.maxCount p.maxCount (fun _ => rfl) ⟨by omega, Int.le_refl _⟩ t _ _ hi, ?_⟩
  intro r hr
  unfold ThunderBreak.use at hr
  split at hr
  · simp only [Except.ok.injEq] at hr; rw [← hr]; exact hi
  · cases hs : s.periodic.setTimeLeft p.lastingDuration with
    | error e => simp [hs] at hr
    | ok q =>
      simp only [hs, Except.ok.injEq] at hr
      rw [← hr]
      exact setTimeLeft_loopInv _ _ _ _ hi.1 hM hs
theorem thunderBreak_equiv_observations (p : ThunderBreak.P) (x y : ThunderBreak.S) (h : ThunderBreak.Equiv x y) (t : Int) :
    ThunderBreak.validity p x = ThunderBreak.validity p y ∧
    ExceptEquiv ThunderBreak.Equiv (ThunderBreak.use p x) (ThunderBreak.use p y) ∧
    (ThunderBreak.elapse p t x).2 = (ThunderBreak.elapse p t y).2 ∧
    ThunderBreak.Equiv (ThunderBreak.elapse p t x).1 (ThunderBreak.elapse p t y).1 := by
  obtain ⟨xf, xs, xc, xp⟩ := x
  obtain ⟨yf, ys, yc, yp⟩ := y
  obtain ⟨hf, hs, hc, hp⟩ := h
  simp only at hf hs hc hp
  subst hf; subst hs; subst hc
  have hl := loopCore_peq (fun c => decide (p.maxCount < c)) (ThunderBreak.emit p xs.enabled) p.maxCount t xp yp xf hp
  refine ⟨rfl, ?_, ?_, ?_⟩
  · simp only [ThunderBreak.use, hp.setTimeLeft]
    split
    · exact ⟨rfl, rfl, rfl, rfl, hp⟩
    · cases yp.setTimeLeft p.lastingDuration with
      | error e => exact rfl
      | ok per => exact ⟨rfl, rfl, rfl, rfl, PEq.refl _⟩
  · simp only [ThunderBreak.elapse_eq]; rw [hl.1]
  · simp only [ThunderBreak.elapse_eq]
    exact ⟨by rw [hl.1], rfl, rfl, hl.2⟩

/-! non-vacuity: a Thunder Break that reaches its hit limit inside the second chunk, with the frost stack
    running down; the invariant holds for the state -/
example : ThunderBreak.Inv ⟨0, 0, 12, 10240000, 3, [100, 80, 64, 51, 40], "D", ["D", "M1", "M2"], ["S0", "S1", "S2"]⟩
    ⟨⟨2, 5⟩, { interval := 1 }, ⟨0⟩, { interval := 122880, intervalCounter := 122880, timeLeft := 10240000, count := 0 }⟩ := by
  decide
example : damages (ThunderBreak.elapse ⟨0, 0, 12, 10240000, 3, [100, 80, 64, 51, 40], "D", ["D", "M1", "M2"], ["S0", "S1", "S2"]⟩
    (600 * 1024)
    ⟨⟨2, 5⟩, { interval := 1 }, ⟨0⟩, { interval := 122880, intervalCounter := 122880, timeLeft := 10240000, count := 0 }⟩).2
    = [.dealtMod 80 12 "M2", .dealtMod 64 12 "M1", .dealt 51 12] := by decide

end Simaple.Props.C09_Mage
