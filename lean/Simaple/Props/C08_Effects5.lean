/- C08, effect discipline: kernel evaluation of the checker on part 5 of the generated table -/
import Simaple.Props.C08_EffectsBase

namespace Simaple.Props.C08
open Simaple.Effect Simaple.Gen.Effects

theorem chunk5_wellFormed : allWellFormed table5 = true := by decide +kernel

end Simaple.Props.C08
