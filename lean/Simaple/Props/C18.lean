/-
C18 — bonus-option inference is sound and complete.

Stated over the hand model `Simaple.Bonus` (lean/Simaple/Model/Bonus.lean) of
simaple/gear/compute/bonus.py, simaple/gear/bonus_factory.py and simaple/gear/improvements/bonus.py;
the model is tied to the code by harness/check_C18.py (identical answers on every explored input).

Vocabulary (Model/Bonus.lean):
* `compute m obs`        — `BonusCalculator().compute(stat, gear)`; `.error _` is the `ValueError`;
* `sumImprove m opts`    — the sum of `calculate_improvement(meta)` over the options;
* `ValidOptions m l`     — at most 4 options, pairwise distinct kinds, grades 1..7 and >= 3 on a boss reward;
* `m.WellFormed`         — `req_level >= 0` (all gears);
* `obs.WellFormed`       — the observed stat is non-negative in the single-valued fields and its four all-stat
                           multipliers agree (what a stat read from an item looks like; `compute` does not
                           validate this — see `malformed_observed_not_validated`).
-/
import Simaple.Proofs.BonusCompute

namespace Simaple.Props.C18
open Simaple.Bonus

/-- **Soundness.** Whatever `compute` returns consists of at most four options of pairwise distinct kinds with
    grades valid for the gear, and their improvements add up exactly to the observed stat. -/
theorem infer_sound (m : Meta) (obs : Obs) (res : List Opt) (hm : m.WellFormed) (ho : obs.WellFormed)
    (h : compute m obs = .ok res) :
    ValidOptions m res ∧ sumImprove m res = obs := by
  obtain ⟨new, r, left, hgr, hleft, hr, rfl⟩ := compute_ok_iff m obs res h
  obtain ⟨⟨hlen, hnd, hgv⟩, hsum⟩ := compute_sound_core m obs hm ho new r left hgr hleft hr
  have hp := sortByKey_perm (new ++ r)
  refine ⟨⟨?_, ?_, ?_⟩, ?_⟩
  · rw [hp.length_eq]; exact hlen
  · exact ((hp.map Prod.fst).nodup_iff).2 hnd
  · intro o ho'; exact hgv o ((hp.mem_iff).1 ho')
  · rw [sumImprove_perm m hp]; exact hsum

/-- **Completeness.** Whenever the observed stat is the sum of at most four valid options of pairwise distinct
    kinds, `compute` succeeds (it does not raise). -/
theorem infer_complete (m : Meta) (opts : List Opt) (hm : m.WellFormed) (hv : ValidOptions m opts) :
    ∃ res, compute m (sumImprove m opts) = .ok res :=
  compute_complete_core m hm opts hv

/-- Both together: from the stat produced by a valid option set, `compute` returns a valid option set with the
    same total (not necessarily the same set: different sets can have the same total). The side condition
    excludes only weapons whose base attack and base magic attack are both negative (no such gear exists). -/
theorem infer_roundtrip (m : Meta) (opts : List Opt) (hm : m.WellFormed)
    (hb : m.wclass = .notWeapon ∨ 0 ≤ m.baseAtt ∨ 0 ≤ m.baseMatt) (hv : ValidOptions m opts) :
    ∃ res, compute m (sumImprove m opts) = .ok res ∧ ValidOptions m res
      ∧ sumImprove m res = sumImprove m opts := by
  obtain ⟨res, hres⟩ := infer_complete m opts hm hv
  exact ⟨res, hres, infer_sound m _ res hm (sum_wellFormed m hm hb opts hv.2.2) hres⟩

/-- The all-stat multipliers of any sum of improvements agree, so the only content of the side condition of
    `infer_roundtrip` is non-negativity. -/
theorem sum_multipliers_agree (m : Meta) (opts : List Opt) :
    (sumImprove m opts).mul.d = (sumImprove m opts).mul.s ∧ (sumImprove m opts).mul.i = (sumImprove m opts).mul.s
      ∧ (sumImprove m opts).mul.l = (sumImprove m opts).mul.s :=
  mul_eq_sum m opts

/-- The recursive search on its own is sound and complete for its arguments (any number of free slots, any
    forbidden kinds): it answers iff some valid list exists, and its answer is one. -/
theorem search_recursive_exact (m : Meta) (hm : m.WellFormed) (left : Nat) (rem : V4) (forbidden : List Kind) :
    (∀ r, searchRec m left rem forbidden = some r → StatSol m left rem forbidden r)
      ∧ ((∃ S, StatSol m left rem forbidden S) → (searchRec m left rem forbidden).isSome = true) :=
  ⟨fun r h => searchRec_sound m left rem forbidden r h,
   fun ⟨S, hS⟩ => searchRec_complete m hm left rem forbidden S hS⟩

/-- `compute` does not validate its input: on an observed stat that is not well formed (only `STR_multiplier`
    set, as no all-stat option produces) it answers with options that do NOT add up to the observed stat.
    So the hypothesis `obs.WellFormed` of `infer_sound` cannot be dropped. -/
theorem malformed_observed_not_validated :
    ∃ (m : Meta) (obs : Obs) (res : List Opt),
      m.WellFormed ∧ compute m obs = .ok res ∧ sumImprove m res ≠ obs :=
  ⟨⟨160, true, .notWeapon, 0, 0⟩, { Obs.zero with mul := ⟨3, 0, 0, 0⟩ }, [(.allstat, 3)],
    by decide, by decide, by decide⟩

/-! ### non-vacuity: concrete instances -/

/-- level-160 boss-reward cape (tests/gear/compute/test_bonus.py, first case): STR 70, INT 79, all-stat 5 -/
example :
    compute ⟨160, true, .notWeapon, 0, 0⟩ ⟨⟨70, 0, 79, 0⟩, ⟨5, 5, 5, 5⟩, 0, 0, 0, 0, 0, 0⟩
      = .ok [(.str, 5), (.int, 6), (.strInt, 5), (.allstat, 5)] := by decide

example : (⟨⟨70, 0, 79, 0⟩, ⟨5, 5, 5, 5⟩, 0, 0, 0, 0, 0, 0⟩ : Obs).WellFormed := by decide
example : (⟨160, true, .notWeapon, 0, 0⟩ : Meta).WellFormed := by decide

/-- a valid 4-kind set on a level-200 boss weapon and what the inference makes of its total -/
example :
    ValidOptions ⟨200, true, .weapon, 295, 0⟩ [(.att, 7), (.boss, 6), (.strLuk, 3), (.luk, 4)] := by decide

example :
    compute ⟨200, true, .weapon, 295, 0⟩
        (sumImprove ⟨200, true, .weapon, 295, 0⟩ [(.att, 7), (.boss, 6), (.strLuk, 3), (.luk, 4)])
      = .ok [(.luk, 4), (.strLuk, 3), (.att, 7), (.boss, 6)] := by decide

/-- rejected: STR 1 is not a sum of options on a level-100 gear (single basis 6, dual basis 3) -/
example :
    compute ⟨100, false, .notWeapon, 0, 0⟩ { Obs.zero with sdil := ⟨1, 0, 0, 0⟩ }
      = .error "gear stat has invalid bonus value or has too many bonus values" := by decide

/-- rejected: five kinds are needed -/
example :
    compute ⟨100, false, .notWeapon, 0, 0⟩
        (sumImprove ⟨100, false, .notWeapon, 0, 0⟩ [(.mhp, 1), (.mmp, 2), (.boss, 3), (.allstat, 4), (.dmg, 5)])
      = .error "gear stat has too many bonus values" := by decide

end Simaple.Props.C18
