import Simaple.Proofs.ProviderLevels
import Simaple.Props.C16
/-!
# C16, part "Provider": the configured levels are the levels the builder sees

The theorems of `Props/C16.lean` speak about the table `skill_levels` the builder is given.  A user configures a
provider (`v_skill_level`, `hexa_skill_level`, `hexa_mastery_level`, the per-skill tables); this part closes the gap:
the table a provider hands to the builder holds, for every skill, exactly the level it was configured at, so "a
lower-tier skill is present exactly when its 6th-job replacement has level 0" holds for the CONFIGURED level.
-/
namespace Simaple.Props.C16
open Simaple.Model.Levels

/-- The skill-level table a provider produces holds, for every skill, exactly its configured level: its entry in
    `hexa_skill_levels`, else in `hexa_mastery_skill_levels`, else `hexa_mastery_level` for a mastery core,
    `hexa_skill_level` for an origin skill, `v_skill_level` for a V core; other names are not keys. -/
theorem provider_levels_are_the_configured_levels (c : ProviderLevels) (p : Profile) (r : List (String × Int))
    (h : c.skillLevels p = .ok r) (k : String) : lookup r k = configuredLevel c p k := by
  unfold ProviderLevels.skillLevels computeSkillLevels at h
  simp only [] at h
  split at h
  · cases h
  · split at h
    · cases h
    · simp only [Except.ok.injEq] at h
      subst h
      rw [lookup_dictUpdate, lookup_dictUpdate, lookup_getSkillLevels]
      unfold configuredLevel
      cases lookupLast c.hexaSkillLevels k <;> cases lookupLast c.hexaMasterySkillLevels k <;> rfl

/-- the three class levels reach their own class and no other: with no per-skill entry, a mastery core is built
    at `hexa_mastery_level` -/
theorem mastery_level_reaches_the_mastery_cores (c : ProviderLevels) (p : Profile) (r : List (String × Int))
    (h : c.skillLevels p = .ok r) (low high : String) (hm : (low, high) ∈ p.hexaMastery)
    (h1 : lookupLast c.hexaSkillLevels high = none) (h2 : lookupLast c.hexaMasterySkillLevels high = none) :
    lookup r high = some c.hexaMasteryLevel := by
  rw [provider_levels_are_the_configured_levels c p r h]
  have : high ∈ p.hexaMastery.map Prod.snd := List.mem_map.mpr ⟨(low, high), hm, rfl⟩
  simp [configuredLevel, h1, h2, this]

/-- … an origin skill that is not a mastery core at `hexa_skill_level` -/
theorem hexa_level_reaches_the_origin_skills (c : ProviderLevels) (p : Profile) (r : List (String × Int))
    (h : c.skillLevels p = .ok r) (k : String) (hk : k ∈ p.hexaSkillNames) (hn : k ∉ p.hexaMastery.map Prod.snd)
    (h1 : lookupLast c.hexaSkillLevels k = none) (h2 : lookupLast c.hexaMasterySkillLevels k = none) :
    lookup r k = some c.hexaSkillLevel := by
  rw [provider_levels_are_the_configured_levels c p r h]
  simp [configuredLevel, h1, h2, hn, hk]

/-- … a V core that is neither at `v_skill_level` -/
theorem v_level_reaches_the_v_cores (c : ProviderLevels) (p : Profile) (r : List (String × Int))
    (h : c.skillLevels p = .ok r) (k : String) (hk : k ∈ p.vSkillNames) (hn : k ∉ p.hexaMastery.map Prod.snd)
    (hh : k ∉ p.hexaSkillNames)
    (h1 : lookupLast c.hexaSkillLevels k = none) (h2 : lookupLast c.hexaMasterySkillLevels k = none) :
    lookup r k = some c.vSkillLevel := by
  rw [provider_levels_are_the_configured_levels c p r h]
  simp [configuredLevel, h1, h2, hn, hh, hk]

/-- The provider refuses (one of the two `assert`s) exactly when a per-skill table names something that is not a
    core of the job's profile; otherwise it answers. -/
theorem provider_levels_defined_iff (c : ProviderLevels) (p : Profile) :
    (∃ r, c.skillLevels p = .ok r) ↔
      ∀ x ∈ c.hexaSkillLevels ++ c.hexaMasterySkillLevels,
        x.1 ∈ p.hexaMastery.map Prod.snd ∨ x.1 ∈ p.hexaSkillNames ∨ x.1 ∈ p.vSkillNames := by
  have key : ∀ k, (lookup (p.getSkillLevels c.vSkillLevel c.hexaSkillLevel c.hexaMasteryLevel) k).isSome = true ↔
      (k ∈ p.hexaMastery.map Prod.snd ∨ k ∈ p.hexaSkillNames ∨ k ∈ p.vSkillNames) := by
    intro k
    rw [lookup_getSkillLevels]
    by_cases a : k ∈ p.hexaMastery.map Prod.snd <;> by_cases b : k ∈ p.hexaSkillNames <;>
      by_cases d : k ∈ p.vSkillNames <;> simp [a, b, d]
  unfold ProviderLevels.skillLevels computeSkillLevels
  simp only []
  constructor
  · rintro ⟨r, hr⟩
    split at hr
    · cases hr
    · rename_i h1
      split at hr
      · cases hr
      · rename_i h2
        intro x hx
        rcases List.mem_append.mp hx with hx | hx
        · exact (key x.1).mp ((firstUnknown_none_iff _ _).mp h1 x hx)
        · exact (key x.1).mp ((firstUnknown_none_iff _ _).mp h2 x hx)
  · intro hall
    have h1 : firstUnknown (p.getSkillLevels c.vSkillLevel c.hexaSkillLevel c.hexaMasteryLevel) c.hexaSkillLevels = none :=
      (firstUnknown_none_iff _ _).mpr fun x hx => (key x.1).mpr (hall x (List.mem_append_left _ hx))
    have h2 : firstUnknown (p.getSkillLevels c.vSkillLevel c.hexaSkillLevel c.hexaMasteryLevel) c.hexaMasterySkillLevels = none :=
      (firstUnknown_none_iff _ _).mpr fun x hx => (key x.1).mpr (hall x (List.mem_append_right _ hx))
    rw [h1, h2]
    exact ⟨_, rfl⟩

/-- The table is a dict: no skill has two levels. -/
theorem provider_levels_keys_unique (c : ProviderLevels) (p : Profile) (r : List (String × Int))
    (h : c.skillLevels p = .ok r) : (r.map Prod.fst).Nodup := by
  unfold ProviderLevels.skillLevels computeSkillLevels at h
  simp only [] at h
  split at h
  · cases h
  · split at h
    · cases h
    · simp only [Except.ok.injEq] at h
      subst h
      refine nodup_dictUpdate _ (nodup_dictUpdate _ ?_)
      unfold Profile.getSkillLevels
      exact nodup_dictUpdate _ (nodup_dictUpdate _ (nodup_dictUpdate _ (by simp)))

/-- configured levels that are all non-negative -/
def NonNeg (c : ProviderLevels) : Prop :=
  0 ≤ c.vSkillLevel ∧ 0 ≤ c.hexaSkillLevel ∧ 0 ≤ c.hexaMasteryLevel ∧
  (∀ x ∈ c.hexaSkillLevels, 0 ≤ x.2) ∧ (∀ x ∈ c.hexaMasterySkillLevels, 0 ≤ x.2)

theorem configuredLevel_nonneg (c : ProviderLevels) (p : Profile) (hc : NonNeg c) (k : String) :
    0 ≤ (configuredLevel c p k).getD 0 := by
  obtain ⟨hv, hh, hm, he, hem⟩ := hc
  unfold configuredLevel
  cases h1 : lookupLast c.hexaSkillLevels k with
  | some x => exact he _ (lookupLast_mem h1)
  | none =>
    cases h2 : lookupLast c.hexaMasterySkillLevels k with
    | some x => exact hem _ (lookupLast_mem h2)
    | none =>
      simp only []
      split
      · exact hm
      · split
        · exact hh
        · split
          · exact hv
          · simp

/-- **The exclusion rule in terms of what the user configured.**  For a provider with non-negative levels whose
    per-skill tables only name cores of the profile, and a component list that contains both skills of every
    replacement pair: the build keeps a lower-tier skill exactly when the CONFIGURED level of its 6th-job replacement
    is 0, and keeps every skill that is not a lower-tier name. -/
theorem lower_tier_present_iff_configured_level_zero (c : ProviderLevels) (p : Profile) (names : List String)
    (hc : NonNeg c) (r : List (String × Int)) (hr : c.skillLevels p = .ok r)
    (hn : ∀ q ∈ p.hexaMastery, q.1 ∈ names ∧ q.2 ∈ names) (hk : (p.hexaMastery.map Prod.fst).Nodup) :
    ∃ kept, excludeHexa names p.hexaMastery r = .ok kept ∧
      (∀ low high, (low, high) ∈ p.hexaMastery → (low ∈ kept ↔ (configuredLevel c p high).getD 0 = 0)) ∧
      (∀ n ∈ names, n ∉ p.hexaMastery.map Prod.fst → n ∈ kept) := by
  have hl : ∀ k, 0 ≤ (lookup r k).getD 0 := by
    intro k
    rw [provider_levels_are_the_configured_levels c p r hr]
    exact configuredLevel_nonneg c p hc k
  obtain ⟨kept, hok, h1, h2⟩ := exclude_hexa_level_zero names p.hexaMastery r hn hk hl
  refine ⟨kept, hok, ?_, h2⟩
  intro low high hm
  rw [h1 low high hm, provider_levels_are_the_configured_levels c p r hr]

/-- `hexa_improvement_levels`: a listed improvement at its own level, every other improvement of the profile at
    `hexa_improvements_level` -/
theorem provider_improvement_levels (c : ProviderLevels) (p : Profile) (r : List (String × Int))
    (h : c.improvementLevels p = .ok r) (k : String) :
    lookup r k = match lookupLast c.hexaImprovementLevels k with
      | some x => some x
      | none => if k ∈ p.hexaImprovementNames then some c.hexaImprovementsLevel else none := by
  unfold ProviderLevels.improvementLevels computeHexaImprovementLevels at h
  simp only [] at h
  split at h
  · cases h
  · simp only [Except.ok.injEq] at h
    subst h
    rw [lookup_dictUpdate, lookup_filled]
    cases lookupLast c.hexaImprovementLevels k <;> rfl

/-! ### non-vacuity: a profile with a replacement pair, mastery 0 next to origin level 1 -/

private def demoProfile : Profile :=
  { vSkillNames := ["v1"], hexaSkillNames := ["origin"], hexaMastery := [("low", "low VI")], hexaImprovementNames := ["imp"] }
private def demoCfg (m : Int) : ProviderLevels :=
  { vSkillLevel := 30, hexaSkillLevel := 1, hexaMasteryLevel := m, hexaImprovementsLevel := 0,
    hexaMasterySkillLevels := [], hexaSkillLevels := [], hexaImprovementLevels := [] }

example : (demoCfg 0).skillLevels demoProfile = .ok [("v1", 30), ("origin", 1), ("low VI", 0)] := by decide
example : NonNeg (demoCfg 0) := by simp [NonNeg, demoCfg]
example : excludeHexa ["low", "low VI", "v1"] demoProfile.hexaMastery [("v1", 30), ("origin", 1), ("low VI", 0)]
    = .ok ["low", "low VI", "v1"] := by decide
example : excludeHexa ["low", "low VI", "v1"] demoProfile.hexaMastery [("v1", 30), ("origin", 1), ("low VI", 7)]
    = .ok ["low VI", "v1"] := by decide
/-- the slip of swapping the origin and the mastery level is visible to the model -/
example : (demoCfg 0).skillLevels demoProfile ≠
    computeSkillLevels demoProfile [] [] 30 (demoCfg 0).hexaMasteryLevel (demoCfg 0).hexaSkillLevel := by decide

end Simaple.Props.C16
