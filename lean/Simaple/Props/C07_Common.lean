/-
C07 (part `Common`) — a rejected action changes nothing and answers with the rejection alone.
Per class of `Simaple/Model/ComponentCommon.lean`: `X_reject_alone` for every reducer that can reject,
`X_…_never_rejects` for the others.  `StackableBuffSkillComponent.use` is the exception: the real code
touches the stack before the cooldown test (known finding F8d) — `_partial` theorem + negation witness.
-/
import Simaple.Proofs.ComponentCommon

namespace Simaple.Props.C07_Common
open Simaple.Comp Simaple.Comp.Common Simaple.Entity

/-! ### SynergySkillComponent -/
theorem synergy_reject_alone (p : SynergySkill.P) (s : SynergySkill.S) (h : rejectedIn (SynergySkill.use p s).2 = true) :
    SynergySkill.use p s = (s, [.rejected]) := by
  unfold SynergySkill.use at h ⊢
  split
  · rfl
  · rename_i hc; simp [hc, rejectedIn, REv.isReject] at h
theorem synergy_elapse_never_rejects (p : SynergySkill.P) (t : Int) (s : SynergySkill.S) :
    rejectedIn (SynergySkill.elapse p t s).2 = false := by simp [SynergySkill.elapse, rejectedIn, REv.isReject]

/-! ### HitLimitedPeriodicDamageComponent -/
theorem hitLimited_reject_alone (p : HitLimited.P) (s : HitLimited.S) (r : HitLimited.S × List REv)
    (hr : HitLimited.use p s = .ok r) (h : rejectedIn r.2 = true) : r = (s, [.rejected]) := by
  unfold HitLimited.use at hr
  split at hr
  · simp at hr; exact hr.symm
  · cases hs : s.periodic.setTimeLeft p.lastingDuration with
    | error e => simp [hs] at hr
    | ok per => simp [hs] at hr; rw [← hr] at h; simp [rejectedIn, REv.isReject] at h
theorem hitLimited_elapse_never_rejects (p : HitLimited.P) (t : Int) (s : HitLimited.S) :
    rejectedIn (HitLimited.elapse p t s).2 = false := by
  simp [HitLimited.elapse, rejectedIn, REv.isReject, List.any_replicate]

/-! ### PeriodicDamageConfiguratedHexaSkillComponent -/
theorem periodicHexa_reject_alone (p : PeriodicHexa.P) (s : PeriodicHexa.S) (r : PeriodicHexa.S × List REv)
    (hr : PeriodicHexa.use p s = .ok r) (h : rejectedIn r.2 = true) : r = (s, [.rejected]) := by
  unfold PeriodicHexa.use at hr
  split at hr
  · simp at hr; exact hr.symm
  · cases hs : s.periodic.setTimeLeft p.lastingDuration with
    | error e => simp [hs] at hr
    | ok per =>
      simp [hs] at hr; rw [← hr] at h
      simp [rejectedIn_append, rejectedIn_dealtAll] at h
      simp [rejectedIn, REv.isReject] at h
theorem periodicHexa_elapse_never_rejects (p : PeriodicHexa.P) (t : Int) (s : PeriodicHexa.S) :
    rejectedIn (PeriodicHexa.elapse p t s).2 = false := by
  simp [PeriodicHexa.elapse, rejectedIn, REv.isReject, List.any_replicate]

/-! ### TriplePeriodicDamageHexaComponent -/
theorem tripleHexa_reject_alone (p : TripleHexa.P) (s : TripleHexa.S) (r : TripleHexa.S × List REv)
    (hr : TripleHexa.use p s = .ok r) (h : rejectedIn r.2 = true) : r = (s, [.rejected]) := by
  unfold TripleHexa.use at hr
  split at hr
  · simp at hr; exact hr.symm
  · cases h1 : s.p1.setTimeLeft p.lastingDuration with
    | error e => simp [h1] at hr
    | ok q1 =>
      cases h2 : s.p2.setTimeLeft p.lastingDuration with
      | error e => simp [h1, h2] at hr
      | ok q2 =>
        cases h3 : s.p3.setTimeLeft p.lastingDuration with
        | error e => simp [h1, h2, h3] at hr
        | ok q3 =>
          simp [h1, h2, h3] at hr; rw [← hr] at h
          simp [rejectedIn_append, rejectedIn_dealtAll] at h
          simp [rejectedIn, REv.isReject] at h
theorem tripleHexa_elapse_never_rejects (p : TripleHexa.P) (t : Int) (s : TripleHexa.S) :
    rejectedIn (TripleHexa.elapse p t s).2 = false := by
  simp [TripleHexa.elapse, TripleHexa.ticks, rejectedIn, REv.isReject, List.any_replicate]

/-! ### MultipleHitHexaSkillComponent -/
theorem multipleHit_reject_alone (p : MultipleHit.P) (s : MultipleHit.S) (h : rejectedIn (MultipleHit.use p s).2 = true) :
    MultipleHit.use p s = (s, [.rejected]) := by
  unfold MultipleHit.use at h ⊢
  split
  · rfl
  · rename_i hc
    simp only [hc] at h
    simp [rejectedIn_append, rejectedIn_dealtAll] at h
    simp [rejectedIn, REv.isReject] at h
theorem multipleHit_elapse_never_rejects (p : MultipleHit.P) (t : Int) (s : MultipleHit.S) :
    rejectedIn (MultipleHit.elapse p t s).2 = false := by simp [MultipleHit.elapse, rejectedIn, REv.isReject]

/-! ### ConsumableBuffSkillComponent -/
theorem consumableBuff_reject_alone (p : ConsumableBuff.P) (s : ConsumableBuff.S)
    (h : rejectedIn (ConsumableBuff.use p s).2 = true) : ConsumableBuff.use p s = (s, [.rejected]) := by
  unfold ConsumableBuff.use at h ⊢
  split
  · rfl
  · rename_i hc; simp [hc, rejectedIn, REv.isReject] at h
theorem consumableBuff_elapse_never_rejects (p : ConsumableBuff.P) (t : Int) (s : ConsumableBuff.S) :
    rejectedIn (ConsumableBuff.elapse p t s).2 = false := by simp [ConsumableBuff.elapse, rejectedIn, REv.isReject]

/-! ### StackableBuffSkillComponent — known finding F8d -/

/-- FULL STATEMENT (false for the real code): `rejectedIn (use p s).2 = true → use p s = (s, [.rejected])`.
    PROVED: a rejected `use` answers the rejection alone and leaves the cooldown and the buff timer alone;
    the only change is the one made before the cooldown test (`bumped`: the stack is reset if the buff is
    over, then increased).  MISSING: `bumped s = s`, which is false — see `stackableBuff_reject_changes_stack`. -/
theorem stackableBuff_reject_alone_partial (p : StackableBuff.P) (s : StackableBuff.S)
    (h : rejectedIn (StackableBuff.use p s).2 = true) :
    StackableBuff.use p s = (StackableBuff.bumped s, [.rejected]) ∧
    (StackableBuff.bumped s).cooldown = s.cooldown ∧ (StackableBuff.bumped s).lasting = s.lasting := by
  refine ⟨?_, rfl, rfl⟩
  unfold StackableBuff.use at h ⊢
  simp only [] at h ⊢
  split
  · rfl
  · rename_i hc; simp [hc, rejectedIn, REv.isReject] at h
/-- the negation witness (F8d): cooldown 30 s running, buff on with one stack — `use` is rejected and the
    stack goes 1 → 2 -/
theorem stackableBuff_reject_changes_stack :
    ∃ (p : StackableBuff.P) (s : StackableBuff.S),
      rejectedIn (StackableBuff.use p s).2 = true ∧ (StackableBuff.use p s).1 ≠ s ∧
      s.stack.stack = 1 ∧ (StackableBuff.use p s).1.stack.stack = 2 :=
  ⟨⟨ms 30000, ms 60000, 0, false⟩, ⟨⟨ms 29000⟩, ⟨ms 59000, ms 60000⟩, ⟨1, 5⟩⟩, by decide⟩
/-- when the stack is already full and the buff is on, a rejected `use` does change nothing -/
theorem stackableBuff_reject_alone_when_full (p : StackableBuff.P) (s : StackableBuff.S)
    (hon : 0 < s.lasting.timeLeft) (hfull : s.stack.stack = s.stack.maximumStack)
    (h : rejectedIn (StackableBuff.use p s).2 = true) : StackableBuff.use p s = (s, [.rejected]) := by
  have hb : StackableBuff.bumped s = s := by
    unfold StackableBuff.bumped
    have : ¬ s.lasting.timeLeft ≤ 0 := by omega
    simp only [this, if_false, Stack.increase]
    cases s with
    | mk c l st =>
      cases st with
      | mk a b =>
        simp only [] at hfull ⊢
        subst hfull
        congr 2
        omega
  have := (stackableBuff_reject_alone_partial p s h).1
  rw [hb] at this; exact this
theorem stackableBuff_elapse_never_rejects (p : StackableBuff.P) (t : Int) (s : StackableBuff.S) :
    rejectedIn (StackableBuff.elapse p t s).2 = false := by simp [StackableBuff.elapse, rejectedIn, REv.isReject]

/-! ### TemporalEnhancingAttackSkill -/
theorem temporal_reject_alone (p : TemporalEnhancing.P) (s : TemporalEnhancing.S)
    (h : rejectedIn (TemporalEnhancing.use p s).2 = true) : TemporalEnhancing.use p s = (s, [.rejected]) := by
  unfold TemporalEnhancing.use at h ⊢
  split
  · rfl
  · rename_i hc
    exfalso
    rw [if_neg hc] at h
    simp only [] at h
    by_cases hr : s.reforgedCooldown.available = true
    · rw [if_pos hr] at h
      simp [rejectedIn_append, rejectedIn_replicate_dealt] at h
      simp [rejectedIn, REv.isReject] at h
    · rw [if_neg hr] at h
      simp [rejectedIn, REv.isReject] at h
theorem temporal_elapse_never_rejects (p : TemporalEnhancing.P) (t : Int) (s : TemporalEnhancing.S) :
    rejectedIn (TemporalEnhancing.elapse p t s).2 = false := by
  simp [TemporalEnhancing.elapse, rejectedIn, REv.isReject]

/-! ### PeriodicWithFinishSkillComponent -/
theorem periodicWithFinish_reject_alone (p : PeriodicWithFinish.P) (s : PeriodicWithFinish.S)
    (r : PeriodicWithFinish.S × List REv) (hr : PeriodicWithFinish.use p s = .ok r) (h : rejectedIn r.2 = true) :
    r = (s, [.rejected]) := by
  unfold PeriodicWithFinish.use at hr
  split at hr
  · simp at hr; exact hr.symm
  · cases hs : s.periodic.setTimeLeft p.lastingDuration with
    | error e => simp [hs] at hr
    | ok per => simp [hs] at hr; rw [← hr] at h; simp [rejectedIn, REv.isReject] at h
theorem periodicWithFinish_elapse_never_rejects (p : PeriodicWithFinish.P) (t : Int) (s : PeriodicWithFinish.S) :
    rejectedIn (PeriodicWithFinish.elapse p t s).2 = false := by
  unfold PeriodicWithFinish.elapse
  simp only []
  split <;> simp [rejectedIn, REv.isReject, List.any_replicate]

/-! ### MobComponent: neither reducer ever rejects -/
theorem mob_never_rejects (render : Rat → String) (s : DOT) (name : String) (damage : Rat) (lasting t : Int) :
    rejectedIn (Mob.addDotEv s name damage lasting).2 = false ∧ rejectedIn (Mob.elapseEv render s t).2 = false := by
  constructor
  · rfl
  · simp [Mob.elapseEv, rejectedIn, List.any_map, Mob.dotEvent, REv.isReject]

/-! non-vacuity: a rejected use exists for each kind of guard -/
example : rejectedIn (SynergySkill.use ⟨ms 1000, ms 500, 0, 1, 1, false⟩ ⟨⟨ms 10⟩, ⟨0, 0⟩⟩).2 = true := by decide
example : rejectedIn (ConsumableBuff.use ⟨ms 1000, 0, ms 1000⟩ ⟨⟨2, 0, ms 500, ms 100⟩, ⟨0, 0⟩⟩).2 = true := by decide
example : ∃ r, HitLimited.use ⟨ms 1000, 0, 1, 1, ms 500, 3⟩ ⟨⟨ms 10⟩, { interval := ms 100 }⟩ = .ok r ∧
    rejectedIn r.2 = true := ⟨_, rfl, by decide⟩

end Simaple.Props.C07_Common
